(* Relative-error calculus of the standard model of floating-point arithmetic
   ([rnd_rel], [within]: Model/MetricRdepth.v), and the generic theorem about rounded sums of
   non-negative terms ([rsum]: the left fold of Model/MetricRnd.v).

   All bounds are in the closed forms (1+u)^k and (1-u)^k, never linearised, so the only side
   condition is 0 <= u < 1. *)
From Coq Require Import Reals List Lra Lia Arith.
From OPF Require Import Spec.MetricSpec Model.MetricRnd Model.MetricRdepth.
Import ListNotations.
Open Scope R_scope.

Lemma Rabs_le_inv a b : Rabs a <= b -> - b <= a <= b.
Proof. unfold Rabs. destruct (Rcase_abs a); lra. Qed.

(* ---------- powers of 1+u and 1-u ---------- *)
Lemma pu_ge1 u k : 0 <= u -> 1 <= (1 + u) ^ k.
Proof. intros H. apply pow_R1_Rle. lra. Qed.

Lemma pu_pos u k : 0 <= u -> 0 < (1 + u) ^ k.
Proof. intros H. pose proof (pu_ge1 u k H). lra. Qed.

Lemma mu_pos u k : u < 1 -> 0 < (1 - u) ^ k.
Proof. intros H. apply pow_lt. lra. Qed.

Lemma mu_le1 u k : 0 <= u -> u < 1 -> (1 - u) ^ k <= 1.
Proof.
  intros H0 H1. induction k as [|k IH]; cbn [pow]; [lra|].
  pose proof (mu_pos u k H1). nra.
Qed.

Lemma pu_mono u k k' : 0 <= u -> (k <= k')%nat -> (1 + u) ^ k <= (1 + u) ^ k'.
Proof. intros H L. apply Rle_pow; [lra | exact L]. Qed.

Lemma mu_anti u k k' : 0 <= u -> u < 1 -> (k <= k')%nat -> (1 - u) ^ k' <= (1 - u) ^ k.
Proof.
  intros H0 H1 L. replace k' with (k + (k' - k))%nat by lia. rewrite pow_add.
  pose proof (mu_pos u k H1). pose proof (mu_le1 u (k' - k) H0 H1). pose proof (mu_pos u (k' - k) H1). nra.
Qed.

Lemma mu_le_pu u k : 0 <= u -> u < 1 -> (1 - u) ^ k <= (1 + u) ^ k.
Proof. intros H0 H1. pose proof (mu_le1 u k H0 H1). pose proof (pu_ge1 u k H0). lra. Qed.

(* the lower deviation never exceeds the upper one: 1 - (1-u)^k <= (1+u)^k - 1 *)
Lemma dev_lower_le_upper u k : 0 <= u -> u < 1 -> 1 - (1 - u) ^ k <= (1 + u) ^ k - 1.
Proof.
  intros H0 H1. induction k as [|k IH]; cbn [pow]; [lra|].
  pose proof (mu_le_pu u k H0 H1). nra.
Qed.

(* ---------- [within] ---------- *)
Section Within.
  Variable u : R.
  Hypothesis U0 : 0 <= u.
  Hypothesis U1 : u < 1.
  Local Notation W := (within u).

  Lemma within_refl t : W 0 t t.
  Proof. exists 1. cbn [pow]. split; [ring | lra]. Qed.

  Lemma within_0 t t' : W 0 t t' -> t' = t.
  Proof. intros [rho [E [L H]]]. cbn [pow] in *. subst. replace rho with 1 by lra. ring. Qed.

  Lemma within_weaken k k' t t' : (k <= k')%nat -> W k t t' -> W k' t t'.
  Proof.
    intros L [rho [E [Lo Hi]]]. exists rho. split; [exact E|]. split.
    - eapply Rle_trans; [apply (mu_anti u k k' U0 U1 L) | exact Lo].
    - eapply Rle_trans; [exact Hi | apply (pu_mono u k k' U0 L)].
  Qed.

  Lemma within_rho_pos k rho : (1 - u) ^ k <= rho -> 0 < rho.
  Proof. intros H. pose proof (mu_pos u k U1). lra. Qed.

  (* for a non-negative exact value: a two-sided bound *)
  Lemma within_nonneg_elim k t t' :
    0 <= t -> W k t t' -> (1 - u) ^ k * t <= t' <= (1 + u) ^ k * t.
  Proof. intros Ht [rho [E [Lo Hi]]]. subst. split; nra. Qed.

  Lemma within_nonneg_intro k t t' :
    0 <= t -> (1 - u) ^ k * t <= t' <= (1 + u) ^ k * t -> W k t t'.
  Proof.
    intros Ht [Lo Hi]. destruct (Req_dec t 0) as [E|NE].
    - subst. exists 1. split; [lra|]. split; [apply (mu_le1 u k U0 U1) | apply (pu_ge1 u k U0)].
    - assert (Hp : 0 < t) by lra. exists (t' / t). split; [field; lra|]. split.
      + apply Rmult_le_reg_r with t; [exact Hp|]. unfold Rdiv. rewrite Rmult_assoc, Rinv_l by lra. lra.
      + apply Rmult_le_reg_r with t; [exact Hp|]. unfold Rdiv. rewrite Rmult_assoc, Rinv_l by lra. lra.
  Qed.

  Lemma within_nonneg_val k t t' : 0 <= t -> W k t t' -> 0 <= t'.
  Proof.
    intros Ht [rho [E [Lo Hi]]]. subst. pose proof (within_rho_pos k rho Lo). nra.
  Qed.

  Lemma within_sign_pos k t t' : 0 < t -> W k t t' -> 0 < t'.
  Proof. intros Ht [rho [E [Lo Hi]]]. subst. pose proof (within_rho_pos k rho Lo). nra. Qed.

  (* the headline form: |t' - t| <= ((1+u)^k - 1) |t| *)
  Lemma within_abs k t t' : W k t t' -> Rabs (t' - t) <= ((1 + u) ^ k - 1) * Rabs t.
  Proof.
    intros [rho [E [Lo Hi]]]. subst. replace (t * rho - t) with (t * (rho - 1)) by ring.
    rewrite Rabs_mult, Rmult_comm. apply Rmult_le_compat_r; [apply Rabs_pos|].
    pose proof (dev_lower_le_upper u k U0 U1). unfold Rabs. destruct (Rcase_abs (rho - 1)); lra.
  Qed.

  Lemma within_abs_nonneg k t t' : 0 <= t -> W k t t' -> Rabs (t' - t) <= ((1 + u) ^ k - 1) * t.
  Proof. intros Ht H. pose proof (within_abs k t t' H) as A. rewrite (Rabs_pos_eq t Ht) in A. exact A. Qed.

  (* ---- one rounding ---- *)
  Section Rnd.
    Variable rnd : R -> R.
    Hypothesis REL : rnd_rel u rnd.

    Lemma within_rnd k t t' : W k t t' -> W (S k) t (rnd t').
    Proof.
      intros [rho [E [Lo Hi]]]. destruct (REL t') as [d [Hd Er]]. apply Rabs_le_inv in Hd.
      exists (rho * (1 + d)). split; [rewrite Er, E; ring|]. cbn [pow].
      pose proof (within_rho_pos k rho Lo). pose proof (mu_pos u k U1). pose proof (pu_pos u k U0).
      split; nra.
    Qed.

    Lemma rnd_rel_zero : rnd 0 = 0.
    Proof. destruct (REL 0) as [d [_ E]]. rewrite E. ring. Qed.

    Lemma rnd_rel_pos t : 0 < t -> 0 < rnd t.
    Proof. intros H. destruct (REL t) as [d [Hd E]]. apply Rabs_le_inv in Hd. rewrite E. nra. Qed.

    Lemma rnd_rel_neg t : t < 0 -> rnd t < 0.
    Proof. intros H. destruct (REL t) as [d [Hd E]]. apply Rabs_le_inv in Hd. rewrite E. nra. Qed.
  End Rnd.

  (* ---- exact operations on computed values ---- *)
  Lemma within_mul k1 k2 a a' b b' : W k1 a a' -> W k2 b b' -> W (k1 + k2) (a * b) (a' * b').
  Proof.
    intros [r1 [E1 [L1 H1]]] [r2 [E2 [L2 H2]]]. exists (r1 * r2). split; [subst; ring|].
    rewrite !pow_add.
    pose proof (within_rho_pos k1 r1 L1). pose proof (within_rho_pos k2 r2 L2).
    pose proof (mu_pos u k1 U1). pose proof (mu_pos u k2 U1). split; nra.
  Qed.

  Lemma within_sq k a a' : W k a a' -> W (2 * k) (a ^ 2) (a' ^ 2).
  Proof.
    intros H. replace (a ^ 2) with (a * a) by ring. replace (a' ^ 2) with (a' * a') by ring.
    replace (2 * k)%nat with (k + k)%nat by lia. now apply within_mul.
  Qed.

  Lemma within_opp k a a' : W k a a' -> W k (- a) (- a').
  Proof. intros [r [E B]]. exists r. split; [subst; ring | exact B]. Qed.

  Lemma within_abs_val k a a' : W k a a' -> W k (Rabs a) (Rabs a').
  Proof.
    intros [r [E [L H]]]. exists r. split; [|split; assumption]. subst.
    rewrite Rabs_mult. f_equal. apply Rabs_pos_eq. pose proof (within_rho_pos k r L). lra.
  Qed.

  Lemma within_div_exact k a a' b : W k a a' -> W k (a / b) (a' / b).
  Proof. intros [r [E B]]. exists r. split; [subst; unfold Rdiv; ring | exact B]. Qed.

  Lemma half_up_double k : (k <= 2 * half_up k)%nat.
  Proof.
    unfold half_up. pose proof (Nat.div_mod (S k) 2 ltac:(lia)) as D.
    pose proof (Nat.mod_upper_bound (S k) 2 ltac:(lia)). lia.
  Qed.

  Lemma within_sqrt k a a' : 0 <= a -> W k a a' -> W (half_up k) (sqrt a) (sqrt a').
  Proof.
    intros Ha [r [E [L H]]]. pose proof (within_rho_pos k r L) as Rp.
    exists (sqrt r). split; [subst; apply sqrt_mult; lra|].
    set (h := half_up k). pose proof (half_up_double k) as D. fold h in D.
    assert (P2 : forall z, 0 <= z -> sqrt (z ^ (2 * h)) = z ^ h).
    { intros z Hz. replace (2 * h)%nat with (h + h)%nat by lia. rewrite pow_add.
      apply sqrt_square. apply pow_le. exact Hz. }
    split.
    - rewrite <- (P2 (1 - u)) by lra. apply sqrt_le_1_alt.
      eapply Rle_trans; [apply (mu_anti u k (2 * h) U0 U1 D) | exact L].
    - rewrite <- (P2 (1 + u)) by lra. apply sqrt_le_1_alt.
      eapply Rle_trans; [exact H | apply (pu_mono u k (2 * h) U0 D)].
  Qed.

  (* no cancellation: a sum of two non-negative values *)
  Lemma within_add_nonneg k1 k2 a a' b b' :
    0 <= a -> 0 <= b -> W k1 a a' -> W k2 b b' -> W (Nat.max k1 k2) (a + b) (a' + b').
  Proof.
    intros Ha Hb H1 H2.
    apply (within_weaken k1 (Nat.max k1 k2)) in H1; [|lia].
    apply (within_weaken k2 (Nat.max k1 k2)) in H2; [|lia].
    apply (within_nonneg_elim _ _ _ Ha) in H1. apply (within_nonneg_elim _ _ _ Hb) in H2.
    apply within_nonneg_intro; lra.
  Qed.

  (* ---------- lists ---------- *)
  Lemma Forall2_len {A B} (P : A -> B -> Prop) l l' : Forall2 P l l' -> length l = length l'.
  Proof. induction 1; cbn [length]; congruence. Qed.

  Lemma rb_sum_cons a l : sum (a :: l) = a + sum l.
  Proof. reflexivity. Qed.

  Lemma sum_nonneg l : Forall (fun t => 0 <= t) l -> 0 <= sum l.
  Proof. induction 1 as [|a l Ha Hl IH]; [unfold sum; cbn; lra | rewrite rb_sum_cons; lra]. Qed.

  Lemma sum_pos l : Forall (fun t => 0 < t) l -> (1 <= length l)%nat -> 0 < sum l.
  Proof.
    intros HF HL. destruct l as [|a l]; [cbn in HL; lia|]. inversion HF as [|a0 l0 Ha Hl]; subst.
    rewrite rb_sum_cons. assert (0 <= sum l); [|lra]. apply sum_nonneg. revert Hl. apply Forall_impl. intros; lra.
  Qed.

  (* entrywise bounds add up *)
  Lemma sum_within k l l' :
    Forall2 (W k) l l' -> Forall (fun t => 0 <= t) l -> W k (sum l) (sum l').
  Proof.
    intros H2 HN. apply within_nonneg_intro; [now apply sum_nonneg|].
    induction H2 as [|a a' l l' Ha Hl IH]; [unfold sum; cbn; lra|].
    inversion HN as [|a0 l0 Na Nl]; subst. rewrite !rb_sum_cons.
    pose proof (within_nonneg_elim _ _ _ Na Ha). specialize (IH Nl). lra.
  Qed.

  Lemma Forall2_within_nonneg k l l' :
    Forall2 (W k) l l' -> Forall (fun t => 0 <= t) l -> Forall (fun t => 0 <= t) l'.
  Proof.
    induction 1 as [|a a' l l' Ha Hl IH]; intros HN; [constructor|].
    inversion HN as [|a0 l0 Na Nl]; subst. constructor; [now apply (within_nonneg_val k a) | now apply IH].
  Qed.

  Section RSum.
    Variable rnd : R -> R.
    Hypothesis REL : rnd_rel u rnd.

    (* the left fold, started at [acc]: j roundings *)
    Lemma fold_rsum_bounds l : forall acc s j,
      Forall (fun t => 0 <= t) l -> 0 <= s ->
      (1 - u) ^ j * s <= acc <= (1 + u) ^ j * s ->
      (1 - u) ^ (j + length l) * (s + sum l)
        <= fold_left (fun a e => rnd (a + e)) l acc
        <= (1 + u) ^ (j + length l) * (s + sum l).
    Proof.
      induction l as [|e l IH]; intros acc s j HN Hs B.
      - cbn [fold_left length]. rewrite Nat.add_0_r. unfold sum; cbn [fold_right]. rewrite Rplus_0_r. exact B.
      - inversion HN as [|e0 l0 He Hl]; subst. cbn [fold_left length]. rewrite rb_sum_cons.
        replace (j + S (length l))%nat with (S j + length l)%nat by lia.
        replace (s + (e + sum l)) with ((s + e) + sum l) by ring.
        apply IH; [exact Hl | lra|].
        destruct (REL (acc + e)) as [d [Hd Er]]. apply Rabs_le_inv in Hd. rewrite Er. cbn [pow].
        pose proof (mu_pos u j U1) as M0. pose proof (mu_le1 u j U0 U1) as M1. pose proof (pu_ge1 u j U0) as P1.
        assert (A0 : 0 <= acc) by nra.
        assert (Lo : (1 - u) ^ j * (s + e) <= acc + e) by nra.
        assert (Hi : acc + e <= (1 + u) ^ j * (s + e)) by nra.
        assert (S0 : 0 <= (1 - u) ^ j * (s + e)) by nra.
        split.
        + apply Rle_trans with ((1 - u) * (acc + e)); [nra|]. rewrite (Rmult_comm (acc + e)).
          apply Rmult_le_compat_r; lra.
        + apply Rle_trans with ((1 + u) * (acc + e)); [|nra]. rewrite (Rmult_comm (acc + e)).
          apply Rmult_le_compat_r; lra.
    Qed.

    (* A1.  n non-negative values: the rounded left-fold sum is within (1 -+ u)^(n-1) of their exact sum *)
    Theorem rsum_bounds l :
      Forall (fun t => 0 <= t) l ->
      (1 - u) ^ (Nat.pred (length l)) * sum l <= rsum rnd l <= (1 + u) ^ (Nat.pred (length l)) * sum l.
    Proof.
      intros HN. destruct l as [|a l].
      - cbn [rsum length Nat.pred pow]. unfold sum; cbn. lra.
      - inversion HN as [|a0 l0 Ha Hl]; subst. cbn [rsum length Nat.pred]. rewrite rb_sum_cons.
        apply (fold_rsum_bounds l a a 0%nat Hl Ha). cbn [pow]. lra.
    Qed.

    Theorem rsum_within l : Forall (fun t => 0 <= t) l -> W (Nat.pred (length l)) (sum l) (rsum rnd l).
    Proof. intros HN. apply within_nonneg_intro; [now apply sum_nonneg | now apply rsum_bounds]. Qed.

    (* A2.  terms t_i >= 0 computed within [(1-e') t_i, (1+e) t_i] *)
    Theorem rsum_terms_bounds e e' l l' :
      0 <= e -> 0 <= e' <= 1 ->
      Forall2 (fun t t' => 0 <= t /\ (1 - e') * t <= t' <= (1 + e) * t) l l' ->
      (1 - e') * (1 - u) ^ (Nat.pred (length l)) * sum l
        <= rsum rnd l'
        <= (1 + e) * (1 + u) ^ (Nat.pred (length l)) * sum l.
    Proof.
      intros He He' H2.
      assert (HL : length l' = length l) by (symmetry; eapply Forall2_len; exact H2).
      assert (HN' : Forall (fun t => 0 <= t) l').
      { clear HL. induction H2 as [|t t' l l' [H0 [Lo Hi]] Hl IH]; constructor; [nra | exact IH]. }
      assert (HS : 0 <= sum l /\ (1 - e') * sum l <= sum l' <= (1 + e) * sum l).
      { clear HL HN'. induction H2 as [|t t' l l' [H0 [Lo Hi]] Hl IH]; [unfold sum; cbn; lra|].
        rewrite !rb_sum_cons. lra. }
      pose proof (rsum_bounds l' HN') as [Lo Hi]. rewrite HL in Lo, Hi.
      pose proof (mu_pos u (Nat.pred (length l)) U1). pose proof (pu_pos u (Nat.pred (length l)) U0).
      destruct HS as [S0 [SL SH]]. split.
      - eapply Rle_trans; [|exact Lo]. rewrite Rmult_assoc, (Rmult_comm (1 - e')), Rmult_assoc.
        apply Rmult_le_compat_l; lra.
      - eapply Rle_trans; [exact Hi|]. rewrite Rmult_assoc, (Rmult_comm (1 + e)), Rmult_assoc.
        apply Rmult_le_compat_l; lra.
    Qed.

    (* A3.  terms k roundings deep: the sum is k + (n-1) roundings deep *)
    Theorem rsum_terms_within k l l' :
      Forall2 (W k) l l' -> Forall (fun t => 0 <= t) l ->
      W (k + Nat.pred (length l)) (sum l) (rsum rnd l').
    Proof.
      intros H2 HN.
      assert (HL : length l' = length l) by (symmetry; eapply Forall2_len; exact H2).
      pose proof (sum_within k l l' H2 HN) as [r1 [E1 B1]].
      pose proof (rsum_within l' (Forall2_within_nonneg k l l' H2 HN)) as [r2 [E2 B2]]. rewrite HL in B2.
      exists (r1 * r2). split; [rewrite E2, E1; ring|]. rewrite !pow_add.
      destruct B1 as [L1 H1]. destruct B2 as [L2 H2'].
      pose proof (within_rho_pos _ _ L1). pose proof (within_rho_pos _ _ L2).
      pose proof (mu_pos u k U1). pose proof (mu_pos u (Nat.pred (length l)) U1). split; nra.
    Qed.

    (* ... in the classical closed form *)
    Theorem rsum_terms_abs k l l' :
      Forall2 (W k) l l' -> Forall (fun t => 0 <= t) l ->
      Rabs (rsum rnd l' - sum l) <= ((1 + u) ^ (k + Nat.pred (length l)) - 1) * sum l.
    Proof.
      intros H2 HN. apply within_abs_nonneg; [now apply sum_nonneg | now apply rsum_terms_within].
    Qed.
  End RSum.

  (* np.amax of non-negative values *)
  Lemma Rmax_within k a a' b b' :
    0 <= a -> 0 <= b -> W k a a' -> W k b b' -> W k (Rmax a b) (Rmax a' b').
  Proof.
    intros Ha Hb H1 H2.
    apply (within_nonneg_elim _ _ _ Ha) in H1. apply (within_nonneg_elim _ _ _ Hb) in H2.
    pose proof (mu_pos u k U1). pose proof (pu_pos u k U0).
    apply within_nonneg_intro.
    - unfold Rmax. destruct (Rle_dec a b); lra.
    - unfold Rmax. destruct (Rle_dec a b); destruct (Rle_dec a' b'); split; try lra; nra.
  Qed.

  Lemma lmax_within k l l' :
    Forall2 (W k) l l' -> Forall (fun t => 0 <= t) l -> W k (lmax l) (lmax l').
  Proof.
    intros H2 HN. destruct H2 as [|a a' l l' Ha Hl]; [cbn [lmax]; apply within_weaken with 0%nat; [lia | apply within_refl]|].
    inversion HN as [|a0 l0 Na Nl]; subst. clear HN. cbn [lmax]. revert a a' Ha Na.
    induction Hl as [|e e' l l' He Hl IH]; intros a a' Ha Na; cbn [fold_left]; [exact Ha|].
    inversion Nl as [|e0 l0 Ne Nl']; subst. apply IH; [exact Nl'| |].
    - now apply Rmax_within.
    - unfold Rmax. destruct (Rle_dec a e); lra.
  Qed.

  Lemma Forall2_within0_eq l l' : Forall2 (W 0) l l' -> l' = l.
  Proof. induction 1 as [|a a' l l' Ha Hl IH]; [reflexivity|]. rewrite (within_0 _ _ Ha), IH. reflexivity. Qed.
End Within.

(* ---------- the generic theorems, closed ---------- *)
Theorem rnd_rel_sign u rnd : 0 <= u < 1 -> rnd_rel u rnd ->
  rnd 0 = 0 /\ (forall t, 0 < t -> 0 < rnd t) /\ (forall t, t < 0 -> rnd t < 0).
Proof.
  intros [U0 U1] REL. split; [now apply (rnd_rel_zero u)|].
  split; intros t Ht; [now apply (rnd_rel_pos u U1) | now apply (rnd_rel_neg u U1)].
Qed.

Theorem rsum_bounds_std u rnd : 0 <= u < 1 -> rnd_rel u rnd ->
  forall l, Forall (fun t => 0 <= t) l ->
  (1 - u) ^ (Nat.pred (length l)) * sum l <= rsum rnd l <= (1 + u) ^ (Nat.pred (length l)) * sum l.
Proof. intros [U0 U1] REL l. now apply rsum_bounds. Qed.

Theorem rsum_terms_bounds_std u rnd : 0 <= u < 1 -> rnd_rel u rnd ->
  forall e e' l l', 0 <= e -> 0 <= e' <= 1 ->
  Forall2 (fun t t' => 0 <= t /\ (1 - e') * t <= t' <= (1 + e) * t) l l' ->
  (1 - e') * (1 - u) ^ (Nat.pred (length l)) * sum l
    <= rsum rnd l'
    <= (1 + e) * (1 + u) ^ (Nat.pred (length l)) * sum l.
Proof. intros [U0 U1] REL e e' l l'. now apply rsum_terms_bounds. Qed.

(* terms at most k roundings deep: the closed form, no side condition on k, n, u *)
Theorem rsum_terms_closed_std u rnd : 0 <= u < 1 -> rnd_rel u rnd ->
  forall k l l',
  Forall2 (fun t t' => 0 <= t /\ (1 - u) ^ k * t <= t' <= (1 + u) ^ k * t) l l' ->
  (1 - u) ^ (k + Nat.pred (length l)) * sum l <= rsum rnd l' <= (1 + u) ^ (k + Nat.pred (length l)) * sum l
  /\ Rabs (rsum rnd l' - sum l) <= ((1 + u) ^ (k + Nat.pred (length l)) - 1) * sum l.
Proof.
  intros [U0 U1] REL k l l' H2.
  assert (HN : Forall (fun t => 0 <= t) l).
  { induction H2 as [|t t' l l' [H0 _] _ IH]; constructor; assumption. }
  assert (HW : Forall2 (within u k) l l').
  { induction H2 as [|t t' l l' [H0 B] Hl IH]; constructor.
    - now apply within_nonneg_intro.
    - apply IH. now inversion HN. }
  split.
  - apply within_nonneg_elim; [now apply sum_nonneg | now apply rsum_terms_within].
  - now apply rsum_terms_abs.
Qed.
