(* Non-vacuity of Proofs/Binary64Agree.v: the run of Proofs/Binary64PdfExample.v (FLOAT_MAX, 4.5, terms 0.25 / 0.75)
   has no underflowing division, so the float-level facts hold of the floats returned by vm_compute. *)
From Coq Require Import Reals List ZArith Bool Lia Lra Floats.
From Flocq Require Import Core.
From OPF Require Import Base.NumOps Base.NumOpsRnd Model.Pdf Proofs.PdfRndBase Model.Binary64 Proofs.Binary64
  Proofs.Binary64Ops Proofs.Binary64Pdf Proofs.Binary64PdfExample Proofs.Binary64Agree.
Import ListNotations.
Local Open Scope R_scope.

Local Instance prec53 : Prec_gt_0 53 := eq_refl.

Lemma rnd64_dyadic z (n : nat) : (Z.abs z < 2 ^ 53)%Z -> (n <= 1074)%nat -> rnd64 (IZR z / 2 ^ n) = IZR z / 2 ^ n.
Proof.
  intros Hz Hn. apply round_generic; [auto with typeclass_instances|].
  apply generic_format_FLT. apply FLT_spec with (Float radix2 z (- Z.of_nat n)).
  - unfold F2R. cbn [Fnum Fexp]. now rewrite bpow2_neg_nat.
  - exact Hz.
  - cbn [Fexp]. lia.
Qed.

Lemma normal64_ge t (n : nat) : (n <= 1022)%nat -> / 2 ^ n <= Rabs t -> normal64 t.
Proof.
  intros Hn H. right. apply Rle_trans with (2 := H).
  apply Rinv_le_contravar; [apply pow_lt; lra | apply Rle_pow; [lra | exact Hn]].
Qed.

Ltac dy64 z n := match goal with |- context [rnd64 ?t] =>
  replace t with (IZR z / 2 ^ n) by (simpl; lra); rewrite (rnd64_dyadic z n) by (simpl; lia) end.

Lemma exf_facts :
  normal64 (rnd64 (2 * f2r 4.5%float) / 9) /\
  (forall i, (i < 2)%nat ->
     normal64 (PdfRndBase.rsum rnd64 (map (fun l => f2r (exf_e i l)) (seq 0 1)) / IZR (Z.of_nat 2))) /\
  (f2r 0.125%float <> f2r 0.375%float -> forall i, (i < 2)%nat ->
     normal64 (rnd64 (999 * rnd64 (f2r (pdf_value FOps 1 (exf_e i)) - f2r 0.125%float))
               / rnd64 (f2r 0.375%float - f2r 0.125%float))) /\
  (forall i, (i < 2)%nat ->
     1 <= f2r (fst (nth i [(1, 0); (1000, 999)]%float fzz)) <= 7994 /\
     0 <= f2r (snd (nth i [(1, 0); (1000, 999)]%float fzz)) /\
     PrimFloat.ltb (snd (nth i [(1, 0); (1000, 999)]%float fzz)) (fst (nth i [(1, 0); (1000, 999)]%float fzz)) = true).
Proof.
  assert (E38 : f2r 0.375%float = 3 / 8).
  { f2r_decode 0.375%float. change (bpow radix2 (-54)) with (/ IZR (2 ^ 54)).
    change (2 ^ 54)%Z with 18014398509481984%Z. lra. }
  assert (U1 : normal64 (rnd64 (2 * f2r 4.5%float) / 9)).
  { rewrite f2r_4_5. dy64 9%Z 0%nat. apply (normal64_ge _ 0); [lia|]. simpl. rewrite Rabs_pos_eq; lra. }
  assert (U2 : forall i, (i < 2)%nat ->
     normal64 (PdfRndBase.rsum rnd64 (map (fun l => f2r (exf_e i l)) (seq 0 1)) / IZR (Z.of_nat 2))).
  { intros i _. unfold PdfRndBase.rsum. cbn [seq map fold_left]. change (IZR (Z.of_nat 2)) with 2.
    destruct i; cbn [exf_e].
    - rewrite f2r_quarter. dy64 1%Z 2%nat. apply (normal64_ge _ 3); [lia|]. simpl. rewrite Rabs_pos_eq; lra.
    - rewrite f2r_three_quarters. dy64 3%Z 2%nat. apply (normal64_ge _ 3); [lia|]. simpl. rewrite Rabs_pos_eq; lra. }
  assert (U3 : f2r 0.125%float <> f2r 0.375%float -> forall i, (i < 2)%nat ->
     normal64 (rnd64 (999 * rnd64 (f2r (pdf_value FOps 1 (exf_e i)) - f2r 0.125%float))
               / rnd64 (f2r 0.375%float - f2r 0.125%float))).
  { intros _ i _. rewrite f2r_eighth, E38. destruct i.
    - change (pdf_value FOps 1 (exf_e 0)) with 0.125%float. rewrite f2r_eighth.
      dy64 0%Z 0%nat. dy64 0%Z 0%nat. left. simpl. unfold Rdiv. ring.
    - assert (EV : pdf_value FOps 1 (exf_e (S i)) = 0.375%float) by (vm_compute; reflexivity).
      rewrite EV, E38. dy64 1%Z 2%nat. dy64 999%Z 2%nat.
      apply (normal64_ge _ 0); [lia|]. simpl. rewrite Rabs_pos_eq; lra. }
  split; [exact U1|]. split; [exact U2|]. split; [exact U3|].
  destruct exf_run as (H1 & H2 & H3 & H4 & H5 & H6 & H7 & _).
  destruct (calculate_pdf_float_facts exf_fmax 4.5%float 2 1 exf_e _ _ _ _ H1 H2 H3 H4 H5 H6 H7 U1 U2 U3)
    as (_ & _ & _ & F & _).
  exact (F ltac:(lia)).
Qed.
