(* Capstone of C15 (with C02, C03, C06, C08): semi-supervised Optimum-Path Forest training and
   prediction over the REAL numbers, with the arc weights computed by a metric code term of
   Gen/Metrics_gen.v.

   As in Proofs/Capstone.v nothing new is proved about the algorithm or about the metrics; three
   finished developments are composed:
   (a) metric code terms, their closed forms and axioms on the user's domain (Props/C08_code.v,
       through the table of Proofs/CapstoneInstances.v);
   (b) the order-generic theorems Props/C15_anyorder.v (competition over labeled + unlabeled
       nodes), Props/C02_anyorder.v (Prim over the labeled nodes) and Props/C03_anyorder.v
       (prediction scan) for any weight type with a strict total order;
   (c) W := R, ltb := Rltb (Proofs/Capstone.v).

   The only new lemma is about array lengths ([semi_fit_lengths_anyorder]): C15_anyorder does not
   state them and the prediction theorem needs [length (n_cost nd) = nl + nu].  It is obtained
   like every other lifted fact, through the rank embedding. *)
From Coq Require Import Reals List Arith Bool ZArith Lia Lra Permutation.
From OPF Require Import Base.Lists Base.TotalOrder Base.NumOps Model.Heap Model.Sup Spec.Paths Spec.Trees.
From OPF Require Import Proofs.ParamBase Proofs.ParamSup Proofs.Rescale Proofs.WeightsExtBounded
  Proofs.OrderEmbed Proofs.FitBase Proofs.Fit Proofs.FitSup Proofs.Semi Proofs.LiftSup Proofs.Lift2Semi.
From OPF Require Import Props.C02_anyorder Props.C03_anyorder Props.C15_anyorder.
From OPF Require Import Spec.MetricSpec Model.MetricIR Model.MetricEval.
From OPF Require Import Proofs.Capstone Proofs.CapstoneInstances.
Import ListNotations.
Close Scope Z_scope.
Close Scope R_scope.

(* ---------- array lengths of the semi-supervised run, any strict total order ---------- *)

Section Lengths.
  Context {W : Type} (ltb : W -> W -> bool).
  Hypothesis O : strict_total_order ltb.

  Lemma compete_true_lengths_anyorder (zero top : W) (nl n : nat) (w : nat -> nat -> W) (nd0 : @nodes W) :
    ltb zero top = true ->
    (forall p q, p < n -> q < n -> p <> q -> ltb (w p q) zero = false /\ ltb (w p q) top = true) ->
    length (n_cost nd0) = n -> length (n_pred nd0) = n -> length (n_label nd0) = n ->
    length (n_plabel nd0) = n -> n_order nd0 = [] ->
    (exists s, s < n /\ nth s (n_status nd0) false = true) ->
    let nd := compete ltb zero top true nl n w nd0 in
    length (n_cost nd) = n /\ length (n_pred nd) = n /\ length (n_label nd) = n /\
    length (n_plabel nd) = n.
  Proof.
    intros Hzt Hw L1 L2 L3 L4 L5 Hproto nd.
    set (vals := zero :: top :: n_cost nd0 ++ weight_vals n w).
    set (r := rk ltb vals).
    set (wc := clip2 n zero w).
    assert (Hz : In zero vals) by now left.
    assert (Ht : In top vals) by (right; now left).
    assert (Hwv : forall p q, p < n -> q < n -> In (w p q) vals).
    { intros p q Hp Hq. right; right. apply in_or_app. right. now apply weight_vals_in. }
    assert (Hwc : forall p q, In (wc p q) vals) by (intros p q; now apply clip2_in).
    assert (Hnd0 : Forall (fun a => In a vals) (n_cost nd0)).
    { apply Forall_forall. intros a Ha. right; right. apply in_or_app. now left. }
    assert (Hext : nd = compete ltb zero top true nl n wc nd0).
    { apply compete_ext_bounded. intros p q Hp Hq. symmetry. now apply clip2_below. }
    destruct (rescale_compete_on (fun a => In a vals) r ltb Z.ltb (rk_ltb ltb O vals)
                zero top true nl n wc nd0 Hz Ht Hwc Hnd0) as [Hc E].
    rewrite <- Hext in Hc, E.
    assert (L1' : length (n_cost (map_nodes r nd0)) = n)
      by (unfold map_nodes; cbn [n_cost]; now rewrite map_length).
    assert (Hb : forall p q, p < n -> q < n -> p <> q -> (r zero <= r (wc p q) < r top)%Z).
    { intros p q Hp Hq Hpq. unfold wc. rewrite clip2_below by assumption.
      destruct (Hw p q Hp Hq Hpq) as [B1 B2]. split.
      - exact (proj2 (rk_le_iff ltb O vals _ _ Hz (Hwv p q Hp Hq)) B1).
      - exact (proj2 (rk_lt_iff ltb O vals _ _ (Hwv p q Hp Hq) Ht) B2). }
    pose proof (fit_lengths (r zero) (r top) n (fun p q => r (wc p q)) true nl _ _
                  (proj2 (rk_lt_iff ltb O vals zero top Hz Ht) Hzt) Hb Hproto
                  (map_nodes r nd0) eq_refl eq_refl L1' L2 L3 L4 L5) as HL.
    rewrite E in HL. unfold map_nodes in HL at 1 2 3 4.
    cbn [n_cost n_pred n_label n_plabel] in HL. rewrite map_length in HL.
    exact HL.
  Qed.

  Lemma semi_fit_lengths_anyorder (zero top : W) (labels : list nat) (nu : nat) (w : nat -> nat -> W) :
    let nl := length labels in
    let n := nl + nu in
    let fp := find_prototypes ltb top nl w (nodes_init zero labels) in
    ltb zero top = true ->
    (forall p q, p < n -> q < n -> p <> q -> ltb (w p q) zero = false /\ ltb (w p q) top = true) ->
    (exists s, s < nl /\ nth s (n_status fp) false = true) ->
    let nd := semi_fit ltb zero top labels nu w in
    length (n_cost nd) = n /\ length (n_pred nd) = n /\ length (n_label nd) = n /\
    length (n_plabel nd) = n.
  Proof.
    intros nl n fp Hzt Hw Hproto nd.
    destruct (find_prototypes_shaped ltb top zero labels w) as (A & B & C & D & E & F).
    fold nl fp in A, B, C, D, E, F.
    set (nd0 := append_unlabeled zero fp nu).
    assert (L1 : length (n_cost nd0) = n)
      by (unfold nd0, append_unlabeled; cbn [n_cost]; rewrite app_length, repeat_length; lia).
    assert (L2 : length (n_pred nd0) = n)
      by (unfold nd0, append_unlabeled; cbn [n_pred]; rewrite app_length, repeat_length; lia).
    assert (L3 : length (n_label nd0) = n).
    { unfold nd0, append_unlabeled; cbn [n_label]. rewrite app_length, repeat_length, C. reflexivity. }
    assert (L4 : length (n_plabel nd0) = n)
      by (unfold nd0, append_unlabeled; cbn [n_plabel]; rewrite app_length, repeat_length; lia).
    assert (L5 : n_order nd0 = []) by exact F.
    assert (Hproto' : exists s, s < n /\ nth s (n_status nd0) false = true).
    { destruct Hproto as (s & Hs & Hst). exists s. split; [lia|].
      unfold nd0, append_unlabeled; cbn [n_status]. apply nth_app_repeat_false. rewrite E. tauto. }
    exact (compete_true_lengths_anyorder zero top nl n w nd0 Hzt Hw L1 L2 L3 L4 L5 Hproto').
  Qed.
End Lengths.

Open Scope R_scope.

(* ---------- the conclusion of C15 (with the C02 part about classes) at W := R ---------- *)

(* [nd] is an optimum-path forest of the complete graph on ALL [nl + nu] labeled and unlabeled
   nodes, rooted at prototypes that are labeled nodes:
   array lengths; conquest order = a permutation of all nodes sorted by cost (so every node is
   conquered); prototypes are labeled nodes, roots of cost 0 keeping their own label; every other
   node hangs below an earlier-conquered predecessor with cost = max(cost pred, arc) and inherits
   its predicted label; following predecessors ends in a prototype whose TRUE label is the one
   assigned (for an unlabeled node it also becomes its label); the recorded cost is the minimum,
   over all paths from all prototypes through the graph of all nodes, of the largest arc;
   labeled nodes keep their label; no unlabeled node is a prototype; every class present among
   the labeled nodes owns a prototype. *)
Definition semi_forest_R (nl nu : nat) (w : nat -> nat -> R) (labels : list nat) (nd : @nodes R) : Prop :=
  let n := (nl + nu)%nat in
  let cost q := nth q (n_cost nd) 0 in
  let pred q := nth q (n_pred nd) None in
  let plabel q := nth q (n_plabel nd) 0%nat in
  let label q := nth q (n_label nd) 0%nat in
  let isproto q := nth q (n_status nd) false = true in
  (length (n_cost nd) = n /\ length (n_pred nd) = n /\ length (n_plabel nd) = n /\
   length (n_label nd) = n) /\
  Permutation (n_order nd) (seq 0 n) /\
  (forall i j, (i < j)%nat -> (j < n)%nat ->
     cost (nth i (n_order nd) 0%nat) <= cost (nth j (n_order nd) 0%nat)) /\
  (forall q, isproto q ->
     (q < nl)%nat /\ pred q = None /\ cost q = 0 /\ plabel q = nth q labels 0%nat /\
     label q = nth q labels 0%nat) /\
  (forall q, (q < n)%nat -> ~ isproto q ->
     exists p, pred q = Some p /\ (p < n)%nat /\ p <> q /\
       cost q = Rmax (cost p) (w p q) /\ plabel q = plabel p /\
       FitBase.before (n_order nd) p q) /\
  (forall q, (q < n)%nat ->
     exists r k, (r < nl)%nat /\ isproto r /\ reaches pred q r k /\ pred r = None /\
       (k < n)%nat /\ plabel q = nth r labels 0%nat /\
       ((nl <= q)%nat -> label q = nth r labels 0%nat)) /\
  (forall q s pi, (q < n)%nat -> isproto s -> path_from_to n s q pi ->
     cost q <= pathmaxW Rltb w 0 pi) /\
  (forall q, (q < n)%nat -> exists s pi, isproto s /\ path_from_to n s q pi /\
     pathmaxW Rltb w 0 pi = cost q) /\
  (forall q, (q < nl)%nat -> label q = nth q labels 0%nat) /\
  (forall q, (q < nl)%nat -> exists s, (s < nl)%nat /\ isproto s /\
     nth s labels 0%nat = nth q labels 0%nat).

(* the prototypes are exactly the endpoints of the class-crossing arcs of the Prim tree [mst] of
   the LABELED subgraph (a spanning parent map of the labeled nodes rooted at node 0) *)
Definition semi_prototypes_R (nl : nat) (labels : list nat) (mst : nat -> option nat)
           (nd : @nodes R) : Prop :=
  spanning_parent_map nl mst /\
  (forall q, nth q (n_status nd) false = true <->
     (q < nl)%nat /\
     exists r, (mst q = Some r \/ mst r = Some q) /\ (r < nl)%nat /\
               nth q labels 0%nat <> nth r labels 0%nat).

(* ... and that tree is a minimax (= minimum) spanning tree of the labeled subgraph when the
   weights between labeled nodes are symmetric *)
Definition minimax_tree_R (nl : nat) (w : nat -> nat -> R) (mst : nat -> option nat) : Prop :=
  forall (m : R) u v tp pi, tree_path_rel nl mst u v tp -> path_from_to nl u v pi ->
    pathmaxW Rltb w m tp <= pathmaxW Rltb w m pi.

(* [predict_one] on a table of [n] nodes, stated with the FIRST minimiser in conquest order *)
Definition predicts_first_argmin_R (n : nat) (nd : @nodes R) (d : nat -> R) : Prop :=
  let val q := Rmax (nth q (n_cost nd) 0) (d q) in
  exists t i, (t < n)%nat /\
    predict_one Rltb 0 nd d = (nth t (n_plabel nd) 0%nat, Some t) /\
    (forall s, (s < n)%nat -> val t <= val s) /\
    (i < n)%nat /\ nth i (n_order nd) 0%nat = t /\
    (forall i', (i' < i)%nat -> val t < val (nth i' (n_order nd) 0%nat)).

Section AbstractWeights.
  Variables (labels : list nat) (nu : nat) (w : nat -> nat -> R) (fmax : R).
  Let nl := length labels.
  Let n := (nl + nu)%nat.
  Hypothesis fmax_pos : 0 < fmax.
  Hypothesis w_range : forall p q, (p < n)%nat -> (q < n)%nat -> p <> q -> 0 <= w p q < fmax.
  Hypothesis two_classes :
    exists a b, (a < nl)%nat /\ (b < nl)%nat /\ nth a labels 0%nat <> nth b labels 0%nat.

  Let Hzt : Rltb 0 fmax = true := proj2 (Rltb_true 0 fmax) fmax_pos.
  Let fp := find_prototypes Rltb fmax nl w (nodes_init 0 labels).
  Let nd := semi_fit Rltb 0 fmax labels nu w.

  Lemma sw_range_b : forall p q, (p < n)%nat -> (q < n)%nat -> p <> q ->
    Rltb (w p q) 0 = false /\ Rltb (w p q) fmax = true.
  Proof.
    intros p q Hp Hq Hpq. destruct (w_range p q Hp Hq Hpq) as [H1 H2].
    split; [now apply Rltb_false | now apply Rltb_true].
  Qed.

  Lemma sw_top_l : forall p q, (p < nl)%nat -> (q < nl)%nat -> p <> q -> Rltb (w p q) fmax = true.
  Proof. intros p q Hp Hq Hpq. apply sw_range_b; unfold n; lia || assumption. Qed.

  Lemma snl_pos : (1 <= nl)%nat.
  Proof. destruct two_classes as (a & _ & Ha & _). lia. Qed.

  Lemma semi_protos_exist : exists s, (s < nl)%nat /\ nth s (n_status fp) false = true.
  Proof.
    exact (C02_prototypes_nonempty_anyorder R Rltb Rltb_strict_total_order 0 fmax nl w labels
             snl_pos eq_refl sw_top_l two_classes).
  Qed.

  Lemma semi_status_iff q :
    nth q (n_status nd) false = true <-> (q < nl)%nat /\ nth q (n_status fp) false = true.
  Proof.
    pose proof (C15_semi_optimal_anyorder R Rltb Rltb_strict_total_order 0 fmax labels nu w
                  Hzt sw_range_b semi_protos_exist) as H.
    cbv zeta in H. destruct H as (_ & _ & _ & _ & _ & _ & _ & _ & S).
    change (n_status nd = n_status fp ++ repeat false nu) in S. rewrite S.
    pose proof (C02_find_prototypes_lengths_anyorder R Rltb Rltb_strict_total_order 0 fmax nl w labels
                snl_pos eq_refl sw_top_l) as HL.
    cbv zeta in HL. destruct HL as (_ & _ & L & _).
    change (length (n_status fp) = nl) in L. rewrite nth_app_repeat_false, L. tauto.
  Qed.

  (* C15 (+ the class clause of C02) at W := R *)
  Theorem semi_fit_R_forest : semi_forest_R nl nu w labels nd.
  Proof.
    pose proof (C15_semi_optimal_anyorder R Rltb Rltb_strict_total_order 0 fmax labels nu w
                  Hzt sw_range_b semi_protos_exist) as H.
    pose proof (semi_fit_lengths_anyorder Rltb Rltb_strict_total_order 0 fmax labels nu w
                  Hzt sw_range_b semi_protos_exist) as HL.
    pose proof (C02_every_class_has_prototype_anyorder R Rltb Rltb_strict_total_order 0 fmax nl w
                  labels snl_pos eq_refl sw_top_l two_classes) as HC.
    cbv zeta in H, HL, HC. fold nl n fp nd in H, HL, HC.
    destruct H as (P1 & P2 & P3 & P4 & P5 & P6 & P7 & P8 & _).
    destruct HL as (L1 & L2 & L3 & L4).
    unfold semi_forest_R. cbv zeta. fold n.
    split; [now repeat split|]. split; [exact P1|].
    split. { intros i j Hij Hj. apply Rltb_false. now apply P2. }
    split. { intros q Hq. apply semi_status_iff in Hq. destruct (P3 q Hq) as (A1 & A2 & A3 & A4).
             split; [exact (proj1 Hq)|]. now repeat split. }
    split. { intros q Hq Hnp.
             destruct (P4 q Hq) as (p & E1 & E2 & E3 & E4 & E5 & E6).
             { intros Hx. apply Hnp. now apply semi_status_iff. }
             exists p. rewrite wmax_Rltb in E4. now repeat split. }
    split. { intros q Hq. destruct (P5 q Hq) as (r & k & A1 & A2 & A3 & A4 & A5 & A6).
             exists r, k. split; [exact (proj1 A1)|]. split; [now apply semi_status_iff|].
             now repeat split. }
    split. { intros q s pi Hq Hs Hpi. apply Rltb_false. apply semi_status_iff in Hs.
             now apply (P6 q s pi). }
    split. { intros q Hq. destruct (P7 q Hq) as (s & pi & A1 & A2 & A3).
             exists s, pi. split; [now apply semi_status_iff|]. now split. }
    split; [exact P8|].
    intros q Hq. destruct (HC q Hq) as (s & A1 & A2 & A3).
    exists s. split; [exact A1|]. split; [|exact A3]. apply semi_status_iff. now split.
  Qed.

  (* C02 at W := R, on the labeled subgraph *)
  Theorem semi_fit_R_prototypes :
    semi_prototypes_R nl labels (fun q => nth q (n_pred fp) None) nd.
  Proof.
    unfold semi_prototypes_R. split.
    - exact (C02_prim_spanning_parent_map_anyorder R Rltb Rltb_strict_total_order 0 fmax nl w labels
               snl_pos eq_refl sw_top_l).
    - intros q. rewrite semi_status_iff. split.
      + intros [Hq Hs]. split; [exact Hq|].
        exact (proj1 (C02_prototypes_exact_anyorder R Rltb Rltb_strict_total_order 0 fmax nl w labels
                 snl_pos eq_refl sw_top_l q Hq) Hs).
      + intros [Hq Hs]. split; [exact Hq|].
        exact (proj2 (C02_prototypes_exact_anyorder R Rltb Rltb_strict_total_order 0 fmax nl w labels
                 snl_pos eq_refl sw_top_l q Hq) Hs).
  Qed.

  Theorem semi_fit_R_minimax :
    (forall p q, (p < nl)%nat -> (q < nl)%nat -> w p q = w q p) ->
    minimax_tree_R nl w (fun q => nth q (n_pred fp) None).
  Proof.
    intros Hsym m u v tp pi Htp Hpi. apply Rltb_false.
    exact (C02_prim_minimax_tree_anyorder R Rltb Rltb_strict_total_order 0 fmax nl w labels
             snl_pos eq_refl sw_top_l Hsym m u v tp pi Htp Hpi).
  Qed.

  (* C03 at W := R on the semi-supervised forest: exhaustive arg-min over all nl + nu nodes *)
  Theorem semi_fit_R_predict (d : nat -> R) : predicts_first_argmin_R n nd d.
  Proof.
    destruct semi_fit_R_forest as ((L1 & _) & P1 & P2 & _).
    assert (Hn : (1 <= n)%nat) by (pose proof snl_pos; unfold n; lia).
    pose proof (C03_predict_is_argmin_anyorder R Rltb Rltb_strict_total_order 0 nd d) as H.
    cbv zeta in H. rewrite L1 in H. specialize (H Hn P1).
    destruct H as (t & i & A1 & A2 & A3 & A4 & A5 & A6).
    { intros i j Hij Hj. apply Rltb_false. now apply P2. }
    exists t, i. split; [exact A1|]. split; [exact A2|].
    split. { intros s Hs. specialize (A3 s Hs). rewrite !wmax_Rltb in A3. now apply Rltb_false. }
    split; [exact A4|]. split; [exact A5|].
    intros i' Hi'. specialize (A6 i' Hi'). rewrite !wmax_Rltb in A6. now apply Rltb_true.
  Qed.
End AbstractWeights.

(* ---------- (a) the weights are values of a metric code term on a feature table ---------- *)

(* Generic capstone: ANY metric code term whose values on the rows 0 .. nl+nu-1 (labeled rows
   first, then the unlabeled ones, as SemiSupervisedOPF.fit concatenates them) are symmetric,
   non-negative and below [fmax]. *)
Theorem semi_fit_metric_opf (m : metric_ir) (feat : nat -> list R) (labels : list nat) (nu : nat)
        (fmax : R) :
  let nl := length labels in
  let n := (nl + nu)%nat in
  let w p q := metric_value m (feat p) (feat q) in
  (forall p q, (p < n)%nat -> (q < n)%nat -> w p q = w q p) ->
  (forall p q, (p < n)%nat -> (q < n)%nat -> p <> q -> 0 <= w p q) ->
  (forall p q, (p < n)%nat -> (q < n)%nat -> p <> q -> w p q < fmax) ->
  0 < fmax ->
  (exists a b, (a < nl)%nat /\ (b < nl)%nat /\ nth a labels 0%nat <> nth b labels 0%nat) ->
  let nd := semi_fit Rltb 0 fmax labels nu w in
  let mst q := nth q (n_pred (find_prototypes Rltb fmax nl w (nodes_init 0 labels))) None in
  semi_forest_R nl nu w labels nd /\
  (semi_prototypes_R nl labels mst nd /\ minimax_tree_R nl w mst) /\
  forall x : list R, predicts_first_argmin_R n nd (fun k => metric_value m (feat k) x).
Proof.
  intros nl n w Hsym Hnn Hlt Hpos Hcls nd mst.
  assert (Hr : forall p q, (p < n)%nat -> (q < n)%nat -> p <> q -> 0 <= w p q < fmax).
  { intros p q Hp Hq Hpq. split; [now apply Hnn | now apply Hlt]. }
  split; [|split; [split|]].
  - exact (semi_fit_R_forest labels nu w fmax Hpos Hr Hcls).
  - exact (semi_fit_R_prototypes labels nu w fmax Hpos Hr Hcls).
  - apply (semi_fit_R_minimax labels nu w fmax Hpos Hr Hcls).
    intros p q Hp Hq. apply Hsym; unfold n; lia.
  - intro x. exact (semi_fit_R_predict labels nu w fmax Hpos Hr Hcls _).
Qed.

(* ---------- discharging symmetry / non-negativity from C08 ---------- *)

Section FromAxioms.
  Variables (m : metric_ir) (dom : list R -> Prop).
  Hypothesis m_sym : forall x y : list R, length x = length y -> metric_value m x y = metric_value m y x.
  Hypothesis m_nonneg : forall x y : list R, length x = length y -> (1 <= length x)%nat ->
    dom x -> dom y -> 0 <= metric_value m x y.

  Variables (feat : nat -> list R) (labels : list nat) (nu dim : nat) (fmax : R).
  Let nl := length labels.
  Let n := (nl + nu)%nat.
  Hypothesis Htab : table_ok feat n dim.
  Hypothesis Hdom : forall p, (p < n)%nat -> dom (feat p).
  Hypothesis Hcls :
    exists a b, (a < nl)%nat /\ (b < nl)%nat /\ nth a labels 0%nat <> nth b labels 0%nat.

  Let w p q := metric_value m (feat p) (feat q).

  Theorem capstone_semi_code :
    (forall p q, (p < n)%nat -> (q < n)%nat -> p <> q -> w p q < fmax) -> 0 < fmax ->
    let nd := semi_fit Rltb 0 fmax labels nu w in
    let mst q := nth q (n_pred (find_prototypes Rltb fmax nl w (nodes_init 0 labels))) None in
    semi_forest_R nl nu w labels nd /\
    (semi_prototypes_R nl labels mst nd /\ minimax_tree_R nl w mst) /\
    forall x : list R, predicts_first_argmin_R n nd (fun k => metric_value m (feat k) x).
  Proof.
    intros Hlt Hpos.
    apply (semi_fit_metric_opf m feat labels nu fmax); auto.
    - intros p q Hp Hq. apply m_sym. destruct Htab as [_ H]. now rewrite (H p Hp), (H q Hq).
    - intros p q Hp Hq _. destruct Htab as [H1 H]. apply m_nonneg; auto.
      + now rewrite (H p Hp), (H q Hq).
      + now rewrite (H p Hp).
  Qed.
End FromAxioms.

(* every identifier of the table of Proofs/CapstoneInstances.v (the 41 symmetric, non-negative ones) *)
Theorem cap_semi_all_code :
  forall (m : metric_ir) (dom : list R -> Prop) (cf : list R -> list R -> R),
    In (m, dom, cf) capstone_metrics ->
    forall (feat : nat -> list R) (labels : list nat) (nu dim : nat) (fmax : R),
    let nl := length labels in
    let n := (nl + nu)%nat in
    let w p q := metric_value m (feat p) (feat q) in
    (1 <= dim)%nat -> (forall p, (p < n)%nat -> length (feat p) = dim) ->
    (forall p, (p < n)%nat -> dom (feat p)) ->
    (exists a b, (a < nl)%nat /\ (b < nl)%nat /\ nth a labels 0%nat <> nth b labels 0%nat) ->
    (forall p q, (p < n)%nat -> (q < n)%nat -> p <> q -> w p q < fmax) -> 0 < fmax ->
    let nd := semi_fit Rltb 0 fmax labels nu w in
    let mst q := nth q (n_pred (find_prototypes Rltb fmax nl w (nodes_init 0 labels))) None in
    semi_forest_R nl nu w labels nd /\
    (semi_prototypes_R nl labels mst nd /\ minimax_tree_R nl w mst) /\
    forall x : list R, predicts_first_argmin_R n nd (fun k => metric_value m (feat k) x).
Proof.
  intros m dom cf Hin feat labels nu dim fmax nl n w Hd Hlen Hdom Hcls Hlt Hpos.
  destruct (capstone_metrics_in m dom cf Hin) as (Hs & Hn & _ & _).
  exact (capstone_semi_code m dom Hs Hn feat labels nu dim fmax (conj Hd Hlen) Hdom Hcls Hlt Hpos).
Qed.

(* the same with the weights written as the published closed form; the two trainings are the
   same record *)
Theorem cap_semi_all_closed :
  forall (m : metric_ir) (dom : list R -> Prop) (cf : list R -> list R -> R),
    In (m, dom, cf) capstone_metrics ->
    forall (feat : nat -> list R) (labels : list nat) (nu dim : nat) (fmax : R),
    let nl := length labels in
    let n := (nl + nu)%nat in
    (1 <= dim)%nat -> (forall p, (p < n)%nat -> length (feat p) = dim) ->
    semi_fit Rltb 0 fmax labels nu (fun p q => cf (feat p) (feat q))
    = semi_fit Rltb 0 fmax labels nu (fun p q => metric_value m (feat p) (feat q)).
Proof.
  intros m dom cf Hin feat labels nu dim fmax nl n Hd Hlen.
  destruct (capstone_metrics_in m dom cf Hin) as (_ & _ & _ & Hc).
  refine (proj1 (semi_fit_ext_bounded Rltb 0 fmax labels nu _ _ _)).
  intros p q Hp Hq. symmetry. apply Hc. now rewrite (Hlen p Hp), (Hlen q Hq).
Qed.

(* ---------- no unlabeled rows: the supervised capstone applies verbatim ---------- *)

Theorem semi_empty_capstone (labels : list nat) (w : nat -> nat -> R) (fmax : R) :
  let n := length labels in
  semi_fit Rltb 0 fmax labels 0 w = sup_fit Rltb 0 fmax labels w /\
  (0 < fmax ->
   (forall p q, (p < n)%nat -> (q < n)%nat -> p <> q -> 0 <= w p q < fmax) ->
   (exists a b, (a < n)%nat /\ (b < n)%nat /\ nth a labels 0%nat <> nth b labels 0%nat) ->
   let nd := semi_fit Rltb 0 fmax labels 0 w in
   opf_forest_R n w labels nd /\ forall d : nat -> R, predicts_argmin_R n nd d).
Proof.
  intros n. split; [apply semi_empty_is_supervised|].
  intros Hpos Hr Hcls nd. unfold nd. rewrite semi_empty_is_supervised.
  split.
  - exact (sup_fit_R_forest labels w fmax Hpos Hr Hcls).
  - intro d. exact (sup_fit_R_predict labels w fmax Hpos Hr Hcls d).
Qed.
