(* Soundness of the swap-symmetry checker [swap_sym] of Model/MetricSym.v.

   For EVERY rounding function that is odd ([rnd_odd]: rnd (- t) = - rnd t; nothing else is needed,
   not even monotonicity), if the checker accepts a metric then the rounded evaluations with the two
   arguments exchanged are the SAME option: both undefined, or both defined with the same real value.

   Structure: [sym_mut] is the mutual induction on the first expression: [symV v1 v2 = Some s] gives
   [evalVR v2 y x b a = omap (sg s) (evalVR v1 x y a b)].  The decorator is handled by a symbolic run
   ([dec_shifts_sound]: both arguments receive the same shift sequence, whatever the arguments). *)
From Coq Require Import Reals QArith Qreals String List Lra Lia Bool ZArith.
From OPF Require Import Model.Consts Model.Effects Spec.MetricSpec Gen.Consts_gen Model.MetricIR
     Model.MetricRnd Model.MetricSym Proofs.RobustSign.
Import ListNotations.
Open Scope R_scope.

(* ---------- syntactic equality ---------- *)
Lemma Q_eqb_eq p q : Q_eqb p q = true -> p = q.
Proof.
  unfold Q_eqb. intros H. apply andb_prop in H. destruct H as [H1 H2].
  apply Z.eqb_eq in H1. apply Pos.eqb_eq in H2. destruct p, q; cbn in *. now subst.
Qed.

Lemma binop_eqb_eq a b : binop_eqb a b = true -> a = b.
Proof. destruct a, b; cbn; congruence. Qed.
Lemma unop_eqb_eq a b : unop_eqb a b = true -> a = b.
Proof. destruct a, b; cbn; congruence. Qed.
Lemma pconst_eqb_eq a b : pconst_eqb a b = true -> a = b.
Proof. destruct a, b; cbn; congruence. Qed.
Lemma cmpop_eqb_eq a b : cmpop_eqb a b = true -> a = b.
Proof. destruct a, b; cbn; congruence. Qed.
Lemma cname_eqb_eq a b : cname_eqb a b = true -> a = b.
Proof. destruct a, b; cbn; congruence. Qed.

(* ---------- the decorator, symbolically ---------- *)
Section DecSym.
  Variable rnd : R -> R.

  Lemma shiftsR_snoc cs c v : shiftsR rnd (cs ++ [c]) v = add_constR rnd c (shiftsR rnd cs v).
  Proof. unfold shiftsR. now rewrite fold_left_app. Qed.

  Lemma shiftsR_length cs v : length (shiftsR rnd cs v) = length v.
  Proof.
    revert v. induction cs as [|c cs IH]; intros v; [reflexivity|].
    unfold shiftsR in *. cbn [fold_left]. rewrite IH. unfold add_constR. now rewrite map_length.
  Qed.

  (* the concrete environment is the symbolic one read at the arguments (x, y) *)
  Definition srel (x y : list R) (e : venv) (se : senv) : Prop :=
    Forall2 (fun (kv : string * list R) (ks : string * sval) => fst kv = fst ks
                          /\ snd kv = shiftsR rnd (snd (snd ks)) (if fst (snd ks) then y else x)) e se.

  Definition sread (x y : list R) (sv : sval) : list R :=
    shiftsR rnd (snd sv) (if fst sv then y else x).

  Lemma srel_lookup x y e se p sv :
    srel x y e se -> slookup p se = Some sv -> vlookup p e = Some (sread x y sv).
  Proof.
    induction 1 as [|[k v] [k' sv0] e se [Hk Hv] HR IH]; cbn [slookup vlookup]; [discriminate|].
    cbn [fst snd] in *. subst k'. destruct (String.eqb p k).
    - intros E. injection E as <-. now rewrite Hv.
    - exact IH.
  Qed.

  Lemma srel_set x y e se p sv :
    srel x y e se -> srel x y (vset p (sread x y sv) e) (sset p sv se).
  Proof.
    induction 1 as [|[k v] [k' sv0] e se [Hk Hv] HR IH]; cbn [sset vset]; [constructor|].
    cbn [fst snd] in *. subst k'. destruct (String.eqb p k).
    - constructor; [cbn [fst snd]; split; reflexivity | assumption].
    - constructor; [cbn [fst snd]; auto | assumption].
  Qed.

  Lemma srel_lookups x y e se ps svs :
    srel x y e se -> slookups ps se = Some svs -> vlookups ps e = Some (map (sread x y) svs).
  Proof.
    intros HR. revert svs. induction ps as [|p ps IH]; intros svs; cbn [slookups vlookups].
    - intros E. now injection E as <-.
    - destruct (slookup p se) as [sv|] eqn:Es; [|discriminate].
      destruct (slookups ps se) as [svs'|] eqn:Ess; [|discriminate].
      intros E. injection E as <-.
      rewrite (srel_lookup x y e se p sv HR Es), (IH svs' eq_refl). reflexivity.
  Qed.

  Lemma dec_run_sym_sound x y prog : forall e se svs,
    srel x y e se -> dec_run_sym prog se = Some svs ->
    dec_runR rnd prog e = Some (map (sread x y) svs).
  Proof.
    induction prog as [|st prog IH]; intros e se svs HR; cbn [dec_run_sym dec_runR]; [discriminate|].
    assert (STEP : forall p c,
      match slookup p se with
      | Some (i, cs) => dec_run_sym prog (sset p (i, (cs ++ [c])%list) se)
      | None => None
      end = Some svs ->
      match vlookup p e with
      | Some v => dec_runR rnd prog (vset p (add_constR rnd c v) e)
      | None => None
      end = Some (map (sread x y) svs)).
    { intros p c. destruct (slookup p se) as [[i cs]|] eqn:Es; [|discriminate]. intros E.
      rewrite (srel_lookup x y e se p (i, cs) HR Es).
      apply (IH _ (sset p (i, (cs ++ [c])%list) se)); [|assumption].
      assert (EQ : add_constR rnd c (sread x y (i, cs)) = sread x y (i, (cs ++ [c])%list)).
      { unfold sread. cbn [fst snd]. now rewrite shiftsR_snoc. }
      rewrite EQ. now apply srel_set. }
    destruct st as [p c|p c|ps].
    - apply STEP.
    - apply STEP.
    - now apply srel_lookups.
  Qed.

  Lemma cnames_eqb_eq a : forall b, cnames_eqb a b = true -> a = b.
  Proof.
    induction a as [|c a IH]; intros [|d b]; cbn; try discriminate; [reflexivity|].
    intros H. apply andb_prop in H. destruct H as [H1 H2].
    apply cname_eqb_eq in H1. apply IH in H2. now subst.
  Qed.

  (* whatever the two arguments are, the wrapped function receives both shifted by [cs] *)
  Lemma dec_shifts_sound dparams dprog cs :
    dec_shifts dparams dprog = Some cs ->
    forall x y, dec_applyR rnd dparams dprog [x; y] = Some [shiftsR rnd cs x; shiftsR rnd cs y].
  Proof.
    unfold dec_shifts, dec_applyR. intros E x y.
    destruct dparams as [|p1 [|p2 [|p3 ps]]]; try discriminate.
    destruct (dec_run_sym dprog [(p1, (false, [])); (p2, (true, []))]) as [svs|] eqn:Er; [|discriminate].
    assert (HR : srel x y (combine [p1; p2] [x; y]) [(p1, (false, [])); (p2, (true, []))]).
    { cbn [combine]. constructor; [cbn; auto|]. constructor; [cbn; auto|]. constructor. }
    rewrite (dec_run_sym_sound x y dprog _ _ svs HR Er).
    destruct svs as [|[[|] c1] [|[[|] c2] [|sv3 svs]]]; try discriminate.
    destruct (cnames_eqb c1 c2) eqn:Ec; [|discriminate].
    apply cnames_eqb_eq in Ec. subst c2. injection E as <-. reflexivity.
  Qed.
End DecSym.

(* ---------- signs ---------- *)
Lemma sg_false a : sg false a = a.
Proof. reflexivity. Qed.

Lemma omap_id {A} (o : option A) : omap (fun a => a) o = o.
Proof. now destruct o. Qed.

Lemma omap_sg_false o : omap (sg false) o = o.
Proof. now destruct o. Qed.

Lemma map_sg_false l : map (sg false) l = l.
Proof. induction l as [|a l IH]; cbn [map]; [reflexivity | now rewrite IH]. Qed.

Lemma agree_some a b s : agree a b = Some s -> a = Some s /\ b = Some s.
Proof.
  destruct a as [[|]|], b as [[|]|]; cbn; try discriminate; intros E; injection E as <-; auto.
Qed.

Lemma oxor_some a b s : oxor a b = Some s -> exists t1 t2, a = Some t1 /\ b = Some t2 /\ s = xorb t1 t2.
Proof. destruct a as [t1|], b as [t2|]; cbn; try discriminate. intros E. injection E as <-. eauto. Qed.

Lemma both_same_some a b s : both_same a b = Some s -> a = Some false /\ b = Some false /\ s = false.
Proof. destruct a as [[|]|], b as [[|]|]; cbn; try discriminate. intros E. injection E as <-. auto. Qed.

Lemma same_only_some a s : same_only a = Some s -> a = Some false /\ s = false.
Proof. destruct a as [[|]|]; cbn; try discriminate. intros E. injection E as <-. auto. Qed.

Lemma absorbed_some a s : absorbed a = Some s -> s = false /\ exists t, a = Some t.
Proof. destruct a as [t|]; cbn; try discriminate. intros E. injection E as <-. eauto. Qed.

Lemma orelse_some {A} (a b : option A) s : orelse a b = Some s -> a = Some s \/ b = Some s.
Proof. destruct a; cbn; auto. Qed.

Section Sym.
  Variable rnd : R -> R.
  Hypothesis ODD : rnd_odd rnd.

  Lemma rnd_sg t z : rnd (sg t z) = sg t (rnd z).
  Proof. destruct t; cbn [sg]; [apply ODD | reflexivity]. Qed.

  (* ---------- rounded operators under sign flips ---------- *)
  Lemma sg_add t a b : sg t a + sg t b = sg t (a + b).
  Proof. destruct t; cbn [sg]; lra. Qed.
  Lemma sg_sub t a b : sg t a - sg t b = sg t (a - b).
  Proof. destruct t; cbn [sg]; lra. Qed.
  Lemma sg_sub_x t a b : sg t b - sg t a = sg (negb t) (a - b).
  Proof. destruct t; cbn [sg negb]; lra. Qed.
  Lemma sg_mul t1 t2 a b : sg t1 a * sg t2 b = sg (xorb t1 t2) (a * b).
  Proof. destruct t1, t2; cbn [sg xorb]; lra. Qed.
  Lemma sg_div t1 t2 a b : b <> 0 -> sg t1 a / sg t2 b = sg (xorb t1 t2) (a / b).
  Proof. intros H. destruct t1, t2; cbn [sg xorb]; field; assumption. Qed.
  Lemma sg_zero_iff t b : sg t b = 0 <-> b = 0.
  Proof. destruct t; cbn [sg]; split; lra. Qed.
  Lemma sg_abs t a : Rabs (sg t a) = Rabs a.
  Proof. destruct t; cbn [sg]; [apply Rabs_Ropp | reflexivity]. Qed.
  Lemma sg_sq t a : (sg t a) ^ 2 = a ^ 2.
  Proof. destruct t; cbn [sg]; ring. Qed.
  Lemma sg_opp t a : - sg t a = sg t (- a).
  Proof. destruct t; cbn [sg]; lra. Qed.

  Lemma bin_straight o t1 t2 s a b :
    match o with
    | BAdd | BSub => t1 = t2 /\ s = t1
    | BMul | BDiv => s = xorb t1 t2
    | BMin | BMax => t1 = false /\ t2 = false /\ s = false
    end ->
    binRnd rnd o (sg t1 a) (sg t2 b) = omap (sg s) (binRnd rnd o a b).
  Proof.
    destruct o; cbn [binRnd omap].
    - intros [<- ->]. now rewrite sg_add, rnd_sg.
    - intros [<- ->]. now rewrite sg_sub, rnd_sg.
    - intros ->. now rewrite sg_mul, rnd_sg.
    - intros ->. destruct (Req_EM_T b 0) as [E|E]; destruct (Req_EM_T (sg t2 b) 0) as [E'|E']; cbn [omap].
      + reflexivity.
      + exfalso. apply E'. now apply sg_zero_iff.
      + exfalso. apply E. now apply (sg_zero_iff t2).
      + now rewrite sg_div, rnd_sg.
    - intros [-> [-> ->]]. reflexivity.
    - intros [-> [-> ->]]. reflexivity.
  Qed.

  Lemma bin_crossed o t s a b :
    match o with
    | BAdd => s = t
    | BSub => s = negb t
    | BMul => False
    | BDiv => False
    | BMin | BMax => t = false /\ s = false
    end ->
    binRnd rnd o (sg t b) (sg t a) = omap (sg s) (binRnd rnd o a b).
  Proof.
    destruct o; cbn [binRnd omap]; try contradiction.
    - intros ->. now rewrite sg_add, rnd_sg, Rplus_comm.
    - intros ->. now rewrite sg_sub_x, rnd_sg.
    - intros [-> ->]. cbn [sg]. now rewrite Rmin_comm.
    - intros [-> ->]. cbn [sg]. now rewrite Rmax_comm.
  Qed.

  Lemma mul_crossed t1 t2 a b :
    binRnd rnd BMul (sg t2 b) (sg t1 a) = omap (sg (xorb t1 t2)) (binRnd rnd BMul a b).
  Proof. cbn [binRnd omap]. now rewrite sg_mul, rnd_sg, xorb_comm, Rmult_comm. Qed.

  (* the four relations between the operands of `a o b` and `c o d` *)
  Lemma sym_bin_sound o st1 st2 cr1 cr2 s (oa ob oc od : option R) :
    (forall t, st1 = Some t -> oc = omap (sg t) oa) ->
    (forall t, st2 = Some t -> od = omap (sg t) ob) ->
    (forall t, cr1 = Some t -> od = omap (sg t) oa) ->
    (forall t, cr2 = Some t -> oc = omap (sg t) ob) ->
    sym_bin o st1 st2 cr1 cr2 = Some s ->
    obind2 oc od (binRnd rnd o) = omap (sg s) (obind2 oa ob (binRnd rnd o)).
  Proof.
    intros H1 H2 H3 H4 E.
    assert (ST : forall t1 t2, st1 = Some t1 -> st2 = Some t2 ->
                 match o with
                 | BAdd | BSub => t1 = t2 /\ s = t1
                 | BMul | BDiv => s = xorb t1 t2
                 | BMin | BMax => t1 = false /\ t2 = false /\ s = false
                 end ->
                 obind2 oc od (binRnd rnd o) = omap (sg s) (obind2 oa ob (binRnd rnd o))).
    { intros t1 t2 E1 E2 C. rewrite (H1 t1 E1), (H2 t2 E2).
      destruct oa as [a|], ob as [b|]; cbn [omap obind2]; try reflexivity.
      now apply bin_straight. }
    assert (CR : forall t, cr1 = Some t -> cr2 = Some t ->
                 match o with
                 | BAdd => s = t
                 | BSub => s = negb t
                 | BMul => False
                 | BDiv => False
                 | BMin | BMax => t = false /\ s = false
                 end ->
                 obind2 oc od (binRnd rnd o) = omap (sg s) (obind2 oa ob (binRnd rnd o))).
    { intros t E1 E2 C. rewrite (H3 t E1), (H4 t E2).
      destruct oa as [a|], ob as [b|]; cbn [omap obind2]; try reflexivity.
      now apply bin_crossed. }
    destruct o; cbn [sym_bin] in E.
    - apply orelse_some in E. destruct E as [E|E]; apply agree_some in E; destruct E as [E1 E2].
      + now apply (ST s s).
      + now apply (CR s).
    - apply orelse_some in E. destruct E as [E|E].
      + apply agree_some in E. destruct E as [E1 E2]. now apply (ST s s).
      + destruct (agree cr1 cr2) as [t|] eqn:EA; [|discriminate]. cbn [omap] in E. injection E as <-.
        apply agree_some in EA. destruct EA as [E1 E2]. now apply (CR t).
    - apply orelse_some in E. destruct E as [E|E]; apply oxor_some in E; destruct E as [t1 [t2 [E1 [E2 ->]]]].
      + now apply (ST t1 t2).
      + rewrite (H3 t1 E1), (H4 t2 E2).
        destruct oa as [a|], ob as [b|]; cbn [omap obind2]; try reflexivity.
        apply mul_crossed.
    - apply oxor_some in E. destruct E as [t1 [t2 [E1 [E2 ->]]]]. now apply (ST t1 t2).
    - apply orelse_some in E. destruct E as [E|E]; apply both_same_some in E; destruct E as [E1 [E2 ->]].
      + now apply (ST false false).
      + now apply (CR false).
    - apply orelse_some in E. destruct E as [E|E]; apply both_same_some in E; destruct E as [E1 [E2 ->]].
      + now apply (ST false false).
      + now apply (CR false).
  Qed.

  Lemma sym_un_sound o st s (oa oc : option R) :
    (forall t, st = Some t -> oc = omap (sg t) oa) ->
    sym_un o st = Some s ->
    obind oc (unRnd rnd o) = omap (sg s) (obind oa (unRnd rnd o)).
  Proof.
    intros H E. destruct o; cbn [sym_un] in E.
    - rewrite (H s E). destruct oa as [a|]; cbn [omap obind unRnd]; [|reflexivity]. now rewrite sg_opp.
    - apply absorbed_some in E. destruct E as [-> [t E]]. rewrite (H t E).
      destruct oa as [a|]; cbn [omap obind unRnd]; [|reflexivity]. now rewrite sg_abs.
    - apply same_only_some in E. destruct E as [E ->]. rewrite (H false E), !omap_sg_false. reflexivity.
    - apply same_only_some in E. destruct E as [E ->]. rewrite (H false E), !omap_sg_false. reflexivity.
    - apply same_only_some in E. destruct E as [E ->]. rewrite (H false E), !omap_sg_false. reflexivity.
  Qed.

  Lemma sym_pow_sound p st s (oa oc : option R) :
    (forall t, st = Some t -> oc = omap (sg t) oa) ->
    sym_pow p st = Some s ->
    obind oc (powRnd rnd p) = omap (sg s) (obind oa (powRnd rnd p)).
  Proof.
    intros H E. destruct p; cbn [sym_pow] in E.
    - apply absorbed_some in E. destruct E as [-> [t E]]. rewrite (H t E).
      destruct oa as [a|]; cbn [omap obind powRnd]; [|reflexivity]. now rewrite sg_sq.
    - apply same_only_some in E. destruct E as [E ->]. rewrite (H false E), !omap_sg_false. reflexivity.
  Qed.

  (* ---------- vectors ---------- *)
  Lemma oseq_swap {A B} (g : A -> B) (f1 : R -> R -> option A) (f2 : R -> R -> option B) : forall x y,
    (forall a b, f2 b a = omap g (f1 a b)) ->
    oseq (map2 f2 y x) = omap (map g) (oseq (map2 f1 x y)) .
  Proof.
    intros x y H. revert y. induction x as [|a x IH]; intros [|b y]; cbn [map2 oseq omap map]; try reflexivity.
    rewrite H, IH. destruct (f1 a b) as [r|]; cbn [omap]; [|reflexivity].
    destruct (oseq (map2 f1 x y)) as [l|]; reflexivity.
  Qed.

  Lemma oseq_length {A} (f : R -> R -> option A) : forall x y l,
    length x = length y -> oseq (map2 f x y) = Some l -> length l = length x.
  Proof.
    induction x as [|a x IH]; intros [|b y] l HL; cbn [length] in HL; try discriminate; cbn [map2 oseq].
    - intros E. now injection E as <-.
    - destruct (f a b); [|discriminate]. destruct (oseq (map2 f x y)) as [l'|] eqn:El; [|discriminate].
      intros E. injection E as <-. cbn [length]. f_equal. apply (IH y); [lia | assumption].
  Qed.

  Lemma rsum_sg t l : rsum rnd (map (sg t) l) = sg t (rsum rnd l).
  Proof.
    destruct l as [|a l]; cbn [map rsum].
    - destruct t; cbn [sg]; lra.
    - revert a. induction l as [|e l IH]; intros a; cbn [map fold_left]; [reflexivity|].
      rewrite sg_add, rnd_sg. apply IH.
  Qed.

  Lemma countne_sg t (l : list (R * R)) :
    countne (map (fun pq => (sg t (fst pq), sg t (snd pq))) l) = countne l.
  Proof.
    unfold countne. rewrite map_map. f_equal. apply map_ext. intros [p q]. cbn [fst snd].
    unfold Rneqb. destruct (Req_EM_T p q) as [E|E]; destruct (Req_EM_T (sg t p) (sg t q)) as [E'|E']; try reflexivity.
    - subst q. contradiction.
    - exfalso. apply E. destruct t; cbn [sg] in E'; lra.
  Qed.

  Lemma countne_flip (l : list (R * R)) :
    countne (map (fun pq => (snd pq, fst pq)) l) = countne l.
  Proof.
    unfold countne. rewrite map_map. f_equal. apply map_ext. intros [p q]. cbn [fst snd].
    unfold Rneqb. destruct (Req_EM_T p q) as [E|E]; destruct (Req_EM_T q p) as [E'|E']; try reflexivity.
    - subst q. contradiction.
    - subst q. contradiction.
  Qed.

  Lemma countne_sg_flip t (l : list (R * R)) :
    countne (map (fun pq => (sg t (snd pq), sg t (fst pq))) l) = countne l.
  Proof.
    rewrite <- (countne_flip l), <- (countne_sg t (map (fun pq => (snd pq, fst pq)) l)), map_map.
    reflexivity.
  Qed.

  (* ---------- expressions ---------- *)
  Section Expr.
    Variable callR : string -> list R -> list R -> option R.
    Variable callsym : string -> bool.
    Variable pe : string -> R.
    Hypothesis call_ok : forall f x y,
      callsym f = true -> length x = length y -> callR f y x = callR f x y.

    Local Notation eS := (evalSR rnd callR pe).
    Local Notation eV := (evalVR rnd callR pe).
    Local Notation sS := (symS callsym).
    Local Notation sV := (symV callsym).

    Definition symV_ok (v1 : vexpr) : Prop := forall v2 s x y a b,
      length x = length y -> sV v1 v2 = Some s -> eV v2 y x b a = omap (sg s) (eV v1 x y a b).

    Definition symS_ok (s1 : sexpr) : Prop := forall s2 s x y,
      length x = length y -> sS s1 s2 = Some s -> eS s2 y x = omap (sg s) (eS s1 x y).

    (* a whole vector *)
    Lemma symV_vec v1 v2 s x y :
      symV_ok v1 -> length x = length y -> sV v1 v2 = Some s ->
      oseq (map2 (fun a b => eV v2 y x a b) y x)
      = omap (map (sg s)) (oseq (map2 (fun a b => eV v1 x y a b) x y)).
    Proof.
      intros HV HL E. apply (oseq_swap (sg s) (fun a b => eV v1 x y a b) (fun b a => eV v2 y x b a)).
      intros a b. now apply HV.
    Qed.

    Lemma ok_VBin o a b : symV_ok a -> symV_ok b -> symV_ok (VBin o a b).
    Proof.
      intros Ha Hb v2 s x y p q HL E. destruct v2 as [| | |o' c d| | |]; try discriminate.
      cbn [symV] in E. destruct (binop_eqb o o') eqn:Eo; [|discriminate].
      apply binop_eqb_eq in Eo. subst o'. rewrite !evalVR_VBin.
      apply (sym_bin_sound o (sV a c) (sV b d) (sV a d) (sV b c)); try assumption.
      - intros t Et. now apply Ha.
      - intros t Et. now apply Hb.
      - intros t Et. now apply Ha.
      - intros t Et. now apply Hb.
    Qed.

    Lemma ok_VUn o a : symV_ok a -> symV_ok (VUn o a).
    Proof.
      intros Ha v2 s x y p q HL E. destruct v2 as [| | | |o' c| |]; try discriminate.
      cbn [symV] in E. destruct (unop_eqb o o') eqn:Eo; [|discriminate].
      apply unop_eqb_eq in Eo. subst o'. rewrite !evalVR_VUn.
      apply (sym_un_sound o (sV a c)); [|assumption]. intros t Et. now apply Ha.
    Qed.

    Lemma ok_VPowC a p0 : symV_ok a -> symV_ok (VPowC a p0).
    Proof.
      intros Ha v2 s x y p q HL E. destruct v2 as [| | | | |c p0'|]; try discriminate.
      cbn [symV] in E. destruct (pconst_eqb p0 p0') eqn:Eo; [|discriminate].
      apply pconst_eqb_eq in Eo. subst p0'. rewrite !evalVR_VPowC.
      apply (sym_pow_sound p0 (sV a c)); [|assumption]. intros t Et. now apply Ha.
    Qed.

    Lemma ok_VSel cm l r a b :
      symV_ok l -> symV_ok r -> symV_ok a -> symV_ok b -> symV_ok (VSel cm l r a b).
    Proof.
      intros Hl Hr Ha Hb v2 s x y p q HL E. destruct v2 as [| | | | | |cm' l' r' a' b']; try discriminate.
      cbn [symV] in E. destruct (cmpop_eqb cm cm') eqn:Eo; [|discriminate].
      apply cmpop_eqb_eq in Eo. subst cm'.
      destruct (both_same (sV l l') (sV r r')) as [t|] eqn:EB; [|discriminate].
      apply both_same_some in EB. destruct EB as [El [Er _]].
      apply agree_some in E. destruct E as [Ea Eb].
      rewrite !evalVR_VSel.
      rewrite (Hl l' false x y p q HL El), (Hr r' false x y p q HL Er), !omap_sg_false.
      rewrite (Ha a' s x y p q HL Ea), (Hb b' s x y p q HL Eb).
      destruct (eV l x y p q) as [u|], (eV r x y p q) as [w|]; cbn [obind2 omap]; try reflexivity.
      destruct (cmpR cm u w); reflexivity.
    Qed.

    Lemma ok_SSum v : symV_ok v -> symS_ok (SSum v).
    Proof.
      intros HV s2 s x y HL E. destruct s2 as [v2| | | | | | | | | |]; try discriminate.
      cbn [symS] in E. rewrite !evalSR_SSum, (symV_vec v v2 s x y HV HL E).
      destruct (oseq (map2 (fun a b => eV v x y a b) x y)) as [l|]; cbn [omap obind]; [|reflexivity].
      now rewrite rsum_sg.
    Qed.

    Lemma ok_SAmax v : symV_ok v -> symS_ok (SAmax v).
    Proof.
      intros HV s2 s x y HL E. destruct s2 as [|v2| | | | | | | | |]; try discriminate.
      cbn [symS] in E. apply same_only_some in E. destruct E as [E ->].
      rewrite !evalSR_SAmax, (symV_vec v v2 false x y HV HL E).
      destruct (oseq (map2 (fun a b => eV v x y a b) x y)) as [l|]; cbn [omap obind]; [|reflexivity].
      now rewrite map_sg_false.
    Qed.

    Lemma ok_SCountNe u v : symV_ok u -> symV_ok v -> symS_ok (SCountNe u v).
    Proof.
      intros HU HV s2 s x y HL E. destruct s2 as [| |c d| | | | | | | |]; try discriminate.
      cbn [symS] in E. apply absorbed_some in E. destruct E as [-> [t E]].
      rewrite !evalSR_SCountNe, omap_sg_false.
      apply orelse_some in E. destruct E as [E|E]; apply agree_some in E; destruct E as [E1 E2].
      - rewrite (oseq_swap (fun pq : R * R => (sg t (fst pq), sg t (snd pq)))
                   (fun a b => obind2 (eV u x y a b) (eV v x y a b) (fun p q => Some (p, q)))
                   (fun b a => obind2 (eV c y x b a) (eV d y x b a) (fun p q => Some (p, q)))).
        + destruct (oseq _) as [l|]; cbn [omap obind]; [|reflexivity]. now rewrite countne_sg.
        + intros a b. rewrite (HU c t x y a b HL E1), (HV d t x y a b HL E2).
          destruct (eV u x y a b), (eV v x y a b); reflexivity.
      - rewrite (oseq_swap (fun pq : R * R => (sg t (snd pq), sg t (fst pq)))
                   (fun a b => obind2 (eV u x y a b) (eV v x y a b) (fun p q => Some (p, q)))
                   (fun b a => obind2 (eV c y x b a) (eV d y x b a) (fun p q => Some (p, q)))).
        + destruct (oseq _) as [l|]; cbn [omap obind]; [|reflexivity].
          now rewrite countne_sg_flip.
        + intros a b. rewrite (HU d t x y a b HL E1), (HV c t x y a b HL E2).
          destruct (eV u x y a b), (eV v x y a b); reflexivity.
    Qed.

    Lemma ok_SBin o a b : symS_ok a -> symS_ok b -> symS_ok (SBin o a b).
    Proof.
      intros Ha Hb s2 s x y HL E. destruct s2 as [| | | | | | |o' c d| | |]; try discriminate.
      cbn [symS] in E. destruct (binop_eqb o o') eqn:Eo; [|discriminate].
      apply binop_eqb_eq in Eo. subst o'. rewrite !evalSR_SBin.
      apply (sym_bin_sound o (sS a c) (sS b d) (sS a d) (sS b c)); try assumption.
      - intros t Et. now apply Ha.
      - intros t Et. now apply Hb.
      - intros t Et. now apply Ha.
      - intros t Et. now apply Hb.
    Qed.

    Lemma ok_SUn o a : symS_ok a -> symS_ok (SUn o a).
    Proof.
      intros Ha s2 s x y HL E. destruct s2 as [| | | | | | | |o' c| |]; try discriminate.
      cbn [symS] in E. destruct (unop_eqb o o') eqn:Eo; [|discriminate].
      apply unop_eqb_eq in Eo. subst o'. rewrite !evalSR_SUn.
      apply (sym_un_sound o (sS a c)); [|assumption]. intros t Et. now apply Ha.
    Qed.

    Lemma ok_SPowC a p0 : symS_ok a -> symS_ok (SPowC a p0).
    Proof.
      intros Ha s2 s x y HL E. destruct s2 as [| | | | | | | | |c p0'|]; try discriminate.
      cbn [symS] in E. destruct (pconst_eqb p0 p0') eqn:Eo; [|discriminate].
      apply pconst_eqb_eq in Eo. subst p0'. rewrite !evalSR_SPowC.
      apply (sym_pow_sound p0 (sS a c)); [|assumption]. intros t Et. now apply Ha.
    Qed.

    Lemma ok_SCall f u v : symV_ok u -> symV_ok v -> symS_ok (SCall f u v).
    Proof.
      intros HU HV s2 s x y HL E. destruct s2 as [| | | | | | | | | |f' c d]; try discriminate.
      cbn [symS] in E. destruct (String.eqb f f') eqn:Ef; [|discriminate].
      apply String.eqb_eq in Ef. subst f'. rewrite !evalSR_SCall.
      apply orelse_some in E. destruct E as [E|E].
      - apply both_same_some in E. destruct E as [E1 [E2 ->]].
        rewrite (symV_vec u c false x y HU HL E1), (symV_vec v d false x y HV HL E2), omap_sg_false.
        destruct (oseq (map2 (fun a b => eV u x y a b) x y)) as [lu|]; cbn [omap obind2]; [|reflexivity].
        destruct (oseq (map2 (fun a b => eV v x y a b) x y)) as [lv|]; cbn [omap obind2]; [|reflexivity].
        now rewrite !map_sg_false.
      - destruct (callsym f) eqn:Ec; [|discriminate].
        apply both_same_some in E. destruct E as [E1 [E2 ->]].
        rewrite (symV_vec u d false x y HU HL E1), (symV_vec v c false x y HV HL E2), omap_sg_false.
        destruct (oseq (map2 (fun a b => eV u x y a b) x y)) as [lu|] eqn:Elu; cbn [omap obind2].
        + destruct (oseq (map2 (fun a b => eV v x y a b) x y)) as [lv|] eqn:Elv; cbn [omap obind2]; [|reflexivity].
          rewrite !map_sg_false. apply call_ok; [assumption|].
          rewrite (oseq_length _ x y lu HL Elu), (oseq_length _ x y lv HL Elv). reflexivity.
        + destruct (oseq (map2 (fun a b => eV v x y a b) x y)) as [lv|]; reflexivity.
    Qed.

    Lemma sym_mut : (forall v, symV_ok v) /\ (forall s, symS_ok s).
    Proof.
      apply expr_mutind.
      - intros v2 s x y a b HL E. destruct v2; try discriminate. cbn in E. injection E as <-. reflexivity.
      - intros v2 s x y a b HL E. destruct v2; try discriminate. cbn in E. injection E as <-. reflexivity.
      - intros s1 HS v2 s x y a b HL E. destruct v2 as [| |s2| | | |]; try discriminate.
        cbn [symV] in E. rewrite !evalVR_VConstS. now apply HS.
      - intros o v1 H1 v2 H2. now apply ok_VBin.
      - intros o v1 H1. now apply ok_VUn.
      - intros v1 H1 p. now apply ok_VPowC.
      - intros cm l Hl r Hr v1 H1 v2 H2. now apply ok_VSel.
      - intros v HV. now apply ok_SSum.
      - intros v HV. now apply ok_SAmax.
      - intros u HU v HV. now apply ok_SCountNe.
      - intros s2 s x y HL E. destruct s2; try discriminate. cbn in E. injection E as <-.
        cbn [evalSR omap sg]. unfold len. now rewrite HL.
      - intros q s2 s x y HL E. destruct s2 as [| | | |q'| | | | | |]; try discriminate. cbn [symS] in E.
        destruct (Q_eqb q q') eqn:Eq; [|discriminate]. apply Q_eqb_eq in Eq. subst q'.
        injection E as <-. reflexivity.
      - intros n s2 s x y HL E. destruct s2 as [| | | | |n'| | | | |]; try discriminate. cbn [symS] in E.
        destruct (cname_eqb n n') eqn:Eq; [|discriminate]. apply cname_eqb_eq in Eq. subst n'.
        injection E as <-. reflexivity.
      - intros p s2 s x y HL E. destruct s2 as [| | | | | |p'| | | |]; try discriminate. cbn [symS] in E.
        destruct (String.eqb p p') eqn:Eq; [|discriminate]. apply String.eqb_eq in Eq. subst p'.
        injection E as <-. reflexivity.
      - intros o s1 H1 s2 H2. now apply ok_SBin.
      - intros o s1 H1. now apply ok_SUn.
      - intros s1 H1 p. now apply ok_SPowC.
      - intros f u HU v HV. now apply ok_SCall.
    Qed.

    Lemma symS_sound s1 s2 s x y :
      length x = length y -> sS s1 s2 = Some s -> eS s2 y x = omap (sg s) (eS s1 x y).
    Proof. apply (proj2 sym_mut s1). Qed.
  End Expr.

  (* ---------- whole metrics ---------- *)
  Lemma wrap_sym_sound callR callsym pe dparams dprog m x y :
    (forall f x y, callsym f = true -> length x = length y -> callR f y x = callR f x y) ->
    wrap_sym callsym dparams dprog m = true -> length x = length y ->
    wrapR rnd callR dparams dprog pe m y x = wrapR rnd callR dparams dprog pe m x y.
  Proof.
    intros call_ok E HL. unfold wrap_sym in E. apply andb_prop in E. destruct E as [ED EB].
    assert (BODY : forall x y, length x = length y -> eval_bodyR rnd callR pe m y x = eval_bodyR rnd callR pe m x y).
    { intros x0 y0 HL0. unfold eval_bodyR.
      destruct (symS callsym (m_body m) (m_body m)) as [[|]|] eqn:Es; try discriminate.
      rewrite (symS_sound callR callsym pe call_ok _ _ false x0 y0 HL0 Es). apply omap_sg_false. }
    unfold wrapR. destruct (m_avoid_zero m).
    - unfold dec_uniform in ED. destruct (dec_shifts dparams dprog) as [cs|] eqn:Ecs; [|discriminate].
      rewrite !(dec_shifts_sound rnd dparams dprog cs Ecs). apply BODY.
      now rewrite !shiftsR_length.
    - now apply BODY.
  Qed.

  Lemma call_sym_sound t dparams dprog fuel : forall f x y,
    call_sym t dparams dprog fuel f = true -> length x = length y ->
    call_fuelR rnd t dparams dprog fuel f y x = call_fuelR rnd t dparams dprog fuel f x y.
  Proof.
    induction fuel as [|n IH]; intros f x y; cbn [call_sym call_fuelR]; [discriminate|].
    destruct (lookup_ir f t) as [m|]; [|discriminate].
    intros E HL. now apply (wrap_sym_sound _ (call_sym t dparams dprog n)).
  Qed.

  Theorem swap_sym_gen_sound t dparams dprog pe m x y :
    swap_sym_gen t dparams dprog m = true -> length x = length y ->
    evalRnd_wrapped_with rnd t dparams dprog pe m x y = evalRnd_wrapped_with rnd t dparams dprog pe m y x.
  Proof.
    unfold swap_sym_gen, evalRnd_wrapped_with. intros E HL. symmetry.
    apply (wrap_sym_sound _ (call_sym t dparams dprog call_depth)); try assumption.
    apply call_sym_sound.
  Qed.
End Sym.

(* ---------- the theorems at the generated tables ---------- *)
Theorem swap_sym_sound m :
  swap_sym m = true ->
  forall rnd, rnd_odd rnd -> forall x y, length x = length y ->
  metric_rnd rnd m x y = metric_rnd rnd m y x.
Proof.
  intros E rnd ODD x y HL. unfold metric_rnd, evalRnd_wrapped.
  now apply swap_sym_gen_sound.
Qed.

(* extra parameters (gaussian's gamma) arbitrary *)
Theorem swap_sym_sound_with m :
  swap_sym m = true ->
  forall rnd, rnd_odd rnd -> forall pe x y, length x = length y ->
  metric_rnd_with rnd pe m x y = metric_rnd_with rnd pe m y x.
Proof.
  intros E rnd ODD pe x y HL. unfold metric_rnd_with.
  now apply swap_sym_gen_sound.
Qed.
