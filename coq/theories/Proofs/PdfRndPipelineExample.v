(* Non-vacuity of the float-level end-to-end theorems of PdfRndPipeline.v: the plateau rounding [rH]
   ([1.5, 1.75] |-> 1.5, identity elsewhere; PdfRndExample.v) satisfies every hypothesis on the rounding
   function, and the three-sample data of KnnPipelineExample.v satisfy the hypotheses on the data. *)
From Coq Require Import Reals List Arith Bool ZArith Lia Lra Permutation.
From OPF Require Import Base.Lists Base.NumOps Base.NumOpsRnd Model.Heap Model.Knn Model.Pdf Model.KnnFit
  Model.MetricRnd Spec.Paths Spec.Trees Proofs.PdfBase Proofs.KnnPipeline Proofs.KnnPipelineMain
  Proofs.KnnPipelineExample Proofs.PdfRndBase Proofs.PdfRnd Proofs.PdfRndExample Proofs.PdfRndPipeline.
Import ListNotations.
Local Open Scope R_scope.

(* every hypothesis of Section Pipeline, for rH and for the identity *)
Lemma rH_pipeline_hyps :
  rounding rH /\ rH 1 = 1 /\ rnd_idem rH /\ (forall x, 0 <= x -> rH x <= 2 * x) /\
  (forall t, 1 <= t <= 7994 -> rH t = t -> rH (t - 1) < t).
Proof.
  destruct rH_admissible as (A1 & A2 & A3 & _ & A5 & A6).
  repeat (split; [assumption|]).
  intros t Ht. apply (gap_of_integers rH 7993 A1); [intros z _; apply A5|]. lra.
Qed.

Lemma id_pipeline_hyps :
  rounding (fun t : R => t) /\ (fun t : R => t) 1 = 1 /\ rnd_idem (fun t => t) /\
  (forall x, 0 <= x -> (fun t : R => t) x <= 2 * x) /\
  (forall t, 1 <= t <= 7994 -> (fun t : R => t) t = t -> (fun t : R => t) (t - 1) < t).
Proof.
  split; [exact id_rounding|]. split; [reflexivity|]. split; [exact id_idem|].
  split; intros; lra.
Qed.

Example exr_sup_rnd :
  exists (g' : @knn R) (c mn mx : R),
    knn_sup_final (RndOps rH) 10 (1/100000) 1 1000 1 exr_labels 0 exr_d exr_e = (g', (c, mn, mx)) /\
    Permutation (k_order g') [0; 1; 2]%nat /\
    (forall q, (q < 3)%nat -> nth q (k_plabel g') 0%nat = nth q exr_labels 0%nat) /\
    (forall q, (q < 3)%nat -> 1 <= nth q (k_dens g') 0 <= 7994) /\
    (forall q, (q < 3)%nat ->
       exists r, (r < 3)%nat /\ nth r (k_pred g') None = None /\ nth q (k_root g') 0%nat = r /\
         nth q (k_dens g') 0 - 1 < nth q (k_cost g') 0 /\
         nth q (k_dens g') 0 < nth r (k_dens g') 0 + 1 /\
         nth q exr_labels 0%nat = nth r exr_labels 0%nat) /\
    0 <= mn /\ mn <= mx.
Proof.
  destruct exr_premises as (_ & _ & P1 & P2 & P3 & P4).
  destruct rH_pipeline_hyps as (A1 & A2 & A3 & A4 & A5).
  destruct (knn_sup_final (RndOps rH) 10 (1/100000) 1 1000 1 exr_labels 0 exr_d exr_e) as [g' [[c mn] mx]] eqn:H.
  exists g', c, mn, mx. split; [reflexivity|].
  pose proof (knn_sup_final_forest_rnd rH A1 A2 A3 A4 A5 10 (1/100000) 1 0 1 exr_labels exr_d exr_e P1 P3 g' c mn mx H) as T.
  cbv zeta in T. change (length exr_labels) with 3%nat in T.
  destruct T as (_ & T2 & T3 & (adj0 & KG & _) & _ & T6 & T7).
  split; [exact T2|]. split; [exact T7|]. split; [exact T3|]. split.
  - intros q Hq. destruct (T6 q Hq) as (r & j & _ & F2 & _ & F4 & _ & F6 & F7 & _ & _ & F10 & _ & F12).
    exists r. repeat (split; [assumption|]). exact F12.
  - unfold knn_graph_rnd in KG. cbv zeta in KG. destruct KG as (_ & Harcs & _ & _ & _ & _ & _ & Hc).
    assert (He0 : forall i j, (i < 3)%nat -> (j < 3)%nat -> 0 <= exr_e i j) by (intros i j Hi Hj; apply P4; assumption).
    assert (Hp : forall i, (i < 3)%nat ->
              pdf_value (RndOps rH) 1 (fun l => exr_e i (nth l (nth i adj0 []) 0%nat)) <= 10).
    { intros i Hi. rewrite pdf_value_RndOps.
      assert (pdfv rH 1 (fun l => exr_e i (nth l (nth i adj0 []) 0%nat)) <= 1); [|lra].
      apply (pdfv_le_1 rH A1); [exact A2|intros z _; apply rH_integers|].
      intros l Hl. apply P4; [exact Hi|].
      destruct (Harcs i Hi) as (Hlen & _ & _ & Hlt & _). apply Hlt. apply nth_In.
      rewrite Hlen. cbn. lia. }
    destruct (Hc ltac:(lia) ltac:(lra) He0 Hp) as (_ & _ & M1 & M2). auto.
Qed.

Example exr_unsup_rnd :
  exists (g' : @knn R) (c mn mx : R),
    unsup_final (RndOps rH) 10 (1/100000) 1 1000 1 exr_labels 0 exr_d exr_e = (g', (c, mn, mx)) /\
    Permutation (k_order g') [0; 1; 2]%nat /\
    (1 <= k_nclusters g' <= 3)%nat /\
    (forall q, (q < 3)%nat -> (nth q (k_clabel g') 0 < k_nclusters g')%nat) /\
    (forall q, (q < 3)%nat ->
       exists r, (r < 3)%nat /\ nth r (k_pred g') None = None /\ nth q (k_root g') 0%nat = r /\
         nth q (k_dens g') 0 - 1 < nth q (k_cost g') 0 /\
         nth q (k_dens g') 0 < nth r (k_dens g') 0 + 1 /\
         nth q (k_clabel g') 0%nat = nth r (k_clabel g') 0%nat).
Proof.
  destruct exr_premises as (_ & P0 & P1 & P2 & P3 & P4).
  destruct rH_pipeline_hyps as (A1 & A2 & A3 & A4 & A5).
  destruct (unsup_final (RndOps rH) 10 (1/100000) 1 1000 1 exr_labels 0 exr_d exr_e) as [g' [[c mn] mx]] eqn:H.
  exists g', c, mn, mx. split; [reflexivity|].
  pose proof (unsup_final_forest_rnd rH A1 A2 A3 A4 A5 10 (1/100000) 1 0 1 exr_labels exr_d exr_e P0 P1 P3 g' c mn mx H) as T.
  cbv zeta in T. change (length exr_labels) with 3%nat in T.
  destruct T as (_ & T2 & _ & _ & _ & T6 & T7 & T8 & _ & _ & _ & _ & T13).
  split; [exact T2|]. split.
  - split.
    + destruct (T6 0%nat ltac:(lia)) as (r & j & _ & F2 & _ & F4 & _).
      rewrite T7. assert (Hin : In r (filter (fun q => match nth q (k_pred g') None with None => true | Some _ => false end) (seq 0 3))).
      { apply filter_In. split; [apply in_seq; lia|]. now rewrite F4. }
      destruct (filter _ (seq 0 3)); [destruct Hin|cbn [length]; lia].
    + rewrite T7. pose proof (filter_length_bound (fun q => match nth q (k_pred g') None with None => true | Some _ => false end) (seq 0 3)) as B.
      rewrite seq_length in B. exact B.
  - split; [exact T13|].
    intros q Hq. destruct (T6 q Hq) as (r & j & _ & F2 & _ & F4 & _ & F6 & F7 & _ & _ & F10 & F11).
    exists r. repeat (split; [assumption|]). exact F11.
Qed.
