(* C04, "for every metric that is a symmetric non-negative dissimilarity with zero
   self-distance": the closed forms (Spec/MetricSpec.v) for which Props/C08_basic.v states
   all three facts without side conditions on the feature vectors.  The list below is
   generated from Props/C08_basic.v (names whose three statements carry no [all_pos] /
   [sum] premise); these three facts are what [tie_free]'s symmetry, positivity-off-the-
   diagonal (given distinct samples at non-zero distance) and the zero self-distance of
   [sup_predict_train_exact] instantiate to. *)
From Coq Require Import Reals List.
From OPF Require Import Spec.MetricSpec Proofs.MetricAxioms.

Definition dissimilarity_R (f : list R -> list R -> R) : Prop :=
  (forall x y, length x = length y -> f x y = f y x)%R /\
  (forall x y, length x = length y -> (1 <= length x)%nat -> 0 <= f x y)%R /\
  (forall x, (1 <= length x)%nat -> f x x = 0)%R.

Lemma dissimilarity_R_def :
  forall f : list R -> list R -> R,
    dissimilarity_R f <->
    (forall x y, length x = length y -> f x y = f y x)%R /\
    (forall x y, length x = length y -> (1 <= length x)%nat -> 0 <= f x y)%R /\
    (forall x, (1 <= length x)%nat -> f x x = 0)%R.
Proof. exact (fun f => iff_refl _). Qed.

Lemma dissimilarity_average_euclidean : dissimilarity_R sp_average_euclidean.
Proof. split; [exact sym_average_euclidean|split; [exact nonneg_average_euclidean|exact zero_self_average_euclidean]]. Qed.

Lemma dissimilarity_canberra : dissimilarity_R sp_canberra.
Proof. split; [exact sym_canberra|split; [exact nonneg_canberra|exact zero_self_canberra]]. Qed.

Lemma dissimilarity_chebyshev : dissimilarity_R sp_chebyshev.
Proof. split; [exact sym_chebyshev|split; [exact nonneg_chebyshev|exact zero_self_chebyshev]]. Qed.

Lemma dissimilarity_clark : dissimilarity_R sp_clark.
Proof. split; [exact sym_clark|split; [exact nonneg_clark|exact zero_self_clark]]. Qed.

Lemma dissimilarity_euclidean : dissimilarity_R sp_euclidean.
Proof. split; [exact sym_euclidean|split; [exact nonneg_euclidean|exact zero_self_euclidean]]. Qed.

Lemma dissimilarity_gower : dissimilarity_R sp_gower.
Proof. split; [exact sym_gower|split; [exact nonneg_gower|exact zero_self_gower]]. Qed.

Lemma dissimilarity_hamming : dissimilarity_R sp_hamming.
Proof. split; [exact sym_hamming|split; [exact nonneg_hamming|exact zero_self_hamming]]. Qed.

Lemma dissimilarity_hassanat : dissimilarity_R sp_hassanat.
Proof. split; [exact sym_hassanat|split; [exact nonneg_hassanat|exact zero_self_hassanat]]. Qed.

Lemma dissimilarity_hellinger : dissimilarity_R sp_hellinger.
Proof. split; [exact sym_hellinger|split; [exact nonneg_hellinger|exact zero_self_hellinger]]. Qed.

Lemma dissimilarity_jaccard : dissimilarity_R sp_jaccard.
Proof. split; [exact sym_jaccard|split; [exact nonneg_jaccard|exact zero_self_jaccard]]. Qed.

Lemma dissimilarity_log_euclidean : dissimilarity_R sp_log_euclidean.
Proof. split; [exact sym_log_euclidean|split; [exact nonneg_log_euclidean|exact zero_self_log_euclidean]]. Qed.

Lemma dissimilarity_log_squared_euclidean : dissimilarity_R sp_log_squared_euclidean.
Proof. split; [exact sym_log_squared_euclidean|split; [exact nonneg_log_squared_euclidean|exact zero_self_log_squared_euclidean]]. Qed.

Lemma dissimilarity_lorentzian : dissimilarity_R sp_lorentzian.
Proof. split; [exact sym_lorentzian|split; [exact nonneg_lorentzian|exact zero_self_lorentzian]]. Qed.

Lemma dissimilarity_manhattan : dissimilarity_R sp_manhattan.
Proof. split; [exact sym_manhattan|split; [exact nonneg_manhattan|exact zero_self_manhattan]]. Qed.

Lemma dissimilarity_matusita : dissimilarity_R sp_matusita.
Proof. split; [exact sym_matusita|split; [exact nonneg_matusita|exact zero_self_matusita]]. Qed.

Lemma dissimilarity_mean_censored_euclidean : dissimilarity_R sp_mean_censored_euclidean.
Proof. split; [exact sym_mean_censored_euclidean|split; [exact nonneg_mean_censored_euclidean|exact zero_self_mean_censored_euclidean]]. Qed.

Lemma dissimilarity_non_intersection : dissimilarity_R sp_non_intersection.
Proof. split; [exact sym_non_intersection|split; [exact nonneg_non_intersection|exact zero_self_non_intersection]]. Qed.

Lemma dissimilarity_squared_chord : dissimilarity_R sp_squared_chord.
Proof. split; [exact sym_squared_chord|split; [exact nonneg_squared_chord|exact zero_self_squared_chord]]. Qed.

Lemma dissimilarity_squared_euclidean : dissimilarity_R sp_squared_euclidean.
Proof. split; [exact sym_squared_euclidean|split; [exact nonneg_squared_euclidean|exact zero_self_squared_euclidean]]. Qed.

Theorem metric_hypotheses_R :
  dissimilarity_R sp_average_euclidean /\
  dissimilarity_R sp_canberra /\
  dissimilarity_R sp_chebyshev /\
  dissimilarity_R sp_clark /\
  dissimilarity_R sp_euclidean /\
  dissimilarity_R sp_gower /\
  dissimilarity_R sp_hamming /\
  dissimilarity_R sp_hassanat /\
  dissimilarity_R sp_hellinger /\
  dissimilarity_R sp_jaccard /\
  dissimilarity_R sp_log_euclidean /\
  dissimilarity_R sp_log_squared_euclidean /\
  dissimilarity_R sp_lorentzian /\
  dissimilarity_R sp_manhattan /\
  dissimilarity_R sp_matusita /\
  dissimilarity_R sp_mean_censored_euclidean /\
  dissimilarity_R sp_non_intersection /\
  dissimilarity_R sp_squared_chord /\
  dissimilarity_R sp_squared_euclidean.
Proof.
  exact
    (conj dissimilarity_average_euclidean
    (conj dissimilarity_canberra
    (conj dissimilarity_chebyshev
    (conj dissimilarity_clark
    (conj dissimilarity_euclidean
    (conj dissimilarity_gower
    (conj dissimilarity_hamming
    (conj dissimilarity_hassanat
    (conj dissimilarity_hellinger
    (conj dissimilarity_jaccard
    (conj dissimilarity_log_euclidean
    (conj dissimilarity_log_squared_euclidean
    (conj dissimilarity_lorentzian
    (conj dissimilarity_manhattan
    (conj dissimilarity_matusita
    (conj dissimilarity_mean_censored_euclidean
    (conj dissimilarity_non_intersection
    (conj dissimilarity_squared_chord
    dissimilarity_squared_euclidean)))))))))))))))))).
Qed.
