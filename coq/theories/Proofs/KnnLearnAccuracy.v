(* [accuracy_F] (Model/KnnLearn.v) over the reals:

     - numpy's pairwise summation ([np_sum]) is the plain sum;
     - opf_accuracy lies in [0, 1] whenever there are as many predictions as labels (every error ratio
       FP_c / (N - count_c), FN_c / count_c is in [0, 1]: Proofs/MeasuresCount.v).

   Consequence used in Props/C16_fit.v: the candidates' accuracies are non-negative, so the kept k is the
   smallest arg-max outright (the initial max_acc = 0 is never an obstacle). *)
From Coq Require Import Reals List Arith Bool ZArith Lia Lra.
From OPF Require Model.Measures Proofs.MeasuresCount.
From OPF Require Import Base.Lists Base.NumOps Model.Heap Model.Knn Model.Pdf Model.KnnFit Model.KnnLearn
  Proofs.PdfBase.
Import ListNotations.
Local Open Scope R_scope.

Fixpoint rsum (l : list R) : R := match l with [] => 0 | a :: t => a + rsum t end.

Lemma rsum_app l1 l2 : rsum (l1 ++ l2) = rsum l1 + rsum l2.
Proof. induction l1 as [|a l1 IH]; cbn [app rsum]; [lra|]. rewrite IH. lra. Qed.

Lemma rsum_split m l : rsum l = rsum (firstn m l) + rsum (skipn m l).
Proof. rewrite <- rsum_app, firstn_skipn. reflexivity. Qed.

Lemma sum_from_R acc l : sum_from ROps acc l = acc + rsum l.
Proof.
  unfold sum_from. revert acc. induction l as [|a l IH]; intros acc; cbn [fold_left rsum]; [lra|].
  rewrite IH. rops. lra.
Qed.

(* the eight accumulators *)
Definition s8 (v : list R) : R :=
  nth 0 v 0 + nth 1 v 0 + nth 2 v 0 + nth 3 v 0 + nth 4 v 0 + nth 5 v 0 + nth 6 v 0 + nth 7 v 0.

Lemma s8_short v : (length v <= 8)%nat -> s8 v = rsum v.
Proof.
  intros H. unfold s8.
  do 9 (destruct v as [|? v]; [cbn [nth rsum]; lra|]). cbn [length] in H. lia.
Qed.

Lemma s8_add8 r a : s8 (add8 ROps r a) = s8 r + s8 a.
Proof. unfold s8, add8. cbn [seq map nth]. rops. change (fzero ROps) with 0. lra. Qed.

Lemma blocks8_sum : forall fuel r l,
  s8 (fst (blocks8 ROps fuel r l)) + rsum (snd (blocks8 ROps fuel r l)) = s8 r + rsum l.
Proof.
  induction fuel as [|f IH]; intros r l; cbn [blocks8]; [reflexivity|].
  destruct (Nat.leb 8 (length l)); [|reflexivity].
  rewrite IH, s8_add8, (rsum_split 8 l), (s8_short (firstn 8 l)) by apply firstn_le_length. lra.
Qed.

Lemma sum_block_R l : sum_block ROps l = rsum l.
Proof.
  unfold sum_block.
  pose proof (blocks8_sum (length l) (firstn 8 l) (skipn 8 l)) as H.
  destruct (blocks8 ROps (length l) (firstn 8 l) (skipn 8 l)) as [r rest]. cbn [fst snd] in H.
  rewrite sum_from_R. rops. change (fzero ROps) with 0.
  rewrite (rsum_split 8 l), <- (s8_short (firstn 8 l)) by apply firstn_le_length. unfold s8 in *. lra.
Qed.

Lemma pairwise_sum_R : forall fuel l, pairwise_sum ROps fuel l = rsum l.
Proof.
  induction fuel as [|f IH]; intros l; cbn [pairwise_sum].
  - destruct (Nat.ltb (length l) 8); [rewrite sum_from_R; change (fzero ROps) with 0; lra|].
    destruct (Nat.leb (length l) 128); apply sum_block_R.
  - destruct (Nat.ltb (length l) 8); [rewrite sum_from_R; change (fzero ROps) with 0; lra|].
    destruct (Nat.leb (length l) 128); [apply sum_block_R|].
    rewrite !IH. rops. symmetry. apply rsum_split.
Qed.

Lemma np_sum_R l : np_sum ROps l = rsum l.
Proof. apply pairwise_sum_R. Qed.

Lemma rsum_bounds (f : nat -> R) (lo hi : R) : forall L,
  (forall c, lo <= f c <= hi) -> INR (length L) * lo <= rsum (map f L) <= INR (length L) * hi.
Proof.
  induction L as [|c L IH]; intros H; cbn [map rsum length]; [cbn [INR]; lra|].
  rewrite S_INR. specialize (IH H). specialize (H c). lra.
Qed.

(* a ratio of counters a <= b, with Coq's x / 0 = x * / 0 (here a = 0 whenever b = 0) *)
Lemma ratio_01 (a b : nat) : (a <= b)%nat -> 0 <= INR a / INR b <= 1.
Proof.
  intros H. destruct b as [|b].
  - assert (a = 0%nat) by lia. subst. cbn [INR]. unfold Rdiv. rewrite Rmult_0_l. lra.
  - assert (Hb : 0 < INR (S b)) by (apply lt_0_INR; lia).
    pose proof (pos_INR a) as Ha. pose proof (le_INR _ _ H) as Hab.
    split.
    + unfold Rdiv. apply Rmult_le_pos; [exact Ha|]. left. now apply Rinv_0_lt_compat.
    + apply (Rmult_le_reg_r (INR (S b))); [exact Hb|]. unfold Rdiv. rewrite Rmult_assoc, Rinv_l by lra. lra.
Qed.

Lemma nth_map_seq (f : nat -> nat) K c :
  nth c (map f (seq 0 K)) 0%nat = if Nat.ltb c K then f c else 0%nat.
Proof.
  destruct (Nat.ltb_spec c K) as [H|H].
  - rewrite (nth_indep _ 0%nat (f 0%nat)) by (rewrite map_length, seq_length; exact H).
    rewrite map_nth, seq_nth by exact H. reflexivity.
  - apply nth_overflow. rewrite map_length, seq_length. exact H.
Qed.

Lemma nan_to_zero_R x : nan_to_zero ROps x = x.
Proof. unfold nan_to_zero. rops. unfold Reqb. destruct (Req_EM_T x x); [reflexivity|contradiction]. Qed.

Theorem accuracy_F_bounds labels preds :
  length labels = length preds -> 0 <= accuracy_F ROps labels preds <= 1.
Proof.
  intros Hlen. unfold accuracy_F.
  rewrite MeasuresCount.errors_FP_FN. cbn [fst snd]. rewrite MeasuresCount.sum_counts.
  rewrite np_sum_R. set (K := Measures.n_class labels).
  assert (HK : (0 < K)%nat) by (unfold K, Measures.n_class; lia).
  set (row := fun c : nat => _).
  assert (Hrow : forall c, 0 <= row c <= 2).
  { intros c. unfold row. rewrite !nan_to_zero_R. unfold ofnat. rops. rewrite !IZR_of_nat.
    unfold Measures.bincount. fold K. rewrite !nth_map_seq.
    destruct (Nat.ltb c K).
    - pose proof (ratio_01 _ _ (MeasuresCount.FP_le_rest labels preds c Hlen)).
      pose proof (ratio_01 _ _ (MeasuresCount.FN_le_n labels preds c Hlen)). lra.
    - cbn [INR]. unfold Rdiv. rewrite !Rmult_0_l. lra. }
  destruct (rsum_bounds row 0 2 (seq 0 K) Hrow) as [H0 H2]. rewrite seq_length in H0, H2.
  unfold ofnat. rops. rewrite IZR_of_nat, mult_INR. change (INR 2) with 2.
  assert (HKr : 0 < INR K) by (apply lt_0_INR; exact HK).
  assert (Hq : 0 <= rsum (map row (seq 0 K)) / (2 * INR K) <= 1).
  { split.
    - unfold Rdiv. apply Rmult_le_pos; [lra|]. left. apply Rinv_0_lt_compat. lra.
    - apply (Rmult_le_reg_r (2 * INR K)); [lra|]. unfold Rdiv. rewrite Rmult_assoc, Rinv_l by lra. lra. }
  lra.
Qed.

(* one prediction per query *)
Lemma predict_batch_length {F} (O : NumOps F) fmax eps maxd (g : @knn F) k n mn mx qs :
  length (predict_batch O fmax eps maxd g k n mn mx qs) = length qs.
Proof.
  unfold predict_batch.
  assert (H : forall qs' st, length (snd (fold_left (predict_step O fmax eps maxd g k n mn mx) qs' st))
                            = (length (snd st) + length qs')%nat).
  { induction qs' as [|q qs' IH]; intros st; cbn [fold_left length]; [lia|].
    rewrite IH. destruct st as [ns0 out], q as [dq eq]. unfold predict_step.
    destruct (knn_scan (nltb O) fmax k n dq None ns0) as [ds ns]. cbn [snd]. rewrite app_length. cbn [length]. lia. }
  rewrite H. reflexivity.
Qed.
