(* Facts about the regenerated tables used by C19. *)
From Coq Require Import String List Bool.
From OPF Require Import Model.Effects Gen.Attrs_gen Gen.Stores_gen.
Import ListNotations.
Open Scope string_scope.

Definition string_in (s : string) (l : list string) : bool := existsb (String.eqb s) l.

Fixpoint nodupb (l : list string) : bool :=
  match l with [] => true | a :: t => negb (string_in a t) && nodupb t end.

(* save/load have exactly the modelled shape *)
Lemma save_load_shape : save_body_ok = true /\ load_body_ok = true.
Proof. vm_compute. split; reflexivity. Qed.

(* the four constructors create their attributes once each; all share the OPF base attributes *)
Lemma ctor_attrs_wellformed :
  forallb (fun ka => nodupb (snd ka) &&
                     forallb (fun a => string_in a (snd ka))
                             ["subgraph"; "distance"; "distance_fn"; "pre_computed_distance"; "pre_distances"])
          ctor_attrs = true
  /\ map fst ctor_attrs = ["SupervisedOPF"; "SemiSupervisedOPF"; "KNNSupervisedOPF"; "UnsupervisedOPF"].
Proof. vm_compute. split; reflexivity. Qed.

(* no code reachable from fit/predict deletes an attribute or an item: the attribute set only grows,
   so a fitted object has every attribute a fresh object of the same kind has *)
Lemma no_delete_sites : forallb (fun s => negb (String.eqb (s_kind s) "del")) stores = true.
Proof. vm_compute. reflexivity. Qed.
