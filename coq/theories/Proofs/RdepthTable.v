(* The rounding-depth analysis applied to the regenerated terms (Gen/Metrics_gen.v).

   Each [rd_gen_<name>] is proved by computation on the generated body with the vector length [n] kept
   symbolic ([cbv] with the arithmetic of [nat] blocked, then [lia]); it therefore re-runs on every edit of
   opfython/math/distance.py, and fails (fail-closed) if a body leaves the fragment or changes its depth.
   Combined with [rdepth_gen_sound] and the closed forms of C06 this gives [rounding_bound] for
   8 identifiers; the other 39 are outside the fragment ([rd_outside]). *)
From Coq Require Import Reals QArith String List Lra Lia Bool Arith ZifyNat.
From OPF Require Import Spec.MetricSpec Model.MetricIR Gen.Metrics_gen Model.MetricRnd Model.MetricEval
     Model.MetricRdepth Proofs.ClosedForms Proofs.RoundingBounds Proofs.RdepthSound.
Import ListNotations.
Open Scope string_scope.
Open Scope R_scope.

Ltac rd_compute := cbv -[Nat.add Nat.mul Nat.div Nat.pred Nat.max half_up].

(* ---------- depth and class, for every length ---------- *)
Lemma rd_gen_squared_euclidean n : (1 <= n)%nat ->
  rdepth_gen all_metrics_ir Any ir_squared_euclidean n = Some ((n + 2)%nat, NonNeg).
Proof. intros H. rd_compute. do 2 f_equal. lia. Qed.

Lemma rd_gen_manhattan n : (1 <= n)%nat ->
  rdepth_gen all_metrics_ir Any ir_manhattan n = Some (n, NonNeg).
Proof. intros H. rd_compute. do 2 f_equal. lia. Qed.

Lemma rd_gen_euclidean n : (1 <= n)%nat ->
  rdepth_gen all_metrics_ir Any ir_euclidean n = Some (((n + 3) / 2 + 1)%nat, NonNeg).
Proof. intros H. rd_compute. do 2 f_equal. unfold half_up. lia. Qed.

Lemma rd_gen_average_euclidean n : (1 <= n)%nat ->
  rdepth_gen all_metrics_ir Any ir_average_euclidean n = Some (((n + 4) / 2 + 1)%nat, NonNeg).
Proof. intros H. rd_compute. do 2 f_equal. unfold half_up. lia. Qed.

Lemma rd_gen_chebyshev n : (1 <= n)%nat ->
  rdepth_gen all_metrics_ir Any ir_chebyshev n = Some (1%nat, NonNeg).
Proof. intros H. rd_compute. reflexivity. Qed.

Lemma rd_gen_hamming n : (1 <= n)%nat ->
  rdepth_gen all_metrics_ir Any ir_hamming n = Some (0%nat, NonNeg).
Proof. intros H. rd_compute. reflexivity. Qed.

Lemma rd_gen_gower n : (1 <= n)%nat ->
  rdepth_gen all_metrics_ir Any ir_gower n = Some ((n + 1)%nat, NonNeg).
Proof. intros H. rd_compute. do 2 f_equal. lia. Qed.

Lemma rd_gen_non_intersection n : (1 <= n)%nat ->
  rdepth_gen all_metrics_ir Any ir_non_intersection n = Some ((n + 1)%nat, NonNeg).
Proof. intros H. rd_compute. do 2 f_equal. lia. Qed.

(* ---------- the table by function name ---------- *)
Lemma rdepth_of_gen m n k c : rdepth_gen all_metrics_ir Any m n = Some (k, c) -> rdepth m n = Some k.
Proof. intros E. unfold rdepth, rdepth_in. rewrite E. reflexivity. Qed.

Theorem rd_table n : (1 <= n)%nat ->
     rdepth_name "squared_euclidean_distance" n = Some (n + 2)%nat
  /\ rdepth_name "manhattan_distance" n = Some n
  /\ rdepth_name "euclidean_distance" n = Some ((n + 3) / 2 + 1)%nat
  /\ rdepth_name "average_euclidean_distance" n = Some ((n + 4) / 2 + 1)%nat
  /\ rdepth_name "chebyshev_distance" n = Some 1%nat
  /\ rdepth_name "hamming_distance" n = Some 0%nat
  /\ rdepth_name "gower_distance" n = Some (n + 1)%nat
  /\ rdepth_name "non_intersection_distance" n = Some (n + 1)%nat.
Proof.
  intros H. unfold rdepth_name.
  repeat match goal with |- context [lookup_ir ?f all_metrics_ir] =>
    let r := eval vm_compute in (lookup_ir f all_metrics_ir) in
    change (lookup_ir f all_metrics_ir) with r end.
  repeat apply conj.
  - exact (rdepth_of_gen _ _ _ _ (rd_gen_squared_euclidean n H)).
  - exact (rdepth_of_gen _ _ _ _ (rd_gen_manhattan n H)).
  - exact (rdepth_of_gen _ _ _ _ (rd_gen_euclidean n H)).
  - exact (rdepth_of_gen _ _ _ _ (rd_gen_average_euclidean n H)).
  - exact (rdepth_of_gen _ _ _ _ (rd_gen_chebyshev n H)).
  - exact (rdepth_of_gen _ _ _ _ (rd_gen_hamming n H)).
  - exact (rdepth_of_gen _ _ _ _ (rd_gen_gower n H)).
  - exact (rdepth_of_gen _ _ _ _ (rd_gen_non_intersection n H)).
Qed.

(* the other 39 identifiers are outside the fragment, at every length *)
Definition rd_outside_names : list string :=
  ["additive_symmetric_distance"; "bhattacharyya_distance"; "bray_curtis_distance"; "canberra_distance";
   "chi_squared_distance"; "chord_distance"; "clark_distance"; "cosine_distance"; "dice_distance";
   "divergence_distance"; "gaussian_distance"; "hassanat_distance"; "hellinger_distance"; "jaccard_distance";
   "jeffreys_distance"; "jensen_distance"; "jensen_shannon_distance"; "k_divergence_distance";
   "kulczynski_distance"; "kullback_leibler_distance"; "log_euclidean_distance";
   "log_squared_euclidean_distance"; "lorentzian_distance"; "matusita_distance"; "max_symmetric_distance";
   "mean_censored_euclidean_distance"; "min_symmetric_distance"; "neyman_distance"; "pearson_distance";
   "sangvi_distance"; "soergel_distance"; "squared_distance"; "squared_chord_distance"; "statistic_distance";
   "topsoe_distance"; "vicis_symmetric1_distance"; "vicis_symmetric2_distance"; "vicis_symmetric3_distance";
   "vicis_wave_hedges_distance"].

Theorem rd_outside n :
  forallb (fun f => match rdepth_name f n with None => true | Some _ => false end) rd_outside_names = true.
Proof. rd_compute. reflexivity. Qed.

(* the 8 + 39 names are exactly the 47 generated definitions *)
Theorem rd_names_complete :
  length rd_outside_names = 39%nat
  /\ forallb (fun p => existsb (String.eqb (fst p))
                 (["squared_euclidean_distance"; "manhattan_distance"; "euclidean_distance";
                   "average_euclidean_distance"; "chebyshev_distance"; "hamming_distance"; "gower_distance";
                   "non_intersection_distance"] ++ rd_outside_names)) all_metrics_ir = true
  /\ length all_metrics_ir = 47%nat.
Proof. vm_compute. auto. Qed.

(* ---------- from depth to the bound on the closed form ---------- *)
Lemma rounding_bound_of_gen m (sp : list R -> list R -> R) (k : nat -> nat) :
  (forall n, (1 <= n)%nat -> rdepth_gen all_metrics_ir Any m n = Some (k n, NonNeg)) ->
  (forall x y, length x = length y -> metric_value m x y = sp x y) ->
  rounding_bound m sp k.
Proof.
  intros G CF u rnd HU REL x y HL H1.
  destruct (rdepth_gen_sound Any m (length x) _ _ (G (length x) H1) u rnd HU REL x y eq_refl)
    as [fl [Efl [Wfl Cfl]]]; [apply (in_dom_any x y (length x)); auto|].
  rewrite (CF x y HL) in Wfl, Cfl. cbn [in_cls] in Cfl. destruct HU as [U0 U1].
  exists fl. split; [exact Efl|]. split.
  - now apply within_nonneg_elim.
  - now apply (within_abs_nonneg u U0 U1).
Qed.

Theorem rounding_squared_euclidean :
  rounding_bound ir_squared_euclidean sp_squared_euclidean (fun n => (n + 2)%nat).
Proof. apply rounding_bound_of_gen; [exact rd_gen_squared_euclidean | exact closed_form_squared_euclidean]. Qed.

Theorem rounding_manhattan : rounding_bound ir_manhattan sp_manhattan (fun n => n).
Proof. apply rounding_bound_of_gen; [exact rd_gen_manhattan | exact closed_form_manhattan]. Qed.

Theorem rounding_euclidean : rounding_bound ir_euclidean sp_euclidean (fun n => ((n + 3) / 2 + 1)%nat).
Proof. apply rounding_bound_of_gen; [exact rd_gen_euclidean | exact closed_form_euclidean]. Qed.

Theorem rounding_average_euclidean :
  rounding_bound ir_average_euclidean sp_average_euclidean (fun n => ((n + 4) / 2 + 1)%nat).
Proof. apply rounding_bound_of_gen; [exact rd_gen_average_euclidean | exact closed_form_average_euclidean]. Qed.

Theorem rounding_chebyshev : rounding_bound ir_chebyshev sp_chebyshev (fun _ => 1%nat).
Proof. apply rounding_bound_of_gen; [exact rd_gen_chebyshev | exact closed_form_chebyshev]. Qed.

Theorem rounding_hamming : rounding_bound ir_hamming sp_hamming (fun _ => 0%nat).
Proof. apply rounding_bound_of_gen; [exact rd_gen_hamming | exact closed_form_hamming]. Qed.

Theorem rounding_gower : rounding_bound ir_gower sp_gower (fun n => (n + 1)%nat).
Proof. apply rounding_bound_of_gen; [exact rd_gen_gower | exact closed_form_gower]. Qed.

Theorem rounding_non_intersection :
  rounding_bound ir_non_intersection sp_non_intersection (fun n => (n + 1)%nat).
Proof. apply rounding_bound_of_gen; [exact rd_gen_non_intersection | exact closed_form_non_intersection]. Qed.

(* hamming is exact: the computed value IS the closed form *)
Theorem rounding_hamming_exact u rnd x y :
  0 <= u < 1 -> rnd_rel u rnd -> length x = length y -> (1 <= length x)%nat ->
  metric_rnd rnd ir_hamming x y = Some (sp_hamming x y).
Proof.
  intros HU REL HL H1. destruct (rounding_hamming u rnd HU REL x y HL H1) as [fl [E [_ A]]].
  rewrite E. f_equal. cbn [pow] in A. replace ((1 - 1) * sp_hamming x y) with 0 in A by ring.
  pose proof (Rabs_pos (fl - sp_hamming x y)) as P.
  destruct (Req_dec (fl - sp_hamming x y) 0) as [E0|NE]; [lra|]. apply Rabs_pos_lt in NE. lra.
Qed.
