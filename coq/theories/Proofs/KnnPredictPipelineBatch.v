(* C09, KNN part, for an ARBITRARY strict total order: the batch prediction with its threaded
   scratch array equals the map of the fresh-array single prediction.

   Proofs/KnnBatch.v proves this at W := Z from the scan specification at Z.  The argument only
   needs three facts about one scan, all part of the lifted specification
   Lift2Knn.knn_scan_spec_anyorder: the lengths of the two arrays, "slot l >= min k n is empty",
   and "the first min k n neighbour slots are the prefix of the stable sort" (which does not
   mention the stale array).  It is repeated here over (W, ltb). *)
From Coq Require Import List Arith Bool Lia.
From OPF Require Import Base.Lists Base.TotalOrder Model.Knn Proofs.KnnSort Proofs.KnnScan Proofs.KnnBatch
  Proofs.Lift2Knn.
Import ListNotations.

Section BatchAnyOrder.
  Context {W : Type} (ltb : W -> W -> bool).
  Hypothesis O : strict_total_order ltb.
  Variables zero top bot : W.
  Variable g : @knn W.
  Variables k n : nat.
  Variable densx_of : list W -> list nat -> W.

  Lemma weqb_false_neq a b : weqb ltb a b = false -> a <> b.
  Proof.
    unfold weqb. intros H E. subst b. rewrite (so_irrefl ltb O a) in H. discriminate.
  Qed.

  (* what the proof needs of [densx_of]: in [ns] it may only look at what the scan specifies *)
  Definition densx_local_W : Prop :=
    forall ds ns ns', length ds = S k -> length ns = S k -> length ns' = S k ->
      (forall l, l < k -> nth l ds top <> top -> nth l ns 0 = nth l ns' 0) ->
      firstn (Nat.min k n) ns = firstn (Nat.min k n) ns' ->
      densx_of ds ns = densx_of ds ns'.

  Lemma knn_query_indep_anyorder dist ns0 :
    densx_local_W -> length ns0 = S k -> (forall j, j < n -> ltb (dist j) top = true) ->
    forall ds ns, knn_scan ltb top k n dist None ns0 = (ds, ns) ->
    length ns = S k /\
    knn_pick ltb zero top bot g k (densx_of ds ns) ds ns
    = knn_predict_one ltb zero top bot g k n densx_of dist.
  Proof.
    intros Hloc Hlen Htop ds ns Hscan. unfold knn_predict_one.
    destruct (knn_scan ltb top k n dist None (repeat 0 (S k))) as [ds' ns'] eqn:Hscan'.
    assert (Eds : ds = ds').
    { pose proof (knn_scan_fst_indep ltb top k n dist None ns0 (repeat 0 (S k))) as E.
      rewrite Hscan, Hscan' in E. exact E. }
    subst ds'.
    assert (Htop' : forall j, j < n -> None <> Some j -> ltb (dist j) top = true)
      by (intros j Hj _; apply Htop, Hj).
    destruct (knn_scan_spec_anyorder ltb O top k n dist None ns0 ltac:(lia) Htop' ds ns Hscan)
      as (Hld & Hln & _ & Hempty & _ & _ & _ & Hfn & _).
    destruct (knn_scan_spec_anyorder ltb O top k n dist None (repeat 0 (S k))
                ltac:(rewrite repeat_length; lia) Htop' ds ns' Hscan')
      as (_ & Hln' & _ & _ & _ & _ & _ & Hfn' & _).
    cbv zeta in Hempty, Hfn, Hfn'. rewrite repeat_length in Hln'.
    assert (Hfirst : firstn (Nat.min k n) ns = firstn (Nat.min k n) ns') by (rewrite Hfn, Hfn'; reflexivity).
    assert (Hagree : forall l, l < k -> nth l ds top <> top -> nth l ns 0 = nth l ns' 0).
    { intros l Hl Hne. destruct (Nat.lt_ge_cases l (Nat.min k n)) as [Hlm|Hlm].
      - rewrite <- (nth_firstn_lt 0 (Nat.min k n) ns l Hlm), <- (nth_firstn_lt 0 (Nat.min k n) ns' l Hlm).
        rewrite Hfirst. reflexivity.
      - exfalso. apply Hne, Hempty; assumption. }
    split; [lia|].
    rewrite (Hloc ds ns ns' Hld ltac:(lia) Hln' Hagree Hfirst).
    apply knn_pick_congr. intros l Hl Hw. apply Hagree; [exact Hl|]. now apply weqb_false_neq.
  Qed.

  Lemma knn_batch_fold_anyorder : densx_local_W -> forall qs ns0 out,
    length ns0 = S k ->
    (forall dist, In dist qs -> forall j, j < n -> ltb (dist j) top = true) ->
    snd (fold_left (knn_predict_step ltb zero top bot g k n densx_of) qs (ns0, out))
    = out ++ map (knn_predict_one ltb zero top bot g k n densx_of) qs.
  Proof.
    intros Hloc. induction qs as [|q qs IH]; intros ns0 out Hlen Hqs; cbn [fold_left map].
    - cbn [snd]. rewrite app_nil_r. reflexivity.
    - destruct (knn_scan ltb top k n q None ns0) as [ds ns] eqn:Hscan.
      rewrite (knn_predict_step_eq ltb zero top bot g k n densx_of ns0 out q ds ns Hscan).
      destruct (knn_query_indep_anyorder q ns0 Hloc Hlen (Hqs q (or_introl eq_refl)) ds ns Hscan)
        as [Hlen' Hpick].
      rewrite IH; [|exact Hlen'|intros d Hd; apply Hqs; right; exact Hd].
      rewrite Hpick, <- app_assoc. reflexivity.
  Qed.

  Theorem knn_batch_pointwise_anyorder qs :
    (forall dist, In dist qs -> forall j, j < n -> ltb (dist j) top = true) ->
    (forall ds ns ns', length ds = S k -> length ns = S k -> length ns' = S k ->
       (forall l, l < k -> nth l ds top <> top -> nth l ns 0 = nth l ns' 0) ->
       densx_of ds ns = densx_of ds ns') ->
    knn_predict_batch ltb zero top bot g k n densx_of qs
    = map (knn_predict_one ltb zero top bot g k n densx_of) qs.
  Proof.
    intros Hqs Hd. unfold knn_predict_batch.
    rewrite (knn_batch_fold_anyorder (fun ds ns ns' H1 H2 H3 H4 _ => Hd ds ns ns' H1 H2 H3 H4)
               qs (repeat 0 (S k)) [] (repeat_length _ _) Hqs).
    reflexivity.
  Qed.

  Theorem knn_batch_nth_anyorder qs :
    (forall dist, In dist qs -> forall j, j < n -> ltb (dist j) top = true) ->
    (forall ds ns ns', length ds = S k -> length ns = S k -> length ns' = S k ->
       (forall l, l < k -> nth l ds top <> top -> nth l ns 0 = nth l ns' 0) ->
       densx_of ds ns = densx_of ds ns') ->
    length (knn_predict_batch ltb zero top bot g k n densx_of qs) = length qs /\
    forall i d0, i < length qs ->
      nth i (knn_predict_batch ltb zero top bot g k n densx_of qs) None
      = knn_predict_one ltb zero top bot g k n densx_of (nth i qs d0).
  Proof.
    intros Hqs Hd. rewrite (knn_batch_pointwise_anyorder qs Hqs Hd).
    split; [apply map_length|]. intros i d0 Hi.
    rewrite (nth_indep _ None (knn_predict_one ltb zero top bot g k n densx_of d0))
      by (rewrite map_length; exact Hi).
    apply map_nth.
  Qed.

  Theorem knn_position_free_anyorder qs qs' i i' d0 :
    (forall dist, In dist qs -> forall j, j < n -> ltb (dist j) top = true) ->
    (forall dist, In dist qs' -> forall j, j < n -> ltb (dist j) top = true) ->
    (forall ds ns ns', length ds = S k -> length ns = S k -> length ns' = S k ->
       (forall l, l < k -> nth l ds top <> top -> nth l ns 0 = nth l ns' 0) ->
       densx_of ds ns = densx_of ds ns') ->
    i < length qs -> i' < length qs' ->
    (forall j, j < n -> nth i qs d0 j = nth i' qs' d0 j) ->
    nth i (knn_predict_batch ltb zero top bot g k n densx_of qs) None
    = nth i' (knn_predict_batch ltb zero top bot g k n densx_of qs') None.
  Proof.
    intros Hqs Hqs' Hd Hi Hi' Hsame.
    destruct (knn_batch_nth_anyorder qs Hqs Hd) as [_ E].
    destruct (knn_batch_nth_anyorder qs' Hqs' Hd) as [_ E'].
    rewrite (E i d0 Hi), (E' i' d0 Hi'). apply knn_predict_one_ext, Hsame.
  Qed.
End BatchAnyOrder.

(* ---------- W := nat: a computed instance (the graph and query of Lift2Predict.v) ---------- *)
From OPF Require Import Proofs.Lift2Predict Proofs.LiftInst.

Definition pkn_dist2 (j : nat) : nat := nth j [1; 9; 9; 9; 9; 9] 0.

Example pkn_batch_premises :
  strict_total_order Nat.ltb /\
  (forall dist, In dist [pkn_dist; pkn_dist2; pkn_dist] -> forall j, j < 6 -> Nat.ltb (dist j) 1000 = true).
Proof.
  split; [exact nat_order|].
  intros dist [<-|[<-|[<-|[]]]] j Hj;
    (destruct j as [|[|[|[|[|[|j]]]]]]; [reflexivity|reflexivity|reflexivity|reflexivity|reflexivity|reflexivity|lia]).
Qed.

Example pkn_batch_result :
  knn_predict_batch Nat.ltb 0 1000 0 pkn_g 3 6 (fun _ _ => 8) [pkn_dist; pkn_dist2; pkn_dist]
  = [Some 4; Some 1; Some 4] /\
  map (knn_predict_one Nat.ltb 0 1000 0 pkn_g 3 6 (fun _ _ => 8)) [pkn_dist; pkn_dist2; pkn_dist]
  = [Some 4; Some 1; Some 4].
Proof. split; vm_compute; reflexivity. Qed.
