(* Non-vacuity of the semi-supervised capstone (Props/C15_capstone.v): three labeled
   one-dimensional rows 0, 1, 3 with classes 0, 0, 1 and TWO unlabeled rows 1/2, 5/2 under the
   manhattan code term, FLOAT_MAX read as 100.

   Besides the premises and the instantiated conclusion, the run itself is computed: the
   rescaling theorem (Proofs/Rescale.v, [rescale_semi_fit_gen]) with the strictly increasing map
   z |-> z/2 from Z to R turns the run on the doubled integer distances, which [vm_compute]
   evaluates, into the run over R.  In the result the labeled row 0 is conquered THROUGH the
   unlabeled row 1/2 (cost 1/2 instead of 1): the optimum paths run through all nl + nu nodes. *)
From Coq Require Import Reals List Arith ZArith Lia Lra Permutation.
From OPF Require Import Base.Lists Base.TotalOrder Base.NumOps Model.Heap Model.Sup Spec.Paths Spec.Trees.
From OPF Require Import Spec.MetricSpec Model.MetricIR Gen.Metrics_gen Model.MetricEval Proofs.ClosedForms.
From OPF Require Import Proofs.Rescale Proofs.WeightsExtBounded.
From OPF Require Import Proofs.Capstone Proofs.CapstoneInstances Proofs.CapstoneExample Proofs.CapstoneSemi.
Import ListNotations.
Open Scope R_scope.

Definition sx_feat (p : nat) : list R := nth p [[0]; [1]; [3]; [1/2]; [5/2]] [].
Definition sx_labels : list nat := [0; 0; 1]%nat.

(* the doubled coordinates and distances, as integers *)
Definition sx_co (p : nat) : Z := nth p [0; 2; 6; 1; 5]%Z 0%Z.
Definition sx_wz (p q : nat) : Z := Z.abs (sx_co p - sx_co q).
Definition sx_half (z : Z) : R := IZR z / 2.

Lemma sx_half_mono a b : Rltb (sx_half a) (sx_half b) = Z.ltb a b.
Proof.
  unfold sx_half. destruct (Z.ltb a b) eqn:E.
  - apply Rltb_true. apply Z.ltb_lt in E. apply IZR_lt in E. lra.
  - apply Rltb_false. apply Z.ltb_ge in E. apply IZR_le in E. lra.
Qed.

Lemma sx_feat_co p : (p < 5)%nat -> sx_feat p = [sx_half (sx_co p)].
Proof.
  intros Hp. destruct p as [|[|[|[|[|p]]]]]; [| | | | |lia];
    unfold sx_feat, sx_co, sx_half; cbn [nth]; f_equal; lra.
Qed.

Lemma sx_w p q : (p < 5)%nat -> (q < 5)%nat ->
  metric_value ir_manhattan (sx_feat p) (sx_feat q) = sx_half (sx_wz p q).
Proof.
  intros Hp Hq. rewrite (sx_feat_co p Hp), (sx_feat_co q Hq), cx_manhattan1.
  unfold sx_wz, sx_half. rewrite abs_IZR, minus_IZR.
  replace (IZR (sx_co p) / 2 - IZR (sx_co q) / 2) with ((IZR (sx_co p) - IZR (sx_co q)) * / 2) by lra.
  rewrite Rabs_mult, (Rabs_pos_eq (/ 2)) by lra. reflexivity.
Qed.

Lemma sx_wz_range p q : (p < 5)%nat -> (q < 5)%nat -> p <> q -> (1 <= sx_wz p q <= 6)%Z.
Proof.
  intros Hp Hq Hpq.
  destruct p as [|[|[|[|[|p]]]]]; [| | | | |lia]; (destruct q as [|[|[|[|[|q]]]]]; [| | | | |lia]);
    try (exfalso; apply Hpq; reflexivity); vm_compute; split; discriminate.
Qed.

Theorem sx_premises :
  let nl := length sx_labels in
  let n := (nl + 2)%nat in
  let w p q := metric_value ir_manhattan (sx_feat p) (sx_feat q) in
  In (ir_manhattan, (fun _ : list R => True), sp_manhattan) capstone_metrics /\
  (1 <= 1)%nat /\ (forall p, (p < n)%nat -> length (sx_feat p) = 1%nat) /\
  (forall p, (p < n)%nat -> (fun _ : list R => True) (sx_feat p)) /\
  (exists a b, (a < nl)%nat /\ (b < nl)%nat /\ nth a sx_labels 0%nat <> nth b sx_labels 0%nat) /\
  (forall p q, (p < n)%nat -> (q < n)%nat -> p <> q -> 0 < w p q < 100) /\
  0 < 100.
Proof.
  intros nl n w. change n with 5%nat. change nl with 3%nat. unfold w.
  split. { unfold capstone_metrics. repeat (first [left; reflexivity | right]). }
  split; [lia|]. split.
  { intros p Hp. rewrite (sx_feat_co p Hp). reflexivity. }
  split; [intros; exact I|].
  split. { exists 0%nat, 2%nat. cbn. repeat split; lia. }
  split; [|lra].
  intros p q Hp Hq Hpq. rewrite (sx_w p q Hp Hq). unfold sx_half.
  destruct (sx_wz_range p q Hp Hq Hpq) as [H1 H2]. apply IZR_le in H1, H2. lra.
Qed.

(* the conclusions hold of this run *)
Theorem sx_result :
  let nl := length sx_labels in
  let n := (nl + 2)%nat in
  let w p q := metric_value ir_manhattan (sx_feat p) (sx_feat q) in
  let nd := semi_fit Rltb 0 100 sx_labels 2 w in
  let mst q := nth q (n_pred (find_prototypes Rltb 100 nl w (nodes_init 0 sx_labels))) None in
  semi_forest_R nl 2 w sx_labels nd /\
  (semi_prototypes_R nl sx_labels mst nd /\ minimax_tree_R nl w mst) /\
  forall x : list R, predicts_first_argmin_R n nd (fun k => metric_value ir_manhattan (sx_feat k) x).
Proof.
  intros nl n w nd mst.
  destruct sx_premises as (Hin & Hd & Hlen & Hdom & Hcls & Hrange & Hpos).
  refine (cap_semi_all_code _ _ _ Hin sx_feat sx_labels 2 1 100 Hd Hlen Hdom Hcls _ Hpos).
  intros p q Hp Hq Hpq. exact (proj2 (Hrange p q Hp Hq Hpq)).
Qed.

(* the run, computed *)
Theorem sx_run :
  semi_fit Rltb 0 100 sx_labels 2 (fun p q => metric_value ir_manhattan (sx_feat p) (sx_feat q)) =
  mkNodes [1/2; 0; 0; 1/2; 1/2] [Some 3; None; None; Some 1; Some 2]%nat [0; 0; 1; 0; 1]%nat
          [0; 0; 1; 0; 1]%nat [false; true; true; false; false]
          [false; false; false; false; false] [1; 2; 3; 4; 0]%nat.
Proof.
  rewrite (proj1 (semi_fit_ext_bounded Rltb 0 100 sx_labels 2 _ (fun p q => sx_half (sx_wz p q)) sx_w)).
  replace 0 with (sx_half 0) at 1 by (unfold sx_half; lra).
  replace 100 with (sx_half 200) by (unfold sx_half; lra).
  rewrite (rescale_semi_fit_gen sx_half Z.ltb Rltb sx_half_mono 0%Z 200%Z sx_labels 2 sx_wz).
  replace (semi_fit Z.ltb 0%Z 200%Z sx_labels 2 sx_wz)
    with (mkNodes [1; 0; 0; 1; 1]%Z [Some 3; None; None; Some 1; Some 2]%nat [0; 0; 1; 0; 1]%nat
            [0; 0; 1; 0; 1]%nat [false; true; true; false; false]
            [false; false; false; false; false] [1; 2; 3; 4; 0]%nat)
    by (vm_compute; reflexivity).
  unfold map_nodes, sx_half.
  cbn [n_cost n_pred n_label n_plabel n_status n_relevant n_order map].
  f_equal. repeat (f_equal; try lra).
Qed.

(* a query at 2 (distances 2, 1, 1, 3/2, 1/2 to the five rows) is won by the unlabeled row 5/2,
   which carries the label it received from its root prototype 3: class 1 *)
Theorem sx_query :
  let nd := semi_fit Rltb 0 100 sx_labels 2
              (fun p q => metric_value ir_manhattan (sx_feat p) (sx_feat q)) in
  predict_one Rltb 0 nd (fun k => metric_value ir_manhattan (sx_feat k) [2]) = (1%nat, Some 4%nat).
Proof.
  intros nd. unfold nd. rewrite sx_run.
  set (ndz := mkNodes [1; 0; 0; 1; 1]%Z [Some 3; None; None; Some 1; Some 2]%nat [0; 0; 1; 0; 1]%nat
            [0; 0; 1; 0; 1]%nat [false; true; true; false; false]
            [false; false; false; false; false] [1; 2; 3; 4; 0]%nat).
  set (dz := fun k : nat => Z.abs (sx_co k - 4)).
  transitivity (predict_one Rltb (sx_half 0) (map_nodes sx_half ndz)
                  (fun k => metric_value ir_manhattan (sx_feat k) [2])).
  { f_equal; [unfold sx_half; lra|].
    unfold map_nodes, ndz, sx_half.
    cbn [n_cost n_pred n_label n_plabel n_status n_relevant n_order map].
    f_equal. repeat (f_equal; try lra). }
  rewrite (predict_one_b Rltb (sx_half 0) (map_nodes sx_half ndz) _ (fun k => sx_half (dz k))).
  - rewrite (rescale_predict_one_gen sx_half Z.ltb Rltb sx_half_mono 0%Z ndz dz).
    vm_compute. reflexivity.
  - intros k Hk.
    assert (Hk5 : (k < 5)%nat).
    { destruct Hk as [->|Hk]; [lia|]. unfold map_nodes, ndz in Hk. cbn [n_order] in Hk.
      cbn [In] in Hk. lia. }
    rewrite (sx_feat_co k Hk5), cx_manhattan1. unfold dz, sx_half.
    rewrite abs_IZR, minus_IZR.
    replace (IZR (sx_co k) / 2 - 2) with ((IZR (sx_co k) - 4) * / 2) by lra.
    rewrite Rabs_mult, (Rabs_pos_eq (/ 2)) by lra. reflexivity.
Qed.
