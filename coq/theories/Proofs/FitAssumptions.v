(* Assumption audit of the optimum-path-forest development (C01, C15): every line must print
   "Closed under the global context". *)
From OPF Require Import Props.C01 Props.C15.

Print Assumptions C01_compete_optimum_path_forest.
Print Assumptions C01_sup_fit_optimum_path_forest.
Print Assumptions C01_example_premises.
Print Assumptions C01_example_result.
Print Assumptions C15_compete_semi_optimum_path_forest.
Print Assumptions C15_semi_optimal.
Print Assumptions C15_semi_empty_is_supervised.
Print Assumptions C15_example_premises.
Print Assumptions C15_example_result.
