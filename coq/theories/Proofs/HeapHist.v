(* The history theorem for the heap model: every valid history, started from [h_init],
   refines an abstract priority queue, step by step; conservation of elements; failures
   leave the state unchanged; emptiness / fullness tests are truthful. *)
From Coq Require Import List Arith Bool ZArith Lia ZifyBool Permutation.
From OPF Require Import Base.Lists Model.Heap Proofs.HeapBase Proofs.HeapInv.
Import ListNotations.

(* ------------------------------------------------------------------ *)
(* Abstract priority queue                                             *)

(* abstract state: the queued elements (order irrelevant), the cost table and the colour
   table (the colour decides what [OUpd] does on a non-queued element) *)
Record pq := mkPQ { pq_elems : list nat; pq_cost : list Z; pq_color : list color }.

Definition abs (h : heap Z) : pq := mkPQ (queued h) (hcost h) (hcolor h).

Section Hist.
  Variable top : Z.

  Notation step := (step Z.ltb top).
  Notation run := (run Z.ltb top).
  Notation cost := (cost top).

  (* [p] is queued and no queued element is strictly better than [p] *)
  Definition extremal (pol : policy) (a : pq) (p : nat) : Prop :=
    In p (pq_elems a) /\
    forall q, In q (pq_elems a) ->
      better Z.ltb pol (nth q (pq_cost a) top) (nth p (pq_cost a) top) = false.

  (* allowed outputs and successor states of the abstract queue of capacity [size] *)
  Inductive pq_step (size : nat) (pol : policy) : pq -> @op Z -> out -> pq -> Prop :=
  | PQ_ins_ok a p e' :
      length (pq_elems a) < size -> Permutation e' (p :: pq_elems a) ->
      pq_step size pol a (OIns p) (RBool true)
              (mkPQ e' (pq_cost a) (upd (pq_color a) p Gray))
  | PQ_ins_full a p :
      length (pq_elems a) = size -> pq_step size pol a (OIns p) (RBool false) a
  | PQ_rem_ok a p e' :
      extremal pol a p -> Permutation (pq_elems a) (p :: e') ->
      pq_step size pol a ORem (RElem p) (mkPQ e' (pq_cost a) (upd (pq_color a) p Black))
  | PQ_rem_empty a :
      pq_elems a = [] -> pq_step size pol a ORem RFalse a
  | PQ_upd_queued a p c e' :
      In p (pq_elems a) -> Permutation e' (pq_elems a) ->
      pq_step size pol a (OUpd p c) RUnit (mkPQ e' (upd (pq_cost a) p c) (pq_color a))
  | PQ_upd_new a p c e' :
      nth p (pq_color a) White = White -> length (pq_elems a) < size ->
      Permutation e' (p :: pq_elems a) ->
      pq_step size pol a (OUpd p c) RUnit
              (mkPQ e' (upd (pq_cost a) p c) (upd (pq_color a) p Gray))
  | PQ_upd_only a p c :
      nth p (pq_color a) White = Black \/
      (nth p (pq_color a) White = White /\ length (pq_elems a) = size) ->
      pq_step size pol a (OUpd p c) RUnit (mkPQ (pq_elems a) (upd (pq_cost a) p c) (pq_color a))
  | PQ_is_empty a :
      pq_step size pol a OIsEmpty
              (RBool match pq_elems a with [] => true | _ :: _ => false end) a
  | PQ_is_full a :
      pq_step size pol a OIsFull (RBool (Nat.eqb (length (pq_elems a)) size)) a.

  Inductive pq_run (size : nat) (pol : policy) : pq -> list (@op Z) -> list out -> pq -> Prop :=
  | pq_run_nil a : pq_run size pol a [] [] a
  | pq_run_cons a o r a1 os rs a2 :
      pq_step size pol a o r a1 -> pq_run size pol a1 os rs a2 ->
      pq_run size pol a (o :: os) (r :: rs) a2.

  (* ---------------------------------------------------------------- *)
  (* Valid histories                                                   *)

  Definition valid_op (h : heap Z) (o : @op Z) : Prop :=
    match o with
    | OIns p => p < hsize h /\ ~ In p (queued h)
    | OUpd p c => p < hsize h /\
                  (In p (queued h) -> better Z.ltb (hpol h) (cost h p) c = false)
    | ORem | OIsEmpty | OIsFull => True
    end.

  Fixpoint valid_hist (h : heap Z) (ops : list (@op Z)) : Prop :=
    match ops with
    | [] => True
    | o :: os => valid_op h o /\ valid_hist (fst (step h o)) os
    end.

  (* states reachable from the initial heap by valid operations *)
  Inductive reachable (size : nat) (pol : policy) : heap Z -> Prop :=
  | reach_init : reachable size pol (h_init top size pol)
  | reach_step h o :
      reachable size pol h -> valid_op h o -> reachable size pol (fst (step h o)).

  (* ---------------------------------------------------------------- *)
  (* Elements entering / leaving the queue                             *)

  Definition ins_of (h : heap Z) (o : @op Z) (r : out) : list nat :=
    match o, r with
    | OIns p, RBool true => [p]
    | OUpd p _, _ =>
        if color_eqb (nth p (hcolor h) White) White && negb (is_full h) then [p] else []
    | _, _ => []
    end.

  Definition rem_of (r : out) : list nat := match r with RElem p => [p] | _ => [] end.

  Fixpoint inserted (h : heap Z) (ops : list (@op Z)) : list nat :=
    match ops with
    | [] => []
    | o :: os => let '(h1, r) := step h o in ins_of h o r ++ inserted h1 os
    end.

  Definition removed (outs : list out) : list nat := flat_map rem_of outs.

  (* ---------------------------------------------------------------- *)
  (* One step                                                          *)

  Lemma queued_len h : Inv h -> length (queued h) = hn h.
  Proof. intros HI. apply queued_length. apply Inv_WF; exact HI. Qed.

  Theorem step_spec h o :
    Inv h -> valid_op h o ->
    let '(h', r) := step h o in
    Inv h' /\ hsize h' = hsize h /\ hpol h' = hpol h /\
    pq_step (hsize h) (hpol h) (abs h) o r (abs h') /\
    Permutation (queued h ++ ins_of h o r) (rem_of r ++ queued h').
  Proof.
    intros HI Hv. pose proof (queued_len h HI) as Hlen. pose proof (inv_n h HI) as Hnle.
    destruct o as [p|p c| | |]; cbn [Heap.step].
    - (* OIns *)
      destruct Hv as [Hp Hnq].
      destruct (Nat.eq_dec (hn h) (hsize h)) as [Hfull|Hroom].
      + rewrite (insert_full top h p Hfull). split; [exact HI|]. split; [reflexivity|]. split; [reflexivity|]. split.
        * apply PQ_ins_full. cbn [abs pq_elems]. lia.
        * cbn [ins_of rem_of]. rewrite app_nil_r. apply Permutation_refl.
      + pose proof (insert_spec top h p HI Hp Hnq ltac:(lia)) as Hs.
        destruct (insert Z.ltb top h p) as [h' b].
        destruct Hs as (-> & A & B & C & D & E & F).
        split; [exact A|]. split; [exact E|]. split; [exact F|]. split.
        * unfold abs at 2. rewrite C, D.
          apply (PQ_ins_ok (hsize h) (hpol h) (abs h) p (queued h')); cbn [abs pq_elems];
            [lia|exact B].
        * cbn [ins_of rem_of app]. eapply Permutation_trans; [|apply Permutation_sym; exact B].
          apply Permutation_sym, Permutation_cons_append.
    - (* OUpd *)
      destruct Hv as [Hp Hc].
      destruct (nth p (hcolor h) White) eqn:Hcol.
      + (* White *)
        destruct (Nat.eq_dec (hn h) (hsize h)) as [Hfull|Hroom].
        * rewrite (update_white_full top h p c Hcol Hfull).
          assert (Hnq : ~ In p (queued h)).
          { intros Hin. apply (inv_color h HI p Hp) in Hin. congruence. }
          split; [apply set_cost_nonqueued_inv; assumption|].
          split; [reflexivity|]. split; [reflexivity|]. split.
          -- apply (PQ_upd_only (hsize h) (hpol h) (abs h) p c). right.
             cbn [abs pq_color pq_elems]. split; [exact Hcol|lia].
          -- cbn [ins_of rem_of app]. rewrite Hcol. unfold is_full.
             rewrite (proj2 (Nat.eqb_eq _ _) Hfull). cbn. rewrite app_nil_r.
             apply Permutation_refl.
        * pose proof (update_white_spec top h p c HI Hp Hcol ltac:(lia)) as Hs.
          cbv zeta in Hs. destruct Hs as (A & B & C & D & E & F).
          split; [exact A|]. split; [exact E|]. split; [exact F|]. split.
          -- unfold abs at 2. rewrite C, D.
             apply (PQ_upd_new (hsize h) (hpol h) (abs h) p c); cbn [abs pq_color pq_elems];
               [exact Hcol|lia|exact B].
          -- cbn [ins_of rem_of app]. rewrite Hcol. unfold is_full.
             rewrite (proj2 (Nat.eqb_neq _ _) Hroom). cbn [color_eqb andb negb].
             eapply Permutation_trans; [|apply Permutation_sym; exact B].
             apply Permutation_sym, Permutation_cons_append.
      + (* Gray *)
        assert (Hin : In p (queued h)) by (apply (inv_color h HI p Hp); exact Hcol).
        pose proof (update_gray_spec top h p c HI Hin (Hc Hin)) as Hs.
        cbv zeta in Hs. destruct Hs as (A & B & C & D & E & F).
        split; [exact A|]. split; [exact E|]. split; [exact F|]. split.
        * unfold abs at 2. rewrite C, D.
          apply (PQ_upd_queued (hsize h) (hpol h) (abs h) p c); cbn [abs pq_elems];
            [exact Hin|exact B].
        * cbn [ins_of rem_of app]. rewrite Hcol. cbn [color_eqb andb].
          rewrite app_nil_r. apply Permutation_sym; exact B.
      + (* Black *)
        destruct (update_black_spec top h p c HI Hp Hcol) as [-> A].
        split; [exact A|]. split; [reflexivity|]. split; [reflexivity|]. split.
        * apply (PQ_upd_only (hsize h) (hpol h) (abs h) p c). left. exact Hcol.
        * cbn [ins_of rem_of app]. rewrite Hcol. cbn [color_eqb andb].
          rewrite app_nil_r. apply Permutation_refl.
    - (* ORem *)
      destruct (Nat.eq_dec (hn h) 0) as [Hemp|Hne].
      + rewrite (remove_empty top h Hemp). split; [exact HI|]. split; [reflexivity|]. split; [reflexivity|]. split.
        * apply PQ_rem_empty. cbn [abs pq_elems]. apply length_zero_iff_nil. lia.
        * cbn [ins_of rem_of app]. rewrite app_nil_r. apply Permutation_refl.
      + destruct (remove_spec top h HI ltac:(lia))
          as (p & h' & -> & Hin & Hext & Hperm & A & C & D & E & F).
        split; [exact A|]. split; [exact E|]. split; [exact F|]. split.
        * unfold abs at 2. rewrite C, D.
          apply (PQ_rem_ok (hsize h) (hpol h) (abs h) p (queued h')); [|exact Hperm].
          split; [exact Hin|exact Hext].
        * cbn [ins_of rem_of app]. rewrite app_nil_r. exact Hperm.
    - (* OIsEmpty *)
      split; [exact HI|]. split; [reflexivity|]. split; [reflexivity|]. split.
      + replace (is_empty h) with (match pq_elems (abs h) with [] => true | _ :: _ => false end).
        { apply PQ_is_empty. }
        cbn [abs pq_elems]. unfold is_empty.
        destruct (queued h) as [|x l]; cbn [length] in Hlen.
        * rewrite <- Hlen. reflexivity.
        * rewrite <- Hlen. reflexivity.
      + cbn [ins_of rem_of app]. rewrite app_nil_r. apply Permutation_refl.
    - (* OIsFull *)
      split; [exact HI|]. split; [reflexivity|]. split; [reflexivity|]. split.
      + replace (is_full h) with (Nat.eqb (length (pq_elems (abs h))) (hsize h)).
        { apply PQ_is_full. }
        cbn [abs pq_elems]. unfold is_full. rewrite Hlen. reflexivity.
      + cbn [ins_of rem_of app]. rewrite app_nil_r. apply Permutation_refl.
  Qed.

  Lemma step_inv h o : Inv h -> valid_op h o ->
    Inv (fst (step h o)) /\ hsize (fst (step h o)) = hsize h /\ hpol (fst (step h o)) = hpol h.
  Proof.
    intros HI Hv. pose proof (step_spec h o HI Hv) as Hs.
    destruct (step h o) as [h' r]. cbn [fst]. tauto.
  Qed.

  (* ---------------------------------------------------------------- *)
  (* Reachable states                                                  *)

  Theorem reachable_inv size pol h :
    reachable size pol h -> Inv h /\ hsize h = size /\ hpol h = pol.
  Proof.
    induction 1 as [|h o Hr [IH1 [IH2 IH3]] Hv].
    - split; [apply inv_init|split; reflexivity].
    - destruct (step_inv h o IH1 Hv) as (A & B & C). split; [exact A|]. split; congruence.
  Qed.

  Lemma reachable_run size pol ops : forall h,
    reachable size pol h -> valid_hist h ops -> reachable size pol (fst (run h ops)).
  Proof.
    induction ops as [|o os IH]; intros h Hr Hv; cbn [Heap.run].
    - exact Hr.
    - destruct Hv as [Hv Hvs]. pose proof (reach_step size pol h o Hr Hv) as Hr1.
      specialize (IH (fst (step h o)) Hr1 Hvs).
      destruct (step h o) as [h1 r]. cbn [fst] in *.
      destruct (run h1 os) as [h2 rs]. exact IH.
  Qed.

  Lemma run_app ops1 ops2 h :
    run h (ops1 ++ ops2) =
      (fst (run (fst (run h ops1)) ops2), snd (run h ops1) ++ snd (run (fst (run h ops1)) ops2)).
  Proof.
    revert h; induction ops1 as [|o os IH]; intros h; cbn [app Heap.run].
    - cbn [fst snd app]. destruct (run h ops2); reflexivity.
    - destruct (step h o) as [h1 r]. rewrite IH.
      destruct (run h1 os) as [h2 rs]. cbn [fst snd app]. reflexivity.
  Qed.

  Lemma valid_hist_app ops1 ops2 h :
    valid_hist h (ops1 ++ ops2) <-> valid_hist h ops1 /\ valid_hist (fst (run h ops1)) ops2.
  Proof.
    revert h; induction ops1 as [|o os IH]; intros h; cbn [app valid_hist Heap.run].
    - cbn [fst]. tauto.
    - rewrite IH. destruct (step h o) as [h1 r]. cbn [fst].
      destruct (run h1 os) as [h2 rs]. cbn [fst]. tauto.
  Qed.

  (* reachable = final state of a valid history from [h_init] *)
  Theorem reachable_iff_hist size pol h :
    reachable size pol h <->
    exists ops, valid_hist (h_init top size pol) ops /\
                fst (run (h_init top size pol) ops) = h.
  Proof.
    split.
    - induction 1 as [|h o Hr [ops [Hv He]] Hvo].
      + exists []. split; [exact I|reflexivity].
      + exists (ops ++ [o]). split.
        * apply valid_hist_app. split; [exact Hv|]. rewrite He. cbn [valid_hist]. tauto.
        * rewrite run_app. cbn [fst]. rewrite He. cbn [Heap.run].
          destruct (step h o) as [h1 r]. reflexivity.
    - intros [ops [Hv <-]]. apply reachable_run; [apply reach_init|exact Hv].
  Qed.

  (* ---------------------------------------------------------------- *)
  (* Whole histories                                                   *)

  Theorem run_refines ops : forall h,
    Inv h -> valid_hist h ops ->
    let '(h', outs) := run h ops in
    Inv h' /\ hsize h' = hsize h /\ hpol h' = hpol h /\
    pq_run (hsize h) (hpol h) (abs h) ops outs (abs h') /\
    Permutation (queued h ++ inserted h ops) (removed outs ++ queued h').
  Proof.
    induction ops as [|o os IH]; intros h HI Hv; cbn [Heap.run inserted].
    - split; [exact HI|]. split; [reflexivity|]. split; [reflexivity|]. split.
      + apply pq_run_nil.
      + cbn [removed flat_map app]. rewrite app_nil_r. apply Permutation_refl.
    - destruct Hv as [Hv Hvs]. pose proof (step_spec h o HI Hv) as Hs.
      destruct (step h o) as [h1 r]. cbn [fst] in Hvs.
      destruct Hs as (A & E & F & S & P).
      specialize (IH h1 A Hvs). destruct (run h1 os) as [h2 rs].
      destruct IH as (A' & E' & F' & S' & P').
      split; [exact A'|]. split; [congruence|]. split; [congruence|]. split.
      + rewrite E, F in S'. eapply pq_run_cons; eassumption.
      + unfold removed in *. cbn [flat_map]. rewrite app_assoc.
        eapply Permutation_trans; [apply Permutation_app_tail; exact P|].
        rewrite <- !app_assoc. apply Permutation_app_head. exact P'.
  Qed.

  Theorem histories_refine_pq size pol ops :
    valid_hist (h_init top size pol) ops ->
    pq_run size pol (abs (h_init top size pol)) ops
           (snd (run (h_init top size pol) ops)) (abs (fst (run (h_init top size pol) ops))).
  Proof.
    intros Hv. pose proof (run_refines ops (h_init top size pol) (inv_init top size pol) Hv) as H.
    destruct (run (h_init top size pol) ops) as [h' outs]. cbn [fst snd].
    destruct H as (_ & _ & _ & S & _). exact S.
  Qed.

  Theorem conservation size pol ops :
    valid_hist (h_init top size pol) ops ->
    Permutation (inserted (h_init top size pol) ops)
                (removed (snd (run (h_init top size pol) ops))
                 ++ queued (fst (run (h_init top size pol) ops))).
  Proof.
    intros Hv. pose proof (run_refines ops (h_init top size pol) (inv_init top size pol) Hv) as H.
    destruct (run (h_init top size pol) ops) as [h' outs]. cbn [fst snd].
    destruct H as (_ & _ & _ & _ & P). exact P.
  Qed.

  (* ---------------------------------------------------------------- *)
  (* Concrete per-step readings of the refinement                      *)

  Theorem remove_extremal size pol h :
    reachable size pol h ->
    match step h ORem with
    | (h', RElem p) =>
        In p (queued h) /\
        (forall q, In q (queued h) -> better Z.ltb pol (cost h q) (cost h p) = false) /\
        Permutation (queued h) (p :: queued h') /\ hcost h' = hcost h
    | (h', RFalse) => queued h = [] /\ h' = h
    | _ => False
    end.
  Proof.
    intros Hr. destruct (reachable_inv size pol h Hr) as (HI & _ & Hpol).
    cbn [Heap.step]. destruct (Nat.eq_dec (hn h) 0) as [Hemp|Hne].
    - rewrite (remove_empty top h Hemp). split; [|reflexivity].
      apply (is_empty_spec h HI). unfold is_empty. apply Nat.eqb_eq; exact Hemp.
    - destruct (remove_spec top h HI ltac:(lia))
        as (p & h' & -> & Hin & Hext & Hperm & _ & C & _).
      rewrite <- Hpol. auto.
  Qed.

  Theorem failures_leave_state size pol h :
    reachable size pol h ->
    (forall p, snd (step h (OIns p)) = RBool (negb (is_full h))) /\
    (forall p, is_full h = true -> step h (OIns p) = (h, RBool false)) /\
    (is_empty h = true -> step h ORem = (h, RFalse)) /\
    (forall p c, nth p (hcolor h) White = White -> is_full h = true ->
                 step h (OUpd p c) = (set_cost h p c, RUnit)).
  Proof.
    intros Hr. unfold is_full, is_empty. repeat split.
    - intros p. cbn [Heap.step]. unfold Heap.insert, is_full.
      destruct (Nat.eqb (hn h) (hsize h)); reflexivity.
    - intros p Hf. apply Nat.eqb_eq in Hf. cbn [Heap.step].
      rewrite (insert_full top h p Hf). reflexivity.
    - intros He. apply Nat.eqb_eq in He. cbn [Heap.step].
      rewrite (remove_empty top h He). reflexivity.
    - intros p c Hw Hf. apply Nat.eqb_eq in Hf. cbn [Heap.step].
      rewrite (update_white_full top h p c Hw Hf). reflexivity.
  Qed.

  Theorem empty_full_truthful size pol h :
    reachable size pol h ->
    (exists b, step h OIsEmpty = (h, RBool b) /\ (b = true <-> queued h = [])) /\
    (exists b, step h OIsFull = (h, RBool b) /\ (b = true <-> length (queued h) = size)).
  Proof.
    intros Hr. destruct (reachable_inv size pol h Hr) as (HI & Hsz & _). split.
    - exists (is_empty h). split; [reflexivity|apply is_empty_spec; exact HI].
    - exists (is_full h). split; [reflexivity|]. rewrite <- Hsz. apply is_full_spec; exact HI.
  Qed.

  (* ---------------------------------------------------------------- *)
  (* Boolean validity checker (for concrete examples)                  *)

  Definition queuedb (h : heap Z) (p : nat) : bool := existsb (Nat.eqb p) (queued h).

  Definition valid_opb (h : heap Z) (o : @op Z) : bool :=
    match o with
    | OIns p => Nat.ltb p (hsize h) && negb (queuedb h p)
    | OUpd p c => Nat.ltb p (hsize h) &&
                  (negb (queuedb h p) || negb (better Z.ltb (hpol h) (cost h p) c))
    | ORem | OIsEmpty | OIsFull => true
    end.

  Fixpoint valid_histb (h : heap Z) (ops : list (@op Z)) : bool :=
    match ops with
    | [] => true
    | o :: os => valid_opb h o && valid_histb (fst (step h o)) os
    end.

  Lemma queuedb_spec h p : queuedb h p = true <-> In p (queued h).
  Proof.
    unfold queuedb. rewrite existsb_exists. split.
    - intros [x [Hin He]]. apply Nat.eqb_eq in He. subst; exact Hin.
    - intros Hin. exists p. split; [exact Hin|apply Nat.eqb_refl].
  Qed.

  Lemma valid_opb_sound h o : valid_opb h o = true -> valid_op h o.
  Proof.
    destruct o as [p|p c| | |]; cbn [valid_opb valid_op]; auto.
    - intros H. apply andb_true_iff in H. destruct H as [H1 H2].
      apply Nat.ltb_lt in H1. split; [exact H1|].
      intros Hin. apply queuedb_spec in Hin. rewrite Hin in H2. discriminate.
    - intros H. apply andb_true_iff in H. destruct H as [H1 H2].
      apply Nat.ltb_lt in H1. split; [exact H1|].
      intros Hin. apply queuedb_spec in Hin. rewrite Hin in H2. cbn [negb orb] in H2.
      apply negb_true_iff in H2. exact H2.
  Qed.

  Lemma valid_histb_sound ops : forall h, valid_histb h ops = true -> valid_hist h ops.
  Proof.
    induction ops as [|o os IH]; intros h H; cbn [valid_histb valid_hist] in *; [exact I|].
    apply andb_true_iff in H. destruct H as [H1 H2].
    split; [apply valid_opb_sound; exact H1|apply IH; exact H2].
  Qed.

  (* ---------------------------------------------------------------- *)
  (* The same facts stated for the state reached by any valid history  *)
  (* (a valid prefix of a valid history is a valid history)            *)

  Lemma hist_reachable size pol ops :
    valid_hist (h_init top size pol) ops ->
    reachable size pol (fst (run (h_init top size pol) ops)).
  Proof. intros Hv. apply reachable_run; [apply reach_init|exact Hv]. Qed.

  Theorem hist_inv size pol ops :
    valid_hist (h_init top size pol) ops ->
    let h := fst (run (h_init top size pol) ops) in
    Inv h /\ hsize h = size /\ hpol h = pol.
  Proof. intros Hv. apply reachable_inv, hist_reachable; exact Hv. Qed.

  Theorem hist_remove_extremal size pol ops :
    valid_hist (h_init top size pol) ops ->
    let h := fst (run (h_init top size pol) ops) in
    match step h ORem with
    | (h', RElem p) =>
        In p (queued h) /\
        (forall q, In q (queued h) ->
           better Z.ltb pol (nth q (hcost h) top) (nth p (hcost h) top) = false) /\
        Permutation (queued h) (p :: queued h') /\ hcost h' = hcost h
    | (h', RFalse) => queued h = [] /\ h' = h
    | _ => False
    end.
  Proof. intros Hv. apply (remove_extremal size pol), hist_reachable; exact Hv. Qed.

  Theorem hist_failures_leave_state size pol ops :
    valid_hist (h_init top size pol) ops ->
    let h := fst (run (h_init top size pol) ops) in
    (forall p, snd (step h (OIns p)) = RBool (negb (is_full h))) /\
    (forall p, is_full h = true -> step h (OIns p) = (h, RBool false)) /\
    (is_empty h = true -> step h ORem = (h, RFalse)) /\
    (forall p c, nth p (hcolor h) White = White -> is_full h = true ->
                 step h (OUpd p c) = (set_cost h p c, RUnit)).
  Proof. intros Hv. apply (failures_leave_state size pol), hist_reachable; exact Hv. Qed.

  Theorem hist_empty_full_truthful size pol ops :
    valid_hist (h_init top size pol) ops ->
    let h := fst (run (h_init top size pol) ops) in
    (exists b, step h OIsEmpty = (h, RBool b) /\ (b = true <-> queued h = [])) /\
    (exists b, step h OIsFull = (h, RBool b) /\ (b = true <-> length (queued h) = size)).
  Proof. intros Hv. apply (empty_full_truthful size pol), hist_reachable; exact Hv. Qed.
End Hist.

(* ------------------------------------------------------------------ *)
(* Non-vacuity: a concrete valid history on capacity 3 with tied costs *)

Definition ex_ops : list (@op Z) :=
  [OIsEmpty; OUpd 0 5%Z; OUpd 1 5%Z; OIns 2; OIsFull; ORem; OUpd 2 5%Z; OUpd 1 5%Z;
   OIns 0; OIsFull; ORem; ORem; OUpd 0 7%Z; ORem; ORem; OIsEmpty].

Definition ex_h0 : heap Z := h_init 1000%Z 3 PMin.

Example ex_valid : valid_hist 1000%Z ex_h0 ex_ops.
Proof. apply valid_histb_sound. vm_compute. reflexivity. Qed.

(* elements 0 and 1 tie at cost 5 for the first removal; 1, 0 and 2 all tie at cost 5
   for the last three; the Black element 0 is re-inserted and later updated *)
Example ex_outputs :
  snd (run Z.ltb 1000%Z ex_h0 ex_ops) =
    [RBool true; RUnit; RUnit; RBool true; RBool true; RElem 0; RUnit; RUnit; RBool true;
     RBool true; RElem 1; RElem 0; RUnit; RElem 2; RFalse; RBool true]
  /\ queued (fst (run Z.ltb 1000%Z ex_h0 ex_ops)) = []
  /\ inserted 1000%Z ex_h0 ex_ops = [0; 1; 2; 0].
Proof. vm_compute. repeat split; reflexivity. Qed.

Example ex_refines :
  pq_run 1000%Z 3 PMin (abs ex_h0) ex_ops
         (snd (run Z.ltb 1000%Z ex_h0 ex_ops)) (abs (fst (run Z.ltb 1000%Z ex_h0 ex_ops))).
Proof. exact (histories_refine_pq 1000%Z 3 PMin ex_ops ex_valid). Qed.
