(* List, path and [pathmax] lemmas used by the Prim (C02) development. *)
From Coq Require Import List Arith Bool ZArith Lia Permutation.
From OPF Require Import Spec.Paths Spec.Trees.
Import ListNotations.
Open Scope nat_scope.

(* ------------------------------------------------------------------ *)
(* last / hd_error / rev                                               *)

Lemma last_indep {A} (l : list A) d d' : l <> [] -> last l d = last l d'.
Proof.
  induction l as [|a l IH]; intros Hne; [congruence|].
  destruct l as [|b l]; [reflexivity|].
  change (last (b :: l) d = last (b :: l) d'). apply IH. discriminate.
Qed.

Lemma last_cons_ne {A} (a : A) l d d' : l <> [] -> last (a :: l) d = last l d'.
Proof.
  intros Hne. destruct l as [|b l]; [congruence|].
  change (last (b :: l) d = last (b :: l) d'). apply last_indep. discriminate.
Qed.

Lemma last_In {A} (l : list A) d : l <> [] -> In (last l d) l.
Proof.
  induction l as [|a l IH]; intros Hne; [congruence|].
  destruct l as [|b l]; [left; reflexivity|].
  right. change (In (last (b :: l) d) (b :: l)). apply IH. discriminate.
Qed.

Lemma hd_error_In {A} (l : list A) u : hd_error l = Some u -> In u l.
Proof. destruct l as [|a l]; cbn; intros H; [discriminate|]. left. congruence. Qed.

Lemma hd_error_rev {A} (l : list A) d : l <> [] -> hd_error (rev l) = Some (last l d).
Proof.
  intros Hne. destruct (exists_last Hne) as [l' [a ->]].
  rewrite rev_unit, last_last. reflexivity.
Qed.

Lemma last_rev {A} (l : list A) u d : hd_error l = Some u -> last (rev l) d = u.
Proof.
  destruct l as [|a l]; cbn [hd_error]; intros H; [discriminate|].
  injection H as ->. cbn [rev]. apply last_last.
Qed.

Lemma hd_error_app {A} (l1 l2 : list A) u : hd_error l1 = Some u -> hd_error (l1 ++ l2) = Some u.
Proof. destruct l1; cbn; intros H; [discriminate|exact H]. Qed.

Lemma NoDup_app_r {A} (l1 l2 : list A) : NoDup (l1 ++ l2) -> NoDup l2.
Proof.
  induction l1 as [|a l1 IH]; [auto|]. cbn [app]. intros H.
  apply NoDup_cons_iff in H. apply IH, H.
Qed.

(* ------------------------------------------------------------------ *)
(* chain                                                               *)

Lemma chain_cons (R : nat -> nat -> Prop) a b t : chain R (a :: b :: t) <-> R a b /\ chain R (b :: t).
Proof. reflexivity. Qed.

Lemma chain_tail (R : nat -> nat -> Prop) a t : chain R (a :: t) -> chain R t.
Proof. destruct t as [|b t]; [intros; exact I|]. intros [_ H]; exact H. Qed.

Lemma chain_snoc (R : nat -> nat -> Prop) l a : l <> [] ->
  (chain R (l ++ [a]) <-> chain R l /\ R (last l 0) a).
Proof.
  induction l as [|x l IH]; intros Hne; [congruence|].
  destruct l as [|y l].
  - cbn. tauto.
  - change ((x :: y :: l) ++ [a]) with (x :: y :: (l ++ [a])).
    rewrite !chain_cons. change (y :: l ++ [a]) with ((y :: l) ++ [a]).
    rewrite IH by discriminate.
    change (last (x :: y :: l) 0) with (last (y :: l) 0). tauto.
Qed.

Lemma chain_app_r (R : nat -> nat -> Prop) l1 l2 : chain R (l1 ++ l2) -> chain R l2.
Proof.
  induction l1 as [|a l1 IH]; [auto|]. intros H. apply IH.
  change ((a :: l1) ++ l2) with (a :: (l1 ++ l2)) in H. eapply chain_tail; exact H.
Qed.

Lemma chain_arc (R : nat -> nat -> Prop) pi a b : chain R pi -> arc_on pi a b -> R a b.
Proof.
  intros H [l1 [l2 ->]]. apply chain_app_r in H. destruct H as [H _]. exact H.
Qed.

Lemma chain_rev (R : nat -> nat -> Prop) pi : (forall a b, R a b -> R b a) -> chain R pi -> chain R (rev pi).
Proof.
  intros Hsym. induction pi as [|a t IH]; [auto|].
  intros H. destruct t as [|b t']; [exact I|].
  destruct H as [Hab Ht]. change (rev (a :: b :: t')) with (rev (b :: t') ++ [a]).
  apply chain_snoc.
  - cbn [rev]. intros E. apply app_eq_nil in E. destruct E as [_ E]; discriminate.
  - split; [apply IH; exact Ht|].
    rewrite (last_rev (b :: t') b 0) by reflexivity. apply Hsym; exact Hab.
Qed.

Lemma chain_impl (R R' : nat -> nat -> Prop) pi :
  (forall a b, In a pi -> In b pi -> R a b -> R' a b) -> chain R pi -> chain R' pi.
Proof.
  induction pi as [|a t IH]; [auto|]. intros Himp H.
  destruct t as [|b t']; [exact I|]. destruct H as [Hab Ht]. split.
  - apply Himp; [left; reflexivity|right; left; reflexivity|exact Hab].
  - apply IH; [|exact Ht]. intros x y Hx Hy. apply Himp; right; assumption.
Qed.

(* ------------------------------------------------------------------ *)
(* arc_on                                                              *)

Lemma arc_on_cons pi c a b : arc_on pi a b -> arc_on (c :: pi) a b.
Proof. intros [l1 [l2 ->]]. exists (c :: l1), l2. reflexivity. Qed.

Lemma arc_on_head a b t : arc_on (a :: b :: t) a b.
Proof. exists [], t. reflexivity. Qed.

Lemma arc_on_In pi a b : arc_on pi a b -> In a pi /\ In b pi.
Proof.
  intros [l1 [l2 ->]]. split; apply in_or_app; right; [left|right; left]; reflexivity.
Qed.

(* ------------------------------------------------------------------ *)
(* pathmax                                                             *)

Section PM.
  Variable w : nat -> nat -> Z.
  Variable m : Z.

  Lemma pathmax_cons2 a b t :
    pathmax w m (a :: b :: t) = Z.max (w a b) (pathmax w m (b :: t)).
  Proof. reflexivity. Qed.

  Lemma pathmax_ge pi : (m <= pathmax w m pi)%Z.
  Proof.
    induction pi as [|a t IH]; [cbn; lia|].
    destruct t as [|b t']; [cbn; lia|]. rewrite pathmax_cons2. lia.
  Qed.

  Lemma pathmax_tail a t : (pathmax w m t <= pathmax w m (a :: t))%Z.
  Proof.
    destruct t as [|b t']; [apply pathmax_ge|]. rewrite pathmax_cons2. lia.
  Qed.

  Lemma pathmax_arc pi a b : arc_on pi a b -> (w a b <= pathmax w m pi)%Z.
  Proof.
    intros [l1 [l2 ->]]. induction l1 as [|c l1 IH].
    - cbn [app]. rewrite pathmax_cons2. lia.
    - change ((c :: l1) ++ a :: b :: l2) with (c :: (l1 ++ a :: b :: l2)).
      etransitivity; [exact IH|apply pathmax_tail].
  Qed.

  Lemma pathmax_witness pi : (m < pathmax w m pi)%Z ->
    exists a b, arc_on pi a b /\ w a b = pathmax w m pi.
  Proof.
    induction pi as [|a t IH]; [cbn; lia|].
    destruct t as [|b t']; [cbn; lia|]. rewrite pathmax_cons2. intros H.
    destruct (Z_le_gt_dec (pathmax w m (b :: t')) (w a b)) as [Hle|Hgt].
    - exists a, b. split; [apply arc_on_head|lia].
    - destruct IH as [x [y [Hxy E]]]; [lia|].
      exists x, y. split; [apply arc_on_cons; exact Hxy|lia].
  Qed.

  Lemma pathmax_le_iff pi c : (m <= c)%Z ->
    ((pathmax w m pi <= c)%Z <-> forall a b, arc_on pi a b -> (w a b <= c)%Z).
  Proof.
    intros Hm. split.
    - intros H a b Hab. pose proof (pathmax_arc pi a b Hab). lia.
    - intros H. destruct (Z_lt_le_dec m (pathmax w m pi)) as [Hlt|Hle]; [|lia].
      destruct (pathmax_witness pi Hlt) as [a [b [Hab E]]]. rewrite <- E. apply H; exact Hab.
  Qed.

  Lemma pathmax_snoc l b : l <> [] ->
    pathmax w m (l ++ [b]) = Z.max (pathmax w m l) (w (last l 0) b).
  Proof.
    induction l as [|x l IH]; intros Hne; [congruence|].
    destruct l as [|y l].
    - cbn. lia.
    - change ((x :: y :: l) ++ [b]) with (x :: y :: (l ++ [b])).
      rewrite !pathmax_cons2. change (y :: l ++ [b]) with ((y :: l) ++ [b]).
      rewrite IH by discriminate.
      change (last (x :: y :: l) 0) with (last (y :: l) 0). lia.
  Qed.

  Lemma pathmax_rev pi :
    (forall a b, In a pi -> In b pi -> w a b = w b a) ->
    pathmax w m (rev pi) = pathmax w m pi.
  Proof.
    induction pi as [|a t IH]; [reflexivity|].
    intros Hsym. destruct t as [|b t']; [reflexivity|].
    change (rev (a :: b :: t')) with (rev (b :: t') ++ [a]).
    rewrite pathmax_snoc.
    - rewrite IH by (intros x y Hx Hy; apply Hsym; right; assumption).
      rewrite (last_rev (b :: t') b 0) by reflexivity.
      rewrite pathmax_cons2. rewrite (Hsym b a); [lia|right; left; reflexivity|left; reflexivity].
    - cbn [rev]. intros E. apply app_eq_nil in E. destruct E as [_ E]; discriminate.
  Qed.
End PM.

(* ------------------------------------------------------------------ *)
(* paths of the complete graph                                         *)

Lemma path_from_to_In n u v pi : path_from_to n u v pi -> In u pi /\ In v pi /\ u < n /\ v < n.
Proof.
  intros [[Hne Hall] [Hhd Hlast]]. rewrite Forall_forall in Hall.
  assert (Hu : In u pi) by (apply hd_error_In; exact Hhd).
  assert (Hv : In v pi) by (rewrite <- Hlast; apply last_In; exact Hne).
  auto.
Qed.

Lemma path_from_to_rev n u v pi : path_from_to n u v pi -> path_from_to n v u (rev pi).
Proof.
  intros [[Hne Hall] [Hhd Hlast]]. repeat split.
  - intros E. apply (f_equal (@rev nat)) in E. rewrite rev_involutive in E. exact (Hne E).
  - apply Forall_rev; exact Hall.
  - rewrite <- Hlast. apply hd_error_rev; exact Hne.
  - apply last_rev; exact Hhd.
Qed.

Lemma path_from_to_cons n p u v pi :
  p < n -> path_from_to n u v pi -> path_from_to n p v (p :: pi).
Proof.
  intros Hp [[Hne Hall] [Hhd Hlast]]. repeat split.
  - discriminate.
  - constructor; assumption.
  - rewrite (last_cons_ne p pi p u Hne). exact Hlast.
Qed.

Lemma path_from_to_pair n u v : u < n -> v < n -> path_from_to n u v [u; v].
Proof.
  intros Hu Hv. repeat split; [discriminate|]. repeat constructor; assumption.
Qed.

Lemma path_from_to_single n u : u < n -> path_from_to n u u [u].
Proof. intros Hu. repeat split; [discriminate|]. repeat constructor; assumption. Qed.

(* a path that starts inside [S] and ends outside traverses an arc leaving [S] *)
Lemma crossing (S : nat -> Prop) (Sdec : forall x, S x \/ ~ S x) : forall pi u,
  hd_error pi = Some u -> S u -> ~ S (last pi u) ->
  exists a b, arc_on pi a b /\ S a /\ ~ S b.
Proof.
  induction pi as [|a t IH]; intros u Hhd Hu Hl; [discriminate|].
  cbn [hd_error] in Hhd. injection Hhd as ->.
  destruct t as [|b t'].
  - cbn in Hl. contradiction.
  - destruct (Sdec b) as [Hb|Hb].
    + destruct (IH b eq_refl Hb) as [x [y [Hxy HS]]].
      * rewrite (last_cons_ne u (b :: t') u b) in Hl by discriminate. exact Hl.
      * exists x, y. split; [apply arc_on_cons; exact Hxy|exact HS].
    + exists u, b. split; [apply arc_on_head|auto].
Qed.

(* ------------------------------------------------------------------ *)
(* counting                                                            *)

Lemma pigeon_missing n (bl : list nat) :
  NoDup bl -> length bl < n -> exists q, q < n /\ ~ In q bl.
Proof.
  intros Hnd Hlen.
  assert (H : forall k, (forall q, q < k -> In q bl) \/ exists q, q < k /\ ~ In q bl).
  { induction k as [|k [IH|[q [Hq Hn]]]].
    - left; intros q Hq; lia.
    - destruct (in_dec Nat.eq_dec k bl) as [Hin|Hnin].
      + left. intros q Hq. destruct (Nat.eq_dec q k) as [->|Hne]; [exact Hin|apply IH; lia].
      + right. exists k; split; [lia|exact Hnin].
    - right. exists q; split; [lia|exact Hn]. }
  destruct (H n) as [Hall|Hex]; [|exact Hex].
  exfalso.
  assert (Hincl : incl (seq 0 n) bl).
  { intros q Hq. apply in_seq in Hq. apply Hall; lia. }
  pose proof (NoDup_incl_length (seq_NoDup n 0) Hincl) as Hle.
  rewrite seq_length in Hle. lia.
Qed.

Lemma full_perm n (bl : list nat) :
  NoDup bl -> (forall q, In q bl -> q < n) -> length bl = n -> Permutation bl (seq 0 n).
Proof.
  intros Hnd Hlt Hlen. apply NoDup_Permutation_bis; [exact Hnd| |].
  - rewrite seq_length. lia.
  - intros q Hq. apply in_seq. specialize (Hlt q Hq). lia.
Qed.
