(* Assumption audit of the C02 (Prim / prototype selection) development: every line must
   print "Closed under the global context". *)
From OPF Require Import Proofs.PrimGraph Proofs.PrimLoop Proofs.PrimWeight Proofs.PrimMain Proofs.PrimExample Props.C02.

Print Assumptions prim_grown_minimax.
Print Assumptions minimax_arcs_characterised.
Print Assumptions minimax_arcs_unique.
Print Assumptions find_prototypes_PI.
Print Assumptions ex_prototypes_exact.
Print Assumptions ex_minimax.
Print Assumptions ex_tree_path.
Print Assumptions C02_prim_spanning_tree.
Print Assumptions C02_prim_tree_connected.
Print Assumptions C02_prim_minimax_tree.
Print Assumptions C02_prim_cycle_optimal.
Print Assumptions C02_prototypes_exact.
Print Assumptions C02_every_class_has_prototype.
Print Assumptions C02_prototypes_nonempty.
Print Assumptions C02_cycle_optimal_unique.
Print Assumptions C02_minimax_arcs_unique.
Print Assumptions C02_prim_spanning_parent_map.
Print Assumptions C02_cycle_optimal_is_minimum.
Print Assumptions C02_prim_minimum_weight.
Print Assumptions C02_prim_tree_characterised.
Print Assumptions C02_prototypes_characterised.
Print Assumptions C02_find_prototypes_lengths.
