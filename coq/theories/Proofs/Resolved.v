(* C06: an identifier resolves, through DISTANCES and the module's definitions, to a function
   whose real-number value is the published closed form.  [resolve k] follows the generated registry
   (key -> function name) and the generated table of definitions (function name -> term). *)
From Coq Require Import Reals String List.
From OPF Require Import Spec.MetricSpec Model.MetricIR Gen.Metrics_gen Model.MetricEval Proofs.ClosedForms.
Open Scope string_scope.

Ltac resolved m cf := exists m; split; [vm_compute; reflexivity | exact cf].

Lemma resolved_additive_symmetric :
  exists m, resolve "additive_symmetric" = Some m /\
    forall x y : list R, length x = length y -> metric_value m x y = sp_additive_symmetric (shift x) (shift y).
Proof. resolved ir_additive_symmetric closed_form_additive_symmetric. Qed.

Lemma resolved_average_euclidean :
  exists m, resolve "average_euclidean" = Some m /\
    forall x y : list R, length x = length y -> metric_value m x y = sp_average_euclidean x y.
Proof. resolved ir_average_euclidean closed_form_average_euclidean. Qed.

Lemma resolved_bhattacharyya :
  exists m, resolve "bhattacharyya" = Some m /\
    forall x y : list R, length x = length y -> metric_value m x y = sp_bhattacharyya (shift x) (shift y).
Proof. resolved ir_bhattacharyya closed_form_bhattacharyya. Qed.

Lemma resolved_bray_curtis :
  exists m, resolve "bray_curtis" = Some m /\
    forall x y : list R, length x = length y -> metric_value m x y = sp_bray_curtis (shift x) (shift y).
Proof. resolved ir_bray_curtis closed_form_bray_curtis. Qed.

Lemma resolved_canberra :
  exists m, resolve "canberra" = Some m /\
    forall x y : list R, length x = length y -> metric_value m x y = sp_canberra (shift x) (shift y).
Proof. resolved ir_canberra closed_form_canberra. Qed.

Lemma resolved_chebyshev :
  exists m, resolve "chebyshev" = Some m /\
    forall x y : list R, length x = length y -> metric_value m x y = sp_chebyshev x y.
Proof. resolved ir_chebyshev closed_form_chebyshev. Qed.

Lemma resolved_chi_squared :
  exists m, resolve "chi_squared" = Some m /\
    forall x y : list R, length x = length y -> metric_value m x y = sp_chi_squared (shift x) (shift y).
Proof. resolved ir_chi_squared closed_form_chi_squared. Qed.

Lemma resolved_chord :
  exists m, resolve "chord" = Some m /\
    forall x y : list R, length x = length y -> metric_value m x y = sp_chord (shift x) (shift y).
Proof. resolved ir_chord closed_form_chord. Qed.

Lemma resolved_clark :
  exists m, resolve "clark" = Some m /\
    forall x y : list R, length x = length y -> metric_value m x y = sp_clark (shift x) (shift y).
Proof. resolved ir_clark closed_form_clark. Qed.

Lemma resolved_cosine :
  exists m, resolve "cosine" = Some m /\
    forall x y : list R, length x = length y -> metric_value m x y = sp_cosine (shift x) (shift y).
Proof. resolved ir_cosine closed_form_cosine. Qed.

Lemma resolved_dice :
  exists m, resolve "dice" = Some m /\
    forall x y : list R, length x = length y -> metric_value m x y = sp_dice (shift x) (shift y).
Proof. resolved ir_dice closed_form_dice. Qed.

Lemma resolved_divergence :
  exists m, resolve "divergence" = Some m /\
    forall x y : list R, length x = length y -> metric_value m x y = sp_divergence (shift x) (shift y).
Proof. resolved ir_divergence closed_form_divergence. Qed.

Lemma resolved_euclidean :
  exists m, resolve "euclidean" = Some m /\
    forall x y : list R, length x = length y -> metric_value m x y = sp_euclidean x y.
Proof. resolved ir_euclidean closed_form_euclidean. Qed.

Lemma resolved_gaussian :
  exists m, resolve "gaussian" = Some m /\
    forall x y : list R, length x = length y -> metric_value m x y = sp_gaussian 1%R x y.
Proof. resolved ir_gaussian closed_form_gaussian. Qed.

Lemma resolved_gaussian_gamma :
  exists m, resolve "gaussian" = Some m /\
    forall (g : R) (x y : list R), length x = length y ->
      metric_value_with (fun _ => g) m x y = sp_gaussian g x y.
Proof. exists ir_gaussian; split; [vm_compute; reflexivity | exact closed_form_gaussian_gamma]. Qed.

Lemma resolved_gower :
  exists m, resolve "gower" = Some m /\
    forall x y : list R, length x = length y -> metric_value m x y = sp_gower x y.
Proof. resolved ir_gower closed_form_gower. Qed.

Lemma resolved_hamming :
  exists m, resolve "hamming" = Some m /\
    forall x y : list R, length x = length y -> metric_value m x y = sp_hamming x y.
Proof. resolved ir_hamming closed_form_hamming. Qed.

Lemma resolved_hassanat :
  exists m, resolve "hassanat" = Some m /\
    forall x y : list R, length x = length y -> metric_value m x y = sp_hassanat (shift x) (shift y).
Proof. resolved ir_hassanat closed_form_hassanat. Qed.

Lemma resolved_hellinger :
  exists m, resolve "hellinger" = Some m /\
    forall x y : list R, length x = length y -> metric_value m x y = sp_hellinger x y.
Proof. resolved ir_hellinger closed_form_hellinger. Qed.

Lemma resolved_jaccard :
  exists m, resolve "jaccard" = Some m /\
    forall x y : list R, length x = length y -> metric_value m x y = sp_jaccard (shift x) (shift y).
Proof. resolved ir_jaccard closed_form_jaccard. Qed.

Lemma resolved_jeffreys :
  exists m, resolve "jeffreys" = Some m /\
    forall x y : list R, length x = length y -> metric_value m x y = sp_jeffreys (shift x) (shift y).
Proof. resolved ir_jeffreys closed_form_jeffreys. Qed.

Lemma resolved_jensen :
  exists m, resolve "jensen" = Some m /\
    forall x y : list R, length x = length y -> metric_value m x y = sp_jensen (shift x) (shift y).
Proof. resolved ir_jensen closed_form_jensen. Qed.

Lemma resolved_jensen_shannon :
  exists m, resolve "jensen_shannon" = Some m /\
    forall x y : list R, length x = length y -> metric_value m x y = sp_jensen_shannon (shift x) (shift y).
Proof. resolved ir_jensen_shannon closed_form_jensen_shannon. Qed.

Lemma resolved_k_divergence :
  exists m, resolve "k_divergence" = Some m /\
    forall x y : list R, length x = length y -> metric_value m x y = sp_k_divergence (shift x) (shift y).
Proof. resolved ir_k_divergence closed_form_k_divergence. Qed.

Lemma resolved_kulczynski :
  exists m, resolve "kulczynski" = Some m /\
    forall x y : list R, length x = length y -> metric_value m x y = sp_kulczynski (shift x) (shift y).
Proof. resolved ir_kulczynski closed_form_kulczynski. Qed.

Lemma resolved_kullback_leibler :
  exists m, resolve "kullback_leibler" = Some m /\
    forall x y : list R, length x = length y -> metric_value m x y = sp_kullback_leibler (shift x) (shift y).
Proof. resolved ir_kullback_leibler closed_form_kullback_leibler. Qed.

Lemma resolved_log_euclidean :
  exists m, resolve "log_euclidean" = Some m /\
    forall x y : list R, length x = length y -> metric_value m x y = sp_log_euclidean x y.
Proof. resolved ir_log_euclidean closed_form_log_euclidean. Qed.

Lemma resolved_log_squared_euclidean :
  exists m, resolve "log_squared_euclidean" = Some m /\
    forall x y : list R, length x = length y -> metric_value m x y = sp_log_squared_euclidean x y.
Proof. resolved ir_log_squared_euclidean closed_form_log_squared_euclidean. Qed.

Lemma resolved_lorentzian :
  exists m, resolve "lorentzian" = Some m /\
    forall x y : list R, length x = length y -> metric_value m x y = sp_lorentzian x y.
Proof. resolved ir_lorentzian closed_form_lorentzian. Qed.

Lemma resolved_manhattan :
  exists m, resolve "manhattan" = Some m /\
    forall x y : list R, length x = length y -> metric_value m x y = sp_manhattan x y.
Proof. resolved ir_manhattan closed_form_manhattan. Qed.

Lemma resolved_matusita :
  exists m, resolve "matusita" = Some m /\
    forall x y : list R, length x = length y -> metric_value m x y = sp_matusita x y.
Proof. resolved ir_matusita closed_form_matusita. Qed.

Lemma resolved_max_symmetric :
  exists m, resolve "max_symmetric" = Some m /\
    forall x y : list R, length x = length y -> metric_value m x y = sp_max_symmetric (shift x) (shift y).
Proof. resolved ir_max_symmetric closed_form_max_symmetric. Qed.

Lemma resolved_mean_censored_euclidean :
  exists m, resolve "mean_censored_euclidean" = Some m /\
    forall x y : list R, length x = length y -> metric_value m x y = sp_mean_censored_euclidean (shift x) (shift y).
Proof. resolved ir_mean_censored_euclidean closed_form_mean_censored_euclidean. Qed.

Lemma resolved_min_symmetric :
  exists m, resolve "min_symmetric" = Some m /\
    forall x y : list R, length x = length y -> metric_value m x y = sp_min_symmetric (shift x) (shift y).
Proof. resolved ir_min_symmetric closed_form_min_symmetric. Qed.

Lemma resolved_neyman :
  exists m, resolve "neyman" = Some m /\
    forall x y : list R, length x = length y -> metric_value m x y = sp_neyman (shift x) (shift y).
Proof. resolved ir_neyman closed_form_neyman. Qed.

Lemma resolved_non_intersection :
  exists m, resolve "non_intersection" = Some m /\
    forall x y : list R, length x = length y -> metric_value m x y = sp_non_intersection x y.
Proof. resolved ir_non_intersection closed_form_non_intersection. Qed.

Lemma resolved_pearson :
  exists m, resolve "pearson" = Some m /\
    forall x y : list R, length x = length y -> metric_value m x y = sp_pearson (shift x) (shift y).
Proof. resolved ir_pearson closed_form_pearson. Qed.

Lemma resolved_sangvi :
  exists m, resolve "sangvi" = Some m /\
    forall x y : list R, length x = length y -> metric_value m x y = sp_sangvi (shift x) (shift y).
Proof. resolved ir_sangvi closed_form_sangvi. Qed.

Lemma resolved_soergel :
  exists m, resolve "soergel" = Some m /\
    forall x y : list R, length x = length y -> metric_value m x y = sp_soergel (shift x) (shift y).
Proof. resolved ir_soergel closed_form_soergel. Qed.

Lemma resolved_squared :
  exists m, resolve "squared" = Some m /\
    forall x y : list R, length x = length y -> metric_value m x y = sp_squared (shift x) (shift y).
Proof. resolved ir_squared closed_form_squared. Qed.

Lemma resolved_squared_chord :
  exists m, resolve "squared_chord" = Some m /\
    forall x y : list R, length x = length y -> metric_value m x y = sp_squared_chord x y.
Proof. resolved ir_squared_chord closed_form_squared_chord. Qed.

Lemma resolved_squared_euclidean :
  exists m, resolve "squared_euclidean" = Some m /\
    forall x y : list R, length x = length y -> metric_value m x y = sp_squared_euclidean x y.
Proof. resolved ir_squared_euclidean closed_form_squared_euclidean. Qed.

Lemma resolved_statistic :
  exists m, resolve "statistic" = Some m /\
    forall x y : list R, length x = length y -> metric_value m x y = sp_statistic (shift x) (shift y).
Proof. resolved ir_statistic closed_form_statistic. Qed.

Lemma resolved_topsoe :
  exists m, resolve "topsoe" = Some m /\
    forall x y : list R, length x = length y -> metric_value m x y = sp_topsoe (shift x) (shift y).
Proof. resolved ir_topsoe closed_form_topsoe. Qed.

Lemma resolved_vicis_symmetric1 :
  exists m, resolve "vicis_symmetric1" = Some m /\
    forall x y : list R, length x = length y -> metric_value m x y = sp_vicis_symmetric1 (shift x) (shift y).
Proof. resolved ir_vicis_symmetric1 closed_form_vicis_symmetric1. Qed.

Lemma resolved_vicis_symmetric2 :
  exists m, resolve "vicis_symmetric2" = Some m /\
    forall x y : list R, length x = length y -> metric_value m x y = sp_vicis_symmetric2 (shift x) (shift y).
Proof. resolved ir_vicis_symmetric2 closed_form_vicis_symmetric2. Qed.

Lemma resolved_vicis_symmetric3 :
  exists m, resolve "vicis_symmetric3" = Some m /\
    forall x y : list R, length x = length y -> metric_value m x y = sp_vicis_symmetric3 (shift x) (shift y).
Proof. resolved ir_vicis_symmetric3 closed_form_vicis_symmetric3. Qed.

Lemma resolved_vicis_wave_hedges :
  exists m, resolve "vicis_wave_hedges" = Some m /\
    forall x y : list R, length x = length y -> metric_value m x y = sp_vicis_wave_hedges (shift x) (shift y).
Proof. resolved ir_vicis_wave_hedges closed_form_vicis_wave_hedges. Qed.

(* ---- all of them, as the one conjunction Props/C06.v states ---- *)
Open Scope R_scope.

Lemma closed_forms_all :
  (exists m, resolve "additive_symmetric" = Some m /\
     forall x y : list R, length x = length y -> metric_value m x y = sp_additive_symmetric (shift x) (shift y))
  /\ (exists m, resolve "average_euclidean" = Some m /\
     forall x y : list R, length x = length y -> metric_value m x y = sp_average_euclidean x y)
  /\ (exists m, resolve "bhattacharyya" = Some m /\
     forall x y : list R, length x = length y -> metric_value m x y = sp_bhattacharyya (shift x) (shift y))
  /\ (exists m, resolve "bray_curtis" = Some m /\
     forall x y : list R, length x = length y -> metric_value m x y = sp_bray_curtis (shift x) (shift y))
  /\ (exists m, resolve "canberra" = Some m /\
     forall x y : list R, length x = length y -> metric_value m x y = sp_canberra (shift x) (shift y))
  /\ (exists m, resolve "chebyshev" = Some m /\
     forall x y : list R, length x = length y -> metric_value m x y = sp_chebyshev x y)
  /\ (exists m, resolve "chi_squared" = Some m /\
     forall x y : list R, length x = length y -> metric_value m x y = sp_chi_squared (shift x) (shift y))
  /\ (exists m, resolve "chord" = Some m /\
     forall x y : list R, length x = length y -> metric_value m x y = sp_chord (shift x) (shift y))
  /\ (exists m, resolve "clark" = Some m /\
     forall x y : list R, length x = length y -> metric_value m x y = sp_clark (shift x) (shift y))
  /\ (exists m, resolve "cosine" = Some m /\
     forall x y : list R, length x = length y -> metric_value m x y = sp_cosine (shift x) (shift y))
  /\ (exists m, resolve "dice" = Some m /\
     forall x y : list R, length x = length y -> metric_value m x y = sp_dice (shift x) (shift y))
  /\ (exists m, resolve "divergence" = Some m /\
     forall x y : list R, length x = length y -> metric_value m x y = sp_divergence (shift x) (shift y))
  /\ (exists m, resolve "euclidean" = Some m /\
     forall x y : list R, length x = length y -> metric_value m x y = sp_euclidean x y)
  /\ (exists m, resolve "gaussian" = Some m /\
     forall x y : list R, length x = length y -> metric_value m x y = sp_gaussian 1 x y)
  /\ (exists m, resolve "gaussian" = Some m /\
     forall (g : R) (x y : list R), length x = length y ->
       metric_value_with (fun _ => g) m x y = sp_gaussian g x y)
  /\ (exists m, resolve "gower" = Some m /\
     forall x y : list R, length x = length y -> metric_value m x y = sp_gower x y)
  /\ (exists m, resolve "hamming" = Some m /\
     forall x y : list R, length x = length y -> metric_value m x y = sp_hamming x y)
  /\ (exists m, resolve "hassanat" = Some m /\
     forall x y : list R, length x = length y -> metric_value m x y = sp_hassanat (shift x) (shift y))
  /\ (exists m, resolve "hellinger" = Some m /\
     forall x y : list R, length x = length y -> metric_value m x y = sp_hellinger x y)
  /\ (exists m, resolve "jaccard" = Some m /\
     forall x y : list R, length x = length y -> metric_value m x y = sp_jaccard (shift x) (shift y))
  /\ (exists m, resolve "jeffreys" = Some m /\
     forall x y : list R, length x = length y -> metric_value m x y = sp_jeffreys (shift x) (shift y))
  /\ (exists m, resolve "jensen" = Some m /\
     forall x y : list R, length x = length y -> metric_value m x y = sp_jensen (shift x) (shift y))
  /\ (exists m, resolve "jensen_shannon" = Some m /\
     forall x y : list R, length x = length y -> metric_value m x y = sp_jensen_shannon (shift x) (shift y))
  /\ (exists m, resolve "k_divergence" = Some m /\
     forall x y : list R, length x = length y -> metric_value m x y = sp_k_divergence (shift x) (shift y))
  /\ (exists m, resolve "kulczynski" = Some m /\
     forall x y : list R, length x = length y -> metric_value m x y = sp_kulczynski (shift x) (shift y))
  /\ (exists m, resolve "kullback_leibler" = Some m /\
     forall x y : list R, length x = length y -> metric_value m x y = sp_kullback_leibler (shift x) (shift y))
  /\ (exists m, resolve "log_euclidean" = Some m /\
     forall x y : list R, length x = length y -> metric_value m x y = sp_log_euclidean x y)
  /\ (exists m, resolve "log_squared_euclidean" = Some m /\
     forall x y : list R, length x = length y -> metric_value m x y = sp_log_squared_euclidean x y)
  /\ (exists m, resolve "lorentzian" = Some m /\
     forall x y : list R, length x = length y -> metric_value m x y = sp_lorentzian x y)
  /\ (exists m, resolve "manhattan" = Some m /\
     forall x y : list R, length x = length y -> metric_value m x y = sp_manhattan x y)
  /\ (exists m, resolve "matusita" = Some m /\
     forall x y : list R, length x = length y -> metric_value m x y = sp_matusita x y)
  /\ (exists m, resolve "max_symmetric" = Some m /\
     forall x y : list R, length x = length y -> metric_value m x y = sp_max_symmetric (shift x) (shift y))
  /\ (exists m, resolve "mean_censored_euclidean" = Some m /\
     forall x y : list R, length x = length y -> metric_value m x y = sp_mean_censored_euclidean (shift x) (shift y))
  /\ (exists m, resolve "min_symmetric" = Some m /\
     forall x y : list R, length x = length y -> metric_value m x y = sp_min_symmetric (shift x) (shift y))
  /\ (exists m, resolve "neyman" = Some m /\
     forall x y : list R, length x = length y -> metric_value m x y = sp_neyman (shift x) (shift y))
  /\ (exists m, resolve "non_intersection" = Some m /\
     forall x y : list R, length x = length y -> metric_value m x y = sp_non_intersection x y)
  /\ (exists m, resolve "pearson" = Some m /\
     forall x y : list R, length x = length y -> metric_value m x y = sp_pearson (shift x) (shift y))
  /\ (exists m, resolve "sangvi" = Some m /\
     forall x y : list R, length x = length y -> metric_value m x y = sp_sangvi (shift x) (shift y))
  /\ (exists m, resolve "soergel" = Some m /\
     forall x y : list R, length x = length y -> metric_value m x y = sp_soergel (shift x) (shift y))
  /\ (exists m, resolve "squared" = Some m /\
     forall x y : list R, length x = length y -> metric_value m x y = sp_squared (shift x) (shift y))
  /\ (exists m, resolve "squared_chord" = Some m /\
     forall x y : list R, length x = length y -> metric_value m x y = sp_squared_chord x y)
  /\ (exists m, resolve "squared_euclidean" = Some m /\
     forall x y : list R, length x = length y -> metric_value m x y = sp_squared_euclidean x y)
  /\ (exists m, resolve "statistic" = Some m /\
     forall x y : list R, length x = length y -> metric_value m x y = sp_statistic (shift x) (shift y))
  /\ (exists m, resolve "topsoe" = Some m /\
     forall x y : list R, length x = length y -> metric_value m x y = sp_topsoe (shift x) (shift y))
  /\ (exists m, resolve "vicis_symmetric1" = Some m /\
     forall x y : list R, length x = length y -> metric_value m x y = sp_vicis_symmetric1 (shift x) (shift y))
  /\ (exists m, resolve "vicis_symmetric2" = Some m /\
     forall x y : list R, length x = length y -> metric_value m x y = sp_vicis_symmetric2 (shift x) (shift y))
  /\ (exists m, resolve "vicis_symmetric3" = Some m /\
     forall x y : list R, length x = length y -> metric_value m x y = sp_vicis_symmetric3 (shift x) (shift y))
  /\ (exists m, resolve "vicis_wave_hedges" = Some m /\
     forall x y : list R, length x = length y -> metric_value m x y = sp_vicis_wave_hedges (shift x) (shift y)).
Proof.
  exact
  (conj resolved_additive_symmetric
  (conj resolved_average_euclidean
  (conj resolved_bhattacharyya
  (conj resolved_bray_curtis
  (conj resolved_canberra
  (conj resolved_chebyshev
  (conj resolved_chi_squared
  (conj resolved_chord
  (conj resolved_clark
  (conj resolved_cosine
  (conj resolved_dice
  (conj resolved_divergence
  (conj resolved_euclidean
  (conj resolved_gaussian
  (conj resolved_gaussian_gamma
  (conj resolved_gower
  (conj resolved_hamming
  (conj resolved_hassanat
  (conj resolved_hellinger
  (conj resolved_jaccard
  (conj resolved_jeffreys
  (conj resolved_jensen
  (conj resolved_jensen_shannon
  (conj resolved_k_divergence
  (conj resolved_kulczynski
  (conj resolved_kullback_leibler
  (conj resolved_log_euclidean
  (conj resolved_log_squared_euclidean
  (conj resolved_lorentzian
  (conj resolved_manhattan
  (conj resolved_matusita
  (conj resolved_max_symmetric
  (conj resolved_mean_censored_euclidean
  (conj resolved_min_symmetric
  (conj resolved_neyman
  (conj resolved_non_intersection
  (conj resolved_pearson
  (conj resolved_sangvi
  (conj resolved_soergel
  (conj resolved_squared
  (conj resolved_squared_chord
  (conj resolved_squared_euclidean
  (conj resolved_statistic
  (conj resolved_topsoe
  (conj resolved_vicis_symmetric1
  (conj resolved_vicis_symmetric2
  (conj resolved_vicis_symmetric3
  resolved_vicis_wave_hedges))))))))))))))))))))))))))))))))))))))))))))))).
Qed.
