(* The rounding-depth analysis with quotients applied to the regenerated DECORATED terms.

   [rq_gen_<name>]: depth (p n, q n) and a non-negative class, for every vector length n >= 1, on non-negative
   user vectors (exact zeros included: behind the decorator they become rnd (0 + EPSILON) > 0), by computation on
   the generated body with [n] symbolic.  With [rdepthq_sound] and the closed forms of C06 this gives
   [rounding_bound_shift NonNeg] for 19 identifiers: the computed value is the closed form AT THE ROUNDED SHIFTED
   ARGUMENTS up to the factor (1+u)^p / (1-u)^q. *)
From Coq Require Import Reals QArith String List Lra Lia Bool Arith ZifyNat.
From OPF Require Import Spec.MetricSpec Model.MetricIR Gen.Metrics_gen Gen.Decorator_gen Model.MetricRnd Model.MetricEval
     Model.MetricRdepth Model.MetricRdepthQ Proofs.IRLemmas Proofs.ClosedForms Proofs.RoundingBounds Proofs.RoundingBoundsQ
     Proofs.RdepthSound Proofs.RdepthQSound.
Import ListNotations.
Open Scope string_scope.
Open Scope R_scope.

Lemma rq_eq (p q p' q' : nat) (c : cls) : p = p' -> q = q' -> Some (p, q, c) = Some (p', q', c).
Proof. intros -> ->. reflexivity. Qed.

Ltac rq_table := intros H; eexists; split;
  [ | cbn -[half_up Nat.div]; apply rq_eq; unfold half_up; lia ]; reflexivity.

Lemma rq_gen_additive_symmetric n : (1 <= n)%nat ->
  exists c', cls_nonneg c' = true /\ rdepthq_gen all_metrics_ir NonNeg ir_additive_symmetric n = Some ((n + 6)%nat, 1%nat, c').
Proof. rq_table. Qed.

Lemma rq_gen_bray_curtis n : (1 <= n)%nat ->
  exists c', cls_nonneg c' = true /\ rdepthq_gen all_metrics_ir NonNeg ir_bray_curtis n = Some ((n + 1)%nat, n, c').
Proof. rq_table. Qed.

Lemma rq_gen_canberra n : (1 <= n)%nat ->
  exists c', cls_nonneg c' = true /\ rdepthq_gen all_metrics_ir NonNeg ir_canberra n = Some ((n + 1)%nat, 1%nat, c').
Proof. rq_table. Qed.

Lemma rq_gen_chi_squared n : (1 <= n)%nat ->
  exists c', cls_nonneg c' = true /\ rdepthq_gen all_metrics_ir NonNeg ir_chi_squared n = Some ((n + 4)%nat, 1%nat, c').
Proof. rq_table. Qed.

Lemma rq_gen_clark n : (1 <= n)%nat ->
  exists c', cls_nonneg c' = true /\ rdepthq_gen all_metrics_ir NonNeg ir_clark n = Some (((n + 5) / 2 + 1)%nat, 1%nat, c').
Proof. rq_table. Qed.

Lemma rq_gen_divergence n : (1 <= n)%nat ->
  exists c', cls_nonneg c' = true /\ rdepthq_gen all_metrics_ir NonNeg ir_divergence n = Some ((n + 4)%nat, 3%nat, c').
Proof. rq_table. Qed.

Lemma rq_gen_kulczynski n : (1 <= n)%nat ->
  exists c', cls_nonneg c' = true /\ rdepthq_gen all_metrics_ir NonNeg ir_kulczynski n = Some ((n + 1)%nat, (n - 1)%nat, c').
Proof. rq_table. Qed.

Lemma rq_gen_max_symmetric n : (1 <= n)%nat ->
  exists c', cls_nonneg c' = true /\ rdepthq_gen all_metrics_ir NonNeg ir_max_symmetric n = Some ((n + 3)%nat, 0%nat, c').
Proof. rq_table. Qed.

Lemma rq_gen_mean_censored_euclidean n : (1 <= n)%nat ->
  exists c', cls_nonneg c' = true /\ rdepthq_gen all_metrics_ir NonNeg ir_mean_censored_euclidean n = Some (((n + 4) / 2 + 1)%nat, 0%nat, c').
Proof. rq_table. Qed.

Lemma rq_gen_min_symmetric n : (1 <= n)%nat ->
  exists c', cls_nonneg c' = true /\ rdepthq_gen all_metrics_ir NonNeg ir_min_symmetric n = Some ((n + 3)%nat, 0%nat, c').
Proof. rq_table. Qed.

Lemma rq_gen_neyman n : (1 <= n)%nat ->
  exists c', cls_nonneg c' = true /\ rdepthq_gen all_metrics_ir NonNeg ir_neyman n = Some ((n + 3)%nat, 0%nat, c').
Proof. rq_table. Qed.

Lemma rq_gen_pearson n : (1 <= n)%nat ->
  exists c', cls_nonneg c' = true /\ rdepthq_gen all_metrics_ir NonNeg ir_pearson n = Some ((n + 3)%nat, 0%nat, c').
Proof. rq_table. Qed.

Lemma rq_gen_sangvi n : (1 <= n)%nat ->
  exists c', cls_nonneg c' = true /\ rdepthq_gen all_metrics_ir NonNeg ir_sangvi n = Some ((n + 4)%nat, 1%nat, c').
Proof. rq_table. Qed.

Lemma rq_gen_soergel n : (1 <= n)%nat ->
  exists c', cls_nonneg c' = true /\ rdepthq_gen all_metrics_ir NonNeg ir_soergel n = Some ((n + 1)%nat, (n - 1)%nat, c').
Proof. rq_table. Qed.

Lemma rq_gen_squared n : (1 <= n)%nat ->
  exists c', cls_nonneg c' = true /\ rdepthq_gen all_metrics_ir NonNeg ir_squared n = Some ((n + 3)%nat, 1%nat, c').
Proof. rq_table. Qed.

Lemma rq_gen_vicis_symmetric1 n : (1 <= n)%nat ->
  exists c', cls_nonneg c' = true /\ rdepthq_gen all_metrics_ir NonNeg ir_vicis_symmetric1 n = Some ((n + 3)%nat, 1%nat, c').
Proof. rq_table. Qed.

Lemma rq_gen_vicis_symmetric2 n : (1 <= n)%nat ->
  exists c', cls_nonneg c' = true /\ rdepthq_gen all_metrics_ir NonNeg ir_vicis_symmetric2 n = Some ((n + 3)%nat, 0%nat, c').
Proof. rq_table. Qed.

Lemma rq_gen_vicis_symmetric3 n : (1 <= n)%nat ->
  exists c', cls_nonneg c' = true /\ rdepthq_gen all_metrics_ir NonNeg ir_vicis_symmetric3 n = Some ((n + 3)%nat, 0%nat, c').
Proof. rq_table. Qed.

Lemma rq_gen_vicis_wave_hedges n : (1 <= n)%nat ->
  exists c', cls_nonneg c' = true /\ rdepthq_gen all_metrics_ir NonNeg ir_vicis_wave_hedges n = Some ((n + 1)%nat, 0%nat, c').
Proof. rq_table. Qed.

(* ---------- the table by function name ---------- *)
Lemma rdepthq_of_gen m n p q c' :
  rdepthq_gen all_metrics_ir NonNeg m n = Some (p, q, c') -> rdepthq_in NonNeg m n = Some (p, q).
Proof. intros E. unfold rdepthq_in. rewrite E. reflexivity. Qed.

Ltac by_gen L := match goal with H : (1 <= ?n)%nat |- _ =>
  let c := fresh in let N := fresh in let E := fresh in
  destruct (L n H) as [c [N E]]; exact (rdepthq_of_gen _ _ _ _ _ E) end.

Theorem rq_table_all n : (1 <= n)%nat ->
     rdepthq_name NonNeg "additive_symmetric_distance" n = Some ((n + 6)%nat, 1%nat)
  /\ rdepthq_name NonNeg "bray_curtis_distance" n = Some ((n + 1)%nat, n)
  /\ rdepthq_name NonNeg "canberra_distance" n = Some ((n + 1)%nat, 1%nat)
  /\ rdepthq_name NonNeg "chi_squared_distance" n = Some ((n + 4)%nat, 1%nat)
  /\ rdepthq_name NonNeg "clark_distance" n = Some (((n + 5) / 2 + 1)%nat, 1%nat)
  /\ rdepthq_name NonNeg "divergence_distance" n = Some ((n + 4)%nat, 3%nat)
  /\ rdepthq_name NonNeg "kulczynski_distance" n = Some ((n + 1)%nat, (n - 1)%nat)
  /\ rdepthq_name NonNeg "max_symmetric_distance" n = Some ((n + 3)%nat, 0%nat)
  /\ rdepthq_name NonNeg "mean_censored_euclidean_distance" n = Some (((n + 4) / 2 + 1)%nat, 0%nat)
  /\ rdepthq_name NonNeg "min_symmetric_distance" n = Some ((n + 3)%nat, 0%nat)
  /\ rdepthq_name NonNeg "neyman_distance" n = Some ((n + 3)%nat, 0%nat)
  /\ rdepthq_name NonNeg "pearson_distance" n = Some ((n + 3)%nat, 0%nat)
  /\ rdepthq_name NonNeg "sangvi_distance" n = Some ((n + 4)%nat, 1%nat)
  /\ rdepthq_name NonNeg "soergel_distance" n = Some ((n + 1)%nat, (n - 1)%nat)
  /\ rdepthq_name NonNeg "squared_distance" n = Some ((n + 3)%nat, 1%nat)
  /\ rdepthq_name NonNeg "vicis_symmetric1_distance" n = Some ((n + 3)%nat, 1%nat)
  /\ rdepthq_name NonNeg "vicis_symmetric2_distance" n = Some ((n + 3)%nat, 0%nat)
  /\ rdepthq_name NonNeg "vicis_symmetric3_distance" n = Some ((n + 3)%nat, 0%nat)
  /\ rdepthq_name NonNeg "vicis_wave_hedges_distance" n = Some ((n + 1)%nat, 0%nat).
Proof.
  intros H. unfold rdepthq_name.
  repeat match goal with |- context [lookup_ir ?f all_metrics_ir] =>
    let r := eval vm_compute in (lookup_ir f all_metrics_ir) in
    change (lookup_ir f all_metrics_ir) with r end.
  repeat apply conj.
  - by_gen rq_gen_additive_symmetric.
  - by_gen rq_gen_bray_curtis.
  - by_gen rq_gen_canberra.
  - by_gen rq_gen_chi_squared.
  - by_gen rq_gen_clark.
  - by_gen rq_gen_divergence.
  - by_gen rq_gen_kulczynski.
  - by_gen rq_gen_max_symmetric.
  - by_gen rq_gen_mean_censored_euclidean.
  - by_gen rq_gen_min_symmetric.
  - by_gen rq_gen_neyman.
  - by_gen rq_gen_pearson.
  - by_gen rq_gen_sangvi.
  - by_gen rq_gen_soergel.
  - by_gen rq_gen_squared.
  - by_gen rq_gen_vicis_symmetric1.
  - by_gen rq_gen_vicis_symmetric2.
  - by_gen rq_gen_vicis_symmetric3.
  - by_gen rq_gen_vicis_wave_hedges.
Qed.

(* ---------- the body at arbitrary arguments is the closed form ---------- *)
Lemma unshift_shift (x : list R) : shift (map (fun a => a - EPSILON) x) = x.
Proof. unfold shift. rewrite map_map. rewrite <- (map_id x) at 2. apply map_ext. intros a. ring. Qed.

Lemma body_of_metric m (sp : list R -> list R -> R) :
  m_avoid_zero m = true ->
  (forall x y, length x = length y -> metric_value m x y = sp (shift x) (shift y)) ->
  forall x y, length x = length y -> body_value m x y = sp x y.
Proof.
  intros D CF x y HL.
  set (x0 := map (fun a => a - EPSILON) x). set (y0 := map (fun a => a - EPSILON) y).
  assert (HL0 : length x0 = length y0) by (unfold x0, y0; now rewrite !map_length).
  pose proof (CF x0 y0 HL0) as E. unfold x0, y0 in E. rewrite !unshift_shift in E. rewrite <- E.
  unfold metric_value, evalR_wrapped, evalR_wrapped_with, wrap. rewrite D, dec_ok. fold x0 y0.
  unfold x0, y0. rewrite !unshift_shift. reflexivity.
Qed.

Lemma rounding_shift_of_gen m (sp : list R -> list R -> R) (p q : nat -> nat) :
  m_avoid_zero m = true ->
  (forall n, (1 <= n)%nat ->
     exists c', cls_nonneg c' = true /\ rdepthq_gen all_metrics_ir NonNeg m n = Some (p n, q n, c')) ->
  (forall x y, length x = length y -> metric_value m x y = sp (shift x) (shift y)) ->
  rounding_bound_shift NonNeg m sp p q.
Proof.
  intros D G CF u rnd HU REL x y HL H1 HX HY.
  destruct (G (length x) H1) as [c' [N E]].
  destruct (rdepthq_sound NonNeg m (length x) _ _ _ E u rnd HU REL x y eq_refl) as [fl [Efl [Wfl Cfl]]];
    [repeat split; assumption|].
  unfold metric_exact_at in Wfl, Cfl. rewrite D in Wfl, Cfl.
  assert (HLs : length (rshift rnd x) = length (rshift rnd y)) by (unfold rshift; now rewrite !map_length).
  rewrite (body_of_metric m sp D CF _ _ HLs) in Wfl, Cfl.
  pose proof (nonneg_cls c' _ N Cfl) as S0. destruct HU as [U0 U1].
  exists fl. split; [exact Efl|]. split.
  - now apply w2_nonneg_elim.
  - now apply (w2_abs_nonneg u U0 U1).
Qed.

Theorem rounding_additive_symmetric :
  rounding_bound_shift NonNeg ir_additive_symmetric sp_additive_symmetric (fun n => (n + 6)%nat) (fun _ => 1%nat).
Proof. apply rounding_shift_of_gen; [reflexivity | exact rq_gen_additive_symmetric | exact closed_form_additive_symmetric]. Qed.

Theorem rounding_bray_curtis :
  rounding_bound_shift NonNeg ir_bray_curtis sp_bray_curtis (fun n => (n + 1)%nat) (fun n => n).
Proof. apply rounding_shift_of_gen; [reflexivity | exact rq_gen_bray_curtis | exact closed_form_bray_curtis]. Qed.

Theorem rounding_canberra :
  rounding_bound_shift NonNeg ir_canberra sp_canberra (fun n => (n + 1)%nat) (fun _ => 1%nat).
Proof. apply rounding_shift_of_gen; [reflexivity | exact rq_gen_canberra | exact closed_form_canberra]. Qed.

Theorem rounding_chi_squared :
  rounding_bound_shift NonNeg ir_chi_squared sp_chi_squared (fun n => (n + 4)%nat) (fun _ => 1%nat).
Proof. apply rounding_shift_of_gen; [reflexivity | exact rq_gen_chi_squared | exact closed_form_chi_squared]. Qed.

Theorem rounding_clark :
  rounding_bound_shift NonNeg ir_clark sp_clark (fun n => ((n + 5) / 2 + 1)%nat) (fun _ => 1%nat).
Proof. apply rounding_shift_of_gen; [reflexivity | exact rq_gen_clark | exact closed_form_clark]. Qed.

Theorem rounding_divergence :
  rounding_bound_shift NonNeg ir_divergence sp_divergence (fun n => (n + 4)%nat) (fun _ => 3%nat).
Proof. apply rounding_shift_of_gen; [reflexivity | exact rq_gen_divergence | exact closed_form_divergence]. Qed.

Theorem rounding_kulczynski :
  rounding_bound_shift NonNeg ir_kulczynski sp_kulczynski (fun n => (n + 1)%nat) (fun n => (n - 1)%nat).
Proof. apply rounding_shift_of_gen; [reflexivity | exact rq_gen_kulczynski | exact closed_form_kulczynski]. Qed.

Theorem rounding_max_symmetric :
  rounding_bound_shift NonNeg ir_max_symmetric sp_max_symmetric (fun n => (n + 3)%nat) (fun _ => 0%nat).
Proof. apply rounding_shift_of_gen; [reflexivity | exact rq_gen_max_symmetric | exact closed_form_max_symmetric]. Qed.

Theorem rounding_mean_censored_euclidean :
  rounding_bound_shift NonNeg ir_mean_censored_euclidean sp_mean_censored_euclidean (fun n => ((n + 4) / 2 + 1)%nat) (fun _ => 0%nat).
Proof. apply rounding_shift_of_gen; [reflexivity | exact rq_gen_mean_censored_euclidean | exact closed_form_mean_censored_euclidean]. Qed.

Theorem rounding_min_symmetric :
  rounding_bound_shift NonNeg ir_min_symmetric sp_min_symmetric (fun n => (n + 3)%nat) (fun _ => 0%nat).
Proof. apply rounding_shift_of_gen; [reflexivity | exact rq_gen_min_symmetric | exact closed_form_min_symmetric]. Qed.

Theorem rounding_neyman :
  rounding_bound_shift NonNeg ir_neyman sp_neyman (fun n => (n + 3)%nat) (fun _ => 0%nat).
Proof. apply rounding_shift_of_gen; [reflexivity | exact rq_gen_neyman | exact closed_form_neyman]. Qed.

Theorem rounding_pearson :
  rounding_bound_shift NonNeg ir_pearson sp_pearson (fun n => (n + 3)%nat) (fun _ => 0%nat).
Proof. apply rounding_shift_of_gen; [reflexivity | exact rq_gen_pearson | exact closed_form_pearson]. Qed.

Theorem rounding_sangvi :
  rounding_bound_shift NonNeg ir_sangvi sp_sangvi (fun n => (n + 4)%nat) (fun _ => 1%nat).
Proof. apply rounding_shift_of_gen; [reflexivity | exact rq_gen_sangvi | exact closed_form_sangvi]. Qed.

Theorem rounding_soergel :
  rounding_bound_shift NonNeg ir_soergel sp_soergel (fun n => (n + 1)%nat) (fun n => (n - 1)%nat).
Proof. apply rounding_shift_of_gen; [reflexivity | exact rq_gen_soergel | exact closed_form_soergel]. Qed.

Theorem rounding_squared :
  rounding_bound_shift NonNeg ir_squared sp_squared (fun n => (n + 3)%nat) (fun _ => 1%nat).
Proof. apply rounding_shift_of_gen; [reflexivity | exact rq_gen_squared | exact closed_form_squared]. Qed.

Theorem rounding_vicis_symmetric1 :
  rounding_bound_shift NonNeg ir_vicis_symmetric1 sp_vicis_symmetric1 (fun n => (n + 3)%nat) (fun _ => 1%nat).
Proof. apply rounding_shift_of_gen; [reflexivity | exact rq_gen_vicis_symmetric1 | exact closed_form_vicis_symmetric1]. Qed.

Theorem rounding_vicis_symmetric2 :
  rounding_bound_shift NonNeg ir_vicis_symmetric2 sp_vicis_symmetric2 (fun n => (n + 3)%nat) (fun _ => 0%nat).
Proof. apply rounding_shift_of_gen; [reflexivity | exact rq_gen_vicis_symmetric2 | exact closed_form_vicis_symmetric2]. Qed.

Theorem rounding_vicis_symmetric3 :
  rounding_bound_shift NonNeg ir_vicis_symmetric3 sp_vicis_symmetric3 (fun n => (n + 3)%nat) (fun _ => 0%nat).
Proof. apply rounding_shift_of_gen; [reflexivity | exact rq_gen_vicis_symmetric3 | exact closed_form_vicis_symmetric3]. Qed.

Theorem rounding_vicis_wave_hedges :
  rounding_bound_shift NonNeg ir_vicis_wave_hedges sp_vicis_wave_hedges (fun n => (n + 1)%nat) (fun _ => 0%nat).
Proof. apply rounding_shift_of_gen; [reflexivity | exact rq_gen_vicis_wave_hedges | exact closed_form_vicis_wave_hedges]. Qed.


Theorem rounding_shift_all :
     rounding_bound_shift NonNeg ir_additive_symmetric sp_additive_symmetric (fun n => (n + 6)%nat) (fun _ => 1%nat)
  /\ rounding_bound_shift NonNeg ir_bray_curtis sp_bray_curtis (fun n => (n + 1)%nat) (fun n => n)
  /\ rounding_bound_shift NonNeg ir_canberra sp_canberra (fun n => (n + 1)%nat) (fun _ => 1%nat)
  /\ rounding_bound_shift NonNeg ir_chi_squared sp_chi_squared (fun n => (n + 4)%nat) (fun _ => 1%nat)
  /\ rounding_bound_shift NonNeg ir_clark sp_clark (fun n => ((n + 5) / 2 + 1)%nat) (fun _ => 1%nat)
  /\ rounding_bound_shift NonNeg ir_divergence sp_divergence (fun n => (n + 4)%nat) (fun _ => 3%nat)
  /\ rounding_bound_shift NonNeg ir_kulczynski sp_kulczynski (fun n => (n + 1)%nat) (fun n => (n - 1)%nat)
  /\ rounding_bound_shift NonNeg ir_max_symmetric sp_max_symmetric (fun n => (n + 3)%nat) (fun _ => 0%nat)
  /\ rounding_bound_shift NonNeg ir_mean_censored_euclidean sp_mean_censored_euclidean (fun n => ((n + 4) / 2 + 1)%nat) (fun _ => 0%nat)
  /\ rounding_bound_shift NonNeg ir_min_symmetric sp_min_symmetric (fun n => (n + 3)%nat) (fun _ => 0%nat)
  /\ rounding_bound_shift NonNeg ir_neyman sp_neyman (fun n => (n + 3)%nat) (fun _ => 0%nat)
  /\ rounding_bound_shift NonNeg ir_pearson sp_pearson (fun n => (n + 3)%nat) (fun _ => 0%nat)
  /\ rounding_bound_shift NonNeg ir_sangvi sp_sangvi (fun n => (n + 4)%nat) (fun _ => 1%nat)
  /\ rounding_bound_shift NonNeg ir_soergel sp_soergel (fun n => (n + 1)%nat) (fun n => (n - 1)%nat)
  /\ rounding_bound_shift NonNeg ir_squared sp_squared (fun n => (n + 3)%nat) (fun _ => 1%nat)
  /\ rounding_bound_shift NonNeg ir_vicis_symmetric1 sp_vicis_symmetric1 (fun n => (n + 3)%nat) (fun _ => 1%nat)
  /\ rounding_bound_shift NonNeg ir_vicis_symmetric2 sp_vicis_symmetric2 (fun n => (n + 3)%nat) (fun _ => 0%nat)
  /\ rounding_bound_shift NonNeg ir_vicis_symmetric3 sp_vicis_symmetric3 (fun n => (n + 3)%nat) (fun _ => 0%nat)
  /\ rounding_bound_shift NonNeg ir_vicis_wave_hedges sp_vicis_wave_hedges (fun n => (n + 1)%nat) (fun _ => 0%nat).
Proof.
  repeat apply conj.
  - exact rounding_additive_symmetric.
  - exact rounding_bray_curtis.
  - exact rounding_canberra.
  - exact rounding_chi_squared.
  - exact rounding_clark.
  - exact rounding_divergence.
  - exact rounding_kulczynski.
  - exact rounding_max_symmetric.
  - exact rounding_mean_censored_euclidean.
  - exact rounding_min_symmetric.
  - exact rounding_neyman.
  - exact rounding_pearson.
  - exact rounding_sangvi.
  - exact rounding_soergel.
  - exact rounding_squared.
  - exact rounding_vicis_symmetric1.
  - exact rounding_vicis_symmetric2.
  - exact rounding_vicis_symmetric3.
  - exact rounding_vicis_wave_hedges.
Qed.

Theorem rounding_bound_shift_meaning (c : cls) (m : metric_ir) (sp : list R -> list R -> R) (p q : nat -> nat) :
  rounding_bound_shift c m sp p q <->
  (forall u rnd, 0 <= u < 1 -> rnd_rel u rnd ->
   forall x y, length x = length y -> (1 <= length x)%nat -> Forall (in_cls c) x -> Forall (in_cls c) y ->
   exists fl, metric_rnd rnd m x y = Some fl
     /\ (1 - u) ^ p (length x) * (/ (1 + u)) ^ q (length x) * sp (rshift rnd x) (rshift rnd y) <= fl
        <= (1 + u) ^ p (length x) * (/ (1 - u)) ^ q (length x) * sp (rshift rnd x) (rshift rnd y)
     /\ Rabs (fl - sp (rshift rnd x) (rshift rnd y))
        <= ((1 + u) ^ p (length x) * (/ (1 - u)) ^ q (length x) - 1) * sp (rshift rnd x) (rshift rnd y)).
Proof. unfold rounding_bound_shift, lo_f, up_f. split; intros H; exact H. Qed.
