(* List, path and order vocabulary used by the optimum-path-forest proofs (Fit.v, Semi.v). *)
From Coq Require Import List Arith Bool ZArith Lia ZifyBool Permutation.
From OPF Require Import Base.Lists Model.Heap Model.Sup Proofs.HeapBase Proofs.HeapInv Spec.Paths.
Import ListNotations.
Close Scope Z_scope.

(* [a] occurs strictly before [b] in [l] *)
Definition before (l : list nat) (a b : nat) : Prop :=
  exists i j, i < j /\ j < length l /\ nth i l 0 = a /\ nth j l 0 = b.

Lemma before_app l a b x : before l a b -> before (l ++ [x]) a b.
Proof.
  intros (i & j & Hij & Hj & Ha & Hb). exists i, j.
  rewrite app_length; cbn [length]. rewrite !app_nth1 by lia. repeat split; auto; lia.
Qed.

Lemma before_last l a x : In a l -> before (l ++ [x]) a x.
Proof.
  intros Hin. destruct (In_nth l a 0 Hin) as (i & Hi & Ha).
  exists i, (length l). rewrite app_length; cbn [length].
  rewrite app_nth1 by lia. rewrite app_nth2 by lia. rewrite Nat.sub_diag. cbn [nth].
  repeat split; auto; lia.
Qed.

Lemma NoDup_nth_inj (l : list nat) i j :
  NoDup l -> i < length l -> j < length l -> nth i l 0 = nth j l 0 -> i = j.
Proof. intros Hnd Hi Hj E. apply (proj1 (NoDup_nth l 0) Hnd i j Hi Hj E). Qed.

Lemma NoDup_app_snoc (l : list nat) x : NoDup l -> ~ In x l -> NoDup (l ++ [x]).
Proof.
  intros Hnd Hx. apply NoDup_rev in Hnd. rewrite <- (rev_involutive (l ++ [x])).
  apply NoDup_rev. rewrite rev_app_distr. cbn [rev app]. constructor; [|exact Hnd].
  rewrite <- in_rev. exact Hx.
Qed.

(* pigeonhole: a duplicate-free list of numbers below [n] that misses one has length < n *)
Lemma nodup_room (l : list nat) n q :
  NoDup l -> (forall x, In x l -> x < n) -> q < n -> ~ In q l -> length l < n.
Proof.
  intros Hnd Hlt Hq Hnin. destruct (Nat.lt_ge_cases (length l) n) as [H|H]; [exact H|].
  exfalso. apply Hnin.
  apply (NoDup_length_incl (l := l) (l' := seq 0 n) Hnd).
  - rewrite seq_length. exact H.
  - intros x Hx. apply in_seq. specialize (Hlt x Hx). lia.
  - apply in_seq. lia.
Qed.

Lemma nodup_full (l : list nat) n :
  NoDup l -> (forall x, In x l -> x < n) -> n <= length l -> forall q, q < n -> In q l.
Proof.
  intros Hnd Hlt Hlen q Hq.
  apply (NoDup_length_incl (l := l) (l' := seq 0 n) Hnd).
  - rewrite seq_length. exact Hlen.
  - intros x Hx. apply in_seq. specialize (Hlt x Hx). lia.
  - apply in_seq. lia.
Qed.

Lemma perm_seq (l : list nat) n :
  NoDup l -> (forall x, In x l -> x < n) -> (forall q, q < n -> In q l) -> Permutation l (seq 0 n).
Proof.
  intros Hnd Hlt Hall. apply NoDup_Permutation; [exact Hnd|apply seq_NoDup|].
  intros x. rewrite in_seq. split; [intros Hx; specialize (Hlt x Hx); lia|intros Hx; apply Hall; lia].
Qed.

(* invariant rule for a left fold over [seq 0 n] *)
Lemma fold_seq_inv {A} (f : A -> nat -> A) (P : nat -> A -> Prop) n :
  (forall k a, k < n -> P k a -> P (S k) (f a k)) ->
  forall a, P 0 a -> P n (fold_left f (seq 0 n) a).
Proof.
  intros Hstep.
  assert (G : forall m s a, s + m = n -> P s a -> P n (fold_left f (seq s m) a)).
  { induction m as [|m IH]; intros s a Hs Ha.
    - cbn. replace n with s by lia. exact Ha.
    - cbn [seq fold_left]. apply IH; [lia|]. apply Hstep; [lia|exact Ha]. }
  intros a Ha. apply G; [lia|exact Ha].
Qed.

Lemma wmax_Zmax a b : wmax Z.ltb a b = Z.max a b.
Proof. unfold wmax. destruct (Z.ltb_spec a b); lia. Qed.

(* ---------------- paths ---------------- *)
Open Scope Z_scope.

Lemma pathmax_ge w zero pi : zero <= pathmax w zero pi.
Proof.
  induction pi as [|a t IH]; [cbn; lia|].
  destruct t as [|b t]; [cbn; lia|].
  change (pathmax w zero (a :: b :: t)) with (Z.max (w a b) (pathmax w zero (b :: t))). lia.
Qed.

Lemma pathmax_snoc w zero pi q d : pi <> [] ->
  pathmax w zero (pi ++ [q]) = Z.max (pathmax w zero pi) (w (last pi d) q).
Proof.
  induction pi as [|a t IH]; [congruence|]. intros _.
  destruct t as [|b t].
  - cbn. lia.
  - change ((a :: b :: t) ++ [q]) with (a :: b :: (t ++ [q])).
    change (pathmax w zero (a :: b :: t ++ [q])) with
      (Z.max (w a b) (pathmax w zero ((b :: t) ++ [q]))).
    rewrite IH by congruence.
    change (pathmax w zero (a :: b :: t)) with (Z.max (w a b) (pathmax w zero (b :: t))).
    change (last (a :: b :: t) d) with (last (b :: t) d). lia.
Qed.

Lemma last_snoc {A} (l : list A) x d : last (l ++ [x]) d = x.
Proof. apply last_last. Qed.

Lemma last_cons_indep {A} (t : list A) b d d' : last (b :: t) d = last (b :: t) d'.
Proof.
  revert b; induction t as [|x t IHt]; intros b; [reflexivity|].
  change (last (x :: t) d = last (x :: t) d'). apply IHt.
Qed.

(* the certificate lemma: a cost function that is relaxed along every arc is a lower
   bound of the bottleneck value of every path *)
Lemma certificate_path (n : nat) (w : nat -> nat -> Z) (zero : Z) (c : nat -> Z) :
  (forall p q, (p < n)%nat -> (q < n)%nat -> p <> q -> c q <= Z.max (c p) (w p q)) ->
  forall pi a, Forall (fun v => (v < n)%nat) (a :: pi) ->
    c (last (a :: pi) a) <= Z.max (c a) (pathmax w zero (a :: pi)).
Proof.
  intros Hc. induction pi as [|b t IH]; intros a Hall.
  - cbn. lia.
  - change (last (a :: b :: t) a) with (last (b :: t) a).
    change (pathmax w zero (a :: b :: t)) with (Z.max (w a b) (pathmax w zero (b :: t))).
    inversion Hall as [|x l Ha Hrest]; subst.
    assert (Hb : (b < n)%nat) by (inversion Hrest; assumption).
    specialize (IH b Hrest).
    rewrite (last_cons_indep t b a b).
    destruct (Nat.eq_dec a b) as [->|Hne]; [lia|].
    pose proof (Hc a b Ha Hb Hne). lia.
Qed.
