(* C14 (order-only part): the arg-max loop of both KNN predicts, [knn_pick] of Model/Knn.v, at W := Z. *)
From Coq Require Import List Arith Bool ZArith Lia.
From OPF Require Import Base.Lists Model.Knn Proofs.Select.
Import ListNotations.

Lemma wmin_Z a b : wmin Z.ltb a b = Z.min a b.
Proof. unfold wmin. destruct (Z.ltb_spec b a); lia. Qed.

Section Pick.
  Variables zero top bot : Z.
  Variable g : @knn Z.
  Variable densx : Z.
  Variable ds : list Z.
  Variable ns : list nat.

  (* the value the loop compares for slot l *)
  Definition pval (l : nat) : Z := Z.min (nth (nth l ns 0) (k_cost g) zero) densx.
  Definition filled (l : nat) : Prop := nth l ds top <> top.

  Lemma pick_fold : forall len s best who,
    let r := fold_left (pick_step Z.ltb zero top g densx ds ns) (seq s len) (best, who) in
    ((forall l, s <= l -> l < s + len -> filled l -> (pval l <= best)%Z) /\ r = (best, who)) \/
    (exists l, s <= l /\ l < s + len /\ filled l /\ (best < pval l)%Z /\ r = (pval l, Some (nth l ns 0)) /\
       (forall l', s <= l' -> l' < s + len -> filled l' -> (pval l' <= pval l)%Z) /\
       (forall l', s <= l' -> l' < l -> filled l' -> (pval l' < pval l)%Z)).
  Proof.
    induction len as [|len IH]; intros s best who; cbn [seq fold_left].
    - left. split; [intros; lia|reflexivity].
    - cbn [pick_step]. rewrite weqb_Z, wmin_Z. fold (pval s).
      destruct (Z.eqb_spec (nth s ds top) top) as [Hempty|Hfilled].
      + destruct (IH (S s) best who) as [[Hall Hr]|(l & Hl1 & Hl2 & Hf & Hgt & Hr & Hmax & Hfirst)].
        * left. split; [|exact Hr]. intros l Hl1 Hl2 Hf.
          destruct (Nat.eq_dec l s) as [->|Hne]; [contradiction|]. apply Hall; [lia|lia|exact Hf].
        * right. exists l. split; [lia|]. split; [lia|]. split; [exact Hf|]. split; [exact Hgt|].
          split; [exact Hr|]. split; intros l' Hl'1 Hl'2 Hf'.
          -- destruct (Nat.eq_dec l' s) as [->|Hne]; [contradiction|]. apply Hmax; [lia|lia|exact Hf'].
          -- destruct (Nat.eq_dec l' s) as [->|Hne]; [contradiction|]. apply Hfirst; [lia|lia|exact Hf'].
      + destruct (Z.ltb_spec best (pval s)) as [Hlt|Hge].
        * destruct (IH (S s) (pval s) (Some (nth s ns 0)))
            as [[Hall Hr]|(l & Hl1 & Hl2 & Hf & Hgt & Hr & Hmax & Hfirst)].
          -- right. exists s. split; [lia|]. split; [lia|]. split; [exact Hfilled|]. split; [exact Hlt|].
             split; [exact Hr|]. split; intros l' Hl'1 Hl'2 Hf'; [|lia].
             destruct (Nat.eq_dec l' s) as [->|Hne]; [lia|]. apply Hall; [lia|lia|exact Hf'].
          -- right. exists l. split; [lia|]. split; [lia|]. split; [exact Hf|]. split; [lia|].
             split; [exact Hr|]. split; intros l' Hl'1 Hl'2 Hf'.
             ++ destruct (Nat.eq_dec l' s) as [->|Hne]; [lia|]. apply Hmax; [lia|lia|exact Hf'].
             ++ destruct (Nat.eq_dec l' s) as [->|Hne]; [lia|]. apply Hfirst; [lia|lia|exact Hf'].
        * destruct (IH (S s) best who) as [[Hall Hr]|(l & Hl1 & Hl2 & Hf & Hgt & Hr & Hmax & Hfirst)].
          -- left. split; [|exact Hr]. intros l Hl1 Hl2 Hf.
             destruct (Nat.eq_dec l s) as [->|Hne]; [lia|]. apply Hall; [lia|lia|exact Hf].
          -- right. exists l. split; [lia|]. split; [lia|]. split; [exact Hf|]. split; [exact Hgt|].
             split; [exact Hr|]. split; intros l' Hl'1 Hl'2 Hf'.
             ++ destruct (Nat.eq_dec l' s) as [->|Hne]; [lia|]. apply Hmax; [lia|lia|exact Hf'].
             ++ destruct (Nat.eq_dec l' s) as [->|Hne]; [lia|]. apply Hfirst; [lia|lia|exact Hf'].
  Qed.
End Pick.

(* the chosen neighbour sits in the FIRST non-empty slot maximising min(cost nb, dens x);
   nothing is chosen exactly when all k slots are empty *)
Theorem knn_pick_argmax : forall (zero top bot : Z) (g : @knn Z) (k : nat) (densx : Z) (ds : list Z) (ns : list nat),
  let val l := Z.min (nth (nth l ns 0) (k_cost g) zero) densx in
  (forall l, l < k -> nth l ds top <> top -> (bot < val l)%Z) ->
  ((forall l, l < k -> nth l ds top = top) /\ knn_pick Z.ltb zero top bot g k densx ds ns = None) \/
  (exists l, l < k /\ nth l ds top <> top /\
     knn_pick Z.ltb zero top bot g k densx ds ns = Some (nth l ns 0) /\
     (forall l', l' < k -> nth l' ds top <> top -> (val l' <= val l)%Z) /\
     (forall l', l' < l -> nth l' ds top <> top -> (val l' < val l)%Z)).
Proof.
  intros zero top bot g k densx ds ns val Hbot. unfold knn_pick.
  destruct (pick_fold zero top g densx ds ns k 0 bot None)
    as [[Hall Hr]|(l & Hl1 & Hl2 & Hf & Hgt & Hr & Hmax & Hfirst)].
  - left. rewrite Hr. split; [|reflexivity]. intros l Hl.
    destruct (Z.eq_dec (nth l ds top) top) as [E|Hne]; [exact E|exfalso].
    specialize (Hall l ltac:(lia) ltac:(lia) Hne). specialize (Hbot l Hl Hne). unfold pval in Hall. unfold val in Hbot. lia.
  - right. exists l. rewrite Hr. cbn [snd]. split; [lia|]. split; [exact Hf|]. split; [reflexivity|].
    split; intros l' Hl' Hf'; [apply Hmax|apply Hfirst]; auto; lia.
Qed.

Corollary knn_pick_none_iff : forall (zero top bot : Z) (g : @knn Z) (k : nat) (densx : Z) (ds : list Z) (ns : list nat),
  (forall l, l < k -> nth l ds top <> top -> (bot < Z.min (nth (nth l ns 0%nat) (k_cost g) zero) densx)%Z) ->
  (knn_pick Z.ltb zero top bot g k densx ds ns = None <-> forall l, l < k -> nth l ds top = top).
Proof.
  intros zero top bot g k densx ds ns Hbot.
  destruct (knn_pick_argmax zero top bot g k densx ds ns Hbot) as [[Hall Hr]|(l & Hl & Hf & Hr & _)].
  - tauto.
  - rewrite Hr. split; [discriminate|]. intros Hall. specialize (Hall l Hl). contradiction.
Qed.

(* slots: distances 2,2,5 then an empty slot; costs of the neighbours 7,9,9; density of x = 8:
   values 7,8,8 -> the first slot reaching 8 (neighbour 4) is taken *)
Example knn_pick_ex :
  let g := mkKnn [0;0;0;0;0;0] [] [] [] [] [1;7;3;9;9;2]%Z [] [] [] [] [] 0%Z 0 in
  knn_pick Z.ltb 0%Z 1000%Z (-1000)%Z g 4 8%Z [2;2;5;1000;1000]%Z [1;4;3;0;0] = Some 4.
Proof. vm_compute. reflexivity. Qed.

Example knn_pick_ex_empty :
  let g := mkKnn [] [] [] [] [] [] [] [] [] [] [] 0%Z 0 in
  knn_pick Z.ltb 0%Z 1000%Z (-1000)%Z g 2 8%Z [1000;1000;1000]%Z [0;0;0] = None.
Proof. vm_compute. reflexivity. Qed.
