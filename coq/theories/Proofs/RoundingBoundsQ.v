(* Relative-error calculus with quotients: [within2 u p q] (Model/MetricRdepthQ.v) is closed under
   multiplication, DIVISION, square, square root, rounding, sums and maxima of non-negative values.
   Side condition throughout: 0 <= u < 1. *)
From Coq Require Import Reals List Lra Lia Arith.
From OPF Require Import Spec.MetricSpec Model.MetricRnd Model.MetricRdepth Model.MetricRdepthQ Proofs.RoundingBounds.
Import ListNotations.
Open Scope R_scope.

Lemma inv_pow_own x n : x <> 0 -> / (x ^ n) = (/ x) ^ n.
Proof.
  intros H. induction n as [|n IH]; cbn [pow]; [apply Rinv_1|].
  rewrite Rinv_mult. now rewrite IH.
Qed.

Section Factors.
  Variable u : R.
  Hypothesis U0 : 0 <= u.
  Hypothesis U1 : u < 1.

  Lemma ib_ge1 : 1 <= / (1 - u).
  Proof. rewrite <- Rinv_1 at 1. apply Rinv_le_contravar; lra. Qed.
  Lemma ia_pos : 0 < / (1 + u).
  Proof. apply Rinv_0_lt_compat. lra. Qed.
  Lemma ia_le1 : / (1 + u) <= 1.
  Proof. rewrite <- Rinv_1. apply Rinv_le_contravar; lra. Qed.
  Lemma ib_mul : / (1 - u) * (1 - u) = 1.
  Proof. apply Rinv_l. lra. Qed.
  Lemma ia_mul : / (1 + u) * (1 + u) = 1.
  Proof. apply Rinv_l. lra. Qed.

  Lemma ibp_ge1 q : 1 <= (/ (1 - u)) ^ q.
  Proof. apply pow_R1_Rle. apply ib_ge1. Qed.
  Lemma iap_pos q : 0 < (/ (1 + u)) ^ q.
  Proof. apply pow_lt. apply ia_pos. Qed.
  Lemma iap_le1 q : (/ (1 + u)) ^ q <= 1.
  Proof.
    induction q as [|q IH]; cbn [pow]; [lra|]. pose proof ia_pos. pose proof ia_le1. pose proof (iap_pos q). nra.
  Qed.

  Lemma up_ge1 p q : 1 <= up_f u p q.
  Proof. unfold up_f. pose proof (pu_ge1 u p U0). pose proof (ibp_ge1 q). nra. Qed.

  Lemma lo_pos p q : 0 < lo_f u p q.
  Proof. unfold lo_f. apply Rmult_lt_0_compat; [apply (mu_pos u p U1) | apply iap_pos]. Qed.

  Lemma lo_le1 p q : lo_f u p q <= 1.
  Proof.
    unfold lo_f. pose proof (mu_pos u p U1). pose proof (mu_le1 u p U0 U1). pose proof (iap_pos q). pose proof (iap_le1 q). nra.
  Qed.

  Lemma up_mul p1 q1 p2 q2 : up_f u p1 q1 * up_f u p2 q2 = up_f u (p1 + p2) (q1 + q2).
  Proof. unfold up_f. rewrite !pow_add. ring. Qed.

  Lemma lo_mul p1 q1 p2 q2 : lo_f u p1 q1 * lo_f u p2 q2 = lo_f u (p1 + p2) (q1 + q2).
  Proof. unfold lo_f. rewrite !pow_add. ring. Qed.

  Lemma up_mono p q p' q' : (p <= p')%nat -> (q <= q')%nat -> up_f u p q <= up_f u p' q'.
  Proof.
    intros Lp Lq. replace p' with (p + (p' - p))%nat by lia. replace q' with (q + (q' - q))%nat by lia.
    rewrite <- up_mul. pose proof (up_ge1 p q). pose proof (up_ge1 (p' - p) (q' - q)). nra.
  Qed.

  Lemma lo_anti p q p' q' : (p <= p')%nat -> (q <= q')%nat -> lo_f u p' q' <= lo_f u p q.
  Proof.
    intros Lp Lq. replace p' with (p + (p' - p))%nat by lia. replace q' with (q + (q' - q))%nat by lia.
    rewrite <- lo_mul. pose proof (lo_pos p q). pose proof (lo_pos (p' - p) (q' - q)). pose proof (lo_le1 (p' - p) (q' - q)). nra.
  Qed.

  Lemma up_inv p q : / up_f u p q = lo_f u q p.
  Proof.
    unfold up_f, lo_f. pose proof (pu_pos u p U0). pose proof (ibp_ge1 q).
    rewrite Rinv_mult. rewrite (inv_pow_own (1 + u)) by lra. rewrite (inv_pow_own (/ (1 - u))).
    - rewrite Rinv_inv. ring.
    - apply Rinv_neq_0_compat. lra.
  Qed.

  Lemma lo_inv p q : / lo_f u p q = up_f u q p.
  Proof. rewrite <- (up_inv q p). apply Rinv_inv. Qed.

  Lemma lo_le_up p q : lo_f u p q <= up_f u p q.
  Proof. pose proof (lo_le1 p q). pose proof (up_ge1 p q). lra. Qed.

  (* the lower deviation never exceeds the upper one *)
  Lemma dev2 p q : 1 - lo_f u p q <= up_f u p q - 1.
  Proof.
    assert (G : 2 <= lo_f u p q + up_f u p q); [|lra].
    induction p as [|p IHp].
    - induction q as [|q IHq]; [unfold lo_f, up_f; cbn [pow]; lra|].
      pose proof (lo_le1 0 q) as L1. pose proof (up_ge1 0 q) as G1. pose proof (lo_pos 0 q) as L0.
      unfold lo_f, up_f in *. cbn [pow] in *. rewrite !Rmult_1_l in *.
      set (L := (/ (1 + u)) ^ q) in *. set (U := (/ (1 - u)) ^ q) in *.
      pose proof ib_ge1 as B1. pose proof ia_le1 as A1. pose proof ia_pos as A0. pose proof ib_mul as BM. pose proof ia_mul as AM.
      set (b := / (1 - u)) in *. set (a := / (1 + u)) in *.
      assert (Eb : b - 1 = u * b) by nra. assert (Ea : 1 - a = u * a) by nra.
      assert (X : a * L <= b * U) by nra.
      assert (Y : b * U - U = u * (b * U)) by nra. assert (Z : L - a * L = u * (a * L)) by nra.
      nra.
    - pose proof (lo_le_up p q) as LU. unfold lo_f, up_f in *. cbn [pow].
      set (L := (1 - u) ^ p * (/ (1 + u)) ^ q) in *. set (U := (1 + u) ^ p * (/ (1 - u)) ^ q) in *.
      replace ((1 - u) * (1 - u) ^ p * (/ (1 + u)) ^ q) with ((1 - u) * L) by (unfold L; ring).
      replace ((1 + u) * (1 + u) ^ p * (/ (1 - u)) ^ q) with ((1 + u) * U) by (unfold U; ring).
      nra.
  Qed.

  Lemma half_up_double' k : (k <= half_up k + half_up k)%nat.
  Proof. pose proof (half_up_double k). lia. Qed.

  Lemma sqrt_up p q : sqrt (up_f u p q) <= up_f u (half_up p) (half_up q).
  Proof.
    pose proof (up_ge1 (half_up p) (half_up q)) as G.
    rewrite <- (sqrt_square (up_f u (half_up p) (half_up q))) by lra.
    apply sqrt_le_1_alt. rewrite up_mul. apply up_mono; apply half_up_double'.
  Qed.

  Lemma sqrt_lo p q : lo_f u (half_up p) (half_up q) <= sqrt (lo_f u p q).
  Proof.
    pose proof (lo_pos (half_up p) (half_up q)) as G.
    rewrite <- (sqrt_square (lo_f u (half_up p) (half_up q))) at 1 by lra.
    apply sqrt_le_1_alt. rewrite lo_mul. apply lo_anti; apply half_up_double'.
  Qed.

  (* ---------- [within2] ---------- *)
  Local Notation W := (within2 u).

  Lemma w2_refl t : W 0 0 t t.
  Proof. exists 1. unfold lo_f, up_f. cbn [pow]. split; [ring | lra]. Qed.

  Lemma w2_0 t t' : W 0 0 t t' -> t' = t.
  Proof.
    intros [rho [E [L H]]]. unfold lo_f, up_f in *. cbn [pow] in *. subst. replace rho with 1 by lra. ring.
  Qed.

  Lemma w2_of_within k t t' : within u k t t' -> W k 0 t t'.
  Proof. intros [rho [E B]]. exists rho. unfold lo_f, up_f. cbn [pow]. rewrite !Rmult_1_r. auto. Qed.

  Lemma w2_weaken p q p' q' t t' : (p <= p')%nat -> (q <= q')%nat -> W p q t t' -> W p' q' t t'.
  Proof.
    intros Lp Lq [rho [E [L H]]]. exists rho. split; [exact E|]. split.
    - eapply Rle_trans; [apply (lo_anti p q p' q' Lp Lq) | exact L].
    - eapply Rle_trans; [exact H | apply (up_mono p q p' q' Lp Lq)].
  Qed.

  Lemma w2_rho_pos p q rho : lo_f u p q <= rho -> 0 < rho.
  Proof. intros H. pose proof (lo_pos p q). lra. Qed.

  Lemma w2_nonneg_elim p q t t' : 0 <= t -> W p q t t' -> lo_f u p q * t <= t' <= up_f u p q * t.
  Proof. intros Ht [rho [E [L H]]]. subst. split; nra. Qed.

  Lemma w2_nonneg_intro p q t t' : 0 <= t -> lo_f u p q * t <= t' <= up_f u p q * t -> W p q t t'.
  Proof.
    intros Ht [L H]. destruct (Req_dec t 0) as [E|NE].
    - subst. exists 1. split; [lra|]. split; [apply lo_le1 | apply up_ge1].
    - assert (Hp : 0 < t) by lra. exists (t' / t). split; [field; lra|]. split.
      + apply Rmult_le_reg_r with t; [exact Hp|]. unfold Rdiv. rewrite Rmult_assoc, Rinv_l by lra. lra.
      + apply Rmult_le_reg_r with t; [exact Hp|]. unfold Rdiv. rewrite Rmult_assoc, Rinv_l by lra. lra.
  Qed.

  Lemma w2_nonneg_val p q t t' : 0 <= t -> W p q t t' -> 0 <= t'.
  Proof. intros Ht [rho [E [L H]]]. subst. pose proof (w2_rho_pos p q rho L). nra. Qed.

  Lemma w2_nonzero p q t t' : t <> 0 -> W p q t t' -> t' <> 0.
  Proof. intros Ht [rho [E [L H]]]. subst. pose proof (w2_rho_pos p q rho L). nra. Qed.

  Lemma w2_abs p q t t' : W p q t t' -> Rabs (t' - t) <= (up_f u p q - 1) * Rabs t.
  Proof.
    intros [rho [E [L H]]]. subst. replace (t * rho - t) with (t * (rho - 1)) by ring.
    rewrite Rabs_mult, Rmult_comm. apply Rmult_le_compat_r; [apply Rabs_pos|].
    pose proof (dev2 p q). unfold Rabs. destruct (Rcase_abs (rho - 1)); lra.
  Qed.

  Lemma w2_abs_nonneg p q t t' : 0 <= t -> W p q t t' -> Rabs (t' - t) <= (up_f u p q - 1) * t.
  Proof. intros Ht H. pose proof (w2_abs p q t t' H) as A. rewrite (Rabs_pos_eq t Ht) in A. exact A. Qed.

  Lemma w2_combine p1 q1 p2 q2 r1 r2 :
    lo_f u p1 q1 <= r1 <= up_f u p1 q1 -> lo_f u p2 q2 <= r2 <= up_f u p2 q2 ->
    lo_f u (p1 + p2) (q1 + q2) <= r1 * r2 <= up_f u (p1 + p2) (q1 + q2).
  Proof.
    intros [L1 H1] [L2 H2]. rewrite <- lo_mul, <- up_mul.
    pose proof (lo_pos p1 q1). pose proof (lo_pos p2 q2). split; nra.
  Qed.

  Lemma w2_combine_r p1 q p2 r1 r2 :
    lo_f u p1 q <= r1 <= up_f u p1 q -> (1 - u) ^ p2 <= r2 <= (1 + u) ^ p2 ->
    lo_f u (p1 + p2) q <= r1 * r2 <= up_f u (p1 + p2) q.
  Proof.
    intros B1 B2. assert (B2' : lo_f u p2 0 <= r2 <= up_f u p2 0).
    { unfold lo_f, up_f. cbn [pow]. rewrite !Rmult_1_r. exact B2. }
    pose proof (w2_combine p1 q p2 0 r1 r2 B1 B2') as X. rewrite Nat.add_0_r in X. exact X.
  Qed.

  Section Rnd.
    Variable rnd : R -> R.
    Hypothesis REL : rnd_rel u rnd.

    Lemma w2_rnd p q t t' : W p q t t' -> W (S p) q t (rnd t').
    Proof.
      intros [rho [E B]]. destruct (REL t') as [d [Hd Er]]. apply Rabs_le_inv in Hd.
      exists (rho * (1 + d)). split; [rewrite Er, E; ring|].
      replace (S p) with (p + 1)%nat by lia.
      apply (w2_combine_r p q 1); [exact B|]. cbn [pow]. lra.
    Qed.
  End Rnd.

  Lemma w2_mul p1 q1 p2 q2 a a' b b' : W p1 q1 a a' -> W p2 q2 b b' -> W (p1 + p2) (q1 + q2) (a * b) (a' * b').
  Proof.
    intros [r1 [E1 B1]] [r2 [E2 B2]]. exists (r1 * r2). split; [subst; ring|]. now apply (w2_combine p1 q1 p2 q2).
  Qed.

  Lemma w2_sq p q a a' : W p q a a' -> W (2 * p) (2 * q) (a ^ 2) (a' ^ 2).
  Proof.
    intros H. replace (a ^ 2) with (a * a) by ring. replace (a' ^ 2) with (a' * a') by ring.
    replace (2 * p)%nat with (p + p)%nat by lia. replace (2 * q)%nat with (q + q)%nat by lia. now apply w2_mul.
  Qed.

  Lemma w2_opp p q a a' : W p q a a' -> W p q (- a) (- a').
  Proof. intros [r [E B]]. exists r. split; [subst; ring | exact B]. Qed.

  Lemma w2_abs_val p q a a' : W p q a a' -> W p q (Rabs a) (Rabs a').
  Proof.
    intros [r [E [L H]]]. exists r. split; [|split; assumption]. subst.
    rewrite Rabs_mult. f_equal. apply Rabs_pos_eq. pose proof (w2_rho_pos p q r L). lra.
  Qed.

  (* the quotient: the divisor's bounds are inverted *)
  Lemma w2_div p1 q1 p2 q2 a a' b b' :
    b <> 0 -> W p1 q1 a a' -> W p2 q2 b b' -> W (p1 + q2) (q1 + p2) (a / b) (a' / b').
  Proof.
    intros Hb [r1 [E1 B1]] [r2 [E2 [L2 H2]]]. pose proof (w2_rho_pos p2 q2 r2 L2) as R2.
    exists (r1 * / r2). split; [subst; field; lra|].
    apply (w2_combine p1 q1 q2 p2); [exact B1|]. rewrite <- (up_inv p2 q2), <- (lo_inv p2 q2).
    pose proof (lo_pos p2 q2). split; apply Rinv_le_contravar; lra.
  Qed.

  Lemma w2_sqrt p q a a' : 0 <= a -> W p q a a' -> W (half_up p) (half_up q) (sqrt a) (sqrt a').
  Proof.
    intros Ha [r [E [L H]]]. pose proof (w2_rho_pos p q r L) as Rp.
    exists (sqrt r). split; [subst; apply sqrt_mult; lra|]. split.
    - eapply Rle_trans; [apply sqrt_lo|]. now apply sqrt_le_1_alt.
    - eapply Rle_trans; [|apply sqrt_up]. now apply sqrt_le_1_alt.
  Qed.

  Lemma w2_add_nonneg p1 q1 p2 q2 a a' b b' :
    0 <= a -> 0 <= b -> W p1 q1 a a' -> W p2 q2 b b' -> W (Nat.max p1 p2) (Nat.max q1 q2) (a + b) (a' + b').
  Proof.
    intros Ha Hb H1 H2.
    apply (w2_weaken p1 q1 (Nat.max p1 p2) (Nat.max q1 q2)) in H1; [|lia|lia].
    apply (w2_weaken p2 q2 (Nat.max p1 p2) (Nat.max q1 q2)) in H2; [|lia|lia].
    apply (w2_nonneg_elim _ _ _ _ Ha) in H1. apply (w2_nonneg_elim _ _ _ _ Hb) in H2.
    apply w2_nonneg_intro; lra.
  Qed.

  Lemma w2_Rmax p q a a' b b' : 0 <= a -> 0 <= b -> W p q a a' -> W p q b b' -> W p q (Rmax a b) (Rmax a' b').
  Proof.
    intros Ha Hb H1 H2.
    apply (w2_nonneg_elim _ _ _ _ Ha) in H1. apply (w2_nonneg_elim _ _ _ _ Hb) in H2.
    pose proof (lo_pos p q). pose proof (up_ge1 p q).
    apply w2_nonneg_intro.
    - unfold Rmax. destruct (Rle_dec a b); lra.
    - unfold Rmax. destruct (Rle_dec a b); destruct (Rle_dec a' b'); split; try lra; nra.
  Qed.

  Lemma w2_Rmin p q a a' b b' : 0 <= a -> 0 <= b -> W p q a a' -> W p q b b' -> W p q (Rmin a b) (Rmin a' b').
  Proof.
    intros Ha Hb H1 H2.
    apply (w2_nonneg_elim _ _ _ _ Ha) in H1. apply (w2_nonneg_elim _ _ _ _ Hb) in H2.
    pose proof (lo_pos p q). pose proof (up_ge1 p q).
    apply w2_nonneg_intro.
    - unfold Rmin. destruct (Rle_dec a b); lra.
    - unfold Rmin. destruct (Rle_dec a b); destruct (Rle_dec a' b'); split; try lra; nra.
  Qed.

  (* ---------- lists ---------- *)
  Lemma sum_w2 p q l l' : Forall2 (W p q) l l' -> Forall (fun t => 0 <= t) l -> W p q (sum l) (sum l').
  Proof.
    intros H2 HN. apply w2_nonneg_intro; [now apply sum_nonneg|].
    induction H2 as [|a a' l l' Ha Hl IH]; [unfold sum; cbn; lra|].
    inversion HN as [|a0 l0 Na Nl]; subst. rewrite !rb_sum_cons.
    pose proof (w2_nonneg_elim _ _ _ _ Na Ha). specialize (IH Nl). lra.
  Qed.

  Lemma Forall2_w2_nonneg p q l l' :
    Forall2 (W p q) l l' -> Forall (fun t => 0 <= t) l -> Forall (fun t => 0 <= t) l'.
  Proof.
    induction 1 as [|a a' l l' Ha Hl IH]; intros HN; [constructor|].
    inversion HN as [|a0 l0 Na Nl]; subst. constructor; [now apply (w2_nonneg_val p q a) | now apply IH].
  Qed.

  Lemma rsum_w2 rnd p q l l' :
    rnd_rel u rnd -> Forall2 (W p q) l l' -> Forall (fun t => 0 <= t) l ->
    W (p + Nat.pred (length l)) q (sum l) (rsum rnd l').
  Proof.
    intros REL H2 HN.
    assert (HL : length l' = length l) by (symmetry; eapply Forall2_len; exact H2).
    pose proof (sum_w2 p q l l' H2 HN) as [r1 [E1 B1]].
    pose proof (rsum_within u U0 U1 rnd REL l' (Forall2_w2_nonneg p q l l' H2 HN)) as R. rewrite HL in R.
    pose proof R as R'.
    destruct R' as [r2 [E2 B2]].
    exists (r1 * r2). split; [rewrite E2, E1; ring|]. now apply (w2_combine_r p q).
  Qed.

  Lemma lmax_w2 p q l l' : Forall2 (W p q) l l' -> Forall (fun t => 0 <= t) l -> W p q (lmax l) (lmax l').
  Proof.
    intros H2 HN. destruct H2 as [|a a' l l' Ha Hl].
    - cbn [lmax]. apply (w2_weaken 0 0); [lia | lia | apply w2_refl].
    - inversion HN as [|a0 l0 Na Nl]; subst. clear HN. cbn [lmax]. revert a a' Ha Na.
      induction Hl as [|e e' l l' He Hl IH]; intros a a' Ha Na; cbn [fold_left]; [exact Ha|].
      inversion Nl as [|e0 l0 Ne Nl']; subst. apply IH; [exact Nl'| |].
      + now apply w2_Rmax.
      + unfold Rmax. destruct (Rle_dec a e); lra.
  Qed.

  Lemma Forall2_w2_0_eq l l' : Forall2 (W 0 0) l l' -> l' = l.
  Proof. induction 1 as [|a a' l l' Ha Hl IH]; [reflexivity|]. rewrite (w2_0 _ _ Ha), IH. reflexivity. Qed.
End Factors.
