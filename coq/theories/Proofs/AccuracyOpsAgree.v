(* The two NumOps-generic transcriptions of opf_accuracy - [opf_accuracy_ops] (Model/LearnFullFloat.v, used by the
   learn loop of C17) and [accuracy_F] (Model/KnnLearn.v, used by C16 and by Props/C20_rounding.v) - are the same
   function for every interpretation of the numeric record when there are fewer than 8 classes (numpy's np.sum is
   then the plain loop in both; above, the two files transcribe numpy's pairwise summation with different
   bookkeeping and the comparison is not made here). *)
From Coq Require Import List Arith ZArith Lia.
From OPF Require Model.Measures Model.LearnFullFloat Proofs.MeasuresCount.
From OPF Require Import Model.KnnFit Model.KnnLearn Base.NumOps.
Import ListNotations.

Module MC := OPF.Proofs.MeasuresCount.
Module LF := OPF.Model.LearnFullFloat.

Lemma lf_np_sum_small {F} (O : NumOps F) (l : list F) : length l < 8 ->
  LF.np_sum O l = fold_left (nadd O) l (LF.f0 O).
Proof.
  intros H. unfold LF.np_sum. cbn [LF.pairwise_sum]. apply Nat.ltb_lt in H. rewrite H. reflexivity.
Qed.

Lemma kl_np_sum_small {F} (O : NumOps F) (l : list F) : length l < 8 ->
  np_sum O l = fold_left (nadd O) l (fzero O).
Proof.
  intros H. unfold np_sum. apply Nat.ltb_lt in H.
  destruct (length l) as [|n] eqn:E; cbn [pairwise_sum]; rewrite E, H; reflexivity.
Qed.

Theorem opf_accuracy_ops_accuracy_F {F} (O : NumOps F) labels preds :
  Measures.n_class labels < 8 ->
  LF.opf_accuracy_ops O labels preds = accuracy_F O labels preds.
Proof.
  intros HK. unfold LF.opf_accuracy_ops, accuracy_F.
  rewrite MC.errors_FP_FN. cbn [fst snd]. rewrite MC.sum_counts.
  unfold Measures.bincount at 1 2. rewrite !MC.zipw_map.
  set (K := Measures.n_class labels) in *.
  assert (E : forall f g : nat -> F, (forall c, c < K -> f c = g c) -> map f (seq 0 K) = map g (seq 0 K)).
  { intros f g H. apply map_ext_in. intros c Hc. apply in_seq in Hc. apply H. lia. }
  rewrite lf_np_sum_small, kl_np_sum_small by (rewrite map_length, seq_length; exact HK).
  unfold LF.fnat, ofnat, LF.f0, fzero. f_equal. f_equal. f_equal.
  apply E. intros c Hc.
  rewrite !(MC.nth_map_seq _ K c 0 Hc).
  unfold Measures.bincount. fold K. rewrite !(MC.nth_map_seq _ K c 0 Hc). reflexivity.
Qed.
