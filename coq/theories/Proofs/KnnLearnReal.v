(* Facts about Model/KnnLearn.v that are specific to the real-number interpretation [ROps]:

     - the exact-zero test of the unsupervised candidate loop is the comparison-based equality of Knn.cut_select;
     - the arg-max fold of KNNSupervisedOPF._learn on ANY list of reals (no sign hypothesis): either some
       candidate beats the initial max_acc = 0 and the kept one is the first maximum, or none does and the
       initial best_k = 1 survives;
     - the normalised cut lies in [0, n_clusters]. *)
From Coq Require Import Reals List Arith Bool ZArith Lia Lra.
From OPF Require Import Base.Lists Base.NumOps Model.Heap Model.Knn Model.Pdf Model.KnnFit Model.KnnLearn
  Proofs.PdfBase Proofs.KnnScan Proofs.KnnLearnFrame Proofs.KnnLearnStages Proofs.KnnLearnLoop.
Import ListNotations.
Local Open Scope R_scope.

Lemma weqb_Rltb a b : Reqb a b = weqb Rltb a b.
Proof.
  unfold weqb, Reqb, Rltb. destruct (Req_EM_T a b), (Rlt_dec a b), (Rlt_dec b a); cbn; try reflexivity; lra.
Qed.

Lemma ROps_eq_weqb : forall a b, neqb ROps a b = weqb (nltb ROps) a b.
Proof. exact weqb_Rltb. Qed.

(* ---------------- the arg-max fold ---------------- *)

Lemma ksel_fold_R : forall (l : list R) (s : nat) (mx : R) (b : option nat),
  let r := fold_left (ksel_step ROps) (combine (seq s (length l)) l) (mx, b) in
  ((forall a, In a l -> a <= mx) /\ r = (mx, b)) \/
  (exists i, (i < length l)%nat /\ mx < nth i l 0 /\ r = (nth i l 0, Some (s + i)%nat) /\
     (forall j, (j < length l)%nat -> nth j l 0 <= nth i l 0) /\
     (forall j, (j < i)%nat -> nth j l 0 < nth i l 0)).
Proof.
  induction l as [|a l IH]; intros s mx b; cbn [length seq combine fold_left].
  - left; split; [intros a []|reflexivity].
  - cbn [ksel_step snd fst]. change (nltb ROps mx a) with (Rltb mx a). unfold Rltb.
    destruct (Rlt_dec mx a) as [Hlt|Hge].
    + destruct (IH (S s) a (Some s)) as [[Hall Hr]|(i & Hi & Hgt & Hr & Hmax & Hfirst)].
      * right; exists 0%nat; cbn [nth length].
        split; [lia|]. split; [lra|]. split; [rewrite Hr; f_equal; f_equal; lia|].
        split; [|intros j Hj; lia].
        intros [|j] Hj; cbn [nth]; [lra|]. apply Hall, nth_In; lia.
      * right; exists (S i); cbn [nth length].
        split; [lia|]. split; [lra|]. split; [rewrite Hr; f_equal; f_equal; lia|].
        split.
        -- intros [|j] Hj; cbn [nth]; [lra|]. apply Hmax; lia.
        -- intros [|j] Hj; cbn [nth]; [lra|]. apply Hfirst; lia.
    + destruct (IH (S s) mx b) as [[Hall Hr]|(i & Hi & Hgt & Hr & Hmax & Hfirst)].
      * left; split; [|exact Hr]. intros x [<-|Hx]; [lra|auto].
      * right; exists (S i); cbn [nth length].
        split; [lia|]. split; [lra|]. split; [rewrite Hr; f_equal; f_equal; lia|].
        split.
        -- intros [|j] Hj; cbn [nth]; [lra|]. apply Hmax; lia.
        -- intros [|j] Hj; cbn [nth]; [lra|]. apply Hfirst; lia.
Qed.

(* [knn_select] on any list of reals: candidate k has accuracy [nth (k-1) accs 0] *)
Theorem knn_select_R (accs : list R) (best : nat) :
  knn_select Rltb 0 accs = Some best ->
  ((1 <= best <= length accs)%nat /\ 0 < nth (best - 1) accs 0 /\
   (forall k, (1 <= k <= length accs)%nat -> nth (k - 1) accs 0 <= nth (best - 1) accs 0) /\
   (forall k, (1 <= k < best)%nat -> nth (k - 1) accs 0 < nth (best - 1) accs 0)) \/
  (best = 1%nat /\ forall k, (1 <= k <= length accs)%nat -> nth (k - 1) accs 0 <= 0).
Proof.
  intros H. change (knn_select Rltb 0 accs) with (knn_select (nltb ROps) (fzero ROps) accs) in H.
  rewrite knn_select_fold in H.
  change (fzero ROps) with 0 in H.
  destruct (ksel_fold_R accs 1 0 (Some 1%nat)) as [[Hall Hr]|(i & Hi & Hgt & Hr & Hmax & Hfirst)];
    cbv zeta in Hr; rewrite Hr in H; cbn [snd] in H; injection H as <-.
  - right. split; [reflexivity|]. intros k Hk. apply Hall, nth_In. lia.
  - left. change (1 + i)%nat with (S i). replace (S i - 1)%nat with i by lia.
    split; [lia|]. split; [exact Hgt|]. split.
    + intros k Hk. apply Hmax. lia.
    + intros k Hk. apply Hfirst. lia.
Qed.

(* ---------------- the normalised cut ---------------- *)

Definition all_nonneg (v : list R) : Prop := forall l, 0 <= nth l v 0.

Lemma all_nonneg_repeat m : all_nonneg (repeat 0 m).
Proof. intros l. rewrite nth_repeat_same. lra. Qed.

Lemma all_nonneg_upd v i x : all_nonneg v -> 0 <= x -> all_nonneg (upd v i x).
Proof.
  intros Hv Hx l. rewrite nth_upd. destruct (Nat.eqb i l); [destruct (Nat.ltb i (length v))|]; auto.
Qed.

Lemma cut_arc_nonneg d (g : @knn R) i st j :
  all_nonneg (fst st) -> all_nonneg (snd st) ->
  all_nonneg (fst (cut_arc ROps d g i st j)) /\ all_nonneg (snd (cut_arc ROps d g i st j)).
Proof.
  destruct st as [int ext]. cbn [fst snd]. intros Hi He. unfold cut_arc. rops. change (fzero ROps) with 0.
  unfold Rltb. destruct (Rlt_dec 0 (d i j)) as [Hd|Hd]; [|now split].
  assert (Hinv : 0 <= 1 / d i j).
  { unfold Rdiv. rewrite Rmult_1_l. left. now apply Rinv_0_lt_compat. }
  destruct (Nat.eqb (nth i (k_clabel g) 0%nat) (nth j (k_clabel g) 0%nat)); cbn [fst snd]; split; auto;
    apply all_nonneg_upd; auto.
  - specialize (Hi (nth i (k_clabel g) 0%nat)). lra.
  - specialize (He (nth i (k_clabel g) 0%nat)). lra.
Qed.

Lemma cut_sums_nonneg k d (g : @knn R) :
  all_nonneg (fst (cut_sums ROps k d g)) /\ all_nonneg (snd (cut_sums ROps k d g)).
Proof.
  unfold cut_sums. change (fzero ROps) with 0.
  assert (Hin : forall i l st, all_nonneg (fst st) -> all_nonneg (snd st) ->
            all_nonneg (fst (fold_left (cut_arc ROps d g i) l st)) /\
            all_nonneg (snd (fold_left (cut_arc ROps d g i) l st))).
  { intros i l. induction l as [|j l IH]; intros st H1 H2; cbn [fold_left]; [now split|].
    destruct (cut_arc_nonneg d g i st j H1 H2) as [A B]. now apply IH. }
  generalize (seq 0 (length (k_label g))). intros L.
  assert (Hout : forall st, all_nonneg (fst st) -> all_nonneg (snd st) ->
            all_nonneg (fst (fold_left (fun st i => fold_left (cut_arc ROps d g i)
                               (firstn (nth i (k_nplat g) 0%nat + k) (nth i (k_adj g) [])) st) L st)) /\
            all_nonneg (snd (fold_left (fun st i => fold_left (cut_arc ROps d g i)
                               (firstn (nth i (k_nplat g) 0%nat + k) (nth i (k_adj g) [])) st) L st))).
  { induction L as [|i L IH]; intros st H1 H2; cbn [fold_left]; [now split|].
    destruct (Hin i (firstn (nth i (k_nplat g) 0%nat + k) (nth i (k_adj g) [])) st H1 H2) as [A B]. now apply IH. }
  apply Hout; cbn [fst snd]; apply all_nonneg_repeat.
Qed.

Lemma cut_term_bounds int ext cut l :
  all_nonneg int -> all_nonneg ext -> cut <= cut_term ROps int ext cut l <= cut + 1.
Proof.
  intros Hi He. unfold cut_term. rops. change (fzero ROps) with 0. unfold Rltb.
  specialize (Hi l). specialize (He l).
  destruct (Rlt_dec 0 (nth l int 0 + nth l ext 0)) as [Hs|Hs]; [|lra].
  assert (H01 : 0 <= nth l ext 0 / (nth l int 0 + nth l ext 0) <= 1).
  { split.
    - unfold Rdiv. apply Rmult_le_pos; [exact He|]. left. now apply Rinv_0_lt_compat.
    - apply (Rmult_le_reg_r (nth l int 0 + nth l ext 0)); [exact Hs|].
      unfold Rdiv. rewrite Rmult_assoc, Rinv_l by lra. lra. }
  lra.
Qed.

Theorem normalized_cut_bounds k d (g : @knn R) :
  0 <= normalized_cut ROps k d g <= INR (k_nclusters g).
Proof.
  unfold normalized_cut. destruct (cut_sums_nonneg k d g) as [Hi He].
  destruct (cut_sums ROps k d g) as [int ext]. cbn [fst snd] in Hi, He. change (fzero ROps) with 0.
  assert (H : forall L acc, acc <= fold_left (cut_term ROps int ext) L acc <= acc + INR (length L)).
  { induction L as [|l L IH]; intros acc; cbn [fold_left length]; [cbn [INR]; lra|].
    rewrite S_INR. specialize (IH (cut_term ROps int ext acc l)).
    pose proof (cut_term_bounds int ext acc l Hi He). lra. }
  specialize (H (seq 0 (k_nclusters g)) 0). rewrite seq_length in H. lra.
Qed.
