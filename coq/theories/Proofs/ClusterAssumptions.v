(* Assumption audit of the C13 development: every line must print
   "Closed under the global context". *)
From OPF Require Import Proofs.HeapPrelude Model.Heap Model.Knn Proofs.ClusterBase
  Proofs.ClusterLoop Proofs.ClusterMain Proofs.ClusterExample Props.C13 Props.C04_knn.

Print Assumptions run_inv.
Print Assumptions run_final.
Print Assumptions heap_use_valid.
Print Assumptions final_forest.
Print Assumptions final_ids.
Print Assumptions cluster_order.
Print Assumptions cluster_links.
Print Assumptions cluster_forest.
Print Assumptions cluster_density_gap.
Print Assumptions cluster_ids.
Print Assumptions C13_sup_order.
Print Assumptions C13_sup_links.
Print Assumptions C13_sup_forest.
Print Assumptions C13_sup_density_gap.
Print Assumptions C13_unsup_order.
Print Assumptions C13_unsup_links.
Print Assumptions C13_unsup_forest.
Print Assumptions C13_unsup_density_gap.
Print Assumptions C13_unsup_ids.
Print Assumptions C13_propagate_labels_spec.
Print Assumptions C13_propagate_labels_root.
Print Assumptions C04_knn_train_labels_own.
Print Assumptions ex_forest_sup.
Print Assumptions ex_labels_own.
Print Assumptions ex_gap_unsup.
Print Assumptions ex_propagate.
