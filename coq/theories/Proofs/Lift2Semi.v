(* C15 for an arbitrary strict total order.

   The semi-supervised competition theorem of FitSup.v ([compete_true_opf], at W := Z) is lifted
   to any weight type [W] with a strict total order [ltb] exactly as C01 was in LiftSup.v:
   clip the weights below [n], rank-encode the finite set of values that occur, run the
   Z-theorem on the ranked instance (related to the W-run by [rescale_compete_on], i.e. the
   abstraction theorem [param_compete]) and pull every conjunct back along the rank map.  The
   conjuncts that mention weights are those of C01 and are pulled back by
   [LiftSup.opf_transfer]; the label clauses only mention [n_label], [n_plabel], [n_pred],
   [n_status], which [map_nodes] leaves untouched.

   [semi_fit_anyorder] is then derived from [compete_true_anyorder] at W, by the argument of
   Semi.semi_fit_opf. *)
From Coq Require Import List Arith Bool ZArith Lia Permutation.
From OPF Require Import Base.Lists Base.TotalOrder Model.Heap Model.Sup Spec.Paths.
From OPF Require Import Proofs.ParamBase Proofs.ParamSup Proofs.Rescale Proofs.WeightsExtBounded
  Proofs.OrderEmbed Proofs.FitBase Proofs.Fit Proofs.FitSup Proofs.Semi Proofs.LiftSup
  Proofs.LiftInst Proofs.FitExample.
Import ListNotations.
Close Scope Z_scope.

(* the statement of C15_compete_semi_optimum_path_forest at (W, ltb) *)
Definition semi_spec_W {W} (ltb : W -> W -> bool) (nl n : nat) (w : nat -> nat -> W) (zero : W)
           (nd : @nodes W) (isproto : nat -> Prop) (lab0 : list nat) : Prop :=
  let cost q := nth q (n_cost nd) zero in
  let pred q := nth q (n_pred nd) None in
  let plabel q := nth q (n_plabel nd) 0 in
  let label q := nth q (n_label nd) 0 in
  Permutation (n_order nd) (seq 0 n) /\
  (forall i j, i < j -> j < n ->
     ltb (cost (nth j (n_order nd) 0)) (cost (nth i (n_order nd) 0)) = false) /\
  (forall q, q < n -> isproto q ->
     pred q = None /\ cost q = zero /\ plabel q = nth q lab0 0 /\ label q = nth q lab0 0) /\
  (forall q, q < n -> ~ isproto q ->
     exists p, pred q = Some p /\ p < n /\ p <> q /\
       cost q = wmax ltb (cost p) (w p q) /\ plabel q = plabel p /\ before (n_order nd) p q) /\
  (forall q, q < n ->
     exists r k, r < n /\ isproto r /\ reaches pred q r k /\ pred r = None /\
       k < n /\ plabel q = nth r lab0 0 /\ (nl <= q -> label q = nth r lab0 0)) /\
  (forall q s pi, q < n -> s < n -> isproto s -> path_from_to n s q pi ->
     ltb (pathmaxW ltb w zero pi) (cost q) = false) /\
  (forall q, q < n -> exists s pi, s < n /\ isproto s /\ path_from_to n s q pi /\
     pathmaxW ltb w zero pi = cost q) /\
  (forall q, q < n -> q < nl -> label q = nth q lab0 0).

Section Lifted.
  Context {W : Type} (ltb : W -> W -> bool).
  Hypothesis O : strict_total_order ltb.

  Lemma compete_true_anyorder_full (zero top : W) (nl n : nat) (w : nat -> nat -> W) (nd0 : @nodes W) :
    let isproto q := nth q (n_status nd0) false = true in
    ltb zero top = true ->
    (forall p q, p < n -> q < n -> p <> q -> ltb (w p q) zero = false /\ ltb (w p q) top = true) ->
    length (n_cost nd0) = n -> length (n_pred nd0) = n -> length (n_label nd0) = n ->
    length (n_plabel nd0) = n -> n_order nd0 = [] ->
    (exists s, s < n /\ isproto s) ->
    let nd := compete ltb zero top true nl n w nd0 in
    semi_spec_W ltb nl n w zero nd isproto (n_label nd0) /\ n_status nd = n_status nd0.
  Proof.
    intros isproto Hzt Hw L1 L2 L3 L4 L5 Hproto nd.
    set (vals := zero :: top :: n_cost nd0 ++ weight_vals n w).
    set (r := rk ltb vals).
    set (wc := clip2 n zero w).
    assert (Hz : In zero vals) by now left.
    assert (Ht : In top vals) by (right; now left).
    assert (Hwv : forall p q, p < n -> q < n -> In (w p q) vals).
    { intros p q Hp Hq. right; right. apply in_or_app. right. now apply weight_vals_in. }
    assert (Hwc : forall p q, In (wc p q) vals) by (intros p q; now apply clip2_in).
    assert (Hnd0 : Forall (fun a => In a vals) (n_cost nd0)).
    { apply Forall_forall. intros a Ha. right; right. apply in_or_app. now left. }
    assert (Hext : nd = compete ltb zero top true nl n wc nd0).
    { apply compete_ext_bounded. intros p q Hp Hq. symmetry. now apply clip2_below. }
    destruct (rescale_compete_on (fun a => In a vals) r ltb Z.ltb (rk_ltb ltb O vals)
                zero top true nl n wc nd0 Hz Ht Hwc Hnd0) as [Hc E].
    rewrite <- Hext in Hc, E.
    pose proof (compete_true_opf (r zero) (r top) nl n (fun p q => r (wc p q)) (map_nodes r nd0)) as HZ.
    cbv zeta in HZ.
    specialize (HZ (proj2 (rk_lt_iff ltb O vals zero top Hz Ht) Hzt)).
    assert (L1' : length (n_cost (map_nodes r nd0)) = n)
      by (unfold map_nodes; cbn [n_cost]; now rewrite map_length).
    assert (Hb : forall p q, p < n -> q < n -> p <> q -> (r zero <= r (wc p q) < r top)%Z).
    { intros p q Hp Hq Hpq. unfold wc. rewrite clip2_below by assumption.
      destruct (Hw p q Hp Hq Hpq) as [B1 B2]. split.
      - exact (proj2 (rk_le_iff ltb O vals _ _ Hz (Hwv p q Hp Hq)) B1).
      - exact (proj2 (rk_lt_iff ltb O vals _ _ (Hwv p q Hp Hq) Ht) B2). }
    specialize (HZ Hb L1' L2 L3 L4 L5 Hproto). rewrite E in HZ.
    destruct HZ as (A1 & A2 & A3 & A4 & A5 & A6 & A7 & K & S).
    split; [|exact S].
    (* the weight-dependent conjuncts, through the C01 transfer *)
    assert (T : opf_spec_W ltb n w zero nd isproto (n_label nd0)).
    { apply (opf_transfer ltb O vals n w (fun p q => r (wc p q))); auto.
      - intros p q Hp Hq. unfold wc. now rewrite clip2_below.
      - split; [exact A1|]. split; [exact A2|]. split; [|split; [exact A4|split; [|split; [exact A6|exact A7]]]].
        + intros q Hq Hp. destruct (A3 q Hq Hp) as (B1 & B2 & B3 & _). now repeat split.
        + intros q Hq. destruct (A5 q Hq) as (s & k & B1 & B2 & B3 & B4 & B5 & B6 & _).
          exists s, k. now repeat split. }
    destruct T as (T1 & T2 & T3 & T4 & _ & T6 & T7).
    unfold map_nodes in A3, A5, K. cbn [n_pred n_label n_plabel] in A3, A5, K.
    unfold semi_spec_W. cbv zeta.
    split; [exact T1|]. split; [exact T2|].
    split; [|split; [exact T4|split; [exact A5|split; [exact T6|split; [exact T7|exact K]]]]].
    intros q Hq Hp. destruct (T3 q Hq Hp) as (B1 & B2 & B3).
    destruct (A3 q Hq Hp) as (_ & _ & _ & B4). now repeat split.
  Qed.

  Theorem compete_true_anyorder (zero top : W) (nl n : nat) (w : nat -> nat -> W) (nd0 : @nodes W) :
    let isproto q := nth q (n_status nd0) false = true in
    ltb zero top = true ->
    (forall p q, p < n -> q < n -> p <> q -> ltb (w p q) zero = false /\ ltb (w p q) top = true) ->
    length (n_cost nd0) = n -> length (n_pred nd0) = n -> length (n_label nd0) = n ->
    length (n_plabel nd0) = n -> n_order nd0 = [] ->
    (exists s, s < n /\ isproto s) ->
    let nd := compete ltb zero top true nl n w nd0 in
    let cost q := nth q (n_cost nd) zero in
    let pred q := nth q (n_pred nd) None in
    let plabel q := nth q (n_plabel nd) 0 in
    let label q := nth q (n_label nd) 0 in
    Permutation (n_order nd) (seq 0 n) /\
    (forall i j, i < j -> j < n ->
       ltb (cost (nth j (n_order nd) 0)) (cost (nth i (n_order nd) 0)) = false) /\
    (forall q, q < n -> isproto q ->
       pred q = None /\ cost q = zero /\ plabel q = nth q (n_label nd0) 0 /\
       label q = nth q (n_label nd0) 0) /\
    (forall q, q < n -> ~ isproto q ->
       exists p, pred q = Some p /\ p < n /\ p <> q /\
         cost q = wmax ltb (cost p) (w p q) /\ plabel q = plabel p /\ before (n_order nd) p q) /\
    (forall q, q < n ->
       exists r k, r < n /\ isproto r /\ reaches pred q r k /\ pred r = None /\
         k < n /\ plabel q = nth r (n_label nd0) 0 /\
         (nl <= q -> label q = nth r (n_label nd0) 0)) /\
    (forall q s pi, q < n -> s < n -> isproto s -> path_from_to n s q pi ->
       ltb (pathmaxW ltb w zero pi) (cost q) = false) /\
    (forall q, q < n -> exists s pi, s < n /\ isproto s /\ path_from_to n s q pi /\
       pathmaxW ltb w zero pi = cost q) /\
    (forall q, q < n -> q < nl -> label q = nth q (n_label nd0) 0) /\
    n_status nd = n_status nd0.
  Proof.
    intros isproto Hzt Hw L1 L2 L3 L4 L5 Hproto nd cost pred plabel label.
    destruct (compete_true_anyorder_full zero top nl n w nd0 Hzt Hw L1 L2 L3 L4 L5 Hproto)
      as ((A1 & A2 & A3 & A4 & A5 & A6 & A7 & K) & S).
    exact (conj A1 (conj A2 (conj A3 (conj A4 (conj A5 (conj A6 (conj A7 (conj K S)))))))).
  Qed.

  Theorem semi_fit_anyorder (zero top : W) (labels : list nat) (nu : nat) (w : nat -> nat -> W) :
    let nl := length labels in
    let n := nl + nu in
    let fp := find_prototypes ltb top nl w (nodes_init zero labels) in
    let isproto q := q < nl /\ nth q (n_status fp) false = true in
    ltb zero top = true ->
    (forall p q, p < n -> q < n -> p <> q -> ltb (w p q) zero = false /\ ltb (w p q) top = true) ->
    (exists s, isproto s) ->
    let nd := semi_fit ltb zero top labels nu w in
    let cost q := nth q (n_cost nd) zero in
    let pred q := nth q (n_pred nd) None in
    let plabel q := nth q (n_plabel nd) 0 in
    let label q := nth q (n_label nd) 0 in
    Permutation (n_order nd) (seq 0 n) /\
    (forall i j, i < j -> j < n ->
       ltb (cost (nth j (n_order nd) 0)) (cost (nth i (n_order nd) 0)) = false) /\
    (forall q, isproto q ->
       pred q = None /\ cost q = zero /\ plabel q = nth q labels 0 /\ label q = nth q labels 0) /\
    (forall q, q < n -> ~ isproto q ->
       exists p, pred q = Some p /\ p < n /\ p <> q /\
         cost q = wmax ltb (cost p) (w p q) /\ plabel q = plabel p /\ before (n_order nd) p q) /\
    (forall q, q < n ->
       exists r k, isproto r /\ reaches pred q r k /\ pred r = None /\ k < n /\
         plabel q = nth r labels 0 /\ (nl <= q -> label q = nth r labels 0)) /\
    (forall q s pi, q < n -> isproto s -> path_from_to n s q pi ->
       ltb (pathmaxW ltb w zero pi) (cost q) = false) /\
    (forall q, q < n -> exists s pi, isproto s /\ path_from_to n s q pi /\
       pathmaxW ltb w zero pi = cost q) /\
    (forall q, q < nl -> label q = nth q labels 0) /\
    n_status nd = n_status fp ++ repeat false nu.
  Proof.
    intros nl n fp isproto Hzt Hw Hproto nd cost pred plabel label.
    destruct (find_prototypes_shaped ltb top zero labels w) as (A & B & C & D & E & F).
    fold nl fp in A, B, C, D, E, F.
    set (nd0 := append_unlabeled zero fp nu).
    assert (Hnd : nd = compete ltb zero top true nl n w nd0) by reflexivity.
    assert (L1 : length (n_cost nd0) = n)
      by (unfold nd0, append_unlabeled; cbn [n_cost]; rewrite app_length, repeat_length; lia).
    assert (L2 : length (n_pred nd0) = n)
      by (unfold nd0, append_unlabeled; cbn [n_pred]; rewrite app_length, repeat_length; lia).
    assert (L3 : length (n_label nd0) = n).
    { unfold nd0, append_unlabeled; cbn [n_label]. rewrite app_length, repeat_length, C. reflexivity. }
    assert (L4 : length (n_plabel nd0) = n)
      by (unfold nd0, append_unlabeled; cbn [n_plabel]; rewrite app_length, repeat_length; lia).
    assert (L5 : n_order nd0 = []) by exact F.
    assert (Hst : forall q, nth q (n_status nd0) false = true <-> isproto q).
    { intros q. unfold nd0, append_unlabeled, isproto; cbn [n_status].
      rewrite nth_app_repeat_false, E. tauto. }
    assert (Hlab : forall q, q < nl -> nth q (n_label nd0) 0 = nth q labels 0).
    { intros q Hq. unfold nd0, append_unlabeled; cbn [n_label]. rewrite C.
      apply app_nth1. exact Hq. }
    assert (Hproto' : exists s, s < n /\ nth s (n_status nd0) false = true).
    { destruct Hproto as (s & Hs). exists s. split; [destruct Hs; lia|apply Hst; exact Hs]. }
    destruct (compete_true_anyorder zero top nl n w nd0 Hzt Hw L1 L2 L3 L4 L5 Hproto')
      as (A1 & A2 & A3 & A4 & A5 & A6 & A7 & K & S).
    rewrite <- Hnd in A1, A2, A3, A4, A5, A6, A7, K, S.
    assert (Hkeep : forall q, q < nl -> label q = nth q labels 0).
    { intros q Hq. unfold label. rewrite (K q ltac:(lia) Hq). apply Hlab. exact Hq. }
    split; [exact A1|]. split; [exact A2|]. split; [|split; [|split; [|split; [|split; [|split]]]]].
    - intros q Hq. assert (Hqn : q < n) by (destruct Hq; lia).
      destruct (A3 q Hqn (proj2 (Hst q) Hq)) as (X1 & X2 & X3 & _).
      rewrite Hlab in X3 by (destruct Hq; assumption).
      split; [exact X1|]. split; [exact X2|]. split; [exact X3|].
      apply Hkeep. destruct Hq; assumption.
    - intros q Hq Hnp. apply A4; [exact Hq|]. intros Hx. apply Hnp. apply Hst. exact Hx.
    - intros q Hq. destruct (A5 q Hq) as (r & k & R1 & R2 & R3 & R4 & R5 & R6 & R7).
      apply Hst in R2. rewrite Hlab in R6, R7 by (destruct R2; assumption).
      exists r, k. split; [exact R2|]. split; [exact R3|]. split; [exact R4|]. split; [exact R5|].
      split; [exact R6|exact R7].
    - intros q s pi Hq Hs Hpath.
      apply (A6 q s pi Hq); [destruct Hs; lia|apply Hst; exact Hs|exact Hpath].
    - intros q Hq. destruct (A7 q Hq) as (s & pi & Q1 & Q2 & Q3 & Q4).
      exists s, pi. split; [apply Hst; exact Q2|]. split; [exact Q3|exact Q4].
    - exact Hkeep.
    - exact S.
  Qed.
End Lifted.

(* ---------- W := nat: a computed instance (the 3 labeled + 2 unlabeled samples of
   FitExample.v, weights read as naturals) ---------- *)

Definition ex2n_w (p q : nat) : nat := Z.to_nat (ex2_w p q).

Example ex2n_semi_fit :
  semi_fit Nat.ltb 0 1000 ex2_labels 2 ex2n_w =
  mkNodes [0; 0; 2; 2; 2] [None; None; Some 0; Some 1; Some 2] [0; 1; 0; 1; 0] [0; 1; 0; 1; 0]
          [true; true; false; false; false] [false; false; false; false; false] [0; 1; 2; 3; 4].
Proof. vm_compute. reflexivity. Qed.

Example ex2n_premises :
  strict_total_order Nat.ltb /\
  Nat.ltb 0 1000 = true /\
  (forall p q, p < length ex2_labels + 2 -> q < length ex2_labels + 2 -> p <> q ->
     Nat.ltb (ex2n_w p q) 0 = false /\ Nat.ltb (ex2n_w p q) 1000 = true) /\
  (exists s, s < length ex2_labels /\
     nth s (n_status (find_prototypes Nat.ltb 1000 (length ex2_labels) ex2n_w
                        (nodes_init 0 ex2_labels))) false = true).
Proof.
  split; [exact nat_order|]. split; [reflexivity|]. split.
  - apply wn_ok_sound. vm_compute. reflexivity.
  - exists 0. split; [cbn; lia|]. vm_compute. reflexivity.
Qed.
