(* Soundness of the exact zero-self-distance checker [zero_self] / [zero_self_one] of Model/MetricSym.v.

   For every [rounding rnd] (monotone, rnd 0 = 0, strict sign preserved) -- and, for the rules enabled
   by the flag [lg], [rnd 1 = 1] -- if the checker accepts a metric on an input class then the rounded
   evaluation on two identical vectors of that class (length >= 1) is defined and is EXACTLY 0.

   Structure:
     [diag_mut]   the diagonal normal form does not change the rounded value on the diagonal
                  (x = y and equal entries), for any [rnd] whatsoever;
     [cv_bin_sound], [cv_un_sound], [cv_pow_sound]   the transfer functions on exact constants;
     [zero_mut]   the mutual induction; definedness / non-zero divisors come from the soundness of the
                  sign-class interpreter (Proofs/RobustSign.v, [sound_mut]);
     [wrap_zero_sound], [call_zero_sound]   decorator (same shift on both arguments) and sibling calls. *)
From Coq Require Import Reals QArith Qreals String List Lra Lia Bool ZArith.
From OPF Require Import Model.Consts Model.Effects Spec.MetricSpec Gen.Consts_gen Model.MetricIR
     Model.MetricRnd Model.MetricSym Proofs.RobustSign Proofs.FloatSym.
Import ListNotations.
Open Scope R_scope.

(* ---------- syntactic equality is equality ---------- *)
Lemma eqb_mut :
  (forall v1 v2, vexpr_eqb v1 v2 = true -> v1 = v2) /\ (forall s1 s2, sexpr_eqb s1 s2 = true -> s1 = s2).
Proof.
  apply expr_mutind.
  - intros [] E; try discriminate; reflexivity.
  - intros [] E; try discriminate; reflexivity.
  - intros s1 HS [| |s2| | | |] E; try discriminate. cbn [vexpr_eqb] in E. now rewrite (HS s2 E).
  - intros o a Ha b Hb [| | |o' a' b'| | |] E; try discriminate. cbn [vexpr_eqb] in E.
    apply andb_prop in E. destruct E as [E E3]. apply andb_prop in E. destruct E as [E1 E2].
    now rewrite (binop_eqb_eq _ _ E1), (Ha _ E2), (Hb _ E3).
  - intros o a Ha [| | | |o' a'| |] E; try discriminate. cbn [vexpr_eqb] in E.
    apply andb_prop in E. destruct E as [E1 E2]. now rewrite (unop_eqb_eq _ _ E1), (Ha _ E2).
  - intros a Ha p [| | | | |a' p'|] E; try discriminate. cbn [vexpr_eqb] in E.
    apply andb_prop in E. destruct E as [E1 E2]. now rewrite (pconst_eqb_eq _ _ E1), (Ha _ E2).
  - intros c l Hl r Hr a Ha b Hb [| | | | | |c' l' r' a' b'] E; try discriminate. cbn [vexpr_eqb] in E.
    apply andb_prop in E. destruct E as [E E5]. apply andb_prop in E. destruct E as [E E4].
    apply andb_prop in E. destruct E as [E E3]. apply andb_prop in E. destruct E as [E1 E2].
    now rewrite (cmpop_eqb_eq _ _ E1), (Hl _ E2), (Hr _ E3), (Ha _ E4), (Hb _ E5).
  - intros v HV [v2| | | | | | | | | |] E; try discriminate. cbn [sexpr_eqb] in E. now rewrite (HV _ E).
  - intros v HV [|v2| | | | | | | | |] E; try discriminate. cbn [sexpr_eqb] in E. now rewrite (HV _ E).
  - intros a Ha b Hb [| |a' b'| | | | | | | |] E; try discriminate. cbn [sexpr_eqb] in E.
    apply andb_prop in E. destruct E as [E1 E2]. now rewrite (Ha _ E1), (Hb _ E2).
  - intros [] E; try discriminate; reflexivity.
  - intros q [| | | |q'| | | | | |] E; try discriminate. cbn [sexpr_eqb] in E. now rewrite (Q_eqb_eq _ _ E).
  - intros n [| | | | |n'| | | | |] E; try discriminate. cbn [sexpr_eqb] in E. now rewrite (cname_eqb_eq _ _ E).
  - intros p [| | | | | |p'| | | |] E; try discriminate. cbn [sexpr_eqb] in E.
    apply String.eqb_eq in E. now subst.
  - intros o a Ha b Hb [| | | | | | |o' a' b'| | |] E; try discriminate. cbn [sexpr_eqb] in E.
    apply andb_prop in E. destruct E as [E E3]. apply andb_prop in E. destruct E as [E1 E2].
    now rewrite (binop_eqb_eq _ _ E1), (Ha _ E2), (Hb _ E3).
  - intros o a Ha [| | | | | | | |o' a'| |] E; try discriminate. cbn [sexpr_eqb] in E.
    apply andb_prop in E. destruct E as [E1 E2]. now rewrite (unop_eqb_eq _ _ E1), (Ha _ E2).
  - intros a Ha p [| | | | | | | | |a' p'|] E; try discriminate. cbn [sexpr_eqb] in E.
    apply andb_prop in E. destruct E as [E1 E2]. now rewrite (pconst_eqb_eq _ _ E1), (Ha _ E2).
  - intros f a Ha b Hb [| | | | | | | | | |f' a' b'] E; try discriminate. cbn [sexpr_eqb] in E.
    apply andb_prop in E. destruct E as [E E3]. apply andb_prop in E. destruct E as [E1 E2].
    apply String.eqb_eq in E1. subst f'. now rewrite (Ha _ E2), (Hb _ E3).
Qed.

Definition vexpr_eqb_eq := proj1 eqb_mut.
Definition sexpr_eqb_eq := proj2 eqb_mut.

(* ---------- lists on the diagonal ---------- *)
Lemma map2_diag {A} (f : R -> R -> A) x : map2 f x x = map (fun a => f a a) x.
Proof. induction x as [|a x IH]; cbn [map2 map]; [reflexivity | now rewrite IH]. Qed.

Lemma oseq_map_forall {A} (f : R -> option A) (P : R -> Prop) (Q : A -> Prop) x :
  Forall P x -> (forall a, P a -> exists r, f a = Some r /\ Q r) ->
  exists l, oseq (map f x) = Some l /\ Forall Q l /\ length l = length x.
Proof.
  intros HX HF. induction HX as [|a x Ha HX IH].
  - exists []. cbn. auto.
  - destruct IH as [l [El [Ql Ll]]]. destruct (HF a Ha) as [r [Er Qr]].
    exists (r :: l). cbn [map oseq length]. rewrite Er, El. auto.
Qed.

Lemma lmax_const k l : Forall (fun r => r = k) l -> (1 <= length l)%nat -> lmax l = k.
Proof.
  intros HF HL. destruct l as [|a t]; [cbn in HL; lia|]. cbn [lmax].
  inversion HF as [|a' t' Ha Ht]; subst. clear HF HL.
  induction Ht as [|e t He Ht IH]; cbn [fold_left]; [reflexivity|].
  subst e. unfold Rmax at 2. destruct (Rle_dec k k); exact IH.
Qed.

Lemma countne_diag (l : list (R * R)) : Forall (fun pq => fst pq = snd pq) l -> countne l = 0.
Proof.
  unfold countne. induction 1 as [|p l Hp Hl IH]; [reflexivity|].
  cbn [map]. change (sum (?a :: ?t)) with (a + sum t). rewrite IH.
  unfold Rneqb. destruct (Req_EM_T (fst p) (snd p)) as [E|E]; [lra | contradiction].
Qed.

(* ---------- the diagonal normal form ---------- *)
Section Diag.
  Variable rnd : R -> R.
  Variable callR : string -> list R -> list R -> option R.
  Variable pe : string -> R.
  Local Notation eS := (evalSR rnd callR pe).
  Local Notation eV := (evalVR rnd callR pe).

  Lemma bin_idem o (oa : option R) : o = BMin \/ o = BMax -> obind2 oa oa (binRnd rnd o) = oa.
  Proof.
    intros [-> | ->]; destruct oa as [a|]; cbn [obind2 binRnd]; try reflexivity; f_equal.
    - unfold Rmin. now destruct (Rle_dec a a).
    - unfold Rmax. now destruct (Rle_dec a a).
  Qed.

  Lemma Q2R_two : Q2R q_two = 2.
  Proof. unfold Q2R, q_two. cbn. lra. Qed.

  Lemma bin_double (oa : option R) :
    obind2 (Some (Q2R q_two)) oa (binRnd rnd BMul) = obind2 oa oa (binRnd rnd BAdd).
  Proof.
    destruct oa as [a|]; cbn [obind2 binRnd]; [|reflexivity]. rewrite Q2R_two. do 2 f_equal. lra.
  Qed.

  Lemma pow_two (oa : option R) : obind2 oa oa (binRnd rnd BMul) = obind oa (powRnd rnd PTwo).
  Proof. destruct oa as [a|]; cbn [obind2 obind binRnd powRnd]; [|reflexivity]. do 2 f_equal. ring. Qed.

  Lemma diagV_VBin o a b :
    diagV (VBin o a b) =
    match o with
    | BMin | BMax => if vexpr_eqb (diagV a) (diagV b) then diagV a else VBin o (diagV a) (diagV b)
    | BAdd => if vexpr_eqb (diagV a) (diagV b) then VBin BMul (VConstS (SConstQ q_two)) (diagV a)
              else VBin o (diagV a) (diagV b)
    | _ => VBin o (diagV a) (diagV b)
    end.
  Proof. reflexivity. Qed.

  Lemma diagS_SBin o a b :
    diagS (SBin o a b) =
    match o with
    | BMin | BMax => if sexpr_eqb (diagS a) (diagS b) then diagS a else SBin o (diagS a) (diagS b)
    | BAdd => if sexpr_eqb (diagS a) (diagS b) then SBin BMul (SConstQ q_two) (diagS a)
              else SBin o (diagS a) (diagS b)
    | _ => SBin o (diagS a) (diagS b)
    end.
  Proof. reflexivity. Qed.

  Definition dV_ok (v : vexpr) : Prop := forall x a, eV (diagV v) x x a a = eV v x x a a.
  Definition dS_ok (s : sexpr) : Prop := forall x, eS (diagS s) x x = eS s x x.

  Lemma dV_vec v x :
    dV_ok v ->
    oseq (map2 (fun a b => eV (diagV v) x x a b) x x) = oseq (map2 (fun a b => eV v x x a b) x x).
  Proof. intros HV. rewrite !map2_diag. f_equal. apply map_ext. intros a. apply HV. Qed.

  Lemma diag_mut : (forall v, dV_ok v) /\ (forall s, dS_ok s).
  Proof.
    apply expr_mutind.
    - intros x a. reflexivity.
    - intros x a. reflexivity.
    - intros s HS x a. cbn [diagV]. rewrite !evalVR_VConstS. apply HS.
    - intros o a Ha b Hb x p. rewrite diagV_VBin, (evalVR_VBin _ _ _ o a b).
      assert (PLAIN : eV (VBin o (diagV a) (diagV b)) x x p p
                      = obind2 (eV a x x p p) (eV b x x p p) (binRnd rnd o)).
      { now rewrite evalVR_VBin, Ha, Hb. }
      assert (SAME : vexpr_eqb (diagV a) (diagV b) = true -> eV b x x p p = eV a x x p p).
      { intros E. apply vexpr_eqb_eq in E. now rewrite <- Ha, <- Hb, E. }
      destruct o; try exact PLAIN.
      + destruct (vexpr_eqb (diagV a) (diagV b)) eqn:E; [|exact PLAIN].
        rewrite (SAME eq_refl), evalVR_VBin, Ha, evalVR_VConstS. cbn [evalSR]. apply bin_double.
      + destruct (vexpr_eqb (diagV a) (diagV b)) eqn:E; [|exact PLAIN].
        rewrite (SAME eq_refl), Ha, bin_idem; auto.
      + destruct (vexpr_eqb (diagV a) (diagV b)) eqn:E; [|exact PLAIN].
        rewrite (SAME eq_refl), Ha, bin_idem; auto.
    - intros o a Ha x p. cbn [diagV]. now rewrite !evalVR_VUn, Ha.
    - intros a Ha [|] x p; cbn [diagV].
      + now rewrite evalVR_VBin, evalVR_VPowC, Ha, pow_two.
      + now rewrite !evalVR_VPowC, Ha.
    - intros c l Hl r Hr a Ha b Hb x p. cbn [diagV]. now rewrite !evalVR_VSel, Hl, Hr, Ha, Hb.
    - intros v HV x. cbn [diagS]. now rewrite !evalSR_SSum, dV_vec.
    - intros v HV x. cbn [diagS]. now rewrite !evalSR_SAmax, dV_vec.
    - intros u HU v HV x. cbn [diagS]. rewrite !evalSR_SCountNe, !map2_diag. do 2 f_equal.
      apply map_ext. intros a. now rewrite HU, HV.
    - intros x. reflexivity.
    - intros q x. reflexivity.
    - intros n x. reflexivity.
    - intros p x. reflexivity.
    - intros o a Ha b Hb x. rewrite diagS_SBin, (evalSR_SBin _ _ _ o a b).
      assert (PLAIN : eS (SBin o (diagS a) (diagS b)) x x = obind2 (eS a x x) (eS b x x) (binRnd rnd o)).
      { now rewrite evalSR_SBin, Ha, Hb. }
      assert (SAME : sexpr_eqb (diagS a) (diagS b) = true -> eS b x x = eS a x x).
      { intros E. apply sexpr_eqb_eq in E. now rewrite <- Ha, <- Hb, E. }
      destruct o; try exact PLAIN.
      + destruct (sexpr_eqb (diagS a) (diagS b)) eqn:E; [|exact PLAIN].
        rewrite (SAME eq_refl), evalSR_SBin, Ha. cbn [evalSR]. apply bin_double.
      + destruct (sexpr_eqb (diagS a) (diagS b)) eqn:E; [|exact PLAIN].
        rewrite (SAME eq_refl), Ha, bin_idem; auto.
      + destruct (sexpr_eqb (diagS a) (diagS b)) eqn:E; [|exact PLAIN].
        rewrite (SAME eq_refl), Ha, bin_idem; auto.
    - intros o a Ha x. cbn [diagS]. now rewrite !evalSR_SUn, Ha.
    - intros a Ha [|] x; cbn [diagS].
      + now rewrite evalSR_SBin, evalSR_SPowC, Ha, pow_two.
      + now rewrite !evalSR_SPowC, Ha.
    - intros f u HU v HV x. cbn [diagS]. now rewrite !evalSR_SCall, !dV_vec.
  Qed.

  Lemma same_diagV_eval a b x p : same_diagV a b = true -> eV a x x p p = eV b x x p p.
  Proof.
    unfold same_diagV. intros E. apply vexpr_eqb_eq in E.
    now rewrite <- (proj1 diag_mut a), <- (proj1 diag_mut b), E.
  Qed.

  Lemma same_diagS_eval a b x : same_diagS a b = true -> eS a x x = eS b x x.
  Proof.
    unfold same_diagS. intros E. apply sexpr_eqb_eq in E.
    now rewrite <- (proj2 diag_mut a), <- (proj2 diag_mut b), E.
  Qed.
End Diag.

(* ---------- exact constants ---------- *)
Definition kinfo (ka : option cv) (oa : option R) : Prop := forall k, ka = Some k -> oa = Some (cvR k).
Definition dinfo (da : option cls) (oa : option R) : Prop :=
  forall c, da = Some c -> exists r, oa = Some r /\ in_cls c r.

Lemma cv_Q_sound q k : cv_Q q = Some k -> Q2R q = cvR k.
Proof.
  unfold cv_Q. destruct (Qnum q =? 0)%Z eqn:E0.
  - intros E. injection E as <-. apply Z.eqb_eq in E0. unfold Q2R. rewrite E0. cbn [cvR]. lra.
  - destruct ((Qnum q =? 1)%Z && (Qden q =? 1)%positive) eqn:E1; [|discriminate].
    intros E. injection E as <-. apply andb_prop in E1. destruct E1 as [E1 E2].
    apply Z.eqb_eq in E1. apply Pos.eqb_eq in E2. unfold Q2R. rewrite E1, E2. cbn [cvR]. lra.
Qed.

Section Zero.
  Variable rnd : R -> R.
  Hypothesis RND : rounding rnd.
  Variable lg : bool.
  Hypothesis ONE : lg = true -> rnd 1 = 1.

  Lemma rnd0 : rnd 0 = 0.
  Proof. exact (rnd_zero _ RND). Qed.

  Lemma one_if_lg_some k : one_if_lg lg = Some k -> k = COne /\ rnd 1 = 1.
  Proof. unfold one_if_lg. destruct lg; [|discriminate]. intros E. injection E as <-. auto. Qed.

  Lemma known_defined ka da oa :
    kinfo ka oa -> dinfo da oa -> is_known ka || cls_defined da = true -> exists r, oa = Some r.
  Proof.
    intros K D E. destruct ka as [k|]; [exists (cvR k); now apply K|].
    destruct da as [c|]; [|discriminate]. destruct (D c eq_refl) as [r [Er _]]. eauto.
  Qed.

  Lemma nonzero_defined da oa :
    dinfo da oa -> cls_nonzero da = true -> exists r, oa = Some r /\ r <> 0.
  Proof.
    intros D E. destruct da as [c|]; [|discriminate]. destruct (D c eq_refl) as [r [Er Pr]].
    exists r. split; [assumption|]. destruct c; try discriminate; cbn in Pr; lra.
  Qed.

  (* ---------- rounded operators on exact constants ---------- *)
  Lemma div_val a b : b <> 0 -> binRnd rnd BDiv a b = Some (rnd (a / b)).
  Proof. intros H. cbn [binRnd]. destruct (Req_EM_T b 0); [contradiction | reflexivity]. Qed.

  Lemma cv_bin_sound o ka kb da db same oa ob k :
    kinfo ka oa -> kinfo kb ob -> dinfo da oa -> dinfo db ob -> (same = true -> oa = ob) ->
    cv_bin lg o ka kb da db same = Some k ->
    obind2 oa ob (binRnd rnd o) = Some (cvR k).
  Proof.
    intros Ka Kb Da Db SM E.
    pose proof (known_defined ka da oa Ka Da) as DEFA.
    pose proof (known_defined kb db ob Kb Db) as DEFB.
    pose proof (nonzero_defined da oa Da) as NZA.
    pose proof (nonzero_defined db ob Db) as NZB.
    assert (R0 := rnd0).
    destruct o; cbn [cv_bin] in E.
    - (* add *)
      destruct ka as [[|]|]; try discriminate; destruct kb as [[|]|]; try discriminate;
        rewrite (Ka _ eq_refl), (Kb _ eq_refl); cbn [obind2 binRnd cvR].
      + injection E as <-. cbn [cvR]. f_equal. now replace (0 + 0) with 0 by lra.
      + apply one_if_lg_some in E. destruct E as [-> R1]. cbn [cvR]. f_equal. now replace (0 + 1) with 1 by lra.
      + apply one_if_lg_some in E. destruct E as [-> R1]. cbn [cvR]. f_equal. now replace (1 + 0) with 1 by lra.
    - (* sub *)
      destruct (same && (is_known ka || cls_defined da)) eqn:ES.
      + injection E as <-. apply andb_prop in ES. destruct ES as [E1 E2].
        destruct (DEFA E2) as [r Er]. rewrite <- (SM E1), Er. cbn [obind2 binRnd cvR].
        f_equal. now replace (r - r) with 0 by lra.
      + destruct ka as [[|]|]; try discriminate; destruct kb as [[|]|]; try discriminate;
          rewrite (Ka _ eq_refl), (Kb _ eq_refl); cbn [obind2 binRnd cvR].
        * injection E as <-. cbn [cvR]. f_equal. now replace (0 - 0) with 0 by lra.
        * apply one_if_lg_some in E. destruct E as [-> R1]. cbn [cvR]. f_equal. now replace (1 - 0) with 1 by lra.
        * injection E as <-. cbn [cvR]. f_equal. now replace (1 - 1) with 0 by lra.
    - (* mul *)
      destruct ka as [[|]|].
      + destruct (DEFB ltac:(destruct kb as [[|]|]; cbn [is_known orb] in *; try reflexivity; destruct (cls_defined db); [reflexivity | discriminate])) as [r Er].
        assert (k = CZero) as -> by (destruct kb as [[|]|]; cbn [is_known orb] in E; try (now injection E);
                                     destruct (cls_defined db); [now injection E | discriminate]).
        rewrite (Ka _ eq_refl), Er. cbn [obind2 binRnd cvR]. f_equal. now replace (0 * r) with 0 by lra.
      + destruct kb as [[|]|]; try discriminate.
        * injection E as <-. rewrite (Ka _ eq_refl), (Kb _ eq_refl). cbn [obind2 binRnd cvR].
          f_equal. now replace (1 * 0) with 0 by lra.
        * apply one_if_lg_some in E. destruct E as [-> R1].
          rewrite (Ka _ eq_refl), (Kb _ eq_refl). cbn [obind2 binRnd cvR]. f_equal. now replace (1 * 1) with 1 by lra.
      + destruct kb as [[|]|]; try discriminate. cbn [is_known orb] in *.
        destruct (cls_defined da) eqn:EDa; [|discriminate]. injection E as <-.
        destruct (DEFA eq_refl) as [r Er]. rewrite Er, (Kb _ eq_refl). cbn [obind2 binRnd cvR].
        f_equal. now replace (r * 0) with 0 by lra.
    - (* div *)
      destruct (same && cls_nonzero da) eqn:ES.
      + apply one_if_lg_some in E. destruct E as [-> R1]. apply andb_prop in ES. destruct ES as [E1 E2].
        destruct (NZA E2) as [r [Er Nr]]. rewrite <- (SM E1), Er. cbn [obind2]. rewrite (div_val _ _ Nr).
        cbn [cvR]. f_equal. now replace (r / r) with 1 by (field; assumption).
      + destruct ka as [[|]|]; try discriminate.
        * destruct kb as [[|]|]; try discriminate.
          -- injection E as <-. rewrite (Ka _ eq_refl), (Kb _ eq_refl). cbn [obind2 cvR].
             rewrite div_val by lra. f_equal. now replace (0 / 1) with 0 by lra.
          -- destruct (cls_nonzero db) eqn:EN; [|discriminate]. injection E as <-.
             destruct (NZB eq_refl) as [r [Er Nr]]. rewrite (Ka _ eq_refl), Er. cbn [obind2 cvR].
             rewrite (div_val _ _ Nr). f_equal. now replace (0 / r) with 0 by (field; assumption).
        * destruct kb as [[|]|]; try discriminate.
          apply one_if_lg_some in E. destruct E as [-> R1].
          rewrite (Ka _ eq_refl), (Kb _ eq_refl). cbn [obind2 cvR].
          rewrite div_val by lra. f_equal. now replace (1 / 1) with 1 by lra.
    - (* min *)
      destruct ka as [[|]|]; try discriminate; destruct kb as [[|]|]; try discriminate;
        injection E as <-; rewrite (Ka _ eq_refl), (Kb _ eq_refl); cbn [obind2 binRnd cvR]; f_equal;
        unfold Rmin; match goal with |- context [Rle_dec ?a ?b] => destruct (Rle_dec a b) end; lra.
    - (* max *)
      destruct ka as [[|]|]; try discriminate; destruct kb as [[|]|]; try discriminate;
        injection E as <-; rewrite (Ka _ eq_refl), (Kb _ eq_refl); cbn [obind2 binRnd cvR]; f_equal;
        unfold Rmax; match goal with |- context [Rle_dec ?a ?b] => destruct (Rle_dec a b) end; lra.
  Qed.

  Lemma sqrt_val a : 0 <= a -> (if Rlt_dec a 0 then None else Some (rnd (sqrt a))) = Some (rnd (sqrt a)).
  Proof. intros H. destruct (Rlt_dec a 0); [lra | reflexivity]. Qed.

  Lemma cv_sqrt_sound ka oa k :
    kinfo ka oa -> cv_sqrt lg ka = Some k ->
    obind oa (fun a => if Rlt_dec a 0 then None else Some (rnd (sqrt a))) = Some (cvR k).
  Proof.
    intros Ka E. assert (R0 := rnd0). destruct ka as [[|]|]; try discriminate; cbn [cv_sqrt] in E;
      rewrite (Ka _ eq_refl); cbn [obind cvR].
    - injection E as <-. rewrite sqrt_val by lra. cbn [cvR]. f_equal. now rewrite sqrt_0.
    - apply one_if_lg_some in E. destruct E as [-> R1]. rewrite sqrt_val by lra. cbn [cvR]. f_equal.
      now rewrite sqrt_1.
  Qed.

  Lemma cv_un_sound o ka oa k :
    kinfo ka oa -> cv_un lg o ka = Some k -> obind oa (unRnd rnd o) = Some (cvR k).
  Proof.
    intros Ka E. assert (R0 := rnd0). destruct o; cbn [cv_un] in E.
    - destruct ka as [[|]|]; try discriminate. injection E as <-. rewrite (Ka _ eq_refl).
      cbn [obind unRnd cvR]. f_equal. lra.
    - rewrite (Ka _ E). cbn [obind unRnd]. f_equal. destruct k; cbn [cvR]; [apply Rabs_R0 | apply Rabs_R1].
    - destruct ka as [[|]|]; try discriminate. injection E as <-. rewrite (Ka _ eq_refl).
      cbn [obind unRnd cvR]. destruct (Rlt_dec 0 1); [|lra]. f_equal. now rewrite ln_1.
    - destruct ka as [[|]|]; try discriminate. apply one_if_lg_some in E. destruct E as [-> R1].
      rewrite (Ka _ eq_refl). cbn [obind unRnd cvR]. f_equal. now rewrite exp_0.
    - now apply cv_sqrt_sound with (ka := ka).
  Qed.

  Lemma cv_pow_sound p ka oa k :
    kinfo ka oa -> cv_pow lg p ka = Some k -> obind oa (powRnd rnd p) = Some (cvR k).
  Proof.
    intros Ka E. assert (R0 := rnd0). destruct p; cbn [cv_pow] in E.
    - destruct ka as [[|]|]; try discriminate; rewrite (Ka _ eq_refl); cbn [obind powRnd cvR].
      + injection E as <-. cbn [cvR]. f_equal. now replace (0 ^ 2) with 0 by ring.
      + apply one_if_lg_some in E. destruct E as [-> R1]. cbn [cvR]. f_equal. now replace (1 ^ 2) with 1 by ring.
    - now apply cv_sqrt_sound with (ka := ka).
  Qed.

  Lemma rsum_zeros l : Forall (fun r => r = 0) l -> rsum rnd l = 0.
  Proof.
    intros HF. destruct l as [|a t]; [reflexivity|]. cbn [rsum].
    inversion HF as [|a' t' Ha Ht]; subst. clear HF.
    induction Ht as [|e t He Ht IH]; cbn [fold_left]; [reflexivity|].
    subst e. replace (0 + 0) with 0 by lra. rewrite rnd0. exact IH.
  Qed.

  (* ---------- expressions ---------- *)
  Section Expr.
    Variable callR : string -> list R -> list R -> option R.
    Variable callc : string -> cls -> option cls.
    Variable callz : string -> cls -> bool.
    Variable pe : string -> R.
    Hypothesis callc_ok : forall f c c' x y,
      callc f c = Some c' -> in_dom c x y -> exists r, callR f x y = Some r /\ in_cls c' r.
    Hypothesis callz_ok : forall f c x,
      callz f c = true -> in_dom c x x -> callR f x x = Some 0.

    Local Notation eS := (evalSR rnd callR pe).
    Local Notation eV := (evalVR rnd callR pe).
    Local Notation aS := (avS lg callc callz).
    Local Notation aV := (avV lg callc callz).
    Local Notation cS := (clsS true callc).
    Local Notation cV := (clsV true callc).

    Definition zV_ok (v : vexpr) : Prop := forall c k x a,
      aV c v = Some k -> in_dom c x x -> in_cls c a -> eV v x x a a = Some (cvR k).
    Definition zS_ok (s : sexpr) : Prop := forall c k x,
      aS c s = Some k -> in_dom c x x -> eS s x x = Some (cvR k).

    (* definedness from the sign-class interpreter *)
    Lemma dinfoV c v x a : in_dom c x x -> in_cls c a -> dinfo (cV c v) (eV v x x a a).
    Proof.
      intros HD Ha c' E.
      exact (proj1 (sound_mut rnd RND true callR callc pe callc_ok) v c c' x x a a E HD Ha Ha).
    Qed.

    Lemma dinfoS c s x : in_dom c x x -> dinfo (cS c s) (eS s x x).
    Proof.
      intros HD c' E. exact (proj2 (sound_mut rnd RND true callR callc pe callc_ok) s c c' x x E HD).
    Qed.

    Lemma kinfoV c v x a : zV_ok v -> in_dom c x x -> in_cls c a -> kinfo (aV c v) (eV v x x a a).
    Proof. intros HV HD Ha k E. now apply (HV c k x a). Qed.

    Lemma kinfoS c s x : zS_ok s -> in_dom c x x -> kinfo (aS c s) (eS s x x).
    Proof. intros HS HD k E. now apply (HS c k x). Qed.

    Lemma avV_VBin c o a b :
      aV c (VBin o a b) = cv_bin lg o (aV c a) (aV c b) (cV c a) (cV c b) (same_diagV a b).
    Proof. reflexivity. Qed.
    Lemma avS_SBin c o a b :
      aS c (SBin o a b) = cv_bin lg o (aS c a) (aS c b) (cS c a) (cS c b) (same_diagS a b).
    Proof. reflexivity. Qed.
    Lemma avV_VSel c cm l r a b :
      aV c (VSel cm l r a b) =
      if (is_known (aV c l) || cls_defined (cV c l)) && (is_known (aV c r) || cls_defined (cV c r))
      then match aV c a, aV c b with
           | Some k1, Some k2 => if cv_eqb k1 k2 then Some k1 else None
           | _, _ => None
           end
      else None.
    Proof. reflexivity. Qed.
    Lemma avS_SSum c v : aS c (SSum v) = match aV c v with Some CZero => Some CZero | _ => None end.
    Proof. reflexivity. Qed.
    Lemma avS_SCountNe c a b :
      aS c (SCountNe a b) =
      if same_diagV a b && (is_known (aV c a) || cls_defined (cV c a)) then Some CZero else None.
    Proof. reflexivity. Qed.
    Lemma avS_SCall c f a b :
      aS c (SCall f a b) =
      if same_diagV a b then
        match cV c a, cV c b with
        | Some ca, Some cb => if callz f (cls_join ca cb) then Some CZero else None
        | _, _ => None
        end
      else None.
    Proof. reflexivity. Qed.

    (* every entry of the vector is the exact constant [k] *)
    Lemma zV_vec v c k x :
      zV_ok v -> aV c v = Some k -> in_dom c x x ->
      exists l, oseq (map2 (fun a b => eV v x x a b) x x) = Some l
                /\ Forall (fun r => r = cvR k) l /\ length l = length x.
    Proof.
      intros HV E HD. rewrite map2_diag. destruct HD as [HL [H1 [HX HY]]].
      apply (oseq_map_forall _ (in_cls c)); [assumption|].
      intros a Ha. exists (cvR k). split; [|reflexivity].
      apply (HV c k x a E); [repeat split; assumption | assumption].
    Qed.

    Lemma ok_zVBin o a b : zV_ok a -> zV_ok b -> zV_ok (VBin o a b).
    Proof.
      intros Ha Hb c k x p E HD Hp. rewrite avV_VBin in E. rewrite evalVR_VBin.
      apply (cv_bin_sound o (aV c a) (aV c b) (cV c a) (cV c b) (same_diagV a b)); try assumption.
      - now apply kinfoV.
      - now apply kinfoV.
      - now apply dinfoV.
      - now apply dinfoV.
      - intros SD. now apply same_diagV_eval.
    Qed.

    Lemma ok_zSBin o a b : zS_ok a -> zS_ok b -> zS_ok (SBin o a b).
    Proof.
      intros Ha Hb c k x E HD. rewrite avS_SBin in E. rewrite evalSR_SBin.
      apply (cv_bin_sound o (aS c a) (aS c b) (cS c a) (cS c b) (same_diagS a b)); try assumption.
      - now apply kinfoS.
      - now apply kinfoS.
      - now apply dinfoS.
      - now apply dinfoS.
      - intros SD. now apply same_diagS_eval.
    Qed.

    Lemma ok_zVSel cm l r a b : zV_ok l -> zV_ok r -> zV_ok a -> zV_ok b -> zV_ok (VSel cm l r a b).
    Proof.
      intros Hl Hr Ha Hb c k x p E HD Hp. rewrite avV_VSel in E. rewrite evalVR_VSel.
      destruct ((is_known (aV c l) || cls_defined (cV c l)) && (is_known (aV c r) || cls_defined (cV c r))) eqn:ED;
        [|discriminate].
      apply andb_prop in ED. destruct ED as [E1 E2].
      destruct (known_defined _ _ _ (kinfoV c l x p Hl HD Hp) (dinfoV c l x p HD Hp) E1) as [u Eu].
      destruct (known_defined _ _ _ (kinfoV c r x p Hr HD Hp) (dinfoV c r x p HD Hp) E2) as [w Ew].
      rewrite Eu, Ew. cbn [obind2].
      destruct (aV c a) as [k1|] eqn:Ea; [|discriminate]. destruct (aV c b) as [k2|] eqn:Eb; [|discriminate].
      destruct (cv_eqb k1 k2) eqn:Ek; [|discriminate]. injection E as <-.
      assert (k2 = k1) as -> by (destruct k1, k2; try discriminate; reflexivity).
      destruct (cmpR cm u w).
      - now apply (Ha c k1 x p).
      - now apply (Hb c k1 x p).
    Qed.

    Lemma ok_zSSum v : zV_ok v -> zS_ok (SSum v).
    Proof.
      intros HV c k x E HD. rewrite avS_SSum in E. rewrite evalSR_SSum.
      destruct (aV c v) as [[|]|] eqn:Ev; try discriminate. injection E as <-.
      destruct (zV_vec v c CZero x HV Ev HD) as [l [El [Zl Ll]]]. rewrite El. cbn [obind cvR].
      f_equal. now apply rsum_zeros.
    Qed.

    Lemma ok_zSAmax v : zV_ok v -> zS_ok (SAmax v).
    Proof.
      intros HV c k x E HD. change (aS c (SAmax v)) with (aV c v) in E. rewrite evalSR_SAmax.
      destruct (zV_vec v c k x HV E HD) as [l [El [Zl Ll]]]. rewrite El. cbn [obind].
      f_equal. apply lmax_const; [assumption|]. destruct HD as [_ [H1 _]]. lia.
    Qed.

    Lemma ok_zSCountNe a b : zV_ok a -> zV_ok b -> zS_ok (SCountNe a b).
    Proof.
      intros Ha Hb c k x E HD. rewrite avS_SCountNe in E. rewrite evalSR_SCountNe.
      destruct (same_diagV a b && (is_known (aV c a) || cls_defined (cV c a))) eqn:ES; [|discriminate].
      injection E as <-. apply andb_prop in ES. destruct ES as [E1 E2].
      rewrite map2_diag. pose proof HD as [HL [H1 [HX HY]]].
      destruct (oseq_map_forall
                  (fun p => obind2 (eV a x x p p) (eV b x x p p) (fun u w => Some (u, w)))
                  (in_cls c) (fun pq : R * R => fst pq = snd pq) x HX) as [l [El [Pl Ll]]].
      { intros p Hp.
        destruct (known_defined _ _ _ (kinfoV c a x p Ha HD Hp) (dinfoV c a x p HD Hp) E2) as [u Eu].
        rewrite <- (same_diagV_eval rnd callR pe a b x p E1), Eu. cbn [obind2].
        exists (u, u). split; reflexivity. }
      rewrite El. cbn [obind cvR]. f_equal. now apply countne_diag.
    Qed.

    Lemma ok_zSCall f a b : zV_ok a -> zV_ok b -> zS_ok (SCall f a b).
    Proof.
      intros Ha Hb c k x E HD. rewrite avS_SCall in E. rewrite evalSR_SCall.
      destruct (same_diagV a b) eqn:ES; [|discriminate].
      destruct (cV c a) as [ca|] eqn:Eca; [|discriminate]. destruct (cV c b) as [cb|] eqn:Ecb; [|discriminate].
      destruct (callz f (cls_join ca cb)) eqn:Ez; [|discriminate]. injection E as <-.
      pose proof (proj1 (sound_mut rnd RND true callR callc pe callc_ok)) as OKV.
      destruct (okV_vec rnd true callR callc pe a c ca x x (OKV a) Eca HD) as [la [Ela [Pla Lla]]].
      destruct (okV_vec rnd true callR callc pe b c cb x x (OKV b) Ecb HD) as [lb [Elb [Plb Llb]]].
      assert (EQ : oseq (map2 (fun p q => eV b x x p q) x x) = oseq (map2 (fun p q => eV a x x p q) x x)).
      { rewrite !map2_diag. f_equal. apply map_ext. intros p. symmetry.
        now apply same_diagV_eval. }
      rewrite EQ in Elb. rewrite Ela in Elb. injection Elb as <-.
      rewrite EQ, Ela. cbn [obind2 cvR]. apply (callz_ok f (cls_join ca cb) la Ez).
      destruct HD as [HL [H1 _]]. repeat split.
      - lia.
      - now apply Forall_join_l.
      - now apply Forall_join_r.
    Qed.

    Lemma zero_mut : (forall v, zV_ok v) /\ (forall s, zS_ok s).
    Proof.
      apply expr_mutind.
      - intros c k x a E. discriminate.
      - intros c k x a E. discriminate.
      - intros s HS c k x a E HD Ha. rewrite evalVR_VConstS. now apply (HS c k x).
      - intros o a Ha b Hb. now apply ok_zVBin.
      - intros o a Ha c k x p E HD Hp. rewrite evalVR_VUn.
        apply (cv_un_sound o (aV c a)); [now apply kinfoV | exact E].
      - intros a Ha p0 c k x p E HD Hp. rewrite evalVR_VPowC.
        apply (cv_pow_sound p0 (aV c a)); [now apply kinfoV | exact E].
      - intros cm l Hl r Hr a Ha b Hb. now apply ok_zVSel.
      - intros v HV. now apply ok_zSSum.
      - intros v HV. now apply ok_zSAmax.
      - intros a Ha b Hb. now apply ok_zSCountNe.
      - intros c k x E. discriminate.
      - intros q c k x E HD. cbn [evalSR]. f_equal. now apply cv_Q_sound.
      - intros n c k x E. discriminate.
      - intros p c k x E. discriminate.
      - intros o a Ha b Hb. now apply ok_zSBin.
      - intros o a Ha c k x E HD. rewrite evalSR_SUn.
        apply (cv_un_sound o (aS c a)); [now apply kinfoS | exact E].
      - intros a Ha p0 c k x E HD. rewrite evalSR_SPowC.
        apply (cv_pow_sound p0 (aS c a)); [now apply kinfoS | exact E].
      - intros f a Ha b Hb. now apply ok_zSCall.
    Qed.

    Lemma avS_sound s c x : is_zero (aS c s) = true -> in_dom c x x -> eS s x x = Some 0.
    Proof.
      intros E HD. destruct (aS c s) as [[|]|] eqn:Es; try discriminate.
      exact (proj2 zero_mut s c CZero x Es HD).
    Qed.
  End Expr.

  (* ---------- whole metrics ---------- *)
  Lemma wrap_zero_sound callR callc callz pe dparams dprog m c x :
    (forall f c c' x y, callc f c = Some c' -> in_dom c x y ->
                        exists r, callR f x y = Some r /\ in_cls c' r) ->
    (forall f c x, callz f c = true -> in_dom c x x -> callR f x x = Some 0) ->
    wrap_zero lg callc callz dparams dprog m c = true -> in_dom c x x ->
    wrapR rnd callR dparams dprog pe m x x = Some 0.
  Proof.
    intros callc_ok callz_ok E HD. unfold wrap_zero in E. unfold wrapR, eval_bodyR.
    destruct (m_avoid_zero m).
    - apply andb_prop in E. destruct E as [EU E].
      unfold dec_uniform in EU. destruct (dec_shifts dparams dprog) as [cs|] eqn:Ecs; [|discriminate].
      destruct (dec_apply_cls dparams dprog [c; c]) as [[|cx [|cy [|? ?]]]|] eqn:Ed; try discriminate.
      destruct (dec_apply_sound rnd RND _ _ _ _ _ x x Ed HD) as [x' [y' [Ea [Lx [Ly [Px Py]]]]]].
      rewrite (dec_shifts_sound rnd dparams dprog cs Ecs) in Ea. injection Ea as <- <-.
      rewrite (dec_shifts_sound rnd dparams dprog cs Ecs).
      apply (avS_sound callR callc callz pe callc_ok callz_ok _ _ _ E).
      destruct HD as [HL [H1 _]]. repeat split.
      + lia.
      + now apply Forall_join_l.
      + now apply Forall_join_r.
    - now apply (avS_sound callR callc callz pe callc_ok callz_ok _ c x E).
  Qed.

  Lemma call_zero_sound t dparams dprog fuel : forall f c x,
    call_zero lg t dparams dprog fuel f c = true -> in_dom c x x ->
    call_fuelR rnd t dparams dprog fuel f x x = Some 0.
  Proof.
    induction fuel as [|n IH]; intros f c x; cbn [call_zero call_fuelR]; [discriminate|].
    destruct (lookup_ir f t) as [m|]; [|discriminate].
    intros E HD.
    apply (wrap_zero_sound _ (call_cls true t dparams dprog n) (call_zero lg t dparams dprog n) _ _ _ m c x);
      try assumption.
    apply (call_fuel_sound rnd RND).
  Qed.

  Theorem zero_self_gen_sound t dparams dprog pe c m x :
    zero_self_gen lg t dparams dprog c m = true -> in_dom c x x ->
    evalRnd_wrapped_with rnd t dparams dprog pe m x x = Some 0.
  Proof.
    unfold zero_self_gen, evalRnd_wrapped_with. intros E HD.
    apply (wrap_zero_sound _ (call_cls true t dparams dprog call_depth)
                           (call_zero lg t dparams dprog call_depth) _ _ _ m c x); try assumption.
    - apply (call_fuel_sound rnd RND).
    - apply call_zero_sound.
  Qed.
End Zero.

(* ---------- the theorems at the generated tables ---------- *)
Lemma in_dom_diag c x : (1 <= length x)%nat -> Forall (in_cls c) x -> in_dom c x x.
Proof. intros H1 HX. repeat split; assumption. Qed.

(* every admissible rounding *)
Theorem zero_self_sound c m :
  zero_self c m = true ->
  forall rnd, rounding rnd ->
  forall x, (1 <= length x)%nat -> Forall (in_cls c) x ->
  metric_rnd rnd m x x = Some 0.
Proof.
  intros E rnd RND x H1 HX. unfold metric_rnd, evalRnd_wrapped.
  apply (zero_self_gen_sound rnd RND false ltac:(discriminate) _ _ _ _ c m x E).
  now apply in_dom_diag.
Qed.

(* admissible roundings that fix 1 *)
Theorem zero_self_one_sound c m :
  zero_self_one c m = true ->
  forall rnd, rounding rnd -> rnd 1 = 1 ->
  forall x, (1 <= length x)%nat -> Forall (in_cls c) x ->
  metric_rnd rnd m x x = Some 0.
Proof.
  intros E rnd RND R1 x H1 HX. unfold metric_rnd, evalRnd_wrapped.
  apply (zero_self_gen_sound rnd RND true (fun _ => R1) _ _ _ _ c m x E).
  now apply in_dom_diag.
Qed.

(* the plain checker is the restriction of the other one *)
Theorem zero_self_sound_with c m :
  zero_self c m = true ->
  forall rnd, rounding rnd ->
  forall pe x, (1 <= length x)%nat -> Forall (in_cls c) x ->
  metric_rnd_with rnd pe m x x = Some 0.
Proof.
  intros E rnd RND pe x H1 HX. unfold metric_rnd_with.
  apply (zero_self_gen_sound rnd RND false ltac:(discriminate) _ _ _ _ c m x E).
  now apply in_dom_diag.
Qed.
