(* Non-vacuity of the rescaling theorems (C11): a concrete 4-node instance, run twice
   (original weights / transformed weights) by [vm_compute]; the hypotheses of the general
   theorem are discharged for two strictly increasing maps ([2x+3] and [x^3-5]); and a
   non-monotone transform really changes the classifier. *)
From Coq Require Import List Arith Bool ZArith Lia.
From OPF Require Import Base.Lists Model.Heap Model.Sup Model.Knn Proofs.Rescale Proofs.RescaleKnn.
Import ListNotations.
Open Scope Z_scope.

Definition ex_wm : list (list Z) := [[0;3;7;9];[3;0;4;8];[7;4;0;2];[9;8;2;0]].
Definition ex_w (p q : nat) : Z := nth q (nth p ex_wm []) 0.
Definition ex_labels : list nat := [0;0;1;1]%nat.
Definition ex_top : Z := 1000000.
(* three queries: distances to the four training nodes *)
Definition ex_qs : list (list Z) := [[1;5;6;9];[8;6;1;3];[5;2;5;7]].
Definition ex_ds : list (nat -> Z) := map (fun row t => nth t row 0) ex_qs.

Definition ex_f (x : Z) : Z := 2 * x + 3.
Definition ex_g (x : Z) : Z := x * x * x - 5.

Lemma ex_f_inc a b : a < b -> ex_f a < ex_f b.
Proof. unfold ex_f; lia. Qed.

Lemma ex_g_inc a b : a < b -> ex_g a < ex_g b.
Proof.
  unfold ex_g; intros H. apply Z.lt_0_sub.
  assert (H3 : 0 < (b - a) * (a * a + a * b + b * b)).
  { apply Z.mul_pos_pos; [lia|].
    assert (H1 : 0 <= (2 * a + b) * (2 * a + b)) by apply Z.square_nonneg.
    assert (H2 : 0 <= b * b) by apply Z.square_nonneg.
    destruct (Z.eq_dec b 0) as [Hb|Hb].
    - subst b. assert (0 < a * a) by nia. lia.
    - assert (0 < b * b) by nia. lia. }
  replace (b * b * b - 5 - (a * a * a - 5)) with ((b - a) * (a * a + a * b + b * b)) in * by ring.
  lia.
Qed.

(* run 1: the original weights *)
Example ex_run :
  sup_fit Z.ltb 0 ex_top ex_labels ex_w
  = mkNodes [3; 0; 0; 2] [Some 1%nat; None; None; Some 2%nat] [0;0;1;1]%nat [0;0;1;1]%nat
            [false; true; true; false] [false; false; false; false] [1;2;3;0]%nat.
Proof. vm_compute. reflexivity. Qed.

(* run 2: weights, zero and top transformed by [2x+3]: costs are mapped, the rest is identical *)
Example ex_run_f :
  sup_fit Z.ltb (ex_f 0) (ex_f ex_top) ex_labels (fun p q => ex_f (ex_w p q))
  = mkNodes [9; 3; 3; 7] [Some 1%nat; None; None; Some 2%nat] [0;0;1;1]%nat [0;0;1;1]%nat
            [false; true; true; false] [false; false; false; false] [1;2;3;0]%nat.
Proof. vm_compute. reflexivity. Qed.

Example ex_run_g :
  sup_fit Z.ltb (ex_g 0) (ex_g ex_top) ex_labels (fun p q => ex_g (ex_w p q))
  = mkNodes [22; -5; -5; 3] [Some 1%nat; None; None; Some 2%nat] [0;0;1;1]%nat [0;0;1;1]%nat
            [false; true; true; false] [false; false; false; false] [1;2;3;0]%nat.
Proof. vm_compute. reflexivity. Qed.

(* the theorem, instantiated (hypothesis discharged by [ex_f_inc] / [ex_g_inc]) *)
Example ex_rescale_f :
  sup_fit Z.ltb (ex_f 0) (ex_f ex_top) ex_labels (fun p q => ex_f (ex_w p q))
  = map_nodes ex_f (sup_fit Z.ltb 0 ex_top ex_labels ex_w).
Proof. exact (rescale_sup_fit ex_f ex_f_inc 0 ex_top ex_labels ex_w). Qed.

Example ex_rescale_g :
  sup_fit Z.ltb (ex_g 0) (ex_g ex_top) ex_labels (fun p q => ex_g (ex_w p q))
  = map_nodes ex_g (sup_fit Z.ltb 0 ex_top ex_labels ex_w).
Proof. exact (rescale_sup_fit ex_g ex_g_inc 0 ex_top ex_labels ex_w). Qed.

(* ... and the instance agrees with the two computed runs *)
Example ex_rescale_f_check :
  map_nodes ex_f (sup_fit Z.ltb 0 ex_top ex_labels ex_w)
  = mkNodes [9; 3; 3; 7] [Some 1%nat; None; None; Some 2%nat] [0;0;1;1]%nat [0;0;1;1]%nat
            [false; true; true; false] [false; false; false; false] [1;2;3;0]%nat.
Proof. vm_compute. reflexivity. Qed.

(* prediction: same labels, same relevance marks, in both runs *)
Example ex_predict :
  predict_batch Z.ltb 0 (sup_fit Z.ltb 0 ex_top ex_labels ex_w) ex_ds
  = (mkNodes [3; 0; 0; 2] [Some 1%nat; None; None; Some 2%nat] [0;0;1;1]%nat [0;0;1;1]%nat
             [false; true; true; false] [true; true; true; false] [1;2;3;0]%nat,
     [0;1;0]%nat).
Proof. vm_compute. reflexivity. Qed.

Example ex_predict_f :
  predict_batch Z.ltb (ex_f 0) (sup_fit Z.ltb (ex_f 0) (ex_f ex_top) ex_labels (fun p q => ex_f (ex_w p q)))
                (map (fun d k => ex_f (d k)) ex_ds)
  = (mkNodes [9; 3; 3; 7] [Some 1%nat; None; None; Some 2%nat] [0;0;1;1]%nat [0;0;1;1]%nat
             [false; true; true; false] [true; true; true; false] [1;2;3;0]%nat,
     [0;1;0]%nat).
Proof. vm_compute. reflexivity. Qed.

Example ex_rescale_pipeline_f :
  predict_batch Z.ltb (ex_f 0) (sup_fit Z.ltb (ex_f 0) (ex_f ex_top) ex_labels (fun p q => ex_f (ex_w p q)))
                (map (fun d k => ex_f (d k)) ex_ds)
  = (map_nodes ex_f (fst (predict_batch Z.ltb 0 (sup_fit Z.ltb 0 ex_top ex_labels ex_w) ex_ds)),
     snd (predict_batch Z.ltb 0 (sup_fit Z.ltb 0 ex_top ex_labels ex_w) ex_ds)).
Proof. exact (rescale_pipeline ex_f ex_f_inc 0 ex_top ex_labels ex_w ex_ds). Qed.

(* the monotonicity hypothesis cannot be dropped: [x |-> (x-4)^2] changes the assigned labels
   (training node 3, of class 1, is conquered by class 0) *)
Definition ex_bad (x : Z) : Z := (x - 4) * (x - 4).

Example rescale_needs_monotone :
  n_plabel (sup_fit Z.ltb (ex_bad 0) (ex_bad ex_top) ex_labels (fun p q => ex_bad (ex_w p q)))
  <> n_plabel (sup_fit Z.ltb 0 ex_top ex_labels ex_w).
Proof. vm_compute. discriminate. Qed.

(* KNN layer: the 2-nearest-neighbour graph of the same instance *)
Example ex_arcs :
  create_arcs Z.ltb 0 ex_top 1 100 2 4 ex_w (knn_init 0 ex_labels)
  = (mkKnn [0;0;1;1]%nat [[1;2]%nat; [0;2]%nat; [3;1]%nat; [2;1]%nat] [7; 4; 4; 8] [0;0;0;0]%nat
           [0;0;0;0] [0;0;0;0] [None;None;None;None] [0;0;0;0]%nat [0;0;0;0]%nat [0;0;0;0]%nat [] 8 0%nat,
     [3; 8]).
Proof. vm_compute. reflexivity. Qed.

Example ex_rescale_arcs_f :
  create_arcs Z.ltb (ex_f 0) (ex_f ex_top) (ex_f 1) (ex_f 100) 2 4 (fun p q => ex_f (ex_w p q))
              (map_knn ex_f (knn_init 0 ex_labels))
  = (map_knn ex_f (fst (create_arcs Z.ltb 0 ex_top 1 100 2 4 ex_w (knn_init 0 ex_labels))),
     map ex_f (snd (create_arcs Z.ltb 0 ex_top 1 100 2 4 ex_w (knn_init 0 ex_labels)))).
Proof. exact (rescale_create_arcs ex_f ex_f_inc 0 ex_top 1 100 2 4 ex_w (knn_init 0 ex_labels)). Qed.
