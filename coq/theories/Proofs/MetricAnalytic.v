(* C08, non-negativity and zero self-distance: the metrics that need an inequality
   (Cauchy-Schwarz, ln t <= t - 1). *)
From Coq Require Import Reals List Lra Lia.
From OPF Require Import Spec.MetricSpec Proofs.MetricLemmas.
Import ListNotations.
Open Scope R_scope.

(* ================================================================== *)
(* inner-product family                                                *)
(* ================================================================== *)

(* Non-negativity holds for all real vectors of equal length: when a denominator
   vanishes Coq's [/ 0 = 0] makes the quotient 0. *)
Lemma nonneg_cosine : forall x y, length x = length y -> (1 <= length x)%nat -> 0 <= sp_cosine x y.
Proof.
  intros x y Hl _. unfold sp_cosine.
  pose proof (cauchy_schwarz_sqrt x y Hl) as HCS.
  pose proof (sqrt_pos (dot x x)) as HX. pose proof (sqrt_pos (dot y y)) as HY.
  set (c := sqrt (dot x x) * sqrt (dot y y)) in *.
  assert (Hc : 0 <= c) by (apply Rmult_le_pos; auto).
  destruct (Req_dec c 0) as [E|E].
  - rewrite E. unfold Rdiv. rewrite Rinv_0. lra.
  - assert (dot x y / c <= 1) by (apply div_le_1; lra). lra.
Qed.

Lemma zero_self_cosine : forall x, (1 <= length x)%nat -> all_pos x -> sp_cosine x x = 0.
Proof.
  intros x H1 Hx. unfold sp_cosine.
  pose proof (dot_self_pos x H1 Hx) as HX.
  rewrite sqrt_sqrt by lra. rewrite div_self; lra.
Qed.

Lemma nonneg_chord : forall x y, length x = length y -> (1 <= length x)%nat -> 0 <= sp_chord x y.
Proof. intros x y _ _. apply sqrt_pos. Qed.

Lemma zero_self_chord : forall x, (1 <= length x)%nat -> all_pos x -> sp_chord x x = 0.
Proof.
  intros x H1 Hx. unfold sp_chord.
  pose proof (dot_self_pos x H1 Hx) as HX.
  rewrite sqrt_sqrt by lra. rewrite div_self by lra.
  replace (2 - 2 * 1) with 0 by ring. apply sqrt_0.
Qed.

Lemma nonneg_dice : forall x y, length x = length y -> (1 <= length x)%nat -> 0 <= sp_dice x y.
Proof.
  intros x y Hl _. unfold sp_dice.
  pose proof (sqeuclid_expand x y Hl) as HE.
  assert (HS : 0 <= sum2 (fun a b => (a - b) ^ 2) x y)
    by (apply sum2_nonneg; intros; apply pow2_ge_0).
  pose proof (dot_self_nonneg x) as HX. pose proof (dot_self_nonneg y) as HY.
  destruct (Req_dec (dot x x + dot y y) 0) as [E|E].
  - rewrite E. unfold Rdiv. rewrite Rinv_0. lra.
  - assert (2 * dot x y / (dot x x + dot y y) <= 1) by (apply div_le_1; lra). lra.
Qed.

Lemma zero_self_dice : forall x, (1 <= length x)%nat -> all_pos x -> sp_dice x x = 0.
Proof.
  intros x H1 Hx. unfold sp_dice.
  pose proof (dot_self_pos x H1 Hx) as HX. field. lra.
Qed.

Lemma nonneg_jaccard : forall x y, length x = length y -> (1 <= length x)%nat -> 0 <= sp_jaccard x y.
Proof.
  intros x y Hl _. unfold sp_jaccard, sp_squared_euclidean.
  pose proof (sqeuclid_expand x y Hl) as HE.
  assert (HS : 0 <= sum2 (fun a b => (a - b) ^ 2) x y)
    by (apply sum2_nonneg; intros; apply pow2_ge_0).
  pose proof (dot_self_nonneg x) as HX. pose proof (dot_self_nonneg y) as HY.
  destruct (Req_dec (dot x x + dot y y - dot x y) 0) as [E|E].
  - rewrite E. unfold Rdiv. rewrite Rinv_0. lra.
  - apply div_nonneg; lra.
Qed.

Lemma zero_self_jaccard : forall x, (1 <= length x)%nat -> sp_jaccard x x = 0.
Proof.
  intros x _. unfold sp_jaccard, sp_squared_euclidean.
  rewrite sum2_diag_zero by (intros; ring). apply zero_div.
Qed.

(* ================================================================== *)
(* bhattacharyya (probability vectors: sum exactly 1)                  *)
(* ================================================================== *)
Lemma fidelity_le_1 x y :
  length x = length y -> all_nonneg x -> all_nonneg y -> sum x = 1 -> sum y = 1 ->
  sum2 (fun a b => sqrt (a * b)) x y <= 1.
Proof.
  intros Hl Hx Hy Sx Sy.
  rewrite (sum2_ext_on _ _ _ (fun a b => sqrt a * sqrt b) _ _ Hx Hy)
    by (intros a b Ha Hb; now apply sqrt_mult).
  rewrite <- (sum2_map sqrt sqrt Rmult). fold (dot (map sqrt x) (map sqrt y)).
  assert (Hl' : length (map sqrt x) = length (map sqrt y)) by now rewrite !map_length.
  pose proof (cauchy_schwarz_sqrt _ _ Hl') as HCS.
  assert (D : forall z, all_nonneg z -> dot (map sqrt z) (map sqrt z) = sum z).
  { intros z Hz. unfold dot. rewrite sum2_map.
    apply (sum2_diag_id_on _ _ _ Hz). intros a Ha. now apply sqrt_sqrt. }
  rewrite (D x Hx), (D y Hy), Sx, Sy, sqrt_1 in HCS. lra.
Qed.

Lemma nonneg_bhattacharyya_gen x y :
  length x = length y -> all_nonneg x -> all_nonneg y -> sum x = 1 -> sum y = 1 ->
  0 <= sp_bhattacharyya x y.
Proof.
  intros Hl Hx Hy Sx Sy. unfold sp_bhattacharyya.
  pose proof (fidelity_le_1 x y Hl Hx Hy Sx Sy) as H.
  set (S := sum2 (fun a b => sqrt (a * b)) x y) in *.
  destruct (Rlt_dec 0 S) as [Hp|Hn].
  - pose proof (ln_nonpos S Hp H). lra.
  - rewrite ln_nonpos_arg by lra. lra.
Qed.

Lemma nonneg_bhattacharyya : forall x y, length x = length y -> (1 <= length x)%nat -> all_pos x -> all_pos y -> sum x = 1 -> sum y = 1 -> 0 <= sp_bhattacharyya x y.
Proof.
  intros x y Hl _ Hx Hy. apply nonneg_bhattacharyya_gen; auto using all_pos_nonneg.
Qed.

Lemma zero_self_bhattacharyya_gen x : all_nonneg x -> sum x = 1 -> sp_bhattacharyya x x = 0.
Proof.
  intros Hx Sx. unfold sp_bhattacharyya.
  rewrite (sum2_diag_id_on _ _ _ Hx) by (intros a Ha; now apply sqrt_square).
  rewrite Sx, ln_1. ring.
Qed.

Lemma zero_self_bhattacharyya : forall x, (1 <= length x)%nat -> all_pos x -> sum x = 1 -> sp_bhattacharyya x x = 0.
Proof. intros x _ Hx. apply zero_self_bhattacharyya_gen; auto using all_pos_nonneg. Qed.

(* without the unit-sum normalisation both axioms fail (x = y = [2]: -ln 2 < 0) *)
Lemma bhattacharyya_needs_unit_sum : exists x, all_pos x /\ sp_bhattacharyya x x < 0.
Proof.
  exists [2]. split; [repeat constructor; lra|].
  unfold sp_bhattacharyya. rewrite sum2_cons, sum2_nil, Rplus_0_r.
  rewrite sqrt_square by lra. pose proof ln_lt_2. lra.
Qed.

(* ================================================================== *)
(* Shannon-entropy family                                              *)
(* ================================================================== *)
Lemma jeffreys_point a b : 0 < a -> 0 < b -> 0 <= (a - b) * ln (a / b).
Proof.
  intros Ha Hb. rewrite ln_quot by auto.
  destruct (Rtotal_order a b) as [H|[H|H]].
  - pose proof (ln_increasing a b Ha H). nra.
  - subst. nra.
  - pose proof (ln_increasing b a Hb H). nra.
Qed.

Lemma nonneg_jeffreys : forall x y, length x = length y -> (1 <= length x)%nat -> all_pos x -> all_pos y -> 0 <= sp_jeffreys x y.
Proof.
  intros x y _ _ Hx Hy. apply (sum2_nonneg_on _ _ _ _ _ Hx Hy).
  intros a b Ha Hb. now apply jeffreys_point.
Qed.

Lemma zero_self_jeffreys : forall x, (1 <= length x)%nat -> sp_jeffreys x x = 0.
Proof. intros x _. apply sum2_diag_zero. intros a. ring. Qed.

(* a ln(a/a) = 0 for every real a *)
Lemma self_ln_zero a t : (a <> 0 -> t = 1) -> a * ln t = 0.
Proof.
  intros H. destruct (Req_dec a 0) as [E|E]; [rewrite E; ring|].
  rewrite (H E), ln_1. ring.
Qed.

Lemma nonneg_kullback_leibler : forall x y, length x = length y -> (1 <= length x)%nat -> all_pos x -> all_pos y -> sum x = sum y -> 0 <= sp_kullback_leibler x y.
Proof.
  intros x y Hl _ Hx Hy HS. unfold sp_kullback_leibler.
  apply Rle_trans with (sum2 (fun a b => a - b) x y).
  - rewrite (sum2_minus_sums x y Hl). lra.
  - apply (sum2_le_on _ _ _ _ _ _ Hx Hy). intros a b Ha Hb. now apply gibbs_point.
Qed.

Lemma zero_self_kullback_leibler : forall x, (1 <= length x)%nat -> sp_kullback_leibler x x = 0.
Proof.
  intros x _. apply sum2_diag_zero. intros a.
  apply self_ln_zero. intros; now apply div_self.
Qed.

Lemma kdiv_point a b : 0 < a -> 0 < b -> (a - b) / 2 <= a * ln (2 * a / (a + b)).
Proof.
  intros Ha Hb.
  replace (2 * a / (a + b)) with (a / ((a + b) / 2)) by (field; lra).
  pose proof (gibbs_point a ((a + b) / 2) Ha) as H. lra.
Qed.

Lemma nonneg_k_divergence : forall x y, length x = length y -> (1 <= length x)%nat -> all_pos x -> all_pos y -> sum x = sum y -> 0 <= sp_k_divergence x y.
Proof.
  intros x y Hl _ Hx Hy HS. unfold sp_k_divergence.
  apply Rle_trans with (sum2 (fun a b => / 2 * (a - b)) x y).
  - rewrite <- (sum2_scal (/ 2) (fun a b => a - b)), (sum2_minus_sums x y Hl). lra.
  - apply (sum2_le_on _ _ _ _ _ _ Hx Hy). intros a b Ha Hb.
    pose proof (kdiv_point a b Ha Hb). lra.
Qed.

Lemma zero_self_k_divergence : forall x, (1 <= length x)%nat -> sp_k_divergence x x = 0.
Proof.
  intros x _. apply sum2_diag_zero. intros a.
  apply self_ln_zero. intros; field; lra.
Qed.

(* topsoe as a single sum of pointwise non-negative terms; no equal-sum hypothesis *)
Lemma topsoe_as_sum2 x y :
  sp_topsoe x y
  = sum2 (fun a b => a * ln (2 * a / (a + b)) + b * ln (2 * b / (b + a))) x y.
Proof.
  unfold sp_topsoe, sp_k_divergence.
  rewrite (sum2_swap _ y x). apply sum2_plus.
Qed.

Lemma nonneg_topsoe : forall x y, length x = length y -> (1 <= length x)%nat -> all_pos x -> all_pos y -> 0 <= sp_topsoe x y.
Proof.
  intros x y _ _ Hx Hy. rewrite topsoe_as_sum2.
  apply (sum2_nonneg_on _ _ _ _ _ Hx Hy). intros a b Ha Hb.
  pose proof (kdiv_point a b Ha Hb). pose proof (kdiv_point b a Hb Ha). lra.
Qed.

Lemma zero_self_topsoe : forall x, (1 <= length x)%nat -> sp_topsoe x x = 0.
Proof. intros x H. unfold sp_topsoe. rewrite (zero_self_k_divergence x H). ring. Qed.

Lemma nonneg_jensen_shannon : forall x y, length x = length y -> (1 <= length x)%nat -> all_pos x -> all_pos y -> 0 <= sp_jensen_shannon x y.
Proof.
  intros x y Hl H1 Hx Hy. unfold sp_jensen_shannon.
  pose proof (nonneg_topsoe x y Hl H1 Hx Hy). lra.
Qed.

Lemma zero_self_jensen_shannon : forall x, (1 <= length x)%nat -> sp_jensen_shannon x x = 0.
Proof. intros x H. unfold sp_jensen_shannon. rewrite (zero_self_topsoe x H). ring. Qed.

Lemma jensen_point a b :
  0 < a -> 0 < b ->
  0 <= (a * ln a + b * ln b) / 2 - (a + b) / 2 * ln ((a + b) / 2).
Proof.
  intros Ha Hb.
  assert (Hm : 0 < (a + b) / 2) by lra.
  pose proof (gibbs_point a _ Ha Hm) as H1. pose proof (gibbs_point b _ Hb Hm) as H2.
  rewrite ln_quot in H1, H2 by auto.
  set (m := (a + b) / 2) in *.
  replace (a + b) with (2 * m) by (unfold m; field).
  generalize dependent (ln m). generalize (ln a) (ln b). intros la lb lm H1 H2.
  assert (E : a + b = 2 * m) by (unfold m; field).
  nra.
Qed.

Lemma nonneg_jensen : forall x y, length x = length y -> (1 <= length x)%nat -> all_pos x -> all_pos y -> 0 <= sp_jensen x y.
Proof.
  intros x y _ _ Hx Hy. unfold sp_jensen. apply Rmult_le_pos; [lra|].
  apply (sum2_nonneg_on _ _ _ _ _ Hx Hy). intros a b Ha Hb. now apply jensen_point.
Qed.

Lemma zero_self_jensen : forall x, (1 <= length x)%nat -> sp_jensen x x = 0.
Proof.
  intros x _. unfold sp_jensen. rewrite sum2_diag_zero; [ring|]. intros a.
  replace ((a + a) / 2) with a by field. unfold Rdiv. field.
Qed.
