(* The loop invariant of [find_prototypes] (Model/Sup.v): the model of
   SupervisedOPF._find_prototypes grows a tree along lightest cut arcs ([prim_grown]) and
   marks exactly the endpoints of class-crossing tree arcs.  Uses only the proved heap
   specification (Proofs/HeapInv.v). *)
From Coq Require Import List Arith Bool ZArith Lia Permutation.
From OPF Require Import Base.Lists Model.Heap Model.Sup Spec.Paths Spec.Trees
  Proofs.HeapBase Proofs.HeapInv Proofs.PrimLists Proofs.PrimGraph.
Import ListNotations.
Open Scope nat_scope.

(* ------------------------------------------------------------------ *)
(* mark_proto                                                          *)

Lemma mark_proto_length st lb p pr : length (mark_proto st lb p pr) = length st.
Proof.
  unfold mark_proto. destruct pr as [pd|]; [|reflexivity].
  destruct (negb _); [|reflexivity]. rewrite !upd_length. reflexivity.
Qed.

Lemma mark_proto_spec st lb p pd q : p < length st -> pd < length st ->
  (nth q (mark_proto st lb p (Some pd)) false = true <->
   nth q st false = true \/ (nth p lb 0 <> nth pd lb 0 /\ (q = p \/ q = pd))).
Proof.
  intros Hp Hpd. unfold mark_proto.
  destruct (Nat.eqb_spec (nth p lb 0) (nth pd lb 0)) as [E|E]; cbn [negb].
  - split; [auto|]. intros [H|[H _]]; [exact H|contradiction].
  - destruct (Nat.eq_dec q pd) as [->|Hqpd].
    + rewrite nth_upd_eq by (rewrite upd_length; exact Hpd). split; auto.
    + rewrite nth_upd_neq by auto.
      destruct (Nat.eq_dec q p) as [->|Hqp].
      * rewrite nth_upd_eq by exact Hp. split; auto.
      * rewrite nth_upd_neq by auto. split; [auto|]. intros [H|[_ [H|H]]]; auto; contradiction.
Qed.

(* ------------------------------------------------------------------ *)
(* unfolding                                                           *)

Lemma prim_loop_S top f n w h (nd : @nodes Z) :
  prim_loop Z.ltb top (S f) n w h nd =
  match remove Z.ltb top h with
  | (_, None) => (h, nd)
  | (h1, Some p) =>
      let '(h2, pred) := fold_left (prim_relax Z.ltb top w p) (seq 0 n) (h1, n_pred nd) in
      prim_loop Z.ltb top f n w h2
        (mkNodes (upd (n_cost nd) p (hcost_at top h1 p)) pred (n_label nd) (n_plabel nd)
                 (mark_proto (n_status nd) (n_label nd) p (nth p (n_pred nd) None))
                 (n_relevant nd) (n_order nd))
  end.
Proof. reflexivity. Qed.

Lemma find_prototypes_pos top n f w (nd : @nodes Z) : n = S f ->
  find_prototypes Z.ltb top n w nd =
  snd (prim_loop Z.ltb top (S f) n w (fst (insert Z.ltb top (h_init top n PMin) 0))
         (mkNodes (n_cost nd) (upd (n_pred nd) 0 None) (n_label nd) (n_plabel nd)
                  (n_status nd) (n_relevant nd) (n_order nd))).
Proof.
  intros ->. unfold find_prototypes.
  destruct (insert Z.ltb top (h_init top (S f) PMin) 0) as [h1 b]. reflexivity.
Qed.

Section Prim.
  Variable top : Z.
  Variable n : nat.
  Variable w : nat -> nat -> Z.

  Notation remove := (remove Z.ltb top).
  Notation update := (update Z.ltb top).
  Notation insert := (insert Z.ltb top).
  Notation prim_relax := (prim_relax Z.ltb top).
  Notation prim_loop := (prim_loop Z.ltb top).
  Notation hc := (hcost_at top).

  Definition colr (h : heap Z) (q : nat) : color := nth q (hcolor h) White.
  Definition predf (pred : list (option nat)) (q : nat) : option nat := nth q pred None.

  (* ---------------------------------------------------------------- *)
  (* one relaxation                                                    *)

  Definition relaxed (p : nat) (h : heap Z) (q : nat) : Prop :=
    colr h q <> Black /\ q <> p /\ (w p q < hc h q)%Z.

  Lemma relaxed_dec p h q : relaxed p h q \/ ~ relaxed p h q.
  Proof.
    unfold relaxed.
    destruct (Nat.eq_dec q p) as [E|E]; [right; tauto|].
    destruct (Z_lt_dec (w p q) (hc h q)) as [L|L]; [|right; tauto].
    destruct (colr h q) eqn:C; try (left; repeat split; [discriminate|assumption|assumption]).
    right. intros [H _]. congruence.
  Qed.

  Lemma relaxed_same p h h' q :
    hc h' q = hc h q -> colr h' q = colr h q -> (relaxed p h' q <-> relaxed p h q).
  Proof. unfold relaxed. intros -> ->. tauto. Qed.

  Lemma prim_relax_yes p h pred q : relaxed p h q ->
    prim_relax w p (h, pred) q = (update h q (w p q), upd pred q (Some p)).
  Proof.
    intros (Hc & Hne & Hlt). unfold Sup.prim_relax, is_black. unfold colr in Hc.
    destruct (nth q (hcolor h) White) eqn:C; try congruence;
      (destruct (Nat.eqb_spec p q) as [E|_]; [congruence|]); cbn [negb andb];
      (destruct (Z.ltb_spec (w p q) (hc h q)) as [_|L]; [reflexivity|lia]).
  Qed.

  Lemma prim_relax_no p h pred q : ~ relaxed p h q -> prim_relax w p (h, pred) q = (h, pred).
  Proof.
    intros Hn. unfold Sup.prim_relax, is_black.
    destruct (nth q (hcolor h) White) eqn:C; cbn [negb andb]; try reflexivity;
      (destruct (Nat.eqb_spec p q) as [E|E]; cbn [negb]; [reflexivity|]);
      (destruct (Z.ltb_spec (w p q) (hc h q)) as [L|L]; [|reflexivity]);
      exfalso; apply Hn; (repeat split; [unfold colr; rewrite C; discriminate|congruence|exact L]).
  Qed.

  Lemma black_not_full h p : Inv h -> p < hsize h -> colr h p = Black -> hn h < hsize h.
  Proof.
    intros HI Hp Hb.
    assert (Hnq : ~ In p (queued h)).
    { intros Hin. apply (inv_color h HI p Hp) in Hin. unfold colr in Hb. congruence. }
    assert (Hnd : NoDup (p :: queued h)) by (constructor; [exact Hnq|apply inv_nodup; exact HI]).
    assert (Hincl : incl (p :: queued h) (seq 0 (hsize h))).
    { intros x [<-|Hx]; apply in_seq; [lia|]. pose proof (inv_range h HI x Hx). lia. }
    pose proof (NoDup_incl_length Hnd Hincl) as Hle. rewrite seq_length in Hle.
    cbn [length] in Hle. rewrite (queued_length h (Inv_WF h HI)) in Hle. lia.
  Qed.

  Lemma update_nonblack h p q c :
    Inv h -> hsize h = n -> hpol h = PMin -> p < n -> colr h p = Black ->
    q < n -> colr h q <> Black -> (c < hc h q)%Z ->
    Inv (update h q c) /\ hsize (update h q c) = n /\ hpol (update h q c) = PMin /\
    hcost (update h q c) = upd (hcost h) q c /\
    (forall x, colr (update h q c) x = if Nat.eqb q x then Gray else colr h x).
  Proof.
    intros HI Hs Hpol Hp Hbp Hq Hcq Hlt.
    destruct (colr h q) eqn:C; [| |congruence]; unfold colr in C.
    - (* White *)
      assert (Hroom : hn h < hsize h) by (apply (black_not_full h p); [exact HI|lia|exact Hbp]).
      destruct (update_white_spec top h q c HI ltac:(lia) C Hroom) as (A & _ & B & D & E & F).
      split; [exact A|]. split; [congruence|]. split; [congruence|]. split; [exact B|].
      intros x. unfold colr. rewrite D. rewrite nth_upd.
      destruct (Nat.eqb_spec q x) as [->|_]; [|reflexivity].
      rewrite (inv_lcolor h HI). destruct (Nat.ltb_spec x (hsize h)); [reflexivity|lia].
    - (* Gray *)
      assert (Hin : In q (queued h)) by (apply (inv_color h HI q ltac:(lia)); exact C).
      assert (Hb : better Z.ltb (hpol h) (cost top h q) c = false).
      { rewrite Hpol. unfold better, cost. unfold hcost_at in Hlt. lia. }
      destruct (update_gray_spec top h q c HI Hin Hb) as (A & _ & B & D & E & F).
      split; [exact A|]. split; [congruence|]. split; [congruence|]. split; [exact B|].
      intros x. unfold colr. rewrite D.
      destruct (Nat.eqb_spec q x) as [<-|_]; [exact C|reflexivity].
  Qed.

  (* ---------------------------------------------------------------- *)
  (* the relaxation sweep                                              *)

  Lemma relax_fold p : forall l h pred h' pred',
    NoDup l -> (forall q, In q l -> q < n) ->
    Inv h -> hsize h = n -> hpol h = PMin -> length pred = n -> p < n -> colr h p = Black ->
    fold_left (prim_relax w p) l (h, pred) = (h', pred') ->
    Inv h' /\ hsize h' = n /\ hpol h' = PMin /\ length pred' = n /\
    forall q,
      (In q l /\ relaxed p h q ->
         hc h' q = w p q /\ predf pred' q = Some p /\ colr h' q = Gray) /\
      (~ (In q l /\ relaxed p h q) ->
         hc h' q = hc h q /\ predf pred' q = predf pred q /\ colr h' q = colr h q).
  Proof.
    induction l as [|a l IH]; intros h pred h' pred' Hnd Hlt HI Hs Hpol Hlp Hp Hbp Hf.
    - cbn in Hf. injection Hf as <- <-.
      split; [exact HI|]. split; [exact Hs|]. split; [exact Hpol|]. split; [exact Hlp|].
      intros q. split; [intros [[] _]|intros _; repeat split].
    - cbn [fold_left] in Hf.
      apply NoDup_cons_iff in Hnd. destruct Hnd as [Hal Hnd].
      assert (Ha : a < n) by (apply Hlt; left; reflexivity).
      assert (Hlt' : forall q, In q l -> q < n) by (intros q Hq; apply Hlt; right; exact Hq).
      destruct (relaxed_dec p h a) as [Hr|Hr].
      + rewrite (prim_relax_yes p h pred a Hr) in Hf.
        destruct Hr as (Hca & Hap & Hwa).
        destruct (update_nonblack h p a (w p a) HI Hs Hpol Hp Hbp Ha Hca Hwa)
          as (HI1 & Hs1 & Hpol1 & Hc1 & Hcol1).
        assert (Hbp1 : colr (update h a (w p a)) p = Black).
        { rewrite Hcol1. destruct (Nat.eqb_spec a p); [congruence|exact Hbp]. }
        assert (Hlp1 : length (upd pred a (Some p)) = n) by (rewrite upd_length; exact Hlp).
        destruct (IH _ _ h' pred' Hnd Hlt' HI1 Hs1 Hpol1 Hlp1 Hp Hbp1 Hf)
          as (HI' & Hs' & Hpol' & Hlp' & Hq).
        split; [exact HI'|]. split; [exact Hs'|]. split; [exact Hpol'|]. split; [exact Hlp'|].
        intros q. destruct (Nat.eq_dec q a) as [->|Hne].
        * split.
          { intros _. destruct (Hq a) as [_ H2]. destruct H2 as (E1 & E2 & E3); [tauto|].
            rewrite E1, E2, E3. split; [|split].
            - unfold hcost_at. rewrite Hc1. apply nth_upd_eq. rewrite (inv_lcost h HI). lia.
            - unfold predf. apply nth_upd_eq. lia.
            - rewrite Hcol1, Nat.eqb_refl. reflexivity. }
          { intros H. exfalso. apply H. split; [left; reflexivity|].
            split; [exact Hca|]. split; [exact Hap|exact Hwa]. }
        * assert (E1 : hc (update h a (w p a)) q = hc h q).
          { unfold hcost_at. rewrite Hc1. apply nth_upd_neq; auto. }
          assert (E3 : colr (update h a (w p a)) q = colr h q).
          { rewrite Hcol1. destruct (Nat.eqb_spec a q); [congruence|reflexivity]. }
          assert (E2 : predf (upd pred a (Some p)) q = predf pred q).
          { unfold predf. apply nth_upd_neq; auto. }
          destruct (Hq q) as [H1 H2]. split.
          { intros [Hin Hrq]. apply H1. split; [destruct Hin; congruence|].
            apply (relaxed_same p h _ q E1 E3). exact Hrq. }
          { intros H. destruct H2 as (F1 & F2 & F3).
            - intros [Hin Hrq]. apply H. split; [right; exact Hin|].
              apply (relaxed_same p h _ q E1 E3). exact Hrq.
            - rewrite F1, F2, F3, E1, E2, E3. repeat split. }
      + rewrite (prim_relax_no p h pred a Hr) in Hf.
        destruct (IH _ _ h' pred' Hnd Hlt' HI Hs Hpol Hlp Hp Hbp Hf)
          as (HI' & Hs' & Hpol' & Hlp' & Hq).
        split; [exact HI'|]. split; [exact Hs'|]. split; [exact Hpol'|]. split; [exact Hlp'|].
        intros q. destruct (Hq q) as [H1 H2]. split.
        * intros [Hin Hrq]. apply H1. split; [|exact Hrq].
          destruct Hin as [<-|Hin]; [contradiction|exact Hin].
        * intros H. apply H2. intros [Hin Hrq]. apply H.
          split; [right; exact Hin|exact Hrq].
  Qed.

  (* ---------------------------------------------------------------- *)
  (* the loop invariant                                                *)

  Variable labels : list nat.
  Definition lab (q : nat) : nat := nth q labels 0.

  (* [bl]: the Black (removed) nodes, newest first; [nd0]: the nodes before the pass *)
  Record PI (nd0 : @nodes Z) (bl : list nat) (h : heap Z) (nd : @nodes Z) : Prop := mkPI {
    pi_inv : Inv h; pi_size : hsize h = n; pi_pol : hpol h = PMin;
    pi_lcost : length (n_cost nd) = n;
    pi_lpred : length (n_pred nd) = n;
    pi_lstat : length (n_status nd) = n;
    pi_label : n_label nd = labels;
    pi_plabel : n_plabel nd = n_plabel nd0;
    pi_relevant : n_relevant nd = n_relevant nd0;
    pi_order : n_order nd = n_order nd0;
    pi_black : forall q, q < n -> (colr h q = Black <-> In q bl);
    pi_gray : forall q, q < n -> ~ In q bl ->
       colr h q = Gray /\
       exists pd, predf (n_pred nd) q = Some pd /\ In pd bl /\ hc h q = w pd q /\
                  forall x, In x bl -> (w pd q <= w x q)%Z;
    pi_root : In 0 bl /\ predf (n_pred nd) 0 = None;
    pi_grown : prim_grown n w (predf (n_pred nd)) bl;
    pi_status : forall q, q < n -> (nth q (n_status nd) false = true <->
       exists r, In q bl /\ In r bl /\ tree_arc (predf (n_pred nd)) q r /\ lab q <> lab r) }.

  Lemma tree_arc_ext (f g : nat -> option nat) a b :
    f a = g a -> f b = g b -> (tree_arc f a b <-> tree_arc g a b).
  Proof. unfold tree_arc. intros -> ->. tauto. Qed.

  (* one iteration of the main loop, at least one node already Black *)
  Lemma prim_iter nd0 bl h nd : PI nd0 bl h nd -> length bl < n ->
    exists p h1 h2 pred2,
      remove h = (h1, Some p) /\
      fold_left (prim_relax w p) (seq 0 n) (h1, n_pred nd) = (h2, pred2) /\
      PI nd0 (p :: bl) h2
         (mkNodes (upd (n_cost nd) p (hc h1 p)) pred2 (n_label nd) (n_plabel nd)
                  (mark_proto (n_status nd) (n_label nd) p (nth p (n_pred nd) None))
                  (n_relevant nd) (n_order nd)).
  Proof.
    intros P Hlen.
    destruct P as [HI Hs Hpol Hlc Hlp Hlst Hlab Hpl Hrel Hord Hblack Hgray [H0in H0p] Hpg Hstat].
    pose proof (prim_grown_grown _ _ _ _ Hpg) as Hg.
    pose proof (grown_NoDup _ _ Hg) as Hnd.
    pose proof (prim_grown_lt _ _ _ _ Hpg) as Hbllt.
    (* the heap is not empty *)
    destruct (pigeon_missing n bl Hnd Hlen) as [y0 [Hy0 Hy0n]].
    assert (Hgray_q : forall q, q < n -> ~ In q bl -> In q (queued h)).
    { intros q Hq Hqn. apply (inv_color h HI q ltac:(lia)). apply (Hgray q Hq Hqn). }
    assert (Hpos : 0 < hn h).
    { pose proof (Hgray_q y0 Hy0 Hy0n) as Hin. unfold queued in Hin.
      destruct (hn h); [destruct Hin|lia]. }
    destruct (remove_spec top h HI Hpos)
      as (p & h1 & Hrem & Hpin & Hmin & _ & HI1 & Hc1 & Hcol1 & Hs1 & Hpol1).
    assert (Hp : p < n) by (rewrite <- Hs; apply (inv_range h HI); exact Hpin).
    assert (Hpgray : colr h p = Gray) by (apply (inv_color h HI p ltac:(lia)); exact Hpin).
    assert (Hpn : ~ In p bl).
    { intros Hin. apply (Hblack p Hp) in Hin. congruence. }
    destruct (Hgray p Hp Hpn) as [_ (pd & Hppd & Hpdin & Hpc & Hpmin)].
    assert (Hpd : pd < n) by (apply Hbllt; exact Hpdin).
    (* colours and costs after the removal *)
    assert (Hcolr1 : forall x, colr h1 x = if Nat.eqb p x then Black else colr h x).
    { intros x. unfold colr. rewrite Hcol1, nth_upd. rewrite (inv_lcolor h HI), Hs.
      destruct (Nat.eqb_spec p x); [|reflexivity].
      destruct (Nat.ltb_spec p n); [reflexivity|lia]. }
    assert (Hhc1 : forall x, hc h1 x = hc h x) by (intros x; unfold hcost_at; rewrite Hc1; reflexivity).
    assert (Hbp1 : colr h1 p = Black) by (rewrite Hcolr1, Nat.eqb_refl; reflexivity).
    (* the cut condition *)
    assert (Hcut : forall x y, In x bl -> y < n -> ~ In y bl -> (w pd p <= w x y)%Z).
    { intros x y Hx Hy Hyn.
      destruct (Hgray y Hy Hyn) as [_ (pdy & _ & _ & Hyc & Hymin)].
      pose proof (Hmin y (Hgray_q y Hy Hyn)) as Hb.
      rewrite Hpol in Hb. unfold better, cost in Hb. unfold hcost_at in Hpc, Hyc.
      specialize (Hymin x Hx). lia. }
    (* the sweep *)
    destruct (fold_left (prim_relax w p) (seq 0 n) (h1, n_pred nd)) as [h2 pred2] eqn:Hfold.
    destruct (relax_fold p (seq 0 n) h1 (n_pred nd) h2 pred2 (seq_NoDup n 0)
                ltac:(intros q Hq; apply in_seq in Hq; lia) HI1 ltac:(congruence)
                ltac:(congruence) Hlp Hp Hbp1 Hfold) as (HI2 & Hs2 & Hpol2 & Hlp2 & Hsw).
    assert (Hblk : forall x, In x (p :: bl) -> x < n ->
              hc h2 x = hc h1 x /\ predf pred2 x = predf (n_pred nd) x /\ colr h2 x = colr h1 x).
    { intros x Hx Hxn. apply (Hsw x). intros [_ (Hc & Hne & _)].
      destruct Hx as [<-|Hx]; [congruence|]. apply Hc. rewrite Hcolr1.
      destruct (Nat.eqb_spec p x); [reflexivity|]. apply (Hblack x Hxn); exact Hx. }
    assert (Hpred_bl : forall x, In x (p :: bl) -> predf pred2 x = predf (n_pred nd) x).
    { intros x Hx. apply Hblk; [exact Hx|]. destruct Hx as [<-|Hx]; [exact Hp|apply Hbllt; exact Hx]. }
    exists p, h1, h2, pred2. split; [exact Hrem|]. split; [exact Hfold|].
    constructor; cbn [n_cost n_pred n_label n_plabel n_status n_relevant n_order]; try assumption.
    - rewrite upd_length; exact Hlc.
    - rewrite mark_proto_length; exact Hlst.
    - (* black *)
      intros q Hq. destruct (Nat.eq_dec q p) as [->|Hne].
      + destruct (Hblk p (or_introl eq_refl) Hp) as (_ & _ & E). rewrite E, Hbp1.
        split; [intros _; left; reflexivity|reflexivity].
      + destruct (in_dec Nat.eq_dec q bl) as [Hin|Hnin].
        * destruct (Hblk q (or_intror Hin) Hq) as (_ & _ & E). rewrite E, Hcolr1.
          destruct (Nat.eqb_spec p q); [congruence|].
          split; [intros _; right; exact Hin|intros _; apply (Hblack q Hq); exact Hin].
        * assert (Hg2 : colr h2 q = Gray).
          { destruct (relaxed_dec p h1 q) as [Hr|Hr].
            - apply (Hsw q). split; [apply in_seq; lia|exact Hr].
            - destruct (Hsw q) as [_ H2]. destruct H2 as (_ & _ & E); [tauto|].
              rewrite E, Hcolr1. destruct (Nat.eqb_spec p q); [congruence|].
              apply (Hgray q Hq Hnin). }
          rewrite Hg2. split; [discriminate|]. intros [E|Hin]; [congruence|contradiction].
    - (* gray *)
      intros q Hq Hqn.
      assert (Hne : q <> p) by (intros ->; apply Hqn; left; reflexivity).
      assert (Hnin : ~ In q bl) by (intros Hin; apply Hqn; right; exact Hin).
      destruct (Hgray q Hq Hnin) as [Hqg (pq & Hqp & Hpqin & Hqc & Hqmin)].
      assert (Hc1q : colr h1 q = Gray).
      { rewrite Hcolr1. destruct (Nat.eqb_spec p q); [congruence|exact Hqg]. }
      destruct (relaxed_dec p h1 q) as [Hr|Hr].
      + destruct (Hsw q) as [H1 _]. destruct H1 as (E1 & E2 & E3); [split; [apply in_seq; lia|exact Hr]|].
        split; [exact E3|]. exists p. split; [exact E2|]. split; [left; reflexivity|].
        split; [exact E1|]. intros x [<-|Hx]; [lia|].
        destruct Hr as (_ & _ & Hlt). rewrite Hhc1, Hqc in Hlt. specialize (Hqmin x Hx). lia.
      + destruct (Hsw q) as [_ H2]. destruct H2 as (E1 & E2 & E3); [tauto|].
        split; [rewrite E3; exact Hc1q|]. exists pq. split; [rewrite E2; exact Hqp|].
        split; [right; exact Hpqin|]. split; [rewrite E1, Hhc1; exact Hqc|].
        intros x [<-|Hx]; [|apply Hqmin; exact Hx].
        destruct (Z_lt_le_dec (w p q) (w pq q)) as [Hlt|Hle]; [|exact Hle].
        exfalso. apply Hr. split; [rewrite Hc1q; discriminate|]. split; [exact Hne|].
        rewrite Hhc1, Hqc. exact Hlt.
    - (* root *)
      split; [right; exact H0in|]. rewrite (Hpred_bl 0 (or_intror H0in)). exact H0p.
    - (* grown *)
      eapply pg_step with (p := pd).
      + apply (prim_grown_ext n w (predf (n_pred nd))); [|exact Hpg].
        intros x Hx. apply Hpred_bl. right; exact Hx.
      + exact Hp.
      + exact Hpn.
      + rewrite (Hpred_bl p (or_introl eq_refl)). exact Hppd.
      + exact Hpdin.
      + exact Hcut.
    - (* status *)
      intros q Hq. unfold predf in Hppd. rewrite Hppd, Hlab.
      rewrite mark_proto_spec by lia. fold (lab p) (lab pd).
      assert (Harc : forall a b, In a (p :: bl) -> In b (p :: bl) ->
                (tree_arc (predf pred2) a b <-> tree_arc (predf (n_pred nd)) a b)).
      { intros a b Ha Hb. apply tree_arc_ext; apply Hpred_bl; assumption. }
      fold (predf (n_pred nd) p) in Hppd.
      split.
      + intros [Hold|[Hl [->| ->]]].
        * apply (Hstat q Hq) in Hold. destruct Hold as (r & Hqin & Hrin & Ha & Hl).
          exists r. split; [right; exact Hqin|]. split; [right; exact Hrin|].
          split; [|exact Hl]. apply Harc; [right; assumption|right; assumption|exact Ha].
        * exists pd. split; [left; reflexivity|]. split; [right; exact Hpdin|].
          split; [|exact Hl]. apply Harc; [left; reflexivity|right; exact Hpdin|].
          left; exact Hppd.
        * exists p. split; [right; exact Hpdin|]. split; [left; reflexivity|].
          split; [|congruence]. apply Harc; [right; exact Hpdin|left; reflexivity|].
          right; exact Hppd.
      + intros (r & Hqin & Hrin & Ha & Hl).
        apply (Harc q r Hqin Hrin) in Ha.
        destruct Hqin as [<-|Hqin]; destruct Hrin as [<-|Hrin].
        * congruence.
        * right. destruct Ha as [Ha|Ha].
          { assert (r = pd) by congruence. subst r. split; [exact Hl|left; reflexivity]. }
          { exfalso. apply Hpn. eapply grown_pred_in; eassumption. }
        * right. destruct Ha as [Ha|Ha].
          { exfalso. apply Hpn. eapply grown_pred_in; eassumption. }
          { assert (q = pd) by congruence. subst q. split; [congruence|right; reflexivity]. }
        * left. apply (Hstat q Hq). exists r. auto.
  Qed.

  (* ---------------------------------------------------------------- *)
  (* the first iteration: node 0, inserted with cost [top], attaches everybody *)

  Hypothesis n_pos : 1 <= n.
  Hypothesis w_top : forall q, q < n -> q <> 0 -> (w 0 q < top)%Z.

  Lemma prim_first nd0 :
    length (n_cost nd0) = n -> length (n_pred nd0) = n -> length (n_status nd0) = n ->
    n_label nd0 = labels -> (forall q, q < n -> nth q (n_status nd0) false = false) ->
    exists h1' h2 pred2,
      remove (fst (insert (h_init top n PMin) 0)) = (h1', Some 0) /\
      fold_left (prim_relax w 0) (seq 0 n) (h1', upd (n_pred nd0) 0 None) = (h2, pred2) /\
      PI nd0 [0] h2 (mkNodes (upd (n_cost nd0) 0 (hc h1' 0)) pred2 (n_label nd0) (n_plabel nd0)
                        (n_status nd0) (n_relevant nd0) (n_order nd0)).
  Proof.
    intros Hlc Hlp Hlst Hlab Hst0.
    pose proof (inv_init top n PMin) as HI0.
    pose proof (insert_spec top (h_init top n PMin) 0 HI0) as Hins.
    destruct (insert (h_init top n PMin) 0) as [h1 b] eqn:Ei. cbn [fst].
    destruct Hins as (_ & HI1 & Hperm1 & Hc1 & Hcol1 & Hs1 & Hpol1).
    { cbn [h_init hsize]. lia. }
    { cbn. tauto. }
    { cbn [h_init hsize hn]. lia. }
    change (queued (h_init top n PMin)) with (@nil nat) in Hperm1.
    cbn [h_init hsize hpol hcost hcolor] in Hc1, Hcol1, Hs1, Hpol1.
    assert (Hpos : 0 < hn h1).
    { rewrite <- (queued_length h1 (Inv_WF h1 HI1)).
      rewrite (Permutation_length Hperm1). cbn. lia. }
    destruct (remove_spec top h1 HI1 Hpos)
      as (p & h1' & Hrem & Hpin & _ & _ & HI1' & Hc1' & Hcol1' & Hs1' & Hpol1').
    assert (p = 0).
    { pose proof (Permutation_in _ Hperm1 Hpin) as H. destruct H as [H|[]]. congruence. }
    subst p.
    assert (Hcolr : forall x, x < n -> colr h1' x = if Nat.eqb 0 x then Black else White).
    { intros x Hx. unfold colr. rewrite Hcol1', Hcol1. rewrite !nth_upd, !upd_length, !repeat_length.
      destruct (Nat.eqb_spec 0 x); [destruct (Nat.ltb_spec 0 n); [reflexivity|lia]|].
      apply nth_repeat_any; exact Hx. }
    assert (Hhc : forall x, hc h1' x = top).
    { intros x. unfold hcost_at. rewrite Hc1', Hc1. apply nth_repeat. }
    assert (Hb0 : colr h1' 0 = Black) by (rewrite Hcolr by lia; reflexivity).
    destruct (fold_left (prim_relax w 0) (seq 0 n) (h1', upd (n_pred nd0) 0 None))
      as [h2 pred2] eqn:Hfold.
    destruct (relax_fold 0 (seq 0 n) h1' (upd (n_pred nd0) 0 None) h2 pred2 (seq_NoDup n 0)
                ltac:(intros q Hq; apply in_seq in Hq; lia) HI1' ltac:(congruence)
                ltac:(congruence) ltac:(rewrite upd_length; exact Hlp) ltac:(lia) Hb0 Hfold)
      as (HI2 & Hs2 & Hpol2 & Hlp2 & Hsw).
    assert (Hq : forall q, q < n -> q <> 0 ->
              hc h2 q = w 0 q /\ predf pred2 q = Some 0 /\ colr h2 q = Gray).
    { intros q Hq Hne. apply (Hsw q). split; [apply in_seq; lia|].
      split; [|split; [exact Hne|rewrite Hhc; apply w_top; assumption]].
      rewrite Hcolr by exact Hq. destruct (Nat.eqb_spec 0 q); [congruence|discriminate]. }
    assert (H0 : predf pred2 0 = None /\ colr h2 0 = Black).
    { destruct (Hsw 0) as [_ H2]. destruct H2 as (_ & E2 & E3).
      - intros [_ (_ & Hne & _)]. congruence.
      - rewrite E2, E3. split; [|exact Hb0]. unfold predf. apply nth_upd_eq. lia. }
    exists h1', h2, pred2. split; [exact Hrem|]. split; [exact Hfold|].
    constructor; cbn [n_cost n_pred n_label n_plabel n_status n_relevant n_order];
      try assumption; try reflexivity.
    - rewrite upd_length; exact Hlc.
    - intros q Hq'. destruct (Nat.eq_dec q 0) as [->|Hne].
      + destruct H0 as [_ E]. rewrite E. split; [intros _; left; reflexivity|reflexivity].
      + destruct (Hq q Hq' Hne) as (_ & _ & E). rewrite E.
        split; [discriminate|]. intros [E'|[]]. congruence.
    - intros q Hq' Hnin.
      assert (Hne : q <> 0) by (intros ->; apply Hnin; left; reflexivity).
      destruct (Hq q Hq' Hne) as (E1 & E2 & E3).
      split; [exact E3|]. exists 0. split; [exact E2|]. split; [left; reflexivity|].
      split; [exact E1|]. intros x [<-|[]]. lia.
    - split; [left; reflexivity|apply H0].
    - apply pg_root; [lia|apply H0].
    - intros q Hq'. rewrite Hst0 by exact Hq'. split; [discriminate|].
      intros (r & [<-|[]] & [<-|[]] & _ & Hl). congruence.
  Qed.

  Lemma prim_loop_PI nd0 : forall f bl h nd, PI nd0 bl h nd -> f + length bl = n ->
    exists bl' h', PI nd0 bl' h' (snd (prim_loop f n w h nd)) /\ length bl' = n.
  Proof.
    induction f as [|f IH]; intros bl h nd P Hf.
    - exists bl, h. split; [exact P|lia].
    - destruct (prim_iter nd0 bl h nd P ltac:(lia)) as (p & h1 & h2 & pred2 & Hrem & Hfold & P').
      rewrite prim_loop_S, Hrem, Hfold.
      apply (IH (p :: bl) h2 _ P'). cbn [length]. lia.
  Qed.

  (* the state reached by [find_prototypes] satisfies the invariant with every node Black *)
  Theorem find_prototypes_PI nd0 :
    length (n_cost nd0) = n -> length (n_pred nd0) = n -> length (n_status nd0) = n ->
    n_label nd0 = labels -> (forall q, q < n -> nth q (n_status nd0) false = false) ->
    exists bl h, PI nd0 bl h (find_prototypes Z.ltb top n w nd0) /\ length bl = n.
  Proof.
    intros Hlc Hlp Hlst Hlab Hst0.
    destruct (prim_first nd0 Hlc Hlp Hlst Hlab Hst0) as (h1' & h2 & pred2 & Hrem & Hfold & P).
    assert (En : n = S (n - 1)) by lia.
    rewrite (find_prototypes_pos top n (n - 1) w nd0 En).
    rewrite prim_loop_S. cbn [n_pred n_cost n_label n_plabel n_status n_relevant n_order].
    rewrite Hrem, Hfold.
    assert (Hm : nth 0 (upd (n_pred nd0) 0 None) None = None) by (apply nth_upd_eq; lia).
    rewrite Hm. cbn [mark_proto].
    apply (prim_loop_PI nd0 (n - 1) [0] h2 _ P). cbn [length]. lia.
  Qed.
End Prim.
