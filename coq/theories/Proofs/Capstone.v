(* Capstone: supervised Optimum-Path Forest training and prediction with the arc weights computed
   by a metric code term of Gen/Metrics_gen.v (regenerated from opfython/math/distance.py) over
   the real numbers.

   Three finished developments are composed here and nothing new is proved about the algorithm or
   about the metrics:
   (a) metric code terms, their closed forms (Proofs/ClosedForms.v) and axioms on the user's
       domain (Props/C08_code.v);
   (b) the order-generic theorems Props/C01_anyorder.v .. Props/C04_anyorder.v about
       [sup_fit] / [predict_one] for any weight type with a strict total order;
   (c) the instantiation  W := R, ltb := Rltb  (Base/NumOps.v), proved a strict total order below.

   The statements are re-expressed with the usual real-number vocabulary:
   [Rltb a b = false] becomes [b <= a], [Rltb a b = true] becomes [a < b], the model's
   [wmax Rltb] becomes [Rmax]. *)
From Coq Require Import Reals List Arith Bool Lia Lra Permutation.
From OPF Require Import Base.Lists Base.TotalOrder Base.NumOps Model.Heap Model.Sup Spec.Paths Spec.Trees.
From OPF Require Import Proofs.FitBase Proofs.Lift2Resub Proofs.WeightsExtBounded.
From OPF Require Import Props.C01_anyorder Props.C02_anyorder Props.C03_anyorder Props.C04_anyorder.
From OPF Require Import Spec.MetricSpec Model.MetricIR Model.MetricEval.
Import ListNotations.
Open Scope R_scope.

(* ---------- (c) the real numbers as a weight type ---------- *)

Lemma Rltb_true a b : Rltb a b = true <-> a < b.
Proof. unfold Rltb. destruct (Rlt_dec a b) as [H|H]; split; intro H1; auto; discriminate. Qed.

Lemma Rltb_false a b : Rltb a b = false <-> b <= a.
Proof.
  unfold Rltb. destruct (Rlt_dec a b) as [H|H]; split; intro H1; auto; try discriminate; lra.
Qed.

Theorem Rltb_strict_total_order : strict_total_order Rltb.
Proof.
  constructor.
  - intro a. apply Rltb_false. lra.
  - intros a b c H1 H2. apply Rltb_true in H1, H2. apply Rltb_true. lra.
  - intros a b H1 H2. apply Rltb_false in H1, H2. lra.
Qed.

Lemma wmax_Rltb a b : wmax Rltb a b = Rmax a b.
Proof.
  unfold wmax, Rltb, Rmax. destruct (Rlt_dec a b) as [H|H], (Rle_dec a b) as [H1|H1]; lra.
Qed.

Lemma omax_Rltb a b : omax Rltb a b = Rmax a b.
Proof. exact (wmax_Rltb a b). Qed.

(* the bottleneck value of a path, in real-number vocabulary *)
Lemma pathmaxW_Rltb_unfold (w : nat -> nat -> R) :
  pathmaxW Rltb w 0 [] = 0 /\
  (forall a, pathmaxW Rltb w 0 [a] = 0) /\
  (forall a b t, pathmaxW Rltb w 0 (a :: b :: t) = Rmax (w a b) (pathmaxW Rltb w 0 (b :: t))).
Proof.
  split; [reflexivity|]. split; [reflexivity|]. intros a b t.
  change (pathmaxW Rltb w 0 (a :: b :: t)) with (omax Rltb (w a b) (pathmaxW Rltb w 0 (b :: t))).
  apply omax_Rltb.
Qed.

(* ---------- the conclusion of C01 (and the part of C02 about classes) at W := R ---------- *)

(* [nd] is an optimum-path forest of the complete graph on 0..n-1 with arc weights [w], rooted at
   its prototypes, labelled from [labels]:
   array lengths; conquest order = a permutation of the nodes sorted by cost; prototypes are roots
   of cost 0 carrying their own label; every other node hangs below an earlier-conquered
   predecessor with cost = max(cost pred, arc) and inherits its label; following predecessors ends
   in a prototype whose label is the one assigned; the recorded cost is the minimum, over all
   paths from all prototypes, of the largest arc; every class owns a prototype. *)
Definition opf_forest_R (n : nat) (w : nat -> nat -> R) (labels : list nat) (nd : @nodes R) : Prop :=
  let cost q := nth q (n_cost nd) 0 in
  let pred q := nth q (n_pred nd) None in
  let plabel q := nth q (n_plabel nd) 0%nat in
  let isproto q := nth q (n_status nd) false = true in
  (length (n_cost nd) = n /\ length (n_pred nd) = n /\ length (n_plabel nd) = n /\
   n_label nd = labels) /\
  Permutation (n_order nd) (seq 0 n) /\
  (forall i j, (i < j)%nat -> (j < n)%nat ->
     cost (nth i (n_order nd) 0%nat) <= cost (nth j (n_order nd) 0%nat)) /\
  (forall q, (q < n)%nat -> isproto q ->
     pred q = None /\ cost q = 0 /\ plabel q = nth q labels 0%nat) /\
  (forall q, (q < n)%nat -> ~ isproto q ->
     exists p, pred q = Some p /\ (p < n)%nat /\ p <> q /\
       cost q = Rmax (cost p) (w p q) /\ plabel q = plabel p /\
       FitBase.before (n_order nd) p q) /\
  (forall q, (q < n)%nat ->
     exists r k, (r < n)%nat /\ isproto r /\ reaches pred q r k /\ pred r = None /\
       (k < n)%nat /\ plabel q = nth r labels 0%nat) /\
  (forall q s pi, (q < n)%nat -> (s < n)%nat -> isproto s -> path_from_to n s q pi ->
     cost q <= pathmaxW Rltb w 0 pi) /\
  (forall q, (q < n)%nat -> exists s pi, (s < n)%nat /\ isproto s /\ path_from_to n s q pi /\
     pathmaxW Rltb w 0 pi = cost q) /\
  (forall q, (q < n)%nat -> exists s, (s < n)%nat /\ isproto s /\
     nth s labels 0%nat = nth q labels 0%nat).

(* [predict_one] with query distances [d] returns the label carried by a training sample that
   minimises max(cost, distance) over ALL training samples *)
Definition predicts_argmin_R (n : nat) (nd : @nodes R) (d : nat -> R) : Prop :=
  exists t, (t < n)%nat /\
    predict_one Rltb 0 nd d = (nth t (n_plabel nd) 0%nat, Some t) /\
    forall s, (s < n)%nat ->
      Rmax (nth t (n_cost nd) 0) (d t) <= Rmax (nth s (n_cost nd) 0) (d s).

(* the prototypes are exactly the endpoints of the class-crossing arcs of a minimax (= minimum)
   spanning tree [mst] of the complete graph: [mst] is a spanning parent map rooted at node 0,
   every tree path is a minimax path, and a node is a prototype iff a tree arc joins it to a node
   of another class *)
Definition prototypes_by_mst_R (n : nat) (w : nat -> nat -> R) (labels : list nat)
           (mst : nat -> option nat) (nd : @nodes R) : Prop :=
  spanning_parent_map n mst /\
  (forall (m : R) u v tp pi, tree_path_rel n mst u v tp -> path_from_to n u v pi ->
     pathmaxW Rltb w m tp <= pathmaxW Rltb w m pi) /\
  (forall q, (q < n)%nat ->
     (nth q (n_status nd) false = true <->
      exists r, (mst q = Some r \/ mst r = Some q) /\ (r < n)%nat /\
                nth q labels 0%nat <> nth r labels 0%nat)).

Section AbstractWeights.
  Variables (labels : list nat) (w : nat -> nat -> R) (fmax : R).
  Let n := length labels.
  Hypothesis fmax_pos : 0 < fmax.
  Hypothesis w_range : forall p q, (p < n)%nat -> (q < n)%nat -> p <> q -> 0 <= w p q < fmax.
  Hypothesis two_classes :
    exists a b, (a < n)%nat /\ (b < n)%nat /\ nth a labels 0%nat <> nth b labels 0%nat.

  Let Hzt : Rltb 0 fmax = true := proj2 (Rltb_true 0 fmax) fmax_pos.

  Lemma w_range_b : forall p q, (p < n)%nat -> (q < n)%nat -> p <> q ->
    Rltb (w p q) 0 = false /\ Rltb (w p q) fmax = true.
  Proof.
    intros p q Hp Hq Hpq. destruct (w_range p q Hp Hq Hpq) as [H1 H2].
    split; [now apply Rltb_false | now apply Rltb_true].
  Qed.

  Lemma w_top_b : forall p q, (p < n)%nat -> (q < n)%nat -> p <> q -> Rltb (w p q) fmax = true.
  Proof. intros p q Hp Hq Hpq. exact (proj2 (w_range_b p q Hp Hq Hpq)). Qed.

  Lemma n_pos : (1 <= n)%nat.
  Proof. destruct two_classes as (a & _ & Ha & _). lia. Qed.

  Lemma protos_exist :
    exists s, (s < n)%nat /\
      nth s (n_status (find_prototypes Rltb fmax n w (nodes_init 0 labels))) false = true.
  Proof.
    exact (C02_prototypes_nonempty_anyorder R Rltb Rltb_strict_total_order 0 fmax n w labels
             n_pos eq_refl w_top_b two_classes).
  Qed.

  (* C01 + C02 (classes) at W := R *)
  Theorem sup_fit_R_forest : opf_forest_R n w labels (sup_fit Rltb 0 fmax labels w).
  Proof.
    pose proof (C02_two_classes_give_forest_anyorder R Rltb Rltb_strict_total_order 0 fmax labels w
                  Hzt w_range_b two_classes) as H.
    pose proof (C01_sup_fit_lengths_anyorder R Rltb Rltb_strict_total_order 0 fmax labels w
                  Hzt w_range_b protos_exist) as HL.
    pose proof (C02_every_class_has_prototype_anyorder R Rltb Rltb_strict_total_order 0 fmax n w
                  labels n_pos eq_refl w_top_b two_classes) as HC.
    cbv zeta in H, HL, HC. fold n in H, HL.
    destruct H as ((P1 & P2 & P3 & P4 & P5 & P6 & P7) & Est & Elab).
    destruct HL as (L1 & L2 & _ & L4).
    rewrite <- Est in P3, P4, P5, P6, P7, HC.
    unfold opf_forest_R. cbv zeta.
    split; [now repeat split|]. split; [exact P1|].
    split. { intros i j Hij Hj. apply Rltb_false. now apply P2. }
    split; [exact P3|].
    split. { intros q Hq Hnp. destruct (P4 q Hq Hnp) as (p & E1 & E2 & E3 & E4 & E5 & E6).
             exists p. rewrite wmax_Rltb in E4. now repeat split. }
    split; [exact P5|].
    split. { intros q s pi Hq Hs Hp Hpi. apply Rltb_false. now apply (P6 q s pi). }
    split; [exact P7|].
    exact HC.
  Qed.

  (* C03 at W := R: any query is classified by an exhaustive arg-min of max(cost, distance) *)
  Theorem sup_fit_R_predict (d : nat -> R) :
    predicts_argmin_R n (sup_fit Rltb 0 fmax labels w) d.
  Proof.
    pose proof (C03_sup_fit_predict_anyorder R Rltb Rltb_strict_total_order 0 fmax labels w d
                  Hzt w_range_b protos_exist) as H.
    cbv zeta in H. fold n in H. destruct H as (t & Ht & Ep & Hmin).
    exists t. split; [exact Ht|]. split; [exact Ep|].
    intros s Hs. specialize (Hmin s Hs). rewrite !wmax_Rltb in Hmin. now apply Rltb_false.
  Qed.

  (* C02 at W := R (needs symmetric weights) *)
  Theorem sup_fit_R_prototypes :
    (forall p q, (p < n)%nat -> (q < n)%nat -> w p q = w q p) ->
    prototypes_by_mst_R n w labels
      (fun q => nth q (n_pred (find_prototypes Rltb fmax n w (nodes_init 0 labels))) None)
      (sup_fit Rltb 0 fmax labels w).
  Proof.
    intros Hsym.
    pose proof (C02_two_classes_give_forest_anyorder R Rltb Rltb_strict_total_order 0 fmax labels w
                  Hzt w_range_b two_classes) as H.
    cbv zeta in H. fold n in H. destruct H as (_ & Est & _).
    unfold prototypes_by_mst_R. split; [|split].
    - exact (C02_prim_spanning_parent_map_anyorder R Rltb Rltb_strict_total_order 0 fmax n w labels
               n_pos eq_refl w_top_b).
    - intros m u v tp pi Htp Hpi. apply Rltb_false.
      exact (C02_prim_minimax_tree_anyorder R Rltb Rltb_strict_total_order 0 fmax n w labels
               n_pos eq_refl w_top_b Hsym m u v tp pi Htp Hpi).
    - intros q Hq. rewrite Est.
      exact (C02_prototypes_exact_anyorder R Rltb Rltb_strict_total_order 0 fmax n w labels
               n_pos eq_refl w_top_b q Hq).
  Qed.
End AbstractWeights.

(* C04 at W := R: tie-free weights give every training sample its own label, and a query at zero
   distance from training sample t (and at the training distances from the others) gets t's label *)
Theorem sup_fit_R_tie_free (labels : list nat) (w : nat -> nat -> R) (fmax : R) :
  let n := length labels in
  (forall p q, (p < n)%nat -> (q < n)%nat -> w p q = w q p) ->
  (forall p q, (p < n)%nat -> (q < n)%nat -> p <> q -> 0 < w p q < fmax) ->
  (forall a b c d, (a < n)%nat -> (b < n)%nat -> (c < n)%nat -> (d < n)%nat -> a <> b -> c <> d ->
     w a b = w c d -> (a = c /\ b = d) \/ (a = d /\ b = c)) ->
  (exists a b, (a < n)%nat /\ (b < n)%nat /\ nth a labels 0%nat <> nth b labels 0%nat) ->
  let nd := sup_fit Rltb 0 fmax labels w in
  (forall q, (q < n)%nat -> nth q (n_plabel nd) 0%nat = nth q labels 0%nat) /\
  (forall (t : nat) (d : nat -> R), (t < n)%nat -> d t = 0 ->
     (forall s, (s < n)%nat -> s <> t -> d s = w s t) ->
     fst (predict_one Rltb 0 nd d) = nth t labels 0%nat).
Proof.
  intros n Hsym Hrange Hdist Hcls nd.
  assert (Htf : tie_freeW Rltb n w 0 fmax).
  { split; [exact Hsym|]. split; [exact Hdist|].
    intros p q Hp Hq Hpq. destruct (Hrange p q Hp Hq Hpq) as [H1 H2].
    split; now apply Rltb_true. }
  split.
  - exact (C04_sup_train_labels_own_anyorder R Rltb Rltb_strict_total_order 0 fmax n w labels
             eq_refl Htf Hcls).
  - exact (C04_sup_predict_train_exact_anyorder R Rltb Rltb_strict_total_order 0 fmax n w labels
             eq_refl Htf Hcls).
Qed.

(* ---------- (a) the weights are values of a metric code term on a feature table ---------- *)

(* the rows 0..n-1 of the feature table all have [dim] >= 1 entries *)
Definition table_ok (feat : nat -> list R) (n dim : nat) : Prop :=
  (1 <= dim)%nat /\ forall p, (p < n)%nat -> length (feat p) = dim.

(* Generic capstone: ANY metric code term whose values on the table are symmetric, non-negative
   and below [fmax].  The training distances are [metric_value m (feat p) (feat q)], the query
   distances [metric_value m (feat k) x] (supervised.py: `distance_fn(X_train[k], X_val[i])`). *)
Theorem sup_fit_metric_opf (m : metric_ir) (feat : nat -> list R) (labels : list nat) (fmax : R) :
  let n := length labels in
  let w p q := metric_value m (feat p) (feat q) in
  (forall p q, (p < n)%nat -> (q < n)%nat -> w p q = w q p) ->
  (forall p q, (p < n)%nat -> (q < n)%nat -> p <> q -> 0 <= w p q) ->
  (forall p q, (p < n)%nat -> (q < n)%nat -> p <> q -> w p q < fmax) ->
  0 < fmax ->
  (exists a b, (a < n)%nat /\ (b < n)%nat /\ nth a labels 0%nat <> nth b labels 0%nat) ->
  let nd := sup_fit Rltb 0 fmax labels w in
  opf_forest_R n w labels nd /\
  prototypes_by_mst_R n w labels
    (fun q => nth q (n_pred (find_prototypes Rltb fmax n w (nodes_init 0 labels))) None) nd /\
  forall x : list R, predicts_argmin_R n nd (fun k => metric_value m (feat k) x).
Proof.
  intros n w Hsym Hnn Hlt Hpos Hcls nd.
  assert (Hr : forall p q, (p < n)%nat -> (q < n)%nat -> p <> q -> 0 <= w p q < fmax).
  { intros p q Hp Hq Hpq. split; [now apply Hnn | now apply Hlt]. }
  split; [|split].
  - exact (sup_fit_R_forest labels w fmax Hpos Hr Hcls).
  - exact (sup_fit_R_prototypes labels w fmax Hpos Hr Hcls Hsym).
  - intro x. exact (sup_fit_R_predict labels w fmax Hpos Hr Hcls _).
Qed.

(* ---------- discharging symmetry / non-negativity / zero self-distance from C08 ---------- *)

Section FromAxioms.
  (* [m]: the code term; [dom]: the user-level domain of its axioms ([True] for the undecorated
     metrics, [all_nonneg] for the decorated ones); [cf]: its closed form on equal-length
     vectors (with the decorator's shift folded in) *)
  Variables (m : metric_ir) (dom : list R -> Prop) (cf : list R -> list R -> R).
  Hypothesis m_sym : forall x y : list R, length x = length y -> metric_value m x y = metric_value m y x.
  Hypothesis m_nonneg : forall x y : list R, length x = length y -> (1 <= length x)%nat ->
    dom x -> dom y -> 0 <= metric_value m x y.
  Hypothesis m_cf : forall x y : list R, length x = length y -> metric_value m x y = cf x y.

  Variables (feat : nat -> list R) (labels : list nat) (dim : nat) (fmax : R).
  Let n := length labels.
  Hypothesis Htab : table_ok feat n dim.
  Hypothesis Hdom : forall p, (p < n)%nat -> dom (feat p).
  Hypothesis Hcls :
    exists a b, (a < n)%nat /\ (b < n)%nat /\ nth a labels 0%nat <> nth b labels 0%nat.

  Let w p q := metric_value m (feat p) (feat q).
  Let wc p q := cf (feat p) (feat q).

  Lemma tab_len p q : (p < n)%nat -> (q < n)%nat -> length (feat p) = length (feat q).
  Proof. intros Hp Hq. destruct Htab as [_ H]. now rewrite (H p Hp), (H q Hq). Qed.

  Lemma tab_len1 p : (p < n)%nat -> (1 <= length (feat p))%nat.
  Proof. intros Hp. destruct Htab as [H1 H]. now rewrite (H p Hp). Qed.

  Lemma w_eq_wc p q : (p < n)%nat -> (q < n)%nat -> w p q = wc p q.
  Proof. intros Hp Hq. apply m_cf. now apply tab_len. Qed.

  Lemma w_sym p q : (p < n)%nat -> (q < n)%nat -> w p q = w q p.
  Proof. intros Hp Hq. apply m_sym. now apply tab_len. Qed.

  Lemma w_nonneg p q : (p < n)%nat -> (q < n)%nat -> 0 <= w p q.
  Proof. intros Hp Hq. apply m_nonneg; auto using tab_len, tab_len1. Qed.

  (* weights computed by the code term *)
  Theorem capstone_code :
    (forall p q, (p < n)%nat -> (q < n)%nat -> p <> q -> w p q < fmax) -> 0 < fmax ->
    let nd := sup_fit Rltb 0 fmax labels w in
    opf_forest_R n w labels nd /\
    forall x : list R, predicts_argmin_R n nd (fun k => metric_value m (feat k) x).
  Proof.
    intros Hlt Hpos nd.
    destruct (sup_fit_metric_opf m feat labels fmax w_sym
                (fun p q Hp Hq _ => w_nonneg p q Hp Hq) Hlt Hpos Hcls) as (H1 & _ & H3).
    split; [exact H1 | exact H3].
  Qed.

  Theorem capstone_code_prototypes :
    (forall p q, (p < n)%nat -> (q < n)%nat -> p <> q -> w p q < fmax) -> 0 < fmax ->
    prototypes_by_mst_R n w labels
      (fun q => nth q (n_pred (find_prototypes Rltb fmax n w (nodes_init 0 labels))) None)
      (sup_fit Rltb 0 fmax labels w).
  Proof.
    intros Hlt Hpos.
    exact (proj1 (proj2 (sup_fit_metric_opf m feat labels fmax w_sym
                (fun p q Hp Hq _ => w_nonneg p q Hp Hq) Hlt Hpos Hcls))).
  Qed.

  (* weights written with the closed form *)
  Theorem capstone_closed :
    (forall p q, (p < n)%nat -> (q < n)%nat -> p <> q -> wc p q < fmax) -> 0 < fmax ->
    let nd := sup_fit Rltb 0 fmax labels wc in
    opf_forest_R n wc labels nd /\
    forall x : list R, predicts_argmin_R n nd (fun k => cf (feat k) x).
  Proof.
    intros Hlt Hpos nd.
    assert (Hr : forall p q, (p < n)%nat -> (q < n)%nat -> p <> q -> 0 <= wc p q < fmax).
    { intros p q Hp Hq Hpq. split; [|now apply Hlt].
      rewrite <- (w_eq_wc p q Hp Hq). now apply w_nonneg. }
    split.
    - exact (sup_fit_R_forest labels wc fmax Hpos Hr Hcls).
    - intro x. exact (sup_fit_R_predict labels wc fmax Hpos Hr Hcls _).
  Qed.

  (* the two trainings are the same forest *)
  Theorem capstone_code_eq_closed :
    sup_fit Rltb 0 fmax labels w = sup_fit Rltb 0 fmax labels wc.
  Proof. exact (proj1 (sup_fit_ext_bounded Rltb 0 fmax labels w wc w_eq_wc)). Qed.

  (* C04: tie-free data *)
  Hypothesis m_zero : forall x : list R, (1 <= length x)%nat -> dom x -> metric_value m x x = 0.

  Theorem capstone_tie_free :
    (forall p q, (p < n)%nat -> (q < n)%nat -> p <> q -> 0 < w p q < fmax) ->
    (forall a b c d, (a < n)%nat -> (b < n)%nat -> (c < n)%nat -> (d < n)%nat -> a <> b -> c <> d ->
       w a b = w c d -> (a = c /\ b = d) \/ (a = d /\ b = c)) ->
    let nd := sup_fit Rltb 0 fmax labels w in
    (forall q, (q < n)%nat -> nth q (n_plabel nd) 0%nat = nth q labels 0%nat) /\
    (forall t, (t < n)%nat ->
       fst (predict_one Rltb 0 nd (fun k => metric_value m (feat k) (feat t))) = nth t labels 0%nat).
  Proof.
    intros Hrange Hdist nd.
    destruct (sup_fit_R_tie_free labels w fmax w_sym Hrange Hdist Hcls) as [H1 H2].
    split; [exact H1|].
    intros t Ht. apply (H2 t _ Ht).
    - apply m_zero; auto using tab_len1.
    - intros s _ _. reflexivity.
  Qed.
End FromAxioms.
