(* Assumption audit of the C04 (supervised half) / C11 (permutation half) development: every
   line must print "Closed under the global context", except C04_metric_hypotheses_R, which
   is over the classical reals of the standard library. *)
From OPF Require Import Props.C04 Props.C11_perm.

Print Assumptions C04_tie_free_def.
Print Assumptions C04_sup_train_labels_own.
Print Assumptions C04_sup_cost_below_other_class.
Print Assumptions C04_sup_forest_arcs_within_class.
Print Assumptions C04_sup_predict_train_exact.
Print Assumptions C04_sup_predict_train_batch_exact.
Print Assumptions C04_sup_single_class_no_prototypes.
Print Assumptions C04_dissimilarity_R_def.
Print Assumptions C04_metric_hypotheses_R.
Print Assumptions C04_example_premises.
Print Assumptions C04_example_result.
Print Assumptions C04_example_single_class.
Print Assumptions C04_example_ties_break_it.
Print Assumptions C11_perm_invariant_prototypes.
Print Assumptions C11_perm_invariant_costs.
Print Assumptions C11_perm_invariant_labels.
Print Assumptions C11_perm_invariant_predictions.
Print Assumptions C11_equal_cost_same_class.
Print Assumptions C11_equal_value_same_label.
Print Assumptions C11_perm_example_premises.
Print Assumptions C11_perm_example_result.
