(* Non-vacuity of the shifted bounds: u = 2^-53, rnd t = t (1 + u) (Proofs/RdepthWitness.v), x = [1], y = [3].
   The decorator hands x' = (1 + EPSILON)(1 + u), y' = (3 + EPSILON)(1 + u) to the canberra body; the rounded
   evaluation is exactly canberra(x', y') (1 + u): the subtraction's and the addition's factors cancel in the
   quotient, the division's own rounding stays.  The value is positive, so the bound is not trivially 0 <= 0. *)
From Coq Require Import Reals QArith Qreals String List Lra Lia Bool.
From OPF Require Import Model.Consts Spec.MetricSpec Model.MetricIR Gen.Metrics_gen Gen.Decorator_gen
     Model.MetricRnd Model.MetricEval Model.MetricRdepth Model.MetricRdepthQ Proofs.IRLemmas Proofs.RobustSign
     Proofs.RobustSignNeg Proofs.RoundingBounds Proofs.RoundingBoundsQ Proofs.RdepthWitness Proofs.RdepthQTable.
Import ListNotations.
Open Scope R_scope.

Lemma canberra_up u : 0 <= u ->
  let x' := rshift (rnd_up u) [1] in
  let y' := rshift (rnd_up u) [3] in
  metric_rnd (rnd_up u) ir_canberra [1] [3] = Some (sp_canberra x' y' * (1 + u))
  /\ sp_canberra x' y' = (2 / (4 + 2 * EPSILON)).
Proof.
  intros H x' y'. pose proof EPS_pos as HE.
  assert (S : sp_canberra x' y' = 2 / (4 + 2 * EPSILON)).
  { unfold x', y', rshift, sp_canberra, sum2, sum, rnd_up. cbn [map map2 fold_right].
    replace ((1 + EPSILON) * (1 + u) - (3 + EPSILON) * (1 + u)) with (- (2 * (1 + u))) by ring.
    rewrite Rabs_Ropp, !Rabs_pos_eq by nra. field. nra. }
  split; [|exact S]. rewrite S.
  ev_open ir_canberra. ev_step. unfold rnd_up.
  replace (((1 + EPSILON) * (1 + u) - (3 + EPSILON) * (1 + u)) * (1 + u)) with (- (2 * (1 + u) * (1 + u))) by ring.
  rewrite Rabs_Ropp, !Rabs_pos_eq by nra.
  destruct (Req_EM_T (((1 + EPSILON) * (1 + u) + (3 + EPSILON) * (1 + u)) * (1 + u)) 0) as [E0|_]; [nra|].
  ev_step. f_equal. field. nra.
Qed.

Theorem rounding_shift_nonvacuous :
  0 < u64 < 1 /\ rnd_rel u64 (rnd_up u64) /\ rnd_up u64 1 <> 1
  /\ Forall (in_cls NonNeg) [1] /\ Forall (in_cls NonNeg) [3]
  /\ metric_rnd (rnd_up u64) ir_canberra [1] [3]
     = Some (sp_canberra (rshift (rnd_up u64) [1]) (rshift (rnd_up u64) [3]) * (1 + u64))
  /\ 0 < sp_canberra (rshift (rnd_up u64) [1]) (rshift (rnd_up u64) [3])
  /\ lo_f u64 (1 + 1) 1 <= 1 + u64 <= up_f u64 (1 + 1) 1.
Proof.
  pose proof u64_range as [H0 H1]. pose proof EPS_pos as HE.
  destruct (canberra_up u64 (Rlt_le _ _ H0)) as [E S].
  split; [split; assumption|]. split; [apply rnd_up_rel; lra|]. split; [now apply rnd_up_not_id|].
  split; [repeat constructor; cbn; lra|]. split; [repeat constructor; cbn; lra|].
  split; [exact E|]. split.
  - rewrite S. apply Rdiv_lt_0_compat; lra.
  - assert (B : lo_f u64 1 0 <= 1 + u64 <= up_f u64 1 0) by (unfold lo_f, up_f; cbn [pow]; lra).
    destruct B as [B1 B2]. split.
    + eapply Rle_trans; [apply (lo_anti u64 (Rlt_le _ _ H0) H1 1 0 (1 + 1) 1); lia | exact B1].
    + eapply Rle_trans; [exact B2 | apply (up_mono u64 (Rlt_le _ _ H0) H1 1 0 (1 + 1) 1); lia].
Qed.
