(* Assumption audit of the order-generic theorems (Props/C0x_anyorder.v): every line must print
   "Closed under the global context". *)
From OPF Require Import Props.C01_anyorder Props.C03_anyorder Props.C02_anyorder.

Print Assumptions C01_finite_order_embedding.
Print Assumptions C01_sup_fit_rank_related.
Print Assumptions C01_compete_anyorder.
Print Assumptions C01_sup_fit_anyorder.
Print Assumptions C01_sup_fit_lengths_anyorder.
Print Assumptions C01_pathmaxW_unfold.
Print Assumptions C01_order_Z.
Print Assumptions C01_order_nat.
Print Assumptions C01_order_Qc.
Print Assumptions C01_anyorder_recovers_Z.
Print Assumptions C01_anyorder_example_premises.
Print Assumptions C01_anyorder_example_result.
Print Assumptions C03_predict_is_argmin_anyorder.
Print Assumptions C03_predict_label_is_argmin_anyorder.
Print Assumptions C03_sup_fit_predict_anyorder.
Print Assumptions C03_anyorder_example.
Print Assumptions C02_prim_spanning_tree_anyorder.
Print Assumptions C02_prim_tree_connected_anyorder.
Print Assumptions C02_prim_minimax_tree_anyorder.
Print Assumptions C02_prim_cycle_optimal_anyorder.
Print Assumptions C02_prototypes_exact_anyorder.
Print Assumptions C02_every_class_has_prototype_anyorder.
Print Assumptions C02_prototypes_nonempty_anyorder.
Print Assumptions C02_prim_spanning_parent_map_anyorder.
Print Assumptions C02_prim_tree_characterised_anyorder.
Print Assumptions C02_prototypes_characterised_anyorder.
Print Assumptions C02_find_prototypes_lengths_anyorder.
Print Assumptions C02_two_classes_give_forest_anyorder.
Print Assumptions C02_anyorder_example.
