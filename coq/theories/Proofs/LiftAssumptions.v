(* Assumption audit of the order-generic theorems (Props/C0x_anyorder.v): every line must print
   "Closed under the global context". *)
From OPF Require Import Props.C01_anyorder Props.C03_anyorder.

Print Assumptions C01_finite_order_embedding.
Print Assumptions C01_sup_fit_rank_related.
Print Assumptions C01_compete_anyorder.
Print Assumptions C01_sup_fit_anyorder.
Print Assumptions C01_sup_fit_lengths_anyorder.
Print Assumptions C01_pathmaxW_unfold.
Print Assumptions C01_order_Z.
Print Assumptions C01_order_nat.
Print Assumptions C01_order_Qc.
Print Assumptions C01_anyorder_recovers_Z.
Print Assumptions C01_anyorder_example_premises.
Print Assumptions C01_anyorder_example_result.
Print Assumptions C03_predict_is_argmin_anyorder.
Print Assumptions C03_predict_label_is_argmin_anyorder.
Print Assumptions C03_sup_fit_predict_anyorder.
Print Assumptions C03_anyorder_example.
