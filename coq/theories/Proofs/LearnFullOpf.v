(* C17, closed loop: corollaries transferred from Props/C17.v through the refinement
   (conservation, keeps-best, snapshot), the classifier left by learn_full is an optimum-path
   forest (C01/C02 for any strict total order), prune_full only discards relevant-path samples
   (C17_relevant_exact). *)
From Coq Require Import ZArith QArith Qabs List Arith Bool Lia Permutation.
From OPF Require Import Base.Lists Base.TotalOrder Model.Heap Model.Sup Model.Learn Model.Measures
                        Model.LearnFull Spec.Paths.
From OPF Require Import Proofs.FitBase Proofs.FitSup Proofs.LiftSup Proofs.LiftPrim Proofs.LiftInst Proofs.Predict Proofs.PredictRel
                        Proofs.Learn Proofs.LearnFull.
Import ListNotations.
Local Open Scope nat_scope.

(* ------------------------------------------------------------------------------------ *)
(* fit leaves the relevance flags clear; predict changes nothing else                    *)

Section Fields.
  Context {W : Type}.
  Variable ltb : W -> W -> bool.
  Variables zero top : W.

  Lemma seed_fold_relevant : forall l h (nd : @nodes W),
    n_relevant (snd (fold_left (seed_step ltb zero top) l (h, nd))) = n_relevant nd.
  Proof.
    induction l as [|i l IH]; intros h nd; [reflexivity|]. cbn [fold_left].
    unfold seed_step at 2. destruct (nth i (n_status nd) false); rewrite IH; reflexivity.
  Qed.

  Lemma fit_relax_relevant semi nl w p st q :
    n_relevant (snd (fit_relax ltb top semi nl w p st q)) = n_relevant (snd st).
  Proof.
    destruct st as [h nd]. unfold fit_relax.
    destruct (negb (Nat.eqb p q) && ltb (hcost_at top h p) (hcost_at top h q)); [|reflexivity].
    destruct (ltb _ (hcost_at top h q)); reflexivity.
  Qed.

  Lemma fit_fold_relevant semi nl w p : forall l st,
    n_relevant (snd (fold_left (fit_relax ltb top semi nl w p) l st)) = n_relevant (snd st).
  Proof.
    induction l as [|q l IH]; intros st; [reflexivity|]. cbn [fold_left].
    rewrite IH. apply fit_relax_relevant.
  Qed.

  Lemma fit_loop_relevant semi nl w : forall fuel n h (nd : @nodes W),
    n_relevant (snd (fit_loop ltb top fuel n semi nl w h nd)) = n_relevant nd.
  Proof.
    induction fuel as [|f IH]; intros n h nd; [reflexivity|]. cbn [fit_loop].
    destruct (remove ltb top h) as [h1 [p|]]; [|reflexivity].
    pose proof (fit_fold_relevant semi nl w p (seq 0 n)
                  (h1, mkNodes (upd (n_cost nd) p (hcost_at top h1 p)) (n_pred nd) (n_label nd) (n_plabel nd)
                               (n_status nd) (n_relevant nd) (n_order nd ++ [p]))) as Hf.
    destruct (fold_left _ (seq 0 n) _) as [h2 nd2]. cbn [snd] in Hf.
    rewrite IH. exact Hf.
  Qed.

  Lemma compete_relevant semi nl n w (nd : @nodes W) :
    n_relevant (compete ltb zero top semi nl n w nd) = n_relevant nd.
  Proof.
    unfold compete.
    pose proof (seed_fold_relevant (seq 0 n) (h_init top n PMin) nd) as Hs.
    destruct (fold_left _ (seq 0 n) _) as [h nd1]. cbn [snd] in Hs.
    rewrite fit_loop_relevant. exact Hs.
  Qed.

  Lemma sup_fit_relevant labels w :
    n_relevant (sup_fit ltb zero top labels w) = repeat false (length labels).
  Proof.
    unfold sup_fit. rewrite compete_relevant.
    apply (find_prototypes_pres ltb top (fun nd => n_relevant nd = repeat false (length labels))).
    - intros nd c pr s H _ _ _. exact H.
    - reflexivity.
  Qed.
End Fields.

(* ------------------------------------------------------------------------------------ *)
(* learn: transferred corollaries                                                       *)

Section LearnCor.
  Context {W : Type}.
  Variable ltb : W -> W -> bool.
  Variables zero top : W.
  Variable w : nat -> nat -> W.

  Local Notation fit_on := (fit_on ltb zero top w).
  Local Notation predict_on := (predict_on ltb zero w).

  (* conservation holds whatever the accuracy domain decides *)
  Lemma loop_conserved {A} (ao : acc_ops A) (st0 : lstate nat) :
    forall fuel t n mx prev best snap bnd draws st,
      conserved st0 st ->
      conserved st0 (r_state (fr_res (learn_full_loop ltb zero top w ao fuel t n mx prev best snap bnd draws st))).
  Proof.
    induction fuel as [|f IH]; intros t n mx prev best snap bnd draws st H; [exact H|].
    rewrite loop_S. cbv zeta.
    set (it := iterate ltb zero top w ao prev st).
    assert (He : conserved st0 (snd (exchanges it draws st))) by (apply err_loop_conserved; exact H).
    destruct (fi_small it || Nat.eqb (S t) n); cbn [fr_res r_state]; [exact He|].
    apply IH. exact He.
  Qed.

  Theorem learn_full_conserves {A} (ao : acc_ops A) n draws (st : lstate nat) :
    length (l_Xt st) = length (l_Yt st) -> length (l_Xv st) = length (l_Yv st) ->
    let st' := r_state (fr_res (learn_full ltb zero top w ao n draws st)) in
    Permutation (combine (l_Xt st' ++ l_Xv st') (l_Yt st' ++ l_Yv st'))
                (combine (l_Xt st ++ l_Xv st) (l_Yt st ++ l_Yv st)) /\
    length (l_Xt st') = length (l_Xt st) /\ length (l_Yt st') = length (l_Yt st) /\
    length (l_Xv st') = length (l_Xv st) /\ length (l_Yv st') = length (l_Yv st).
  Proof.
    intros H1 H2 st'.
    assert (Hc : conserved st st').
    { unfold st', learn_full. apply loop_conserved. apply conserved_refl. split; assumption. }
    destruct Hc as ((Hw1 & Hw2) & Hp & Hl1 & Hl2). repeat split; auto; lia.
  Qed.

  (* the same statement obtained by transfer from C17_learn_conserves (rational accuracies) *)
  Lemma learn_full_conserves_transfer n draws (st : lstate nat) :
    length (l_Xt st) = length (l_Yt st) -> length (l_Xv st) = length (l_Yv st) ->
    let st' := r_state (fr_res (learn_full ltb zero top w QAcc n draws st)) in
    Permutation (combine (l_Xt st' ++ l_Xv st') (l_Yt st' ++ l_Yv st'))
                (combine (l_Xt st ++ l_Xv st) (l_Yt st ++ l_Yv st)) /\
    length (l_Xt st') = length (l_Xt st) /\ length (l_Yt st') = length (l_Yt st) /\
    length (l_Xv st') = length (l_Xv st) /\ length (l_Yv st') = length (l_Yv st).
  Proof.
    intros H1 H2. cbv zeta. rewrite (learn_full_refines ltb zero top w n draws st).
    apply learn_conserves; assumption.
  Qed.

  Lemma nth_map_error {X Y} (f : X -> Y) l i x d : nth_error l i = Some x -> nth i (map f l) d = f x.
  Proof.
    intros H. apply nth_error_nth. rewrite nth_error_map, H. reflexivity.
  Qed.

  (* kept classifier = first iteration attaining the maximal (exact) accuracy among those run *)
  Theorem learn_full_keeps_best n draws (st : lstate nat) :
    1 <= n ->
    let r := learn_full ltb zero top w QAcc n draws st in
    let b := r_best (fr_res r) in
    r_iters (fr_res r) = length (fr_trace r) /\ 1 <= length (fr_trace r) <= n /\
    exists itb, nth_error (fr_trace r) b = Some itb /\
      (forall i it, nth_error (fr_trace r) i = Some it -> (fi_acc it <= fi_acc itb)%Q) /\
      (forall i it, i < b -> nth_error (fr_trace r) i = Some it -> (fi_acc it < fi_acc itb)%Q).
  Proof.
    intros Hn r b.
    destruct (learn_full_iters ltb zero top w QAcc n draws st Hn) as (Hit & Hlen).
    fold r in Hit, Hlen. split; [exact Hit|]. split; [exact Hlen|].
    set (tr := fr_trace r) in *. set (its := its_of tr).
    assert (Hne : its <> []).
    { unfold its, its_of. destruct tr; [cbn in Hlen; lia | discriminate]. }
    pose proof (learn_keeps_best its n draws st Hne) as H. cbv zeta in H.
    assert (Hres : learn its n draws st = fr_res r)
      by (symmetry; apply (learn_full_refines ltb zero top w n draws st)).
    rewrite Hres in H.
    destruct H as (_ & Hb & Hle & Hlt). fold b in Hb, Hle, Hlt.
    rewrite Hit in Hb, Hle.
    destruct (nth_error tr b) as [itb|] eqn:Eb; [|apply nth_error_None in Eb; lia].
    exists itb. split; [reflexivity|].
    assert (Hmap : map it_acc its = map (fun it => qrank (trace_accs tr) (fi_acc it)) tr).
    { unfold its, its_of. rewrite map_map. reflexivity. }
    rewrite Hmap in Hle, Hlt.
    assert (Hinb : In (fi_acc itb) (trace_accs tr)).
    { unfold trace_accs. apply in_map. eapply nth_error_In; eauto. }
    split.
    - intros i it Hi.
      assert (Hil : i < length tr) by (apply nth_error_Some; rewrite Hi; discriminate).
      specialize (Hle i Hil).
      rewrite (nth_map_error _ tr i it 0%Z Hi), (nth_map_error _ tr b itb 0%Z Eb) in Hle.
      apply Z.leb_le in Hle. rewrite (qrank_le _ _ _ Hinb) in Hle. now apply Qle_bool_iff.
    - intros i it Hib Hi. specialize (Hlt i Hib).
      rewrite (nth_map_error _ tr i it 0%Z Hi), (nth_map_error _ tr b itb 0%Z Eb) in Hlt.
      apply Z.ltb_lt in Hlt. rewrite qrank_lt in Hlt.
      + now apply Qltb_lt.
      + unfold trace_accs. apply in_map. eapply nth_error_In; eauto.
  Qed.

  (* every record of the trace is [iterate] on the arrays it remembers *)
  Lemma trace_iterate {A} (ao : acc_ops A) n draws st it :
    In it (fr_trace (learn_full ltb zero top w ao n draws st)) ->
    exists prev, it = iterate ltb zero top w ao prev (fi_state it).
  Proof.
    intros Hin. apply In_nth_error in Hin. destruct Hin as (i & Hi).
    pose proof (learn_full_trace_spec ltb zero top w ao (fun _ => 0%Z) n draws st i it Hi) as H.
    match type of H with _ = iterate _ _ _ _ _ ?p ?s => exists p; generalize dependent s end.
    intros s H. rewrite H. rewrite fi_state_iterate. reflexivity.
  Qed.

  (* snapshot = training set of the kept iteration, as the caller's arrays stood when it started;
     the classifier left in the object = fit on that snapshot followed by the validation pass *)
  Theorem learn_full_snapshot n draws (st : lstate nat) :
    1 <= n ->
    let r := learn_full ltb zero top w QAcc n draws st in
    let sb := state_at (its_of (fr_trace r)) (r_best (fr_res r)) draws st in
    r_snap (fr_res r) = (l_Xt sb, l_Yt sb) /\
    fr_nodes r = fst (predict_on (l_Xt sb) (fit_on (l_Xt sb) (l_Yt sb)) (l_Xv sb)).
  Proof.
    intros Hn r sb.
    destruct (learn_full_kept ltb zero top w QAcc n draws st Hn) as (it & Hi & Hs & Hnd).
    fold r in Hi, Hs, Hnd.
    pose proof (learn_full_trace_spec ltb zero top w QAcc (qrank (trace_accs (fr_trace r))) n draws st _ it Hi) as H.
    fold r in H. change (map (enc_iter (qrank (trace_accs (fr_trace r)))) (fr_trace r)) with (its_of (fr_trace r)) in H.
    fold sb in H. rewrite Hs, Hnd, H. split; reflexivity.
  Qed.

  Theorem learn_full_kept_is_fit {A} (ao : acc_ops A) n draws (st : lstate nat) :
    1 <= n ->
    let r := learn_full ltb zero top w ao n draws st in
    let X := fst (r_snap (fr_res r)) in
    let Y := snd (r_snap (fr_res r)) in
    exists Xv, fr_nodes r = fst (predict_on X (fit_on X Y) Xv).
  Proof.
    intros Hn r X Y.
    destruct (learn_full_kept ltb zero top w ao n draws st Hn) as (it & Hi & Hs & Hnd).
    fold r in Hi, Hs, Hnd.
    destruct (trace_iterate ao n draws st it (nth_error_In _ _ Hi)) as (prev & Hit).
    exists (fi_Xv it). unfold X, Y. rewrite Hs, Hnd. cbn [fst snd]. rewrite Hit at 1. reflexivity.
  Qed.
  (* the same two statements for any accuracy domain (in particular the binary64 one), in terms of
     the domain's own [>]: no iteration run beats the kept one, the kept one beats every earlier one *)
  Theorem learn_full_keeps_best_gen {A} (ao : acc_ops A) (rk : A -> Z) n draws (st : lstate nat) :
    1 <= n ->
    let r := learn_full ltb zero top w ao n draws st in
    rk_compat ao rk (fr_trace r) ->
    let b := r_best (fr_res r) in
    r_iters (fr_res r) = length (fr_trace r) /\ 1 <= length (fr_trace r) <= n /\
    exists itb, nth_error (fr_trace r) b = Some itb /\
      (forall i it, nth_error (fr_trace r) i = Some it -> ao_gt ao (fi_acc it) (fi_acc itb) = false) /\
      (forall i it, i < b -> nth_error (fr_trace r) i = Some it -> ao_gt ao (fi_acc itb) (fi_acc it) = true).
  Proof.
    intros Hn r Hrk b.
    destruct (learn_full_iters ltb zero top w ao n draws st Hn) as (Hit & Hlen).
    fold r in Hit, Hlen. split; [exact Hit|]. split; [exact Hlen|].
    set (tr := fr_trace r) in *. set (its := map (enc_iter rk) tr).
    assert (Hne : its <> []).
    { unfold its. destruct tr; [cbn in Hlen; lia | discriminate]. }
    pose proof (learn_keeps_best its n draws st Hne) as H. cbv zeta in H.
    assert (Hres : learn its n draws st = fr_res r)
      by (symmetry; apply (learn_full_refines_gen ltb zero top w ao rk n draws st Hrk)).
    rewrite Hres in H.
    destruct H as (_ & Hb & Hle & Hlt). fold b in Hb, Hle, Hlt.
    rewrite Hit in Hb, Hle.
    destruct (nth_error tr b) as [itb|] eqn:Eb; [|apply nth_error_None in Eb; lia].
    exists itb. split; [reflexivity|].
    assert (Hmap : map it_acc its = map (fun it => rk (fi_acc it)) tr).
    { unfold its. rewrite map_map. reflexivity. }
    rewrite Hmap in Hle, Hlt.
    assert (Hinb : In itb tr) by (eapply nth_error_In; eauto).
    split.
    - intros i it Hi.
      assert (Hil : i < length tr) by (apply nth_error_Some; rewrite Hi; discriminate).
      specialize (Hle i Hil).
      rewrite (nth_map_error _ tr i it 0%Z Hi), (nth_map_error _ tr b itb 0%Z Eb) in Hle.
      rewrite <- (Hrk it itb (nth_error_In _ _ Hi) Hinb). apply Z.ltb_ge. exact Hle.
    - intros i it Hib Hi. specialize (Hlt i Hib).
      rewrite (nth_map_error _ tr i it 0%Z Hi), (nth_map_error _ tr b itb 0%Z Eb) in Hlt.
      rewrite <- (Hrk itb it Hinb (nth_error_In _ _ Hi)). apply Z.ltb_lt. exact Hlt.
  Qed.

  Theorem learn_full_snapshot_gen {A} (ao : acc_ops A) (rk : A -> Z) n draws (st : lstate nat) :
    1 <= n ->
    let r := learn_full ltb zero top w ao n draws st in
    let sb := state_at (map (enc_iter rk) (fr_trace r)) (r_best (fr_res r)) draws st in
    r_snap (fr_res r) = (l_Xt sb, l_Yt sb) /\
    fr_nodes r = fst (predict_on (l_Xt sb) (fit_on (l_Xt sb) (l_Yt sb)) (l_Xv sb)).
  Proof.
    intros Hn r sb.
    destruct (learn_full_kept ltb zero top w ao n draws st Hn) as (it & Hi & Hs & Hnd).
    fold r in Hi, Hs, Hnd.
    pose proof (learn_full_trace_spec ltb zero top w ao rk n draws st _ it Hi) as H.
    fold r in H. fold sb in H. rewrite Hs, Hnd, H. split; reflexivity.
  Qed.

  (* what the records fed to Model/Learn.learn are *)
  Theorem learn_full_records n draws (st : lstate nat) :
    let r := learn_full ltb zero top w QAcc n draws st in
    let tr := fr_trace r in
    let code a := qrank (trace_accs tr) a in
    (forall i it, nth_error tr i = Some it ->
       let s := state_at (its_of tr) i draws st in
       let fitted := fit_on (l_Xt s) (l_Yt s) in
       let pass := predict_on (l_Xt s) fitted (l_Xv s) in
       it = iterate ltb zero top w QAcc (prev_at 0%Q tr i) s /\
       fi_nodes it = fst pass /\ fi_preds it = snd pass /\
       fi_acc it = opf_accuracy (l_Yv s) (snd pass) /\
       nth_error (its_of tr) i =
         Some (mkIter (code (fi_acc it)) (fi_errs it) (n_status (fi_nodes it)) (fi_small it))) /\
    (forall it it', In it tr -> In it' tr ->
       ((code (fi_acc it') < code (fi_acc it))%Z <-> (fi_acc it' < fi_acc it)%Q)).
  Proof.
    intros r tr code. split.
    - intros i it Hi s fitted pass.
      pose proof (learn_full_trace_spec ltb zero top w QAcc (qrank (trace_accs tr)) n draws st i it Hi) as H.
      change (it = iterate ltb zero top w QAcc (prev_at 0%Q tr i) s) in H.
      split; [exact H|].
      split; [rewrite H at 1; reflexivity|]. split; [rewrite H at 1; reflexivity|].
      split; [rewrite H at 1; reflexivity|].
      unfold its_of. rewrite nth_error_map. fold tr. rewrite Hi. reflexivity.
    - intros it it' Hin Hin'. unfold code. rewrite <- Z.ltb_lt, qrank_lt.
      + apply Qltb_lt.
      + unfold trace_accs. now apply in_map.
  Qed.
End LearnCor.

(* ------------------------------------------------------------------------------------ *)
(* a fitted-and-predicted table over a strict total order                                *)

Section Opf.
  Context {W : Type}.
  Variable ltb : W -> W -> bool.
  Hypothesis O : strict_total_order ltb.
  Variables zero top : W.
  Variable w : nat -> nat -> W.
  Hypothesis Hzt : ltb zero top = true.
  Hypothesis Hw : forall a b, ltb (w a b) zero = false /\ ltb (w a b) top = true.

  Local Notation fit_on := (fit_on ltb zero top w).
  Local Notation predict_on := (predict_on ltb zero w).

  Definition two_classes (Y : list nat) : Prop :=
    exists a b, a < length Y /\ b < length Y /\ nth a Y 0 <> nth b Y 0.

  (* what "the object holds the classifier sup_fit(X, Y)" means: every field but the relevance
     flags is the one fit computed *)
  Definition same_classifier (nd fitted : @nodes W) : Prop :=
    n_cost nd = n_cost fitted /\ n_pred nd = n_pred fitted /\ n_label nd = n_label fitted /\
    n_plabel nd = n_plabel fitted /\ n_status nd = n_status fitted /\ n_order nd = n_order fitted.

  Lemma predict_on_same X nd Xv : same_classifier (fst (predict_on X nd Xv)) nd.
  Proof.
    unfold predict_on.
    destruct (sup_predict_pointwise_gen ltb zero nd (map (fun v s => w (nth s X 0) v) Xv)) as (_ & H).
    cbv zeta in H. exact H.
  Qed.

  Lemma opf_spec_same n wX nd fitted isproto lab :
    same_classifier nd fitted ->
    opf_spec_W ltb n wX zero fitted isproto lab -> opf_spec_W ltb n wX zero nd isproto lab.
  Proof.
    intros (Hc & Hp & _ & Hpl & _ & Ho). unfold opf_spec_W. rewrite Hc, Hp, Hpl, Ho. exact (fun H => H).
  Qed.

  (* C01 + C02 on a training set of ids with two classes *)
  Lemma fit_on_opf X Y :
    two_classes Y ->
    let n := length Y in
    let wX p q := w (nth p X 0) (nth q X 0) in
    let nd := fit_on X Y in
    opf_spec_W ltb n wX zero nd (fun q => nth q (n_status nd) false = true) Y /\
    n_label nd = Y /\
    length (n_cost nd) = n /\ length (n_pred nd) = n /\ n_relevant nd = repeat false n.
  Proof.
    intros Hcls n wX nd.
    assert (HwX : forall p q, p < n -> q < n -> p <> q -> ltb (wX p q) zero = false /\ ltb (wX p q) top = true)
      by (intros; apply Hw).
    assert (Hproto : exists s, s < n /\ nth s (n_status (find_prototypes ltb top n wX (nodes_init zero Y))) false = true).
    { apply (prototypes_nonempty_anyorder ltb O zero top n wX Y); auto.
      - destruct Hcls as (a & _ & Ha & _). unfold n. lia.
      - intros p q Hp Hq Hpq. apply (HwX p q Hp Hq Hpq). }
    destruct (sup_fit_anyorder_full ltb O zero top Y wX Hzt HwX Hproto) as ((Hspec & Hst & Hlab) & (L1 & L2 & _ & _)).
    fold n in Hspec, L1, L2. change (sup_fit ltb zero top Y wX) with nd in *.
    split; [|split; [exact Hlab | split; [exact L1 | split; [exact L2 | apply sup_fit_relevant]]]].
    rewrite Hst. exact Hspec.
  Qed.

  (* the classifier left by learn_full is an optimum-path forest for its snapshot *)
  Theorem learn_full_classifier_is_opf {A} (ao : acc_ops A) n_iterations draws (st : lstate nat) :
    1 <= n_iterations ->
    let r := learn_full ltb zero top w ao n_iterations draws st in
    let X := fst (r_snap (fr_res r)) in
    let Y := snd (r_snap (fr_res r)) in
    let n := length Y in
    let wX p q := w (nth p X 0) (nth q X 0) in
    let nd := fr_nodes r in
    two_classes Y ->
    same_classifier nd (sup_fit ltb zero top Y wX) /\
    n_label nd = Y /\
    opf_spec_W ltb n wX zero nd (fun q => nth q (n_status nd) false = true) Y.
  Proof.
    intros Hn r X Y n wX nd Hcls.
    destruct (learn_full_kept_is_fit ltb zero top w ao n_iterations draws st Hn) as (Xv & Hnd).
    fold r X Y in Hnd. fold nd in Hnd.
    pose proof (predict_on_same X (fit_on X Y) Xv) as Hsame. rewrite <- Hnd in Hsame.
    destruct (fit_on_opf X Y Hcls) as (Hspec & Hlab & _).
    split; [exact Hsame|]. split.
    - destruct Hsame as (_ & _ & Hl & _). rewrite Hl. exact Hlab.
    - destruct Hsame as (Hc & Hp & Hl & Hpl & Hs & Ho).
      unfold opf_spec_W in *. fold n wX. rewrite Hc, Hp, Hpl, Ho, Hs. exact Hspec.
  Qed.

  (* ---------------- prune ---------------- *)

  (* relevance flags of a round, exactly (C17_relevant_exact_in_range on the fitted forest) *)
  Lemma prune_fit_relevant X Y Xv :
    two_classes Y ->
    let n := length Y in
    let r := prune_fit ltb zero top w X Y Xv in
    let fitted := fit_on X Y in
    let pred q := nth q (n_pred fitted) None in
    length (n_relevant (pr_nodes r)) = n /\
    forall t, t < n ->
      (nth t (n_relevant (pr_nodes r)) false = true <->
       exists v, In v Xv /\ exists c,
         snd (predict_one ltb zero fitted (fun s => w (nth s X 0) v)) = Some c /\
         exists k, reaches pred c t k).
  Proof.
    intros Hcls n r fitted pred.
    destruct (fit_on_opf X Y Hcls) as (Hspec & _ & L1 & L2 & Hrel). fold n fitted in Hspec, L1, L2, Hrel.
    destruct Hspec as (_ & _ & _ & _ & Hforest & _).
    pose proof (relevant_exact_in_range ltb zero fitted (map (fun v s => w (nth s X 0) v) Xv)) as H.
    cbv zeta in H. rewrite L1 in H. specialize (H L2 Hrel).
    assert (Hf : forall q, q < n -> exists r0 k, reaches (fun q0 => nth q0 (n_pred fitted) None) q r0 k /\
                                                  nth r0 (n_pred fitted) None = None /\ k < n).
    { intros q Hq. destruct (Hforest q Hq) as (r0 & k & _ & _ & Hr & Hp & Hk & _). exists r0, k. auto. }
    destruct (H Hf) as (Hlen & Hiff). split; [exact Hlen|].
    intros t Ht. etransitivity; [exact (Hiff t Ht)|]. split.
    - intros (d & Hd & c & Hc & Hk). apply in_map_iff in Hd. destruct Hd as (v & <- & Hv).
      exists v. split; [exact Hv|]. exists c. split; assumption.
    - intros (v & Hv & c & Hc & Hk). exists (fun s => w (nth s X 0) v). split.
      + apply in_map_iff. exists v. split; [reflexivity | exact Hv].
      + exists c. split; assumption.
  Qed.
End Opf.

Section PruneCor.
  Context {W : Type}.
  Variable ltb : W -> W -> bool.
  Variables zero top : W.
  Variable w : nat -> nat -> W.

  Local Notation fit_on := (fit_on ltb zero top w).
  Local Notation predict_on := (predict_on ltb zero w).

  (* the final training set is a sub-list (order preserved) of the original (id, label) pairs and
     the classifier left in the object is fit + validation pass on exactly that set *)
  Theorem prune_full_sublist n (st : lstate nat) :
    let fin := prune_full ltb zero top w n st in
    let X' := pr_X fin in
    let Y' := pr_Y fin in
    sublist (combine X' Y') (combine (l_Xt st) (l_Yt st)) /\
    (exists discarded, Permutation (combine X' Y' ++ discarded) (combine (l_Xt st) (l_Yt st))) /\
    sublist X' (l_Xt st) /\ sublist Y' (l_Yt st) /\
    length X' <= length (l_Xt st) /\ length Y' <= length (l_Yt st) /\
    (length (l_Xt st) = length (l_Yt st) -> length X' = length Y') /\
    pr_nodes fin = fst (predict_on X' (fit_on X' Y') (l_Xv st)) /\
    pr_preds fin = snd (predict_on X' (fit_on X' Y') (l_Xv st)).
  Proof.
    intros fin X' Y'.
    pose proof (prune_full_refines ltb zero top w n st) as Href. cbv zeta in Href. fold fin in Href.
    set (flagss := round_flags (prune_rounds ltb zero top w n (l_Xt st) (l_Yt st) (l_Xv st))) in Href.
    pose proof (prune_sublist flagss (l_Xt st) (l_Yt st)) as H. cbv zeta in H.
    rewrite <- Href in H. cbn [fst snd] in H. fold X' Y' in H.
    destruct H as (H1 & H2 & H3 & H4 & H5 & H6 & H7).
    repeat (split; [assumption|]).
    pose proof (prune_rounds_fit ltb zero top w n _ _ _ fin (prune_full_in ltb zero top w n st)) as Hf.
    fold X' Y' in Hf. split; rewrite Hf at 1; reflexivity.
  Qed.
  Theorem prune_full_refines_len n (st : lstate nat) :
    let rs := prune_rounds ltb zero top w n (l_Xt st) (l_Yt st) (l_Xv st) in
    let fin := prune_full ltb zero top w n st in
    length rs = S n /\
    (pr_X fin, pr_Y fin) =
      prune (map (fun r => n_relevant (pr_nodes r)) (removelast rs)) (l_Xt st) (l_Yt st).
  Proof.
    intros rs fin. split; [apply rounds_length|]. apply (prune_full_refines ltb zero top w n st).
  Qed.
End PruneCor.

(* ------------------------------------------------------------------------------------ *)
(* the exchanges never remove a class from the training set                              *)

Section KeepsProto.
  (* what an exchange pass may do to Y_train: same length, prototype positions untouched *)
  Definition yt_kept (proto : list bool) (st st' : lstate nat) : Prop :=
    length (l_Yt st') = length (l_Yt st) /\
    forall a, nth a proto true = true -> nth a (l_Yt st') 0 = nth a (l_Yt st) 0.

  Lemma yt_kept_refl proto st : yt_kept proto st st.
  Proof. split; auto. Qed.

  Lemma yt_kept_trans proto s1 s2 s3 : yt_kept proto s1 s2 -> yt_kept proto s2 s3 -> yt_kept proto s1 s3.
  Proof. intros (L1 & K1) (L2 & K2). split; [congruence|]. intros a Ha. rewrite K2, K1; auto. Qed.

  Lemma swap_rows_Yt (st : lstate nat) j e :
    l_Yt (swap_rows st j e) = fst (swap_at (l_Yt st) (l_Yv st) j e).
  Proof.
    unfold swap_rows. destruct (swap_at (l_Xt st) (l_Xv st) j e), (swap_at (l_Yt st) (l_Yv st) j e). reflexivity.
  Qed.

  Lemma swap_rows_kept proto (st : lstate nat) j e : nth j proto true = false -> yt_kept proto st (swap_rows st j e).
  Proof.
    intros Hj. unfold yt_kept. rewrite swap_rows_Yt. unfold swap_at.
    destruct (nth_error (l_Yt st) j), (nth_error (l_Yv st) e); cbn [fst]; try (split; auto; fail).
    split; [apply upd_length|]. intros a Ha. apply nth_upd_neq. intros ->. congruence.
  Qed.

  Lemma retry_kept proto e : forall ctr draws (st : lstate nat), yt_kept proto st (snd (retry ctr proto draws st e)).
  Proof.
    induction ctr as [|c IH]; intros draws st; cbn [retry]; [apply yt_kept_refl|].
    destruct draws as [|j ds]; [apply yt_kept_refl|].
    destruct (nth j proto true) eqn:Ej; [apply IH|]. cbn [snd]. now apply swap_rows_kept.
  Qed.

  Lemma err_loop_kept proto : forall errs np draws (st : lstate nat),
    yt_kept proto st (snd (err_loop proto errs np draws st)).
  Proof.
    induction errs as [|e es IH]; intros np draws st; cbn [err_loop]; [apply yt_kept_refl|].
    pose proof (retry_kept proto e np draws st) as Hr.
    destruct (retry np proto draws st e) as [[sw ds] st1]. cbn [snd] in Hr.
    eapply yt_kept_trans; [exact Hr | apply IH].
  Qed.
End KeepsProto.

Section ClassInv.
  Context {W : Type}.
  Variable ltb : W -> W -> bool.
  Hypothesis O : strict_total_order ltb.
  Variables zero top : W.
  Variable w : nat -> nat -> W.
  Hypothesis Hzt : ltb zero top = true.
  Hypothesis Hw : forall a b, ltb (w a b) zero = false /\ ltb (w a b) top = true.
  Context {A : Type}.
  Variable ao : acc_ops A.

  Local Notation iterate := (iterate ltb zero top w ao).
  Local Notation loop := (learn_full_loop ltb zero top w ao).

  (* every class present has a prototype (C02), prototypes are never exchanged: the training set
     keeps at least two classes *)
  Lemma exchanges_two_classes prev draws (st : lstate nat) :
    two_classes (l_Yt st) -> two_classes (l_Yt (snd (exchanges (iterate prev st) draws st))).
  Proof.
    intros Hcls. set (it := iterate prev st).
    set (Y := l_Yt st) in *. set (X := l_Xt st). set (n := length Y).
    set (wX := fun p q => w (nth p X 0) (nth q X 0)).
    assert (HwX : forall p q, p < n -> q < n -> p <> q -> ltb (wX p q) zero = false /\ ltb (wX p q) top = true)
      by (intros; apply Hw).
    assert (Hn : 1 <= n) by (destruct Hcls as (a & _ & Ha & _); unfold n; lia).
    assert (HwT : forall p q, p < n -> q < n -> p <> q -> ltb (wX p q) top = true)
      by (intros p q Hp Hq Hpq; apply (HwX p q Hp Hq Hpq)).
    pose proof (every_class_has_prototype_anyorder ltb O zero top n wX Y Hn eq_refl HwT Hcls) as Hevery.
    pose proof (prototypes_nonempty_anyorder ltb O zero top n wX Y Hn eq_refl HwT Hcls) as Hproto.
    destruct (sup_fit_anyorder_full ltb O zero top Y wX Hzt HwX Hproto) as ((_ & Hst & _) & _).
    assert (Hstatus : n_status (fi_nodes it) = n_status (find_prototypes ltb top n wX (nodes_init zero Y))).
    { transitivity (n_status (sup_fit ltb zero top Y wX)); [|exact Hst].
      unfold it, LearnFull.iterate. cbn [fi_nodes].
      destruct (predict_on_same ltb zero w X (fit_on ltb zero top w X Y) (l_Xv st)) as (_ & _ & _ & _ & Hs & _).
      exact Hs. }
    destruct Hcls as (a & b & Ha & Hb & Hab).
    destruct (Hevery a Ha) as (sa & Hsa & Psa & Lsa). destruct (Hevery b Hb) as (sb & Hsb & Psb & Lsb).
    destruct (err_loop_kept (n_status (fi_nodes it)) (fi_errs it)
                (count_non_prototypes (n_status (fi_nodes it))) draws st) as (Hlen & Hkeep).
    fold (exchanges it draws st) in Hlen, Hkeep. fold Y in Hlen, Hkeep.
    assert (Ka : nth sa (n_status (fi_nodes it)) true = true).
    { rewrite Hstatus. rewrite (nth_indep _ true false); [exact Psa|].
      destruct (find_prototypes_lengths_anyorder ltb O zero top n wX Y Hn eq_refl HwT) as (_ & _ & L & _). rewrite L. exact Hsa. }
    assert (Kb : nth sb (n_status (fi_nodes it)) true = true).
    { rewrite Hstatus. rewrite (nth_indep _ true false); [exact Psb|].
      destruct (find_prototypes_lengths_anyorder ltb O zero top n wX Y Hn eq_refl HwT) as (_ & _ & L & _). rewrite L. exact Hsb. }
    exists sa, sb. rewrite Hlen. fold n. split; [exact Hsa|]. split; [exact Hsb|].
    rewrite (Hkeep sa Ka), (Hkeep sb Kb). congruence.
  Qed.

  Lemma loop_two_classes : forall fuel t n mx prev best snap bnd draws (st : lstate nat),
    two_classes (l_Yt st) ->
    forall it, In it (fr_trace (loop fuel t n mx prev best snap bnd draws st)) -> two_classes (fi_Y it).
  Proof.
    induction fuel as [|f IH]; intros t n mx prev best snap bnd draws st Hcls it; [intros []|].
    rewrite loop_S. cbv zeta.
    destruct (fi_small _ || Nat.eqb (S t) n); cbn [fr_trace].
    - intros [<-|[]]. exact Hcls.
    - intros [<-|Hin]; [exact Hcls|].
      eapply IH; [|exact Hin]. apply exchanges_two_classes. exact Hcls.
  Qed.

  (* ... so the guard of [learn_full_classifier_is_opf] follows from the initial training set *)
  Theorem learn_full_snapshot_two_classes n_iterations draws (st : lstate nat) :
    1 <= n_iterations -> two_classes (l_Yt st) ->
    two_classes (snd (r_snap (fr_res (learn_full ltb zero top w ao n_iterations draws st)))).
  Proof.
    intros Hn Hcls.
    destruct (learn_full_kept ltb zero top w ao n_iterations draws st Hn) as (it & Hi & Hs & _).
    rewrite Hs. cbn [snd]. apply nth_error_In in Hi.
    unfold learn_full in Hi. eapply loop_two_classes; eauto.
  Qed.

  Theorem learn_full_trace_two_classes n_iterations draws (st : lstate nat) it :
    two_classes (l_Yt st) -> In it (fr_trace (learn_full ltb zero top w ao n_iterations draws st)) ->
    two_classes (fi_Y it).
  Proof. intros Hcls Hin. unfold learn_full in Hin. eapply loop_two_classes; eauto. Qed.
  Theorem learn_full_keeps_two_classes n_iterations draws (st : lstate nat) :
    two_classes (l_Yt st) ->
    let r := learn_full ltb zero top w ao n_iterations draws st in
    (forall it, In it (fr_trace r) -> two_classes (fi_Y it)) /\
    (1 <= n_iterations -> two_classes (snd (r_snap (fr_res r)))).
  Proof.
    intros Hcls r. split.
    - intros it Hin. eapply learn_full_trace_two_classes; eauto.
    - intros Hn. apply learn_full_snapshot_two_classes; assumption.
  Qed.
End ClassInv.

(* ------------------------------------------------------------------------------------ *)
(* W := Z: the statement in the vocabulary of Props/C01.v (<=, Z.max, pathmax)           *)

Lemma opf_spec_W_Z n (wX : nat -> nat -> Z) zero (nd : @nodes Z) isproto lab :
  opf_spec_W Z.ltb n wX zero nd isproto lab -> opf_spec_Z n wX zero nd isproto lab.
Proof.
  intros (A1 & A2 & A3 & A4 & A5 & A6 & A7).
  split; [exact A1|]. split; [|split; [exact A3|split; [|split; [exact A5|split]]]].
  - intros i j Hij Hj. apply Z.ltb_ge. exact (A2 i j Hij Hj).
  - intros q Hq Hp. destruct (A4 q Hq Hp) as (p & B1 & B2 & B3 & B4 & B5 & B6).
    exists p. rewrite LiftInst.wmax_Zmax in B4. exact (conj B1 (conj B2 (conj B3 (conj B4 (conj B5 B6))))).
  - intros q s pi Hq Hs Hp Hpath. specialize (A6 q s pi Hq Hs Hp Hpath).
    rewrite LiftInst.pathmaxW_Z in A6. now apply Z.ltb_ge.
  - intros q Hq. destruct (A7 q Hq) as (s & pi & B1 & B2 & B3 & B4).
    exists s, pi. rewrite LiftInst.pathmaxW_Z in B4. auto.
Qed.

Theorem learn_full_classifier_is_opf_Z (zero top : Z) (w : nat -> nat -> Z) {A} (ao : acc_ops A)
        n_iterations draws (st : lstate nat) :
  (zero < top)%Z -> (forall a b, (zero <= w a b < top)%Z) ->
  1 <= n_iterations ->
  two_classes (l_Yt st) ->
  let r := learn_full Z.ltb zero top w ao n_iterations draws st in
  let X := fst (r_snap (fr_res r)) in
  let Y := snd (r_snap (fr_res r)) in
  let n := length Y in
  let wX p q := w (nth p X 0) (nth q X 0) in
  let nd := fr_nodes r in
  two_classes Y /\
  same_classifier nd (sup_fit Z.ltb zero top Y wX) /\
  n_label nd = Y /\
  opf_spec_Z n wX zero nd (fun q => nth q (n_status nd) false = true) Y.
Proof.
  intros Hzt Hw Hn Hcls r X Y n wX nd.
  assert (Hzt' : Z.ltb zero top = true) by now apply Z.ltb_lt.
  assert (Hw' : forall a b, Z.ltb (w a b) zero = false /\ Z.ltb (w a b) top = true).
  { intros a b. destruct (Hw a b). split; [apply Z.ltb_ge | apply Z.ltb_lt]; lia. }
  assert (HY : two_classes Y).
  { apply (learn_full_snapshot_two_classes Z.ltb LiftInst.Z_order zero top w Hzt' Hw' ao n_iterations draws st Hn Hcls). }
  split; [exact HY|].
  destruct (learn_full_classifier_is_opf Z.ltb LiftInst.Z_order zero top w Hzt' Hw' ao n_iterations draws st Hn HY)
    as (H1 & H2 & H3).
  split; [exact H1|]. split; [exact H2|]. apply opf_spec_W_Z. exact H3.
Qed.

(* ------------------------------------------------------------------------------------ *)
(* the guard: fit finds a prototype iff the training set has two classes                  *)

Section Guard.
  Context {W : Type}.
  Variable ltb : W -> W -> bool.
  Hypothesis O : strict_total_order ltb.
  Variables zero top : W.
  Variable w : nat -> nat -> W.
  Hypothesis Hzt : ltb zero top = true.
  Hypothesis Hw : forall a b, ltb (w a b) zero = false /\ ltb (w a b) top = true.

  Lemma seed_fold_no_proto : forall l h (nd : @nodes W),
    (forall i, nth i (n_status nd) false = false) ->
    exists h', fold_left (seed_step ltb zero top) l (h, nd) = (h', nd) /\ hn h' = hn h.
  Proof.
    induction l as [|i l IH]; intros h nd Hno; [exists h; split; reflexivity|].
    cbn [fold_left]. unfold seed_step at 2. rewrite (Hno i).
    destruct (IH (set_cost h i top) nd Hno) as (h' & E & Hn). exists h'. split; [exact E|].
    rewrite Hn. reflexivity.
  Qed.

  (* without a prototype the competition never starts: the node table comes back unchanged *)
  Lemma compete_no_proto semi nl n wX (nd : @nodes W) :
    (forall i, nth i (n_status nd) false = false) ->
    compete ltb zero top semi nl n wX nd = nd.
  Proof.
    intros Hno. unfold compete.
    destruct (seed_fold_no_proto (seq 0 n) (h_init top n PMin) nd Hno) as (h' & E & Hn).
    rewrite E. destruct n as [|n]; [reflexivity|]. cbn [fit_loop].
    unfold remove, is_empty. rewrite Hn. reflexivity.
  Qed.

  Theorem fit_ok_iff_two_classes X Y :
    1 <= length Y ->
    (fit_ok (fit_on ltb zero top w X Y) = true <-> two_classes Y).
  Proof.
    intros Hn. set (n := length Y) in *.
    set (wX := fun p q => w (nth p X 0) (nth q X 0)).
    assert (HwT : forall p q, p < n -> q < n -> p <> q -> ltb (wX p q) top = true)
      by (intros p q _ _ _; apply Hw).
    split.
    - intros Hok.
      destruct (List.Exists_dec (fun a => exists b, b < n /\ nth a Y 0 <> nth b Y 0) (seq 0 n)) as [He|Hne].
      { intros a. destruct (List.Exists_dec (fun b => nth a Y 0 <> nth b Y 0) (seq 0 n)) as [He|Hne].
        - intros b. destruct (Nat.eq_dec (nth a Y 0) (nth b Y 0)); [right; auto | left; auto].
        - left. apply Exists_exists in He. destruct He as (b & Hb & Hab). apply in_seq in Hb.
          exists b. split; [lia | exact Hab].
        - right. intros (b & Hb & Hab). apply Hne. apply Exists_exists. exists b.
          split; [apply in_seq; lia | exact Hab]. }
      + apply Exists_exists in He. destruct He as (a & Ha & b & Hb & Hab). apply in_seq in Ha.
        exists a, b. repeat split; auto. fold n. lia.
      + exfalso.
        assert (Hone : forall a b, a < n -> b < n -> nth a Y 0 = nth b Y 0).
        { intros a b Ha Hb. destruct (Nat.eq_dec (nth a Y 0) (nth b Y 0)) as [E|E]; [exact E|].
          exfalso. apply Hne. apply Exists_exists. exists a. split; [apply in_seq; lia|].
          exists b. split; assumption. }
        set (fp := find_prototypes ltb top n wX (nodes_init zero Y)).
        destruct (find_prototypes_lengths_anyorder ltb O zero top n wX Y Hn eq_refl HwT)
          as (_ & _ & Ls & _ & _ & _ & Lo). fold fp in Ls, Lo.
        assert (Hno : forall i, nth i (n_status fp) false = false).
        { intros i. destruct (Nat.lt_ge_cases i n) as [Hi|Hi]; [|apply nth_overflow; lia].
          destruct (nth i (n_status fp) false) eqn:Ei; [|reflexivity]. exfalso.
          apply (prototypes_exact_anyorder ltb O zero top n wX Y Hn eq_refl HwT i Hi) in Ei.
          destruct Ei as (r0 & _ & Hr & Hlab). apply Hlab. apply Hone; assumption. }
        unfold fit_ok, fit_on, sup_fit in Hok. fold n wX fp in Hok.
        rewrite (compete_no_proto false n n wX fp Hno), Lo in Hok. discriminate.
    - intros Hcls.
      destruct (fit_on_opf ltb O zero top w Hzt Hw X Y Hcls) as ((Hperm & _) & _).
      unfold fit_ok. destruct (n_order (fit_on ltb zero top w X Y)) as [|x l] eqn:E; [|reflexivity].
      apply Permutation_length in Hperm. rewrite seq_length in Hperm. cbn in Hperm. fold n in Hperm. lia.
  Qed.
End Guard.

(* ------------------------------------------------------------------------------------ *)
(* prune: every retained sample lay on the root path of a conqueror in the round before  *)

Section PruneRel.
  Context {W : Type}.
  Variable ltb : W -> W -> bool.
  Hypothesis O : strict_total_order ltb.
  Variables zero top : W.
  Variable w : nat -> nat -> W.
  Hypothesis Hzt : ltb zero top = true.
  Hypothesis Hw : forall a b, ltb (w a b) zero = false /\ ltb (w a b) top = true.

  Theorem prune_full_retained_relevant n_iterations (st : lstate nat) i r r' :
    let rounds := prune_rounds ltb zero top w n_iterations (l_Xt st) (l_Yt st) (l_Xv st) in
    nth_error rounds i = Some r -> nth_error rounds (S i) = Some r' ->
    two_classes (pr_Y r) ->
    let fitted := fit_on ltb zero top w (pr_X r) (pr_Y r) in
    let pred q := nth q (n_pred fitted) None in
    let fl := n_relevant (pr_nodes r) in
    pr_X r' = keep fl (pr_X r) /\ pr_Y r' = keep fl (pr_Y r) /\
    same_classifier (pr_nodes r) fitted /\
    length fl = length (pr_Y r) /\
    forall t, t < length (pr_Y r) ->
      (nth t fl false = true <->
       exists v, In v (l_Xv st) /\ exists c,
         snd (predict_one ltb zero fitted (fun s => w (nth s (pr_X r) 0) v)) = Some c /\
         exists k, reaches pred c t k).
  Proof.
    intros rounds Hi Hi' Hcls fitted pred fl.
    destruct (prune_rounds_step ltb zero top w _ _ _ _ i r r' Hi Hi') as (HX & HY).
    split; [exact HX|]. split; [exact HY|].
    pose proof (prune_rounds_fit ltb zero top w _ _ _ _ r (nth_error_In _ _ Hi)) as Hfit.
    split.
    - rewrite Hfit at 1. unfold prune_fit. cbn [pr_nodes]. apply predict_on_same.
    - destruct (prune_fit_relevant ltb O zero top w Hzt Hw (pr_X r) (pr_Y r) (l_Xv st) Hcls) as (Hlen & Hiff).
      assert (E : pr_nodes r = pr_nodes (prune_fit ltb zero top w (pr_X r) (pr_Y r) (l_Xv st)))
        by (rewrite Hfit at 1; reflexivity).
      unfold fl. rewrite E. split; [exact Hlen | exact Hiff].
  Qed.
End PruneRel.
