(* binary64 round-to-nearest-even IS a rounding function of the abstract classes of this development.
   Instance facts for [rnd64x] (no underflow) and [rnd64] (gradual underflow), each from Flocq. *)
From Coq Require Import Reals ZArith Lia Lra.
From Flocq Require Import Core Relative.
From OPF Require Import Base.NumOpsRnd Model.MetricRnd Model.MetricSym Model.MetricRdepth Model.Binary64
     Proofs.RdepthWitness.
Local Open Scope R_scope.

Local Instance prec53 : Prec_gt_0 53 := eq_refl.

(* ------------------------------------------------------------------ *)
(* powers of two: Flocq's bpow against the development's [2 ^ n]      *)
(* ------------------------------------------------------------------ *)
Lemma bpow2_nat (n : nat) : bpow radix2 (Z.of_nat n) = 2 ^ n.
Proof. rewrite bpow_powerRZ, <- pow_powerRZ. reflexivity. Qed.

Lemma bpow2_neg_nat (n : nat) : bpow radix2 (- Z.of_nat n) = / 2 ^ n.
Proof. rewrite bpow_opp, bpow2_nat. reflexivity. Qed.

Lemma u64_bpow : u64 = / 2 * bpow radix2 (- 53 + 1).
Proof.
  unfold u64. change (-53 + 1)%Z with (- Z.of_nat 52)%Z. rewrite bpow2_neg_nat.
  change 53%nat with (S 52). rewrite <- tech_pow_Rmult.
  rewrite Rinv_mult. reflexivity.
Qed.

Lemma u64_bpow' : u64 = bpow radix2 (-53).
Proof. unfold u64. change (-53)%Z with (- Z.of_nat 53)%Z. now rewrite bpow2_neg_nat. Qed.

(* ------------------------------------------------------------------ *)
(* generic facts: any valid format, round to nearest even            *)
(* ------------------------------------------------------------------ *)
Section Generic.
  Variable fexp : Z -> Z.
  Context {VE : Valid_exp fexp}.
  Context {NE : Exists_NE radix2 fexp}.
  Let rnd := round radix2 fexp ZnearestE.

  Lemma gen_mono a b : a <= b -> rnd a <= rnd b.
  Proof. intros H. apply round_le; auto with typeclass_instances. Qed.

  Lemma gen_zero : rnd 0 = 0.
  Proof. apply round_0; auto with typeclass_instances. Qed.

  Lemma gen_odd : rnd_odd rnd.
  Proof. intros t. apply round_NE_opp. Qed.

  Lemma gen_idem : rnd_idem rnd.
  Proof.
    intros t. apply round_generic; auto with typeclass_instances.
    apply generic_format_round; auto with typeclass_instances.
  Qed.

  Lemma gen_nonneg a : 0 <= a -> 0 <= rnd a.
  Proof. intros H. rewrite <- gen_zero. now apply gen_mono. Qed.

  Lemma gen_nonpos a : a <= 0 -> rnd a <= 0.
  Proof. intros H. rewrite <- gen_zero. now apply gen_mono. Qed.

  Lemma gen_fix t : generic_format radix2 fexp t -> rnd t = t.
  Proof. intros H. apply round_generic; auto with typeclass_instances. Qed.
End Generic.

(* integers of magnitude at most 2^53 are in both formats *)
Lemma IZR_F2R z : IZR z = F2R (Float radix2 z 0).
Proof. unfold F2R. cbn [Fnum Fexp bpow]. ring. Qed.

Lemma int_format_FLX z : (Z.abs z <= 2 ^ 53)%Z -> generic_format radix2 (FLX_exp 53) (IZR z).
Proof.
  intros H. destruct (Z.eq_dec (Z.abs z) (2 ^ 53)) as [E|N].
  - assert (Hp : generic_format radix2 (FLX_exp 53) (bpow radix2 53)).
    { apply generic_format_bpow. unfold FLX_exp. lia. }
    assert (E2 : IZR (2 ^ 53) = bpow radix2 53) by (now rewrite <- IZR_Zpower by lia).
    destruct (Z.abs_spec z) as [[_ A]|[_ A]]; rewrite A in E.
    + rewrite E, E2. exact Hp.
    + replace z with (- 2 ^ 53)%Z by lia. rewrite opp_IZR, E2. now apply generic_format_opp.
  - apply generic_format_FLX. apply FLX_spec with (Float radix2 z 0).
    + apply IZR_F2R.
    + change (Z.abs z < 2 ^ 53)%Z. lia.
Qed.

Lemma int_format_FLT z : (Z.abs z <= 2 ^ 53)%Z -> generic_format radix2 (FLT_exp (-1074) 53) (IZR z).
Proof.
  intros H. destruct (Z.eq_dec (Z.abs z) (2 ^ 53)) as [E|N].
  - assert (Hp : generic_format radix2 (FLT_exp (-1074) 53) (bpow radix2 53)).
    { apply generic_format_bpow. unfold FLT_exp. lia. }
    assert (E2 : IZR (2 ^ 53) = bpow radix2 53) by (now rewrite <- IZR_Zpower by lia).
    destruct (Z.abs_spec z) as [[_ A]|[_ A]]; rewrite A in E.
    + rewrite E, E2. exact Hp.
    + replace z with (- 2 ^ 53)%Z by lia. rewrite opp_IZR, E2. now apply generic_format_opp.
  - apply generic_format_FLT. apply FLT_spec with (Float radix2 z 0).
    + apply IZR_F2R.
    + change (Z.abs z < 2 ^ 53)%Z. lia.
    + change (-1074 <= 0)%Z. lia.
Qed.

(* ------------------------------------------------------------------ *)
(* rnd64x: binary64 without underflow                                  *)
(* ------------------------------------------------------------------ *)
Lemma rnd64x_mono a b : a <= b -> rnd64x a <= rnd64x b.
Proof. apply gen_mono; auto with typeclass_instances. Qed.

Lemma rnd64x_zero : rnd64x 0 = 0.
Proof. apply gen_zero; auto with typeclass_instances. Qed.

Lemma rnd64x_odd : rnd_odd rnd64x.
Proof. apply gen_odd; auto with typeclass_instances. Qed.

Lemma rnd64x_idem : rnd_idem rnd64x.
Proof. apply gen_idem; auto with typeclass_instances. Qed.

Lemma rnd64x_rel : rnd_rel u64 rnd64x.
Proof.
  intros t. destruct (relative_error_N_FLX_ex radix2 53 eq_refl (fun z => negb (Z.even z)) t) as [d [Hd E]].
  exists d. split; [now rewrite u64_bpow | exact E].
Qed.

Lemma rnd64x_pos a : 0 < a -> 0 < rnd64x a.
Proof.
  intros H. destruct (rnd64x_rel a) as [d [Hd E]]. rewrite E.
  pose proof u64_range as [_ U]. apply Rabs_le_inv in Hd.
  apply Rmult_lt_0_compat; lra.
Qed.

Lemma rnd64x_neg a : a < 0 -> rnd64x a < 0.
Proof.
  intros H. assert (P : 0 < rnd64x (- a)) by (apply rnd64x_pos; lra).
  rewrite rnd64x_odd in P. lra.
Qed.

Lemma rnd64x_rounding : rounding rnd64x.
Proof. constructor; [exact rnd64x_mono | exact rnd64x_zero | exact rnd64x_pos | exact rnd64x_neg]. Qed.

Lemma rnd64x_int z : (Z.abs z <= 2 ^ 53)%Z -> rnd64x (IZR z) = IZR z.
Proof. intros H. apply gen_fix; auto with typeclass_instances. now apply int_format_FLX. Qed.

Lemma rnd64x_one : rnd64x 1 = 1.
Proof. apply (rnd64x_int 1). lia. Qed.

Lemma rnd64x_le_double x : 0 <= x -> rnd64x x <= 2 * x.
Proof.
  intros H. destruct (rnd64x_rel x) as [d [Hd E]]. rewrite E.
  pose proof u64_range as [_ U]. apply Rabs_le_inv in Hd. nra.
Qed.

Lemma rnd64x_ints_upto (M : Z) : (M <= 2 ^ 53)%Z -> forall z, (0 <= z <= M)%Z -> rnd64x (IZR z) = IZR z.
Proof. intros HM z Hz. apply rnd64x_int. lia. Qed.

(* a power of two times a representable number is representable (no underflow, no overflow in FLX) *)
Lemma rnd64x_scale (e : Z) t : rnd64x (bpow radix2 e * t) = bpow radix2 e * rnd64x t.
Proof.
  unfold rnd64x. destruct (Req_dec t 0) as [->|Ht].
  - rewrite Rmult_0_r, round_0; [ring | auto with typeclass_instances].
  - unfold round, scaled_mantissa, cexp, F2R, FLX_exp. cbn [Fnum Fexp].
    rewrite (Rmult_comm (bpow radix2 e) t), mag_mult_bpow by exact Ht.
    replace (- (mag radix2 t + e - 53))%Z with (- (mag radix2 t - 53) + - e)%Z by lia.
    rewrite bpow_plus.
    replace (t * bpow radix2 e * (bpow radix2 (- (mag radix2 t - 53)) * bpow radix2 (- e)))
      with (t * bpow radix2 (- (mag radix2 t - 53)) * (bpow radix2 e * bpow radix2 (- e))) by ring.
    rewrite <- bpow_plus, Z.add_opp_diag_r. cbn [bpow]. rewrite Rmult_1_r.
    replace (mag radix2 t + e - 53)%Z with ((mag radix2 t - 53) + e)%Z by lia.
    rewrite bpow_plus. ring.
Qed.

(* ------------------------------------------------------------------ *)
(* rnd64: the real binary64 rounding (gradual underflow)               *)
(* ------------------------------------------------------------------ *)
Lemma rnd64_mono a b : a <= b -> rnd64 a <= rnd64 b.
Proof. apply gen_mono; auto with typeclass_instances. Qed.

Lemma rnd64_zero : rnd64 0 = 0.
Proof. apply gen_zero; auto with typeclass_instances. Qed.

Lemma rnd64_odd : rnd_odd rnd64.
Proof. apply gen_odd; auto with typeclass_instances. Qed.

Lemma rnd64_idem : rnd_idem rnd64.
Proof. apply gen_idem; auto with typeclass_instances. Qed.

Lemma rnd64_nonneg a : 0 <= a -> 0 <= rnd64 a.
Proof. apply gen_nonneg; auto with typeclass_instances. Qed.

Lemma rnd64_nonpos a : a <= 0 -> rnd64 a <= 0.
Proof. apply gen_nonpos; auto with typeclass_instances. Qed.

Lemma rnd64_int z : (Z.abs z <= 2 ^ 53)%Z -> rnd64 (IZR z) = IZR z.
Proof. intros H. apply gen_fix; auto with typeclass_instances. now apply int_format_FLT. Qed.

Lemma rnd64_one : rnd64 1 = 1.
Proof. apply (rnd64_int 1). lia. Qed.

Lemma rnd64_eq_rnd64x t : bpow radix2 (-1022) <= Rabs t -> rnd64 t = rnd64x t.
Proof. intros H. apply round_FLT_FLX. exact H. Qed.

Lemma rnd64_rel_normal t : bpow radix2 (-1022) <= Rabs t -> exists d, Rabs d <= u64 /\ rnd64 t = t * (1 + d).
Proof. intros H. rewrite (rnd64_eq_rnd64x t H). apply rnd64x_rel. Qed.

Lemma rnd64_tiny : rnd64 (bpow radix2 (-1076)) = 0.
Proof.
  apply round_N_small_pos with (ex := (-1075)%Z).
  - split; [apply Rle_refl | apply bpow_lt; lia].
  - unfold FLT_exp. lia.
Qed.

Lemma rnd64_not_rounding : ~ rounding rnd64.
Proof.
  intros [_ _ P _]. specialize (P (bpow radix2 (-1076)) (bpow_gt_0 _ _)).
  rewrite rnd64_tiny in P. lra.
Qed.

(* the same facts with the development's own powers *)
Lemma bpow_m1022 : bpow radix2 (-1022) = / 2 ^ 1022.
Proof. change (-1022)%Z with (- Z.of_nat 1022)%Z. apply bpow2_neg_nat. Qed.

Lemma bpow_m1076 : bpow radix2 (-1076) = / 2 ^ 1076.
Proof. change (-1076)%Z with (- Z.of_nat 1076)%Z. apply bpow2_neg_nat. Qed.

Lemma bpow_1024 : bpow radix2 1024 = 2 ^ 1024.
Proof. change 1024%Z with (Z.of_nat 1024). apply bpow2_nat. Qed.
