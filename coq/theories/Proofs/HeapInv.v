(* Correctness of the indexed binary heap model (Model/Heap.v) at [W := Z], [ltb := Z.ltb]:
   well-formedness invariant [Inv] and the specifications of every operation. *)
From Coq Require Import List Arith Bool ZArith Lia ZifyBool Permutation.
From OPF Require Import Base.Lists Model.Heap Proofs.HeapBase.
Import ListNotations.

(* ------------------------------------------------------------------ *)
(* The invariant                                                       *)

Record Inv (h : heap Z) : Prop := mkInv {
  inv_lcost : length (hcost h) = hsize h;
  inv_lcolor : length (hcolor h) = hsize h;
  inv_lp : length (hp h) = hsize h;
  inv_lpos : length (hpos h) = hsize h;
  inv_n : hn h <= hsize h;
  inv_range : forall q, In q (queued h) -> q < hsize h;
  inv_nodup : NoDup (queued h);
  inv_pos : forall i, i < hn h -> nth (nth i (hp h) 0) (hpos h) None = Some i;
  inv_color : forall q, q < hsize h ->
      (nth q (hcolor h) White = Gray <-> In q (queued h));
  (* a non-queued element has no position, or the stale position 0 left behind by the
     removal of the last element; [go_up] from position 0 is a no-op *)
  inv_stale : forall q, q < hsize h -> ~ In q (queued h) ->
      nth q (hpos h) None = None \/ nth q (hpos h) None = Some 0;
  (* heap order: a child is never strictly better than its parent
     (the default [d] of the cost lookup is irrelevant, every lookup is in range) *)
  inv_order : forall d i, 0 < i < hn h ->
      better Z.ltb (hpol h) (pcost d h i) (pcost d h (dad i)) = false }.

(* ------------------------------------------------------------------ *)
(* Pointwise (index based) form of the structural part                 *)

Definition Qd (h : heap Z) (q : nat) : Prop :=
  exists i, i < hn h /\ nth i (hp h) 0 = q.

Record WF (h : heap Z) : Prop := mkWF {
  wf_lcost : length (hcost h) = hsize h;
  wf_lcolor : length (hcolor h) = hsize h;
  wf_lp : length (hp h) = hsize h;
  wf_lpos : length (hpos h) = hsize h;
  wf_n : hn h <= hsize h;
  wf_range : forall i, i < hn h -> nth i (hp h) 0 < hsize h;
  wf_pos : forall i, i < hn h -> nth (nth i (hp h) 0) (hpos h) None = Some i;
  wf_color : forall q, q < hsize h -> (nth q (hcolor h) White = Gray <-> Qd h q);
  wf_stale : forall q, q < hsize h -> ~ Qd h q ->
      nth q (hpos h) None = None \/ nth q (hpos h) None = Some 0 }.

Lemma In_queued (h : heap Z) q :
  hn h <= length (hp h) -> (In q (queued h) <-> Qd h q).
Proof. intros Hn. unfold queued, Qd. apply In_firstn_nth; exact Hn. Qed.

Lemma wf_inj h a b :
  WF h -> a < hn h -> b < hn h -> nth a (hp h) 0 = nth b (hp h) 0 -> a = b.
Proof.
  intros Hwf Ha Hb Heq. pose proof (wf_pos h Hwf a Ha) as Pa.
  pose proof (wf_pos h Hwf b Hb) as Pb. rewrite Heq in Pa. congruence.
Qed.

Lemma wf_hn_lp h : WF h -> hn h <= length (hp h).
Proof. intros Hwf. rewrite (wf_lp h Hwf). apply wf_n; exact Hwf. Qed.

Lemma queued_length h : WF h -> length (queued h) = hn h.
Proof. intros Hwf. unfold queued. apply firstn_length_le. apply wf_hn_lp; exact Hwf. Qed.

Lemma wf_nodup h : WF h -> NoDup (queued h).
Proof.
  intros Hwf. unfold queued. apply NoDup_firstn_nth; [apply wf_hn_lp; exact Hwf|].
  intros i j Hi Hj. apply wf_inj; assumption.
Qed.

Lemma pcost_indep h d d' i : WF h -> i < hn h -> pcost d h i = pcost d' h i.
Proof.
  intros Hwf Hi. unfold pcost. apply nth_indep.
  rewrite (wf_lcost h Hwf). apply wf_range; assumption.
Qed.

Lemma Inv_WF h : Inv h -> WF h.
Proof.
  intros HI.
  assert (Hn : hn h <= length (hp h)) by (rewrite (inv_lp h HI); apply inv_n; exact HI).
  constructor; try (apply HI).
  - intros i Hi. apply (inv_range h HI). apply In_queued; [exact Hn|]. exists i; auto.
  - intros q Hq. rewrite <- (In_queued h q Hn). apply (inv_color h HI); exact Hq.
  - intros q Hq Hnq. apply (inv_stale h HI); [exact Hq|].
    rewrite (In_queued h q Hn). exact Hnq.
Qed.

Lemma Inv_HOrd d h : Inv h -> HOrd (hpol h) (hn h) (pcost d h).
Proof. intros HI k Hk. unfold ord. apply (inv_order h HI); exact Hk. Qed.

Lemma Inv_intro d h : WF h -> HOrd (hpol h) (hn h) (pcost d h) -> Inv h.
Proof.
  intros Hwf HO. pose proof (wf_hn_lp h Hwf) as Hn.
  constructor; try (apply Hwf).
  - intros q Hq. apply (In_queued h q Hn) in Hq. destruct Hq as [i [Hi <-]].
    apply wf_range; assumption.
  - apply wf_nodup; exact Hwf.
  - intros q Hq. rewrite (In_queued h q Hn). apply (wf_color h Hwf); exact Hq.
  - intros q Hq Hnq. apply (wf_stale h Hwf); [exact Hq|].
    rewrite <- (In_queued h q Hn). exact Hnq.
  - intros d' i Hi. pose proof (dad_lt i ltac:(lia)) as Hd.
    rewrite (pcost_indep h d' d i), (pcost_indep h d' d (dad i)) by (auto; lia).
    apply HO; exact Hi.
Qed.

(* [h'] has the same observable content as [h] (only [hp]/[hpos] were permuted) *)
Definition Same (h h' : heap Z) : Prop :=
  hsize h' = hsize h /\ hpol h' = hpol h /\ hcost h' = hcost h /\ hcolor h' = hcolor h /\
  hn h' = hn h /\ (forall q, Qd h' q <-> Qd h q).

Lemma Same_refl h : Same h h.
Proof. unfold Same; intuition. Qed.

Lemma Same_trans h1 h2 h3 : Same h1 h2 -> Same h2 h3 -> Same h1 h3.
Proof.
  unfold Same. intros (A1 & A2 & A3 & A4 & A5 & A6) (B1 & B2 & B3 & B4 & B5 & B6).
  repeat split; try congruence.
  - intros Hq. apply A6, B6, Hq.
  - intros Hq. apply B6, A6, Hq.
Qed.

(* ------------------------------------------------------------------ *)
(* swap                                                                *)

Ltac brk :=
  repeat match goal with
  | |- context [Nat.eqb ?a ?b] => destruct (Nat.eqb_spec a b)
  | |- context [Nat.ltb ?a ?b] => destruct (Nat.ltb_spec a b)
  end.

Definition tr (i j k : nat) : nat := if Nat.eqb k i then j else if Nat.eqb k j then i else k.

Lemma tr_lt n i j k : i < n -> j < n -> k < n -> tr i j k < n.
Proof. unfold tr; intros; brk; lia. Qed.

Lemma tr_invol i j k : tr i j (tr i j k) = k.
Proof.
  unfold tr. destruct (Nat.eqb_spec k i) as [->|H1];
    [|destruct (Nat.eqb_spec k j) as [->|H2]]; brk; lia.
Qed.

Lemma swap_hp (h : heap Z) i j k :
  i < length (hp h) -> j < length (hp h) ->
  nth k (hp (swap h i j)) 0 = nth (tr i j k) (hp h) 0.
Proof.
  intros Hi Hj. unfold swap, tr; cbn [hp]. rewrite !nth_upd, !upd_length.
  brk; subst; try lia; reflexivity.
Qed.

Lemma swap_hpos (h : heap Z) i j q :
  i < length (hp h) -> j < length (hp h) ->
  nth i (hp h) 0 < length (hpos h) -> nth j (hp h) 0 < length (hpos h) ->
  nth q (hpos (swap h i j)) None =
    if Nat.eqb q (nth i (hp h) 0) then Some j
    else if Nat.eqb q (nth j (hp h) 0) then Some i else nth q (hpos h) None.
Proof.
  intros Hi Hj Hpi Hpj.
  pose proof (swap_hp h i j i Hi Hj) as E1. pose proof (swap_hp h i j j Hi Hj) as E2.
  unfold swap in *; cbn [hp hpos] in *. rewrite E1, E2. clear E1 E2.
  assert (T1 : tr i j i = j) by (unfold tr; brk; lia).
  assert (T2 : tr i j j = i) by (unfold tr; brk; lia).
  rewrite T1, T2. rewrite !nth_upd, !upd_length.
  brk; subst; try lia; try reflexivity; congruence.
Qed.

Lemma pcost_swap top (h : heap Z) i j :
  i < length (hp h) -> j < length (hp h) ->
  swapped (pcost top h) (pcost top (swap h i j)) i j.
Proof.
  intros Hi Hj k. unfold pcost. rewrite (swap_hp h i j k Hi Hj).
  change (hcost (swap h i j)) with (hcost h). unfold tr. brk; reflexivity.
Qed.

Lemma swap_Qd h i j q :
  i < hn h -> j < hn h -> hn h <= length (hp h) -> (Qd (swap h i j) q <-> Qd h q).
Proof.
  intros Hi Hj Hn. unfold Qd. change (hn (swap h i j)) with (hn h).
  split; intros [k [Hk Hq]].
  - exists (tr i j k). split; [apply tr_lt; assumption|].
    rewrite <- Hq. symmetry. apply swap_hp; lia.
  - exists (tr i j k). split; [apply tr_lt; assumption|].
    rewrite swap_hp by lia. rewrite tr_invol. exact Hq.
Qed.

Lemma swap_Same h i j : WF h -> i < hn h -> j < hn h -> Same h (swap h i j).
Proof.
  intros Hwf Hi Hj. unfold Same. repeat split; try reflexivity.
  - apply swap_Qd; auto. apply wf_hn_lp; exact Hwf.
  - apply swap_Qd; auto. apply wf_hn_lp; exact Hwf.
Qed.

Lemma swap_WF h i j : WF h -> i < hn h -> j < hn h -> WF (swap h i j).
Proof.
  intros Hwf Hi Hj.
  pose proof (wf_hn_lp h Hwf) as Hn.
  assert (Hi' : i < length (hp h)) by lia. assert (Hj' : j < length (hp h)) by lia.
  pose proof (wf_range h Hwf i Hi) as Ri. pose proof (wf_range h Hwf j Hj) as Rj.
  assert (Hpos : forall q, nth q (hpos (swap h i j)) None =
    if Nat.eqb q (nth i (hp h) 0) then Some j
    else if Nat.eqb q (nth j (hp h) 0) then Some i else nth q (hpos h) None).
  { intros q. apply swap_hpos; auto; rewrite (wf_lpos h Hwf); assumption. }
  constructor.
  - apply Hwf.
  - apply Hwf.
  - unfold swap; cbn [hp hsize]. rewrite !upd_length. apply Hwf.
  - unfold swap; cbn [hpos hsize]. rewrite !upd_length. apply Hwf.
  - apply Hwf.
  - intros k Hk. change (hn (swap h i j)) with (hn h) in Hk.
    rewrite swap_hp by assumption. change (hsize (swap h i j)) with (hsize h).
    apply wf_range; [exact Hwf|]. apply tr_lt; assumption.
  - intros k Hk. change (hn (swap h i j)) with (hn h) in Hk.
    rewrite swap_hp by assumption. rewrite Hpos. unfold tr.
    destruct (Nat.eqb_spec k i) as [->|Hki].
    + destruct (Nat.eqb_spec (nth j (hp h) 0) (nth i (hp h) 0)) as [E|_].
      * f_equal. apply (wf_inj h); auto.
      * rewrite Nat.eqb_refl. reflexivity.
    + destruct (Nat.eqb_spec k j) as [->|Hkj].
      * rewrite Nat.eqb_refl. reflexivity.
      * destruct (Nat.eqb_spec (nth k (hp h) 0) (nth i (hp h) 0)) as [E|_].
        { exfalso. apply Hki. apply (wf_inj h); auto. }
        destruct (Nat.eqb_spec (nth k (hp h) 0) (nth j (hp h) 0)) as [E|_].
        { exfalso. apply Hkj. apply (wf_inj h); auto. }
        apply wf_pos; assumption.
  - intros q Hq. change (hsize (swap h i j)) with (hsize h) in Hq.
    change (hcolor (swap h i j)) with (hcolor h).
    rewrite (swap_Qd h i j q Hi Hj Hn). apply wf_color; assumption.
  - intros q Hq Hnq. change (hsize (swap h i j)) with (hsize h) in Hq.
    rewrite (swap_Qd h i j q Hi Hj Hn) in Hnq. rewrite Hpos.
    destruct (Nat.eqb_spec q (nth i (hp h) 0)) as [->|_].
    { exfalso. apply Hnq. exists i; auto. }
    destruct (Nat.eqb_spec q (nth j (hp h) 0)) as [->|_].
    { exfalso. apply Hnq. exists j; auto. }
    apply wf_stale; assumption.
Qed.

(* ------------------------------------------------------------------ *)
(* go_up / go_down                                                     *)

Section Ops.
  Variable top : Z.

  Definition cost (h : heap Z) (q : nat) : Z := nth q (hcost h) top.

  Notation go_up := (go_up Z.ltb top).
  Notation go_down := (go_down Z.ltb top).
  Notation insert := (insert Z.ltb top).
  Notation remove := (remove Z.ltb top).
  Notation update := (update Z.ltb top).

  Lemma go_up_S f (h : heap Z) i :
    go_up (S f) h i =
      if Nat.ltb 0 i && better Z.ltb (hpol h) (pcost top h i) (pcost top h (dad i))
      then go_up f (swap h i (dad i)) (dad i) else h.
  Proof. reflexivity. Qed.

  Lemma go_down_S f (h : heap Z) i :
    go_down (S f) h i =
      let j := sel (hpol h) (hn h) (pcost top h) i in
      if Nat.eqb j i then h else go_down f (swap h i j) j.
  Proof. reflexivity. Qed.

  Lemma go_up_struct f : forall h i, WF h -> i < hn h ->
    WF (go_up f h i) /\ Same h (go_up f h i).
  Proof.
    induction f as [|f IH]; intros h i Hwf Hi.
    - split; [exact Hwf|apply Same_refl].
    - rewrite go_up_S.
      destruct (Nat.ltb 0 i && better Z.ltb (hpol h) (pcost top h i) (pcost top h (dad i))) eqn:Hc.
      + apply andb_true_iff in Hc. destruct Hc as [Hc _]. apply Nat.ltb_lt in Hc.
        pose proof (dad_lt i Hc) as Hd.
        assert (Hdn : dad i < hn h) by lia.
        destruct (IH (swap h i (dad i)) (dad i) (swap_WF h i (dad i) Hwf Hi Hdn) Hdn) as [W S].
        split; [exact W|].
        eapply Same_trans; [apply (swap_Same h i (dad i)); assumption|exact S].
      + split; [exact Hwf|apply Same_refl].
  Qed.

  Lemma go_up_ord f : forall h i, WF h -> i < hn h -> i < f ->
    UpI (hpol h) (hn h) (pcost top h) i ->
    HOrd (hpol h) (hn h) (pcost top (go_up f h i)).
  Proof.
    induction f as [|f IH]; intros h i Hwf Hi Hf HU; [lia|].
    rewrite go_up_S.
    destruct (Nat.ltb 0 i && better Z.ltb (hpol h) (pcost top h i) (pcost top h (dad i))) eqn:Hc.
    - apply andb_true_iff in Hc. destruct Hc as [Hc Hb]. apply Nat.ltb_lt in Hc.
      pose proof (dad_lt i Hc) as Hd.
      assert (Hdn : dad i < hn h) by lia.
      pose proof (wf_hn_lp h Hwf) as Hn.
      apply (IH (swap h i (dad i)) (dad i)).
      + apply swap_WF; assumption.
      + exact Hdn.
      + lia.
      + change (hpol (swap h i (dad i))) with (hpol h).
        change (hn (swap h i (dad i))) with (hn h).
        eapply up_step; [exact HU|lia|exact Hb|]. apply pcost_swap; lia.
    - apply andb_false_iff in Hc. eapply up_done; [exact HU|].
      destruct Hc as [Hc|Hc]; [left; apply Nat.ltb_ge in Hc; lia|right; exact Hc].
  Qed.

  Lemma go_down_struct f : forall h i, WF h ->
    WF (go_down f h i) /\ Same h (go_down f h i).
  Proof.
    induction f as [|f IH]; intros h i Hwf.
    - split; [exact Hwf|apply Same_refl].
    - rewrite go_down_S. cbv zeta.
      pose proof (sel_spec (hpol h) (hn h) (pcost top h) i) as Hs. cbv zeta in Hs.
      destruct Hs as [[Hj _]|(Hne & Hij & Hjn & _)].
      + rewrite Hj, Nat.eqb_refl. split; [exact Hwf|apply Same_refl].
      + destruct (Nat.eqb_spec (sel (hpol h) (hn h) (pcost top h) i) i) as [E|_];
          [contradiction|].
        set (j := sel (hpol h) (hn h) (pcost top h) i) in *.
        assert (Hi : i < hn h) by lia.
        destruct (IH (swap h i j) j (swap_WF h i j Hwf Hi Hjn)) as [W S].
        split; [exact W|].
        eapply Same_trans; [apply (swap_Same h i j); assumption|exact S].
  Qed.

  Lemma go_down_ord f : forall h i, WF h -> hn h <= i + f ->
    DownI (hpol h) (hn h) (pcost top h) i ->
    HOrd (hpol h) (hn h) (pcost top (go_down f h i)).
  Proof.
    induction f as [|f IH]; intros h i Hwf Hf HD.
    - cbn [Heap.go_down]. eapply down_done_leaf; [exact HD|lia].
    - rewrite go_down_S. cbv zeta.
      pose proof (sel_spec (hpol h) (hn h) (pcost top h) i) as Hs. cbv zeta in Hs.
      destruct Hs as [(Hj & Hl & Hr)|(Hne & Hij & Hjn & Hdj & Hb & Hbest)].
      + rewrite Hj, Nat.eqb_refl. eapply down_done; eauto.
      + destruct (Nat.eqb_spec (sel (hpol h) (hn h) (pcost top h) i) i) as [E|_];
          [contradiction|].
        set (j := sel (hpol h) (hn h) (pcost top h) i) in *.
        assert (Hi : i < hn h) by lia.
        pose proof (wf_hn_lp h Hwf) as Hn.
        apply (IH (swap h i j) j).
        * apply swap_WF; assumption.
        * change (hn (swap h i j)) with (hn h). lia.
        * change (hpol (swap h i j)) with (hpol h). change (hn (swap h i j)) with (hn h).
          eapply down_step; [exact HD|exact Hjn|exact Hdj|lia|exact Hb|exact Hbest|].
          apply pcost_swap; lia.
  Qed.

  (* The fuel supplied by the model is never the reason a loop stops: any two sufficient
     amounts of fuel give the same result (so the fuelled loops are the Python loops). *)
  Lemma go_up_fuel f : forall f' (h : heap Z) i, i < f -> i < f' -> go_up f h i = go_up f' h i.
  Proof.
    induction f as [|f IH]; intros f' h i Hf Hf'; [lia|].
    destruct f' as [|f']; [lia|]. rewrite !go_up_S.
    destruct (Nat.ltb 0 i && better Z.ltb (hpol h) (pcost top h i) (pcost top h (dad i))) eqn:Hc;
      [|reflexivity].
    apply andb_true_iff in Hc. destruct Hc as [Hc _]. apply Nat.ltb_lt in Hc.
    pose proof (dad_lt i Hc) as Hd. apply IH; lia.
  Qed.

  Lemma go_down_stop f (h : heap Z) i : hn h <= i -> go_down f h i = h.
  Proof.
    intros Hi. destruct f as [|f]; [reflexivity|]. rewrite go_down_S. cbv zeta.
    pose proof (sel_spec (hpol h) (hn h) (pcost top h) i) as Hs. cbv zeta in Hs.
    destruct Hs as [[Hj _]|(_ & Hij & Hjn & _)]; [|lia].
    rewrite Hj, Nat.eqb_refl. reflexivity.
  Qed.

  Lemma go_down_fuel f : forall f' (h : heap Z) i,
    hn h <= i + f -> hn h <= i + f' -> go_down f h i = go_down f' h i.
  Proof.
    induction f as [|f IH]; intros f' h i Hf Hf'.
    - rewrite (go_down_stop f') by lia. reflexivity.
    - destruct f' as [|f'].
      + rewrite (go_down_stop (S f)) by lia. reflexivity.
      + rewrite !go_down_S. cbv zeta.
        pose proof (sel_spec (hpol h) (hn h) (pcost top h) i) as Hs. cbv zeta in Hs.
        destruct (Nat.eqb_spec (sel (hpol h) (hn h) (pcost top h) i) i) as [E|Hne];
          [reflexivity|].
        destruct Hs as [[Hj _]|(_ & Hij & _)]; [contradiction|].
        apply IH; change (hn (swap h i (sel (hpol h) (hn h) (pcost top h) i))) with (hn h); lia.
  Qed.

  (* packaging: a sift applied to a structurally well-formed heap satisfying the loop
     invariant yields a heap satisfying [Inv] with the same content *)
  Lemma Same_HOrd h h' :
    Same h h' -> HOrd (hpol h) (hn h) (pcost top h') -> HOrd (hpol h') (hn h') (pcost top h').
  Proof. intros (_ & E2 & _ & _ & E5 & _) HO. rewrite E2, E5. exact HO. Qed.

  Lemma go_up_Inv f h i : WF h -> i < hn h -> i < f ->
    UpI (hpol h) (hn h) (pcost top h) i ->
    Inv (go_up f h i) /\ Same h (go_up f h i).
  Proof.
    intros Hwf Hi Hf HU. destruct (go_up_struct f h i Hwf Hi) as [W S].
    split; [|exact S]. apply (Inv_intro top); [exact W|].
    apply (Same_HOrd h); [exact S|]. apply go_up_ord; assumption.
  Qed.

  Lemma go_down_Inv f h i : WF h -> hn h <= i + f ->
    DownI (hpol h) (hn h) (pcost top h) i ->
    Inv (go_down f h i) /\ Same h (go_down f h i).
  Proof.
    intros Hwf Hf HD. destruct (go_down_struct f h i Hwf) as [W S].
    split; [|exact S]. apply (Inv_intro top); [exact W|].
    apply (Same_HOrd h); [exact S|]. apply go_down_ord; assumption.
  Qed.

  (* ---------------------------------------------------------------- *)
  (* init, is_empty, is_full                                           *)

  Theorem inv_init : forall size pol, Inv (h_init top size pol).
  Proof.
    intros size pol. apply (Inv_intro top).
    - constructor; unfold h_init; cbn [hcost hcolor hp hpos hsize hn];
        try (apply repeat_length).
      + lia.
      + intros i Hi; lia.
      + intros i Hi; lia.
      + intros q Hq. rewrite nth_repeat_any by exact Hq. split; [discriminate|].
        intros [i [Hi _]]. cbn [hn] in Hi. lia.
      + intros q Hq _. left. apply nth_repeat_any; exact Hq.
    - intros k Hk. unfold h_init in Hk; cbn [hn] in Hk. lia.
  Qed.

  Theorem is_empty_spec h : Inv h -> (is_empty h = true <-> queued h = []).
  Proof.
    intros HI. pose proof (queued_length h (Inv_WF h HI)) as Hl.
    unfold is_empty. rewrite Nat.eqb_eq. split; intros H.
    - apply length_zero_iff_nil. lia.
    - rewrite H in Hl. cbn in Hl. lia.
  Qed.

  Theorem is_full_spec h : Inv h -> (is_full h = true <-> length (queued h) = hsize h).
  Proof.
    intros HI. pose proof (queued_length h (Inv_WF h HI)) as Hl.
    unfold is_full. rewrite Nat.eqb_eq. lia.
  Qed.

  (* ---------------------------------------------------------------- *)
  (* set_cost                                                          *)

  Lemma set_cost_WF h p c : WF h -> WF (set_cost h p c).
  Proof.
    intros Hwf. constructor; try (apply Hwf).
    unfold set_cost; cbn [hcost hsize]. rewrite upd_length. apply Hwf.
  Qed.

  Lemma pcost_set_cost_other h p c k :
    nth k (hp h) 0 <> p -> pcost top (set_cost h p c) k = pcost top h k.
  Proof.
    intros Hne. unfold pcost, set_cost; cbn [hp hcost]. apply nth_upd_neq. congruence.
  Qed.

  Lemma pcost_set_cost_same h p c k :
    p < length (hcost h) -> nth k (hp h) 0 = p -> pcost top (set_cost h p c) k = c.
  Proof.
    intros Hp He. unfold pcost, set_cost; cbn [hp hcost]. rewrite He.
    apply nth_upd_eq; exact Hp.
  Qed.

  Theorem set_cost_nonqueued_inv h p c :
    Inv h -> ~ In p (queued h) -> Inv (set_cost h p c).
  Proof.
    intros HI Hnq. pose proof (Inv_WF h HI) as Hwf.
    apply (Inv_intro top); [apply set_cost_WF; exact Hwf|].
    change (hpol (set_cost h p c)) with (hpol h). change (hn (set_cost h p c)) with (hn h).
    intros k Hk. pose proof (dad_lt k ltac:(lia)) as Hd.
    assert (Hnot : forall i, i < hn h -> nth i (hp h) 0 <> p).
    { intros i Hi E. apply Hnq. apply In_queued; [apply wf_hn_lp; exact Hwf|].
      exists i; auto. }
    rewrite !pcost_set_cost_other by (apply Hnot; lia).
    apply (Inv_HOrd top h HI); exact Hk.
  Qed.

  (* ---------------------------------------------------------------- *)
  (* insert                                                            *)

  Definition ins1 (h : heap Z) (p : nat) : heap Z :=
    mkHeap (hsize h) (hpol h) (hcost h) (upd (hcolor h) p Gray)
           (upd (hp h) (hn h) p) (upd (hpos h) p (Some (hn h))) (S (hn h)).

  Lemma ins1_hp h p k : hn h < length (hp h) ->
    nth k (hp (ins1 h p)) 0 = if Nat.eqb k (hn h) then p else nth k (hp h) 0.
  Proof.
    intros Hn. unfold ins1; cbn [hp]. rewrite nth_upd. brk; subst; try lia; reflexivity.
  Qed.

  Lemma ins1_Qd h p q : hn h < length (hp h) -> (Qd (ins1 h p) q <-> q = p \/ Qd h q).
  Proof.
    intros Hn. unfold Qd. change (hn (ins1 h p)) with (S (hn h)). split.
    - intros [k [Hk Hq]]. rewrite ins1_hp in Hq by exact Hn.
      destruct (Nat.eqb_spec k (hn h)) as [->|Hne]; [left; auto|].
      right. exists k. split; [lia|exact Hq].
    - intros [->|[k [Hk Hq]]].
      + exists (hn h). split; [lia|]. rewrite ins1_hp by exact Hn.
        rewrite Nat.eqb_refl. reflexivity.
      + exists k. split; [lia|]. rewrite ins1_hp by exact Hn.
        destruct (Nat.eqb_spec k (hn h)) as [E|_]; [lia|exact Hq].
  Qed.

  Lemma ins1_WF h p : WF h -> p < hsize h -> ~ Qd h p -> hn h < hsize h -> WF (ins1 h p).
  Proof.
    intros Hwf Hp Hnq Hroom.
    assert (Hn : hn h < length (hp h)) by (rewrite (wf_lp h Hwf); exact Hroom).
    assert (Hpos : forall q, nth q (hpos (ins1 h p)) None =
                     if Nat.eqb q p then Some (hn h) else nth q (hpos h) None).
    { intros q. unfold ins1; cbn [hpos]. rewrite nth_upd, (wf_lpos h Hwf).
      brk; subst; try lia; reflexivity. }
    constructor.
    - apply Hwf.
    - unfold ins1; cbn [hcolor hsize]. rewrite upd_length. apply Hwf.
    - unfold ins1; cbn [hp hsize]. rewrite upd_length. apply Hwf.
    - unfold ins1; cbn [hpos hsize]. rewrite upd_length. apply Hwf.
    - unfold ins1; cbn [hn hsize]. lia.
    - intros k Hk. change (hn (ins1 h p)) with (S (hn h)) in Hk.
      rewrite ins1_hp by exact Hn. change (hsize (ins1 h p)) with (hsize h).
      destruct (Nat.eqb_spec k (hn h)) as [E|Hne]; [exact Hp|].
      apply wf_range; [exact Hwf|lia].
    - intros k Hk. change (hn (ins1 h p)) with (S (hn h)) in Hk.
      rewrite ins1_hp by exact Hn. rewrite Hpos.
      destruct (Nat.eqb_spec k (hn h)) as [->|Hne].
      + rewrite Nat.eqb_refl. reflexivity.
      + destruct (Nat.eqb_spec (nth k (hp h) 0) p) as [E|_].
        { exfalso. apply Hnq. exists k. split; [lia|exact E]. }
        apply wf_pos; [exact Hwf|lia].
    - intros q Hq. change (hsize (ins1 h p)) with (hsize h) in Hq.
      rewrite (ins1_Qd h p q Hn). unfold ins1; cbn [hcolor].
      rewrite nth_upd, (wf_lcolor h Hwf).
      destruct (Nat.eqb_spec p q) as [->|Hne].
      + destruct (Nat.ltb_spec q (hsize h)) as [_|Hge]; [|lia]. split; auto.
      + rewrite (wf_color h Hwf q Hq). split; [auto|]. intros [E|Hx]; [congruence|exact Hx].
    - intros q Hq Hnq'. change (hsize (ins1 h p)) with (hsize h) in Hq.
      rewrite (ins1_Qd h p q Hn) in Hnq'. rewrite Hpos.
      destruct (Nat.eqb_spec q p) as [E|_]; [exfalso; auto|].
      apply wf_stale; auto.
  Qed.

  Lemma ins1_UpI h p : WF h -> HOrd (hpol h) (hn h) (pcost top h) -> hn h < hsize h ->
    UpI (hpol h) (S (hn h)) (pcost top (ins1 h p)) (hn h).
  Proof.
    intros Hwf HO Hroom.
    assert (Hn : hn h < length (hp h)) by (rewrite (wf_lp h Hwf); exact Hroom).
    assert (Hpc : forall k, k <> hn h -> pcost top (ins1 h p) k = pcost top h k).
    { intros k Hk. unfold pcost. rewrite ins1_hp by exact Hn.
      destruct (Nat.eqb_spec k (hn h)) as [E|_]; [contradiction|]. reflexivity. }
    split.
    - intros k Hk Hne. pose proof (dad_lt k ltac:(lia)) as Hd.
      rewrite !Hpc by lia. apply HO; lia.
    - intros k Hk Hd _. pose proof (dad_lt k ltac:(lia)). lia.
  Qed.

  Lemma insert_unfold h p : is_full h = false ->
    insert h p = (go_up (S (hn h)) (ins1 h p) (hn h), true).
  Proof. intros Hf. unfold Heap.insert. rewrite Hf. reflexivity. Qed.

  Theorem insert_spec h p :
    Inv h -> p < hsize h -> ~ In p (queued h) -> hn h < hsize h ->
    let '(h', b) := insert h p in
    b = true /\ Inv h' /\ Permutation (queued h') (p :: queued h) /\
    hcost h' = hcost h /\ hcolor h' = upd (hcolor h) p Gray /\
    hsize h' = hsize h /\ hpol h' = hpol h.
  Proof.
    intros HI Hp Hnq Hroom. pose proof (Inv_WF h HI) as Hwf.
    pose proof (wf_hn_lp h Hwf) as Hn.
    assert (Hnq' : ~ Qd h p) by (rewrite <- (In_queued h p Hn); exact Hnq).
    rewrite insert_unfold by (unfold is_full; apply Nat.eqb_neq; lia).
    pose proof (ins1_WF h p Hwf Hp Hnq' Hroom) as Hwf1.
    destruct (go_up_Inv (S (hn h)) (ins1 h p) (hn h) Hwf1) as [HI' S].
    { cbn [ins1 hn]. lia. }
    { lia. }
    { apply (ins1_UpI h p); auto. apply Inv_HOrd; exact HI. }
    destruct S as (S1 & S2 & S3 & S4 & S5 & S6).
    split; [reflexivity|]. split; [exact HI'|].
    repeat split; try assumption.
    apply NoDup_Permutation.
    - apply (inv_nodup _ HI').
    - constructor; [exact Hnq|apply (inv_nodup _ HI)].
    - intros q. pose proof (Inv_WF _ HI') as Hwf'.
      rewrite (In_queued _ q (wf_hn_lp _ Hwf')). rewrite S6.
      rewrite ins1_Qd by (rewrite (wf_lp h Hwf); exact Hroom).
      cbn [In]. rewrite (In_queued h q Hn). intuition.
  Qed.

  Theorem insert_full h p : hn h = hsize h -> insert h p = (h, false).
  Proof.
    intros Hf. unfold Heap.insert, is_full. rewrite Hf, Nat.eqb_refl. reflexivity.
  Qed.

  (* ---------------------------------------------------------------- *)
  (* remove                                                            *)

  Definition rem1 (h : heap Z) : heap Z :=
    let p := nth 0 (hp h) 0 in
    let last := hn h - 1 in
    let p1 := upd (hp h) 0 (nth last (hp h) 0) in
    mkHeap (hsize h) (hpol h) (hcost h) (upd (hcolor h) p Black) p1
           (upd (upd (hpos h) p None) (nth 0 p1 0) (Some 0)) last.

  Lemma remove_unfold h : is_empty h = false ->
    remove h = (go_down (hsize h) (rem1 h) 0, Some (nth 0 (hp h) 0)).
  Proof. intros He. unfold Heap.remove. rewrite He. reflexivity. Qed.

  Lemma rem1_hp h k : 0 < length (hp h) ->
    nth k (hp (rem1 h)) 0 = if Nat.eqb k 0 then nth (hn h - 1) (hp h) 0 else nth k (hp h) 0.
  Proof.
    intros Hn. unfold rem1; cbn [hp]. rewrite nth_upd. brk; subst; try lia; reflexivity.
  Qed.

  Lemma rem1_Qd h q : WF h -> 0 < hn h ->
    (Qd (rem1 h) q <-> Qd h q /\ q <> nth 0 (hp h) 0).
  Proof.
    intros Hwf Hpos. pose proof (wf_hn_lp h Hwf) as Hn.
    unfold Qd. change (hn (rem1 h)) with (hn h - 1). split.
    - intros [k [Hk Hq]]. rewrite rem1_hp in Hq by lia.
      destruct (Nat.eqb_spec k 0) as [->|Hne].
      + split; [exists (hn h - 1); split; [lia|exact Hq]|].
        intros E. rewrite <- Hq in E. apply (wf_inj h) in E; auto; lia.
      + split; [exists k; split; [lia|exact Hq]|].
        intros E. rewrite <- Hq in E. apply (wf_inj h) in E; auto; lia.
    - intros [[k [Hk Hq]] Hne].
      assert (Hk0 : k <> 0) by (intros ->; auto).
      destruct (Nat.eq_dec k (hn h - 1)) as [->|Hkl].
      + exists 0. split; [lia|]. rewrite rem1_hp by lia. exact Hq.
      + exists k. split; [lia|]. rewrite rem1_hp by lia.
        destruct (Nat.eqb_spec k 0) as [E|_]; [contradiction|exact Hq].
  Qed.

  Lemma rem1_hpos h q : WF h -> 0 < hn h ->
    nth q (hpos (rem1 h)) None =
      if Nat.eqb q (nth (hn h - 1) (hp h) 0) then Some 0
      else if Nat.eqb q (nth 0 (hp h) 0) then None else nth q (hpos h) None.
  Proof.
    intros Hwf Hpos. pose proof (wf_hn_lp h Hwf) as Hn.
    pose proof (rem1_hp h 0 ltac:(lia)) as E0. rewrite Nat.eqb_refl in E0.
    unfold rem1 in *; cbn [hp hpos] in *. rewrite E0.
    pose proof (wf_range h Hwf 0 Hpos) as R0.
    pose proof (wf_range h Hwf (hn h - 1) ltac:(lia)) as Rl.
    rewrite !nth_upd, !upd_length, (wf_lpos h Hwf).
    brk; subst; try lia; try reflexivity; congruence.
  Qed.

  Lemma rem1_WF h : WF h -> 0 < hn h -> WF (rem1 h).
  Proof.
    intros Hwf Hpos. pose proof (wf_hn_lp h Hwf) as Hn.
    pose proof (wf_range h Hwf 0 Hpos) as R0.
    pose proof (wf_range h Hwf (hn h - 1) ltac:(lia)) as Rl.
    constructor.
    - apply Hwf.
    - unfold rem1; cbn [hcolor hsize]. rewrite upd_length. apply Hwf.
    - unfold rem1; cbn [hp hsize]. rewrite upd_length. apply Hwf.
    - unfold rem1; cbn [hpos hsize]. rewrite !upd_length. apply Hwf.
    - change (hn (rem1 h)) with (hn h - 1). change (hsize (rem1 h)) with (hsize h).
      pose proof (wf_n h Hwf). lia.
    - intros k Hk. change (hn (rem1 h)) with (hn h - 1) in Hk.
      change (hsize (rem1 h)) with (hsize h). rewrite rem1_hp by lia.
      destruct (Nat.eqb_spec k 0) as [_|_]; apply wf_range; auto; lia.
    - intros k Hk. change (hn (rem1 h)) with (hn h - 1) in Hk.
      rewrite rem1_hp by lia. rewrite rem1_hpos by assumption.
      destruct (Nat.eqb_spec k 0) as [->|Hk0].
      + rewrite Nat.eqb_refl. reflexivity.
      + destruct (Nat.eqb_spec (nth k (hp h) 0) (nth (hn h - 1) (hp h) 0)) as [E|_].
        { apply (wf_inj h) in E; auto; lia. }
        destruct (Nat.eqb_spec (nth k (hp h) 0) (nth 0 (hp h) 0)) as [E|_].
        { apply (wf_inj h) in E; auto; lia. }
        apply wf_pos; [exact Hwf|lia].
    - intros q Hq. change (hsize (rem1 h)) with (hsize h) in Hq.
      rewrite (rem1_Qd h q Hwf Hpos). unfold rem1; cbn [hcolor].
      rewrite nth_upd, (wf_lcolor h Hwf).
      destruct (Nat.eqb_spec (nth 0 (hp h) 0) q) as [E|Hne].
      + destruct (Nat.ltb_spec (nth 0 (hp h) 0) (hsize h)) as [_|Hge]; [|lia].
        split; [discriminate|]. intros [_ Hx]. congruence.
      + rewrite (wf_color h Hwf q Hq). split; [intros Hx; split; auto|intros [Hx _]; exact Hx].
    - intros q Hq Hnq. change (hsize (rem1 h)) with (hsize h) in Hq.
      rewrite (rem1_Qd h q Hwf Hpos) in Hnq. rewrite rem1_hpos by assumption.
      destruct (Nat.eqb_spec q (nth (hn h - 1) (hp h) 0)) as [_|_]; [right; reflexivity|].
      destruct (Nat.eqb_spec q (nth 0 (hp h) 0)) as [_|Hne]; [left; reflexivity|].
      apply wf_stale; auto.
  Qed.

  Lemma rem1_DownI h : WF h -> 0 < hn h -> HOrd (hpol h) (hn h) (pcost top h) ->
    DownI (hpol h) (hn h - 1) (pcost top (rem1 h)) 0.
  Proof.
    intros Hwf Hpos HO. pose proof (wf_hn_lp h Hwf) as Hn.
    assert (Hpc : forall k, k <> 0 -> pcost top (rem1 h) k = pcost top h k).
    { intros k Hk. unfold pcost. rewrite rem1_hp by lia.
      destruct (Nat.eqb_spec k 0) as [E|_]; [contradiction|]. reflexivity. }
    split.
    - intros k Hk Hd. rewrite !Hpc by lia. apply HO; lia.
    - intros k Hk Hd Hi. lia.
  Qed.

  Theorem remove_spec h :
    Inv h -> 0 < hn h ->
    exists p h', remove h = (h', Some p) /\ In p (queued h) /\
      (forall q, In q (queued h) -> better Z.ltb (hpol h) (cost h q) (cost h p) = false) /\
      Permutation (queued h) (p :: queued h') /\ Inv h' /\
      hcost h' = hcost h /\ hcolor h' = upd (hcolor h) p Black /\
      hsize h' = hsize h /\ hpol h' = hpol h.
  Proof.
    intros HI Hpos. pose proof (Inv_WF h HI) as Hwf. pose proof (wf_hn_lp h Hwf) as Hn.
    pose proof (rem1_WF h Hwf Hpos) as Hwf1.
    destruct (go_down_Inv (hsize h) (rem1 h) 0 Hwf1) as [HI' S].
    { change (hn (rem1 h)) with (hn h - 1). pose proof (wf_n h Hwf). lia. }
    { apply (rem1_DownI h); auto. apply Inv_HOrd; exact HI. }
    destruct S as (S1 & S2 & S3 & S4 & S5 & S6).
    exists (nth 0 (hp h) 0), (go_down (hsize h) (rem1 h) 0).
    split; [apply remove_unfold; unfold is_empty; apply Nat.eqb_neq; lia|].
    assert (Hin : In (nth 0 (hp h) 0) (queued h)).
    { apply In_queued; [exact Hn|]. exists 0; auto. }
    split; [exact Hin|]. split.
    { intros q Hq. apply In_queued in Hq; [|exact Hn]. destruct Hq as [k [Hk <-]].
      apply (HOrd_root (hpol h) (hn h) (pcost top h) (Inv_HOrd top h HI) k Hk). }
    pose proof (Inv_WF _ HI') as Hwf'.
    assert (HinQ : forall q, In q (queued (go_down (hsize h) (rem1 h) 0)) <->
                             Qd h q /\ q <> nth 0 (hp h) 0).
    { intros q. rewrite (In_queued _ q (wf_hn_lp _ Hwf')). rewrite S6.
      apply rem1_Qd; assumption. }
    split.
    { apply NoDup_Permutation.
      - apply (inv_nodup _ HI).
      - constructor; [|apply (inv_nodup _ HI')]. rewrite HinQ. intros [_ Hx]; auto.
      - intros q. cbn [In]. rewrite HinQ, (In_queued h q Hn).
        destruct (Nat.eq_dec (nth 0 (hp h) 0) q) as [E|Hne].
        + split; [left; exact E|]. intros _. rewrite <- E. exists 0; auto.
        + split; [intros Hx; right; split; auto|intros [E|[Hx _]]; [contradiction|exact Hx]]. }
    split; [exact HI'|]. repeat split; assumption.
  Qed.

  Theorem remove_empty h : hn h = 0 -> remove h = (h, None).
  Proof. intros He. unfold Heap.remove, is_empty. rewrite He. reflexivity. Qed.

  (* ---------------------------------------------------------------- *)
  (* update                                                            *)

  Theorem update_gray_spec h p c :
    Inv h -> In p (queued h) -> better Z.ltb (hpol h) (cost h p) c = false ->
    let h' := update h p c in
    Inv h' /\ Permutation (queued h') (queued h) /\ hcost h' = upd (hcost h) p c /\
    hcolor h' = hcolor h /\ hsize h' = hsize h /\ hpol h' = hpol h.
  Proof.
    intros HI Hin Hc. pose proof (Inv_WF h HI) as Hwf. pose proof (wf_hn_lp h Hwf) as Hn.
    pose proof (inv_range h HI p Hin) as Hp.
    assert (Hgray : nth p (hcolor h) White = Gray) by (apply (inv_color h HI); assumption).
    apply (In_queued h p Hn) in Hin. destruct Hin as [i [Hi Hpi]].
    pose proof (wf_pos h Hwf i Hi) as Hposp. rewrite Hpi in Hposp.
    cbv zeta. unfold Heap.update.
    change (hcolor (set_cost h p c)) with (hcolor h).
    change (hpos (set_cost h p c)) with (hpos h).
    rewrite Hgray, Hposp.
    pose proof (set_cost_WF h p c Hwf) as Hwf1.
    assert (HO : HOrd (hpol h) (hn h) (pcost top h)) by (apply Inv_HOrd; exact HI).
    assert (Hpl : p < length (hcost h)) by (rewrite (wf_lcost h Hwf); exact Hp).
    assert (Hother : forall k, k < hn h -> k <> i ->
              pcost top (set_cost h p c) k = pcost top h k).
    { intros k Hk Hne. apply pcost_set_cost_other. intros E. apply Hne.
      apply (wf_inj h); auto. congruence. }
    assert (Hself : pcost top (set_cost h p c) i = c)
      by (apply pcost_set_cost_same; assumption).
    assert (Hci : ord (hpol h) c (pcost top h i)).
    { unfold ord, pcost. rewrite Hpi. exact Hc. }
    destruct (go_up_Inv (S i) (set_cost h p c) i Hwf1) as [HI' S].
    { exact Hi. }
    { lia. }
    { change (hpol (set_cost h p c)) with (hpol h). change (hn (set_cost h p c)) with (hn h).
      split.
      - intros k Hk Hne. pose proof (dad_lt k ltac:(lia)) as Hd.
        rewrite (Hother k) by (auto; lia).
        destruct (Nat.eq_dec (dad k) i) as [E|Hdne].
        + rewrite E, Hself. eapply ord_trans; [exact Hci|]. rewrite <- E. apply HO; exact Hk.
        + rewrite (Hother (dad k)) by (auto; lia). apply HO; exact Hk.
      - intros k Hk Hd Hi0. pose proof (dad_lt k ltac:(lia)) as Hdk.
        pose proof (dad_lt i Hi0) as Hdi.
        rewrite (Hother k), (Hother (dad i)) by lia.
        eapply ord_trans; [apply HO; lia|]. rewrite <- Hd. apply HO; exact Hk. }
    destruct S as (S1 & S2 & S3 & S4 & S5 & S6).
    split; [exact HI'|]. split; [|repeat split; assumption].
    apply NoDup_Permutation.
    - apply (inv_nodup _ HI').
    - apply (inv_nodup _ HI).
    - intros q. pose proof (Inv_WF _ HI') as Hwf'.
      rewrite (In_queued _ q (wf_hn_lp _ Hwf')), S6, (In_queued h q Hn). reflexivity.
  Qed.

  Lemma update_white h p c : nth p (hcolor h) White = White ->
    update h p c = fst (insert (set_cost h p c) p).
  Proof.
    intros Hw. unfold Heap.update. change (hcolor (set_cost h p c)) with (hcolor h).
    rewrite Hw. reflexivity.
  Qed.

  Theorem update_white_spec h p c :
    Inv h -> p < hsize h -> nth p (hcolor h) White = White -> hn h < hsize h ->
    let h' := update h p c in
    Inv h' /\ Permutation (queued h') (p :: queued h) /\ hcost h' = upd (hcost h) p c /\
    hcolor h' = upd (hcolor h) p Gray /\ hsize h' = hsize h /\ hpol h' = hpol h.
  Proof.
    intros HI Hp Hw Hroom. cbv zeta. rewrite update_white by exact Hw.
    assert (Hnq : ~ In p (queued h)).
    { intros Hin. apply (inv_color h HI p Hp) in Hin. congruence. }
    pose proof (set_cost_nonqueued_inv h p c HI Hnq) as HI1.
    pose proof (insert_spec (set_cost h p c) p HI1 Hp Hnq Hroom) as Hs.
    destruct (insert (set_cost h p c) p) as [h' b]. cbn [fst].
    destruct Hs as (_ & A & B & C & D & E & F). 
    split; [exact A|]. split; [exact B|]. split; [exact C|]. split; [exact D|].
    split; [exact E|exact F].
  Qed.

  Theorem update_white_full h p c :
    nth p (hcolor h) White = White -> hn h = hsize h -> update h p c = set_cost h p c.
  Proof.
    intros Hw Hf. rewrite update_white by exact Hw.
    rewrite insert_full by exact Hf. reflexivity.
  Qed.

  Theorem update_black_spec h p c :
    Inv h -> p < hsize h -> nth p (hcolor h) White = Black ->
    update h p c = set_cost h p c /\ Inv (set_cost h p c).
  Proof.
    intros HI Hp Hb.
    assert (Hnq : ~ In p (queued h)).
    { intros Hin. apply (inv_color h HI p Hp) in Hin. congruence. }
    split; [|apply set_cost_nonqueued_inv; assumption].
    unfold Heap.update. change (hcolor (set_cost h p c)) with (hcolor h).
    change (hpos (set_cost h p c)) with (hpos h). rewrite Hb.
    destruct (inv_stale h HI p Hp Hnq) as [-> | ->]; reflexivity.
  Qed.
End Ops.
