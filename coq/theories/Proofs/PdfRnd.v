(* Float-level reading of calculate_pdf (Model/Pdf.v at [RndOps rnd], Base/NumOpsRnd.v), part 2:
   what the whole routine guarantees for EVERY rounding function of the class [rounding]
   (Model/MetricRnd.v).  [p i] are the COMPUTED (rounded) unmapped pdf values, [dens i] / [cost i] the
   computed densities and initial costs.  Each theorem names the extra hypotheses it uses:
   [rnd 1 = 1], [rnd_idem rnd]. *)
From Coq Require Import Reals List ZArith Bool Lia Lra.
From OPF Require Import Base.Lists Base.NumOps Base.NumOpsRnd Model.Pdf Model.MetricRnd
  Proofs.PdfBase Proofs.PdfReal Proofs.PdfRndBase.
Import ListNotations.
Local Open Scope R_scope.

Lemma in_map_seq {A} (f : nat -> A) n v :
  In v (map f (seq 0 n)) <-> exists i, (i < n)%nat /\ v = f i.
Proof.
  rewrite in_map_iff. split.
  - intros [i [Hv Hi]]. apply in_seq in Hi. exists i. split; [lia|auto].
  - intros [i [Hi Hv]]. exists i. split; [auto|]. apply in_seq. lia.
Qed.

Section CalculatePdfRnd.
  Variable rnd : R -> R.
  Hypothesis RND : rounding rnd.
  Variables (fmax : R) (n k : nat) (gdens : R) (e : nat -> nat -> R).
  Variables (c mn mx : R) (dc : list (R * R)).
  Hypothesis Hcalc : calculate_pdf (RndOps rnd) fmax 1000 n k gdens e = (c, mn, mx, dc).

  Let p (i : nat) : R := pdfv rnd k (e i).
  Let dens (i : nat) : R := fst (nth i dc (0, 0)).
  Let cost (i : nat) : R := snd (nth i dc (0, 0)).

  Theorem rnd_constant_spec : c = rnd (rnd (2 * gdens) / 9).
  Proof. rewrite calculate_pdf_RndOps in Hcalc. cbv zeta in Hcalc. inversion Hcalc. reflexivity. Qed.

  Lemma rnd_calc_minmax : pdf_minmax (RndOps rnd) fmax (map p (seq 0 n)) = (mn, mx).
  Proof.
    rewrite calculate_pdf_RndOps in Hcalc. cbv zeta in Hcalc. inversion Hcalc.
    apply pdf_minmax_fst_snd.
  Qed.

  Lemma rnd_calc_scale : dc = pdf_scale (RndOps rnd) 1000 mn mx (map p (seq 0 n)).
  Proof.
    pose proof rnd_calc_minmax as Hmm.
    rewrite calculate_pdf_RndOps in Hcalc. cbv zeta in Hcalc. fold p in Hcalc.
    rewrite Hmm in Hcalc. cbn [fst snd] in Hcalc. inversion Hcalc. reflexivity.
  Qed.

  Lemma rnd_minmax_facts :
    (mn <= fmax /\ (forall v, In v (map p (seq 0 n)) -> mn <= v) /\ (mn = fmax \/ In mn (map p (seq 0 n)))) /\
    (rnd (0 - fmax) <= mx /\ (forall v, In v (map p (seq 0 n)) -> v <= mx) /\
     (mx = rnd (0 - fmax) \/ In mx (map p (seq 0 n)))).
  Proof.
    pose proof rnd_calc_minmax as Hmm. rewrite pdf_minmax_RndOps in Hmm.
    exact (pdf_minmax_gen _ 0 _ _ _ _ Hmm).
  Qed.

  (* the recorded values bound every computed pdf value (no hypothesis at all: comparisons are exact) *)
  Theorem rnd_min_lower i : (i < n)%nat -> mn <= p i.
  Proof.
    intro Hi. destruct rnd_minmax_facts as [[_ [H _]] _]. apply H. apply in_map_seq. exists i. auto.
  Qed.

  Theorem rnd_max_upper i : (i < n)%nat -> p i <= mx.
  Proof.
    intro Hi. destruct rnd_minmax_facts as [_ [_ [H _]]]. apply H. apply in_map_seq. exists i. auto.
  Qed.

  Lemma rnd_min_le_max : (1 <= n)%nat -> mn <= mx.
  Proof.
    intro Hn. pose proof (rnd_min_lower 0%nat ltac:(lia)). pose proof (rnd_max_upper 0%nat ltac:(lia)). lra.
  Qed.

  Theorem rnd_dc_length : length dc = n.
  Proof.
    rewrite rnd_calc_scale, pdf_scale_RndOps.
    destruct (Reqb mn mx); rewrite !map_length, seq_length; reflexivity.
  Qed.

  (* ---------- terms >= 0: the unmapped values are >= 0 ---------- *)

  Theorem rnd_pdf_nonneg i : (forall l, (l < k)%nat -> 0 <= e i l) -> 0 <= p i.
  Proof. apply pdfv_nonneg. exact RND. Qed.

  (* ---------- min / max attained ---------- *)

  Section Bounded.
    Hypothesis Hn : (1 <= n)%nat.
    (* the sentinels c.FLOAT_MAX and -c.FLOAT_MAX (the latter computed as 0 - FLOAT_MAX) bound the values *)
    Hypothesis Hb : forall i, (i < n)%nat -> rnd (0 - fmax) <= p i <= fmax.

    Theorem rnd_min_attained : exists i, (i < n)%nat /\ mn = p i.
    Proof.
      destruct rnd_minmax_facts as [[_ [_ [H|H]]] _].
      - exists 0%nat. split; [lia|]. pose proof (Hb 0%nat ltac:(lia)). pose proof (rnd_min_lower 0%nat ltac:(lia)). lra.
      - apply in_map_seq in H. exact H.
    Qed.

    Theorem rnd_max_attained : exists i, (i < n)%nat /\ mx = p i.
    Proof.
      destruct rnd_minmax_facts as [_ [_ [_ [H|H]]]].
      - exists 0%nat. split; [lia|]. pose proof (Hb 0%nat ltac:(lia)). pose proof (rnd_max_upper 0%nat ltac:(lia)). lra.
      - apply in_map_seq in H. exact H.
    Qed.

    Theorem rnd_flat_iff : mn = mx <-> (forall i j, (i < n)%nat -> (j < n)%nat -> p i = p j).
    Proof.
      split.
      - intros E i j Hi Hj.
        pose proof (rnd_min_lower i Hi). pose proof (rnd_max_upper i Hi).
        pose proof (rnd_min_lower j Hj). pose proof (rnd_max_upper j Hj). lra.
      - intro H. destruct rnd_min_attained as [i [Hi Ei]]. destruct rnd_max_attained as [j [Hj Ej]].
        rewrite Ei, Ej. apply H; assumption.
    Qed.
  End Bounded.

  (* with terms in [0, +oo) and FLOAT_MAX >= 0 the lower sentinel is never in the way *)
  Lemma rnd_bounds_of_nonneg :
    0 <= fmax -> (forall i l, (i < n)%nat -> (l < k)%nat -> 0 <= e i l) ->
    (forall i, (i < n)%nat -> p i <= fmax) ->
    forall i, (i < n)%nat -> rnd (0 - fmax) <= p i <= fmax.
  Proof.
    intros Hf He Hp i Hi. split; [|now apply Hp].
    assert (rnd (0 - fmax) <= 0) by (apply rnd_nonpos; [exact RND|lra]).
    assert (0 <= p i) by (apply rnd_pdf_nonneg; intros l Hl; now apply He). lra.
  Qed.

  (* ---------- the two branches of the scaling loop ---------- *)

  Lemma rnd_nth_dc_ne i :
    mn <> mx -> (i < n)%nat ->
    nth i dc (0, 0) = (dmap rnd mn mx (p i), cmap rnd (dmap rnd mn mx (p i))).
  Proof.
    intros Hne Hi. rewrite rnd_calc_scale, pdf_scale_RndOps.
    apply Reqb_false_iff in Hne. rewrite Hne. rewrite map_map.
    change (map ?f (seq 0 n)) with (tabulate f n). rewrite nth_tabulate by exact Hi.
    reflexivity.
  Qed.

  Lemma rnd_nth_dc_eq i : mn = mx -> (i < n)%nat -> nth i dc (0, 0) = (1000, 999).
  Proof.
    intros He Hi. rewrite rnd_calc_scale, pdf_scale_RndOps.
    apply Reqb_true_iff in He. rewrite He. rewrite map_map.
    change (map ?f (seq 0 n)) with (tabulate f n). rewrite nth_tabulate by exact Hi.
    reflexivity.
  Qed.

  (* the expression tree, one rounding per node *)
  Theorem rnd_density_tree i :
    mn <> mx -> (i < n)%nat ->
    dens i = rnd (rnd (rnd (999 * rnd (p i - mn)) / rnd (mx - mn)) + 1) /\
    cost i = rnd (dens i - 1).
  Proof. intros Hne Hi. unfold dens, cost. rewrite rnd_nth_dc_ne by auto. split; reflexivity. Qed.

  Theorem rnd_density_flat i : mn = mx -> (i < n)%nat -> dens i = 1000 /\ cost i = 999.
  Proof. intros He Hi. unfold dens, cost. rewrite rnd_nth_dc_eq by auto. split; reflexivity. Qed.

  Lemma rnd_ne_lt i : (i < n)%nat -> mn <> mx -> mn < mx.
  Proof. intros Hi Hne. pose proof (rnd_min_le_max ltac:(lia)). lra. Qed.

  (* ---------- WEAK order preservation: the float code cannot invert two samples ---------- *)

  Theorem rnd_density_mono i j :
    (i < n)%nat -> (j < n)%nat -> p i <= p j -> dens i <= dens j.
  Proof.
    intros Hi Hj Hp. destruct (Req_dec mn mx) as [He|Hne].
    - destruct (rnd_density_flat i He Hi) as [Ei _]. destruct (rnd_density_flat j He Hj) as [Ej _]. lra.
    - unfold dens. rewrite !rnd_nth_dc_ne by auto. cbn [fst].
      apply dmap_mono; [exact RND|now apply (rnd_ne_lt i)|exact Hp].
  Qed.

  Theorem rnd_density_eq_compat i j :
    (i < n)%nat -> (j < n)%nat -> p i = p j -> dens i = dens j.
  Proof.
    intros Hi Hj Hp. apply Rle_antisym; apply rnd_density_mono; auto; lra.
  Qed.

  (* contrapositive: a strict order between two densities is the order of the unmapped values *)
  Theorem rnd_density_lt_inv i j :
    (i < n)%nat -> (j < n)%nat -> dens i < dens j -> p i < p j.
  Proof.
    intros Hi Hj Hd. destruct (Rlt_le_dec (p i) (p j)) as [L|L]; [exact L|].
    pose proof (rnd_density_mono j i Hj Hi L). lra.
  Qed.

  (* ---------- min |-> exactly 1, everything >= 1, max |-> the largest density ---------- *)

  Theorem rnd_density_min_to_1 i :
    rnd 1 = 1 -> mn <> mx -> (i < n)%nat -> p i = mn -> dens i = 1.
  Proof.
    intros H1 Hne Hi Hp. unfold dens. rewrite rnd_nth_dc_ne by auto. cbn [fst]. rewrite Hp.
    apply dmap_min; assumption.
  Qed.

  Theorem rnd_density_ge_1 i : rnd 1 = 1 -> (i < n)%nat -> 1 <= dens i.
  Proof.
    intros H1 Hi. destruct (Req_dec mn mx) as [He|Hne].
    - destruct (rnd_density_flat i He Hi) as [Ei _]. lra.
    - unfold dens. rewrite rnd_nth_dc_ne by auto. cbn [fst].
      apply dmap_ge_1; [exact RND|exact H1|now apply (rnd_ne_lt i)|now apply rnd_min_lower].
  Qed.

  Theorem rnd_density_max_largest i :
    (i < n)%nat -> p i = mx -> forall j, (j < n)%nat -> dens j <= dens i.
  Proof.
    intros Hi Hp j Hj. apply rnd_density_mono; auto. rewrite Hp. now apply rnd_max_upper.
  Qed.

  Theorem rnd_density_min_smallest i :
    (i < n)%nat -> p i = mn -> forall j, (j < n)%nat -> dens i <= dens j.
  Proof.
    intros Hi Hp j Hj. apply rnd_density_mono; auto. rewrite Hp. now apply rnd_min_lower.
  Qed.

  (* every density is a computed value or the literal 1000 *)
  Theorem rnd_density_fixed i :
    rnd_idem rnd -> rnd 1000 = 1000 -> (i < n)%nat -> rnd (dens i) = dens i.
  Proof.
    intros HI HM Hi. destruct (Req_dec mn mx) as [He|Hne].
    - destruct (rnd_density_flat i He Hi) as [Ei _]. rewrite Ei. exact HM.
    - unfold dens. rewrite rnd_nth_dc_ne by auto. cbn [fst]. unfold dmap. apply amap_fixed; assumption.
  Qed.

  Theorem rnd_density_fixed_ne i :
    rnd_idem rnd -> mn <> mx -> (i < n)%nat -> rnd (dens i) = dens i.
  Proof.
    intros HI Hne Hi. unfold dens. rewrite rnd_nth_dc_ne by auto. cbn [fst]. unfold dmap.
    apply amap_fixed; assumption.
  Qed.

  (* ---------- the initial cost ---------- *)

  Theorem rnd_cost_nonneg i : rnd 1 = 1 -> (i < n)%nat -> 0 <= cost i.
  Proof.
    intros H1 Hi. destruct (Req_dec mn mx) as [He|Hne].
    - destruct (rnd_density_flat i He Hi) as [_ Ec]. lra.
    - destruct (rnd_density_tree i Hne Hi) as [_ Ec]. rewrite Ec.
      apply cmap_nonneg; [exact RND|now apply rnd_density_ge_1].
  Qed.

  (* cost <= density *)
  Theorem rnd_cost_le_density i : rnd_idem rnd -> (i < n)%nat -> cost i <= dens i.
  Proof.
    intros HI Hi. destruct (Req_dec mn mx) as [He|Hne].
    - destruct (rnd_density_flat i He Hi) as [Ed Ec]. lra.
    - destruct (rnd_density_tree i Hne Hi) as [_ Ec]. rewrite Ec.
      apply cmap_le; [exact RND|now apply rnd_density_fixed_ne].
  Qed.

  (* cost < density: exactly when density - 1 is not rounded up to density *)
  Theorem rnd_cost_lt_density_iff i :
    rnd_idem rnd -> mn <> mx -> (i < n)%nat -> (cost i < dens i <-> rnd (dens i - 1) <> dens i).
  Proof.
    intros HI Hne Hi. destruct (rnd_density_tree i Hne Hi) as [_ Ec]. rewrite Ec.
    apply cmap_lt_iff; [exact RND|now apply rnd_density_fixed_ne].
  Qed.

  (* sufficient: a representable value in [density - 1, density) *)
  Theorem rnd_cost_lt_density_grid i :
    (i < n)%nat -> (mn <> mx -> exists f, rnd f = f /\ dens i - 1 <= f < dens i) -> cost i < dens i.
  Proof.
    intros Hi Hg. destruct (Req_dec mn mx) as [He|Hne].
    - destruct (rnd_density_flat i He Hi) as [Ed Ec]. lra.
    - destruct (Hg Hne) as (f & Hf & Hr). destruct (rnd_density_tree i Hne Hi) as [_ Ec]. rewrite Ec.
      now apply (cmap_lt_grid rnd RND (dens i) f).
  Qed.

  (* sufficient: the integers 0..M are representable and the density is at most M + 1 *)
  Theorem rnd_cost_lt_density_integers (M : Z) i :
    rnd 1 = 1 -> (forall z, (0 <= z <= M)%Z -> rnd (IZR z) = IZR z) ->
    (i < n)%nat -> dens i <= IZR M + 1 -> cost i < dens i.
  Proof.
    intros H1 HZ Hi HM. destruct (Req_dec mn mx) as [He|Hne].
    - destruct (rnd_density_flat i He Hi) as [Ed Ec]. lra.
    - destruct (rnd_density_tree i Hne Hi) as [_ Ec]. rewrite Ec.
      apply (cmap_lt_integers rnd RND M); [exact HZ|]. split; [now apply rnd_density_ge_1|exact HM].
  Qed.

  (* an a-priori bound on every density from a (very weak) relative-error bound: rnd x <= 2 x on x >= 0 *)
  Theorem rnd_density_upper i :
    (forall x, 0 <= x -> rnd x <= 2 * x) -> (i < n)%nat -> dens i <= 7994.
  Proof.
    intros HR Hi. destruct (Req_dec mn mx) as [He|Hne].
    - destruct (rnd_density_flat i He Hi) as [Ed _]. lra.
    - destruct (rnd_density_tree i Hne Hi) as [Ed _]. rewrite Ed.
      pose proof (rnd_ne_lt i Hi Hne) as Hlt.
      pose proof (rnd_max_upper i Hi) as Hup. pose proof (rnd_min_lower i Hi) as Hlo.
      set (t := rnd (mx - mn)). set (u := rnd (p i - mn)).
      assert (Ht : 0 < t) by (apply dmap_den_pos; assumption).
      assert (Hu0 : 0 <= u) by (apply rnd_nonneg; [exact RND|lra]).
      assert (Hut : u <= t) by (apply rnd_le; [exact RND|lra]).
      assert (HN0 : 0 <= rnd (999 * u)) by (apply rnd_nonneg; [exact RND|lra]).
      assert (HN : rnd (999 * u) <= 1998 * t) by (pose proof (HR (999 * u) ltac:(lra)); lra).
      assert (HQ : rnd (999 * u) / t <= 1998).
      { apply Rmult_le_reg_r with t; [exact Ht|]. unfold Rdiv. rewrite Rmult_assoc, Rinv_l by lra. lra. }
      assert (HQ0 : 0 <= rnd (999 * u) / t).
      { apply Rmult_le_pos; [exact HN0|]. left. now apply Rinv_0_lt_compat. }
      assert (HQr : rnd (rnd (999 * u) / t) <= 3996) by (pose proof (HR _ HQ0); lra).
      assert (HQr0 : 0 <= rnd (rnd (999 * u) / t)) by (apply rnd_nonneg; [exact RND|exact HQ0]).
      pose proof (HR (rnd (rnd (999 * u) / t) + 1) ltac:(lra)). lra.
  Qed.

  (* all hypotheses on the rounding function only: representable integers up to 7993, rnd x <= 2 x *)
  Theorem rnd_cost_lt_density i :
    rnd 1 = 1 -> (forall z, (0 <= z <= 7993)%Z -> rnd (IZR z) = IZR z) ->
    (forall x, 0 <= x -> rnd x <= 2 * x) ->
    (i < n)%nat -> cost i < dens i.
  Proof.
    intros H1 HZ HR Hi. apply (rnd_cost_lt_density_integers 7993); auto.
    pose proof (rnd_density_upper i HR Hi). lra.
  Qed.
End CalculatePdfRnd.

(* ---------- hypotheses on the data only: terms in [0, 1] (they are exp(-d/c) with d >= 0, c > 0) ---------- *)

Theorem rnd_minmax_unit_terms (rnd : R -> R) fmax n k gdens e c mn mx dc :
  rounding rnd -> rnd 1 = 1 ->
  (forall z, (0 <= z <= Z.of_nat k)%Z -> rnd (IZR z) = IZR z) ->
  (1 <= n)%nat -> 1 <= fmax ->
  (forall i l, (i < n)%nat -> (l < k)%nat -> 0 <= e i l <= 1) ->
  calculate_pdf (RndOps rnd) fmax 1000 n k gdens e = (c, mn, mx, dc) ->
  (exists i, (i < n)%nat /\ mn = pdf_value (RndOps rnd) k (e i)) /\
  (exists i, (i < n)%nat /\ mx = pdf_value (RndOps rnd) k (e i)) /\
  0 <= mn /\ mn <= mx /\ mx <= 1.
Proof.
  intros RND H1 HZ Hn Hf He Hcalc.
  assert (Hp1 : forall i, (i < n)%nat -> pdfv rnd k (e i) <= 1).
  { intros i Hi. apply pdfv_le_1; auto. intros l Hl. now apply He. }
  assert (Hb : forall i, (i < n)%nat -> rnd (0 - fmax) <= pdfv rnd k (e i) <= fmax).
  { apply rnd_bounds_of_nonneg; [exact RND|lra| |].
    - intros i l Hi Hl. now apply He.
    - intros i Hi. specialize (Hp1 i Hi). lra. }
  destruct (rnd_min_attained rnd fmax n k gdens e c mn mx dc Hcalc Hn Hb) as (i1 & Hi1 & Emn).
  destruct (rnd_max_attained rnd fmax n k gdens e c mn mx dc Hcalc Hn Hb) as (i2 & Hi2 & Emx).
  split; [exists i1; split; [exact Hi1|exact Emn]|].
  split; [exists i2; split; [exact Hi2|exact Emx]|].
  split; [rewrite Emn; apply pdfv_nonneg; [exact RND|]; intros l Hl; now apply He|].
  split; [exact (rnd_min_le_max rnd fmax n k gdens e c mn mx dc Hcalc Hn)|].
  rewrite Emx. now apply Hp1.
Qed.

(* ---------- eliminate_maxima_height at [RndOps rnd] ---------- *)

Theorem eliminate_rnd_spec (rnd : R -> R) (h : R) (dens cost : list R) :
  (0 < h -> eliminate_maxima (RndOps rnd) h dens cost = map (fun d => Rmax (rnd (d - h)) 0) dens) /\
  (h <= 0 -> eliminate_maxima (RndOps rnd) h dens cost = cost).
Proof.
  unfold eliminate_maxima. change (nltb (RndOps rnd)) with Rltb. change (nofZ (RndOps rnd) 0) with 0.
  split; intro Hh.
  - apply Rltb_true_iff in Hh. rewrite Hh. apply map_ext. intro d. cbv zeta.
    change (nsub (RndOps rnd) d h) with (rnd (d - h)).
    destruct (Rltb (rnd (d - h)) 0) eqn:E; [apply Rltb_true_iff in E | apply Rltb_false_iff in E].
    + rewrite Rmax_right by lra. reflexivity.
    + rewrite Rmax_left by lra. reflexivity.
  - apply Rltb_false_iff in Hh. rewrite Hh. reflexivity.
Qed.

(* the new cost stays in [0, density] for a representable density; strictly below it exactly when
   density - h is not rounded back up to density *)
Theorem eliminate_rnd_bounds (rnd : R -> R) (h d : R) :
  rounding rnd -> 0 < h -> 0 < d -> rnd d = d ->
  0 <= Rmax (rnd (d - h)) 0 <= d /\ (Rmax (rnd (d - h)) 0 < d <-> rnd (d - h) <> d).
Proof.
  intros RND Hh Hd Hf.
  assert (HL : rnd (d - h) <= d) by (rewrite <- Hf at 2; apply rnd_le; [exact RND|lra]).
  split.
  - split; [apply Rmax_r|apply Rmax_lub; lra].
  - split; intro H.
    + pose proof (Rmax_l (rnd (d - h)) 0). lra.
    + apply Rmax_lub_lt; lra.
Qed.

(* ---------- everything about calculate_pdf at [RndOps rnd] in one statement ---------- *)

Theorem calculate_pdf_rnd_summary (rnd : R -> R) fmax n k gdens e c mn mx dc :
  rounding rnd ->
  (1 <= n)%nat ->
  calculate_pdf (RndOps rnd) fmax 1000 n k gdens e = (c, mn, mx, dc) ->
  let p := fun i => pdf_value (RndOps rnd) k (e i) in
  let dens := fun i => fst (nth i dc (0, 0)) in
  let cost := fun i => snd (nth i dc (0, 0)) in
  c = rnd (rnd (2 * gdens) / 9) /\
  length dc = n /\
  (* recorded minimum / maximum bound the computed values; attained when the sentinels do *)
  (forall i, (i < n)%nat -> mn <= p i <= mx) /\ mn <= mx /\
  ((forall i, (i < n)%nat -> rnd (0 - fmax) <= p i <= fmax) ->
     (exists i, (i < n)%nat /\ mn = p i) /\ (exists i, (i < n)%nat /\ mx = p i) /\
     (mn = mx <-> forall i j, (i < n)%nat -> (j < n)%nat -> p i = p j)) /\
  (* terms >= 0 give values >= 0 *)
  (forall i, (forall l, (l < k)%nat -> 0 <= e i l) -> 0 <= p i) /\
  (* the expression tree *)
  (mn <> mx -> forall i, (i < n)%nat ->
     dens i = rnd (rnd (rnd (999 * rnd (p i - mn)) / rnd (mx - mn)) + 1) /\ cost i = rnd (dens i - 1)) /\
  (mn = mx -> forall i, (i < n)%nat -> dens i = 1000 /\ cost i = 999) /\
  (* weakly order preserving; never inverts *)
  (forall i j, (i < n)%nat -> (j < n)%nat ->
     (p i <= p j -> dens i <= dens j) /\ (p i = p j -> dens i = dens j) /\ (dens i < dens j -> p i < p j)) /\
  (forall i, (i < n)%nat -> p i = mx -> forall j, (j < n)%nat -> dens j <= dens i) /\
  (* with rnd 1 = 1 *)
  (rnd 1 = 1 ->
     (forall i, (i < n)%nat -> 1 <= dens i /\ 0 <= cost i) /\
     (mn <> mx -> forall i, (i < n)%nat -> p i = mn -> dens i = 1 /\ cost i = 0)) /\
  (* with idempotence *)
  (rnd_idem rnd ->
     (forall i, (i < n)%nat -> cost i <= dens i) /\
     (mn <> mx -> forall i, (i < n)%nat ->
        rnd (dens i) = dens i /\ (cost i < dens i <-> rnd (dens i - 1) <> dens i))).
Proof.
  intros RND Hn Hcalc p dens cost.
  change p with (fun i => pdfv rnd k (e i)).
  split; [eapply rnd_constant_spec; eassumption|].
  split; [eapply rnd_dc_length; eassumption|].
  split; [intros i Hi; split; [eapply rnd_min_lower|eapply rnd_max_upper]; eassumption|].
  split; [eapply rnd_min_le_max; eassumption|].
  split.
  { intro Hb. split; [eapply rnd_min_attained; eassumption|].
    split; [eapply rnd_max_attained; eassumption|eapply rnd_flat_iff; eassumption]. }
  split; [intros i He; now apply pdfv_nonneg|].
  split; [intros Hne i Hi; eapply rnd_density_tree; eassumption|].
  split; [intros He i Hi; eapply rnd_density_flat; eassumption|].
  split.
  { intros i j Hi Hj. split; [eapply rnd_density_mono; eassumption|].
    split; [eapply rnd_density_eq_compat; eassumption|eapply rnd_density_lt_inv; eassumption]. }
  split; [intros i Hi Hp j Hj; eapply rnd_density_max_largest; eassumption|].
  split.
  { intro H1. split.
    - intros i Hi. split; [eapply rnd_density_ge_1; eassumption|eapply rnd_cost_nonneg; eassumption].
    - intros Hne i Hi Hp.
      pose proof (rnd_density_min_to_1 rnd RND fmax n k gdens e c mn mx dc Hcalc i H1 Hne Hi Hp) as Ed.
      split; [exact Ed|].
      destruct (rnd_density_tree rnd fmax n k gdens e c mn mx dc Hcalc i Hne Hi) as [_ Ec].
      unfold cost. rewrite Ec, Ed. replace (1 - 1) with 0 by lra. apply (rnd_zero _ RND). }
  intro HI. split.
  - intros i Hi. eapply rnd_cost_le_density; eassumption.
  - intros Hne i Hi. split; [eapply rnd_density_fixed_ne; eassumption|eapply rnd_cost_lt_density_iff; eassumption].
Qed.
