(* Structural facts about the stages of the KNN training routines (Model/Knn.v), for ANY weight type and ANY
   comparison - no order axioms, no data hypotheses:

     1. create_arcs started on two subgraphs that agree on adjacency, plateau counters and density bound
        (and have [n] radii each) produces the same adjacency, counters, bound, radii and per-rank maxima:
        the radii are overwritten, everything else create_arcs never reads;
     2. the competition [cl_run] started on two subgraphs that agree on everything it READS (labels,
        adjacency, counters, densities, costs) takes the same decisions: the results agree on every field,
        except that each removal order extends its own starting order by the same suffix [rem], and the
        predicted / cluster labels are only known to agree on the members of [rem] (the nodes that were
        removed from the heap; with [Permutation rem (seq 0 n)] that is every node);
     3. what the stages leave untouched and the list lengths they preserve.

   These are what is needed to show that the state left behind by the k-search (stale densities, costs,
   predecessors, roots, labels, radii; accumulated removal order) is invisible to the final training stage. *)
From Coq Require Import List Arith Bool Lia Permutation.
From OPF Require Import Base.Lists Model.Heap Model.Knn Proofs.KnnPipelineArcs.
Import ListNotations.

Ltac knn_cbn :=
  cbn [k_label k_adj k_radius k_nplat k_dens k_cost k_pred k_root k_plabel k_clabel k_order k_gdens k_nclusters].
Ltac knn_cbn_in H :=
  cbn [k_label k_adj k_radius k_nplat k_dens k_cost k_pred k_root k_plabel k_clabel k_order k_gdens k_nclusters] in H.

Lemma upd_agree {A} (l1 l2 : list A) (q q' : nat) (v d : A) :
  length l1 = length l2 -> (q' = q \/ nth q' l1 d = nth q' l2 d) ->
  nth q' (upd l1 q v) d = nth q' (upd l2 q v) d.
Proof.
  intros Hl H. rewrite !nth_upd. destruct (Nat.eqb_spec q q') as [->|Hne].
  - rewrite Hl. destruct (Nat.ltb q' (length l2)) eqn:E; [reflexivity|].
    apply Nat.ltb_ge in E. rewrite !nth_overflow; [reflexivity|lia|lia].
  - destruct H as [->|H]; [contradiction|exact H].
Qed.

Lemma list_eq_nth {A} (l1 l2 : list A) (d : A) :
  length l1 = length l2 -> (forall j, j < length l1 -> nth j l1 d = nth j l2 d) -> l1 = l2.
Proof. intros Hl H. apply (nth_ext l1 l2 d d Hl H). Qed.

(* ------------------------------------------------------------------------------------------------ *)
(* 1. create_arcs                                                                                     *)
(* ------------------------------------------------------------------------------------------------ *)

Section ArcsSim.
  Context {W : Type} (ltb : W -> W -> bool) (zero top : W).
  Notation node k n w := (arcs_node ltb zero top k n w).

  Definition arcs_rel (L a : nat) (s1 s2 : @knn W * list W * list nat) : Prop :=
    k_adj (fst (fst s1)) = k_adj (fst (fst s2)) /\
    k_nplat (fst (fst s1)) = k_nplat (fst (fst s2)) /\
    k_gdens (fst (fst s1)) = k_gdens (fst (fst s2)) /\
    length (k_radius (fst (fst s1))) = L /\ length (k_radius (fst (fst s2))) = L /\
    (forall j, j < a -> nth j (k_radius (fst (fst s1))) zero = nth j (k_radius (fst (fst s2))) zero) /\
    snd (fst s1) = snd (fst s2) /\ snd s1 = snd s2.

  Lemma arcs_node_rel L k n w s1 s2 a :
    arcs_rel L a s1 s2 -> arcs_rel L (S a) (node k n w s1 a) (node k n w s2 a).
  Proof.
    destruct s1 as [[g1 m1] ns1], s2 as [[g2 m2] ns2]. unfold arcs_rel. cbn [fst snd].
    intros (Ha & Hn & Hg & Hl1 & Hl2 & Hr & -> & ->).
    unfold arcs_node. rewrite Ha, Hg.
    destruct (knn_scan ltb top k n (w a) (Some a) ns2) as [ds ns].
    destruct (fold_left (arcs_collect ltb zero top ds ns) (rev (seq 0 k)) (k_gdens g2, zero, m2, nth a (k_adj g2) []))
      as [[[gd rad] mx] adj].
    cbn [fst snd]. knn_cbn. rewrite ?Ha, ?Hn, !upd_length.
    repeat split; try assumption; try reflexivity.
    intros j Hj. apply upd_agree; [lia|].
    destruct (Nat.eq_dec j a) as [->|Hne]; [now left|right; apply Hr; lia].
  Qed.

  Lemma arcs_fold_rel L k n w : forall m a s1 s2,
    arcs_rel L a s1 s2 ->
    arcs_rel L (a + m) (fold_left (node k n w) (seq a m) s1) (fold_left (node k n w) (seq a m) s2).
  Proof.
    induction m as [|m IH]; intros a s1 s2 H; cbn [seq fold_left].
    - now rewrite Nat.add_0_r.
    - replace (a + S m) with (S a + m) by lia. apply IH. now apply arcs_node_rel.
  Qed.

  (* same adjacency / counters, [n] radii each: create_arcs gives the same arcs, radii, bound and maxima
     (the bound found in the graph is irrelevant: create_arcs resets it) *)
  Theorem create_arcs_sim thr one k n w (g1 g2 : @knn W) :
    k_adj g1 = k_adj g2 -> k_nplat g1 = k_nplat g2 ->
    length (k_radius g1) = n -> length (k_radius g2) = n ->
    let r1 := create_arcs ltb zero top thr one k n w g1 in
    let r2 := create_arcs ltb zero top thr one k n w g2 in
    k_adj (fst r1) = k_adj (fst r2) /\ k_nplat (fst r1) = k_nplat (fst r2) /\
    k_gdens (fst r1) = k_gdens (fst r2) /\ k_radius (fst r1) = k_radius (fst r2) /\ snd r1 = snd r2.
  Proof.
    intros Ha Hn Hl1 Hl2. cbv zeta. unfold create_arcs, create_arcs_acc.
    pose proof (arcs_fold_rel n k n w n 0 (reset_gdens zero g1, repeat zero k, repeat 0 (S k))
                  (reset_gdens zero g2, repeat zero k, repeat 0 (S k))) as H.
    cbn [Nat.add] in H.
    destruct (fold_left (node k n w) (seq 0 n) (reset_gdens zero g1, repeat zero k, repeat 0 (S k))) as [[h1 m1] n1].
    destruct (fold_left (node k n w) (seq 0 n) (reset_gdens zero g2, repeat zero k, repeat 0 (S k))) as [[h2 m2] n2].
    unfold arcs_rel in H. cbn [fst snd] in H.
    destruct H as (A1 & A2 & A3 & A4 & A5 & A6 & A7 & A8).
    { unfold reset_gdens. knn_cbn. repeat split; try assumption; try reflexivity. intros j Hj; lia. }
    cbn [fst snd]. knn_cbn. rewrite A3.
    repeat split; try assumption.
    apply (list_eq_nth _ _ zero); [lia|]. intros j Hj. apply A6. lia.
  Qed.

  (* radii: create_arcs keeps their number *)
  Lemma arcs_node_radius_len k n w s i :
    length (k_radius (fst (fst (node k n w s i)))) = length (k_radius (fst (fst s))).
  Proof.
    destruct s as [[g m] ns]. unfold arcs_node.
    destruct (knn_scan ltb top k n (w i) (Some i) ns) as [ds ns'].
    destruct (fold_left (arcs_collect ltb zero top ds ns') (rev (seq 0 k)) (k_gdens g, zero, m, nth i (k_adj g) []))
      as [[[gd rad] mx] adj].
    cbn [fst snd]. knn_cbn. apply upd_length.
  Qed.

  Lemma arcs_fold_radius_len k n w : forall L s,
    length (k_radius (fst (fst (fold_left (node k n w) L s)))) = length (k_radius (fst (fst s))).
  Proof.
    induction L as [|i L IH]; intros s; cbn [fold_left]; [reflexivity|].
    rewrite IH. apply arcs_node_radius_len.
  Qed.

  Lemma create_arcs_radius_len thr one k n w (g : @knn W) :
    length (k_radius (fst (create_arcs ltb zero top thr one k n w g))) = length (k_radius g).
  Proof.
    unfold create_arcs, create_arcs_acc.
    pose proof (arcs_fold_radius_len k n w (seq 0 n) (reset_gdens zero g, repeat zero k, repeat 0 (S k))) as H.
    destruct (fold_left (node k n w) (seq 0 n) (reset_gdens zero g, repeat zero k, repeat 0 (S k))) as [[h1 m1] n1].
    cbn [fst snd] in *. knn_cbn. exact H.
  Qed.
End ArcsSim.

(* ------------------------------------------------------------------------------------------------ *)
(* 2. the competition                                                                                 *)
(* ------------------------------------------------------------------------------------------------ *)

Section ClSim.
  Context {W : Type} (ltb : W -> W -> bool) (zero top bot : W).
  Variable nbrs : @knn W -> nat -> list nat.
  Hypothesis Hnb : forall (g g' : @knn W) p, k_adj g = k_adj g' -> k_nplat g = k_nplat g' -> nbrs g p = nbrs g' p.

  (* everything the competition's decisions depend on, and every field both runs write identically *)
  Definition dcore (g : @knn W) :=
    (k_label g, k_adj g, k_radius g, k_nplat g, k_dens g, k_cost g, k_pred g, k_root g, k_gdens g).

  (* the label array the flavour writes (predicted_label / cluster_label) and the one it never touches *)
  Definition wl (sup : bool) (g : @knn W) : list nat := if sup then k_plabel g else k_clabel g.
  Definition ul (sup : bool) (g : @knn W) : list nat := if sup then k_clabel g else k_plabel g.

  Record csim (sup : bool) (o1 o2 rem : list nat) (g1 g2 : @knn W) : Prop := mkCsim {
    cs_core : dcore g1 = dcore g2;
    cs_ul : ul sup g1 = ul sup g2;
    cs_len : length (wl sup g1) = length (wl sup g2);
    cs_o1 : k_order g1 = o1 ++ rem;
    cs_o2 : k_order g2 = o2 ++ rem;
    cs_lab : forall q, In q rem \/ nth q (k_pred g1) None <> None -> nth q (wl sup g1) 0 = nth q (wl sup g2) 0 }.

  Notation relax sup force p := (cl_relax ltb zero top bot sup force p).

  Lemma relax_sim sup force o1 o2 rem h g1 g2 p q :
    csim sup o1 o2 rem g1 g2 -> In p rem ->
    fst (relax sup force p (h, g1) q) = fst (relax sup force p (h, g2) q) /\
    csim sup o1 o2 rem (snd (relax sup force p (h, g1) q)) (snd (relax sup force p (h, g2) q)).
  Proof.
    intros [Hc Hul Hlen Ho1 Ho2 Hlab] Hp.
    destruct g1 as [la aa ra na da ca pa oa PL1 CL1 O1 ga ta], g2 as [lb ab rb nb db cb pb ob PL2 CL2 O2 gb tb].
    unfold dcore in Hc. knn_cbn_in Hc. injection Hc as <- <- <- <- <- <- <- <- <-.
    knn_cbn_in Ho1. knn_cbn_in Ho2. knn_cbn_in Hlab.
    unfold cl_relax. knn_cbn.
    destruct (is_blackk h q).
    { cbn [fst snd]. split; [reflexivity|]. constructor; knn_cbn; auto. }
    destruct (ltb (hcostk top h q)
                  (if force && negb (Nat.eqb (nth p la 0) (nth q la 0)) then bot
                   else wmin ltb (hcostk top h p) (nth q da zero))).
    2:{ cbn [fst snd]. split; [reflexivity|]. constructor; knn_cbn; auto. }
    cbn [fst snd]. split; [reflexivity|].
    pose proof (Hlab p (or_introl Hp)) as Hpp.
    destruct sup; unfold wl, ul in *; knn_cbn_in Hul; knn_cbn_in Hlen; knn_cbn_in Hlab; knn_cbn_in Hpp;
      (constructor; unfold dcore, wl, ul; knn_cbn;
       [reflexivity | assumption | rewrite !upd_length; assumption | assumption | assumption |]);
      (intros q' Hq'; rewrite Hpp; apply upd_agree; [assumption|];
       destruct (Nat.eq_dec q' q) as [->|Hne]; [now left|right]; apply Hlab;
       destruct Hq' as [H|H]; [now left|right]; rewrite nth_upd_neq in H by congruence; exact H).
  Qed.

  Lemma relax_fold_sim sup force o1 o2 rem p : In p rem -> forall l h g1 g2,
    csim sup o1 o2 rem g1 g2 ->
    fst (fold_left (relax sup force p) l (h, g1)) = fst (fold_left (relax sup force p) l (h, g2)) /\
    csim sup o1 o2 rem (snd (fold_left (relax sup force p) l (h, g1))) (snd (fold_left (relax sup force p) l (h, g2))).
  Proof.
    intros Hp. induction l as [|q l IH]; intros h g1 g2 H; cbn [fold_left].
    - split; [reflexivity|exact H].
    - destruct (relax_sim sup force o1 o2 rem h g1 g2 p q H Hp) as [E C].
      destruct (relax sup force p (h, g1) q) as [h1 g1'], (relax sup force p (h, g2) q) as [h2 g2'].
      cbn [fst snd] in E, C. subst h2. now apply IH.
  Qed.

  Lemma loop_sim sup force o1 o2 : forall fuel rem h g1 g2 lc,
    csim sup o1 o2 rem g1 g2 ->
    snd (cl_loop ltb zero top bot fuel sup force nbrs h g1 lc) = snd (cl_loop ltb zero top bot fuel sup force nbrs h g2 lc) /\
    exists rem', csim sup o1 o2 rem' (snd (fst (cl_loop ltb zero top bot fuel sup force nbrs h g1 lc)))
                                   (snd (fst (cl_loop ltb zero top bot fuel sup force nbrs h g2 lc))).
  Proof.
    induction fuel as [|f IH]; intros rem h g1 g2 lc H; cbn [cl_loop].
    - cbn [fst snd]. split; [reflexivity|]. now exists rem.
    - destruct (remove ltb top h) as [h1 [p|]].
      2:{ cbn [fst snd]. split; [reflexivity|]. now exists rem. }
      destruct H as [Hc Hul Hlen Ho1 Ho2 Hlab].
      destruct g1 as [la aa ra na da ca pa oa PL1 CL1 O1 ga ta], g2 as [lb ab rb nb db cb pb ob PL2 CL2 O2 gb tb].
      unfold dcore in Hc. knn_cbn_in Hc. injection Hc as <- <- <- <- <- <- <- <- <-.
      knn_cbn_in Ho1. knn_cbn_in Ho2. knn_cbn_in Hlab. knn_cbn.
      set (isr := match nth p pa None with None => true | Some _ => false end).
      set (h2 := if isr then set_cost h1 p (nth p da zero) else h1).
      set (g1' := mkKnn la aa ra na da (upd ca p (hcostk top h2 p)) pa oa
                        (if sup && isr then upd PL1 p (nth p la 0) else PL1)
                        (if negb sup && isr then upd CL1 p lc else CL1) (O1 ++ [p]) ga ta).
      set (g2' := mkKnn la aa ra na da (upd ca p (hcostk top h2 p)) pa oa
                        (if sup && isr then upd PL2 p (nth p la 0) else PL2)
                        (if negb sup && isr then upd CL2 p lc else CL2) (O2 ++ [p]) ga tb).
      assert (Hnb' : nbrs g1' p = nbrs g2' p) by (apply Hnb; reflexivity).
      assert (C : csim sup o1 o2 (rem ++ [p]) g1' g2').
      { assert (Hnr : isr = false -> nth p pa None <> None).
        { unfold isr. destruct (nth p pa None); [intros _ Hx; discriminate|intros Hx; discriminate]. }
        subst g1' g2'.
        destruct sup; unfold wl, ul in *; knn_cbn_in Hul; knn_cbn_in Hlen; knn_cbn_in Hlab;
          cbn [andb negb];
          (constructor; unfold dcore, wl, ul; knn_cbn;
           [reflexivity | assumption | destruct isr; rewrite ?upd_length; assumption
            | rewrite Ho1; apply app_assoc_reverse | rewrite Ho2; apply app_assoc_reverse |]);
          (intros q' Hq';
           assert (Hcase : q' = p \/ (In q' rem \/ nth q' pa None <> None));
           [destruct Hq' as [Hi|Hi]; [apply in_app_or in Hi; destruct Hi as [Hi|[->|[]]]; [right; now left|now left]|right; now right]|];
           destruct isr;
           [apply upd_agree; [assumption|]; destruct Hcase as [->|Hx]; [now left|right; now apply Hlab]
           |destruct Hcase as [->|Hx]; [apply Hlab; right; now apply Hnr|now apply Hlab]]). }
      rewrite Hnb'.
      assert (Hp : In p (rem ++ [p])) by (apply in_or_app; right; now left).
      destruct (relax_fold_sim sup force o1 o2 (rem ++ [p]) p Hp (nbrs g2' p) h2 g1' g2' C) as [E C'].
      destruct (fold_left (relax sup force p) (nbrs g2' p) (h2, g1')) as [h3 g1''].
      destruct (fold_left (relax sup force p) (nbrs g2' p) (h2, g2')) as [h3' g2''].
      cbn [fst snd] in E, C'. subst h3'. apply (IH (rem ++ [p])); exact C'.
  Qed.

  (* ---------------- seeding ---------------- *)

  Definition score (g : @knn W) :=
    (k_label g, k_adj g, k_radius g, k_nplat g, k_dens g, k_cost g, k_gdens g).
  Definition slabs (g : @knn W) := (k_plabel g, k_clabel g, k_order g).

  Definition seed_rel (n a : nat) (g1 g2 : @knn W) : Prop :=
    score g1 = score g2 /\
    length (k_pred g1) = n /\ length (k_pred g2) = n /\ length (k_root g1) = n /\ length (k_root g2) = n /\
    (forall j, j < a -> nth j (k_pred g1) None = None /\ nth j (k_pred g2) None = None) /\
    (forall j, j < a -> nth j (k_root g1) 0 = nth j (k_root g2) 0).

  Lemma seed_step_sim n a h g1 g2 :
    seed_rel n a g1 g2 -> a < n ->
    fst (cl_seed ltb zero top (h, g1) a) = fst (cl_seed ltb zero top (h, g2) a) /\
    seed_rel n (S a) (snd (cl_seed ltb zero top (h, g1) a)) (snd (cl_seed ltb zero top (h, g2) a)) /\
    slabs (snd (cl_seed ltb zero top (h, g1) a)) = slabs g1 /\
    slabs (snd (cl_seed ltb zero top (h, g2) a)) = slabs g2.
  Proof.
    intros (Hs & L1 & L2 & L3 & L4 & Hp & Hr) Ha.
    destruct g1 as [la aa ra na da ca pa oa PL1 CL1 O1 ga ta], g2 as [lb ab rb nb db cb pb ob PL2 CL2 O2 gb tb].
    unfold score in Hs. knn_cbn_in Hs. injection Hs as <- <- <- <- <- <- <-.
    knn_cbn_in L1. knn_cbn_in L2. knn_cbn_in L3. knn_cbn_in L4. knn_cbn_in Hp. knn_cbn_in Hr.
    unfold cl_seed. knn_cbn. cbn [fst snd]. split; [reflexivity|]. split; [|split; reflexivity].
    unfold seed_rel, score. knn_cbn. rewrite !upd_length.
    split; [reflexivity|]. do 4 (split; [assumption|]). split.
    - intros j Hj.
      split; (destruct (Nat.eq_dec j a) as [->|Hne];
              [apply nth_upd_eq; lia | rewrite nth_upd_neq by congruence; apply Hp; lia]).
    - intros j Hj. apply upd_agree; [lia|].
      destruct (Nat.eq_dec j a) as [->|Hne]; [now left|right; apply Hr; lia].
  Qed.

  Lemma seed_fold_sim n : forall m a h g1 g2,
    seed_rel n a g1 g2 -> a + m <= n ->
    fst (fold_left (cl_seed ltb zero top) (seq a m) (h, g1)) = fst (fold_left (cl_seed ltb zero top) (seq a m) (h, g2)) /\
    seed_rel n (a + m) (snd (fold_left (cl_seed ltb zero top) (seq a m) (h, g1)))
                       (snd (fold_left (cl_seed ltb zero top) (seq a m) (h, g2))) /\
    slabs (snd (fold_left (cl_seed ltb zero top) (seq a m) (h, g1))) = slabs g1 /\
    slabs (snd (fold_left (cl_seed ltb zero top) (seq a m) (h, g2))) = slabs g2.
  Proof.
    induction m as [|m IH]; intros a h g1 g2 H Hle; cbn [seq fold_left].
    - rewrite Nat.add_0_r. cbn [fst snd]. auto.
    - destruct (seed_step_sim n a h g1 g2 H ltac:(lia)) as (E & R & S1 & S2).
      destruct (cl_seed ltb zero top (h, g1) a) as [h1 g1'], (cl_seed ltb zero top (h, g2) a) as [h2 g2'].
      cbn [fst snd] in E, R, S1, S2. subst h2.
      destruct (IH (S a) h1 g1' g2' R ltac:(lia)) as (E' & R' & S1' & S2').
      replace (a + S m) with (S a + m) by lia.
      split; [exact E'|]. split; [exact R'|]. split; congruence.
  Qed.

  (* the whole competition: two subgraphs that agree on what is read *)
  Theorem cl_run_sim sup force n (g1 g2 : @knn W) :
    score g1 = score g2 ->
    length (k_pred g1) = n -> length (k_pred g2) = n -> length (k_root g1) = n -> length (k_root g2) = n ->
    ul sup g1 = ul sup g2 -> length (wl sup g1) = length (wl sup g2) ->
    snd (cl_run ltb zero top bot sup force nbrs n g1) = snd (cl_run ltb zero top bot sup force nbrs n g2) /\
    exists rem, csim sup (k_order g1) (k_order g2) rem
                     (fst (cl_run ltb zero top bot sup force nbrs n g1)) (fst (cl_run ltb zero top bot sup force nbrs n g2)).
  Proof.
    intros Hs L1 L2 L3 L4 Hul Hlen. unfold cl_run.
    destruct (seed_fold_sim n n 0 (h_init top n PMax) g1 g2) as (E & R & S1 & S2).
    { unfold seed_rel. repeat split; try assumption; intros; lia. }
    { lia. }
    cbn [Nat.add] in R.
    destruct (fold_left (cl_seed ltb zero top) (seq 0 n) (h_init top n PMax, g1)) as [h g1s].
    destruct (fold_left (cl_seed ltb zero top) (seq 0 n) (h_init top n PMax, g2)) as [h' g2s].
    cbn [fst snd] in E, R, S1, S2. subst h'.
    destruct R as (Hs' & M1 & M2 & M3 & M4 & Hp & Hr).
    assert (Epred : k_pred g1s = k_pred g2s).
    { apply (list_eq_nth _ _ None); [lia|]. intros j Hj. destruct (Hp j ltac:(lia)) as [-> ->]. reflexivity. }
    assert (Eroot : k_root g1s = k_root g2s).
    { apply (list_eq_nth _ _ 0); [lia|]. intros j Hj. apply Hr. lia. }
    assert (C : csim sup (k_order g1) (k_order g2) [] g1s g2s).
    { destruct g1s as [la aa ra na da ca pa oa PL1 CL1 O1 ga ta], g2s as [lb ab rb nb db cb pb ob PL2 CL2 O2 gb tb].
      destruct g1 as [la1 aa1 ra1 na1 da1 ca1 pa1 oa1 PL1' CL1' O1' ga1 ta1],
               g2 as [la2 aa2 ra2 na2 da2 ca2 pa2 oa2 PL2' CL2' O2' ga2 ta2].
      unfold score in Hs'. unfold slabs in S1, S2. knn_cbn_in Hs'. knn_cbn_in S1. knn_cbn_in S2.
      knn_cbn_in Epred. knn_cbn_in Eroot. knn_cbn_in Hp. knn_cbn_in M1.
      injection Hs' as <- <- <- <- <- <- <-. injection S1 as -> -> ->. injection S2 as -> -> ->.
      subst pb ob. unfold wl, ul in *. knn_cbn_in Hul. knn_cbn_in Hlen.
      constructor; unfold dcore, wl, ul; knn_cbn; try assumption; try reflexivity; try (now rewrite app_nil_r).
      intros q [[]|Hq]. exfalso. apply Hq.
      destruct (Nat.lt_ge_cases q n) as [Hlt|Hge]; [apply (Hp q Hlt)|apply nth_overflow; lia]. }
    destruct (loop_sim sup force (k_order g1) (k_order g2) n [] h g1s g2s 0 C) as [El [rem Cr]].
    destruct (cl_loop ltb zero top bot n sup force nbrs h g1s 0) as [[hh1 gg1] l1].
    destruct (cl_loop ltb zero top bot n sup force nbrs h g2s 0) as [[hh2 gg2] l2].
    cbn [fst snd] in *. split; [exact El|]. now exists rem.
  Qed.
End ClSim.
