(* Counting lemmas behind C20: the loops of general.py compute position counts. *)
From Coq Require Import List Arith Bool Lia.
From OPF Require Import Base.Lists Model.Measures.
Import ListNotations.
Local Open Scope nat_scope.

(* ------------------------------------------------------------------------------------ *)
(* lists as tables *)

Lemma list_eq_tabulate {A} (d : A) (l : list A) (f : nat -> A) k :
  length l = k -> (forall j, j < k -> nth j l d = f j) -> l = map f (seq 0 k).
Proof.
  intros Hlen Hnth.
  apply nth_ext with (d := d) (d' := f 0).
  - now rewrite map_length, seq_length.
  - intros n Hn. rewrite Hlen in Hn.
    rewrite (map_nth f (seq 0 k) 0 n), seq_nth by lia. simpl. now apply Hnth.
Qed.

Lemma list_self_tabulate {A} (d : A) (l : list A) :
  l = map (fun j => nth j l d) (seq 0 (length l)).
Proof. apply list_eq_tabulate with (d := d); auto. Qed.

Lemma nth_map_seq {A} (f : nat -> A) k j d : j < k -> nth j (map f (seq 0 k)) d = f j.
Proof.
  intros Hj. rewrite nth_indep with (d' := f 0) by (rewrite map_length, seq_length; lia).
  rewrite (map_nth f (seq 0 k) 0 j), seq_nth by lia. reflexivity.
Qed.

Lemma zipw_map {A B C D} (f : A -> B -> C) (g : D -> A) (h : D -> B) (l : list D) :
  zipw f (map g l) (map h l) = map (fun x => f (g x) (h x)) l.
Proof. unfold zipw. induction l as [|x l IH]; simpl; [reflexivity|]. now rewrite IH. Qed.

Lemma zipw_length {A B C} (f : A -> B -> C) l1 l2 :
  length (zipw f l1 l2) = Nat.min (length l1) (length l2).
Proof. unfold zipw. now rewrite map_length, combine_length. Qed.

(* ------------------------------------------------------------------------------------ *)
(* filter / counting *)

Lemma filter_len_le {A} (f g : A -> bool) (l : list A) :
  (forall x, In x l -> f x = true -> g x = true) ->
  length (filter f l) <= length (filter g l).
Proof.
  induction l as [|x l IH]; intros H; simpl; [lia|].
  assert (IH' : length (filter f l) <= length (filter g l)) by (apply IH; intros; apply H; simpl; auto).
  destruct (f x) eqn:Ef.
  - rewrite (H x (or_introl eq_refl) Ef). simpl. lia.
  - destruct (g x); simpl; lia.
Qed.

Lemma filter_len_ext {A} (f g : A -> bool) (l : list A) :
  (forall x, In x l -> f x = g x) -> length (filter f l) = length (filter g l).
Proof.
  intros H. apply Nat.le_antisymm; apply filter_len_le; intros x Hx E.
  - now rewrite <- H. - now rewrite H.
Qed.

Lemma filter_len_split {A} (f g : A -> bool) (l : list A) :
  length (filter f l) =
  length (filter (fun x => f x && g x) l) + length (filter (fun x => f x && negb (g x)) l).
Proof.
  induction l as [|x l IH]; simpl; [reflexivity|].
  destruct (f x), (g x); simpl; lia.
Qed.

Lemma filter_len_le_length {A} (f : A -> bool) l : length (filter f l) <= length l.
Proof. induction l as [|x l IH]; simpl; [lia|]. destruct (f x); simpl; lia. Qed.

Lemma filter_len_pos {A} (f : A -> bool) l :
  0 < length (filter f l) <-> exists x, In x l /\ f x = true.
Proof.
  split.
  - intros H. destruct (filter f l) as [|x t] eqn:E; [simpl in H; lia|].
    assert (Hin : In x (filter f l)) by (rewrite E; simpl; auto).
    apply filter_In in Hin. now exists x.
  - intros [x [Hin Hf]]. assert (Hx : In x (filter f l)) by (apply filter_In; auto).
    destruct (filter f l); [contradiction|simpl; lia].
Qed.

Lemma filter_len_zero {A} (f : A -> bool) l :
  length (filter f l) = 0 <-> forall x, In x l -> f x = false.
Proof.
  split.
  - intros H x Hin. destruct (f x) eqn:E; [|reflexivity].
    assert (0 < length (filter f l)) by (apply filter_len_pos; eauto). lia.
  - intros H. destruct (Nat.eq_dec (length (filter f l)) 0) as [|Hne]; [assumption|].
    assert (Hp : 0 < length (filter f l)) by lia.
    apply filter_len_pos in Hp. destruct Hp as [x [Hin Hf]]. rewrite (H x Hin) in Hf. discriminate.
Qed.

(* filtering a zip on its first component = filtering the first list *)
Lemma filter_combine_fst {B} (f : nat -> bool) (l1 : list nat) (l2 : list B) :
  length l1 = length l2 ->
  length (filter (fun x => f (fst x)) (combine l1 l2)) = length (filter f l1).
Proof.
  revert l2; induction l1 as [|a l1 IH]; intros [|b l2] H; simpl in *; try lia.
  destruct (f a); simpl; rewrite IH by lia; reflexivity.
Qed.

Lemma filter_combine_snd {B} (f : nat -> bool) (l1 : list B) (l2 : list nat) :
  length l1 = length l2 ->
  length (filter (fun x => f (snd x)) (combine l1 l2)) = length (filter f l2).
Proof.
  revert l2; induction l1 as [|a l1 IH]; intros [|b l2] H; simpl in *; try lia.
  destruct (f b); simpl; rewrite IH by lia; reflexivity.
Qed.

(* sums *)
Lemma list_sum_map_add {A} (f g : A -> nat) l :
  list_sum (map (fun x => f x + g x) l) = list_sum (map f l) + list_sum (map g l).
Proof. induction l as [|x l IH]; simpl; lia. Qed.

Lemma list_sum_map_le {A} (f g : A -> nat) l :
  (forall x, In x l -> f x <= g x) -> list_sum (map f l) <= list_sum (map g l).
Proof.
  induction l as [|x l IH]; intros H; simpl; [lia|].
  assert (f x <= g x) by (apply H; simpl; auto).
  assert (list_sum (map f l) <= list_sum (map g l)) by (apply IH; intros; apply H; simpl; auto). lia.
Qed.

Lemma list_sum_map_eq_pointwise {A} (f g : A -> nat) l :
  (forall x, In x l -> f x <= g x) -> list_sum (map f l) = list_sum (map g l) ->
  forall x, In x l -> f x = g x.
Proof.
  induction l as [|y l IH]; intros Hle Heq x Hin; [contradiction|].
  simpl in Heq.
  assert (Hy : f y <= g y) by (apply Hle; simpl; auto).
  assert (Hl : list_sum (map f l) <= list_sum (map g l))
    by (apply list_sum_map_le; intros; apply Hle; simpl; auto).
  destruct Hin as [->|Hin]; [lia|].
  apply IH; auto; [intros; apply Hle; simpl; auto | lia].
Qed.

Lemma list_sum_map_ext {A} (f g : A -> nat) l :
  (forall x, In x l -> f x = g x) -> list_sum (map f l) = list_sum (map g l).
Proof. intros H. f_equal. now apply map_ext_in. Qed.

Lemma indicator_sum x k :
  list_sum (map (fun c => if Nat.eqb x c then 1 else 0) (seq 0 k)) = if Nat.ltb x k then 1 else 0.
Proof.
  induction k as [|k IH]; [reflexivity|].
  rewrite seq_S, map_app, list_sum_app, IH. simpl.
  destruct (Nat.eqb_spec x k) as [->|Hne].
  - rewrite Nat.ltb_irrefl. destruct (Nat.ltb_spec k (S k)); lia.
  - destruct (Nat.ltb_spec x k), (Nat.ltb_spec x (S k)); lia.
Qed.

(* partition of a count by a key with values below k *)
Lemma sum_filter_key {A} (key : A -> nat) (g : A -> bool) (l : list A) k :
  (forall x, In x l -> key x < k) ->
  list_sum (map (fun a => length (filter (fun x => Nat.eqb (key x) a && g x) l)) (seq 0 k))
  = length (filter g l).
Proof.
  induction l as [|x l IH]; intros H.
  - simpl. induction (seq 0 k); simpl; auto.
  - assert (Hx : key x < k) by (apply H; simpl; auto).
    rewrite list_sum_map_ext with
      (g := fun a => (if Nat.eqb (key x) a then (if g x then 1 else 0) else 0)
                      + length (filter (fun y => Nat.eqb (key y) a && g y) l)).
    + rewrite list_sum_map_add, IH by (intros; apply H; simpl; auto).
      simpl. destruct (g x); simpl.
      * rewrite indicator_sum. destruct (Nat.ltb_spec (key x) k); lia.
      * rewrite list_sum_map_ext with (g := fun _ => 0).
        -- clear. induction (seq 0 k); simpl; auto.
        -- intros a _. now destruct (Nat.eqb (key x) a).
    + intros a _. simpl. destruct (Nat.eqb (key x) a), (g x); simpl; lia.
Qed.

(* ------------------------------------------------------------------------------------ *)
(* counter arrays: [e[g x] += 1 if t x] folded over a list *)

Lemma incr_length l i : length (incr l i) = length l.
Proof. unfold incr. apply upd_length. Qed.

Lemma nth_incr l i j : j < length l ->
  nth j (incr l i) 0 = nth j l 0 + (if Nat.eqb i j then 1 else 0).
Proof.
  intros Hj. unfold incr. rewrite nth_upd.
  destruct (Nat.eqb_spec i j) as [->|Hne]; [|lia].
  destruct (Nat.ltb_spec j (length l)); lia.
Qed.

Lemma list_sum_upd l i v : i < length l -> list_sum (upd l i v) + nth i l 0 = list_sum l + v.
Proof.
  revert i; induction l as [|x l IH]; intros [|i] H; simpl in *; try lia.
  specialize (IH i ltac:(lia)). lia.
Qed.

Lemma list_sum_incr l i : i < length l -> list_sum (incr l i) = S (list_sum l).
Proof. intros H. unfold incr. pose proof (list_sum_upd l i (S (nth i l 0)) H). lia. Qed.

Definition cstep {A} (t : A -> bool) (g : A -> nat) (e : list nat) (x : A) : list nat :=
  if t x then incr e (g x) else e.

Lemma fold_cstep_length {A} (t : A -> bool) g xs e :
  length (fold_left (cstep t g) xs e) = length e.
Proof.
  revert e; induction xs as [|x xs IH]; intros e; simpl; [reflexivity|].
  rewrite IH. unfold cstep. destruct (t x); [apply incr_length|reflexivity].
Qed.

Lemma fold_cstep_nth {A} (t : A -> bool) g xs e j : j < length e ->
  nth j (fold_left (cstep t g) xs e) 0
  = nth j e 0 + length (filter (fun x => t x && Nat.eqb (g x) j) xs).
Proof.
  revert e; induction xs as [|x xs IH]; intros e Hj; simpl; [lia|].
  rewrite IH.
  - unfold cstep. destruct (t x); simpl.
    + rewrite nth_incr by assumption. destruct (Nat.eqb (g x) j); simpl; lia.
    + reflexivity.
  - unfold cstep. destruct (t x); [rewrite incr_length|]; assumption.
Qed.

Lemma nth_zeros k j : nth j (zeros k) 0 = 0.
Proof. unfold zeros. destruct (Nat.lt_ge_cases j k) as [H|H].
  - now rewrite nth_repeat.
  - rewrite nth_overflow; [reflexivity|rewrite repeat_length; lia]. Qed.

Lemma zeros_length k : length (zeros k) = k.
Proof. apply repeat_length. Qed.

Lemma fold_cstep_zeros {A} (t : A -> bool) g xs k :
  fold_left (cstep t g) xs (zeros k)
  = map (fun j => length (filter (fun x => t x && Nat.eqb (g x) j) xs)) (seq 0 k).
Proof.
  apply list_eq_tabulate with (d := 0).
  - now rewrite fold_cstep_length, zeros_length.
  - intros j Hj. rewrite fold_cstep_nth by (now rewrite zeros_length). now rewrite nth_zeros.
Qed.

(* ------------------------------------------------------------------------------------ *)
(* labels are below n_class *)

Lemma label_lt_n_class labels a : In a labels -> a < n_class labels.
Proof.
  intros H. unfold n_class.
  pose proof (proj1 (list_max_le labels (list_max labels)) (Nat.le_refl _)) as Hall.
  rewrite Forall_forall in Hall. specialize (Hall a H). lia.
Qed.

Lemma combine_keys_lt (labels preds : list nat) (x : nat * nat) :
  In x (combine labels preds) -> fst x < n_class labels.
Proof. destruct x as [a b]. intros H. apply in_combine_l in H. now apply label_lt_n_class. Qed.

Lemma combine_snd_lt (labels preds : list nat) (x : nat * nat) :
  in_range labels preds -> In x (combine labels preds) -> snd x < n_class labels.
Proof. destruct x as [a b]. intros Hr H. apply in_combine_r in H. now apply Hr. Qed.

(* ------------------------------------------------------------------------------------ *)
(* the error columns of opf_accuracy / per-label are FP and FN *)

Lemma fold_acc_step xs e0 e1 :
  fold_left acc_step xs (e0, e1)
  = (fold_left (cstep (fun x => negb (Nat.eqb (fst x) (snd x))) snd) xs e0,
     fold_left (cstep (fun x => negb (Nat.eqb (fst x) (snd x))) fst) xs e1).
Proof.
  revert e0 e1; induction xs as [|x xs IH]; intros e0 e1; simpl; [reflexivity|].
  unfold acc_step at 2, cstep at 2 4. simpl.
  destruct (Nat.eqb (fst x) (snd x)); simpl; apply IH.
Qed.

Lemma errors_FP_FN labels preds :
  errors labels preds
  = (map (fun c => FP c labels preds) (seq 0 (n_class labels)),
     map (fun c => FN c labels preds) (seq 0 (n_class labels))).
Proof.
  unfold errors. rewrite fold_acc_step, !fold_cstep_zeros. f_equal.
  - apply map_ext. intros c. unfold FP, cnt. apply filter_len_ext. intros [l p] _. simpl.
    destruct (Nat.eqb_spec l p), (Nat.eqb_spec p c), (Nat.eqb_spec l c); simpl; auto; congruence.
  - apply map_ext. intros c. unfold FN, cnt. apply filter_len_ext. intros [l p] _. simpl.
    destruct (Nat.eqb_spec l p), (Nat.eqb_spec p c), (Nat.eqb_spec l c); simpl; auto; congruence.
Qed.

Lemma pl_errors_FN labels preds :
  pl_errors labels preds = map (fun c => FN c labels preds) (seq 0 (n_class labels)).
Proof.
  unfold pl_errors.
  assert (E : forall xs e, fold_left pl_step xs e
            = fold_left (cstep (fun x => negb (Nat.eqb (fst x) (snd x))) fst) xs e).
  { induction xs as [|x xs IH]; intros e; simpl; [reflexivity|].
    unfold pl_step at 2, cstep at 2. destruct (Nat.eqb (fst x) (snd x)); simpl; apply IH. }
  rewrite E, fold_cstep_zeros. apply map_ext. intros c. unfold FN, cnt.
  apply filter_len_ext. intros [l p] _. simpl.
  destruct (Nat.eqb_spec l p), (Nat.eqb_spec p c), (Nat.eqb_spec l c); simpl; auto; congruence.
Qed.

(* ------------------------------------------------------------------------------------ *)
(* relations between the counts *)

Lemma count_as_pairs labels preds c : length labels = length preds ->
  count c labels = cnt (fun l _ => Nat.eqb l c) labels preds.
Proof.
  intros H. unfold count, cnt.
  rewrite (filter_combine_fst (fun l => Nat.eqb l c)) by assumption.
  apply filter_len_ext. intros x _. apply Nat.eqb_sym.
Qed.

Lemma TP_FN_count labels preds c : length labels = length preds ->
  TP c labels preds + FN c labels preds = count c labels.
Proof.
  intros H. rewrite (count_as_pairs labels preds c H). unfold TP, FN, cnt.
  symmetry. apply (filter_len_split (fun x => Nat.eqb (fst x) c) (fun x => Nat.eqb (snd x) c)).
Qed.

Lemma FN_le_n labels preds c : length labels = length preds -> FN c labels preds <= count c labels.
Proof. intros H. pose proof (TP_FN_count labels preds c H). lia. Qed.

Lemma FP_le_rest labels preds c : length labels = length preds ->
  FP c labels preds <= length labels - count c labels.
Proof.
  intros H.
  assert (Hs : length (combine labels preds) = length labels)
    by (rewrite combine_length; lia).
  pose proof (filter_len_split (fun _ : nat * nat => true) (fun x => Nat.eqb (fst x) c)
                               (combine labels preds)) as Hp.
  simpl in Hp.
  assert (Hall : length (filter (fun _ : nat * nat => true) (combine labels preds))
                 = length labels).
  { rewrite <- Hs. clear. induction (combine labels preds); simpl; auto. }
  rewrite Hall in Hp.
  rewrite (count_as_pairs labels preds c H). unfold cnt.
  assert (Hle : FP c labels preds
                <= length (filter (fun x : nat * nat => negb (Nat.eqb (fst x) c)) (combine labels preds))).
  { unfold FP, cnt. apply filter_len_le. intros x _ E. apply andb_prop in E. tauto. }
  lia.
Qed.

Lemma sum_counts labels :
  list_sum (bincount labels) = length labels.
Proof.
  unfold bincount, count.
  rewrite list_sum_map_ext with
    (g := fun c => length (filter (fun x => Nat.eqb x c && true) labels)).
  - rewrite (sum_filter_key (fun x => x) (fun _ => true)).
    + clear. induction labels; simpl; auto.
    + intros x Hx. now apply label_lt_n_class.
  - intros c _. apply filter_len_ext. intros x _. rewrite andb_true_r. apply Nat.eqb_sym.
Qed.

Lemma bincount_length labels : length (bincount labels) = n_class labels.
Proof. unfold bincount. now rewrite map_length, seq_length. Qed.

Lemma count_pos labels c : In c labels <-> 0 < count c labels.
Proof.
  unfold count. rewrite filter_len_pos. split.
  - intros H. exists c. split; auto. apply Nat.eqb_refl.
  - intros [x [Hin E]]. apply Nat.eqb_eq in E. now subst.
Qed.

(* all pairs correct <-> the two vectors are equal *)
Lemma combine_diag (l1 l2 : list nat) : length l1 = length l2 ->
  (forall x, In x (combine l1 l2) -> fst x = snd x) -> l1 = l2.
Proof.
  revert l2; induction l1 as [|a l1 IH]; intros [|b l2] H Hd; simpl in *; try lia; [reflexivity|].
  f_equal.
  - apply (Hd (a, b)). auto.
  - apply IH; [lia|]. intros x Hx. apply Hd. auto.
Qed.

Lemma combine_self_diag (l : list nat) x : In x (combine l l) -> fst x = snd x.
Proof. induction l as [|a l IH]; simpl; [tauto|]. intros [<-|H]; auto. Qed.

Lemma FN_zero_all_correct labels preds : length labels = length preds ->
  (forall c, c < n_class labels -> FN c labels preds = 0) -> preds = labels.
Proof.
  intros Hlen H. symmetry. apply combine_diag; [assumption|].
  intros [l p] Hin. simpl.
  destruct (Nat.eq_dec l p) as [|Hne]; [assumption|exfalso].
  assert (Hl : l < n_class labels) by (apply (combine_keys_lt labels preds (l, p) Hin)).
  specialize (H l Hl). unfold FN, cnt in H.
  rewrite filter_len_zero in H. specialize (H (l, p) Hin). simpl in H.
  rewrite Nat.eqb_refl in H. simpl in H.
  destruct (Nat.eqb_spec p l); [congruence|discriminate].
Qed.

Lemma all_correct_FN_FP labels c : FN c labels labels = 0 /\ FP c labels labels = 0.
Proof.
  split; unfold FN, FP, cnt; apply filter_len_zero; intros x Hx;
    apply combine_self_diag in Hx; rewrite Hx; destruct (Nat.eqb (snd x) c); reflexivity.
Qed.

(* ------------------------------------------------------------------------------------ *)
(* confusion matrix *)

Definition shape (k : nat) (m : list (list nat)) : Prop :=
  length m = k /\ forall a, a < k -> length (nth a m []) = k.

Lemma shape_zeros2 k : shape k (zeros2 k k).
Proof.
  split; [apply repeat_length|]. intros a Ha. unfold zeros2.
  rewrite nth_indep with (d' := zeros k) by (rewrite repeat_length; lia).
  rewrite nth_repeat. apply zeros_length.
Qed.

Lemma get2_zeros2 r k a b : get2 (zeros2 r k) a b = 0.
Proof.
  unfold get2, zeros2. destruct (Nat.lt_ge_cases a r) as [H|H].
  - rewrite nth_indep with (d' := zeros k) by (rewrite repeat_length; lia).
    rewrite nth_repeat. apply nth_zeros.
  - rewrite (nth_overflow (repeat (zeros k) r) []) by (rewrite repeat_length; lia). now destruct b.
Qed.

Lemma shape_incr2 k m a b : shape k m -> shape k (incr2 m a b).
Proof.
  intros [Hl Hr]. unfold incr2. split; [now rewrite upd_length|].
  intros a' Ha'. rewrite nth_upd.
  destruct (Nat.eqb_spec a a') as [->|Hne]; [|now apply Hr].
  destruct (Nat.ltb_spec a' (length m)); [|now apply Hr].
  rewrite incr_length. now apply Hr.
Qed.

Lemma get2_incr2 k m a b a' b' : shape k m -> a' < k -> b' < k ->
  get2 (incr2 m a b) a' b' = get2 m a' b' + (if Nat.eqb a a' && Nat.eqb b b' then 1 else 0).
Proof.
  intros [Hl Hr] Ha' Hb'. unfold get2, incr2. rewrite nth_upd.
  destruct (Nat.eqb_spec a a') as [->|Hne]; simpl; [|lia].
  destruct (Nat.ltb_spec a' (length m)); [|lia].
  rewrite nth_incr by (rewrite Hr; assumption). reflexivity.
Qed.

Lemma shape_fold k xs m : shape k m -> shape k (fold_left cm_step xs m).
Proof.
  revert m; induction xs as [|x xs IH]; intros m H; simpl; [assumption|].
  apply IH. now apply shape_incr2.
Qed.

Lemma get2_fold k xs m a b : shape k m -> a < k -> b < k ->
  get2 (fold_left cm_step xs m) a b
  = get2 m a b + length (filter (fun x => Nat.eqb (fst x) a && Nat.eqb (snd x) b) xs).
Proof.
  revert m; induction xs as [|x xs IH]; intros m H Ha Hb; simpl; [lia|].
  rewrite IH by (try apply shape_incr2; assumption).
  unfold cm_step. rewrite (get2_incr2 k) by assumption.
  destruct (Nat.eqb (fst x) a && Nat.eqb (snd x) b); simpl; lia.
Qed.

Lemma confusion_shape labels preds : shape (n_class labels) (confusion_matrix labels preds).
Proof. unfold confusion_matrix. apply shape_fold, shape_zeros2. Qed.

Lemma confusion_entry labels preds a b : a < n_class labels -> b < n_class labels ->
  get2 (confusion_matrix labels preds) a b = pair_count a b labels preds.
Proof.
  intros Ha Hb. unfold confusion_matrix.
  rewrite (get2_fold (n_class labels)) by (try apply shape_zeros2; assumption).
  now rewrite get2_zeros2.
Qed.

Definition total (m : list (list nat)) : nat := list_sum (map (@list_sum) m).

Lemma total_incr2 k m a b : shape k m -> a < k -> b < k -> total (incr2 m a b) = S (total m).
Proof.
  intros [Hl Hr] Ha Hb. unfold total, incr2.
  assert (E : forall (l : list (list nat)) i v,
             map (@list_sum) (upd l i v) = upd (map (@list_sum) l) i (list_sum v)).
  { induction l as [|x l IH]; intros [|i] v; simpl; auto. now rewrite IH. }
  rewrite E.
  pose proof (list_sum_upd (map (@list_sum) m) a (list_sum (incr (nth a m []) b))) as Hu.
  rewrite map_length in Hu. specialize (Hu ltac:(lia)).
  change 0 with (list_sum []) in Hu at 1. rewrite map_nth in Hu.
  rewrite list_sum_incr in Hu by (rewrite Hr; assumption).
  rewrite list_sum_incr by (rewrite Hr; assumption). lia.
Qed.

Lemma total_zeros2 r k : total (zeros2 r k) = 0.
Proof.
  unfold total, zeros2. induction r as [|r IH]; simpl; [reflexivity|].
  rewrite IH. unfold zeros. clear. induction k; simpl; auto.
Qed.

Lemma total_fold k xs m : shape k m ->
  (forall x, In x xs -> fst x < k /\ snd x < k) ->
  total (fold_left cm_step xs m) = total m + length xs.
Proof.
  revert m; induction xs as [|x xs IH]; intros m H Hx; simpl; [lia|].
  rewrite IH.
  - unfold cm_step. rewrite (total_incr2 k); try assumption; try (apply Hx; simpl; auto). lia.
  - now apply shape_incr2.
  - intros y Hy. apply Hx. simpl. auto.
Qed.

Lemma confusion_total labels preds :
  length labels = length preds -> in_range labels preds ->
  total (confusion_matrix labels preds) = length labels.
Proof.
  intros Hlen Hr. unfold confusion_matrix.
  rewrite (total_fold (n_class labels)).
  - rewrite total_zeros2, combine_length. lia.
  - apply shape_zeros2.
  - intros x Hx. split; [now apply (combine_keys_lt labels preds)|now apply (combine_snd_lt labels preds)].
Qed.

(* the columns of the confusion matrix *)
Lemma confusion_col labels preds b : b < n_class labels ->
  col 0 (confusion_matrix labels preds) b
  = map (fun a => pair_count a b labels preds) (seq 0 (n_class labels)).
Proof.
  intros Hb. unfold col.
  destruct (confusion_shape labels preds) as [Hl Hr].
  rewrite (list_self_tabulate [] (confusion_matrix labels preds)) at 1.
  rewrite map_map, Hl. apply map_ext_in. intros a Ha. apply in_seq in Ha.
  apply (confusion_entry labels preds a b); lia.
Qed.

Lemma col_sum labels preds b :
  list_sum (map (fun a => pair_count a b labels preds) (seq 0 (n_class labels)))
  = length (filter (fun x => Nat.eqb (snd x) b) (combine labels preds)).
Proof.
  unfold pair_count, cnt.
  apply (sum_filter_key (fun x : nat * nat => fst x) (fun x => Nat.eqb (snd x) b)).
  intros x Hx. now apply (combine_keys_lt labels preds).
Qed.

Lemma cols_total labels preds : length labels = length preds -> in_range labels preds ->
  list_sum (map (fun b => list_sum (map (fun a => pair_count a b labels preds) (seq 0 (n_class labels))))
                (seq 0 (n_class labels)))
  = length labels.
Proof.
  intros Hlen Hr.
  rewrite list_sum_map_ext with
    (g := fun b => length (filter (fun x : nat * nat => Nat.eqb (snd x) b && true) (combine labels preds))).
  - rewrite (sum_filter_key (fun x : nat * nat => snd x) (fun _ => true)).
    + replace (length labels) with (length (combine labels preds)) by (rewrite combine_length; lia).
      clear. induction (combine labels preds); simpl; auto.
    + intros x Hx. now apply (combine_snd_lt labels preds).
  - intros b _. rewrite col_sum. apply filter_len_ext. intros x _. now rewrite andb_true_r.
Qed.

(* ------------------------------------------------------------------------------------ *)
(* max = sum  <->  at most one non-zero entry *)

Lemma list_max_le_sum l : list_max l <= list_sum l.
Proof. induction l as [|x l IH]; simpl; lia. Qed.

Lemma list_sum_zero l : list_sum l = 0 <-> forall i, nth i l 0 = 0.
Proof.
  induction l as [|x l IH]; simpl.
  - split; auto. intros _ [|i]; reflexivity.
  - split.
    + intros H [|i]; [lia|]. apply IH. lia.
    + intros H. pose proof (H 0) as H0. simpl in H0.
      assert (list_sum l = 0) by (apply IH; intros i; apply (H (S i))). lia.
Qed.

Lemma max_eq_sum_iff l :
  list_max l = list_sum l <->
  (forall i j, 0 < nth i l 0 -> 0 < nth j l 0 -> i = j).
Proof.
  induction l as [|x l IH].
  - simpl. split; auto. intros _ [|i] [|j]; simpl; lia.
  - simpl. pose proof (list_max_le_sum l) as Hms. split.
    + intros H.
      destruct (Nat.eq_dec x 0) as [->|Hx].
      * assert (Hl : list_max l = list_sum l) by lia.
        intros [|i] [|j]; simpl; try lia. intros Hi Hj. f_equal. now apply IH.
      * assert (Hz : list_sum l = 0) by lia.
        rewrite list_sum_zero in Hz.
        intros [|i] [|j]; simpl; auto; intros Hi Hj.
        -- rewrite Hz in Hj. lia.
        -- rewrite Hz in Hi. lia.
        -- rewrite Hz in Hi. lia.
    + intros H.
      destruct (Nat.eq_dec x 0) as [->|Hx].
      * assert (Hl : list_max l = list_sum l).
        { apply IH. intros i j Hi Hj. specialize (H (S i) (S j) Hi Hj). lia. }
        lia.
      * assert (Hz : list_sum l = 0).
        { apply list_sum_zero. intros i. destruct (Nat.eq_dec (nth i l 0) 0) as [|Hn]; [assumption|].
          specialize (H 0 (S i)). simpl in H. specialize (H ltac:(lia) ltac:(lia)). discriminate. }
        assert (list_max l = 0) by lia. lia.
Qed.

Lemma list_max_ge_nth l i : nth i l 0 <= list_max l.
Proof.
  revert i; induction l as [|x l IH]; intros [|i]; simpl; try lia.
  specialize (IH i). lia.
Qed.

(* positions *)
Lemma pair_count_pos labels preds a b : length labels = length preds ->
  (0 < pair_count a b labels preds <->
   exists i, i < length labels /\ nth i labels 0 = a /\ nth i preds 0 = b).
Proof.
  intros Hlen. unfold pair_count, cnt. rewrite filter_len_pos. split.
  - intros [[l p] [Hin E]]. simpl in E. apply andb_prop in E. destruct E as [E1 E2].
    apply Nat.eqb_eq in E1, E2. subst.
    apply (In_nth _ _ (0, 0)) in Hin. destruct Hin as [i [Hi Hn]].
    rewrite combine_nth in Hn by assumption. rewrite combine_length in Hi.
    exists i. inversion Hn. repeat split; auto. lia.
  - intros [i [Hi [Ha Hb]]]. exists (a, b). split.
    + rewrite <- Ha, <- Hb, <- combine_nth by assumption. apply nth_In.
      rewrite combine_length. lia.
    + simpl. now rewrite !Nat.eqb_refl.
Qed.
