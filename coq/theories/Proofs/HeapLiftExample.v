(* Non-vacuity for Props/C05_anyorder.v: the 16-operation history of HeapHist.ex_ops on capacity 3
   with costs in [nat] (two- and three-way ties, re-insertion of a removed element), under the
   minimum policy, and a history under the maximum policy with ties. *)
From Coq Require Import List Arith Bool ZArith Permutation.
From OPF Require Import Base.Lists Base.TotalOrder Model.Heap Proofs.HeapHist Proofs.LiftInst Proofs.HeapLift.
Import ListNotations.

Definition exn_ops : list (@op nat) :=
  [OIsEmpty; OUpd 0 5; OUpd 1 5; OIns 2; OIsFull; ORem; OUpd 2 5; OUpd 1 5;
   OIns 0; OIsFull; ORem; ORem; OUpd 0 7; ORem; ORem; OIsEmpty].

Definition exn_h0 : heap nat := h_init 1000 3 PMin.

Lemma exn_valid : valid_histW Nat.ltb 1000 exn_h0 exn_ops.
Proof. apply valid_histbW_sound. vm_compute. reflexivity. Qed.

Lemma exn_outputs :
  snd (run Nat.ltb 1000 exn_h0 exn_ops) =
    [RBool true; RUnit; RUnit; RBool true; RBool true; RElem 0; RUnit; RUnit; RBool true;
     RBool true; RElem 1; RElem 0; RUnit; RElem 2; RFalse; RBool true]
  /\ queued (fst (run Nat.ltb 1000 exn_h0 exn_ops)) = []
  /\ insertedW Nat.ltb 1000 exn_h0 exn_ops = [0; 1; 2; 0].
Proof. vm_compute. repeat split; reflexivity. Qed.

(* maximum policy (the density queue of the clustering): sentinel 0, three elements tie at 4 *)
Definition exx_ops : list (@op nat) :=
  [OUpd 0 4; OUpd 1 4; OUpd 2 2; OUpd 3 4; OUpd 2 3; OIsFull; ORem; ORem; OUpd 2 4; ORem; ORem; ORem].

Definition exx_h0 : heap nat := h_init 0 4 PMax.

Lemma exx_valid : valid_histW Nat.ltb 0 exx_h0 exx_ops.
Proof. apply valid_histbW_sound. vm_compute. reflexivity. Qed.

Lemma exx_outputs :
  snd (run Nat.ltb 0 exx_h0 exx_ops) =
    [RUnit; RUnit; RUnit; RUnit; RUnit; RBool true; RElem 0; RElem 3; RUnit; RElem 1; RElem 2; RFalse].
Proof. vm_compute. reflexivity. Qed.
