(* C16 for an arbitrary strict total order: the two k-selection folds of Model/Knn.v
   ([knn_select], [cut_select]).  Lifted from W := Z (Select.v) along the rank map of
   [zero :: top :: the list folded over]; the relation between the fold on (W, ltb) and the fold
   on (Z, Z.ltb) over the ranked list is a hand-written relational lemma for [fold_left]
   ([sel_fold_rank], [cut_fold_rank]) - no parametricity plugin is involved. *)
From Coq Require Import List Arith Bool ZArith Lia.
From OPF Require Import Base.Lists Base.TotalOrder Model.Knn.
From OPF Require Import Proofs.OrderEmbed Proofs.LiftCluster Proofs.Select.
Import ListNotations.
Close Scope Z_scope.

Definition sel_stepW {W} (ltb : W -> W -> bool) (st : W * option nat) (ka : nat * W) : W * option nat :=
  let '(mx, best) := st in
  if ltb mx (snd ka) then (snd ka, Some (fst ka)) else st.

Definition cut_stepW {W} (ltb : W -> W -> bool) (zero : W) (st : W * option nat * nat) (kc : nat * W)
  : W * option nat * nat :=
  let '(mn, best, ev) := st in
  if weqb ltb mn zero then st
  else if ltb (snd kc) mn then (snd kc, Some (fst kc), S ev) else (mn, best, S ev).

Lemma knn_select_unfoldW {W} (ltb : W -> W -> bool) zero accs :
  knn_select ltb zero accs
  = snd (fold_left (sel_stepW ltb) (combine (seq 1 (length accs)) accs) (zero, Some 1)).
Proof. reflexivity. Qed.

Lemma cut_select_unfoldW {W} (ltb : W -> W -> bool) zero top min_k cuts :
  cut_select ltb zero top min_k cuts
  = let '(_, best, ev) := fold_left (cut_stepW ltb zero) (combine (seq min_k (length cuts)) cuts)
                                    (top, None, 0) in
    (best, ev).
Proof. reflexivity. Qed.

Lemma combine_map_r {A B C} (f : B -> C) : forall (l : list A) (l' : list B),
  combine l (map f l') = map (fun p => (fst p, f (snd p))) (combine l l').
Proof.
  induction l as [|a l IH]; intros [|b l']; cbn [combine map fst snd]; try reflexivity.
  now rewrite IH.
Qed.

Lemma Forall_combine_snd {A B} (P : B -> Prop) : forall (l : list A) (l' : list B),
  Forall P l' -> Forall (fun p => P (snd p)) (combine l l').
Proof.
  induction l as [|a l IH]; intros l' H; [constructor|].
  destruct H as [|b l' Hb Hl']; cbn [combine]; constructor; [exact Hb | now apply IH].
Qed.

Section Rank.
  Context {W : Type} (ltb : W -> W -> bool).
  Hypothesis O : strict_total_order ltb.
  Variable vals : list W.
  Local Notation r := (rk ltb vals).
  Local Notation inV := (fun a : W => In a vals).
  Local Notation g := (fun p : nat * W => (fst p, r (snd p))).

  Lemma sel_fold_rank : forall (l : list (nat * W)) mx best,
    Forall (fun p => inV (snd p)) l -> inV mx ->
    inV (fst (fold_left (sel_stepW ltb) l (mx, best))) /\
    fold_left sel_step (map g l) (r mx, best)
    = (r (fst (fold_left (sel_stepW ltb) l (mx, best))), snd (fold_left (sel_stepW ltb) l (mx, best))).
  Proof.
    induction l as [|ka l IH]; intros mx best Hl Hmx; [split; [exact Hmx | reflexivity]|].
    inversion Hl as [|? ? Hka Hl']; subst.
    cbn [map fold_left]. unfold sel_step at 2, sel_stepW at 2 4 6. cbn [fst snd].
    rewrite (rk_ltb ltb O vals mx (snd ka) Hmx Hka).
    destruct (ltb mx (snd ka)); now apply IH.
  Qed.

  Lemma knn_select_rank zero accs : inV zero -> Forall inV accs ->
    knn_select Z.ltb (r zero) (map r accs) = knn_select ltb zero accs.
  Proof.
    intros Hz Ha. rewrite knn_select_unfold, knn_select_unfoldW, map_length, combine_map_r.
    destruct (sel_fold_rank (combine (seq 1 (length accs)) accs) zero (Some 1)) as [_ E].
    - now apply (Forall_combine_snd (fun a => In a vals)).
    - exact Hz.
    - rewrite E. reflexivity.
  Qed.

  Lemma cut_fold_rank zero : inV zero -> forall (l : list (nat * W)) mn best ev,
    Forall (fun p => inV (snd p)) l -> inV mn ->
    fold_left (cut_step (r zero)) (map g l) (r mn, best, ev)
    = let '(mn', best', ev') := fold_left (cut_stepW ltb zero) l (mn, best, ev) in (r mn', best', ev').
  Proof.
    intros Hz. induction l as [|kc l IH]; intros mn best ev Hl Hmn; [reflexivity|].
    inversion Hl as [|? ? Hkc Hl']; subst.
    cbn [map fold_left]. unfold cut_step at 2, cut_stepW at 2. cbn [fst snd].
    rewrite (weqb_rank ltb O vals mn zero Hmn Hz), (rk_ltb ltb O vals (snd kc) mn Hkc Hmn).
    destruct (weqb ltb mn zero); [now apply IH|].
    destruct (ltb (snd kc) mn); now apply IH.
  Qed.

  Lemma cut_select_rank zero top min_k cuts : inV zero -> inV top -> Forall inV cuts ->
    cut_select Z.ltb (r zero) (r top) min_k (map r cuts) = cut_select ltb zero top min_k cuts.
  Proof.
    intros Hz Ht Hc. rewrite cut_select_unfold, cut_select_unfoldW, map_length, combine_map_r.
    rewrite (cut_fold_rank zero Hz) by (try exact Ht; now apply (Forall_combine_snd (fun a => In a vals))).
    destruct (fold_left (cut_stepW ltb zero) (combine (seq min_k (length cuts)) cuts) (top, None, 0))
      as [[mn b] e]. reflexivity.
  Qed.
End Rank.

Section LiftSelect.
  Context {W : Type} (ltb : W -> W -> bool).
  Hypothesis O : strict_total_order ltb.

  Theorem knn_select_argmax_anyorder (zero : W) (accs : list W) :
    accs <> [] -> (forall a, In a accs -> ltb a zero = false) ->
    exists i, knn_select ltb zero accs = Some (S i) /\ i < length accs /\
      (forall j, j < length accs -> ltb (nth i accs zero) (nth j accs zero) = false) /\
      (forall j, j < i -> ltb (nth j accs zero) (nth i accs zero) = true).
  Proof.
    intros Hne Hpos.
    set (vals := zero :: accs).
    assert (Hz : In zero vals) by now left.
    assert (Ha : Forall (fun a => In a vals) accs) by (apply Forall_forall; intros a H; now right).
    assert (Hn : forall j, In (nth j accs zero) vals) by (intros j; now apply (Forall_in_nth vals)).
    destruct (knn_select_argmax (rk ltb vals zero) (map (rk ltb vals) accs)) as (i & A1 & A2 & A3 & A4).
    - destruct accs; [contradiction | discriminate].
    - intros z Hzin. apply in_map_iff in Hzin. destruct Hzin as (a & <- & Hain).
      apply (rk_le_iff ltb O vals _ _ Hz); [now right | now apply Hpos].
    - rewrite (knn_select_rank ltb O vals zero accs Hz Ha) in A1. rewrite map_length in A2, A3.
      exists i. split; [exact A1|]. split; [exact A2|]. split.
      + intros j Hj. specialize (A3 j Hj). rewrite !map_nth in A3.
        exact (proj1 (rk_le_iff ltb O vals _ _ (Hn j) (Hn i)) A3).
      + intros j Hj. specialize (A4 j Hj). rewrite !map_nth in A4.
        exact (proj1 (rk_lt_iff ltb O vals _ _ (Hn j) (Hn i)) A4).
  Qed.

  Theorem knn_select_all_zero_anyorder (zero : W) (accs : list W) :
    (forall a, In a accs -> ltb zero a = false) -> knn_select ltb zero accs = Some 1.
  Proof.
    intros Hle.
    set (vals := zero :: accs).
    assert (Hz : In zero vals) by now left.
    assert (Ha : Forall (fun a => In a vals) accs) by (apply Forall_forall; intros a H; now right).
    rewrite <- (knn_select_rank ltb O vals zero accs Hz Ha). apply knn_select_all_zero.
    intros z Hzin. apply in_map_iff in Hzin. destruct Hzin as (a & <- & Hain).
    apply (rk_le_iff ltb O vals _ _); [now right | exact Hz | now apply Hle].
  Qed.

  Theorem cut_select_argmin_anyorder (zero top : W) (min_k : nat) (cuts : list W) :
    cuts <> [] -> (forall c, In c cuts -> ltb c zero = false /\ ltb c top = true) ->
    exists e i, cut_select ltb zero top min_k cuts = (Some (min_k + i), e) /\
      1 <= e <= length cuts /\
      (forall j, S j < e -> nth j cuts zero <> zero) /\
      (e = length cuts \/ nth (e - 1) cuts zero = zero) /\
      i < e /\
      (forall j, j < e -> ltb (nth j cuts zero) (nth i cuts zero) = false) /\
      (forall j, j < i -> ltb (nth i cuts zero) (nth j cuts zero) = true).
  Proof.
    intros Hne Hc.
    set (vals := zero :: top :: cuts).
    assert (Hz : In zero vals) by now left.
    assert (Ht : In top vals) by (right; now left).
    assert (Hcv : Forall (fun a => In a vals) cuts)
      by (apply Forall_forall; intros a H; right; now right).
    assert (Hn : forall j, In (nth j cuts zero) vals) by (intros j; now apply (Forall_in_nth vals)).
    destruct (cut_select_argmin (rk ltb vals zero) (rk ltb vals top) min_k (map (rk ltb vals) cuts))
      as (e & i & A1 & A2 & A3 & A4 & A5 & A6 & A7).
    - destruct cuts; [contradiction | discriminate].
    - intros z Hzin. apply in_map_iff in Hzin. destruct Hzin as (c & <- & Hcin).
      assert (Hcin' : In c vals) by (right; now right).
      destruct (Hc c Hcin) as [B1 B2]. split.
      + exact (proj2 (rk_le_iff ltb O vals _ _ Hz Hcin') B1).
      + exact (proj2 (rk_lt_iff ltb O vals _ _ Hcin' Ht) B2).
    - rewrite (cut_select_rank ltb O vals zero top min_k cuts Hz Ht Hcv) in A1.
      rewrite map_length in A2, A4.
      exists e, i. split; [exact A1|]. split; [exact A2|]. split; [|split; [|split; [exact A5|split]]].
      + intros j Hj E. apply (A3 j Hj). rewrite map_nth. now rewrite E.
      + destruct A4 as [A4|A4]; [now left|]. right. rewrite map_nth in A4.
        exact (rk_inj ltb O vals _ _ (Hn _) Hz A4).
      + intros j Hj. specialize (A6 j Hj). rewrite !map_nth in A6.
        exact (proj1 (rk_le_iff ltb O vals _ _ (Hn i) (Hn j)) A6).
      + intros j Hj. specialize (A7 j Hj). rewrite !map_nth in A7.
        exact (proj1 (rk_lt_iff ltb O vals _ _ (Hn i) (Hn j)) A7).
  Qed.
End LiftSelect.

(* ---------- W := nat ---------- *)

Example knn_select_exn_tie : knn_select Nat.ltb 0 [3; 7; 5; 7; 2] = Some 2.
Proof. vm_compute. reflexivity. Qed.

Example cut_select_exn_tie : cut_select Nat.ltb 0 1000 3 [9; 4; 6; 4; 8] = (Some 4, 5).
Proof. vm_compute. reflexivity. Qed.

Example cut_select_exn_early_zero : cut_select Nat.ltb 0 1000 2 [5; 3; 0; 0; 1] = (Some 4, 3).
Proof. vm_compute. reflexivity. Qed.
