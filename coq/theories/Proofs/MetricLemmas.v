(* Shared list / sum / scalar lemmas used by the metric-axiom proofs (C08). *)
From Coq Require Import Reals List Lra Lia.
From OPF Require Import Spec.MetricSpec.
Import ListNotations.
Open Scope R_scope.

(* ------------------------------------------------------------------ *)
(* simultaneous induction on two lists of equal length                 *)
(* ------------------------------------------------------------------ *)
Lemma list_ind2 (P : list R -> list R -> Prop) :
  P [] [] ->
  (forall a b x y, length x = length y -> P x y -> P (a :: x) (b :: y)) ->
  forall x y, length x = length y -> P x y.
Proof.
  intros H0 HS x; induction x as [|a x IH]; intros [|b y] H; simpl in H;
    try discriminate; auto.
Qed.

Lemma Forall_True (x : list R) : Forall (fun _ => True) x.
Proof. induction x; constructor; auto. Qed.

(* ------------------------------------------------------------------ *)
(* map2                                                                *)
(* ------------------------------------------------------------------ *)
Lemma map2_swap {A B C} (f : A -> B -> C) x y :
  map2 f x y = map2 (fun a b => f b a) y x.
Proof.
  revert y; induction x as [|a x IH]; intros [|b y]; simpl; auto.
  now rewrite IH.
Qed.

Lemma map2_ext {A B C} (f g : A -> B -> C) x y :
  (forall a b, f a b = g a b) -> map2 f x y = map2 g x y.
Proof.
  intros H; revert y; induction x as [|a x IH]; intros [|b y]; simpl; auto.
  now rewrite H, IH.
Qed.

Lemma map2_length {A B C} (f : A -> B -> C) x y :
  length x = length y -> length (map2 f x y) = length x.
Proof.
  revert y; induction x as [|a x IH]; intros [|b y] H; simpl in *; auto; try discriminate.
Qed.

Lemma map2_Forall_on (P Q T : R -> Prop) (f : R -> R -> R) x y :
  Forall P x -> Forall Q y -> (forall a b, P a -> Q b -> T (f a b)) ->
  Forall T (map2 f x y).
Proof.
  intros Hx; revert y; induction Hx as [|a x Ha Hx IH]; intros y Hy H; simpl.
  - constructor.
  - destruct Hy as [|b y Hb Hy]; constructor; auto.
Qed.

Lemma map2_Forall (T : R -> Prop) (f : R -> R -> R) x y :
  (forall a b, T (f a b)) -> Forall T (map2 f x y).
Proof.
  intros H. apply (map2_Forall_on (fun _ => True) (fun _ => True));
    auto using Forall_True.
Qed.

(* ------------------------------------------------------------------ *)
(* sum                                                                 *)
(* ------------------------------------------------------------------ *)
Lemma sum_nil : sum [] = 0.
Proof. reflexivity. Qed.

Lemma sum_cons a l : sum (a :: l) = a + sum l.
Proof. reflexivity. Qed.

Lemma sum_nonneg l : Forall (fun a => 0 <= a) l -> 0 <= sum l.
Proof.
  induction 1 as [|a l Ha Hl IH]; [rewrite sum_nil | rewrite sum_cons]; lra.
Qed.

Lemma sum_pos l : (1 <= length l)%nat -> Forall (fun a => 0 < a) l -> 0 < sum l.
Proof.
  intros Hlen Hl. destruct Hl as [|a l Ha Hl]; [simpl in Hlen; lia|].
  rewrite sum_cons.
  assert (0 <= sum l) by (apply sum_nonneg; eapply Forall_impl; [|exact Hl];
                         simpl; intros; lra).
  lra.
Qed.

Lemma sum_zero l : Forall (fun a => a = 0) l -> sum l = 0.
Proof.
  induction 1 as [|a l Ha Hl IH]; [reflexivity | rewrite sum_cons; lra].
Qed.

Lemma sum_map_id_on (P : R -> Prop) (g : R -> R) l :
  Forall P l -> (forall a, P a -> g a = a) -> sum (map g l) = sum l.
Proof.
  intros Hl H; induction Hl as [|a l Ha Hl IH]; cbn [map]; auto.
  rewrite !sum_cons, IH, H; auto.
Qed.

(* ------------------------------------------------------------------ *)
(* sum2                                                                *)
(* ------------------------------------------------------------------ *)
Lemma sum2_nil f : sum2 f [] [] = 0.
Proof. reflexivity. Qed.

Lemma sum2_nil_l f y : sum2 f [] y = 0.
Proof. reflexivity. Qed.

Lemma sum2_nil_r f x : sum2 f x [] = 0.
Proof. destruct x; reflexivity. Qed.

Lemma sum2_cons f a b x y : sum2 f (a :: x) (b :: y) = f a b + sum2 f x y.
Proof. reflexivity. Qed.

Lemma count2_sum2 p x y :
  count2 p x y = sum2 (fun a b => if p a b then 1 else 0) x y.
Proof. reflexivity. Qed.

(* extensionality, on a domain and unconditional *)
Lemma sum2_ext_on (P Q : R -> Prop) f g x y :
  Forall P x -> Forall Q y -> (forall a b, P a -> Q b -> f a b = g a b) ->
  sum2 f x y = sum2 g x y.
Proof.
  intros Hx; revert y; induction Hx as [|a x Ha Hx IH]; intros y Hy H.
  - reflexivity.
  - destruct Hy as [|b y Hb Hy]; [reflexivity|].
    rewrite !sum2_cons, H, (IH y); auto.
Qed.

Lemma sum2_ext f g x y :
  (forall a b, f a b = g a b) -> sum2 f x y = sum2 g x y.
Proof.
  intros H. apply (sum2_ext_on (fun _ => True) (fun _ => True));
    auto using Forall_True.
Qed.

(* swapping the two arguments *)
Lemma sum2_swap f x y : sum2 f x y = sum2 (fun a b => f b a) y x.
Proof. unfold sum2. now rewrite map2_swap. Qed.

Lemma sum2_sym_on (P : R -> Prop) f x y :
  Forall P x -> Forall P y -> (forall a b, P a -> P b -> f a b = f b a) ->
  sum2 f x y = sum2 f y x.
Proof.
  intros Hx Hy H. rewrite (sum2_swap f y x).
  apply (sum2_ext_on P P); auto.
Qed.

Lemma sum2_sym f x y :
  (forall a b, f a b = f b a) -> sum2 f x y = sum2 f y x.
Proof.
  intros H. apply (sum2_sym_on (fun _ => True)); auto using Forall_True.
Qed.

(* signs *)
Lemma sum2_nonneg_on (P Q : R -> Prop) f x y :
  Forall P x -> Forall Q y -> (forall a b, P a -> Q b -> 0 <= f a b) ->
  0 <= sum2 f x y.
Proof.
  intros Hx Hy H. apply sum_nonneg.
  apply (map2_Forall_on P Q); auto.
Qed.

Lemma sum2_nonneg f x y : (forall a b, 0 <= f a b) -> 0 <= sum2 f x y.
Proof.
  intros H. apply (sum2_nonneg_on (fun _ => True) (fun _ => True));
    auto using Forall_True.
Qed.

Lemma sum2_pos_on (P Q : R -> Prop) f x y :
  length x = length y -> (1 <= length x)%nat ->
  Forall P x -> Forall Q y -> (forall a b, P a -> Q b -> 0 < f a b) ->
  0 < sum2 f x y.
Proof.
  intros Hlen H1 Hx Hy H. apply sum_pos.
  - rewrite map2_length; auto.
  - apply (map2_Forall_on P Q); auto.
Qed.

(* monotonicity *)
Lemma sum2_le_on (P Q : R -> Prop) f g x y :
  Forall P x -> Forall Q y -> (forall a b, P a -> Q b -> f a b <= g a b) ->
  sum2 f x y <= sum2 g x y.
Proof.
  intros Hx; revert y; induction Hx as [|a x Ha Hx IH]; intros y Hy H.
  - rewrite !sum2_nil_l; lra.
  - destruct Hy as [|b y Hb Hy]; [rewrite !sum2_nil_r; lra|].
    rewrite !sum2_cons. specialize (IH y Hy H). specialize (H a b Ha Hb). lra.
Qed.

Lemma sum2_le f g x y :
  (forall a b, f a b <= g a b) -> sum2 f x y <= sum2 g x y.
Proof.
  intros H. apply (sum2_le_on (fun _ => True) (fun _ => True));
    auto using Forall_True.
Qed.

(* diagonal *)
Lemma sum2_diag_on (P : R -> Prop) f g x :
  Forall P x -> (forall a, P a -> f a a = g a) -> sum2 f x x = sum (map g x).
Proof.
  intros Hx H; induction Hx as [|a x Ha Hx IH]; [reflexivity|].
  rewrite sum2_cons; simpl map; rewrite sum_cons, IH, H; auto.
Qed.

Lemma sum2_diag_zero_on (P : R -> Prop) f x :
  Forall P x -> (forall a, P a -> f a a = 0) -> sum2 f x x = 0.
Proof.
  intros Hx H; induction Hx as [|a x Ha Hx IH]; [reflexivity|].
  rewrite sum2_cons, IH, H; auto; lra.
Qed.

Lemma sum2_diag_zero f x : (forall a, f a a = 0) -> sum2 f x x = 0.
Proof.
  intros H. apply (sum2_diag_zero_on (fun _ => True)); auto using Forall_True.
Qed.

Lemma sum2_diag_id_on (P : R -> Prop) f x :
  Forall P x -> (forall a, P a -> f a a = a) -> sum2 f x x = sum x.
Proof.
  intros Hx H; induction Hx as [|a x Ha Hx IH]; [reflexivity|].
  rewrite sum2_cons, sum_cons, IH, H; auto.
Qed.

(* linearity *)
Lemma sum2_plus f g x y :
  sum2 f x y + sum2 g x y = sum2 (fun a b => f a b + g a b) x y.
Proof.
  revert y; induction x as [|a x IH]; intros [|b y];
    rewrite ?sum2_nil_l, ?sum2_nil_r; try lra.
  rewrite !sum2_cons, <- IH; lra.
Qed.

Lemma sum2_scal c f x y :
  c * sum2 f x y = sum2 (fun a b => c * f a b) x y.
Proof.
  revert y; induction x as [|a x IH]; intros [|b y];
    rewrite ?sum2_nil_l, ?sum2_nil_r; try lra.
  rewrite !sum2_cons, <- IH; lra.
Qed.

Lemma sum2_fst x y : length x = length y -> sum2 (fun a _ => a) x y = sum x.
Proof.
  revert x y; apply list_ind2; [reflexivity|].
  intros a b x y _ IH. now rewrite sum2_cons, sum_cons, IH.
Qed.

Lemma sum2_snd x y : length x = length y -> sum2 (fun _ b => b) x y = sum y.
Proof.
  revert x y; apply list_ind2; [reflexivity|].
  intros a b x y _ IH. now rewrite sum2_cons, sum_cons, IH.
Qed.

Lemma sum2_minus_sums x y :
  length x = length y -> sum2 (fun a b => a - b) x y = sum x - sum y.
Proof.
  revert x y; apply list_ind2; [rewrite sum2_nil, sum_nil; lra|].
  intros a b x y _ IH. rewrite sum2_cons, !sum_cons, IH; lra.
Qed.

Lemma sum2_map f g h x y :
  sum2 h (map f x) (map g y) = sum2 (fun a b => h (f a) (g b)) x y.
Proof.
  revert y; induction x as [|a x IH]; intros [|b y]; try reflexivity.
  simpl map. now rewrite !sum2_cons, IH.
Qed.

(* ------------------------------------------------------------------ *)
(* dot, Cauchy-Schwarz                                                 *)
(* ------------------------------------------------------------------ *)
Lemma dot_comm x y : dot x y = dot y x.
Proof. apply sum2_sym; intros; ring. Qed.

Lemma dot_self_nonneg x : 0 <= dot x x.
Proof.
  induction x as [|a x IH]; unfold dot in *;
    [rewrite sum2_nil; lra | rewrite sum2_cons; nra].
Qed.

Lemma dot_self_pos x : (1 <= length x)%nat -> all_pos x -> 0 < dot x x.
Proof.
  intros H1 Hx. apply (sum2_pos_on (fun a => 0 < a) (fun a => 0 < a)); auto.
  intros; nra.
Qed.

Lemma dot_nonneg x y : all_nonneg x -> all_nonneg y -> 0 <= dot x y.
Proof.
  intros Hx Hy. apply (sum2_nonneg_on _ _ _ _ _ Hx Hy). intros; nra.
Qed.

Lemma dot_pos x y :
  length x = length y -> (1 <= length x)%nat -> all_pos x -> all_pos y -> 0 < dot x y.
Proof.
  intros Hl H1 Hx Hy. apply (sum2_pos_on _ _ _ _ _ Hl H1 Hx Hy). intros; nra.
Qed.

(* Σ (a t + b)² = t² Σa² + 2t Σab + Σb² *)
Lemma quad_expand t x y :
  length x = length y ->
  sum2 (fun a b => (a * t + b) ^ 2) x y
  = t * t * dot x x + 2 * t * dot x y + dot y y.
Proof.
  revert x y; apply list_ind2; unfold dot.
  - rewrite !sum2_nil; ring.
  - intros a b x y _ IH. rewrite !sum2_cons, IH. ring.
Qed.

Lemma cauchy_schwarz x y :
  length x = length y -> (dot x y) ^ 2 <= dot x x * dot y y.
Proof.
  intros Hl.
  assert (Hq : forall t, 0 <= t * t * dot x x + 2 * t * dot x y + dot y y).
  { intros t. rewrite <- (quad_expand t x y Hl).
    apply sum2_nonneg. intros a b. apply pow2_ge_0. }
  pose proof (dot_self_nonneg x) as HX.
  pose proof (dot_self_nonneg y) as HY.
  set (X := dot x x) in *. set (Y := dot y y) in *. set (D := dot x y) in *.
  destruct (Req_dec X 0) as [HX0|HX0].
  - (* X = 0 : then D = 0 *)
    destruct (Req_dec D 0) as [HD|HD]; [rewrite HD, HX0; lra|].
    exfalso. specialize (Hq (- (Y + 1) / (2 * D))).
    rewrite HX0 in Hq.
    replace (2 * (- (Y + 1) / (2 * D)) * D) with (- (Y + 1)) in Hq by (field; auto).
    lra.
  - assert (HXp : 0 < X) by lra.
    specialize (Hq (- D / X)).
    assert (E : - D / X * (- D / X) * X + 2 * (- D / X) * D + Y = (X * Y - D ^ 2) / X)
      by (field; auto).
    rewrite E in Hq.
    apply (Rmult_le_compat_r X) in Hq; [|lra].
    unfold Rdiv in Hq. rewrite Rmult_assoc, Rinv_l in Hq; lra.
Qed.

(* |Σab| <= sqrt(Σa²) sqrt(Σb²) *)
Lemma cauchy_schwarz_sqrt x y :
  length x = length y -> dot x y <= sqrt (dot x x) * sqrt (dot y y).
Proof.
  intros Hl. pose proof (cauchy_schwarz x y Hl) as H.
  rewrite <- sqrt_mult by apply dot_self_nonneg.
  apply Rle_trans with (Rabs (dot x y)); [apply Rle_abs|].
  rewrite <- sqrt_Rsqr_abs. apply sqrt_le_1_alt. unfold Rsqr. lra.
Qed.

(* Σ(a-b)² = Σa² + Σb² - 2Σab *)
Lemma sqeuclid_expand x y :
  length x = length y ->
  sum2 (fun a b => (a - b) ^ 2) x y = dot x x + dot y y - 2 * dot x y.
Proof.
  revert x y; apply list_ind2; unfold dot.
  - rewrite !sum2_nil; ring.
  - intros a b x y _ IH. rewrite !sum2_cons, IH. ring.
Qed.

(* ------------------------------------------------------------------ *)
(* lmax                                                                *)
(* ------------------------------------------------------------------ *)
Lemma fold_left_Rmax_ge l a : a <= fold_left Rmax l a.
Proof.
  revert a; induction l as [|b l IH]; intros a; simpl; [lra|].
  eapply Rle_trans; [apply (Rmax_l a b) | apply IH].
Qed.

Lemma lmax_nonneg l : Forall (fun a => 0 <= a) l -> 0 <= lmax l.
Proof.
  intros [|a t Ha _]; simpl; [lra|].
  eapply Rle_trans; [exact Ha | apply fold_left_Rmax_ge].
Qed.

Lemma fold_left_Rmax_zeros l : Forall (fun a => a = 0) l -> fold_left Rmax l 0 = 0.
Proof.
  induction 1 as [|a l Ha Hl IH]; simpl; auto.
  subst a. rewrite Rmax_left by lra. exact IH.
Qed.

Lemma lmax_zeros l : Forall (fun a => a = 0) l -> lmax l = 0.
Proof.
  intros [|a t Ha Ht]; simpl; auto. subst a. now apply fold_left_Rmax_zeros.
Qed.

(* ------------------------------------------------------------------ *)
(* scalar facts                                                        *)
(* ------------------------------------------------------------------ *)
Lemma div_nonneg a b : 0 <= a -> 0 < b -> 0 <= a / b.
Proof.
  intros Ha Hb. unfold Rdiv. apply Rmult_le_pos; auto.
  left; now apply Rinv_0_lt_compat.
Qed.

Lemma div_pos a b : 0 < a -> 0 < b -> 0 < a / b.
Proof.
  intros Ha Hb. unfold Rdiv. apply Rmult_lt_0_compat; auto.
  now apply Rinv_0_lt_compat.
Qed.

Lemma zero_div b : 0 / b = 0.
Proof. unfold Rdiv; ring. Qed.

Lemma div_le_1 a b : 0 < b -> a <= b -> a / b <= 1.
Proof.
  intros Hb Hab. apply (Rmult_le_reg_r b); auto.
  unfold Rdiv. rewrite Rmult_assoc, Rinv_l; lra.
Qed.

Lemma div_self a : a <> 0 -> a / a = 1.
Proof. intros; field; auto. Qed.

Lemma Rmin_pos a b : 0 < a -> 0 < b -> 0 < Rmin a b.
Proof. intros; unfold Rmin; destruct (Rle_dec a b); auto. Qed.

Lemma Rmax_pos a b : 0 < a -> 0 < b -> 0 < Rmax a b.
Proof. intros; unfold Rmax; destruct (Rle_dec a b); auto. Qed.

Lemma Rmin_diag a : Rmin a a = a.
Proof. unfold Rmin; destruct (Rle_dec a a); auto. Qed.

Lemma Rmax_diag a : Rmax a a = a.
Proof. unfold Rmax; destruct (Rle_dec a a); auto. Qed.

Lemma Rneqb_refl a : Rneqb a a = false.
Proof. unfold Rneqb; destruct (Req_EM_T a a); congruence. Qed.

Lemma Rneqb_sym a b : Rneqb a b = Rneqb b a.
Proof.
  unfold Rneqb; destruct (Req_EM_T a b), (Req_EM_T b a); congruence.
Qed.

(* ln t <= t - 1 *)
Lemma ln_le_sub1 t : 0 < t -> ln t <= t - 1.
Proof.
  intros Ht. pose proof (exp_ineq1_le (ln t)) as H.
  rewrite exp_ln in H; auto. lra.
Qed.

Lemma ln_nonneg t : 1 <= t -> 0 <= ln t.
Proof.
  intros [H|H]; [|subst; rewrite ln_1; lra].
  rewrite <- ln_1. left. apply ln_increasing; lra.
Qed.

Lemma ln_nonpos t : 0 < t -> t <= 1 -> ln t <= 0.
Proof. intros H0 H1. pose proof (ln_le_sub1 t H0). lra. Qed.

(* a - m <= a ln(a/m)   (the scalar core of Gibbs / log-sum inequalities) *)
Lemma gibbs_point a m : 0 < a -> 0 < m -> a - m <= a * ln (a / m).
Proof.
  intros Ha Hm.
  assert (Hq : 0 < m / a) by (apply div_pos; auto).
  pose proof (ln_le_sub1 (m / a) Hq) as H.
  replace (a / m) with (/ (m / a)) by (field; lra).
  rewrite ln_Rinv by auto.
  assert (E : a * (m / a - 1) = m - a) by (field; lra).
  nra.
Qed.

(* Coq's [ln] is 0 outside (0, +oo) *)
Lemma ln_nonpos_arg t : t <= 0 -> ln t = 0.
Proof. intros H. unfold ln. destruct (Rlt_dec 0 t); [exfalso; lra | reflexivity]. Qed.

Lemma ln_quot a b : 0 < a -> 0 < b -> ln (a / b) = ln a - ln b.
Proof.
  intros Ha Hb. unfold Rdiv.
  rewrite ln_mult, ln_Rinv; auto using Rinv_0_lt_compat; lra.
Qed.

Lemma all_pos_nonneg x : all_pos x -> all_nonneg x.
Proof. intros H. eapply Forall_impl; [|exact H]. simpl; intros; lra. Qed.
