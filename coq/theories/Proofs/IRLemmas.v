(* Lemmas shared by the closed-form proofs (C06) and usable by the metric-axiom proofs (C08):
   list algebra for [map2]/[sum], literals, the decorator's value semantics on the generated
   effect program, and the meaning of the sibling calls found in the generated bodies. *)
From Coq Require Import Reals QArith Qreals String List Lra Lia.
From OPF Require Import Model.Consts Model.Effects Spec.MetricSpec Gen.Consts_gen Model.MetricIR
     Gen.Metrics_gen Gen.Decorator_gen Model.MetricEval.
Import ListNotations.
Open Scope R_scope.

(* ---------- lists ---------- *)
Lemma map2_ext {A B C} (f g : A -> B -> C) x y :
  (forall a b, f a b = g a b) -> map2 f x y = map2 g x y.
Proof.
  intros E; revert y; induction x as [|a x IH]; intros [|b y]; cbn [map2]; auto.
  now rewrite E, IH.
Qed.

Lemma map2_length {A B C} (f : A -> B -> C) x y :
  length x = length y -> length (map2 f x y) = length x.
Proof.
  revert y; induction x as [|a x IH]; intros [|b y] H; cbn [map2 length] in *; try discriminate; try reflexivity.
  injection H as H; f_equal; auto.
Qed.

Lemma map2_fst {A B} (x : list A) (y : list B) :
  length x = length y -> map2 (fun a _ => a) x y = x.
Proof.
  revert y; induction x as [|a x IH]; intros [|b y] H; cbn [map2 length] in *; try discriminate; try reflexivity.
  injection H as H; f_equal; auto.
Qed.

Lemma map2_snd {A B} (x : list A) (y : list B) :
  length x = length y -> map2 (fun _ b => b) x y = y.
Proof.
  revert y; induction x as [|a x IH]; intros [|b y] H; cbn [map2 length] in *; try discriminate; try reflexivity.
  injection H as H; f_equal; auto.
Qed.

Lemma map2_swap {A B C} (f : A -> B -> C) x y :
  map2 (fun a b => f b a) x y = map2 f y x.
Proof.
  revert y; induction x as [|a x IH]; intros [|b y]; cbn [map2]; auto. now rewrite IH.
Qed.

Lemma map2_same {A C} (f : A -> A -> C) x : map2 f x x = map (fun a => f a a) x.
Proof. induction x as [|a x IH]; cbn [map2 map]; auto. now rewrite IH. Qed.

Lemma map2_left {A B C} (f : A -> C) (x : list A) (y : list B) :
  length x = length y -> map2 (fun a _ => f a) x y = map f x.
Proof.
  revert y; induction x as [|a x IH]; intros [|b y] H; cbn [map2 map length] in *; try discriminate; try reflexivity.
  injection H as H; f_equal; auto.
Qed.

Lemma map2_right {A B C} (f : B -> C) (x : list A) (y : list B) :
  length x = length y -> map2 (fun _ b => f b) x y = map f y.
Proof.
  revert y; induction x as [|a x IH]; intros [|b y] H; cbn [map2 map length] in *; try discriminate; try reflexivity.
  injection H as H; f_equal; auto.
Qed.

Lemma sum_cons a l : sum (a :: l) = a + sum l.
Proof. reflexivity. Qed.

Lemma sum_map2_ext (f g : R -> R -> R) x y :
  (forall a b, f a b = g a b) -> sum (map2 f x y) = sum (map2 g x y).
Proof. intros E; now rewrite (map2_ext f g x y E). Qed.

Lemma sum_map2_scal c (f : R -> R -> R) x y :
  sum (map2 (fun a b => c * f a b) x y) = c * sum (map2 f x y).
Proof.
  revert y; induction x as [|a x IH]; intros [|b y]; cbn [map2]; try (unfold sum; cbn; ring).
  rewrite !sum_cons, IH; ring.
Qed.

Lemma sum_map2_plus (f g : R -> R -> R) x y :
  sum (map2 (fun a b => f a b + g a b) x y) = sum (map2 f x y) + sum (map2 g x y).
Proof.
  revert y; induction x as [|a x IH]; intros [|b y]; cbn [map2]; try (unfold sum; cbn; ring).
  rewrite !sum_cons, IH; ring.
Qed.

Lemma sum_map2_swap (f : R -> R -> R) x y :
  sum (map2 (fun a b => f b a) x y) = sum (map2 f y x).
Proof. now rewrite map2_swap. Qed.

(* Σ x_i² written with the unused second argument, as the pointwise evaluator produces it *)
Lemma sum_sq_l (x y : list R) :
  length x = length y -> sum (map2 (fun a _ => a ^ 2) x y) = dot x x.
Proof.
  intros H. rewrite (map2_left (fun a => a ^ 2) x y H). unfold dot, sum2. rewrite map2_same.
  f_equal. apply map_ext. intros a; ring.
Qed.

Lemma sum_sq_r (x y : list R) :
  length x = length y -> sum (map2 (fun _ b => b ^ 2) x y) = dot y y.
Proof.
  intros H. rewrite (map2_right (fun b => b ^ 2) x y H). unfold dot, sum2. rewrite map2_same.
  f_equal. apply map_ext. intros a; ring.
Qed.

Lemma shift_length x : length (shift x) = length x.
Proof. apply map_length. Qed.

(* ---------- literals and constants ---------- *)
Lemma Q2R_Z n : Q2R (Qmake n 1) = IZR n.
Proof. unfold Q2R; cbn [Qnum Qden]. rewrite Rinv_1, Rmult_1_r. reflexivity. Qed.

Lemma Q2R_half : Q2R (Qmake 1 2) = / 2.
Proof. unfold Q2R; cbn [Qnum Qden]. now rewrite Rmult_1_l. Qed.

(* the generated value of c.EPSILON is the 10^-20 of the specification *)
Lemma cval_eps : cvalR CEpsilon = EPSILON.
Proof.
  unfold cvalR, cvalQ, c_EPSILON, EPSILON, Q2R; cbn [Qnum Qden]. rewrite Rmult_1_l. f_equal. lra.
Qed.

Lemma cval_maw : cvalR CMaxArcWeight = MAX_ARC_WEIGHT.
Proof. unfold cvalR, cvalQ, c_MAX_ARC_WEIGHT, MAX_ARC_WEIGHT. apply Q2R_Z. Qed.

(* ---------- the decorator ---------- *)
(* the generated wrapper hands (x + EPSILON, y + EPSILON) to the wrapped function *)
Lemma dec_ok x y : dec_apply decorator_params decorator_body [x; y] = Some [shift x; shift y].
Proof. cbn. unfold add_const, shift. rewrite cval_eps. reflexivity. Qed.

(* ---------- sibling calls ---------- *)
Lemma lookup_sqe : lookup_ir "squared_euclidean_distance" all_metrics_ir = Some ir_squared_euclidean.
Proof. vm_compute. reflexivity. Qed.

Lemma lookup_euclid : lookup_ir "euclidean_distance" all_metrics_ir = Some ir_euclidean.
Proof. vm_compute. reflexivity. Qed.

Lemma call_sqe x y :
  call_fuel all_metrics_ir decorator_params decorator_body call_depth "squared_euclidean_distance" x y
  = sp_squared_euclidean x y.
Proof.
  unfold call_depth; cbn [call_fuel]. rewrite lookup_sqe. unfold wrap, eval_body, ir_squared_euclidean.
  cbn [m_avoid_zero m_body evalS evalV binR unR powR]. reflexivity.
Qed.

Lemma call_euclid x y :
  call_fuel all_metrics_ir decorator_params decorator_body call_depth "euclidean_distance" x y
  = sp_euclidean x y.
Proof.
  unfold call_depth; cbn [call_fuel]. rewrite lookup_euclid. unfold wrap, eval_body, ir_euclidean.
  cbn [m_avoid_zero m_body evalS evalV binR unR powR]. reflexivity.
Qed.

(* ---------- the common opening of every closed-form proof ---------- *)
(* [cf_open m] : unfold the wrapped evaluation of the generated term [m] down to sums over map2;
   afterwards the arguments are called X, Y with HXY : length X = length Y. *)
Ltac cf_norm :=
  rewrite ?Q2R_Z, ?Q2R_half, ?cval_eps, ?cval_maw.

Ltac cf_eval :=
  unfold eval_body;
  cbn [m_avoid_zero m_body m_params evalS evalV binR unR powR cmpR];
  cf_norm.

Ltac cf_args HXY :=
  rewrite ?(map2_fst _ _ HXY), ?(map2_snd _ _ HXY), ?call_sqe, ?call_euclid.

Ltac pointwise :=
  apply sum_map2_ext; intros; try reflexivity; unfold Rdiv; try ring.
