(* C05 for an arbitrary strict total order, and for strict weak orders.

   The heap theorems of HeapInv.v / HeapHist.v are proved at W := Z (so that [lia] applies).  Here
   the invariant, the abstract priority queue and the validity of operations are re-stated for any
   cost type [W] with a comparison [ltb] ([InvW], [pqW], [pq_stepW], [valid_opW] ...: the text of
   the Z definitions with [Z.ltb] replaced by [ltb]), and the one-step theorem [step_spec] is
   transported:

     1. all costs in sight - the sentinel [top], the cost array of the heap, the cost carried by
        the operation - form a finite list [vals]; the rank map [r := rk ltb vals]
        (OrderEmbed.v) preserves and reflects [ltb] on [vals] and is injective there;
     2. by the abstraction theorem (ParamHeap.rescale_step_on) the step on (Z, Z.ltb) from the
        ranked heap returns the same output and the ranked successor heap;
     3. [InvW] / [valid_opW] hold of a heap over [W] iff [Inv] / [valid_op] hold of the ranked
        heap ([InvW_map], [valid_op_map]); a step of the abstract queue over Z between ranked
        states is a step of the abstract queue over [W] ([pq_step_back]).  "The cost table is
        unchanged / updated at p" cannot be pulled back from the ranks unless the rank map is
        injective (Leibniz antisymmetry); it is instead read off the model directly
        ([step_hcost]: the sift loops never write the cost array).  With that, nothing but
        "the two comparisons agree on the values that occur" is needed, so the whole transfer
        works for a STRICT WEAK order on a set [P] of admissible costs (Proofs/WeakOrder.v):
        binary64 numbers other than NaN under [PrimFloat.ltb], -0 and +0 left distinct.

   The history-level statements then follow from the one-step theorem by induction on the
   history, exactly as in HeapHist.v (those derivations never look at the order).  The
   strict-total-order versions are the instances P := everything. *)
From Coq Require Import List Arith Bool ZArith Lia Permutation.
From OPF Require Import Base.Lists Base.TotalOrder Model.Heap.
From OPF Require Import Proofs.HeapBase Proofs.HeapInv Proofs.HeapHist Proofs.OrderEmbed
  Proofs.ParamBase Proofs.ParamHeap Proofs.WeakOrder.
Import ListNotations.
Close Scope Z_scope.

(* ------------------------------------------------------------------------------------ *)
(* the statements, for any cost type                                                     *)

Section Defs.
  Context {W : Type}.
  Variable ltb : W -> W -> bool.

  Record InvW (h : heap W) : Prop := mkInvW {
    invw_lcost : length (hcost h) = hsize h;
    invw_lcolor : length (hcolor h) = hsize h;
    invw_lp : length (hp h) = hsize h;
    invw_lpos : length (hpos h) = hsize h;
    invw_n : hn h <= hsize h;
    invw_range : forall q, In q (queued h) -> q < hsize h;
    invw_nodup : NoDup (queued h);
    invw_pos : forall i, i < hn h -> nth (nth i (hp h) 0) (hpos h) None = Some i;
    invw_color : forall q, q < hsize h ->
        (nth q (hcolor h) White = Gray <-> In q (queued h));
    invw_stale : forall q, q < hsize h -> ~ In q (queued h) ->
        nth q (hpos h) None = None \/ nth q (hpos h) None = Some 0;
    invw_order : forall d i, 0 < i < hn h ->
        better ltb (hpol h) (pcost d h i) (pcost d h (dad i)) = false }.

  Record pqW := mkPQW { pqw_elems : list nat; pqw_cost : list W; pqw_color : list color }.

  Definition absW (h : heap W) : pqW := mkPQW (queued h) (hcost h) (hcolor h).

  Variable top : W.

  Definition extremalW (pol : policy) (a : pqW) (p : nat) : Prop :=
    In p (pqw_elems a) /\
    forall q, In q (pqw_elems a) ->
      better ltb pol (nth q (pqw_cost a) top) (nth p (pqw_cost a) top) = false.

  Inductive pq_stepW (size : nat) (pol : policy) : pqW -> @op W -> out -> pqW -> Prop :=
  | PQW_ins_ok a p e' :
      length (pqw_elems a) < size -> Permutation e' (p :: pqw_elems a) ->
      pq_stepW size pol a (OIns p) (RBool true)
               (mkPQW e' (pqw_cost a) (upd (pqw_color a) p Gray))
  | PQW_ins_full a p :
      length (pqw_elems a) = size -> pq_stepW size pol a (OIns p) (RBool false) a
  | PQW_rem_ok a p e' :
      extremalW pol a p -> Permutation (pqw_elems a) (p :: e') ->
      pq_stepW size pol a ORem (RElem p) (mkPQW e' (pqw_cost a) (upd (pqw_color a) p Black))
  | PQW_rem_empty a :
      pqw_elems a = [] -> pq_stepW size pol a ORem RFalse a
  | PQW_upd_queued a p c e' :
      In p (pqw_elems a) -> Permutation e' (pqw_elems a) ->
      pq_stepW size pol a (OUpd p c) RUnit (mkPQW e' (upd (pqw_cost a) p c) (pqw_color a))
  | PQW_upd_new a p c e' :
      nth p (pqw_color a) White = White -> length (pqw_elems a) < size ->
      Permutation e' (p :: pqw_elems a) ->
      pq_stepW size pol a (OUpd p c) RUnit
               (mkPQW e' (upd (pqw_cost a) p c) (upd (pqw_color a) p Gray))
  | PQW_upd_only a p c :
      nth p (pqw_color a) White = Black \/
      (nth p (pqw_color a) White = White /\ length (pqw_elems a) = size) ->
      pq_stepW size pol a (OUpd p c) RUnit (mkPQW (pqw_elems a) (upd (pqw_cost a) p c) (pqw_color a))
  | PQW_is_empty a :
      pq_stepW size pol a OIsEmpty
               (RBool match pqw_elems a with [] => true | _ :: _ => false end) a
  | PQW_is_full a :
      pq_stepW size pol a OIsFull (RBool (Nat.eqb (length (pqw_elems a)) size)) a.

  Inductive pq_runW (size : nat) (pol : policy) : pqW -> list (@op W) -> list out -> pqW -> Prop :=
  | pq_runW_nil a : pq_runW size pol a [] [] a
  | pq_runW_cons a o r a1 os rs a2 :
      pq_stepW size pol a o r a1 -> pq_runW size pol a1 os rs a2 ->
      pq_runW size pol a (o :: os) (r :: rs) a2.

  Definition costW (h : heap W) (q : nat) : W := nth q (hcost h) top.

  Definition valid_opW (h : heap W) (o : @op W) : Prop :=
    match o with
    | OIns p => p < hsize h /\ ~ In p (queued h)
    | OUpd p c => p < hsize h /\
                  (In p (queued h) -> better ltb (hpol h) (costW h p) c = false)
    | ORem | OIsEmpty | OIsFull => True
    end.

  Fixpoint valid_histW (h : heap W) (ops : list (@op W)) : Prop :=
    match ops with
    | [] => True
    | o :: os => valid_opW h o /\ valid_histW (fst (step ltb top h o)) os
    end.

  Definition ins_ofW (h : heap W) (o : @op W) (r : out) : list nat :=
    match o, r with
    | OIns p, RBool true => [p]
    | OUpd p _, _ =>
        if color_eqb (nth p (hcolor h) White) White && negb (is_full h) then [p] else []
    | _, _ => []
    end.

  Fixpoint insertedW (h : heap W) (ops : list (@op W)) : list nat :=
    match ops with
    | [] => []
    | o :: os => let '(h1, r) := step ltb top h o in ins_ofW h o r ++ insertedW h1 os
    end.

  (* boolean validity checker (for concrete examples) *)
  Definition queuedbW (h : heap W) (p : nat) : bool := existsb (Nat.eqb p) (queued h).

  Definition valid_opbW (h : heap W) (o : @op W) : bool :=
    match o with
    | OIns p => Nat.ltb p (hsize h) && negb (queuedbW h p)
    | OUpd p c => Nat.ltb p (hsize h) &&
                  (negb (queuedbW h p) || negb (better ltb (hpol h) (costW h p) c))
    | ORem | OIsEmpty | OIsFull => true
    end.

  Fixpoint valid_histbW (h : heap W) (ops : list (@op W)) : bool :=
    match ops with
    | [] => true
    | o :: os => valid_opbW h o && valid_histbW (fst (step ltb top h o)) os
    end.

  Lemma queuedbW_spec h p : queuedbW h p = true <-> In p (queued h).
  Proof.
    unfold queuedbW. rewrite existsb_exists. split.
    - intros [x [Hin He]]. apply Nat.eqb_eq in He. subst; exact Hin.
    - intros Hin. exists p. split; [exact Hin|apply Nat.eqb_refl].
  Qed.

  Lemma valid_opbW_sound h o : valid_opbW h o = true -> valid_opW h o.
  Proof.
    destruct o as [p|p c| | |]; cbn [valid_opbW valid_opW]; auto.
    - intros H. apply andb_true_iff in H. destruct H as [H1 H2].
      apply Nat.ltb_lt in H1. split; [exact H1|].
      intros Hin. apply queuedbW_spec in Hin. rewrite Hin in H2. discriminate.
    - intros H. apply andb_true_iff in H. destruct H as [H1 H2].
      apply Nat.ltb_lt in H1. split; [exact H1|].
      intros Hin. apply queuedbW_spec in Hin. rewrite Hin in H2. cbn [negb orb] in H2.
      apply negb_true_iff in H2. exact H2.
  Qed.

  Lemma valid_histbW_sound ops : forall h, valid_histbW h ops = true -> valid_histW h ops.
  Proof.
    induction ops as [|o os IH]; intros h H; cbn [valid_histbW valid_histW] in *; [exact I|].
    apply andb_true_iff in H. destruct H as [H1 H2].
    split; [apply valid_opbW_sound; exact H1|apply IH; exact H2].
  Qed.
End Defs.

Arguments pqW W : clear implicits.

(* ------------------------------------------------------------------------------------ *)
(* at W := Z the generic statements are the ones of HeapInv.v / HeapHist.v                *)

Lemma InvW_Z h : InvW Z.ltb h <-> Inv h.
Proof. split; intros []; constructor; assumption. Qed.

Definition pq_of_pqW (a : pqW Z) : pq := mkPQ (pqw_elems a) (pqw_cost a) (pqw_color a).
Definition pqW_of_pq (a : pq) : pqW Z := mkPQW (pq_elems a) (pq_cost a) (pq_color a).

Lemma pqW_of_pq_of a : pqW_of_pq (pq_of_pqW a) = a.
Proof. destruct a; reflexivity. Qed.
Lemma pq_of_pqW_of a : pq_of_pqW (pqW_of_pq a) = a.
Proof. destruct a; reflexivity. Qed.

Lemma pq_stepW_Z top size pol a o r a' :
  pq_stepW Z.ltb top size pol a o r a' <-> pq_step top size pol (pq_of_pqW a) o r (pq_of_pqW a').
Proof.
  split.
  - intros H. destruct H; unfold pq_of_pqW; cbn [pqw_elems pqw_cost pqw_color].
    + now apply (PQ_ins_ok top size pol (pq_of_pqW a)).
    + now apply (PQ_ins_full top size pol (pq_of_pqW a)).
    + now apply (PQ_rem_ok top size pol (pq_of_pqW a)).
    + now apply (PQ_rem_empty top size pol (pq_of_pqW a)).
    + now apply (PQ_upd_queued top size pol (pq_of_pqW a)).
    + now apply (PQ_upd_new top size pol (pq_of_pqW a)).
    + now apply (PQ_upd_only top size pol (pq_of_pqW a)).
    + apply (PQ_is_empty top size pol (pq_of_pqW a)).
    + apply (PQ_is_full top size pol (pq_of_pqW a)).
  - intros H. rewrite <- (pqW_of_pq_of a), <- (pqW_of_pq_of a').
    generalize dependent (pq_of_pqW a'). generalize dependent (pq_of_pqW a). clear a a'.
    intros a a' H. destruct H; unfold pqW_of_pq; cbn [pq_elems pq_cost pq_color].
    + now apply (PQW_ins_ok Z.ltb top size pol (pqW_of_pq a)).
    + now apply (PQW_ins_full Z.ltb top size pol (pqW_of_pq a)).
    + now apply (PQW_rem_ok Z.ltb top size pol (pqW_of_pq a)).
    + now apply (PQW_rem_empty Z.ltb top size pol (pqW_of_pq a)).
    + now apply (PQW_upd_queued Z.ltb top size pol (pqW_of_pq a)).
    + now apply (PQW_upd_new Z.ltb top size pol (pqW_of_pq a)).
    + now apply (PQW_upd_only Z.ltb top size pol (pqW_of_pq a)).
    + apply (PQW_is_empty Z.ltb top size pol (pqW_of_pq a)).
    + apply (PQW_is_full Z.ltb top size pol (pqW_of_pq a)).
Qed.

Lemma valid_opW_Z top h o : valid_opW Z.ltb top h o <-> valid_op top h o.
Proof. destruct o; reflexivity. Qed.

Lemma ins_ofW_Z (h : heap Z) o r : ins_ofW h o r = ins_of h o r.
Proof. reflexivity. Qed.

(* ------------------------------------------------------------------------------------ *)
(* pulling the statements back along the rank map                                        *)

Definition map_pq {W} (f : W -> Z) (a : pqW W) : pq :=
  mkPQ (pqw_elems a) (map f (pqw_cost a)) (pqw_color a).

Lemma map_op_inv {W} (f : W -> Z) (o : @op W) :
  match map_op f o with
  | OIns p => o = OIns p
  | OUpd p cz => exists c, o = OUpd p c /\ cz = f c
  | ORem => o = ORem
  | OIsEmpty => o = OIsEmpty
  | OIsFull => o = OIsFull
  end.
Proof. destruct o as [p|p c| | |]; cbn [map_op]; try reflexivity. now exists c. Qed.

(* ---------- the sift loops never write the cost array ---------- *)

Section Frame.
  Context {W : Type} (ltb : W -> W -> bool) (top : W).

  Lemma go_up_hcost fuel : forall (h : heap W) i, hcost (go_up ltb top fuel h i) = hcost h.
  Proof.
    induction fuel as [|f IH]; intros h i; cbn [go_up]; [reflexivity|].
    destruct (Nat.ltb 0 i && better ltb (hpol h) (pcost top h i) (pcost top h (dad i)));
      [|reflexivity].
    now rewrite IH.
  Qed.

  Lemma go_down_hcost fuel : forall (h : heap W) i, hcost (go_down ltb top fuel h i) = hcost h.
  Proof.
    induction fuel as [|f IH]; intros h i; cbn [go_down]; [reflexivity|].
    cbv zeta. match goal with |- hcost (if ?b then _ else _) = _ => destruct b end; [reflexivity|].
    now rewrite IH.
  Qed.

  Lemma insert_hcost (h : heap W) p : hcost (fst (insert ltb top h p)) = hcost h.
  Proof. unfold insert. destruct (is_full h); cbn [fst]; [reflexivity|]. now rewrite go_up_hcost. Qed.

  Lemma step_hcost (h : heap W) (o : @op W) :
    hcost (fst (step ltb top h o)) =
    match o with OUpd p c => upd (hcost h) p c | _ => hcost h end.
  Proof.
    destruct o as [p|p c| | |]; cbn [step]; try reflexivity.
    - pose proof (insert_hcost h p) as H. destruct (insert ltb top h p) as [h' b]. exact H.
    - cbn [fst]. unfold update. destruct (nth p (hcolor (set_cost h p c)) White).
      + now rewrite insert_hcost.
      + destruct (nth p (hpos (set_cost h p c)) None); [now rewrite go_up_hcost | reflexivity].
      + destruct (nth p (hpos (set_cost h p c)) None); [now rewrite go_up_hcost | reflexivity].
    - unfold remove. destruct (is_empty h); cbn [fst]; [reflexivity|]. now rewrite go_down_hcost.
  Qed.
End Frame.

Section Transfer.
  Context {W : Type} (P : W -> Prop) (ltb : W -> W -> bool).
  Hypothesis O : strict_weak_order_on P ltb.
  Variable vals : list W.
  Hypothesis Hvals : Forall P vals.
  Variable top : W.
  Hypothesis Htop : In top vals.

  Local Notation inV := (fun a : W => In a vals).
  Local Notation r := (rk ltb vals).

  Lemma rk_ltb_v a b : inV a -> inV b -> Z.ltb (r a) (r b) = ltb a b.
  Proof. exact (rk_ltb_w P ltb O vals Hvals a b). Qed.

  Lemma better_map pol x y : inV x -> inV y -> better Z.ltb pol (r x) (r y) = better ltb pol x y.
  Proof. intros Hx Hy. destruct pol; cbn [better]; now apply rk_ltb_v. Qed.

  Lemma map_upd l p c : map r (upd l p c) = upd (map r l) p (r c).
  Proof.
    revert p. induction l as [|a l IH]; intros p; cbn [upd map]; [reflexivity|].
    destruct p as [|p]; cbn [map]; [reflexivity | now rewrite IH].
  Qed.

  (* a cost lookup that is in range commutes with the rank map, whatever the defaults *)
  Lemma pcost_map d dz (h : heap W) i :
    nth i (hp h) 0 < length (hcost h) -> pcost dz (map_heap r h) i = r (pcost d h i).
  Proof.
    intros Hi. unfold pcost, map_heap. cbn [hp hcost].
    rewrite (nth_indep _ dz (r d)) by (now rewrite map_length). apply map_nth.
  Qed.

  Lemma pcost_in d (h : heap W) i : Forall inV (hcost h) -> inV d -> inV (pcost d h i).
  Proof. intros Hh Hd. unfold pcost. now apply (Forall_in_nth vals). Qed.

  Lemma pcost_indepW d d' (h : heap W) i :
    nth i (hp h) 0 < length (hcost h) -> pcost d h i = pcost d' h i.
  Proof. intros Hi. unfold pcost. now apply nth_indep. Qed.

  (* structural facts shared by both invariants: a queued position holds an index below the size *)
  Lemma queued_range (h : heap W) i :
    length (hcost h) = hsize h -> length (hp h) = hsize h -> hn h <= hsize h ->
    (forall q, In q (queued h) -> q < hsize h) ->
    i < hn h -> nth i (hp h) 0 < length (hcost h).
  Proof.
    intros L1 L2 Hn Hr Hi. rewrite L1. apply Hr. unfold queued.
    apply In_firstn_nth; [lia|]. now exists i.
  Qed.

  Theorem InvW_map (h : heap W) : Forall inV (hcost h) -> (InvW ltb h <-> Inv (map_heap r h)).
  Proof.
    intros Hh. split.
    - intros [A1 A2 A3 A4 A5 A6 A7 A8 A9 A10 A11].
      constructor; unfold map_heap; cbn [hsize hpol hcost hcolor hp hpos hn]; try assumption.
      + now rewrite map_length.
      + intros dz i Hi.
        assert (Ri : nth i (hp h) 0 < length (hcost h)) by (apply queued_range; auto; lia).
        assert (Rd : nth (dad i) (hp h) 0 < length (hcost h)).
        { apply queued_range; auto. pose proof (dad_lt i ltac:(lia)). lia. }
        change (better Z.ltb (hpol h) (pcost dz (map_heap r h) i) (pcost dz (map_heap r h) (dad i)) = false).
        rewrite (pcost_map top dz h i Ri), (pcost_map top dz h (dad i) Rd).
        rewrite better_map by (now apply pcost_in). apply A11. exact Hi.
    - intros [A1 A2 A3 A4 A5 A6 A7 A8 A9 A10 A11].
      unfold map_heap in A1, A2, A3, A4, A5, A6, A7, A8, A9, A10.
      cbn [hsize hpol hcost hcolor hp hpos hn] in A1, A2, A3, A4, A5, A6, A7, A8, A9, A10.
      rewrite map_length in A1.
      constructor; try assumption.
      intros d i Hi.
      assert (Ri : nth i (hp h) 0 < length (hcost h)) by (apply queued_range; auto; lia).
      assert (Rd : nth (dad i) (hp h) 0 < length (hcost h)).
      { apply queued_range; auto. pose proof (dad_lt i ltac:(lia)). lia. }
      rewrite (pcost_indepW d top h i Ri), (pcost_indepW d top h (dad i) Rd).
      rewrite <- better_map by (now apply pcost_in).
      rewrite <- (pcost_map top (r top) h i Ri), <- (pcost_map top (r top) h (dad i) Rd).
      apply (A11 (r top) i). exact Hi.
  Qed.

  Theorem valid_op_map (h : heap W) (o : @op W) :
    Forall inV (hcost h) -> Forall inV (op_costs o) ->
    (valid_opW ltb top h o <-> valid_op (r top) (map_heap r h) (map_op r o)).
  Proof.
    intros Hh Ho. destruct o as [p|p c| | |]; cbn [valid_opW valid_op map_op]; try reflexivity.
    assert (Hc : inV c) by exact (Forall_inv Ho).
    assert (E : cost (r top) (map_heap r h) p = r (costW top h p)).
    { unfold cost, costW, map_heap. cbn [hcost]. apply map_nth. }
    change (hsize (map_heap r h)) with (hsize h). change (queued (map_heap r h)) with (queued h).
    change (hpol (map_heap r h)) with (hpol h).
    rewrite E, better_map; [reflexivity | | exact Hc].
    unfold costW. now apply (Forall_in_nth vals).
  Qed.

  Lemma extremal_back pol (a : pqW W) p :
    Forall inV (pqw_cost a) -> extremal (r top) pol (map_pq r a) p -> extremalW ltb top pol a p.
  Proof.
    intros Ha [H1 H2]. split; [exact H1|]. intros q Hq. specialize (H2 q Hq).
    unfold map_pq in H2. cbn [pq_cost] in H2. rewrite !map_nth in H2.
    rewrite better_map in H2 by (now apply (Forall_in_nth vals)). exact H2.
  Qed.

  (* a step of the abstract queue over Z between ranked states is a step over W, provided the
     cost table of the successor is the one the operation prescribes (read off the model) *)
  Theorem pq_step_back size pol (a a' : pqW W) (o : @op W) (res : out) :
    Forall inV (pqw_cost a) ->
    pqw_cost a' = match o with OUpd p c => upd (pqw_cost a) p c | _ => pqw_cost a end ->
    pq_step (r top) size pol (map_pq r a) (map_op r o) res (map_pq r a') ->
    pq_stepW ltb top size pol a o res a'.
  Proof.
    intros Ha Hc H.
    destruct a as [e1 c1 col1], a' as [e2 c2 col2]. unfold map_pq in H.
    cbn [pqw_elems pqw_cost pqw_color] in *.
    pose proof (map_op_inv r o) as Hinv.
    inversion H as [az p e' L Pm Ea Eo Er Ea'
                   |az p L Ea Eo Er Ea'
                   |az p e' X Pm Ea Eo Er Ea'
                   |az L Ea Eo Er Ea'
                   |az p cz e' I Pm Ea Eo Er Ea'
                   |az p cz e' Cw L Pm Ea Eo Er Ea'
                   |az p cz D Ea Eo Er Ea'
                   |az Ea Eo Er Ea'
                   |az Ea Eo Er Ea'];
      subst az; rewrite <- Eo in Hinv; cbn [pq_elems pq_cost pq_color] in *; clear H Eo;
      try (destruct Hinv as (c & -> & _));
      try subst o;
      repeat match goal with
             | E : map r _ = map r _ |- _ => clear E
             | E : upd (map r _) _ _ = map r _ |- _ => clear E
             end;
      repeat match goal with
             | E : ?x = ?y |- _ => is_var y; match type of y with list _ => subst y end
             | E : ?x = ?y |- _ => is_var x; match type of x with list _ => subst x end
             end.
    - now apply PQW_ins_ok.
    - now apply PQW_ins_full.
    - apply PQW_rem_ok; [|assumption]. now apply extremal_back.
    - now apply PQW_rem_empty.
    - now apply PQW_upd_queued.
    - now apply PQW_upd_new.
    - now apply PQW_upd_only.
    - apply PQW_is_empty.
    - apply PQW_is_full.
  Qed.
End Transfer.

(* ------------------------------------------------------------------------------------ *)
(* the lifted theorems, for a strict weak order on the admissible costs [P]               *)

Lemma map_repeat_Z {A B} (f : A -> B) a n : map f (repeat a n) = repeat (f a) n.
Proof. induction n as [|n IH]; cbn [repeat map]; [reflexivity | now rewrite IH]. Qed.

(* every cost carried by an operation of the history is admissible *)
Definition ops_in {W} (P : W -> Prop) (ops : list (@op W)) : Prop :=
  Forall (fun o => Forall P (op_costs o)) ops.

Lemma Forall_upd_P {W} (P : W -> Prop) l p c : Forall P l -> P c -> Forall P (upd l p c).
Proof.
  intros Hl Hc. revert p. induction Hl as [|a l Ha Hl' IH]; intros p; cbn [upd]; [constructor|].
  destruct p as [|p]; constructor; auto.
Qed.

Section LiftedWeak.
  Context {W : Type} (P : W -> Prop) (ltb : W -> W -> bool).
  Hypothesis O : strict_weak_order_on P ltb.
  Variable top : W.
  Hypothesis Ptop : P top.

  Notation stepW := (step ltb top).
  Notation runW := (run ltb top).

  (* admissible costs stay admissible *)
  Lemma step_costs_in h o :
    Forall P (hcost h) -> Forall P (op_costs o) -> Forall P (hcost (fst (stepW h o))).
  Proof.
    intros Hh Ho. rewrite step_hcost. destruct o as [p|p c| | |]; try exact Hh.
    apply Forall_upd_P; [exact Hh | exact (Forall_inv Ho)].
  Qed.

  Lemma run_costs_in ops : forall h,
    Forall P (hcost h) -> ops_in P ops -> Forall P (hcost (fst (runW h ops))).
  Proof.
    induction ops as [|o os IH]; intros h Hh Hops; cbn [run]; [exact Hh|].
    pose proof (step_costs_in h o Hh (Forall_inv Hops)) as H1.
    destruct (stepW h o) as [h1 r1]. cbn [fst] in H1.
    specialize (IH h1 H1 (Forall_inv_tail Hops)). destruct (runW h1 os) as [h2 rs]. exact IH.
  Qed.

  Lemma init_costs_in size pol : Forall P (hcost (h_init top size pol)).
  Proof.
    unfold h_init. cbn [hcost]. apply Forall_forall. intros x Hx. apply repeat_spec in Hx. now subst.
  Qed.

  Theorem inv_init_Ww size pol : InvW ltb (h_init top size pol).
  Proof.
    assert (Ht : In top [top]) by now left.
    assert (Hv : Forall P [top]) by (constructor; [exact Ptop | constructor]).
    apply (InvW_map P ltb O [top] Hv top Ht).
    - unfold h_init. cbn [hcost]. apply Forall_forall. intros x Hx. apply repeat_spec in Hx. now left.
    - replace (map_heap (rk ltb [top]) (h_init top size pol))
        with (h_init (rk ltb [top] top) size pol).
      + apply inv_init.
      + unfold h_init, map_heap. cbn [hsize hpol hcost hcolor hp hpos hn]. now rewrite map_repeat_Z.
  Qed.

  (* one operation: invariant kept, the abstract queue makes the same step, elements conserved *)
  Theorem step_spec_Ww h o :
    Forall P (hcost h) -> Forall P (op_costs o) ->
    InvW ltb h -> valid_opW ltb top h o ->
    let '(h', res) := stepW h o in
    InvW ltb h' /\ hsize h' = hsize h /\ hpol h' = hpol h /\
    pq_stepW ltb top (hsize h) (hpol h) (absW h) o res (absW h') /\
    Permutation (queued h ++ ins_ofW h o res) (rem_of res ++ queued h').
  Proof.
    intros PH PO HI Hv.
    set (vals := top :: hcost h ++ op_costs o).
    assert (Hvals : Forall P vals).
    { constructor; [exact Ptop|]. apply Forall_app. now split. }
    assert (Ht : In top vals) by now left.
    assert (Hh : Forall (fun a => In a vals) (hcost h)).
    { apply Forall_forall. intros x Hx. right. apply in_or_app. now left. }
    assert (Ho : Forall (fun a => In a vals) (op_costs o)).
    { apply Forall_forall. intros x Hx. right. apply in_or_app. now right. }
    destruct (rescale_step_on (fun a => In a vals) (rk ltb vals) ltb Z.ltb
                (rk_ltb_w P ltb O vals Hvals) top h o Ht Hh Ho) as [Hh' E].
    pose proof (step_spec (rk ltb vals top) (map_heap (rk ltb vals) h) (map_op (rk ltb vals) o)
                  (proj1 (InvW_map P ltb O vals Hvals top Ht h Hh) HI)
                  (proj1 (valid_op_map P ltb O vals Hvals top Ht h o Hh Ho) Hv)) as S.
    rewrite E in S. pose proof (step_hcost ltb top h o) as Hc.
    destruct (stepW h o) as [h' res]. cbn [fst snd] in *.
    destruct S as (A & B & C & D & Pm).
    split; [exact (proj2 (InvW_map P ltb O vals Hvals top Ht h' Hh') A)|].
    split; [exact B|]. split; [exact C|]. split.
    - apply (pq_step_back P ltb O vals Hvals top Ht (hsize h) (hpol h) (absW h) (absW h') o res Hh Hc).
      exact D.
    - replace (ins_ofW h o res) with (ins_of (map_heap (rk ltb vals) h) (map_op (rk ltb vals) o) res)
        by (destruct o; reflexivity).
      exact Pm.
  Qed.

  (* whole histories (the derivation of HeapHist.run_refines; the order is never looked at) *)
  Theorem run_refines_Ww ops : forall h,
    Forall P (hcost h) -> ops_in P ops ->
    InvW ltb h -> valid_histW ltb top h ops ->
    let '(h', outs) := runW h ops in
    InvW ltb h' /\ hsize h' = hsize h /\ hpol h' = hpol h /\
    pq_runW ltb top (hsize h) (hpol h) (absW h) ops outs (absW h') /\
    Permutation (queued h ++ insertedW ltb top h ops) (removed outs ++ queued h').
  Proof.
    induction ops as [|o os IH]; intros h PH PO HI Hv; cbn [run insertedW].
    - split; [exact HI|]. split; [reflexivity|]. split; [reflexivity|]. split.
      + apply pq_runW_nil.
      + cbn [removed flat_map app]. rewrite app_nil_r. apply Permutation_refl.
    - destruct Hv as [Hv Hvs]. pose proof (step_spec_Ww h o PH (Forall_inv PO) HI Hv) as Hs.
      pose proof (step_costs_in h o PH (Forall_inv PO)) as PH1.
      destruct (stepW h o) as [h1 r]. cbn [fst] in Hvs, PH1.
      destruct Hs as (A & E & F & S & Pm).
      specialize (IH h1 PH1 (Forall_inv_tail PO) A Hvs). destruct (runW h1 os) as [h2 rs].
      destruct IH as (A' & E' & F' & S' & Pm').
      split; [exact A'|]. split; [congruence|]. split; [congruence|]. split.
      + rewrite E, F in S'. eapply pq_runW_cons; eassumption.
      + unfold removed in *. cbn [flat_map]. rewrite app_assoc.
        eapply Permutation_trans; [apply Permutation_app_tail; exact Pm|].
        rewrite <- !app_assoc. apply Permutation_app_head. exact Pm'.
  Qed.

  Section FromInit.
    Variables (size : nat) (pol : policy) (ops : list (@op W)).
    Hypothesis PO : ops_in P ops.
    Hypothesis Hv : valid_histW ltb top (h_init top size pol) ops.

    Let h0 := h_init top size pol.
    Let hf := fst (runW h0 ops).

    Lemma hist_all_Ww :
      InvW ltb hf /\ hsize hf = size /\ hpol hf = pol /\
      pq_runW ltb top size pol (absW h0) ops (snd (runW h0 ops)) (absW hf) /\
      Permutation (insertedW ltb top h0 ops) (removed (snd (runW h0 ops)) ++ queued hf).
    Proof.
      pose proof (run_refines_Ww ops h0 (init_costs_in size pol) PO (inv_init_Ww size pol) Hv) as H.
      unfold hf. destruct (runW h0 ops) as [h' outs]. cbn [fst snd]. exact H.
    Qed.

    Theorem hist_inv_Ww : InvW ltb hf /\ hsize hf = size /\ hpol hf = pol.
    Proof. destruct hist_all_Ww as (A & B & C & _). auto. Qed.

    Theorem histories_refine_pq_Ww :
      pq_runW ltb top size pol (absW h0) ops (snd (runW h0 ops)) (absW hf).
    Proof. exact (proj1 (proj2 (proj2 (proj2 hist_all_Ww)))). Qed.

    Theorem conservation_Ww :
      Permutation (insertedW ltb top h0 ops) (removed (snd (runW h0 ops)) ++ queued hf).
    Proof. exact (proj2 (proj2 (proj2 (proj2 hist_all_Ww)))). Qed.

    Lemma hist_costs_in : Forall P (hcost hf).
    Proof. unfold hf. apply run_costs_in; [apply init_costs_in | exact PO]. Qed.
  End FromInit.

  (* ---------- per-step readings ---------- *)

  Theorem remove_extremal_inv_Ww h :
    Forall P (hcost h) -> InvW ltb h ->
    match stepW h ORem with
    | (h', RElem p) =>
        In p (queued h) /\
        (forall q, In q (queued h) ->
           better ltb (hpol h) (nth q (hcost h) top) (nth p (hcost h) top) = false) /\
        Permutation (queued h) (p :: queued h') /\ hcost h' = hcost h
    | (h', RFalse) => queued h = [] /\ h' = h
    | _ => False
    end.
  Proof.
    intros PH HI. pose proof (step_spec_Ww h ORem PH (Forall_nil P) HI I) as S. revert S.
    cbn [step]. unfold remove. destruct (is_empty h) eqn:Ee.
    - intros _. split; [|reflexivity].
      apply Nat.eqb_eq in Ee. unfold queued. now rewrite Ee.
    - set (h' := go_down ltb top (hsize h) _ 0). set (p := nth 0 (hp h) 0).
      intros (_ & _ & _ & S & _).
      inversion S as [| |az p' e' X Pm Ea Eo Er Ea'| | | | | |].
      destruct X as [X1 X2]. split; [exact X1|]. split; [exact X2|].
      split; [exact Pm | first [reflexivity | symmetry; assumption | assumption]].
  Qed.

  Theorem hist_remove_extremal_Ww size pol ops :
    ops_in P ops -> valid_histW ltb top (h_init top size pol) ops ->
    let h := fst (runW (h_init top size pol) ops) in
    match stepW h ORem with
    | (h', RElem p) =>
        In p (queued h) /\
        (forall q, In q (queued h) ->
           better ltb pol (nth q (hcost h) top) (nth p (hcost h) top) = false) /\
        Permutation (queued h) (p :: queued h') /\ hcost h' = hcost h
    | (h', RFalse) => queued h = [] /\ h' = h
    | _ => False
    end.
  Proof.
    intros PO Hv h. destruct (hist_inv_Ww size pol ops PO Hv) as (HI & _ & Hp). fold h in HI, Hp.
    rewrite <- Hp. apply remove_extremal_inv_Ww; [|exact HI]. now apply hist_costs_in.
  Qed.
End LiftedWeak.

(* ------------------------------------------------------------------------------------ *)
(* statements that need no order law                                                     *)

Section NoOrder.
  Context {W : Type} (ltb : W -> W -> bool) (top : W).

  Notation stepW := (step ltb top).
  Notation runW := (run ltb top).

  Lemma run_app_W ops1 ops2 h :
    runW h (ops1 ++ ops2) =
      (fst (runW (fst (runW h ops1)) ops2), snd (runW h ops1) ++ snd (runW (fst (runW h ops1)) ops2)).
  Proof.
    revert h; induction ops1 as [|o os IH]; intros h; cbn [app run].
    - cbn [fst snd app]. destruct (runW h ops2); reflexivity.
    - destruct (stepW h o) as [h1 r]. rewrite IH.
      destruct (runW h1 os) as [h2 rs]. cbn [fst snd app]. reflexivity.
  Qed.

  Lemma valid_hist_app_W ops1 ops2 h :
    valid_histW ltb top h (ops1 ++ ops2) <->
    valid_histW ltb top h ops1 /\ valid_histW ltb top (fst (runW h ops1)) ops2.
  Proof.
    revert h; induction ops1 as [|o os IH]; intros h; cbn [app valid_histW run].
    - cbn [fst]. tauto.
    - rewrite IH. destruct (stepW h o) as [h1 r]. cbn [fst].
      destruct (runW h1 os) as [h2 rs]. cbn [fst]. tauto.
  Qed.

  Lemma queued_len_W h : InvW ltb h -> length (queued h) = hn h.
  Proof.
    intros HI. unfold queued. apply firstn_length_le.
    rewrite (invw_lp ltb h HI). exact (invw_n ltb h HI).
  Qed.

  Theorem failures_leave_state_any_W h :
    (forall p, snd (stepW h (OIns p)) = RBool (negb (is_full h))) /\
    (forall p, is_full h = true -> stepW h (OIns p) = (h, RBool false)) /\
    (is_empty h = true -> stepW h ORem = (h, RFalse)) /\
    (forall p c, nth p (hcolor h) White = White -> is_full h = true ->
                 stepW h (OUpd p c) = (set_cost h p c, RUnit)).
  Proof.
    repeat split.
    - intros p. cbn [step]. unfold insert. destruct (is_full h); reflexivity.
    - intros p Hf. cbn [step]. unfold insert. rewrite Hf. reflexivity.
    - intros He. cbn [step]. unfold remove. rewrite He. reflexivity.
    - intros p c Hw Hf. cbn [step]. unfold update.
      change (hcolor (set_cost h p c)) with (hcolor h). rewrite Hw.
      unfold insert. change (is_full (set_cost h p c)) with (is_full h). rewrite Hf. reflexivity.
  Qed.

  Theorem empty_full_truthful_inv_W h :
    InvW ltb h ->
    (exists b, stepW h OIsEmpty = (h, RBool b) /\ (b = true <-> queued h = [])) /\
    (exists b, stepW h OIsFull = (h, RBool b) /\ (b = true <-> length (queued h) = hsize h)).
  Proof.
    intros HI. pose proof (queued_len_W h HI) as Hl. split.
    - exists (is_empty h). split; [reflexivity|]. unfold is_empty. rewrite Nat.eqb_eq.
      rewrite <- Hl. split.
      + intros H. now apply length_zero_iff_nil.
      + intros ->. reflexivity.
    - exists (is_full h). split; [reflexivity|]. unfold is_full. rewrite Nat.eqb_eq. now rewrite Hl.
  Qed.
End NoOrder.

Section LiftedWeak2.
  Context {W : Type} (P : W -> Prop) (ltb : W -> W -> bool).
  Hypothesis O : strict_weak_order_on P ltb.
  Variable top : W.
  Hypothesis Ptop : P top.

  Theorem hist_empty_full_truthful_Ww size pol ops :
    ops_in P ops -> valid_histW ltb top (h_init top size pol) ops ->
    let h := fst (run ltb top (h_init top size pol) ops) in
    (exists b, step ltb top h OIsEmpty = (h, RBool b) /\ (b = true <-> queued h = [])) /\
    (exists b, step ltb top h OIsFull = (h, RBool b) /\ (b = true <-> length (queued h) = size)).
  Proof.
    intros PO Hv h. destruct (hist_inv_Ww P ltb O top Ptop size pol ops PO Hv) as (HI & Hs & _).
    fold h in HI, Hs. rewrite <- Hs. now apply empty_full_truthful_inv_W.
  Qed.
End LiftedWeak2.

(* ------------------------------------------------------------------------------------ *)
(* strict total orders: P := everything                                                  *)

Section Lifted.
  Context {W : Type} (ltb : W -> W -> bool).
  Hypothesis O : strict_total_order ltb.
  Variable top : W.

  Let PT := fun _ : W => True.
  Let OW : strict_weak_order_on PT ltb := total_is_weak ltb O.

  Lemma all_PT (l : list W) : Forall PT l.
  Proof. apply Forall_forall. intros x _. exact I. Qed.

  Lemma all_ops_PT (ops : list (@op W)) : ops_in PT ops.
  Proof. apply Forall_forall. intros o _. apply all_PT. Qed.

  Theorem inv_init_W size pol : InvW ltb (h_init top size pol).
  Proof. exact (inv_init_Ww PT ltb OW top I size pol). Qed.

  Theorem step_spec_W h o :
    InvW ltb h -> valid_opW ltb top h o ->
    let '(h', res) := step ltb top h o in
    InvW ltb h' /\ hsize h' = hsize h /\ hpol h' = hpol h /\
    pq_stepW ltb top (hsize h) (hpol h) (absW h) o res (absW h') /\
    Permutation (queued h ++ ins_ofW h o res) (rem_of res ++ queued h').
  Proof. exact (step_spec_Ww PT ltb OW top I h o (all_PT _) (all_PT _)). Qed.

  Theorem step_inv_W h o :
    InvW ltb h -> valid_opW ltb top h o ->
    InvW ltb (fst (step ltb top h o)) /\ hsize (fst (step ltb top h o)) = hsize h /\
    hpol (fst (step ltb top h o)) = hpol h.
  Proof.
    intros HI Hv. pose proof (step_spec_W h o HI Hv) as Hs.
    destruct (step ltb top h o) as [h' res]. cbn [fst]. tauto.
  Qed.

  Theorem hist_inv_W size pol ops :
    valid_histW ltb top (h_init top size pol) ops ->
    let h := fst (run ltb top (h_init top size pol) ops) in
    InvW ltb h /\ hsize h = size /\ hpol h = pol.
  Proof. exact (hist_inv_Ww PT ltb OW top I size pol ops (all_ops_PT ops)). Qed.

  Theorem histories_refine_pq_W size pol ops :
    valid_histW ltb top (h_init top size pol) ops ->
    pq_runW ltb top size pol (absW (h_init top size pol)) ops
            (snd (run ltb top (h_init top size pol) ops))
            (absW (fst (run ltb top (h_init top size pol) ops))).
  Proof. exact (histories_refine_pq_Ww PT ltb OW top I size pol ops (all_ops_PT ops)). Qed.

  Theorem conservation_W size pol ops :
    valid_histW ltb top (h_init top size pol) ops ->
    Permutation (insertedW ltb top (h_init top size pol) ops)
                (removed (snd (run ltb top (h_init top size pol) ops))
                 ++ queued (fst (run ltb top (h_init top size pol) ops))).
  Proof. exact (conservation_Ww PT ltb OW top I size pol ops (all_ops_PT ops)). Qed.

  Theorem hist_remove_extremal_W size pol ops :
    valid_histW ltb top (h_init top size pol) ops ->
    let h := fst (run ltb top (h_init top size pol) ops) in
    match step ltb top h ORem with
    | (h', RElem p) =>
        In p (queued h) /\
        (forall q, In q (queued h) ->
           better ltb pol (nth q (hcost h) top) (nth p (hcost h) top) = false) /\
        Permutation (queued h) (p :: queued h') /\ hcost h' = hcost h
    | (h', RFalse) => queued h = [] /\ h' = h
    | _ => False
    end.
  Proof. exact (hist_remove_extremal_Ww PT ltb OW top I size pol ops (all_ops_PT ops)). Qed.

  Theorem hist_empty_full_truthful_W size pol ops :
    valid_histW ltb top (h_init top size pol) ops ->
    let h := fst (run ltb top (h_init top size pol) ops) in
    (exists b, step ltb top h OIsEmpty = (h, RBool b) /\ (b = true <-> queued h = [])) /\
    (exists b, step ltb top h OIsFull = (h, RBool b) /\ (b = true <-> length (queued h) = size)).
  Proof. exact (hist_empty_full_truthful_Ww PT ltb OW top I size pol ops (all_ops_PT ops)). Qed.
End Lifted.
