(* Instances of the order-generic theorems (LiftSup.v, LiftPredict.v):

     - Z with Z.ltb: the generic theorem gives back the original statement of FitSup.sup_fit_opf
       (sanity check: nothing was lost on the way through the rank map);
     - nat with Nat.ltb, with a computed example (non-vacuity);
     - Qc (rationals in lowest terms) with the boolean version of Qclt.

   [PrimFloat.float] with [PrimFloat.ltb] is NOT an instance: NaN is incomparable to everything
   and +0 / -0 are incomparable and distinct, so [so_total] fails; [Q] with [Qlt]-based comparison
   is not one either (1/2 and 2/4 are incomparable and distinct), which is why the canonical
   rationals are used. *)
From Coq Require Import List Arith Bool ZArith Lia Permutation QArith Qcanon.
From OPF Require Import Base.Lists Base.TotalOrder Model.Heap Model.Sup Spec.Paths.
From OPF Require Import Proofs.FitBase Proofs.FitSup Proofs.FitExample Proofs.OrderEmbed
  Proofs.LiftSup Proofs.LiftPredict.
Import ListNotations.
Close Scope Z_scope.
Close Scope Q_scope.
Close Scope Qc_scope.

(* ---------- the orders ---------- *)

Lemma Z_order : strict_total_order Z.ltb.
Proof.
  constructor.
  - intros a. apply Z.ltb_irrefl.
  - intros a b c H1 H2. apply Z.ltb_lt in H1, H2. apply Z.ltb_lt. lia.
  - intros a b H1 H2. apply Z.ltb_ge in H1, H2. lia.
Qed.

Lemma nat_order : strict_total_order Nat.ltb.
Proof.
  constructor.
  - intros a. apply Nat.ltb_irrefl.
  - intros a b c H1 H2. apply Nat.ltb_lt in H1, H2. apply Nat.ltb_lt. lia.
  - intros a b H1 H2. apply Nat.ltb_ge in H1, H2. lia.
Qed.

Definition Qcltb (a b : Qc) : bool := if Qclt_le_dec a b then true else false.

Lemma Qcltb_lt a b : Qcltb a b = true <-> (a < b)%Qc.
Proof.
  unfold Qcltb. destruct (Qclt_le_dec a b) as [H|H]; split; auto; try discriminate.
  intros H'. exfalso. exact (Qcle_not_lt _ _ H H').
Qed.

Lemma Qcltb_ge a b : Qcltb a b = false <-> (b <= a)%Qc.
Proof.
  unfold Qcltb. destruct (Qclt_le_dec a b) as [H|H]; split; auto; try discriminate.
  intros H'. exfalso. exact (Qcle_not_lt _ _ H' H).
Qed.

Lemma Qc_order : strict_total_order Qcltb.
Proof.
  constructor.
  - intros a. apply Qcltb_ge. apply Qcle_refl.
  - intros a b c H1 H2. apply Qcltb_lt in H1, H2. apply Qcltb_lt. exact (Qclt_trans _ _ _ H1 H2).
  - intros a b H1 H2. apply Qcltb_ge in H1, H2. exact (Qcle_antisym _ _ H2 H1).
Qed.

(* ---------- W := Z recovers the original theorem ---------- *)

Lemma wmax_Zmax a b : wmax Z.ltb a b = Z.max a b.
Proof. unfold wmax. destruct (Z.ltb_spec a b); lia. Qed.

Lemma pathmaxW_Z w zero pi : pathmaxW Z.ltb w zero pi = pathmax w zero pi.
Proof.
  induction pi as [|a t IH]; [reflexivity|]. destruct t as [|b t']; [reflexivity|].
  change (pathmaxW Z.ltb w zero (a :: b :: t'))
    with (wmax Z.ltb (w a b) (pathmaxW Z.ltb w zero (b :: t'))).
  change (pathmax w zero (a :: b :: t')) with (Z.max (w a b) (pathmax w zero (b :: t'))).
  now rewrite IH, wmax_Zmax.
Qed.

(* the statement of FitSup.sup_fit_opf / Props.C01.C01_sup_fit_optimum_path_forest, obtained
   from the order-generic theorem alone *)
Theorem sup_fit_opf_from_anyorder :
  forall (zero top : Z) (labels : list nat) (w : nat -> nat -> Z),
    let n := length labels in
    let fp := find_prototypes Z.ltb top n w (nodes_init zero labels) in
    let isproto q := nth q (n_status fp) false = true in
    (zero < top)%Z ->
    (forall p q, p < n -> q < n -> p <> q -> (zero <= w p q < top)%Z) ->
    (exists s, s < n /\ isproto s) ->
    let nd := sup_fit Z.ltb zero top labels w in
    let cost q := nth q (n_cost nd) zero in
    let pred q := nth q (n_pred nd) None in
    let plabel q := nth q (n_plabel nd) 0 in
    Permutation (n_order nd) (seq 0 n) /\
    (forall i j, i < j -> j < n ->
       (cost (nth i (n_order nd) 0%nat) <= cost (nth j (n_order nd) 0%nat))%Z) /\
    (forall q, q < n -> isproto q ->
       pred q = None /\ cost q = zero /\ plabel q = nth q labels 0) /\
    (forall q, q < n -> ~ isproto q ->
       exists p, pred q = Some p /\ p < n /\ p <> q /\ cost q = Z.max (cost p) (w p q) /\
         plabel q = plabel p /\ before (n_order nd) p q) /\
    (forall q, q < n ->
       exists r k, r < n /\ isproto r /\ reaches pred q r k /\ pred r = None /\ k < n /\
         plabel q = nth r labels 0) /\
    (forall q s pi, q < n -> s < n -> isproto s -> path_from_to n s q pi ->
       (cost q <= pathmax w zero pi)%Z) /\
    (forall q, q < n -> exists s pi, s < n /\ isproto s /\ path_from_to n s q pi /\
       pathmax w zero pi = cost q) /\
    n_status nd = n_status fp /\ n_label nd = labels.
Proof.
  intros zero top labels w n fp isproto Hzt Hw Hproto nd cost pred plabel.
  destruct (sup_fit_anyorder Z.ltb Z_order zero top labels w) as ((A1 & A2 & A3 & A4 & A5 & A6 & A7) & S & L).
  - now apply Z.ltb_lt.
  - intros p q Hp Hq Hpq. destruct (Hw p q Hp Hq Hpq). split; [apply Z.ltb_ge | apply Z.ltb_lt]; lia.
  - exact Hproto.
  - split; [exact A1|]. split; [|split; [exact A3|split; [|split; [exact A5|split; [|split; [|split; [exact S|exact L]]]]]]].
    + intros i j Hij Hj. apply Z.ltb_ge. exact (A2 i j Hij Hj).
    + intros q Hq Hp. destruct (A4 q Hq Hp) as (p & B1 & B2 & B3 & B4 & B5 & B6).
      exists p. rewrite wmax_Zmax in B4. exact (conj B1 (conj B2 (conj B3 (conj B4 (conj B5 B6))))).
    + intros q s pi Hq Hs Hp Hpath. specialize (A6 q s pi Hq Hs Hp Hpath).
      rewrite pathmaxW_Z in A6. now apply Z.ltb_ge.
    + intros q Hq. destruct (A7 q Hq) as (s & pi & B1 & B2 & B3 & B4).
      exists s, pi. rewrite pathmaxW_Z in B4. exact (conj B1 (conj B2 (conj B3 B4))).
Qed.

(* ---------- W := nat: a computed instance ---------- *)

(* the five samples of FitExample.v with their weights read as naturals *)
Definition exn_w (p q : nat) : nat := Z.to_nat (ex_w p q).

Example exn_sup_fit :
  sup_fit Nat.ltb 0 1000 ex_labels exn_w =
  mkNodes [2; 2; 0; 0; 2] [Some 1; Some 2; None; None; Some 3] [0; 0; 0; 1; 1] [0; 0; 0; 1; 1]
          [false; false; true; true; false] [false; false; false; false; false] [2; 3; 1; 4; 0].
Proof. vm_compute. reflexivity. Qed.

Example exn_prototypes :
  n_status (find_prototypes Nat.ltb 1000 5 exn_w (nodes_init 0 ex_labels))
  = [false; false; true; true; false] /\
  n_pred (find_prototypes Nat.ltb 1000 5 exn_w (nodes_init 0 ex_labels))
  = [None; Some 0; Some 1; Some 2; Some 3].
Proof. vm_compute. split; reflexivity. Qed.

Definition wn_ok (zero top : nat) (n : nat) (w : nat -> nat -> nat) : bool :=
  forallb (fun p => forallb (fun q =>
    Nat.eqb p q || (negb (Nat.ltb (w p q) zero) && Nat.ltb (w p q) top)) (seq 0 n)) (seq 0 n).

Lemma wn_ok_sound zero top n w : wn_ok zero top n w = true ->
  forall p q, p < n -> q < n -> p <> q -> Nat.ltb (w p q) zero = false /\ Nat.ltb (w p q) top = true.
Proof.
  intros H p q Hp Hq Hne. unfold wn_ok in H. rewrite forallb_forall in H.
  specialize (H p ltac:(apply in_seq; lia)). rewrite forallb_forall in H.
  specialize (H q ltac:(apply in_seq; lia)).
  destruct (Nat.eqb_spec p q); [contradiction|]. cbn [orb] in H.
  apply andb_true_iff in H. destruct H as [H1 H2]. apply negb_true_iff in H1. now split.
Qed.

(* the premises of [sup_fit_anyorder] at (nat, Nat.ltb) hold on this instance *)
Example exn_premises :
  strict_total_order Nat.ltb /\
  Nat.ltb 0 1000 = true /\
  (forall p q, p < length ex_labels -> q < length ex_labels -> p <> q ->
     Nat.ltb (exn_w p q) 0 = false /\ Nat.ltb (exn_w p q) 1000 = true) /\
  (exists s, s < length ex_labels /\
     nth s (n_status (find_prototypes Nat.ltb 1000 (length ex_labels) exn_w
                        (nodes_init 0 ex_labels))) false = true).
Proof.
  split; [exact nat_order|]. split; [reflexivity|]. split.
  - apply wn_ok_sound. vm_compute. reflexivity.
  - exists 2. split; [cbn; lia|]. vm_compute. reflexivity.
Qed.

(* hence its conclusion: e.g. the recorded costs are the minimax path values *)
Example exn_conclusion :
  forall q, q < 5 -> exists s pi, s < 5 /\
    nth s [false; false; true; true; false] false = true /\ path_from_to 5 s q pi /\
    pathmaxW Nat.ltb exn_w 0 pi = nth q [2; 2; 0; 0; 2] 0.
Proof.
  destruct exn_premises as (O & A & B & C).
  destruct (sup_fit_anyorder Nat.ltb O 0 1000 ex_labels exn_w A B C) as ((_ & _ & _ & _ & _ & _ & A7) & S & _).
  rewrite exn_sup_fit in A7, S. cbn [n_cost n_status] in A7, S.
  intros q Hq. destruct (A7 q Hq) as (s & pi & B1 & B2 & B3 & B4).
  exists s, pi. rewrite <- S in B2. exact (conj B1 (conj B2 (conj B3 B4))).
Qed.

(* prediction on the trained forest, equidistant query of Props/C03.v: sample 2 wins *)
Example exn_predict :
  let nd := sup_fit Nat.ltb 0 1000 ex_labels exn_w in
  let d k := nth k [5; 3; 1; 1; 4] 0 in
  predict_one Nat.ltb 0 nd d = (0, Some 2) /\
  map (fun q => wmax Nat.ltb (nth q (n_cost nd) 0) (d q)) (seq 0 5) = [5; 3; 1; 1; 4].
Proof. vm_compute. split; reflexivity. Qed.

(* ---------- W := Qc ---------- *)

Theorem sup_fit_opf_Qc (zero top : Qc) (labels : list nat) (w : nat -> nat -> Qc) :
  let n := length labels in
  let fp := find_prototypes Qcltb top n w (nodes_init zero labels) in
  let isproto q := nth q (n_status fp) false = true in
  (zero < top)%Qc ->
  (forall p q, p < n -> q < n -> p <> q -> (zero <= w p q)%Qc /\ (w p q < top)%Qc) ->
  (exists s, s < n /\ isproto s) ->
  let nd := sup_fit Qcltb zero top labels w in
  opf_spec_W Qcltb n w zero nd isproto labels /\
  n_status nd = n_status fp /\ n_label nd = labels.
Proof.
  intros n fp isproto Hzt Hw Hproto nd.
  apply (sup_fit_anyorder Qcltb Qc_order zero top labels w).
  - now apply Qcltb_lt.
  - intros p q Hp Hq Hpq. destruct (Hw p q Hp Hq Hpq) as [H1 H2].
    split; [now apply Qcltb_ge | now apply Qcltb_lt].
  - exact Hproto.
Qed.
