(* Non-vacuity, sharpness and the limits of the rounding-depth analysis.

   1. [rnd_up u t = t (1 + u)] satisfies the standard model with u > 0 and is not the identity; on
      x = [3; 0], y = [0; 4] the rounded squared_euclidean is exactly 25 (1+u)^4 and the rounded euclidean
      exactly 5 (1+u)^3: the bounds of Proofs/RdepthTable.v hold WITH EQUALITY (n = 2: n + 2 = 4,
      (n+3)/2 + 1 = 3), so the exponents cannot be lowered.  In particular the exponent n + 1 for
      squared_euclidean ("two roundings per term, n - 1 for the sum") is refuted: the subtraction's error is
      squared, so each term carries three factors (1 + d).
   2. squared_chord (hence matusita, hellinger) subtracts two ROUNDED square roots.  No bound of the form
      ((1+u)^k - 1) * exact holds, for any k: [squared_chord_no_relative_bound]. *)
From Coq Require Import Reals QArith Qreals String List Lra Lia Bool.
From OPF Require Import Model.Consts Spec.MetricSpec Model.MetricIR Gen.Metrics_gen Gen.Decorator_gen
     Model.MetricRnd Model.MetricEval Model.MetricRdepth Proofs.IRLemmas Proofs.RobustSign Proofs.RobustSignNeg
     Proofs.ClosedForms Proofs.RoundingBounds Proofs.RdepthSound Proofs.RdepthTable.
Import ListNotations.
Open Scope R_scope.

Definition rnd_up (u t : R) : R := t * (1 + u).

Lemma rnd_up_rel u : 0 <= u -> rnd_rel u (rnd_up u).
Proof. intros H t. exists u. split; [rewrite Rabs_pos_eq; lra | reflexivity]. Qed.

Lemma rnd_up_not_id u : 0 < u -> rnd_up u 1 <> 1.
Proof. unfold rnd_up. intros H E. lra. Qed.

Definition u64 : R := / 2 ^ 53.

Lemma u64_range : 0 < u64 < 1.
Proof.
  unfold u64. assert (H : 1 < 2 ^ 53) by (apply Rlt_pow_R1; [lra | lia]).
  split; [apply Rinv_0_lt_compat; lra|]. rewrite <- Rinv_1. apply Rinv_lt_contravar; lra.
Qed.

Lemma sqe_up u :
  metric_rnd (rnd_up u) ir_squared_euclidean [3; 0] [0; 4] = Some (25 * (1 + u) ^ 4).
Proof. ev_open ir_squared_euclidean. ev_step. unfold rnd_up. f_equal. ring. Qed.

Lemma sqe_exact : sp_squared_euclidean [3; 0] [0; 4] = 25.
Proof. unfold sp_squared_euclidean, sum2, sum. cbn [map2 fold_right]. ring. Qed.

Lemma euclid_up u : 0 <= u ->
  metric_rnd (rnd_up u) ir_euclidean [3; 0] [0; 4] = Some (5 * (1 + u) ^ 3).
Proof.
  intros H. ev_open ir_euclidean. ev_step. unfold rnd_up.
  replace (((3 - 0) * (1 + u)) ^ 2 * (1 + u) + ((0 - 4) * (1 + u)) ^ 2 * (1 + u)) with (25 * (1 + u) ^ 3) by ring.
  destruct (Rlt_dec (25 * (1 + u) ^ 3 * (1 + u)) 0) as [Hn|_].
  - pose proof (pu_pos u 3 H). nra.
  - f_equal. replace (25 * (1 + u) ^ 3 * (1 + u)) with ((5 * (1 + u) ^ 2) * (5 * (1 + u) ^ 2)) by ring.
    rewrite sqrt_square; [ring|]. pose proof (pu_pos u 2 H). nra.
Qed.

Lemma euclid_exact : sp_euclidean [3; 0] [0; 4] = 5.
Proof.
  unfold sp_euclidean. rewrite sqe_exact. replace 25 with (5 * 5) by ring. apply sqrt_square. lra.
Qed.

(* the hypotheses of the bounds are satisfiable with u = 2^-53 > 0 and a rounding that is not the identity;
   the squared_euclidean and euclidean bounds are attained *)
Theorem rounding_nonvacuous :
  0 < u64 < 1 /\ rnd_rel u64 (rnd_up u64) /\ rnd_up u64 1 <> 1
  /\ metric_rnd (rnd_up u64) ir_squared_euclidean [3; 0] [0; 4] = Some (25 * (1 + u64) ^ 4)
  /\ sp_squared_euclidean [3; 0] [0; 4] = 25
  /\ Rabs (25 * (1 + u64) ^ 4 - 25) = ((1 + u64) ^ (2 + 2) - 1) * 25
  /\ metric_rnd (rnd_up u64) ir_euclidean [3; 0] [0; 4] = Some (5 * (1 + u64) ^ 3)
  /\ sp_euclidean [3; 0] [0; 4] = 5
  /\ Rabs (5 * (1 + u64) ^ 3 - 5) = ((1 + u64) ^ ((2 + 3) / 2 + 1) - 1) * 5.
Proof.
  pose proof u64_range as [H0 H1].
  split; [split; assumption|]. split; [apply rnd_up_rel; lra|]. split; [now apply rnd_up_not_id|].
  split; [apply sqe_up|]. split; [apply sqe_exact|]. split.
  - change (2 + 2)%nat with 4%nat. pose proof (pu_ge1 u64 4 (Rlt_le _ _ H0)). rewrite Rabs_pos_eq; lra.
  - split; [apply euclid_up; lra|]. split; [apply euclid_exact|].
    change ((2 + 3) / 2 + 1)%nat with 3%nat. pose proof (pu_ge1 u64 3 (Rlt_le _ _ H0)). rewrite Rabs_pos_eq; lra.
Qed.

(* the exponent n + 2 of squared_euclidean is attained, so n + 1 is false *)
Theorem squared_euclidean_exponent_sharp u : 0 < u < 1 ->
  exists rnd x y fl,
    rnd_rel u rnd /\ length x = 2%nat /\ length y = 2%nat
    /\ metric_rnd rnd ir_squared_euclidean x y = Some fl
    /\ fl - sp_squared_euclidean x y = ((1 + u) ^ (2 + 2) - 1) * sp_squared_euclidean x y
    /\ ((1 + u) ^ (2 + 1) - 1) * sp_squared_euclidean x y < Rabs (fl - sp_squared_euclidean x y).
Proof.
  intros [H0 H1]. exists (rnd_up u), [3; 0], [0; 4], (25 * (1 + u) ^ 4).
  split; [apply rnd_up_rel; lra|]. split; [reflexivity|]. split; [reflexivity|].
  split; [apply sqe_up|]. rewrite sqe_exact. split; [cbn [Nat.add]; ring|].
  change (2 + 1)%nat with 3%nat. pose proof (pu_ge1 u 3 (Rlt_le _ _ H0)) as P3.
  assert (P4 : (1 + u) ^ 4 = (1 + u) ^ 3 * (1 + u)) by ring.
  rewrite Rabs_pos_eq; nra.
Qed.

(* ---------- squared_chord: no relative bound ---------- *)
(* rounds 1 up to 1 + u, everything else exactly *)
Definition rnd_one (u t : R) : R := if Req_EM_T t 1 then 1 + u else t.

Lemma rnd_one_rel u : 0 <= u -> rnd_rel u (rnd_one u).
Proof.
  intros H t. unfold rnd_one. destruct (Req_EM_T t 1) as [->|NE].
  - exists u. split; [rewrite Rabs_pos_eq; lra | ring].
  - exists 0. split; [rewrite Rabs_R0; lra | ring].
Qed.

Lemma rnd_one_at1 u : rnd_one u 1 = 1 + u.
Proof. unfold rnd_one. destruct (Req_EM_T 1 1); [reflexivity | contradiction]. Qed.

Lemma rnd_one_other u t : t <> 1 -> rnd_one u t = t.
Proof. intros H. unfold rnd_one. destruct (Req_EM_T t 1); [contradiction | reflexivity]. Qed.

Lemma squared_chord_eval u d : 0 < u -> 0 < d -> u + d < 1 ->
  metric_rnd (rnd_one u) ir_squared_chord [1] [(1 - d) * (1 - d)] = Some ((u + d) ^ 2)
  /\ sp_squared_chord [1] [(1 - d) * (1 - d)] = d ^ 2.
Proof.
  intros Hu Hd Hs. split.
  - ev_open ir_squared_chord. ev_step.
    destruct (Rlt_dec 1 0) as [Hn|_]; [lra|].
    destruct (Rlt_dec ((1 - d) * (1 - d)) 0) as [Hn|_]; [nra|].
    ev_step. rewrite sqrt_1, rnd_one_at1. rewrite sqrt_square by lra. rewrite (rnd_one_other u (1 - d)) by lra.
    replace (1 + u - (1 - d)) with (u + d) by ring. rewrite (rnd_one_other u (u + d)) by lra.
    rewrite (rnd_one_other u ((u + d) ^ 2)) by nra. reflexivity.
  - unfold sp_squared_chord, sum2, sum. cbn [map2 fold_right]. rewrite sqrt_1, sqrt_square by lra. ring.
Qed.

Theorem squared_chord_no_relative_bound u k : 0 < u < 1 ->
  exists rnd x y fl,
    rnd_rel u rnd /\ all_nonneg x /\ all_nonneg y /\ length x = length y
    /\ metric_rnd rnd ir_squared_chord x y = Some fl
    /\ 0 < sp_squared_chord x y
    /\ ((1 + u) ^ k - 1) * sp_squared_chord x y < Rabs (fl - sp_squared_chord x y).
Proof.
  intros [H0 H1]. set (P := (1 + u) ^ k). assert (HP : 1 <= P) by (apply pu_ge1; lra).
  set (d := u * (1 - u) / P).
  assert (Pd : P * d = u * (1 - u)) by (unfold d; field; lra).
  assert (Hd : 0 < d).
  { unfold d, Rdiv. apply Rmult_lt_0_compat; [nra|]. apply Rinv_0_lt_compat. lra. }
  assert (Hd1 : d <= u * (1 - u)) by nra.
  assert (Hs : u + d < 1) by nra.
  destruct (squared_chord_eval u d H0 Hd Hs) as [E S].
  exists (rnd_one u), [1], [(1 - d) * (1 - d)], ((u + d) ^ 2).
  split; [apply rnd_one_rel; lra|].
  split; [repeat constructor; lra|]. split; [repeat constructor; nra|]. split; [reflexivity|].
  split; [exact E|]. rewrite S. split; [nra|].
  replace ((u + d) ^ 2 - d ^ 2) with (u * u + 2 * u * d) by ring.
  rewrite Rabs_pos_eq by nra.
  assert (X : P * d ^ 2 = d * (u * (1 - u))) by (rewrite <- Pd; ring).
  nra.
Qed.

(* ... hence none for matusita = sqrt squared_chord either, already at k = 1 ... and in binary64:
   x = [1.0], y = [1.0 + 2^-52] gives exactly 0.0 for all three (harness/c06_rounding.py reports it). *)
