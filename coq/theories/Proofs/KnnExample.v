(* C12 examples: a 3x3 lattice (heavy ties) and three identical samples with k > n-1. The outputs below agree
   with KNNSubgraph.create_arcs run on the same data (squared Euclidean distance). *)
From Coq Require Import List Arith Bool ZArith Lia.
From OPF Require Import Base.Lists Model.Knn Proofs.KnnSort Proofs.KnnScan Proofs.KnnArcs.
Import ListNotations.

(* sample p sits at (p / 3, p mod 3); squared Euclidean distance *)
Definition lat_w (i j : nat) : Z :=
  let dx := (Z.of_nat (i / 3) - Z.of_nat (j / 3))%Z in
  let dy := (Z.of_nat (i mod 3) - Z.of_nat (j mod 3))%Z in (dx * dx + dy * dy)%Z.

Definition lat_top : Z := 1000000%Z.

Lemma bounded_weights_check (zero top : Z) (w : nat -> nat -> Z) n :
  forallb (fun i => forallb (fun j => (i =? j) || (Z.leb zero (w i j) && Z.ltb (w i j) top)) (seq 0 n)) (seq 0 n) = true ->
  forall i j, i < n -> j < n -> i <> j -> (zero <= w i j < top)%Z.
Proof.
  intros H i j Hi Hj Hne. rewrite forallb_forall in H.
  specialize (H i ltac:(apply in_seq; lia)). rewrite forallb_forall in H.
  specialize (H j ltac:(apply in_seq; lia)).
  destruct (Nat.eqb_spec i j); [contradiction|]. cbn [orb] in H.
  apply andb_prop in H. destruct H as [H1 H2]. apply Z.leb_le in H1. apply Z.ltb_lt in H2. lia.
Qed.

Lemma lat_w_ok : forall i j, i < 9 -> j < 9 -> i <> j -> (0 <= lat_w i j < lat_top)%Z.
Proof. apply bounded_weights_check. vm_compute. reflexivity. Qed.

Definition lat_g' : @knn Z :=
  mkKnn (repeat 0 9)
        [[1; 3; 4]; [0; 2; 4]; [1; 5; 4]; [0; 4; 6]; [1; 3; 5]; [2; 4; 8]; [3; 7; 4]; [4; 6; 8]; [5; 7; 4]]
        [2; 1; 2; 1; 1; 1; 2; 1; 2]%Z
        (repeat 0 9) (repeat 0%Z 9) (repeat 0%Z 9) (repeat None 9) (repeat 0 9) (repeat 0 9) (repeat 0 9) []
        2%Z 0.

(* k = 3: the centre (node 4) has four neighbours at distance 1 - the three smallest indices are kept;
   corners keep two at distance 1 and the centre at distance 2 *)
Example lat_arcs :
  create_arcs Z.ltb 0%Z lat_top 1%Z 1%Z 3 9 lat_w (knn_init 0%Z (repeat 0 9)) = (lat_g', [1; 1; 2]%Z).
Proof. vm_compute. reflexivity. Qed.

(* the hypotheses of [arcs_exact] are satisfiable: instantiate it on the lattice *)
Example lat_arcs_exact :
  let adj i := nth i (k_adj lat_g') [] in
  let rad i := nth i (k_radius lat_g') 0%Z in
  (forall i, i < 9 ->
     length (adj i) = 3 /\ NoDup (adj i) /\ ~ In i (adj i) /\
     (forall j, j < 9 -> j <> i -> ~ In j (adj i) -> (rad i <= lat_w i j)%Z)) /\
  k_gdens lat_g' = 2%Z.
Proof.
  intros adj rad.
  destruct (arcs_exact 0%Z lat_top 1%Z 1%Z 3 9 lat_w (repeat 0 9) eq_refl lat_w_ok _ _ lat_arcs) as (Hnode & _).
  split; [|reflexivity].
  intros i Hi. destruct (Hnode i Hi) as (H1 & H2 & H3 & _ & _ & _ & H7 & _). auto.
Qed.

(* three identical samples, k = 5 > n - 1 = 2: each list holds the two other samples in index order, slots 2..4 stay
   empty (maxd zero there), and since every distance is below the threshold the density bound falls back to [one] *)
Example dup_arcs :
  create_arcs Z.ltb 0%Z lat_top 1%Z 100000%Z 5 3 (fun _ _ => 0%Z) (knn_init 0%Z (repeat 0 3))
  = (mkKnn [0; 0; 0] [[1; 2]; [0; 2]; [0; 1]] [0; 0; 0]%Z [0; 0; 0] [0; 0; 0]%Z [0; 0; 0]%Z [None; None; None]
           [0; 0; 0] [0; 0; 0] [0; 0; 0] [] 100000%Z 0,
     [0; 0; 0; 0; 0]%Z).
Proof. vm_compute. reflexivity. Qed.

(* the raw scan of node 4 of the lattice: slots 0..2 reported, slot 3 scratch *)
Example lat_scan_4 :
  knn_scan Z.ltb lat_top 3 9 (lat_w 4) (Some 4) [0; 0; 0; 0] = ([1; 1; 1; 2]%Z, [1; 3; 5; 8]).
Proof. vm_compute. reflexivity. Qed.

(* Slot k is scratch space, NOT the (k+1)-th nearest candidate: in the scan above sample 7 (distance 1) is absent
   from all four slots although slot 3 holds sample 8 at distance 2. So a specification claiming that the first
   min (k+1) |C| slots are the sorted prefix would be false; only slots 0..k-1 are (and only they are read). *)
Example knn_scan_slot_k_refuted :
  exists (top : Z) (k n : nat) (dist : nat -> Z) (skip : option nat) (ns0 : list nat),
    k < length ns0 /\ (forall j, j < n -> skip <> Some j -> (dist j < top)%Z) /\
    let '(ds, ns) := knn_scan Z.ltb top k n dist skip ns0 in
    exists j, j < n /\ skip <> Some j /\ ~ In j (firstn (S k) ns) /\ (dist j < nth k ds top)%Z.
Proof.
  exists lat_top, 3, 9, (lat_w 4), (Some 4), [0; 0; 0; 0].
  split; [cbn; lia|]. split.
  - intros j Hj Hs. apply lat_w_ok; [lia|exact Hj|congruence].
  - rewrite lat_scan_4. exists 7. split; [lia|]. split; [discriminate|]. split.
    + cbn. intros [H|[H|[H|[H|[]]]]]; discriminate.
    + vm_compute. reflexivity.
Qed.
