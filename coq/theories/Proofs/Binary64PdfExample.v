(* Non-vacuity of the refinement theorem of Proofs/Binary64Pdf.v: concrete primitive floats (FLOAT_MAX, 4.5, the terms
   0.25 and 0.75) satisfy its hypotheses; the FOps run is evaluated by vm_compute, the RndOps rnd64 run follows from
   the theorem. *)
From Coq Require Import Reals List ZArith Bool Lia Lra Floats.
From Flocq Require Import Core BinarySingleNaN.
From OPF Require Import Base.NumOps Base.NumOpsRnd Model.Pdf Model.Binary64 Proofs.Binary64 Proofs.Binary64Ops
  Proofs.Binary64Pdf.
Import ListNotations.
Local Open Scope R_scope.

Lemma f2r_SF (x : PrimFloat.float) : f2r x = SF2R radix2 (Prim2SF x).
Proof. unfold f2r, FP.Prim2B. apply B2R_SF2B. Qed.

(* decode a float literal: f2r x = m * 2^e *)
Ltac f2r_decode x :=
  rewrite (f2r_SF x);
  let v := eval vm_compute in (Prim2SF x) in change (Prim2SF x) with v;
  unfold SF2R, F2R; cbn [Fnum Fexp cond_Zopp].

Definition exf_fmax : PrimFloat.float := 0x1.fffffffffffffp+1023%float.
Definition exf_e (i l : nat) : PrimFloat.float := match i with 0%nat => 0.25%float | _ => 0.75%float end.

Lemma f2r_quarter : f2r 0.25%float = 1 / 4.
Proof.
  f2r_decode 0.25%float. change (bpow radix2 (-54)) with (/ IZR (2 ^ 54)).
  change (2 ^ 54)%Z with 18014398509481984%Z. lra.
Qed.

Lemma f2r_three_quarters : f2r 0.75%float = 3 / 4.
Proof.
  f2r_decode 0.75%float. change (bpow radix2 (-53)) with (/ IZR (2 ^ 53)).
  change (2 ^ 53)%Z with 9007199254740992%Z. lra.
Qed.

Lemma f2r_eighth : f2r 0.125%float = 1 / 8.
Proof.
  f2r_decode 0.125%float. change (bpow radix2 (-55)) with (/ IZR (2 ^ 55)).
  change (2 ^ 55)%Z with 36028797018963968%Z. lra.
Qed.

Lemma f2r_4_5 : f2r 4.5%float = 9 / 2.
Proof.
  f2r_decode 4.5%float. change (bpow radix2 (-50)) with (/ IZR (2 ^ 50)).
  change (2 ^ 50)%Z with 1125899906842624%Z. lra.
Qed.

Lemma f2r_1000 : f2r 1000%float = 1000.
Proof. exact (proj2 (f2r_float_ofZ 1000 ltac:(lia))). Qed.

Lemma exf_fmax_ge_1 : 1 <= f2r exf_fmax.
Proof.
  unfold exf_fmax. f2r_decode 0x1.fffffffffffffp+1023%float.
  assert (1 <= bpow radix2 971) by (change 1 with (bpow radix2 0); apply bpow_le; lia).
  nra.
Qed.

Lemma exf_run :
  ffin exf_fmax = true /\ 1 <= f2r exf_fmax /\ ffin 4.5%float = true /\ fits64 (2 * f2r 4.5%float) /\
  (Z.of_nat 2 <= 2 ^ 53)%Z /\
  (forall i l, (i < 2)%nat -> (l < 1)%nat -> ffin (exf_e i l) = true /\ 0 <= f2r (exf_e i l) <= 1) /\
  calculate_pdf FOps exf_fmax 1000 2 1 4.5%float exf_e
  = (1, 0.125, 0.375, [(1, 0); (1000, 999)])%float /\
  calculate_pdf (RndOps rnd64) (f2r exf_fmax) 1000 2 1 (f2r 4.5%float) (fun i l => f2r (exf_e i l))
  = (f2r 1%float, f2r 0.125%float, f2r 0.375%float,
     [(f2r 1%float, f2r 0%float); (f2r 1000%float, f2r 999%float)]) /\
  f2r 0.125%float = 1 / 8 /\ f2r 1000%float = 1000.
Proof.
  assert (H1 : ffin exf_fmax = true) by reflexivity.
  assert (H2 : 1 <= f2r exf_fmax) by exact exf_fmax_ge_1.
  assert (H3 : ffin 4.5%float = true) by reflexivity.
  assert (H4 : fits64 (2 * f2r 4.5%float)).
  { rewrite f2r_4_5. apply fits64_small. rewrite Rabs_pos_eq; lra. }
  assert (H5 : (Z.of_nat 2 <= 2 ^ 53)%Z) by (simpl; lia).
  assert (H6 : forall i l, (i < 2)%nat -> (l < 1)%nat -> ffin (exf_e i l) = true /\ 0 <= f2r (exf_e i l) <= 1).
  { intros i l _ _. unfold exf_e. destruct i; (split; [reflexivity|]).
    - rewrite f2r_quarter. lra.
    - rewrite f2r_three_quarters. lra. }
  assert (H7 : calculate_pdf FOps exf_fmax 1000 2 1 4.5%float exf_e
               = (1, 0.125, 0.375, [(1, 0); (1000, 999)])%float) by (vm_compute; reflexivity).
  split; [exact H1|]. split; [exact H2|]. split; [exact H3|]. split; [exact H4|]. split; [exact H5|].
  split; [exact H6|]. split; [exact H7|].
  destruct (calculate_pdf_refines exf_fmax 4.5%float 2 1 exf_e _ _ _ _ H1 H2 H3 H4 H5 H6 H7) as (_ & _ & _ & _ & E).
  split; [exact E|]. split; [exact f2r_eighth | exact f2r_1000].
Qed.

(* ---------- query_density on concrete floats: EPSILON = 1e-20 (the binary64 number 0x1.79ca10c924223p-67), range [0.125, 0.375], one term 0.25 ---------- *)
Lemma f2r_three_eighths : f2r 0.375%float = 3 / 8.
Proof.
  f2r_decode 0.375%float. change (bpow radix2 (-54)) with (/ IZR (2 ^ 54)).
  change (2 ^ 54)%Z with 18014398509481984%Z. lra.
Qed.

Lemma f2r_eps_range : / 2 ^ 1000 <= f2r 0x1.79ca10c924223p-67%float <= 1.
Proof.
  f2r_decode 0x1.79ca10c924223p-67%float.
  match goal with |- _ <= IZR ?m * bpow radix2 ?ex <= _ =>
    assert (L : bpow radix2 (-1000) <= bpow radix2 ex) by (apply bpow_le; lia);
    assert (U : bpow radix2 ex <= bpow radix2 (-53)) by (apply bpow_le; lia);
    assert (P : 0 < bpow radix2 ex) by apply bpow_gt_0
  end.
  rewrite <- bpow2_neg_nat. change (- Z.of_nat 1000)%Z with (-1000)%Z.
  change (bpow radix2 (-53)) with (/ IZR (2 ^ 53)) in U. change (2 ^ 53)%Z with 9007199254740992%Z in U.
  assert (P0 : 0 < bpow radix2 (-1000)) by apply bpow_gt_0.
  split; nra.
Qed.

Lemma exf_query :
  (1 <= 1)%nat /\ (Z.of_nat 1 <= 2 ^ 53)%Z /\
  (forall l, (l < 1)%nat -> ffin (exf_e 0 l) = true /\ 0 <= f2r (exf_e 0 l) <= 1) /\
  ffin 0.125%float = true /\ ffin 0.375%float = true /\ ffin 0x1.79ca10c924223p-67%float = true /\
  0 <= f2r 0.125%float /\ f2r 0.125%float <= f2r 0.375%float /\ f2r 0.375%float <= 1 /\
  / 2 ^ 1000 <= f2r 0x1.79ca10c924223p-67%float <= 1 /\
  query_density FOps 1000 0x1.79ca10c924223p-67%float 0.125%float 0.375%float 1 (exf_e 0) = 500.5%float /\
  ffin 500.5%float = true /\
  f2r 500.5%float
  = query_density (RndOps rnd64) 1000 (f2r 0x1.79ca10c924223p-67%float) (f2r 0.125%float) (f2r 0.375%float) 1 (fun l => f2r (exf_e 0 l)).
Proof.
  assert (H3 : forall l, (l < 1)%nat -> ffin (exf_e 0 l) = true /\ 0 <= f2r (exf_e 0 l) <= 1).
  { intros l _. cbn [exf_e]. split; [reflexivity|]. rewrite f2r_quarter. lra. }
  assert (H7 : 0 <= f2r 0.125%float) by (rewrite f2r_eighth; lra).
  assert (H8 : f2r 0.125%float <= f2r 0.375%float) by (rewrite f2r_eighth, f2r_three_eighths; lra).
  assert (H9 : f2r 0.375%float <= 1) by (rewrite f2r_three_eighths; lra).
  assert (HQ : query_density FOps 1000 0x1.79ca10c924223p-67%float 0.125%float 0.375%float 1 (exf_e 0) = 500.5%float)
    by (vm_compute; reflexivity).
  split; [lia|]. split; [simpl; lia|]. split; [exact H3|]. split; [reflexivity|]. split; [reflexivity|].
  split; [reflexivity|]. split; [exact H7|]. split; [exact H8|]. split; [exact H9|].
  split; [exact f2r_eps_range|]. split; [exact HQ|].
  destruct (query_density_refines 0x1.79ca10c924223p-67%float 0.125%float 0.375%float 1 (exf_e 0) ltac:(lia) ltac:(simpl; lia) H3
              eq_refl eq_refl eq_refl H7 H8 H9 f2r_eps_range) as [F E].
  rewrite HQ in F, E. split; [exact F | exact E].
Qed.
