(* C11, permutation half: on tie-free data, presenting the training samples in another
   order changes neither the prototypes, the costs, the assigned labels nor any prediction
   for a query in general position.  Position p of the permuted run holds sample [sigma p]. *)
From Coq Require Import List Arith Bool ZArith Lia Permutation.
From OPF Require Import Base.Lists Model.Heap Model.Sup Spec.Paths Spec.Trees
  Proofs.PrimLists Proofs.PrimMain Proofs.Predict Proofs.ResubBase Proofs.Resub Proofs.PermBase.
Import ListNotations.
Open Scope nat_scope.

Section Perm.
  Variables (zero top : Z) (n : nat) (w : nat -> nat -> Z) (labels : list nat).
  Variables (sigma sigma_inv : nat -> nat).
  Hypothesis Hlen : length labels = n.
  Hypothesis Htf : tie_free n w zero top.
  Hypothesis H2 : two_classes n (fun q => nth q labels 0).
  Hypothesis HP : perm_on n sigma sigma_inv.

  Let w' := fun p q => w (sigma p) (sigma q).
  Let labels' := perm_labels n sigma labels.
  Let nd := sup_fit Z.ltb zero top labels w.
  Let nd' := sup_fit Z.ltb zero top labels' w'.

  Let Hlen' : length labels' = n := perm_labels_length n sigma labels.
  Let Htf' : tie_free n w' zero top := tie_free_perm n sigma sigma_inv HP w zero top Htf.
  Let H2' : two_classes n (fun q => nth q labels' 0) := two_classes_perm n sigma sigma_inv HP labels H2.

  Let F := sup_fit_facts zero top n w labels Hlen Htf H2.
  Let F' := sup_fit_facts zero top n w' labels' Hlen' Htf' H2'.

  Lemma perm_proto_iff p : p < n ->
    (nth p (n_status nd') false = true <-> nth (sigma p) (n_status nd) false = true).
  Proof.
    intros Hp. pose proof HP as (A & B & C & D).
    unfold nd, nd'.
    rewrite (sup_status zero top n w labels Hlen Htf H2).
    rewrite (sup_status zero top n w' labels' Hlen' Htf' H2').
    pose proof (tf_n2 n labels Hlen H2) as Hn2.
    assert (Hn1 : 1 <= n) by lia.
    destruct Htf as (Hsym & Hdist & Hr). destruct Htf' as (Hsym' & Hdist' & Hr').
    rewrite (init_prototypes_characterised zero top n w' labels' Hn1 Hlen'
               (tf_below zero top n w' Htf') Hsym' Hdist' p Hp).
    rewrite (init_prototypes_characterised zero top n w labels Hn1 Hlen
               (tf_below zero top n w Htf) Hsym Hdist (sigma p) (A p Hp)).
    split.
    - intros (r & Hr1 & Hr2 & Hr3). exists (sigma r). split; [apply A; exact Hr1|].
      cbn [n_label nodes_init] in *. unfold labels' in Hr2.
      rewrite !perm_labels_nth in Hr2 by assumption. split; [exact Hr2|].
      apply (sole_perm n sigma sigma_inv HP w p r Hp Hr1). exact Hr3.
    - intros (r & Hr1 & Hr2 & Hr3). exists (sigma_inv r). split; [apply B; exact Hr1|].
      cbn [n_label nodes_init] in *. unfold labels'.
      rewrite !perm_labels_nth by (try apply B; assumption). rewrite (D r Hr1).
      split; [exact Hr2|].
      apply (sole_perm n sigma sigma_inv HP w p (sigma_inv r) Hp (B r Hr1)).
      rewrite (D r Hr1). exact Hr3.
  Qed.

  (* C11.4 *)
  Theorem perm_invariant_prototypes_sec p : p < n ->
    nth p (n_status nd') false = nth (sigma p) (n_status nd) false.
  Proof.
    intros Hp. pose proof (perm_proto_iff p Hp) as H.
    destruct (nth p (n_status nd') false), (nth (sigma p) (n_status nd) false); try reflexivity.
    - symmetry. apply H. reflexivity.
    - apply H. reflexivity.
  Qed.

  (* C11.5 *)
  Theorem perm_invariant_costs_sec p : p < n ->
    nth p (n_cost nd') zero = nth (sigma p) (n_cost nd) zero.
  Proof.
    intros Hp. pose proof HP as (A & B & C & D). apply Z.le_antisymm.
    - destruct (of_att _ _ _ _ _ _ _ _ _ F (sigma p) (A p Hp)) as (s & pi & Hs & Hps & Hpath & E).
      cbv beta in Hps, E. fold nd nd' in Hps, E. rewrite <- E.
      pose proof (map_path n sigma_inv B s (sigma p) pi Hpath) as Hpath'. rewrite (C p Hp) in Hpath'.
      assert (Hps' : nth (sigma_inv s) (n_status nd') false = true).
      { rewrite (perm_invariant_prototypes_sec _ (B s Hs)), (D s Hs). exact Hps. }
      pose proof (of_lb _ _ _ _ _ _ _ _ _ F' p (sigma_inv s) _ Hp (B s Hs) Hps' Hpath') as Hle.
      cbv beta in Hle. fold nd' in Hle.
      unfold w' in Hle. rewrite (pathmax_map sigma w zero) in Hle.
      destruct Hpath as ((_ & Hfa) & _).
      rewrite (map_inverse_on n sigma sigma_inv pi D Hfa) in Hle. exact Hle.
    - destruct (of_att _ _ _ _ _ _ _ _ _ F' p Hp) as (s & pi & Hs & Hps & Hpath & E).
      cbv beta in Hps, E. fold nd nd' in Hps, E. rewrite <- E. unfold w'. rewrite (pathmax_map sigma w zero).
      apply (of_lb _ _ _ _ _ _ _ _ _ F (sigma p) (sigma s) _ (A p Hp) (A s Hs)); cbv beta; fold nd.
      + rewrite <- (perm_invariant_prototypes_sec s Hs). exact Hps.
      + apply (map_path n sigma A). exact Hpath.
  Qed.

  (* C11.6 *)
  Theorem perm_invariant_labels_sec p : p < n ->
    nth p (n_plabel nd') 0 = nth (sigma p) (n_plabel nd) 0.
  Proof.
    intros Hp. pose proof HP as (A & _).
    unfold nd, nd'.
    rewrite (sup_train_labels_own_sec zero top n w' labels' Hlen' Htf' H2' p Hp).
    rewrite (sup_train_labels_own_sec zero top n w labels Hlen Htf H2 (sigma p) (A p Hp)).
    apply perm_labels_nth. exact Hp.
  Qed.

  (* C11.7 *)
  Theorem perm_invariant_predictions_sec (d : nat -> Z) :
    generic_query n w zero d ->
    fst (predict_one Z.ltb zero nd' (fun p => d (sigma p))) = fst (predict_one Z.ltb zero nd d).
  Proof.
    intros Hgen. pose proof HP as (A & B & C & D).
    pose proof (tf_n2 n labels Hlen H2) as Hn2.
    destruct (sup_lengths zero top n w labels Hlen Htf H2) as (Lc & _).
    destruct (sup_order zero top n w labels Hlen Htf H2) as (O1 & O2).
    destruct (sup_lengths zero top n w' labels' Hlen' Htf' H2') as (Lc' & _).
    destruct (sup_order zero top n w' labels' Hlen' Htf' H2') as (O1' & O2').
    pose proof (predict_label_is_argmin zero nd d) as X. cbv zeta in X. fold nd in Lc. rewrite Lc in X.
    destruct (X ltac:(lia) O1 O2) as (t & Ht & Hfst & _ & Hmin). clear X.
    pose proof (predict_label_is_argmin zero nd' (fun p => d (sigma p))) as X. cbv zeta in X.
    fold nd' in Lc'. rewrite Lc' in X.
    destruct (X ltac:(lia) O1' O2') as (t' & Ht' & Hfst' & _ & Hmin'). clear X.
    unfold pval, pcost in Hmin, Hmin'. unfold pplabel in Hfst, Hfst'.
    rewrite Hfst, Hfst'.
    rewrite (perm_invariant_labels_sec t' Ht').
    unfold nd.
    rewrite (sup_train_labels_own_sec zero top n w labels Hlen Htf H2 t Ht).
    rewrite (sup_train_labels_own_sec zero top n w labels Hlen Htf H2 (sigma t') (A t' Ht')).
    apply (equal_val_same_label _ _ _ _ _ _ _ _ _ F d (sigma t') t Hgen (A t' Ht') Ht).
    cbv beta. apply Z.le_antisymm.
    - pose proof (Hmin' (sigma_inv t) (B t Ht)) as H.
      rewrite !perm_invariant_costs_sec in H by (try apply B; assumption).
      rewrite (D t Ht) in H. exact H.
    - exact (Hmin (sigma t') (A t' Ht')).
  Qed.
End Perm.
