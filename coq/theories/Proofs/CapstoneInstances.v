(* Capstone instances: the generic theorems of Proofs/Capstone.v at the code terms ir_<name> of
   Gen/Metrics_gen.v, with symmetry, non-negativity and zero self-distance discharged from
   Proofs/CodeAxioms*.v (Props/C08_code.v) and the closed forms from Proofs/ClosedForms.v
   (Props/C06.v): named lemmas for six identifiers, then one table theorem for the 41 identifiers
   that are symmetric AND non-negative AND have zero self-distance on their user-level domain (all of C08_code_symmetric except gaussian, which is
   a similarity).  Domains: [True] (undecorated, any real rows), [all_nonneg] rows, and for
   bhattacharyya non-negative rows whose SHIFTED entries sum to 1.
   The text of the six blocks is uniform and was produced by a throw-away script from the lemma
   statements of CodeAxioms*.v / ClosedForms.v; it is checked like any other file. *)
From Coq Require Import Reals String List Arith Bool Lia Permutation.
From OPF Require Import Base.Lists Base.TotalOrder Base.NumOps Model.Heap Model.Sup Spec.Paths Spec.Trees.
From OPF Require Import Spec.MetricSpec Model.MetricIR Gen.Metrics_gen Model.MetricEval.
From OPF Require Import Proofs.ClosedForms Proofs.CodeAxioms Proofs.CodeAxiomsBhattacharyya.
From OPF Require Import Proofs.FitBase Proofs.Capstone.
Import ListNotations.
Open Scope R_scope.

(* ----- euclidean ----- *)
Lemma cap_code_euclidean :
  forall (feat : nat -> list R) (labels : list nat) (dim : nat) (fmax : R),
    let n := length labels in
    let w p q := metric_value ir_euclidean (feat p) (feat q) in
    (1 <= dim)%nat -> (forall p, (p < n)%nat -> length (feat p) = dim) ->
    (exists a b, (a < n)%nat /\ (b < n)%nat /\ nth a labels 0%nat <> nth b labels 0%nat) ->
    (forall p q, (p < n)%nat -> (q < n)%nat -> p <> q -> w p q < fmax) -> 0 < fmax ->
    let nd := sup_fit Rltb 0 fmax labels w in
    opf_forest_R n w labels nd /\
    forall x : list R, predicts_argmin_R n nd (fun k => metric_value ir_euclidean (feat k) x).
Proof.
  intros feat labels dim fmax n w Hd Hlen Hcls Hlt Hpos.
  exact (capstone_code ir_euclidean (fun _ : list R => True) code_sym_euclidean (fun x y H1 H2 _ _ => code_nonneg_euclidean x y H1 H2) feat labels dim fmax
           (conj Hd Hlen) (fun _ _ => I) Hcls Hlt Hpos).
Qed.

Lemma cap_closed_euclidean :
  forall (feat : nat -> list R) (labels : list nat) (dim : nat) (fmax : R),
    let n := length labels in
    let w p q := sp_euclidean (feat p) (feat q) in
    (1 <= dim)%nat -> (forall p, (p < n)%nat -> length (feat p) = dim) ->
    (exists a b, (a < n)%nat /\ (b < n)%nat /\ nth a labels 0%nat <> nth b labels 0%nat) ->
    (forall p q, (p < n)%nat -> (q < n)%nat -> p <> q -> w p q < fmax) -> 0 < fmax ->
    let nd := sup_fit Rltb 0 fmax labels w in
    opf_forest_R n w labels nd /\
    forall x : list R, predicts_argmin_R n nd (fun k => sp_euclidean (feat k) x).
Proof.
  intros feat labels dim fmax n w Hd Hlen Hcls Hlt Hpos.
  exact (capstone_closed ir_euclidean (fun _ : list R => True) sp_euclidean (fun x y H1 H2 _ _ => code_nonneg_euclidean x y H1 H2) closed_form_euclidean feat labels dim fmax
           (conj Hd Hlen) (fun _ _ => I) Hcls Hlt Hpos).
Qed.

Lemma cap_same_euclidean :
  forall (feat : nat -> list R) (labels : list nat) (dim : nat) (fmax : R),
    let n := length labels in
    (1 <= dim)%nat -> (forall p, (p < n)%nat -> length (feat p) = dim) ->
    sup_fit Rltb 0 fmax labels (fun p q => metric_value ir_euclidean (feat p) (feat q))
    = sup_fit Rltb 0 fmax labels (fun p q => sp_euclidean (feat p) (feat q)).
Proof.
  intros feat labels dim fmax n Hd Hlen.
  exact (capstone_code_eq_closed ir_euclidean sp_euclidean closed_form_euclidean feat labels dim fmax (conj Hd Hlen)).
Qed.

Lemma cap_tiefree_euclidean :
  forall (feat : nat -> list R) (labels : list nat) (dim : nat) (fmax : R),
    let n := length labels in
    let w p q := metric_value ir_euclidean (feat p) (feat q) in
    (1 <= dim)%nat -> (forall p, (p < n)%nat -> length (feat p) = dim) ->
    (exists a b, (a < n)%nat /\ (b < n)%nat /\ nth a labels 0%nat <> nth b labels 0%nat) ->
    (forall p q, (p < n)%nat -> (q < n)%nat -> p <> q -> 0 < w p q < fmax) ->
    (forall a b c d, (a < n)%nat -> (b < n)%nat -> (c < n)%nat -> (d < n)%nat -> a <> b -> c <> d ->
       w a b = w c d -> (a = c /\ b = d) \/ (a = d /\ b = c)) ->
    let nd := sup_fit Rltb 0 fmax labels w in
    (forall q, (q < n)%nat -> nth q (n_plabel nd) 0%nat = nth q labels 0%nat) /\
    (forall t, (t < n)%nat ->
       fst (predict_one Rltb 0 nd (fun k => metric_value ir_euclidean (feat k) (feat t))) = nth t labels 0%nat).
Proof.
  intros feat labels dim fmax n w Hd Hlen Hcls Hrange Hdist.
  exact (capstone_tie_free ir_euclidean (fun _ : list R => True) code_sym_euclidean feat labels dim fmax
           (conj Hd Hlen) (fun _ _ => I) Hcls (fun x H1 _ => code_zero_self_euclidean x H1) Hrange Hdist).
Qed.

Lemma cap_protos_euclidean :
  forall (feat : nat -> list R) (labels : list nat) (dim : nat) (fmax : R),
    let n := length labels in
    let w p q := metric_value ir_euclidean (feat p) (feat q) in
    (1 <= dim)%nat -> (forall p, (p < n)%nat -> length (feat p) = dim) ->
    (exists a b, (a < n)%nat /\ (b < n)%nat /\ nth a labels 0%nat <> nth b labels 0%nat) ->
    (forall p q, (p < n)%nat -> (q < n)%nat -> p <> q -> w p q < fmax) -> 0 < fmax ->
    let nd := sup_fit Rltb 0 fmax labels w in
    let mst q := nth q (n_pred (find_prototypes Rltb fmax n w (nodes_init 0 labels))) None in
    prototypes_by_mst_R n w labels mst nd.
Proof.
  intros feat labels dim fmax n w Hd Hlen Hcls Hlt Hpos.
  exact (capstone_code_prototypes ir_euclidean (fun _ : list R => True) code_sym_euclidean (fun x y H1 H2 _ _ => code_nonneg_euclidean x y H1 H2) feat labels dim fmax
           (conj Hd Hlen) (fun _ _ => I) Hcls Hlt Hpos).
Qed.

(* ----- squared_euclidean ----- *)
Lemma cap_code_squared_euclidean :
  forall (feat : nat -> list R) (labels : list nat) (dim : nat) (fmax : R),
    let n := length labels in
    let w p q := metric_value ir_squared_euclidean (feat p) (feat q) in
    (1 <= dim)%nat -> (forall p, (p < n)%nat -> length (feat p) = dim) ->
    (exists a b, (a < n)%nat /\ (b < n)%nat /\ nth a labels 0%nat <> nth b labels 0%nat) ->
    (forall p q, (p < n)%nat -> (q < n)%nat -> p <> q -> w p q < fmax) -> 0 < fmax ->
    let nd := sup_fit Rltb 0 fmax labels w in
    opf_forest_R n w labels nd /\
    forall x : list R, predicts_argmin_R n nd (fun k => metric_value ir_squared_euclidean (feat k) x).
Proof.
  intros feat labels dim fmax n w Hd Hlen Hcls Hlt Hpos.
  exact (capstone_code ir_squared_euclidean (fun _ : list R => True) code_sym_squared_euclidean (fun x y H1 H2 _ _ => code_nonneg_squared_euclidean x y H1 H2) feat labels dim fmax
           (conj Hd Hlen) (fun _ _ => I) Hcls Hlt Hpos).
Qed.

Lemma cap_closed_squared_euclidean :
  forall (feat : nat -> list R) (labels : list nat) (dim : nat) (fmax : R),
    let n := length labels in
    let w p q := sp_squared_euclidean (feat p) (feat q) in
    (1 <= dim)%nat -> (forall p, (p < n)%nat -> length (feat p) = dim) ->
    (exists a b, (a < n)%nat /\ (b < n)%nat /\ nth a labels 0%nat <> nth b labels 0%nat) ->
    (forall p q, (p < n)%nat -> (q < n)%nat -> p <> q -> w p q < fmax) -> 0 < fmax ->
    let nd := sup_fit Rltb 0 fmax labels w in
    opf_forest_R n w labels nd /\
    forall x : list R, predicts_argmin_R n nd (fun k => sp_squared_euclidean (feat k) x).
Proof.
  intros feat labels dim fmax n w Hd Hlen Hcls Hlt Hpos.
  exact (capstone_closed ir_squared_euclidean (fun _ : list R => True) sp_squared_euclidean (fun x y H1 H2 _ _ => code_nonneg_squared_euclidean x y H1 H2) closed_form_squared_euclidean feat labels dim fmax
           (conj Hd Hlen) (fun _ _ => I) Hcls Hlt Hpos).
Qed.

Lemma cap_same_squared_euclidean :
  forall (feat : nat -> list R) (labels : list nat) (dim : nat) (fmax : R),
    let n := length labels in
    (1 <= dim)%nat -> (forall p, (p < n)%nat -> length (feat p) = dim) ->
    sup_fit Rltb 0 fmax labels (fun p q => metric_value ir_squared_euclidean (feat p) (feat q))
    = sup_fit Rltb 0 fmax labels (fun p q => sp_squared_euclidean (feat p) (feat q)).
Proof.
  intros feat labels dim fmax n Hd Hlen.
  exact (capstone_code_eq_closed ir_squared_euclidean sp_squared_euclidean closed_form_squared_euclidean feat labels dim fmax (conj Hd Hlen)).
Qed.

Lemma cap_tiefree_squared_euclidean :
  forall (feat : nat -> list R) (labels : list nat) (dim : nat) (fmax : R),
    let n := length labels in
    let w p q := metric_value ir_squared_euclidean (feat p) (feat q) in
    (1 <= dim)%nat -> (forall p, (p < n)%nat -> length (feat p) = dim) ->
    (exists a b, (a < n)%nat /\ (b < n)%nat /\ nth a labels 0%nat <> nth b labels 0%nat) ->
    (forall p q, (p < n)%nat -> (q < n)%nat -> p <> q -> 0 < w p q < fmax) ->
    (forall a b c d, (a < n)%nat -> (b < n)%nat -> (c < n)%nat -> (d < n)%nat -> a <> b -> c <> d ->
       w a b = w c d -> (a = c /\ b = d) \/ (a = d /\ b = c)) ->
    let nd := sup_fit Rltb 0 fmax labels w in
    (forall q, (q < n)%nat -> nth q (n_plabel nd) 0%nat = nth q labels 0%nat) /\
    (forall t, (t < n)%nat ->
       fst (predict_one Rltb 0 nd (fun k => metric_value ir_squared_euclidean (feat k) (feat t))) = nth t labels 0%nat).
Proof.
  intros feat labels dim fmax n w Hd Hlen Hcls Hrange Hdist.
  exact (capstone_tie_free ir_squared_euclidean (fun _ : list R => True) code_sym_squared_euclidean feat labels dim fmax
           (conj Hd Hlen) (fun _ _ => I) Hcls (fun x H1 _ => code_zero_self_squared_euclidean x H1) Hrange Hdist).
Qed.

Lemma cap_protos_squared_euclidean :
  forall (feat : nat -> list R) (labels : list nat) (dim : nat) (fmax : R),
    let n := length labels in
    let w p q := metric_value ir_squared_euclidean (feat p) (feat q) in
    (1 <= dim)%nat -> (forall p, (p < n)%nat -> length (feat p) = dim) ->
    (exists a b, (a < n)%nat /\ (b < n)%nat /\ nth a labels 0%nat <> nth b labels 0%nat) ->
    (forall p q, (p < n)%nat -> (q < n)%nat -> p <> q -> w p q < fmax) -> 0 < fmax ->
    let nd := sup_fit Rltb 0 fmax labels w in
    let mst q := nth q (n_pred (find_prototypes Rltb fmax n w (nodes_init 0 labels))) None in
    prototypes_by_mst_R n w labels mst nd.
Proof.
  intros feat labels dim fmax n w Hd Hlen Hcls Hlt Hpos.
  exact (capstone_code_prototypes ir_squared_euclidean (fun _ : list R => True) code_sym_squared_euclidean (fun x y H1 H2 _ _ => code_nonneg_squared_euclidean x y H1 H2) feat labels dim fmax
           (conj Hd Hlen) (fun _ _ => I) Hcls Hlt Hpos).
Qed.

(* ----- manhattan ----- *)
Lemma cap_code_manhattan :
  forall (feat : nat -> list R) (labels : list nat) (dim : nat) (fmax : R),
    let n := length labels in
    let w p q := metric_value ir_manhattan (feat p) (feat q) in
    (1 <= dim)%nat -> (forall p, (p < n)%nat -> length (feat p) = dim) ->
    (exists a b, (a < n)%nat /\ (b < n)%nat /\ nth a labels 0%nat <> nth b labels 0%nat) ->
    (forall p q, (p < n)%nat -> (q < n)%nat -> p <> q -> w p q < fmax) -> 0 < fmax ->
    let nd := sup_fit Rltb 0 fmax labels w in
    opf_forest_R n w labels nd /\
    forall x : list R, predicts_argmin_R n nd (fun k => metric_value ir_manhattan (feat k) x).
Proof.
  intros feat labels dim fmax n w Hd Hlen Hcls Hlt Hpos.
  exact (capstone_code ir_manhattan (fun _ : list R => True) code_sym_manhattan (fun x y H1 H2 _ _ => code_nonneg_manhattan x y H1 H2) feat labels dim fmax
           (conj Hd Hlen) (fun _ _ => I) Hcls Hlt Hpos).
Qed.

Lemma cap_closed_manhattan :
  forall (feat : nat -> list R) (labels : list nat) (dim : nat) (fmax : R),
    let n := length labels in
    let w p q := sp_manhattan (feat p) (feat q) in
    (1 <= dim)%nat -> (forall p, (p < n)%nat -> length (feat p) = dim) ->
    (exists a b, (a < n)%nat /\ (b < n)%nat /\ nth a labels 0%nat <> nth b labels 0%nat) ->
    (forall p q, (p < n)%nat -> (q < n)%nat -> p <> q -> w p q < fmax) -> 0 < fmax ->
    let nd := sup_fit Rltb 0 fmax labels w in
    opf_forest_R n w labels nd /\
    forall x : list R, predicts_argmin_R n nd (fun k => sp_manhattan (feat k) x).
Proof.
  intros feat labels dim fmax n w Hd Hlen Hcls Hlt Hpos.
  exact (capstone_closed ir_manhattan (fun _ : list R => True) sp_manhattan (fun x y H1 H2 _ _ => code_nonneg_manhattan x y H1 H2) closed_form_manhattan feat labels dim fmax
           (conj Hd Hlen) (fun _ _ => I) Hcls Hlt Hpos).
Qed.

Lemma cap_same_manhattan :
  forall (feat : nat -> list R) (labels : list nat) (dim : nat) (fmax : R),
    let n := length labels in
    (1 <= dim)%nat -> (forall p, (p < n)%nat -> length (feat p) = dim) ->
    sup_fit Rltb 0 fmax labels (fun p q => metric_value ir_manhattan (feat p) (feat q))
    = sup_fit Rltb 0 fmax labels (fun p q => sp_manhattan (feat p) (feat q)).
Proof.
  intros feat labels dim fmax n Hd Hlen.
  exact (capstone_code_eq_closed ir_manhattan sp_manhattan closed_form_manhattan feat labels dim fmax (conj Hd Hlen)).
Qed.

Lemma cap_tiefree_manhattan :
  forall (feat : nat -> list R) (labels : list nat) (dim : nat) (fmax : R),
    let n := length labels in
    let w p q := metric_value ir_manhattan (feat p) (feat q) in
    (1 <= dim)%nat -> (forall p, (p < n)%nat -> length (feat p) = dim) ->
    (exists a b, (a < n)%nat /\ (b < n)%nat /\ nth a labels 0%nat <> nth b labels 0%nat) ->
    (forall p q, (p < n)%nat -> (q < n)%nat -> p <> q -> 0 < w p q < fmax) ->
    (forall a b c d, (a < n)%nat -> (b < n)%nat -> (c < n)%nat -> (d < n)%nat -> a <> b -> c <> d ->
       w a b = w c d -> (a = c /\ b = d) \/ (a = d /\ b = c)) ->
    let nd := sup_fit Rltb 0 fmax labels w in
    (forall q, (q < n)%nat -> nth q (n_plabel nd) 0%nat = nth q labels 0%nat) /\
    (forall t, (t < n)%nat ->
       fst (predict_one Rltb 0 nd (fun k => metric_value ir_manhattan (feat k) (feat t))) = nth t labels 0%nat).
Proof.
  intros feat labels dim fmax n w Hd Hlen Hcls Hrange Hdist.
  exact (capstone_tie_free ir_manhattan (fun _ : list R => True) code_sym_manhattan feat labels dim fmax
           (conj Hd Hlen) (fun _ _ => I) Hcls (fun x H1 _ => code_zero_self_manhattan x H1) Hrange Hdist).
Qed.

Lemma cap_protos_manhattan :
  forall (feat : nat -> list R) (labels : list nat) (dim : nat) (fmax : R),
    let n := length labels in
    let w p q := metric_value ir_manhattan (feat p) (feat q) in
    (1 <= dim)%nat -> (forall p, (p < n)%nat -> length (feat p) = dim) ->
    (exists a b, (a < n)%nat /\ (b < n)%nat /\ nth a labels 0%nat <> nth b labels 0%nat) ->
    (forall p q, (p < n)%nat -> (q < n)%nat -> p <> q -> w p q < fmax) -> 0 < fmax ->
    let nd := sup_fit Rltb 0 fmax labels w in
    let mst q := nth q (n_pred (find_prototypes Rltb fmax n w (nodes_init 0 labels))) None in
    prototypes_by_mst_R n w labels mst nd.
Proof.
  intros feat labels dim fmax n w Hd Hlen Hcls Hlt Hpos.
  exact (capstone_code_prototypes ir_manhattan (fun _ : list R => True) code_sym_manhattan (fun x y H1 H2 _ _ => code_nonneg_manhattan x y H1 H2) feat labels dim fmax
           (conj Hd Hlen) (fun _ _ => I) Hcls Hlt Hpos).
Qed.

(* ----- log_squared_euclidean ----- *)
Lemma cap_code_log_squared_euclidean :
  forall (feat : nat -> list R) (labels : list nat) (dim : nat) (fmax : R),
    let n := length labels in
    let w p q := metric_value ir_log_squared_euclidean (feat p) (feat q) in
    (1 <= dim)%nat -> (forall p, (p < n)%nat -> length (feat p) = dim) ->
    (exists a b, (a < n)%nat /\ (b < n)%nat /\ nth a labels 0%nat <> nth b labels 0%nat) ->
    (forall p q, (p < n)%nat -> (q < n)%nat -> p <> q -> w p q < fmax) -> 0 < fmax ->
    let nd := sup_fit Rltb 0 fmax labels w in
    opf_forest_R n w labels nd /\
    forall x : list R, predicts_argmin_R n nd (fun k => metric_value ir_log_squared_euclidean (feat k) x).
Proof.
  intros feat labels dim fmax n w Hd Hlen Hcls Hlt Hpos.
  exact (capstone_code ir_log_squared_euclidean (fun _ : list R => True) code_sym_log_squared_euclidean (fun x y H1 H2 _ _ => code_nonneg_log_squared_euclidean x y H1 H2) feat labels dim fmax
           (conj Hd Hlen) (fun _ _ => I) Hcls Hlt Hpos).
Qed.

Lemma cap_closed_log_squared_euclidean :
  forall (feat : nat -> list R) (labels : list nat) (dim : nat) (fmax : R),
    let n := length labels in
    let w p q := sp_log_squared_euclidean (feat p) (feat q) in
    (1 <= dim)%nat -> (forall p, (p < n)%nat -> length (feat p) = dim) ->
    (exists a b, (a < n)%nat /\ (b < n)%nat /\ nth a labels 0%nat <> nth b labels 0%nat) ->
    (forall p q, (p < n)%nat -> (q < n)%nat -> p <> q -> w p q < fmax) -> 0 < fmax ->
    let nd := sup_fit Rltb 0 fmax labels w in
    opf_forest_R n w labels nd /\
    forall x : list R, predicts_argmin_R n nd (fun k => sp_log_squared_euclidean (feat k) x).
Proof.
  intros feat labels dim fmax n w Hd Hlen Hcls Hlt Hpos.
  exact (capstone_closed ir_log_squared_euclidean (fun _ : list R => True) sp_log_squared_euclidean (fun x y H1 H2 _ _ => code_nonneg_log_squared_euclidean x y H1 H2) closed_form_log_squared_euclidean feat labels dim fmax
           (conj Hd Hlen) (fun _ _ => I) Hcls Hlt Hpos).
Qed.

Lemma cap_same_log_squared_euclidean :
  forall (feat : nat -> list R) (labels : list nat) (dim : nat) (fmax : R),
    let n := length labels in
    (1 <= dim)%nat -> (forall p, (p < n)%nat -> length (feat p) = dim) ->
    sup_fit Rltb 0 fmax labels (fun p q => metric_value ir_log_squared_euclidean (feat p) (feat q))
    = sup_fit Rltb 0 fmax labels (fun p q => sp_log_squared_euclidean (feat p) (feat q)).
Proof.
  intros feat labels dim fmax n Hd Hlen.
  exact (capstone_code_eq_closed ir_log_squared_euclidean sp_log_squared_euclidean closed_form_log_squared_euclidean feat labels dim fmax (conj Hd Hlen)).
Qed.

Lemma cap_tiefree_log_squared_euclidean :
  forall (feat : nat -> list R) (labels : list nat) (dim : nat) (fmax : R),
    let n := length labels in
    let w p q := metric_value ir_log_squared_euclidean (feat p) (feat q) in
    (1 <= dim)%nat -> (forall p, (p < n)%nat -> length (feat p) = dim) ->
    (exists a b, (a < n)%nat /\ (b < n)%nat /\ nth a labels 0%nat <> nth b labels 0%nat) ->
    (forall p q, (p < n)%nat -> (q < n)%nat -> p <> q -> 0 < w p q < fmax) ->
    (forall a b c d, (a < n)%nat -> (b < n)%nat -> (c < n)%nat -> (d < n)%nat -> a <> b -> c <> d ->
       w a b = w c d -> (a = c /\ b = d) \/ (a = d /\ b = c)) ->
    let nd := sup_fit Rltb 0 fmax labels w in
    (forall q, (q < n)%nat -> nth q (n_plabel nd) 0%nat = nth q labels 0%nat) /\
    (forall t, (t < n)%nat ->
       fst (predict_one Rltb 0 nd (fun k => metric_value ir_log_squared_euclidean (feat k) (feat t))) = nth t labels 0%nat).
Proof.
  intros feat labels dim fmax n w Hd Hlen Hcls Hrange Hdist.
  exact (capstone_tie_free ir_log_squared_euclidean (fun _ : list R => True) code_sym_log_squared_euclidean feat labels dim fmax
           (conj Hd Hlen) (fun _ _ => I) Hcls (fun x H1 _ => code_zero_self_log_squared_euclidean x H1) Hrange Hdist).
Qed.

Lemma cap_protos_log_squared_euclidean :
  forall (feat : nat -> list R) (labels : list nat) (dim : nat) (fmax : R),
    let n := length labels in
    let w p q := metric_value ir_log_squared_euclidean (feat p) (feat q) in
    (1 <= dim)%nat -> (forall p, (p < n)%nat -> length (feat p) = dim) ->
    (exists a b, (a < n)%nat /\ (b < n)%nat /\ nth a labels 0%nat <> nth b labels 0%nat) ->
    (forall p q, (p < n)%nat -> (q < n)%nat -> p <> q -> w p q < fmax) -> 0 < fmax ->
    let nd := sup_fit Rltb 0 fmax labels w in
    let mst q := nth q (n_pred (find_prototypes Rltb fmax n w (nodes_init 0 labels))) None in
    prototypes_by_mst_R n w labels mst nd.
Proof.
  intros feat labels dim fmax n w Hd Hlen Hcls Hlt Hpos.
  exact (capstone_code_prototypes ir_log_squared_euclidean (fun _ : list R => True) code_sym_log_squared_euclidean (fun x y H1 H2 _ _ => code_nonneg_log_squared_euclidean x y H1 H2) feat labels dim fmax
           (conj Hd Hlen) (fun _ _ => I) Hcls Hlt Hpos).
Qed.

(* ----- canberra ----- *)
Lemma cap_code_canberra :
  forall (feat : nat -> list R) (labels : list nat) (dim : nat) (fmax : R),
    let n := length labels in
    let w p q := metric_value ir_canberra (feat p) (feat q) in
    (1 <= dim)%nat -> (forall p, (p < n)%nat -> length (feat p) = dim) ->
    (forall p, (p < n)%nat -> all_nonneg (feat p)) ->
    (exists a b, (a < n)%nat /\ (b < n)%nat /\ nth a labels 0%nat <> nth b labels 0%nat) ->
    (forall p q, (p < n)%nat -> (q < n)%nat -> p <> q -> w p q < fmax) -> 0 < fmax ->
    let nd := sup_fit Rltb 0 fmax labels w in
    opf_forest_R n w labels nd /\
    forall x : list R, predicts_argmin_R n nd (fun k => metric_value ir_canberra (feat k) x).
Proof.
  intros feat labels dim fmax n w Hd Hlen Hnn Hcls Hlt Hpos.
  exact (capstone_code ir_canberra all_nonneg code_sym_canberra code_nonneg_canberra feat labels dim fmax
           (conj Hd Hlen) Hnn Hcls Hlt Hpos).
Qed.

Lemma cap_closed_canberra :
  forall (feat : nat -> list R) (labels : list nat) (dim : nat) (fmax : R),
    let n := length labels in
    let w p q := sp_canberra (shift (feat p)) (shift (feat q)) in
    (1 <= dim)%nat -> (forall p, (p < n)%nat -> length (feat p) = dim) ->
    (forall p, (p < n)%nat -> all_nonneg (feat p)) ->
    (exists a b, (a < n)%nat /\ (b < n)%nat /\ nth a labels 0%nat <> nth b labels 0%nat) ->
    (forall p q, (p < n)%nat -> (q < n)%nat -> p <> q -> w p q < fmax) -> 0 < fmax ->
    let nd := sup_fit Rltb 0 fmax labels w in
    opf_forest_R n w labels nd /\
    forall x : list R, predicts_argmin_R n nd (fun k => sp_canberra (shift (feat k)) (shift x)).
Proof.
  intros feat labels dim fmax n w Hd Hlen Hnn Hcls Hlt Hpos.
  exact (capstone_closed ir_canberra all_nonneg (fun x y : list R => sp_canberra (shift x) (shift y)) code_nonneg_canberra closed_form_canberra feat labels dim fmax
           (conj Hd Hlen) Hnn Hcls Hlt Hpos).
Qed.

Lemma cap_same_canberra :
  forall (feat : nat -> list R) (labels : list nat) (dim : nat) (fmax : R),
    let n := length labels in
    (1 <= dim)%nat -> (forall p, (p < n)%nat -> length (feat p) = dim) ->
    sup_fit Rltb 0 fmax labels (fun p q => metric_value ir_canberra (feat p) (feat q))
    = sup_fit Rltb 0 fmax labels (fun p q => sp_canberra (shift (feat p)) (shift (feat q))).
Proof.
  intros feat labels dim fmax n Hd Hlen.
  exact (capstone_code_eq_closed ir_canberra (fun x y : list R => sp_canberra (shift x) (shift y)) closed_form_canberra feat labels dim fmax (conj Hd Hlen)).
Qed.

Lemma cap_tiefree_canberra :
  forall (feat : nat -> list R) (labels : list nat) (dim : nat) (fmax : R),
    let n := length labels in
    let w p q := metric_value ir_canberra (feat p) (feat q) in
    (1 <= dim)%nat -> (forall p, (p < n)%nat -> length (feat p) = dim) ->
    (forall p, (p < n)%nat -> all_nonneg (feat p)) ->
    (exists a b, (a < n)%nat /\ (b < n)%nat /\ nth a labels 0%nat <> nth b labels 0%nat) ->
    (forall p q, (p < n)%nat -> (q < n)%nat -> p <> q -> 0 < w p q < fmax) ->
    (forall a b c d, (a < n)%nat -> (b < n)%nat -> (c < n)%nat -> (d < n)%nat -> a <> b -> c <> d ->
       w a b = w c d -> (a = c /\ b = d) \/ (a = d /\ b = c)) ->
    let nd := sup_fit Rltb 0 fmax labels w in
    (forall q, (q < n)%nat -> nth q (n_plabel nd) 0%nat = nth q labels 0%nat) /\
    (forall t, (t < n)%nat ->
       fst (predict_one Rltb 0 nd (fun k => metric_value ir_canberra (feat k) (feat t))) = nth t labels 0%nat).
Proof.
  intros feat labels dim fmax n w Hd Hlen Hnn Hcls Hrange Hdist.
  exact (capstone_tie_free ir_canberra all_nonneg code_sym_canberra feat labels dim fmax
           (conj Hd Hlen) Hnn Hcls code_zero_self_canberra Hrange Hdist).
Qed.

Lemma cap_protos_canberra :
  forall (feat : nat -> list R) (labels : list nat) (dim : nat) (fmax : R),
    let n := length labels in
    let w p q := metric_value ir_canberra (feat p) (feat q) in
    (1 <= dim)%nat -> (forall p, (p < n)%nat -> length (feat p) = dim) ->
    (forall p, (p < n)%nat -> all_nonneg (feat p)) ->
    (exists a b, (a < n)%nat /\ (b < n)%nat /\ nth a labels 0%nat <> nth b labels 0%nat) ->
    (forall p q, (p < n)%nat -> (q < n)%nat -> p <> q -> w p q < fmax) -> 0 < fmax ->
    let nd := sup_fit Rltb 0 fmax labels w in
    let mst q := nth q (n_pred (find_prototypes Rltb fmax n w (nodes_init 0 labels))) None in
    prototypes_by_mst_R n w labels mst nd.
Proof.
  intros feat labels dim fmax n w Hd Hlen Hnn Hcls Hlt Hpos.
  exact (capstone_code_prototypes ir_canberra all_nonneg code_sym_canberra code_nonneg_canberra feat labels dim fmax
           (conj Hd Hlen) Hnn Hcls Hlt Hpos).
Qed.

(* ----- chi_squared ----- *)
Lemma cap_code_chi_squared :
  forall (feat : nat -> list R) (labels : list nat) (dim : nat) (fmax : R),
    let n := length labels in
    let w p q := metric_value ir_chi_squared (feat p) (feat q) in
    (1 <= dim)%nat -> (forall p, (p < n)%nat -> length (feat p) = dim) ->
    (forall p, (p < n)%nat -> all_nonneg (feat p)) ->
    (exists a b, (a < n)%nat /\ (b < n)%nat /\ nth a labels 0%nat <> nth b labels 0%nat) ->
    (forall p q, (p < n)%nat -> (q < n)%nat -> p <> q -> w p q < fmax) -> 0 < fmax ->
    let nd := sup_fit Rltb 0 fmax labels w in
    opf_forest_R n w labels nd /\
    forall x : list R, predicts_argmin_R n nd (fun k => metric_value ir_chi_squared (feat k) x).
Proof.
  intros feat labels dim fmax n w Hd Hlen Hnn Hcls Hlt Hpos.
  exact (capstone_code ir_chi_squared all_nonneg code_sym_chi_squared code_nonneg_chi_squared feat labels dim fmax
           (conj Hd Hlen) Hnn Hcls Hlt Hpos).
Qed.

Lemma cap_closed_chi_squared :
  forall (feat : nat -> list R) (labels : list nat) (dim : nat) (fmax : R),
    let n := length labels in
    let w p q := sp_chi_squared (shift (feat p)) (shift (feat q)) in
    (1 <= dim)%nat -> (forall p, (p < n)%nat -> length (feat p) = dim) ->
    (forall p, (p < n)%nat -> all_nonneg (feat p)) ->
    (exists a b, (a < n)%nat /\ (b < n)%nat /\ nth a labels 0%nat <> nth b labels 0%nat) ->
    (forall p q, (p < n)%nat -> (q < n)%nat -> p <> q -> w p q < fmax) -> 0 < fmax ->
    let nd := sup_fit Rltb 0 fmax labels w in
    opf_forest_R n w labels nd /\
    forall x : list R, predicts_argmin_R n nd (fun k => sp_chi_squared (shift (feat k)) (shift x)).
Proof.
  intros feat labels dim fmax n w Hd Hlen Hnn Hcls Hlt Hpos.
  exact (capstone_closed ir_chi_squared all_nonneg (fun x y : list R => sp_chi_squared (shift x) (shift y)) code_nonneg_chi_squared closed_form_chi_squared feat labels dim fmax
           (conj Hd Hlen) Hnn Hcls Hlt Hpos).
Qed.

Lemma cap_same_chi_squared :
  forall (feat : nat -> list R) (labels : list nat) (dim : nat) (fmax : R),
    let n := length labels in
    (1 <= dim)%nat -> (forall p, (p < n)%nat -> length (feat p) = dim) ->
    sup_fit Rltb 0 fmax labels (fun p q => metric_value ir_chi_squared (feat p) (feat q))
    = sup_fit Rltb 0 fmax labels (fun p q => sp_chi_squared (shift (feat p)) (shift (feat q))).
Proof.
  intros feat labels dim fmax n Hd Hlen.
  exact (capstone_code_eq_closed ir_chi_squared (fun x y : list R => sp_chi_squared (shift x) (shift y)) closed_form_chi_squared feat labels dim fmax (conj Hd Hlen)).
Qed.

Lemma cap_tiefree_chi_squared :
  forall (feat : nat -> list R) (labels : list nat) (dim : nat) (fmax : R),
    let n := length labels in
    let w p q := metric_value ir_chi_squared (feat p) (feat q) in
    (1 <= dim)%nat -> (forall p, (p < n)%nat -> length (feat p) = dim) ->
    (forall p, (p < n)%nat -> all_nonneg (feat p)) ->
    (exists a b, (a < n)%nat /\ (b < n)%nat /\ nth a labels 0%nat <> nth b labels 0%nat) ->
    (forall p q, (p < n)%nat -> (q < n)%nat -> p <> q -> 0 < w p q < fmax) ->
    (forall a b c d, (a < n)%nat -> (b < n)%nat -> (c < n)%nat -> (d < n)%nat -> a <> b -> c <> d ->
       w a b = w c d -> (a = c /\ b = d) \/ (a = d /\ b = c)) ->
    let nd := sup_fit Rltb 0 fmax labels w in
    (forall q, (q < n)%nat -> nth q (n_plabel nd) 0%nat = nth q labels 0%nat) /\
    (forall t, (t < n)%nat ->
       fst (predict_one Rltb 0 nd (fun k => metric_value ir_chi_squared (feat k) (feat t))) = nth t labels 0%nat).
Proof.
  intros feat labels dim fmax n w Hd Hlen Hnn Hcls Hrange Hdist.
  exact (capstone_tie_free ir_chi_squared all_nonneg code_sym_chi_squared feat labels dim fmax
           (conj Hd Hlen) Hnn Hcls code_zero_self_chi_squared Hrange Hdist).
Qed.

Lemma cap_protos_chi_squared :
  forall (feat : nat -> list R) (labels : list nat) (dim : nat) (fmax : R),
    let n := length labels in
    let w p q := metric_value ir_chi_squared (feat p) (feat q) in
    (1 <= dim)%nat -> (forall p, (p < n)%nat -> length (feat p) = dim) ->
    (forall p, (p < n)%nat -> all_nonneg (feat p)) ->
    (exists a b, (a < n)%nat /\ (b < n)%nat /\ nth a labels 0%nat <> nth b labels 0%nat) ->
    (forall p q, (p < n)%nat -> (q < n)%nat -> p <> q -> w p q < fmax) -> 0 < fmax ->
    let nd := sup_fit Rltb 0 fmax labels w in
    let mst q := nth q (n_pred (find_prototypes Rltb fmax n w (nodes_init 0 labels))) None in
    prototypes_by_mst_R n w labels mst nd.
Proof.
  intros feat labels dim fmax n w Hd Hlen Hnn Hcls Hlt Hpos.
  exact (capstone_code_prototypes ir_chi_squared all_nonneg code_sym_chi_squared code_nonneg_chi_squared feat labels dim fmax
           (conj Hd Hlen) Hnn Hcls Hlt Hpos).
Qed.

(* the registry sends the six identifiers to the six code terms used above *)
Lemma cap_resolve_six :
  resolve "euclidean"%string = Some ir_euclidean /\
  resolve "squared_euclidean"%string = Some ir_squared_euclidean /\
  resolve "manhattan"%string = Some ir_manhattan /\
  resolve "log_squared_euclidean"%string = Some ir_log_squared_euclidean /\
  resolve "canberra"%string = Some ir_canberra /\
  resolve "chi_squared"%string = Some ir_chi_squared.
Proof. vm_compute. repeat split; reflexivity. Qed.

(* ---------- all identifiers at once ---------- *)

(* code term, user-level domain of its axioms, closed form (decorator shift folded in) *)
Definition capstone_metrics : list (metric_ir * (list R -> Prop) * (list R -> list R -> R)) :=
  [
       (ir_additive_symmetric, all_nonneg, (fun x y : list R => sp_additive_symmetric (shift x) (shift y)));
       (ir_average_euclidean, (fun _ : list R => True), sp_average_euclidean);
       (ir_bhattacharyya, (fun x : list R => all_nonneg x /\ sum (shift x) = 1), (fun x y : list R => sp_bhattacharyya (shift x) (shift y)));
       (ir_bray_curtis, all_nonneg, (fun x y : list R => sp_bray_curtis (shift x) (shift y)));
       (ir_canberra, all_nonneg, (fun x y : list R => sp_canberra (shift x) (shift y)));
       (ir_chebyshev, (fun _ : list R => True), sp_chebyshev);
       (ir_chi_squared, all_nonneg, (fun x y : list R => sp_chi_squared (shift x) (shift y)));
       (ir_chord, all_nonneg, (fun x y : list R => sp_chord (shift x) (shift y)));
       (ir_clark, all_nonneg, (fun x y : list R => sp_clark (shift x) (shift y)));
       (ir_cosine, all_nonneg, (fun x y : list R => sp_cosine (shift x) (shift y)));
       (ir_dice, all_nonneg, (fun x y : list R => sp_dice (shift x) (shift y)));
       (ir_divergence, all_nonneg, (fun x y : list R => sp_divergence (shift x) (shift y)));
       (ir_euclidean, (fun _ : list R => True), sp_euclidean);
       (ir_gower, (fun _ : list R => True), sp_gower);
       (ir_hamming, (fun _ : list R => True), sp_hamming);
       (ir_hassanat, (fun _ : list R => True), (fun x y : list R => sp_hassanat (shift x) (shift y)));
       (ir_hellinger, all_nonneg, sp_hellinger);
       (ir_jaccard, all_nonneg, (fun x y : list R => sp_jaccard (shift x) (shift y)));
       (ir_jeffreys, all_nonneg, (fun x y : list R => sp_jeffreys (shift x) (shift y)));
       (ir_jensen, all_nonneg, (fun x y : list R => sp_jensen (shift x) (shift y)));
       (ir_jensen_shannon, all_nonneg, (fun x y : list R => sp_jensen_shannon (shift x) (shift y)));
       (ir_kulczynski, all_nonneg, (fun x y : list R => sp_kulczynski (shift x) (shift y)));
       (ir_log_euclidean, (fun _ : list R => True), sp_log_euclidean);
       (ir_log_squared_euclidean, (fun _ : list R => True), sp_log_squared_euclidean);
       (ir_lorentzian, (fun _ : list R => True), sp_lorentzian);
       (ir_manhattan, (fun _ : list R => True), sp_manhattan);
       (ir_matusita, all_nonneg, sp_matusita);
       (ir_max_symmetric, all_nonneg, (fun x y : list R => sp_max_symmetric (shift x) (shift y)));
       (ir_mean_censored_euclidean, all_nonneg, (fun x y : list R => sp_mean_censored_euclidean (shift x) (shift y)));
       (ir_min_symmetric, all_nonneg, (fun x y : list R => sp_min_symmetric (shift x) (shift y)));
       (ir_non_intersection, (fun _ : list R => True), sp_non_intersection);
       (ir_sangvi, all_nonneg, (fun x y : list R => sp_sangvi (shift x) (shift y)));
       (ir_soergel, all_nonneg, (fun x y : list R => sp_soergel (shift x) (shift y)));
       (ir_squared, all_nonneg, (fun x y : list R => sp_squared (shift x) (shift y)));
       (ir_squared_chord, all_nonneg, sp_squared_chord);
       (ir_squared_euclidean, (fun _ : list R => True), sp_squared_euclidean);
       (ir_topsoe, all_nonneg, (fun x y : list R => sp_topsoe (shift x) (shift y)));
       (ir_vicis_symmetric1, all_nonneg, (fun x y : list R => sp_vicis_symmetric1 (shift x) (shift y)));
       (ir_vicis_symmetric2, all_nonneg, (fun x y : list R => sp_vicis_symmetric2 (shift x) (shift y)));
       (ir_vicis_symmetric3, all_nonneg, (fun x y : list R => sp_vicis_symmetric3 (shift x) (shift y)));
       (ir_vicis_wave_hedges, all_nonneg, (fun x y : list R => sp_vicis_wave_hedges (shift x) (shift y))) ].

Definition metric_axioms_ok (t : metric_ir * (list R -> Prop) * (list R -> list R -> R)) : Prop :=
  let '(m, dom, cf) := t in
  (forall x y : list R, length x = length y -> metric_value m x y = metric_value m y x) /\
  (forall x y : list R, length x = length y -> (1 <= length x)%nat -> dom x -> dom y ->
     0 <= metric_value m x y) /\
  (forall x : list R, (1 <= length x)%nat -> dom x -> metric_value m x x = 0) /\
  (forall x y : list R, length x = length y -> metric_value m x y = cf x y).

Lemma capstone_metrics_ok : Forall metric_axioms_ok capstone_metrics.
Proof.
  unfold capstone_metrics.
  repeat (apply Forall_cons; [unfold metric_axioms_ok | ]); [ .. | apply Forall_nil ].
  - exact (conj code_sym_additive_symmetric (conj code_nonneg_additive_symmetric (conj code_zero_self_additive_symmetric closed_form_additive_symmetric))).
  - exact (conj code_sym_average_euclidean (conj (fun x y H1 H2 _ _ => code_nonneg_average_euclidean x y H1 H2) (conj (fun x H1 _ => code_zero_self_average_euclidean x H1) closed_form_average_euclidean))).
  - exact (conj code_sym_bhattacharyya (conj (fun x y H1 H2 Dx Dy => code_nonneg_bhattacharyya x y H1 H2 (proj1 Dx) (proj1 Dy) (proj2 Dx) (proj2 Dy)) (conj (fun x H1 D => code_zero_self_bhattacharyya x H1 (proj1 D) (proj2 D)) closed_form_bhattacharyya))).
  - exact (conj code_sym_bray_curtis (conj code_nonneg_bray_curtis (conj code_zero_self_bray_curtis closed_form_bray_curtis))).
  - exact (conj code_sym_canberra (conj code_nonneg_canberra (conj code_zero_self_canberra closed_form_canberra))).
  - exact (conj code_sym_chebyshev (conj (fun x y H1 H2 _ _ => code_nonneg_chebyshev x y H1 H2) (conj (fun x H1 _ => code_zero_self_chebyshev x H1) closed_form_chebyshev))).
  - exact (conj code_sym_chi_squared (conj code_nonneg_chi_squared (conj code_zero_self_chi_squared closed_form_chi_squared))).
  - exact (conj code_sym_chord (conj code_nonneg_chord (conj code_zero_self_chord closed_form_chord))).
  - exact (conj code_sym_clark (conj code_nonneg_clark (conj code_zero_self_clark closed_form_clark))).
  - exact (conj code_sym_cosine (conj code_nonneg_cosine (conj code_zero_self_cosine closed_form_cosine))).
  - exact (conj code_sym_dice (conj code_nonneg_dice (conj code_zero_self_dice closed_form_dice))).
  - exact (conj code_sym_divergence (conj code_nonneg_divergence (conj code_zero_self_divergence closed_form_divergence))).
  - exact (conj code_sym_euclidean (conj (fun x y H1 H2 _ _ => code_nonneg_euclidean x y H1 H2) (conj (fun x H1 _ => code_zero_self_euclidean x H1) closed_form_euclidean))).
  - exact (conj code_sym_gower (conj (fun x y H1 H2 _ _ => code_nonneg_gower x y H1 H2) (conj (fun x H1 _ => code_zero_self_gower x H1) closed_form_gower))).
  - exact (conj code_sym_hamming (conj (fun x y H1 H2 _ _ => code_nonneg_hamming x y H1 H2) (conj (fun x H1 _ => code_zero_self_hamming x H1) closed_form_hamming))).
  - exact (conj code_sym_hassanat (conj (fun x y H1 H2 _ _ => code_nonneg_hassanat x y H1 H2) (conj (fun x H1 _ => code_zero_self_hassanat x H1) closed_form_hassanat))).
  - exact (conj code_sym_hellinger (conj code_nonneg_hellinger (conj code_zero_self_hellinger closed_form_hellinger))).
  - exact (conj code_sym_jaccard (conj code_nonneg_jaccard (conj code_zero_self_jaccard closed_form_jaccard))).
  - exact (conj code_sym_jeffreys (conj code_nonneg_jeffreys (conj code_zero_self_jeffreys closed_form_jeffreys))).
  - exact (conj code_sym_jensen (conj code_nonneg_jensen (conj code_zero_self_jensen closed_form_jensen))).
  - exact (conj code_sym_jensen_shannon (conj code_nonneg_jensen_shannon (conj code_zero_self_jensen_shannon closed_form_jensen_shannon))).
  - exact (conj code_sym_kulczynski (conj code_nonneg_kulczynski (conj code_zero_self_kulczynski closed_form_kulczynski))).
  - exact (conj code_sym_log_euclidean (conj (fun x y H1 H2 _ _ => code_nonneg_log_euclidean x y H1 H2) (conj (fun x H1 _ => code_zero_self_log_euclidean x H1) closed_form_log_euclidean))).
  - exact (conj code_sym_log_squared_euclidean (conj (fun x y H1 H2 _ _ => code_nonneg_log_squared_euclidean x y H1 H2) (conj (fun x H1 _ => code_zero_self_log_squared_euclidean x H1) closed_form_log_squared_euclidean))).
  - exact (conj code_sym_lorentzian (conj (fun x y H1 H2 _ _ => code_nonneg_lorentzian x y H1 H2) (conj (fun x H1 _ => code_zero_self_lorentzian x H1) closed_form_lorentzian))).
  - exact (conj code_sym_manhattan (conj (fun x y H1 H2 _ _ => code_nonneg_manhattan x y H1 H2) (conj (fun x H1 _ => code_zero_self_manhattan x H1) closed_form_manhattan))).
  - exact (conj code_sym_matusita (conj code_nonneg_matusita (conj code_zero_self_matusita closed_form_matusita))).
  - exact (conj code_sym_max_symmetric (conj code_nonneg_max_symmetric (conj code_zero_self_max_symmetric closed_form_max_symmetric))).
  - exact (conj code_sym_mean_censored_euclidean (conj code_nonneg_mean_censored_euclidean (conj code_zero_self_mean_censored_euclidean closed_form_mean_censored_euclidean))).
  - exact (conj code_sym_min_symmetric (conj code_nonneg_min_symmetric (conj code_zero_self_min_symmetric closed_form_min_symmetric))).
  - exact (conj code_sym_non_intersection (conj (fun x y H1 H2 _ _ => code_nonneg_non_intersection x y H1 H2) (conj (fun x H1 _ => code_zero_self_non_intersection x H1) closed_form_non_intersection))).
  - exact (conj code_sym_sangvi (conj code_nonneg_sangvi (conj code_zero_self_sangvi closed_form_sangvi))).
  - exact (conj code_sym_soergel (conj code_nonneg_soergel (conj code_zero_self_soergel closed_form_soergel))).
  - exact (conj code_sym_squared (conj code_nonneg_squared (conj code_zero_self_squared closed_form_squared))).
  - exact (conj code_sym_squared_chord (conj code_nonneg_squared_chord (conj code_zero_self_squared_chord closed_form_squared_chord))).
  - exact (conj code_sym_squared_euclidean (conj (fun x y H1 H2 _ _ => code_nonneg_squared_euclidean x y H1 H2) (conj (fun x H1 _ => code_zero_self_squared_euclidean x H1) closed_form_squared_euclidean))).
  - exact (conj code_sym_topsoe (conj code_nonneg_topsoe (conj code_zero_self_topsoe closed_form_topsoe))).
  - exact (conj code_sym_vicis_symmetric1 (conj code_nonneg_vicis_symmetric1 (conj code_zero_self_vicis_symmetric1 closed_form_vicis_symmetric1))).
  - exact (conj code_sym_vicis_symmetric2 (conj code_nonneg_vicis_symmetric2 (conj code_zero_self_vicis_symmetric2 closed_form_vicis_symmetric2))).
  - exact (conj code_sym_vicis_symmetric3 (conj code_nonneg_vicis_symmetric3 (conj code_zero_self_vicis_symmetric3 closed_form_vicis_symmetric3))).
  - exact (conj code_sym_vicis_wave_hedges (conj code_nonneg_vicis_wave_hedges (conj code_zero_self_vicis_wave_hedges closed_form_vicis_wave_hedges))).
Qed.

Lemma capstone_metrics_in m dom cf : In (m, dom, cf) capstone_metrics -> metric_axioms_ok (m, dom, cf).
Proof. intro H. exact (proj1 (Forall_forall _ _) capstone_metrics_ok _ H). Qed.

Theorem cap_all_code :
  forall (m : metric_ir) (dom : list R -> Prop) (cf : list R -> list R -> R),
    In (m, dom, cf) capstone_metrics ->
    forall (feat : nat -> list R) (labels : list nat) (dim : nat) (fmax : R),
    let n := length labels in
    let w p q := metric_value m (feat p) (feat q) in
    (1 <= dim)%nat -> (forall p, (p < n)%nat -> length (feat p) = dim) ->
    (forall p, (p < n)%nat -> dom (feat p)) ->
    (exists a b, (a < n)%nat /\ (b < n)%nat /\ nth a labels 0%nat <> nth b labels 0%nat) ->
    (forall p q, (p < n)%nat -> (q < n)%nat -> p <> q -> w p q < fmax) -> 0 < fmax ->
    let nd := sup_fit Rltb 0 fmax labels w in
    opf_forest_R n w labels nd /\
    forall x : list R, predicts_argmin_R n nd (fun k => metric_value m (feat k) x).
Proof.
  intros m dom cf Hin feat labels dim fmax n w Hd Hlen Hdom Hcls Hlt Hpos.
  destruct (capstone_metrics_in m dom cf Hin) as (Hs & Hn & _ & _).
  exact (capstone_code m dom Hs Hn feat labels dim fmax (conj Hd Hlen) Hdom Hcls Hlt Hpos).
Qed.

Theorem cap_all_closed :
  forall (m : metric_ir) (dom : list R -> Prop) (cf : list R -> list R -> R),
    In (m, dom, cf) capstone_metrics ->
    forall (feat : nat -> list R) (labels : list nat) (dim : nat) (fmax : R),
    let n := length labels in
    let w p q := cf (feat p) (feat q) in
    (1 <= dim)%nat -> (forall p, (p < n)%nat -> length (feat p) = dim) ->
    (forall p, (p < n)%nat -> dom (feat p)) ->
    (exists a b, (a < n)%nat /\ (b < n)%nat /\ nth a labels 0%nat <> nth b labels 0%nat) ->
    (forall p q, (p < n)%nat -> (q < n)%nat -> p <> q -> w p q < fmax) -> 0 < fmax ->
    let nd := sup_fit Rltb 0 fmax labels w in
    nd = sup_fit Rltb 0 fmax labels (fun p q => metric_value m (feat p) (feat q)) /\
    opf_forest_R n w labels nd /\
    forall x : list R, predicts_argmin_R n nd (fun k => cf (feat k) x).
Proof.
  intros m dom cf Hin feat labels dim fmax n w Hd Hlen Hdom Hcls Hlt Hpos.
  destruct (capstone_metrics_in m dom cf Hin) as (Hs & Hn & _ & Hc).
  split.
  - symmetry. exact (capstone_code_eq_closed m cf Hc feat labels dim fmax (conj Hd Hlen)).
  - exact (capstone_closed m dom cf Hn Hc feat labels dim fmax (conj Hd Hlen) Hdom Hcls Hlt Hpos).
Qed.

Theorem cap_all_tiefree :
  forall (m : metric_ir) (dom : list R -> Prop) (cf : list R -> list R -> R),
    In (m, dom, cf) capstone_metrics ->
    forall (feat : nat -> list R) (labels : list nat) (dim : nat) (fmax : R),
    let n := length labels in
    let w p q := metric_value m (feat p) (feat q) in
    (1 <= dim)%nat -> (forall p, (p < n)%nat -> length (feat p) = dim) ->
    (forall p, (p < n)%nat -> dom (feat p)) ->
    (exists a b, (a < n)%nat /\ (b < n)%nat /\ nth a labels 0%nat <> nth b labels 0%nat) ->
    (forall p q, (p < n)%nat -> (q < n)%nat -> p <> q -> 0 < w p q < fmax) ->
    (forall a b c d, (a < n)%nat -> (b < n)%nat -> (c < n)%nat -> (d < n)%nat -> a <> b -> c <> d ->
       w a b = w c d -> (a = c /\ b = d) \/ (a = d /\ b = c)) ->
    let nd := sup_fit Rltb 0 fmax labels w in
    (forall q, (q < n)%nat -> nth q (n_plabel nd) 0%nat = nth q labels 0%nat) /\
    (forall t, (t < n)%nat ->
       fst (predict_one Rltb 0 nd (fun k => metric_value m (feat k) (feat t))) = nth t labels 0%nat).
Proof.
  intros m dom cf Hin feat labels dim fmax n w Hd Hlen Hdom Hcls Hrange Hdist.
  destruct (capstone_metrics_in m dom cf Hin) as (Hs & _ & Hz & _).
  exact (capstone_tie_free m dom Hs feat labels dim fmax (conj Hd Hlen) Hdom Hcls Hz Hrange Hdist).
Qed.
