(* The binary64 evaluator of Model/MetricFlt.v refines the rounded-real evaluator of Model/MetricRnd.v at [rnd64]:
   if the CHECKED evaluator [metric_fltc] (every intermediate float finite) returns [Some f] on finite vectors of equal
   length, then [metric_rnd_shift cvalD rnd64] (= [metric_rnd rnd64] with the decorator adding the DOUBLE's value) returns
   [Some (f2r f)] on the real values of the vectors; and [metric_fltc m x y = Some f -> metric_flt m x y = Some f].
   By mutual induction on sexpr / vexpr from the operation lemmas of Proofs/MetricFltOps.v. *)
From Coq Require Import Reals ZArith QArith Qreals Lia Lra Floats String List Bool FunctionalExtensionality.
From Flocq Require Import Core.
From OPF Require Import Base.NumOps Model.Consts Model.Effects Spec.MetricSpec Gen.Consts_gen Gen.ConstsFlt_gen Model.MetricIR
     Gen.Metrics_gen Gen.Decorator_gen Model.MetricRnd Model.Binary64 Proofs.Binary64 Proofs.Binary64Ops
     Model.MetricFlt Model.MetricFltRefine Proofs.IRLemmas Proofs.RobustSign Proofs.MetricFltOps.
Import ListNotations.
Local Open Scope R_scope.

Notation Zlen_ok x := (Z.of_nat (length x) <= 2 ^ 53)%Z.

(* ---------- lists ---------- *)
Lemma map2_map {A B C} (g : B -> B -> C) (h : A -> B) x y :
  map2 g (map h x) (map h y) = map2 (fun a b => g (h a) (h b)) x y.
Proof. revert y; induction x as [|a x IH]; intros [|b y]; cbn [map map2]; auto. now rewrite IH. Qed.

Lemma oseq_length {A} (l' : list (option A)) l : oseq l' = Some l -> length l = length l'.
Proof.
  revert l; induction l' as [|o t IH]; intros l; cbn [oseq].
  - intros [= <-]. reflexivity.
  - destruct o as [a|]; [|discriminate]. destruct (oseq t) as [r|]; [|discriminate].
    intros [= <-]. cbn [length]. f_equal. now apply IH.
Qed.

Lemma oseq_map2_rel {A B} (F : pfloat -> pfloat -> option A) (G : R -> R -> option B) (h : A -> B) (P : A -> Prop) x y l :
  all_fin x -> all_fin y ->
  (forall a b r, ffin a = true -> ffin b = true -> F a b = Some r -> P r /\ G (f2r a) (f2r b) = Some (h r)) ->
  oseq (map2 F x y) = Some l ->
  Forall P l /\ oseq (map2 G (map f2r x) (map f2r y)) = Some (map h l).
Proof.
  intros HX HY HF. revert y HY l. induction HX as [|a x Ha HX IH]; intros [|b y] HY l; cbn [map map2 oseq];
    try (intros [= <-]; split; [constructor | reflexivity]).
  inversion HY as [|b' y' Hb HY']; subst.
  destruct (F a b) as [r|] eqn:Er; [|discriminate].
  destruct (oseq (map2 F x y)) as [t|] eqn:Et; [|discriminate].
  intros [= <-]. destruct (HF a b r Ha Hb Er) as [Pr Gr]. destruct (IH y HY' t Et) as [Pt Gt].
  rewrite Gr, Gt. split; [constructor; assumption | reflexivity].
Qed.

(* the same shape for the two evaluators at ck = true / false *)
Lemma oseq_map2_mono {A} (F1 F2 : pfloat -> pfloat -> option A) x y l :
  (forall a b r, F1 a b = Some r -> F2 a b = Some r) ->
  oseq (map2 F1 x y) = Some l -> oseq (map2 F2 x y) = Some l.
Proof.
  intros HF. revert y l. induction x as [|a x IH]; intros [|b y] l; cbn [map2 oseq]; auto.
  destruct (F1 a b) as [r|] eqn:Er; [|discriminate].
  destruct (oseq (map2 F1 x y)) as [t|] eqn:Et; [|discriminate].
  intros [= <-]. rewrite (HF a b r Er), (IH y t Et). reflexivity.
Qed.

Lemma oseq_map_mono {A} (F1 F2 : pfloat -> option A) x l :
  (forall a r, F1 a = Some r -> F2 a = Some r) -> oseq (map F1 x) = Some l -> oseq (map F2 x) = Some l.
Proof.
  intros HF. revert l. induction x as [|a x IH]; intros l; cbn [map oseq]; auto.
  destruct (F1 a) as [r|] eqn:Er; [|discriminate].
  destruct (oseq (map F1 x)) as [t|] eqn:Et; [|discriminate].
  intros [= <-]. rewrite (HF a r Er), (IH t eq_refl). reflexivity.
Qed.

(* ---------- unfolding equations of the pfloat evaluator ---------- *)
Section EqsF.
  Variables (ck : bool) (call : string -> list pfloat -> list pfloat -> option pfloat) (pe : string -> option pfloat) (zd : bool).
  Local Notation eS := (evalSF ck call pe zd).
  Local Notation eV := (evalVF ck call pe zd).

  Lemma evalSF_SSum v x y : eS (SSum v) x y = obind (oseq (map2 (fun a b => eV v x y a b) x y)) (fsum ck).
  Proof. reflexivity. Qed.
  Lemma evalSF_SAmax v x y : eS (SAmax v) x y = obind (oseq (map2 (fun a b => eV v x y a b) x y)) famax.
  Proof. reflexivity. Qed.
  Lemma evalSF_SCountNe u v x y :
    eS (SCountNe u v) x y
    = obind (oseq (map2 (fun a b => obind2 (eV u x y a b) (eV v x y a b) (fun p q => Some (p, q))) x y))
            (fun l => Some (fcountne l)).
  Proof. reflexivity. Qed.
  Lemma evalSF_SBin o s1 s2 x y : eS (SBin o s1 s2) x y = obind2 (eS s1 x y) (eS s2 x y) (binF ck zd o).
  Proof. reflexivity. Qed.
  Lemma evalSF_SUn o s1 x y : eS (SUn o s1) x y = obind (eS s1 x y) (unF ck o).
  Proof. reflexivity. Qed.
  Lemma evalSF_SPowC s1 p x y : eS (SPowC s1 p) x y = obind (eS s1 x y) (powF ck p).
  Proof. reflexivity. Qed.
  Lemma evalSF_SCall f u v x y :
    eS (SCall f u v) x y
    = obind2 (oseq (map2 (fun a b => eV u x y a b) x y)) (oseq (map2 (fun a b => eV v x y a b) x y)) (call f).
  Proof. reflexivity. Qed.
  Lemma evalVF_VConstS s x y a b : eV (VConstS s) x y a b = eS s x y.
  Proof. reflexivity. Qed.
  Lemma evalVF_VBin o v1 v2 x y a b :
    eV (VBin o v1 v2) x y a b = obind2 (eV v1 x y a b) (eV v2 x y a b) (binF ck false o).
  Proof. reflexivity. Qed.
  Lemma evalVF_VUn o v1 x y a b : eV (VUn o v1) x y a b = obind (eV v1 x y a b) (unF ck o).
  Proof. reflexivity. Qed.
  Lemma evalVF_VPowC v1 p x y a b : eV (VPowC v1 p) x y a b = obind (eV v1 x y a b) (powF ck p).
  Proof. reflexivity. Qed.
  Lemma evalVF_VSel c l r v1 v2 x y a b :
    eV (VSel c l r v1 v2) x y a b
    = obind2 (eV l x y a b) (eV r x y a b) (fun p q => if cmpF c p q then eV v1 x y a b else eV v2 x y a b).
  Proof. reflexivity. Qed.
End EqsF.

(* ---------- the operators ---------- *)
Lemma binF_ok zd o a b r : ffin a = true -> ffin b = true -> binF true zd o a b = Some r ->
  ffin r = true /\ binRnd rnd64 o (f2r a) (f2r b) = Some (f2r r).
Proof.
  intros Fa Fb. destruct o; cbn [binF binRnd].
  - intros H. apply ret_true in H. destruct H as [-> F]. split; [exact F|]. now rewrite fadd_ok.
  - intros H. apply ret_true in H. destruct H as [-> F]. split; [exact F|]. now rewrite fsub_ok.
  - intros H. apply ret_true in H. destruct H as [-> F]. split; [exact F|]. now rewrite fmul_ok.
  - destruct (zd && PrimFloat.eqb b PrimFloat.zero)%bool; [discriminate|].
    intros H. apply ret_true in H. destruct H as [-> F]. split; [exact F|].
    destruct (fdiv_ok a b Fa Fb F) as [Nz E]. destruct (Req_EM_T (f2r b) 0) as [Z|_]; [now elim Nz|]. now rewrite E.
  - intros [= <-]. destruct (fmin_ok a b Fa Fb) as [F E]. split; [exact F|]. now rewrite E.
  - intros [= <-]. destruct (fmax_ok a b Fa Fb) as [F E]. split; [exact F|]. now rewrite E.
Qed.

Lemma unF_ok o a r : ffin a = true -> unF true o a = Some r ->
  ffin r = true /\ unRnd rnd64 o (f2r a) = Some (f2r r).
Proof.
  intros Fa. destruct o; cbn [unF unRnd]; try discriminate.
  - intros [= <-]. destruct (f2r_opp a) as [F E]. split; [now rewrite F|]. now rewrite E.
  - intros [= <-]. destruct (fabs_ok a) as [F E]. split; [now rewrite F|]. now rewrite E.
  - intros H. apply ret_true in H. destruct H as [-> F]. split; [exact F|].
    destruct (fsqrt_ok a Fa F) as [N E]. destruct (Rlt_dec (f2r a) 0) as [L|_]; [lra|]. now rewrite E.
Qed.

Lemma powF_ok c a r : ffin a = true -> powF true c a = Some r ->
  ffin r = true /\ powRnd rnd64 c (f2r a) = Some (f2r r).
Proof.
  intros Fa. destruct c; cbn [powF powRnd].
  - intros H. apply ret_true in H. destruct H as [-> F]. split; [exact F|].
    rewrite (fmul_ok a a Fa Fa F). do 2 f_equal. ring.
  - intros H. apply ret_true in H. destruct H as [-> F]. split; [exact F|].
    destruct (fsqrt_ok a Fa F) as [N E]. destruct (Rlt_dec (f2r a) 0) as [L|_]; [lra|]. now rewrite E.
Qed.

(* ---------- the reductions ---------- *)
Lemma fsum_from_ok l : forall acc r, ffin acc = true -> all_fin l -> fsum_from true acc l = Some r ->
  ffin r = true /\ f2r r = fold_left (fun s e => rnd64 (s + e)) (map f2r l) (f2r acc).
Proof.
  induction l as [|e t IH]; intros acc r Fa Fl; cbn [fsum_from map fold_left].
  - intros [= <-]. auto.
  - inversion Fl as [|e' t' Fe Ft]; subst. intros H. apply obind_some in H. destruct H as [a [Ha Hr]].
    apply ret_true in Ha. destruct Ha as [-> F]. rewrite <- (fadd_ok acc e Fa Fe F). now apply IH.
Qed.

Lemma rsum_fold l : Forall (fun a => rnd64 a = a) l ->
  rsum rnd64 l = fold_left (fun s e => rnd64 (s + e)) l 0.
Proof.
  destruct l as [|a t]; [reflexivity|]. intros H. inversion H as [|a' t' Ha Ht]; subst.
  cbn [rsum fold_left]. rewrite Rplus_0_l, Ha. reflexivity.
Qed.

Lemma fsum_ok l r : all_fin l -> fsum true l = Some r -> ffin r = true /\ rsum rnd64 (map f2r l) = f2r r.
Proof.
  intros Fl H. destruct (fsum_from_ok l PrimFloat.zero r (proj1 f2r_zero) Fl H) as [F E]. split; [exact F|].
  rewrite rsum_fold; [|apply Forall_forall; intros a Ha; apply in_map_iff in Ha; destruct Ha as [b [<- _]]; apply f2r_format].
  rewrite E, (proj2 f2r_zero). reflexivity.
Qed.

Lemma famax_fold t : forall a, ffin a = true -> all_fin t ->
  ffin (fold_left famax_step t a) = true /\ f2r (fold_left famax_step t a) = fold_left Rmax (map f2r t) (f2r a).
Proof.
  induction t as [|e t IH]; intros a Fa Ft; cbn [fold_left map]; [auto|].
  inversion Ft as [|e' t' Fe Ft']; subst. destruct (famax_step_ok a e Fa Fe) as [F E]. rewrite <- E. now apply IH.
Qed.

Lemma famax_ok l r : all_fin l -> famax l = Some r -> ffin r = true /\ lmax (map f2r l) = f2r r.
Proof.
  destruct l as [|a t]; cbn [famax]; [discriminate|]. intros Fl [= <-]. inversion Fl as [|a' t' Fa Ft]; subst.
  destruct (famax_fold t a Fa Ft) as [F E]. split; [exact F|]. cbn [map lmax]. now rewrite E.
Qed.

Definition pair_fin (p : pfloat * pfloat) : Prop := ffin (fst p) = true /\ ffin (snd p) = true.
Definition pair_r (p : pfloat * pfloat) : R * R := (f2r (fst p), f2r (snd p)).

Lemma countne_len l : Forall pair_fin l ->
  countne (map pair_r l)
  = INR (length (filter (fun p => negb (PrimFloat.eqb (fst p) (snd p))) l)).
Proof.
  unfold countne, sum. induction 1 as [|p l [F1 F2] Hl IH]; [reflexivity|].
  cbn [map filter fold_right]. rewrite IH. unfold pair_r at 1 2. cbn [fst snd].
  rewrite <- (fneqb_ok _ _ F1 F2). destruct (negb (PrimFloat.eqb (fst p) (snd p))).
  - cbn [length]. rewrite S_INR. ring.
  - ring.
Qed.

Lemma filter_len_le {A} (f : A -> bool) l : (length (filter f l) <= length l)%nat.
Proof. induction l as [|a l IH]; cbn [filter length]; [lia | destruct (f a); cbn [length]; lia]. Qed.

Lemma fcountne_ok l : Forall pair_fin l -> Zlen_ok l ->
  ffin (fcountne l) = true /\ countne (map pair_r l) = f2r (fcountne l).
Proof.
  intros Fl HL. rewrite (countne_len l Fl). unfold fcountne.
  pose proof (filter_len_le (fun p => negb (PrimFloat.eqb (fst p) (snd p))) l) as Hle.
  destruct (f2r_ofnat (length (filter (fun p => negb (PrimFloat.eqb (fst p) (snd p))) l))) as [F E]; [lia|].
  split; [exact F | now rewrite E].
Qed.

(* ---------- literals and constants ---------- *)
Lemma Q_same_eq p q : Q_same p q = true -> p = q.
Proof.
  destruct p as [pn pd], q as [qn qd]. unfold Q_same. cbn [Qnum Qden]. intros H. apply andb_prop in H. destruct H as [H1 H2].
  apply Z.eqb_eq in H1. apply Pos.eqb_eq in H2. now subst.
Qed.

Lemma lit_lookup_ok t q f : forallb (fun qf => flt_is_Q (snd qf) (fst qf)) t = true ->
  lit_lookup t q = Some f -> ffin f = true /\ f2r f = Q2R q.
Proof.
  induction t as [|[k g] t IH]; cbn [lit_lookup forallb fst snd]; [discriminate|].
  intros H. apply andb_prop in H. destruct H as [Hk Ht]. destruct (Q_same q k) eqn:E.
  - intros [= <-]. apply Q_same_eq in E. subst k. now apply flt_is_Q_sound.
  - now apply IH.
Qed.

Lemma litF_ok q f : lits_exact = true -> litF q = Some f -> ffin f = true /\ f2r f = Q2R q.
Proof. intros H. now apply lit_lookup_ok. Qed.

Lemma const_exact_ok n : const_exact n = true -> exists f, cvalF n = Some f /\ ffin f = true /\ f2r f = cvalR n.
Proof.
  unfold const_exact, cvalR. destruct (cvalF n) as [f|]; [|discriminate]. destruct (cvalQ n) as [q|]; [|discriminate].
  intros H. exists f. split; [reflexivity|]. now apply flt_is_Q_sound.
Qed.

(* ---------- bodies ---------- *)
Section Body.
  Variable callF : string -> list pfloat -> list pfloat -> option pfloat.
  Variable callR : string -> list R -> list R -> option R.
  Variable peF : string -> option pfloat.
  Variable peR : string -> R.
  Variable zd : bool.
  Hypothesis Hcall : forall f xs ys r, all_fin xs -> all_fin ys -> length xs = length ys -> Zlen_ok xs ->
    callF f xs ys = Some r -> ffin r = true /\ callR f (map f2r xs) (map f2r ys) = Some (f2r r).
  Hypothesis Hpe : forall p f, peF p = Some f -> ffin f = true -> peR p = f2r f.
  Hypothesis Hlits : lits_exact = true.

  Local Notation eSF := (evalSF true callF peF zd).
  Local Notation eVF := (evalVF true callF peF zd).
  Local Notation eSR := (evalSR rnd64 callR peR).
  Local Notation eVR := (evalVR rnd64 callR peR).

  Definition PV (v : vexpr) : Prop := forall x y a b r,
    all_fin x -> all_fin y -> length x = length y -> Zlen_ok x -> consts_exactV v = true ->
    ffin a = true -> ffin b = true -> eVF v x y a b = Some r ->
    ffin r = true /\ eVR v (map f2r x) (map f2r y) (f2r a) (f2r b) = Some (f2r r).

  Definition PS (s : sexpr) : Prop := forall x y r,
    all_fin x -> all_fin y -> length x = length y -> Zlen_ok x -> consts_exactS s = true ->
    eSF s x y = Some r ->
    ffin r = true /\ eSR s (map f2r x) (map f2r y) = Some (f2r r).

  Lemma vec_ok v x y l : PV v -> all_fin x -> all_fin y -> length x = length y -> Zlen_ok x -> consts_exactV v = true ->
    oseq (map2 (fun a b => eVF v x y a b) x y) = Some l ->
    all_fin l /\ length l = length x
    /\ oseq (map2 (fun a b => eVR v (map f2r x) (map f2r y) a b) (map f2r x) (map f2r y)) = Some (map f2r l).
  Proof.
    intros HV Fx Fy HL HZ HC Hl.
    destruct (oseq_map2_rel (fun a b => eVF v x y a b) (fun a b => eVR v (map f2r x) (map f2r y) a b) f2r
                            (fun r => ffin r = true) x y l Fx Fy) as [Pl Gl]; [|exact Hl|].
    - intros a b r Fa Fb Hr. exact (HV x y a b r Fx Fy HL HZ HC Fa Fb Hr).
    - split; [exact Pl|]. split; [|exact Gl]. rewrite (oseq_length _ _ Hl). now apply map2_length.
  Qed.

  Lemma body_ok : (forall v, PV v) /\ (forall s, PS s).
  Proof.
    apply expr_mutind; unfold PV, PS.
    - (* VX *) intros x y a b r _ _ _ _ _ Fa _ [= <-]. auto.
    - (* VY *) intros x y a b r _ _ _ _ _ _ Fb [= <-]. auto.
    - (* VConstS *) intros s IH x y a b r Fx Fy HL HZ HC _ _ H. rewrite evalVF_VConstS in H. rewrite evalVR_VConstS.
      exact (IH x y r Fx Fy HL HZ HC H).
    - (* VBin *) intros o v1 IH1 v2 IH2 x y a b r Fx Fy HL HZ HC Fa Fb H.
      cbn [consts_exactV] in HC. apply andb_prop in HC. destruct HC as [C1 C2].
      rewrite evalVF_VBin in H. apply obind2_some in H. destruct H as [r1 [r2 [H1 [H2 H]]]].
      destruct (IH1 x y a b r1 Fx Fy HL HZ C1 Fa Fb H1) as [F1 E1]. destruct (IH2 x y a b r2 Fx Fy HL HZ C2 Fa Fb H2) as [F2 E2].
      rewrite evalVR_VBin, E1, E2. cbn [obind2]. exact (binF_ok false o r1 r2 r F1 F2 H).
    - (* VUn *) intros o v1 IH1 x y a b r Fx Fy HL HZ HC Fa Fb H. cbn [consts_exactV] in HC.
      rewrite evalVF_VUn in H. apply obind_some in H. destruct H as [r1 [H1 H]].
      destruct (IH1 x y a b r1 Fx Fy HL HZ HC Fa Fb H1) as [F1 E1]. rewrite evalVR_VUn, E1. cbn [obind]. exact (unF_ok o r1 r F1 H).
    - (* VPowC *) intros v1 IH1 c x y a b r Fx Fy HL HZ HC Fa Fb H. cbn [consts_exactV] in HC.
      rewrite evalVF_VPowC in H. apply obind_some in H. destruct H as [r1 [H1 H]].
      destruct (IH1 x y a b r1 Fx Fy HL HZ HC Fa Fb H1) as [F1 E1]. rewrite evalVR_VPowC, E1. cbn [obind]. exact (powF_ok c r1 r F1 H).
    - (* VSel *) intros c l IHl r0 IHr v1 IH1 v2 IH2 x y a b r Fx Fy HL HZ HC Fa Fb H.
      cbn [consts_exactV] in HC. apply andb_prop in HC. destruct HC as [HC C4]. apply andb_prop in HC. destruct HC as [HC C3].
      apply andb_prop in HC. destruct HC as [C1 C2].
      rewrite evalVF_VSel in H. apply obind2_some in H. destruct H as [p [q [Hp [Hq H]]]].
      destruct (IHl x y a b p Fx Fy HL HZ C1 Fa Fb Hp) as [Fp Ep]. destruct (IHr x y a b q Fx Fy HL HZ C2 Fa Fb Hq) as [Fq Eq].
      rewrite evalVR_VSel, Ep, Eq. cbn [obind2]. rewrite <- (cmpF_ok c p q Fp Fq).
      destruct (cmpF c p q); [exact (IH1 x y a b r Fx Fy HL HZ C3 Fa Fb H) | exact (IH2 x y a b r Fx Fy HL HZ C4 Fa Fb H)].
    - (* SSum *) intros v IH x y r Fx Fy HL HZ HC H. cbn [consts_exactS] in HC.
      rewrite evalSF_SSum in H. apply obind_some in H. destruct H as [l [Hl H]].
      destruct (vec_ok v x y l IH Fx Fy HL HZ HC Hl) as [Fl [_ El]].
      rewrite evalSR_SSum, El. cbn [obind]. destruct (fsum_ok l r Fl H) as [F E]. split; [exact F | now rewrite E].
    - (* SAmax *) intros v IH x y r Fx Fy HL HZ HC H. cbn [consts_exactS] in HC.
      rewrite evalSF_SAmax in H. apply obind_some in H. destruct H as [l [Hl H]].
      destruct (vec_ok v x y l IH Fx Fy HL HZ HC Hl) as [Fl [_ El]].
      rewrite evalSR_SAmax, El. cbn [obind]. destruct (famax_ok l r Fl H) as [F E]. split; [exact F | now rewrite E].
    - (* SCountNe *) intros u IHu v IHv x y r Fx Fy HL HZ HC H.
      cbn [consts_exactS] in HC. apply andb_prop in HC. destruct HC as [C1 C2].
      rewrite evalSF_SCountNe in H. apply obind_some in H. destruct H as [l [Hl H]]. injection H as <-.
      destruct (oseq_map2_rel (fun a b => obind2 (eVF u x y a b) (eVF v x y a b) (fun p q => Some (p, q)))
                  (fun a b => obind2 (eVR u (map f2r x) (map f2r y) a b) (eVR v (map f2r x) (map f2r y) a b) (fun p q => Some (p, q)))
                  pair_r pair_fin x y l Fx Fy) as [Pl Gl]; [|exact Hl|].
      + intros a b pq Fa Fb Hpq. apply obind2_some in Hpq. destruct Hpq as [p [q [Hp [Hq Hpq]]]]. injection Hpq as <-.
        destruct (IHu x y a b p Fx Fy HL HZ C1 Fa Fb Hp) as [Fp Ep]. destruct (IHv x y a b q Fx Fy HL HZ C2 Fa Fb Hq) as [Fq Eq].
        split; [split; assumption|]. rewrite Ep, Eq. reflexivity.
      + rewrite evalSR_SCountNe, Gl. cbn [obind].
        assert (Ll : length l = length x) by (rewrite (oseq_length _ _ Hl); now apply map2_length).
        destruct (fcountne_ok l Pl) as [F E]; [rewrite Ll; exact HZ|]. split; [exact F | now rewrite E].
    - (* SLen *) intros x y r Fx Fy HL HZ _ [= <-]. destruct (f2r_ofnat (length x) HZ) as [F E]. split; [exact F|].
      change (eSR SLen (map f2r x) (map f2r y)) with (Some (len (map f2r x))). unfold len, flen. now rewrite map_length, E.
    - (* SConstQ *) intros q x y r _ _ _ _ _ H. change (eSF (SConstQ q) x y) with (obind (litF q) (ret true)) in H.
      apply obind_some in H. destruct H as [f [Hf H]]. apply ret_true in H. destruct H as [-> F].
      destruct (litF_ok q f Hlits Hf) as [_ E]. split; [exact F|].
      change (eSR (SConstQ q) (map f2r x) (map f2r y)) with (Some (Q2R q)). now rewrite E.
    - (* SConstName *) intros n x y r _ _ _ _ HC H. cbn [consts_exactS] in HC.
      destruct (const_exact_ok n HC) as [f [Hf [F E]]].
      change (eSF (SConstName n) x y) with (obind (cvalF n) (ret true)) in H. rewrite Hf in H. cbn [obind] in H.
      apply ret_true in H. destruct H as [-> _]. split; [exact F|].
      change (eSR (SConstName n) (map f2r x) (map f2r y)) with (Some (cvalR n)). now rewrite E.
    - (* SParam *) intros p x y r _ _ _ _ _ H. change (eSF (SParam p) x y) with (obind (peF p) (ret true)) in H.
      apply obind_some in H. destruct H as [f [Hf H]]. apply ret_true in H. destruct H as [-> F]. split; [exact F|].
      change (eSR (SParam p) (map f2r x) (map f2r y)) with (Some (peR p)). now rewrite (Hpe p f Hf F).
    - (* SBin *) intros o s1 IH1 s2 IH2 x y r Fx Fy HL HZ HC H.
      cbn [consts_exactS] in HC. apply andb_prop in HC. destruct HC as [C1 C2].
      rewrite evalSF_SBin in H. apply obind2_some in H. destruct H as [r1 [r2 [H1 [H2 H]]]].
      destruct (IH1 x y r1 Fx Fy HL HZ C1 H1) as [F1 E1]. destruct (IH2 x y r2 Fx Fy HL HZ C2 H2) as [F2 E2].
      rewrite evalSR_SBin, E1, E2. cbn [obind2]. exact (binF_ok zd o r1 r2 r F1 F2 H).
    - (* SUn *) intros o s1 IH1 x y r Fx Fy HL HZ HC H. cbn [consts_exactS] in HC.
      rewrite evalSF_SUn in H. apply obind_some in H. destruct H as [r1 [H1 H]].
      destruct (IH1 x y r1 Fx Fy HL HZ HC H1) as [F1 E1]. rewrite evalSR_SUn, E1. cbn [obind]. exact (unF_ok o r1 r F1 H).
    - (* SPowC *) intros s1 IH1 c x y r Fx Fy HL HZ HC H. cbn [consts_exactS] in HC.
      rewrite evalSF_SPowC in H. apply obind_some in H. destruct H as [r1 [H1 H]].
      destruct (IH1 x y r1 Fx Fy HL HZ HC H1) as [F1 E1]. rewrite evalSR_SPowC, E1. cbn [obind]. exact (powF_ok c r1 r F1 H).
    - (* SCall *) intros f u IHu v IHv x y r Fx Fy HL HZ HC H.
      cbn [consts_exactS] in HC. apply andb_prop in HC. destruct HC as [C1 C2].
      rewrite evalSF_SCall in H. apply obind2_some in H. destruct H as [xs [ys [Hxs [Hys H]]]].
      destruct (vec_ok u x y xs IHu Fx Fy HL HZ C1 Hxs) as [Fxs [Lxs Exs]].
      destruct (vec_ok v x y ys IHv Fx Fy HL HZ C2 Hys) as [Fys [Lys Eys]].
      rewrite evalSR_SCall, Exs, Eys. cbn [obind2].
      apply (Hcall f xs ys r Fxs Fys); [congruence | rewrite Lxs; exact HZ | exact H].
  Qed.
End Body.

(* ---------- the decorator ---------- *)
Definition envR (e : fenv) : venv := map (fun kv => (fst kv, map f2r (snd kv))) e.
Definition vec_n (n : nat) (v : list pfloat) : Prop := all_fin v /\ length v = n.
Definition env_ok (n : nat) (e : fenv) : Prop := Forall (fun kv => vec_n n (snd kv)) e.

Lemma vlookup_envR p e : vlookup p (envR e) = option_map (map f2r) (flookup p e).
Proof.
  induction e as [|[k v] e IH]; cbn [envR map vlookup flookup fst snd option_map]; [reflexivity|].
  destruct (String.eqb p k); [reflexivity | exact IH].
Qed.

Lemma vset_envR p v e : vset p (map f2r v) (envR e) = envR (fset p v e).
Proof.
  induction e as [|[k w] e IH]; cbn [envR map vset fset fst snd]; [reflexivity|].
  destruct (String.eqb p k); cbn [map fst snd]; [reflexivity|]. f_equal. exact IH.
Qed.

Lemma vlookups_envR ps e : vlookups ps (envR e) = option_map (map (map f2r)) (flookups ps e).
Proof.
  induction ps as [|p ps IH]; cbn [vlookups flookups option_map map]; [reflexivity|].
  rewrite vlookup_envR, IH. destruct (flookup p e) as [v|]; cbn [option_map]; [|reflexivity].
  destruct (flookups ps e) as [vs|]; reflexivity.
Qed.

Lemma flookup_ok n p e v : env_ok n e -> flookup p e = Some v -> vec_n n v.
Proof.
  induction 1 as [|[k w] e Hk He IH]; cbn [flookup]; [discriminate|].
  destruct (String.eqb p k); [intros [= <-]; exact Hk | exact IH].
Qed.

Lemma fset_ok n p v e : env_ok n e -> vec_n n v -> env_ok n (fset p v e).
Proof.
  intros He Hv. induction He as [|[k w] e Hk He IH]; cbn [fset]; [constructor|].
  destruct (String.eqb p k); constructor; auto.
Qed.

Lemma flookups_ok n ps e : env_ok n e -> forall vs, flookups ps e = Some vs -> Forall (vec_n n) vs.
Proof.
  intros He. induction ps as [|p ps IH]; cbn [flookups]; intros vs.
  - intros [= <-]. constructor.
  - destruct (flookup p e) as [v|] eqn:Ev; [|discriminate]. destruct (flookups ps e) as [ws|]; [|discriminate].
    intros [= <-]. constructor; [exact (flookup_ok n p e v He Ev) | now apply IH].
Qed.

Lemma fin_add_fin_r (a e : pfloat) : ffin a = true -> ffin (a + e)%float = true -> ffin e = true.
Proof.
  rewrite !ffin_Prim2B, FP.add_equiv. intros Fa Fz.
  destruct (FP.Prim2B e) as [s|s| |s m x B]; try reflexivity;
    destruct (FP.Prim2B a) as [s'|s'| |s' m' x' B']; discriminate.
Qed.

Lemma add_constF_ok c v v' : all_fin v -> add_constF true c v = Some v' ->
  all_fin v' /\ length v' = length v /\ map f2r v' = add_constRs cvalD rnd64 c (map f2r v).
Proof.
  unfold add_constF, add_constRs, cvalD. destruct (cvalF c) as [e|]; [|discriminate]. intros Fv. revert v'.
  induction Fv as [|a v Fa Fv IH]; intros v'; cbn [map oseq].
  - intros [= <-]. repeat split. constructor.
  - destruct (ret true (a + e)%float) as [r|] eqn:Er; [|discriminate].
    destruct (oseq (map (fun a0 => ret true (a0 + e)%float) v)) as [t|] eqn:Et; [|discriminate].
    intros [= <-]. apply ret_true in Er. destruct Er as [-> F]. destruct (IH t eq_refl) as [Ft [Lt Et']].
    split; [constructor; assumption|]. split; [cbn [length]; now rewrite Lt|].
    cbn [map]. rewrite Et'. f_equal. apply fadd_ok; [exact Fa | exact (fin_add_fin_r a e Fa F) | exact F].
Qed.

Lemma dec_runF_ok n prog : forall e vs, env_ok n e -> dec_runF true prog e = Some vs ->
  Forall (vec_n n) vs /\ dec_runRs cvalD rnd64 prog (envR e) = Some (map (map f2r) vs).
Proof.
  induction prog as [|st prog IH]; intros e vs He; cbn [dec_runF dec_runRs]; [discriminate|].
  destruct st as [p c|p c|ps].
  - rewrite vlookup_envR. destruct (flookup p e) as [v|] eqn:Ev; [|discriminate]. cbn [option_map].
    destruct (flookup_ok n p e v He Ev) as [Fv Lv].
    destruct (add_constF true c v) as [v'|] eqn:Ea; [|discriminate].
    destruct (add_constF_ok c v v' Fv Ea) as [Fv' [Lv' Ev']]. rewrite <- Ev', vset_envR.
    apply IH. apply fset_ok; [exact He | split; [exact Fv' | congruence]].
  - rewrite vlookup_envR. destruct (flookup p e) as [v|] eqn:Ev; [|discriminate]. cbn [option_map].
    destruct (flookup_ok n p e v He Ev) as [Fv Lv].
    destruct (add_constF true c v) as [v'|] eqn:Ea; [|discriminate].
    destruct (add_constF_ok c v v' Fv Ea) as [Fv' [Lv' Ev']]. rewrite <- Ev', vset_envR.
    apply IH. apply fset_ok; [exact He | split; [exact Fv' | congruence]].
  - intros H. rewrite vlookups_envR, H. split; [exact (flookups_ok n ps e He vs H) | reflexivity].
Qed.

Lemma envR_combine ps (args : list (list pfloat)) : envR (combine ps args) = combine ps (map (map f2r) args).
Proof.
  revert args; induction ps as [|p ps IH]; intros [|v args]; cbn [combine envR map fst snd]; try reflexivity.
  f_equal. exact (IH args).
Qed.

Lemma env_ok_combine n ps args : Forall (vec_n n) args -> env_ok n (combine ps args).
Proof.
  intros H. revert ps. induction H as [|v args Hv Ha IH]; intros [|p ps]; cbn [combine]; try (constructor; fail).
  constructor; [exact Hv | apply IH].
Qed.

Lemma dec_applyF_ok n dp dprog args vs : Forall (vec_n n) args -> dec_applyF true dp dprog args = Some vs ->
  Forall (vec_n n) vs /\ dec_applyRs cvalD rnd64 dp dprog (map (map f2r) args) = Some (map (map f2r) vs).
Proof.
  intros Ha H. unfold dec_applyF in H. unfold dec_applyRs. rewrite <- envR_combine.
  apply (dec_runF_ok n); [now apply env_ok_combine | exact H].
Qed.

(* ---------- a whole metric ---------- *)
Lemma param_defaultF_ok ps p f : lits_exact = true -> param_defaultF ps p = Some f -> param_default ps p = f2r f.
Proof.
  intros HL. induction ps as [|[k d] ps IH]; cbn [param_defaultF param_default]; [discriminate|].
  destruct (String.eqb p k); [|exact IH]. destruct d as [q|]; [|discriminate].
  intros H. destruct (litF_ok q f HL H) as [_ E]. now rewrite E.
Qed.

Section Wrap.
  Variables (dp : list string) (dprog : list dstmt).
  Hypothesis Hlits : lits_exact = true.

  Lemma wrapF_ok callF callR m x y r :
    (forall f xs ys r, all_fin xs -> all_fin ys -> length xs = length ys -> Zlen_ok xs ->
       callF f xs ys = Some r -> ffin r = true /\ callR f (map f2r xs) (map f2r ys) = Some (f2r r)) ->
    consts_exactS (m_body m) = true ->
    all_fin x -> all_fin y -> length x = length y -> Zlen_ok x ->
    wrapF true callF dp dprog (param_defaultF (m_params m)) m x y = Some r ->
    ffin r = true /\ wrapRs cvalD rnd64 callR dp dprog (param_default (m_params m)) m (map f2r x) (map f2r y) = Some (f2r r).
  Proof.
    intros Hcall HC Fx Fy HL HZ. unfold wrapF, wrapRs, eval_bodyF, eval_bodyR.
    assert (B : forall x' y' r', all_fin x' -> all_fin y' -> length x' = length y' -> Zlen_ok x' ->
              evalSF true callF (param_defaultF (m_params m)) (m_njit m) (m_body m) x' y' = Some r' ->
              ffin r' = true /\ evalSR rnd64 callR (param_default (m_params m)) (m_body m) (map f2r x') (map f2r y') = Some (f2r r')).
    { intros x' y' r' Fx' Fy' HL' HZ' H.
      refine (proj2 (body_ok callF callR (param_defaultF (m_params m)) (param_default (m_params m)) (m_njit m) Hcall _ Hlits)
                (m_body m) x' y' r' Fx' Fy' HL' HZ' HC H).
      intros p f Hp _. now apply param_defaultF_ok. }
    destruct (m_avoid_zero m); [|now apply B].
    destruct (dec_applyF true dp dprog [x; y]) as [vs|] eqn:Ed; [|discriminate].
    destruct (dec_applyF_ok (length x) dp dprog [x; y] vs) as [Fvs Evs]; [|exact Ed|].
    { constructor; [split; [exact Fx | reflexivity]|]. constructor; [split; [exact Fy | now symmetry]|]. constructor. }
    cbn [map] in Evs. rewrite Evs.
    destruct vs as [|x' [|y' [|z vs]]]; try discriminate. cbn [map].
    inversion Fvs as [|? ? [Fx' Lx'] Fvs']; subst. inversion Fvs' as [|? ? [Fy' Ly'] _]; subst.
    intros H. apply B; auto; [congruence | now rewrite Lx'].
  Qed.

  Lemma call_fuelF_ok t : table_consts_exact t = true -> forall fuel f xs ys r,
    all_fin xs -> all_fin ys -> length xs = length ys -> Zlen_ok xs ->
    call_fuelF true t dp dprog fuel f xs ys = Some r ->
    ffin r = true /\ call_fuelRs cvalD rnd64 t dp dprog fuel f (map f2r xs) (map f2r ys) = Some (f2r r).
  Proof.
    intros Ht. induction fuel as [|n IH]; intros f xs ys r Fx Fy HL HZ; cbn [call_fuelF call_fuelRs]; [discriminate|].
    destruct (lookup_ir f t) as [m|] eqn:Em; [|discriminate].
    apply wrapF_ok; auto.
    clear - Ht Em. unfold table_consts_exact in Ht. induction t as [|[k m'] t IHt]; cbn [lookup_ir] in Em; [discriminate|].
    cbn [forallb snd] in Ht. apply andb_prop in Ht. destruct Ht as [H1 H2].
    destruct (String.eqb f k); [injection Em as <-; exact H1 | now apply IHt].
  Qed.
End Wrap.

(* ---------- at the generated tables ---------- *)
Lemma lits_exact_gen : lits_exact = true.
Proof. vm_compute. reflexivity. Qed.

Lemma table_consts_exact_gen : table_consts_exact all_metrics_ir = true.
Proof. vm_compute. reflexivity. Qed.

Theorem metric_fltc_refines m x y f :
  consts_exactS (m_body m) = true ->
  all_fin x -> all_fin y -> length x = length y -> Zlen_ok x ->
  metric_fltc m x y = Some f ->
  ffin f = true /\ metric_rnd_shift cvalD rnd64 m (map f2r x) (map f2r y) = Some (f2r f).
Proof.
  intros HC Fx Fy HL HZ H. unfold metric_fltc, evalFlt_wrapped in H. unfold metric_rnd_shift, evalRnd_wrapped_shift.
  apply (wrapF_ok decorator_params decorator_body lits_exact_gen
           (call_fuelF true all_metrics_ir decorator_params decorator_body call_depth)
           (call_fuelRs cvalD rnd64 all_metrics_ir decorator_params decorator_body call_depth) m x y f); auto.
  intros g xs ys r. apply (call_fuelF_ok decorator_params decorator_body lits_exact_gen all_metrics_ir table_consts_exact_gen).
Qed.

(* every table entry qualifies *)
Lemma table_member_consts m : In m (map snd all_metrics_ir) -> consts_exactS (m_body m) = true.
Proof.
  intros H. apply in_map_iff in H. destruct H as [[k m'] [<- Hin]].
  pose proof table_consts_exact_gen as Ht. unfold table_consts_exact in Ht. rewrite forallb_forall in Ht. exact (Ht _ Hin).
Qed.

(* ---------- the checked evaluator is the unchecked one where it is defined ---------- *)
Lemma ret_mono f r : ret true f = Some r -> ret false f = Some r.
Proof. intros H. apply ret_true in H. destruct H as [-> _]. reflexivity. Qed.

Lemma binF_mono zd o a b r : binF true zd o a b = Some r -> binF false zd o a b = Some r.
Proof. destruct o; cbn [binF]; try apply ret_mono; auto. destruct (zd && PrimFloat.eqb b PrimFloat.zero)%bool; [discriminate | apply ret_mono]. Qed.

Lemma unF_mono o a r : unF true o a = Some r -> unF false o a = Some r.
Proof. destruct o; cbn [unF]; try apply ret_mono; auto. Qed.

Lemma powF_mono c a r : powF true c a = Some r -> powF false c a = Some r.
Proof. destruct c; cbn [powF]; apply ret_mono. Qed.

Lemma fsum_from_mono l : forall acc r, fsum_from true acc l = Some r -> fsum_from false acc l = Some r.
Proof.
  induction l as [|e t IH]; intros acc r; cbn [fsum_from]; [auto|].
  intros H. apply obind_some in H. destruct H as [a [Ha H]]. rewrite (ret_mono _ _ Ha). cbn [obind]. now apply IH.
Qed.

Section Mono.
  Variables (callT callU : string -> list pfloat -> list pfloat -> option pfloat) (pe : string -> option pfloat) (zd : bool).
  Hypothesis Hcall : forall f xs ys r, callT f xs ys = Some r -> callU f xs ys = Some r.

  Local Notation eST := (evalSF true callT pe zd).
  Local Notation eVT := (evalVF true callT pe zd).
  Local Notation eSU := (evalSF false callU pe zd).
  Local Notation eVU := (evalVF false callU pe zd).

  Lemma body_mono : (forall v x y a b r, eVT v x y a b = Some r -> eVU v x y a b = Some r)
                    /\ (forall s x y r, eST s x y = Some r -> eSU s x y = Some r).
  Proof.
    apply expr_mutind.
    - intros x y a b r H. exact H.
    - intros x y a b r H. exact H.
    - intros s IH x y a b r H. rewrite evalVF_VConstS in *. now apply IH.
    - intros o v1 IH1 v2 IH2 x y a b r H. rewrite evalVF_VBin in *. apply obind2_some in H. destruct H as [r1 [r2 [H1 [H2 H]]]].
      rewrite (IH1 _ _ _ _ _ H1), (IH2 _ _ _ _ _ H2). cbn [obind2]. now apply binF_mono.
    - intros o v1 IH1 x y a b r H. rewrite evalVF_VUn in *. apply obind_some in H. destruct H as [r1 [H1 H]].
      rewrite (IH1 _ _ _ _ _ H1). cbn [obind]. now apply unF_mono.
    - intros v1 IH1 c x y a b r H. rewrite evalVF_VPowC in *. apply obind_some in H. destruct H as [r1 [H1 H]].
      rewrite (IH1 _ _ _ _ _ H1). cbn [obind]. now apply powF_mono.
    - intros c l IHl r0 IHr v1 IH1 v2 IH2 x y a b r H. rewrite evalVF_VSel in *. apply obind2_some in H.
      destruct H as [p [q [Hp [Hq H]]]]. rewrite (IHl _ _ _ _ _ Hp), (IHr _ _ _ _ _ Hq). cbn [obind2].
      destruct (cmpF c p q); [now apply IH1 | now apply IH2].
    - intros v IH x y r H. rewrite evalSF_SSum in *. apply obind_some in H. destruct H as [l [Hl H]].
      rewrite (oseq_map2_mono _ (fun a b => eVU v x y a b) x y l (fun a b r => IH x y a b r) Hl). cbn [obind].
      now apply fsum_from_mono.
    - intros v IH x y r H. rewrite evalSF_SAmax in *. apply obind_some in H. destruct H as [l [Hl H]].
      rewrite (oseq_map2_mono _ (fun a b => eVU v x y a b) x y l (fun a b r => IH x y a b r) Hl). exact H.
    - intros u IHu v IHv x y r H. rewrite evalSF_SCountNe in *. apply obind_some in H. destruct H as [l [Hl H]].
      rewrite (oseq_map2_mono (fun a b => obind2 (eVT u x y a b) (eVT v x y a b) (fun p q => Some (p, q)))
                 (fun a b => obind2 (eVU u x y a b) (eVU v x y a b) (fun p q => Some (p, q))) x y l); [exact H| |exact Hl].
      intros a b pq Hpq. apply obind2_some in Hpq. destruct Hpq as [p [q [Hp [Hq Hpq]]]].
      rewrite (IHu _ _ _ _ _ Hp), (IHv _ _ _ _ _ Hq). exact Hpq.
    - intros x y r H. exact H.
    - intros q x y r H. change (eST (SConstQ q) x y) with (obind (litF q) (ret true)) in H.
      change (eSU (SConstQ q) x y) with (obind (litF q) (ret false)). destruct (litF q) as [f|]; [|discriminate]. now apply ret_mono.
    - intros n x y r H. change (eST (SConstName n) x y) with (obind (cvalF n) (ret true)) in H.
      change (eSU (SConstName n) x y) with (obind (cvalF n) (ret false)). destruct (cvalF n) as [f|]; [|discriminate]. now apply ret_mono.
    - intros p x y r H. change (eST (SParam p) x y) with (obind (pe p) (ret true)) in H.
      change (eSU (SParam p) x y) with (obind (pe p) (ret false)). destruct (pe p) as [f|]; [|discriminate]. now apply ret_mono.
    - intros o s1 IH1 s2 IH2 x y r H. rewrite evalSF_SBin in *. apply obind2_some in H. destruct H as [r1 [r2 [H1 [H2 H]]]].
      rewrite (IH1 _ _ _ H1), (IH2 _ _ _ H2). cbn [obind2]. now apply binF_mono.
    - intros o s1 IH1 x y r H. rewrite evalSF_SUn in *. apply obind_some in H. destruct H as [r1 [H1 H]].
      rewrite (IH1 _ _ _ H1). cbn [obind]. now apply unF_mono.
    - intros s1 IH1 c x y r H. rewrite evalSF_SPowC in *. apply obind_some in H. destruct H as [r1 [H1 H]].
      rewrite (IH1 _ _ _ H1). cbn [obind]. now apply powF_mono.
    - intros f u IHu v IHv x y r H. rewrite evalSF_SCall in *. apply obind2_some in H. destruct H as [xs [ys [Hxs [Hys H]]]].
      rewrite (oseq_map2_mono _ (fun a b => eVU u x y a b) x y xs (fun a b r => IHu x y a b r) Hxs).
      rewrite (oseq_map2_mono _ (fun a b => eVU v x y a b) x y ys (fun a b r => IHv x y a b r) Hys). cbn [obind2]. now apply Hcall.
  Qed.
End Mono.

Lemma add_constF_mono c v v' : add_constF true c v = Some v' -> add_constF false c v = Some v'.
Proof.
  unfold add_constF. destruct (cvalF c) as [e|]; [|discriminate].
  apply oseq_map_mono. intros a r. apply ret_mono.
Qed.

Lemma dec_runF_mono prog : forall e vs, dec_runF true prog e = Some vs -> dec_runF false prog e = Some vs.
Proof.
  induction prog as [|st prog IH]; intros e vs; cbn [dec_runF]; [discriminate|].
  destruct st as [p c|p c|ps]; auto;
    (destruct (flookup p e) as [v|]; [|discriminate]; destruct (add_constF true c v) as [v'|] eqn:Ea; [|discriminate];
     rewrite (add_constF_mono c v v' Ea); apply IH).
Qed.

Lemma wrapF_mono callT callU dp dprog pe m x y r :
  (forall f xs ys r, callT f xs ys = Some r -> callU f xs ys = Some r) ->
  wrapF true callT dp dprog pe m x y = Some r -> wrapF false callU dp dprog pe m x y = Some r.
Proof.
  intros Hc. unfold wrapF, eval_bodyF, dec_applyF.
  pose proof (proj2 (body_mono callT callU pe (m_njit m) Hc) (m_body m)) as B.
  destruct (m_avoid_zero m); [|apply B].
  destruct (dec_runF true dprog (combine dp [x; y])) as [vs|] eqn:Ed; [|discriminate].
  rewrite (dec_runF_mono dprog _ vs Ed). destruct vs as [|x' [|y' [|z vs]]]; try discriminate. apply B.
Qed.

Lemma call_fuelF_mono t dp dprog fuel : forall f xs ys r,
  call_fuelF true t dp dprog fuel f xs ys = Some r -> call_fuelF false t dp dprog fuel f xs ys = Some r.
Proof.
  induction fuel as [|n IH]; intros f xs ys r; cbn [call_fuelF]; [discriminate|].
  destruct (lookup_ir f t) as [m|]; [|discriminate]. apply wrapF_mono. exact IH.
Qed.

Theorem metric_fltc_flt m x y f : metric_fltc m x y = Some f -> metric_flt m x y = Some f.
Proof.
  unfold metric_fltc, metric_flt, evalFlt_wrapped. apply wrapF_mono. apply call_fuelF_mono.
Qed.

(* ---------- metric_rnd_shift at the exact rationals is metric_rnd ---------- *)
Lemma dec_runRs_cvalR rnd prog : forall e, dec_runRs cvalR rnd prog e = dec_runR rnd prog e.
Proof.
  induction prog as [|st prog IH]; intros e; cbn [dec_runRs dec_runR]; [reflexivity|].
  destruct st as [p c|p c|ps]; auto; (destruct (vlookup p e) as [v|]; [|reflexivity]; apply IH).
Qed.

Lemma call_fuelRs_cvalR rnd t dp dprog fuel :
  call_fuelRs cvalR rnd t dp dprog fuel = call_fuelR rnd t dp dprog fuel.
Proof.
  induction fuel as [|n IH]; extensionality f; extensionality x; extensionality y; cbn [call_fuelRs call_fuelR]; [reflexivity|].
  destruct (lookup_ir f t) as [m|]; [|reflexivity]. rewrite IH. unfold wrapRs, wrapR, dec_applyRs, dec_applyR.
  now rewrite dec_runRs_cvalR.
Qed.

Theorem metric_rnd_shift_cvalR rnd m x y : metric_rnd_shift cvalR rnd m x y = metric_rnd rnd m x y.
Proof.
  unfold metric_rnd_shift, metric_rnd, evalRnd_wrapped_shift, evalRnd_wrapped, evalRnd_wrapped_with.
  rewrite call_fuelRs_cvalR. unfold wrapRs, wrapR, dec_applyRs, dec_applyR. now rewrite dec_runRs_cvalR.
Qed.

(* ---------- packaging for Props/C06_flt_refine.v ---------- *)
Theorem metric_fltc_refines_table m x y f :
  In m (map snd all_metrics_ir) ->
  all_fin x -> all_fin y -> length x = length y -> Zlen_ok x ->
  metric_fltc m x y = Some f ->
  ffin f = true /\ metric_rnd_shift cvalD rnd64 m (map f2r x) (map f2r y) = Some (f2r f).
Proof. intros Hm. apply metric_fltc_refines. now apply table_member_consts. Qed.

Lemma refine_nonvacuous :
  exists m x y f,
    In m (map snd all_metrics_ir) /\ m_avoid_zero m = true /\ all_fin x /\ all_fin y /\ length x = length y /\ length x = 2%nat
    /\ Zlen_ok x /\ metric_fltc m x y = Some f.
Proof.
  exists ir_chi_squared, [1%float; 2%float], [3%float; 0.5%float], 0x1.e666666666666p-1%float.
  split; [vm_compute; tauto|]. split; [reflexivity|].
  split; [repeat constructor|]. split; [repeat constructor|]. split; [reflexivity|]. split; [reflexivity|].
  split; [vm_compute; discriminate|]. vm_compute. reflexivity.
Qed.

(* ---------- undecorated metrics: the refinement is to [metric_rnd rnd64] itself ---------- *)
Section CallExt.
  Variables (rnd : R -> R) (c1 c2 : string -> list R -> list R -> option R) (pe : string -> R).
  Local Notation eS1 := (evalSR rnd c1 pe).
  Local Notation eV1 := (evalVR rnd c1 pe).
  Local Notation eS2 := (evalSR rnd c2 pe).
  Local Notation eV2 := (evalVR rnd c2 pe).
  Definition agree_on (l : list string) : Prop := forall f, In f l -> forall x y, c1 f x y = c2 f x y.

  Lemma agree_app_l l1 l2 : agree_on (l1 ++ l2) -> agree_on l1.
  Proof. intros H f Hf. apply H. apply in_or_app. now left. Qed.
  Lemma agree_app_r l1 l2 : agree_on (l1 ++ l2) -> agree_on l2.
  Proof. intros H f Hf. apply H. apply in_or_app. now right. Qed.

  Lemma evalSR_call_ext :
    (forall v, agree_on (callsV v) -> forall x y a b, eV1 v x y a b = eV2 v x y a b)
    /\ (forall s, agree_on (callsS s) -> forall x y, eS1 s x y = eS2 s x y).
  Proof.
    apply expr_mutind.
    - reflexivity.
    - reflexivity.
    - intros s IH H x y a b. rewrite !evalVR_VConstS. now apply IH.
    - intros o v1 IH1 v2 IH2 H x y a b. cbn [callsV] in H. rewrite !evalVR_VBin.
      rewrite (IH1 (agree_app_l _ _ H)), (IH2 (agree_app_r _ _ H)). reflexivity.
    - intros o v1 IH1 H x y a b. rewrite !evalVR_VUn. now rewrite (IH1 H).
    - intros v1 IH1 c H x y a b. rewrite !evalVR_VPowC. now rewrite (IH1 H).
    - intros c l IHl r IHr v1 IH1 v2 IH2 H x y a b. cbn [callsV] in H. rewrite !evalVR_VSel.
      rewrite (IHl (agree_app_l _ _ H)). pose proof (agree_app_r _ _ H) as H'.
      rewrite (IHr (agree_app_l _ _ H')). pose proof (agree_app_r _ _ H') as H''.
      destruct (eV2 l x y a b) as [p|]; [|reflexivity]. destruct (eV2 r x y a b) as [q|]; [|reflexivity]. cbn [obind2].
      destruct (cmpR c p q); [apply (IH1 (agree_app_l _ _ H'')) | apply (IH2 (agree_app_r _ _ H''))].
    - intros v IH H x y. cbn [callsS] in H. rewrite !evalSR_SSum.
      now rewrite (map2_ext (fun a b => eV1 v x y a b) (fun a b => eV2 v x y a b) x y (IH H x y)).
    - intros v IH H x y. cbn [callsS] in H. rewrite !evalSR_SAmax.
      now rewrite (map2_ext (fun a b => eV1 v x y a b) (fun a b => eV2 v x y a b) x y (IH H x y)).
    - intros u IHu v IHv H x y. cbn [callsS] in H. rewrite !evalSR_SCountNe. do 2 f_equal. apply map2_ext. intros a b.
      now rewrite (IHu (agree_app_l _ _ H)), (IHv (agree_app_r _ _ H)).
    - reflexivity.
    - reflexivity.
    - reflexivity.
    - reflexivity.
    - intros o s1 IH1 s2 IH2 H x y. cbn [callsS] in H. rewrite !evalSR_SBin.
      now rewrite (IH1 (agree_app_l _ _ H)), (IH2 (agree_app_r _ _ H)).
    - intros o s1 IH1 H x y. rewrite !evalSR_SUn. now rewrite (IH1 H).
    - intros s1 IH1 c H x y. rewrite !evalSR_SPowC. now rewrite (IH1 H).
    - intros f u IHu v IHv H x y. cbn [callsS] in H. rewrite !evalSR_SCall.
      assert (Hf : forall x y, c1 f x y = c2 f x y) by (apply H; now left).
      assert (H' : agree_on (callsV u ++ callsV v)) by (intros g Hg; apply H; now right).
      rewrite (map2_ext (fun a b => eV1 u x y a b) (fun a b => eV2 u x y a b) x y (IHu (agree_app_l _ _ H') x y)).
      rewrite (map2_ext (fun a b => eV1 v x y a b) (fun a b => eV2 v x y a b) x y (IHv (agree_app_r _ _ H') x y)).
      destruct (oseq (map2 (fun a b => eV2 u x y a b) x y)) as [xs|]; [|reflexivity].
      destruct (oseq (map2 (fun a b => eV2 v x y a b) x y)) as [ys|]; [|reflexivity]. apply Hf.
  Qed.
End CallExt.

Lemma plain_fuel_ok eps rnd t dp dprog fuel : forall f, plain_fuel t fuel f = true ->
  forall x y, call_fuelRs eps rnd t dp dprog fuel f x y = call_fuelR rnd t dp dprog fuel f x y.
Proof.
  induction fuel as [|n IH]; intros f Hf x y; cbn [call_fuelRs call_fuelR plain_fuel] in *; [reflexivity|].
  destruct (lookup_ir f t) as [m|]; [|reflexivity].
  apply andb_prop in Hf. destruct Hf as [Hd Hc]. unfold wrapRs, wrapR.
  destruct (m_avoid_zero m); [discriminate|]. unfold eval_bodyR.
  apply (proj2 (evalSR_call_ext rnd _ _ _)). intros g Hg. apply IH.
  rewrite forallb_forall in Hc. now apply Hc.
Qed.

Theorem metric_rnd_shift_plain eps rnd m x y : plain_metric m = true ->
  metric_rnd_shift eps rnd m x y = metric_rnd rnd m x y.
Proof.
  unfold plain_metric. intros H. apply andb_prop in H. destruct H as [Hd Hc].
  unfold metric_rnd_shift, metric_rnd, evalRnd_wrapped_shift, evalRnd_wrapped, evalRnd_wrapped_with, wrapRs, wrapR.
  destruct (m_avoid_zero m); [discriminate|]. unfold eval_bodyR.
  apply (proj2 (evalSR_call_ext rnd _ _ _)). intros g Hg. apply plain_fuel_ok.
  rewrite forallb_forall in Hc. now apply Hc.
Qed.

Theorem metric_fltc_refines_plain m x y f :
  plain_metric m = true -> consts_exactS (m_body m) = true ->
  all_fin x -> all_fin y -> length x = length y -> Zlen_ok x ->
  metric_fltc m x y = Some f ->
  ffin f = true /\ metric_rnd rnd64 m (map f2r x) (map f2r y) = Some (f2r f).
Proof.
  intros Hp HC Fx Fy HL HZ H. rewrite <- (metric_rnd_shift_plain cvalD rnd64 m _ _ Hp). now apply metric_fltc_refines.
Qed.

Lemma plain_names_gen :
  plain_names = ["average_euclidean_distance"; "chebyshev_distance"; "euclidean_distance"; "gaussian_distance";
                 "gower_distance"; "hamming_distance"; "hellinger_distance"; "log_euclidean_distance";
                 "log_squared_euclidean_distance"; "lorentzian_distance"; "manhattan_distance"; "matusita_distance";
                 "non_intersection_distance"; "squared_chord_distance"; "squared_euclidean_distance"]%string.
Proof. vm_compute. reflexivity. Qed.

(* ---------- why the shift: the double of EPSILON = 1e-20 is not 1/10^20 ---------- *)
Lemma f2r_decode (f : pfloat) s m e : Prim2SF f = S754_finite s m e ->
  f2r f = IZR (SpecFloat.cond_Zopp s (Zpos m)) * bpow radix2 e.
Proof.
  unfold f2r. rewrite <- FP.B2SF_Prim2B.
  destruct (FP.Prim2B f) as [s'|s'| |s' m' e' B]; cbn [BinarySingleNaN.B2SF]; try discriminate.
  intros [= -> -> ->]. reflexivity.
Qed.

Lemma epsilon_double_inexact :
  cvalF CEpsilon = Some cf_EPSILON /\ cvalD CEpsilon = f2r cf_EPSILON /\ cvalD CEpsilon <> cvalR CEpsilon
  /\ const_exact CEpsilon = false /\ const_exact CMaxArcWeight = true.
Proof.
  split; [reflexivity|]. split; [reflexivity|]. split; [|split; vm_compute; reflexivity].
  unfold cvalD, cvalR. cbn [cvalF cvalQ].
  assert (D : Prim2SF cf_EPSILON = S754_finite false 6646139978924579%positive (-119)) by (vm_compute; reflexivity).
  rewrite (f2r_decode _ _ _ _ D). cbn [SpecFloat.cond_Zopp]. unfold c_EPSILON, Q2R. cbn [Qnum Qden].
  change (bpow radix2 (-119)) with (/ IZR (Z.pow_pos 2 119)).
  set (P := Z.pow_pos 2 119). set (T := Zpos 100000000000000000000). set (M := Zpos 6646139978924579).
  assert (NP : IZR P <> 0) by (apply IZR_neq; vm_compute; discriminate).
  assert (NT : IZR T <> 0) by (apply IZR_neq; discriminate).
  intros E.
  assert (X : IZR M * IZR T = IZR P).
  { transitivity ((IZR M * / IZR P) * (IZR P * IZR T)); [field; exact NP|]. rewrite E. field. exact NT. }
  rewrite <- mult_IZR in X. apply eq_IZR in X. vm_compute in X. discriminate X.
Qed.

Lemma refine_plain_nonvacuous :
  exists m x y f,
    plain_metric m = true /\ consts_exactS (m_body m) = true /\ all_fin x /\ all_fin y /\ length x = length y /\ length x = 2%nat
    /\ Zlen_ok x /\ metric_fltc m x y = Some f /\ metric_rnd rnd64 m (map f2r x) (map f2r y) = Some (f2r f).
Proof.
  exists ir_average_euclidean, [0%float; 3%float], [4%float; 0.5%float].
  assert (E : exists f, metric_fltc ir_average_euclidean [0%float; 3%float] [4%float; 0.5%float] = Some f) by (vm_compute; eauto).
  destruct E as [f E]. exists f.
  assert (P : plain_metric ir_average_euclidean = true) by (vm_compute; reflexivity).
  assert (C : consts_exactS (m_body ir_average_euclidean) = true) by (vm_compute; reflexivity).
  assert (Fx : all_fin [0%float; 3%float]) by (repeat constructor).
  assert (Fy : all_fin [4%float; 0.5%float]) by (repeat constructor).
  assert (Z : Zlen_ok [0%float; 3%float]) by (vm_compute; discriminate).
  repeat split; try assumption.
  exact (proj2 (metric_fltc_refines_plain _ _ _ _ P C Fx Fy eq_refl Z E)).
Qed.
