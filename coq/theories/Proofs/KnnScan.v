(* C12/C14: the (k+1)-slot insertion scan [knn_scan] of Model/Knn.v computes the first k elements of the
   stable insertion sort of its candidates. W := Z, ltb := Z.ltb. *)
From Coq Require Import List Arith Bool ZArith Lia Sorted Permutation.
From OPF Require Import Base.Lists Model.Knn Proofs.KnnSort.
Import ListNotations.

(* ------------------------------------------------------------------ *)
(* swapl / bubble                                                      *)
(* ------------------------------------------------------------------ *)

Lemma swapl_length {A} (l : list A) i j d : length (swapl l i j d) = length l.
Proof. unfold swapl. now rewrite !upd_length. Qed.

Lemma swapl_nth {A} (l : list A) c d x : S c < length l ->
  nth x (swapl l (S c) c d) d
  = if x =? c then nth (S c) l d else if x =? S c then nth c l d else nth x l d.
Proof.
  intros Hc. unfold swapl. rewrite !nth_upd, !upd_length.
  destruct (Nat.eqb_spec c x), (Nat.eqb_spec x c), (Nat.eqb_spec (S c) x), (Nat.eqb_spec x (S c)),
    (Nat.ltb_spec c (length l)), (Nat.ltb_spec (S c) (length l)); try lia; try reflexivity; subst; reflexivity.
Qed.

Section Scan.
  Variable top : Z.

  Notation bubbleZ := (bubble Z.ltb top).

  (* the element in slot [cur] sinks to slot [p]: everything below [p] is <= it, everything it passed is > it *)
  Lemma bubble_spec : forall cur ds ns, cur < length ds -> cur < length ns ->
    (forall a b, a <= b -> b < cur -> (nth a ds top <= nth b ds top)%Z) ->
    exists p, p <= cur /\
      length (fst (bubbleZ cur ds ns)) = length ds /\ length (snd (bubbleZ cur ds ns)) = length ns /\
      (forall l, l < p ->
         nth l (fst (bubbleZ cur ds ns)) top = nth l ds top /\ nth l (snd (bubbleZ cur ds ns)) 0 = nth l ns 0 /\
         (nth l ds top <= nth cur ds top)%Z) /\
      nth p (fst (bubbleZ cur ds ns)) top = nth cur ds top /\
      nth p (snd (bubbleZ cur ds ns)) 0 = nth cur ns 0 /\
      (forall l, p < l -> l <= cur ->
         nth l (fst (bubbleZ cur ds ns)) top = nth (l - 1) ds top /\
         nth l (snd (bubbleZ cur ds ns)) 0 = nth (l - 1) ns 0 /\
         (nth cur ds top < nth (l - 1) ds top)%Z) /\
      (forall l, cur < l ->
         nth l (fst (bubbleZ cur ds ns)) top = nth l ds top /\ nth l (snd (bubbleZ cur ds ns)) 0 = nth l ns 0).
  Proof.
    induction cur as [|c IH]; intros ds ns Hd Hn Hasc.
    - exists 0. cbn [bubble fst snd]. repeat split; auto; intros; lia.
    - cbn [bubble]. destruct (Z.ltb_spec (nth (S c) ds top) (nth c ds top)) as [Hlt|Hge].
      + set (ds1 := swapl ds (S c) c top). set (ns1 := swapl ns (S c) c 0).
        assert (Hd1 : forall x, nth x ds1 top
                      = if x =? c then nth (S c) ds top else if x =? S c then nth c ds top else nth x ds top)
          by (intros x; apply swapl_nth; exact Hd).
        assert (Hn1 : forall x, nth x ns1 0
                      = if x =? c then nth (S c) ns 0 else if x =? S c then nth c ns 0 else nth x ns 0)
          by (intros x; apply swapl_nth; exact Hn).
        destruct (IH ds1 ns1) as (p & Hp & Hl1 & Hl2 & Hlow & Hpd & Hpn & Hmid & Hhigh).
        { unfold ds1. rewrite swapl_length. lia. }
        { unfold ns1. rewrite swapl_length. lia. }
        { intros a b Hab Hb. rewrite !Hd1.
          destruct (Nat.eqb_spec a c), (Nat.eqb_spec b c), (Nat.eqb_spec a (S c)), (Nat.eqb_spec b (S c)); try lia.
          apply Hasc; lia. }
        exists p. split; [lia|].
        split; [rewrite Hl1; apply swapl_length|]. split; [rewrite Hl2; apply swapl_length|].
        assert (Hcd : nth c ds1 top = nth (S c) ds top) by (rewrite Hd1, Nat.eqb_refl; reflexivity).
        assert (Hcn : nth c ns1 0 = nth (S c) ns 0) by (rewrite Hn1, Nat.eqb_refl; reflexivity).
        split; [|split; [|split; [|split]]].
        * intros l Hl. destruct (Hlow l Hl) as (E1 & E2 & E3).
          rewrite E1, E2. rewrite Hcd in E3. rewrite Hd1, Hn1 in *.
          destruct (Nat.eqb_spec l c), (Nat.eqb_spec l (S c)); try lia; auto.
        * rewrite Hpd. exact Hcd.
        * rewrite Hpn. exact Hcn.
        * intros l Hpl Hlc. destruct (Nat.eq_dec l (S c)) as [->|Hne].
          -- destruct (Hhigh (S c) ltac:(lia)) as (E1 & E2). rewrite E1, E2, Hd1, Hn1.
             replace (S c - 1) with c by lia.
             destruct (Nat.eqb_spec (S c) c); [lia|]. rewrite Nat.eqb_refl. auto.
          -- destruct (Hmid l Hpl ltac:(lia)) as (E1 & E2 & E3).
             rewrite E1, E2. rewrite Hcd in E3. rewrite Hd1, Hn1 in *.
             destruct (Nat.eqb_spec (l - 1) c), (Nat.eqb_spec (l - 1) (S c)); try lia; auto.
        * intros l Hl. destruct (Hhigh l ltac:(lia)) as (E1 & E2). rewrite E1, E2, Hd1, Hn1.
          destruct (Nat.eqb_spec l c), (Nat.eqb_spec l (S c)); try lia; auto.
      + exists (S c). cbn [fst snd]. split; [lia|]. split; [reflexivity|]. split; [reflexivity|].
        split; [|split; [reflexivity|split; [reflexivity|split]]].
        * intros l Hl. split; [reflexivity|]. split; [reflexivity|].
          specialize (Hasc l c ltac:(lia) ltac:(lia)). lia.
        * intros; lia.
        * intros; auto.
  Qed.

  (* ---------------------------------------------------------------- *)
  (* representation of the abstract neighbour list by the two arrays    *)
  (* ---------------------------------------------------------------- *)

  Variable k : nat.
  Variable dist : nat -> Z.

  (* slots 0..|L|-1 hold L with its distances, slots |L|..k-1 are empty; slot k is scratch *)
  Definition rep (N : nat) (L : list nat) (ds : list Z) (ns : list nat) : Prop :=
    length ds = S k /\ length ns = N /\ k < N /\ length L <= k /\
    (forall l, l < length L -> nth l ds top = dist (nth l L 0) /\ nth l ns 0 = nth l L 0) /\
    (forall l, length L <= l -> l < k -> nth l ds top = top).

  Lemma rep_step N L ds ns j :
    rep N L ds ns -> StronglySorted (dle dist) L ->
    (forall y, In y L -> (dist y < top)%Z) -> (dist j < top)%Z ->
    rep N (firstn k (ins dist j L))
        (fst (bubbleZ k (upd ds k (dist j)) (upd ns k j)))
        (snd (bubbleZ k (upd ds k (dist j)) (upd ns k j))).
  Proof.
    intros (Hld & Hln & HkN & HL & Hfill & Hempty) Hsort HLtop Hjtop.
    set (ds1 := upd ds k (dist j)). set (ns1 := upd ns k j).
    assert (Hd1k : nth k ds1 top = dist j) by (unfold ds1; apply nth_upd_eq; lia).
    assert (Hn1k : nth k ns1 0 = j) by (unfold ns1; apply nth_upd_eq; lia).
    assert (Hd1 : forall l, l <> k -> nth l ds1 top = nth l ds top)
      by (intros l Hl; unfold ds1; apply nth_upd_neq; lia).
    assert (Hn1 : forall l, l <> k -> nth l ns1 0 = nth l ns 0)
      by (intros l Hl; unfold ns1; apply nth_upd_neq; lia).
    assert (HLd : forall l, l < length L -> (dist (nth l L 0%nat) < top)%Z)
      by (intros l Hl; apply HLtop, nth_In, Hl).
    destruct (bubble_spec k ds1 ns1) as (p & Hp & Hl1 & Hl2 & Hlow & Hpd & Hpn & Hmid & Hhigh).
    { unfold ds1. rewrite upd_length. lia. }
    { unfold ns1. rewrite upd_length. lia. }
    { intros a b Hab Hb. rewrite !Hd1 by lia.
      destruct (Nat.lt_ge_cases b (length L)) as [HbL|HbL].
      - destruct (Hfill a ltac:(lia)) as [-> _]. destruct (Hfill b HbL) as [-> _].
        destruct (Nat.eq_dec a b) as [->|Hne]; [lia|].
        apply (StronglySorted_nth (dle dist) 0 L Hsort a b); lia.
      - rewrite (Hempty b HbL Hb).
        destruct (Nat.lt_ge_cases a (length L)) as [HaL|HaL].
        + destruct (Hfill a HaL) as [-> _]. specialize (HLd a HaL). lia.
        + rewrite (Hempty a HaL ltac:(lia)). lia. }
    rewrite Hd1k, Hn1k in *.
    assert (HpL : p <= length L).
    { destruct (Nat.le_gt_cases p (length L)) as [|Hgt]; [assumption|exfalso].
      destruct (Hlow (length L) Hgt) as (_ & _ & E3).
      rewrite Hd1, Hempty in E3 by lia. lia. }
    assert (Hins : ins dist j L = firstn p L ++ j :: skipn p L).
    { apply ins_split; [exact HpL| |].
      - intros i Hi. destruct (Hlow i Hi) as (_ & _ & E3).
        rewrite Hd1 in E3 by lia. destruct (Hfill i ltac:(lia)) as [E _]. rewrite E in E3. exact E3.
      - intros i Hpi HiL. destruct (Hmid (S i) ltac:(lia) ltac:(lia)) as (_ & _ & E3).
        replace (S i - 1) with i in E3 by lia.
        rewrite Hd1 in E3 by lia. destruct (Hfill i HiL) as [E _]. rewrite E in E3. exact E3. }
    set (L' := firstn k (ins dist j L)).
    assert (HL'len : length L' = Nat.min k (S (length L))) by (unfold L'; now rewrite firstn_length, ins_length).
    assert (HL'nth : forall l, l < k -> nth l L' 0 = if l <? p then nth l L 0 else if l =? p then j else nth (l - 1) L 0).
    { intros l Hl. unfold L'. rewrite nth_firstn_lt by exact Hl. rewrite Hins. apply nth_ins_split, HpL. }
    unfold rep. rewrite Hl1, Hl2. unfold ds1, ns1. rewrite !upd_length.
    split; [exact Hld|]. split; [exact Hln|]. split; [exact HkN|]. split; [lia|]. split.
    - intros l Hl. rewrite HL'len in Hl. rewrite HL'nth by lia.
      destruct (Nat.ltb_spec l p) as [Hlp|Hlp].
      + destruct (Hlow l Hlp) as (E1 & E2 & _). fold ds1 ns1. rewrite E1, E2, Hd1, Hn1 by lia.
        apply Hfill. lia.
      + destruct (Nat.eqb_spec l p) as [->|Hne].
        * fold ds1 ns1. rewrite Hpd, Hpn. auto.
        * destruct (Hmid l ltac:(lia) ltac:(lia)) as (E1 & E2 & _). fold ds1 ns1.
          rewrite E1, E2, Hd1, Hn1 by lia. apply Hfill. lia.
    - intros l HlL Hlk. rewrite HL'len in HlL.
      destruct (Hmid l ltac:(lia) ltac:(lia)) as (E1 & _). fold ds1 ns1.
      rewrite E1, Hd1 by lia. apply Hempty; lia.
  Qed.

  Definition scan_stepZ (skip : option nat) := scan_step Z.ltb top k dist skip.

  Lemma firstn_dle_sorted L j : StronglySorted (dle dist) L -> StronglySorted (dle dist) (firstn k (ins dist j L)).
  Proof. intros H. apply StronglySorted_firstn, ins_dle_sorted, H. Qed.

  (* folding the unconditional step over any candidate list *)
  Lemma scan_fold_rep N : forall C L ds ns,
    rep N L ds ns -> StronglySorted (dle dist) L ->
    (forall y, In y L -> (dist y < top)%Z) -> (forall y, In y C -> (dist y < top)%Z) ->
    let r := fold_left (fun st j => bubbleZ k (upd (fst st) k (dist j)) (upd (snd st) k j)) C (ds, ns) in
    rep N (fold_left (fun L j => firstn k (ins dist j L)) C L) (fst r) (snd r).
  Proof.
    induction C as [|c C IH]; intros L ds ns Hrep Hsort HL HC; cbn [fold_left]; [exact Hrep|].
    cbn [fst snd].
    pose proof (rep_step N L ds ns c Hrep Hsort HL (HC c (or_introl eq_refl))) as Hrep'.
    destruct (bubbleZ k (upd ds k (dist c)) (upd ns k c)) as [ds' ns'] eqn:Hb. cbn [fst snd] in Hrep'.
    apply IH; [exact Hrep'|apply firstn_dle_sorted, Hsort| |].
    - intros y Hy. apply In_firstn in Hy. apply ins_In in Hy. destruct Hy as [->|Hy]; [apply HC; left; reflexivity|auto].
    - intros y Hy. apply HC. right; exact Hy.
  Qed.

  Lemma knn_scan_fold n skip ns0 :
    knn_scan Z.ltb top k n dist skip ns0
    = fold_left (fun st j => bubbleZ k (upd (fst st) k (dist j)) (upd (snd st) k j))
                (cands skip n) (repeat top (S k), ns0).
  Proof.
    unfold knn_scan, cands.
    rewrite <- (fold_left_skip (skipb skip)
                 (fun st j => bubbleZ k (upd (fst st) k (dist j)) (upd (snd st) k j))).
    apply fold_left_ext_eq. intros [ds ns] j. cbn [scan_step fst snd skipb]. reflexivity.
  Qed.
End Scan.

(* ------------------------------------------------------------------ *)
(* the scan theorem                                                    *)
(* ------------------------------------------------------------------ *)

Lemma nth_repeat_same {A} (a : A) m l : nth l (repeat a m) a = a.
Proof. revert l; induction m as [|m IH]; intros [|l]; cbn; auto. Qed.

Lemma rep_init top k dist ns0 : k < length ns0 -> rep top k dist (length ns0) [] (repeat top (S k)) ns0.
Proof.
  intros Hk. unfold rep. rewrite repeat_length. cbn [length].
  repeat split; auto; try lia; try (intros; lia).
  intros l _ _. apply nth_repeat_same.
Qed.

Lemma rep_firstn top k dist N L ds ns : rep top k dist N L ds ns ->
  firstn (length L) ns = L /\ firstn (length L) ds = map dist L.
Proof.
  intros (Hld & Hln & HkN & HL & Hfill & _). split.
  - apply (nth_ext _ _ 0 0); [rewrite firstn_length; lia|].
    intros l Hl. rewrite firstn_length in Hl. rewrite nth_firstn_lt by lia. apply Hfill. lia.
  - apply (nth_ext _ _ top (dist 0)); [rewrite firstn_length, map_length; lia|].
    intros l Hl. rewrite firstn_length in Hl. rewrite nth_firstn_lt by lia. rewrite map_nth. apply Hfill. lia.
Qed.

(* equational form: the arrays represent the k nearest candidates in stable order *)
Theorem knn_scan_rep (top : Z) (k n : nat) (dist : nat -> Z) (skip : option nat) (ns0 : list nat) :
  k < length ns0 -> (forall j, In j (cands skip n) -> (dist j < top)%Z) ->
  rep top k dist (length ns0) (knearest dist k (cands skip n))
      (fst (knn_scan Z.ltb top k n dist skip ns0)) (snd (knn_scan Z.ltb top k n dist skip ns0)).
Proof.
  intros Hk Htop. rewrite knn_scan_fold. unfold knearest, isort.
  rewrite <- fold_firstn_ins. rewrite firstn_nil.
  apply scan_fold_rep; [apply rep_init, Hk|constructor|intros y []|exact Htop].
Qed.

Definition ncands (skip : option nat) (n : nat) : nat :=
  match skip with Some i => if i <? n then n - 1 else n | None => n end.

Lemma cands_length skip n : length (cands skip n) = ncands skip n.
Proof. destruct skip as [i|]; [apply cands_length_some|apply cands_length_none]. Qed.

(* unfolded form *)
Theorem knn_scan_spec : forall (top : Z) (k n : nat) (dist : nat -> Z) (skip : option nat) (ns0 : list nat),
  k < length ns0 ->
  (forall j, j < n -> skip <> Some j -> (dist j < top)%Z) ->
  forall ds ns, knn_scan Z.ltb top k n dist skip ns0 = (ds, ns) ->
  let m := Nat.min k (ncands skip n) in
  length ds = S k /\ length ns = length ns0 /\
  (forall l, l < m -> nth l ns 0 < n /\ skip <> Some (nth l ns 0) /\
                      nth l ds top = dist (nth l ns 0) /\ (nth l ds top < top)%Z) /\
  (forall l, m <= l -> l < k -> nth l ds top = top) /\
  NoDup (firstn m ns) /\
  (forall a b, a < b -> b < m -> lexlt dist (nth a ns 0) (nth b ns 0)) /\
  (forall j, j < n -> skip <> Some j -> ~ In j (firstn m ns) ->
             forall l, l < m -> lexlt dist (nth l ns 0) j) /\
  firstn m ns = knearest dist k (cands skip n) /\
  firstn m ds = map dist (knearest dist k (cands skip n)).
Proof.
  intros top k n dist skip ns0 Hk Htop ds ns Hscan m.
  assert (Htop' : forall j, In j (cands skip n) -> (dist j < top)%Z)
    by (intros j Hj; apply cands_In in Hj; apply Htop; tauto).
  pose proof (knn_scan_rep top k n dist skip ns0 Hk Htop') as Hrep. rewrite Hscan in Hrep. cbn [fst snd] in Hrep.
  set (L := knearest dist k (cands skip n)) in *.
  assert (HLlen : length L = m) by (unfold L, m; rewrite knearest_length, cands_length; reflexivity).
  pose proof (rep_firstn _ _ _ _ _ _ _ Hrep) as [Hfn Hfd]. rewrite HLlen in Hfn, Hfd.
  destruct Hrep as (Hld & Hln & HkN & HL & Hfill & Hempty). rewrite HLlen in *.
  pose proof (cands_sorted skip n) as Hcs.
  assert (HLin : forall l, l < m -> In (nth l L 0) (cands skip n)).
  { intros l Hl. apply (knearest_In dist k). apply nth_In. fold L. lia. }
  split; [exact Hld|]. split; [exact Hln|]. split; [|split; [|split; [|split; [|split; [|split]]]]].
  - intros l Hl. destruct (Hfill l Hl) as [E1 E2]. rewrite E1, E2.
    pose proof (HLin l Hl) as Hin. pose proof (Htop' _ Hin). apply cands_In in Hin. tauto.
  - intros l Hl Hlk. apply Hempty; lia.
  - rewrite Hfn. apply knearest_NoDup, Hcs.
  - intros a b Hab Hb. destruct (Hfill a ltac:(lia)) as [_ ->]. destruct (Hfill b Hb) as [_ ->].
    apply (StronglySorted_nth (lexlt dist) 0 L (knearest_sorted dist k _ Hcs)); lia.
  - intros j Hj Hskip Hnin l Hl. destruct (Hfill l Hl) as [_ ->]. rewrite Hfn in Hnin.
    apply (knearest_minimal dist k (cands skip n)); [exact Hcs|apply cands_In; tauto|exact Hnin|].
    apply nth_In. fold L. lia.
  - exact Hfn.
  - exact Hfd.
Qed.

(* C14: prediction scans every training sample (skip = None): the k slots hold the min k n nearest of ALL of 0..n-1 *)
Theorem knn_predict_neighbours : forall (top : Z) (k n : nat) (dist : nat -> Z) (ns0 : list nat),
  k < length ns0 ->
  (forall j, j < n -> (dist j < top)%Z) ->
  forall ds ns, knn_scan Z.ltb top k n dist None ns0 = (ds, ns) ->
  let m := Nat.min k n in
  (forall l, l < m -> nth l ns 0 < n /\ nth l ds top = dist (nth l ns 0) /\ (nth l ds top < top)%Z) /\
  (forall l, m <= l -> l < k -> nth l ds top = top) /\
  NoDup (firstn m ns) /\
  (forall a b, a < b -> b < m ->
     (dist (nth a ns 0%nat) < dist (nth b ns 0%nat))%Z \/
     (dist (nth a ns 0) = dist (nth b ns 0) /\ nth a ns 0 < nth b ns 0)) /\
  (forall j, j < n -> ~ In j (firstn m ns) -> forall l, l < m ->
     (dist (nth l ns 0%nat) < dist j)%Z \/ (dist (nth l ns 0) = dist j /\ nth l ns 0 < j)).
Proof.
  intros top k n dist ns0 Hk Htop ds ns Hscan m.
  destruct (knn_scan_spec top k n dist None ns0 Hk ltac:(intros; apply Htop; assumption) ds ns Hscan)
    as (_ & _ & Hfill & Hempty & Hnd & Hsort & Hmin & _).
  cbn [ncands] in *. fold m in Hfill, Hempty, Hnd, Hsort, Hmin.
  split; [intros l Hl; specialize (Hfill l Hl); tauto|].
  split; [exact Hempty|]. split; [exact Hnd|]. split; [exact Hsort|].
  intros j Hj Hnin l Hl. apply Hmin; auto. discriminate.
Qed.

Theorem knn_predict_neighbours_isort : forall (top : Z) (k n : nat) (dist : nat -> Z) (ns0 : list nat),
  k < length ns0 ->
  (forall j, j < n -> (dist j < top)%Z) ->
  forall ds ns, knn_scan Z.ltb top k n dist None ns0 = (ds, ns) ->
  firstn (Nat.min k n) ns = firstn k (isort dist (seq 0 n)) /\
  firstn (Nat.min k n) ds = map dist (firstn k (isort dist (seq 0 n))).
Proof.
  intros top k n dist ns0 Hk Htop ds ns Hscan.
  destruct (knn_scan_spec top k n dist None ns0 Hk ltac:(intros; apply Htop; assumption) ds ns Hscan)
    as (_ & _ & _ & _ & _ & _ & _ & Hn & Hd).
  cbn [ncands] in *. unfold knearest in *. rewrite cands_none in *. auto.
Qed.
