(* C14 (order-only part) for an arbitrary strict total order: the neighbour scan of the KNN
   predicts, the arg-max [knn_pick] and their composition [knn_predict_one] (Model/Knn.v).

     - the neighbour theorems are the case [skip = None] of [Lift2Knn.knn_scan_spec_anyorder];
     - [knn_pick_argmax_anyorder] is lifted from W := Z (KnnPick.v) along the rank map of the
       values that occur, with [rescale_knn_pick_on] (abstraction theorem [param_knn_pick]);
     - [knn_predict_rule_anyorder] is then COMPOSED AT W from the two, by the argument of
       KnnBatch.knn_predict_rule.  No parametricity statement for [knn_predict_one] is needed and
       [densx_of : list W -> list nat -> W] stays an arbitrary function: nothing has to commute
       with the rank map. *)
From Coq Require Import List Arith Bool ZArith Lia Permutation.
From OPF Require Import Base.Lists Base.TotalOrder Model.Heap Model.Knn.
From OPF Require Import Proofs.ParamBase Proofs.ParamKnn Proofs.RescaleKnn Proofs.OrderEmbed
  Proofs.LiftCluster Proofs.KnnSort Proofs.KnnScan Proofs.KnnPick Proofs.Lift2Knn.
Import ListNotations.
Close Scope Z_scope.

Section LiftPredict.
  Context {W : Type} (ltb : W -> W -> bool).
  Hypothesis O : strict_total_order ltb.

  (* ---------- the scan of a query: no sample skipped ---------- *)

  Theorem knn_predict_neighbours_anyorder (top : W) (k n : nat) (dist : nat -> W) (ns0 : list nat) :
    k < length ns0 ->
    (forall j, j < n -> ltb (dist j) top = true) ->
    forall ds ns, knn_scan ltb top k n dist None ns0 = (ds, ns) ->
    let m := Nat.min k n in
    (forall l, l < m -> nth l ns 0 < n /\ nth l ds top = dist (nth l ns 0) /\
                        ltb (nth l ds top) top = true) /\
    (forall l, m <= l -> l < k -> nth l ds top = top) /\
    NoDup (firstn m ns) /\
    (forall a b, a < b -> b < m ->
       ltb (dist (nth a ns 0)) (dist (nth b ns 0)) = true \/
       (dist (nth a ns 0) = dist (nth b ns 0) /\ nth a ns 0 < nth b ns 0)) /\
    (forall j, j < n -> ~ In j (firstn m ns) -> forall l, l < m ->
       ltb (dist (nth l ns 0)) (dist j) = true \/ (dist (nth l ns 0) = dist j /\ nth l ns 0 < j)).
  Proof.
    intros Hk Htop ds ns Hscan m.
    destruct (knn_scan_spec_anyorder ltb O top k n dist None ns0 Hk
                ltac:(intros; apply Htop; assumption) ds ns Hscan)
      as (_ & _ & Hfill & Hempty & Hnd & Hsort & Hmin & _).
    cbv zeta in Hfill, Hempty, Hnd, Hsort, Hmin. fold m in Hfill, Hempty, Hnd, Hsort, Hmin.
    split; [intros l Hl; specialize (Hfill l Hl); tauto|].
    split; [exact Hempty|]. split; [exact Hnd|]. split; [exact Hsort|].
    intros j Hj Hnin l Hl. apply Hmin; auto. discriminate.
  Qed.

  Theorem knn_predict_neighbours_isort_anyorder (top : W) (k n : nat) (dist : nat -> W)
          (ns0 : list nat) :
    k < length ns0 ->
    (forall j, j < n -> ltb (dist j) top = true) ->
    forall ds ns, knn_scan ltb top k n dist None ns0 = (ds, ns) ->
    firstn (Nat.min k n) ns = firstn k (isortW ltb dist (seq 0 n)) /\
    firstn (Nat.min k n) ds = map dist (firstn k (isortW ltb dist (seq 0 n))).
  Proof.
    intros Hk Htop ds ns Hscan.
    destruct (knn_scan_spec_anyorder ltb O top k n dist None ns0 Hk
                ltac:(intros; apply Htop; assumption) ds ns Hscan)
      as (_ & _ & _ & _ & _ & _ & _ & Hn & Hd).
    cbv zeta in Hn, Hd. rewrite cands_none in Hn, Hd. auto.
  Qed.

  (* ---------- the arg-max ---------- *)

  Theorem knn_pick_argmax_anyorder (zero top bot : W) (g : @knn W) (k : nat) (densx : W)
          (ds : list W) (ns : list nat) :
    let val l := wmin ltb (nth (nth l ns 0) (k_cost g) zero) densx in
    (forall l, l < k -> nth l ds top <> top -> ltb bot (val l) = true) ->
    ((forall l, l < k -> nth l ds top = top) /\ knn_pick ltb zero top bot g k densx ds ns = None) \/
    (exists l, l < k /\ nth l ds top <> top /\
       knn_pick ltb zero top bot g k densx ds ns = Some (nth l ns 0) /\
       (forall l', l' < k -> nth l' ds top <> top -> ltb (val l) (val l') = false) /\
       (forall l', l' < l -> nth l' ds top <> top -> ltb (val l') (val l) = true)).
  Proof.
    intros val Hbot.
    set (vals := zero :: top :: bot :: densx :: k_gdens g :: ds ++ k_radius g ++ k_dens g ++ k_cost g).
    set (r := rk ltb vals).
    assert (Hz : In zero vals) by now left.
    assert (Ht : In top vals) by (right; now left).
    assert (Hb : In bot vals) by (do 2 right; now left).
    assert (Hx : In densx vals) by (do 3 right; now left).
    assert (Hds : Forall (fun a => In a vals) ds).
    { apply Forall_forall. intros a Ha. do 5 right. apply in_or_app. now left. }
    assert (Hg : knn_all (fun a => In a vals) g).
    { unfold knn_all. repeat split; try (apply Forall_forall; intros a Ha).
      - do 5 right. apply in_or_app. right. apply in_or_app. now left.
      - do 5 right. apply in_or_app. right. apply in_or_app. right. apply in_or_app. now left.
      - do 5 right. apply in_or_app. right. apply in_or_app. right. apply in_or_app. now right.
      - do 4 right. now left. }
    assert (Hc_in : forall j, In (nth j (k_cost g) zero) vals).
    { intros j. apply (Forall_in_nth vals); [apply Hg | exact Hz]. }
    assert (Hd_in : forall l, In (nth l ds top) vals)
      by (intros l; now apply (Forall_in_nth vals)).
    assert (Hv_in : forall l, In (val l) vals).
    { intros l. unfold val. rewrite wmin_omin. apply omin_in; [apply Hc_in | exact Hx]. }
    pose proof (rescale_knn_pick_on (fun a => In a vals) r ltb Z.ltb (rk_ltb ltb O vals)
                  zero top bot g k densx ds ns Hz Ht Hb Hg Hx Hds) as E.
    assert (HvZ : forall l, Z.min (nth (nth l ns 0) (k_cost (map_knn r g)) (r zero)) (r densx)
                            = r (val l)).
    { intros l. unfold map_knn; cbn [k_cost]. rewrite map_nth. unfold val. rewrite wmin_omin.
      symmetry. apply (rk_omin ltb O vals); [apply Hc_in | exact Hx]. }
    assert (HdZ : forall l, nth l (map r ds) (r top) <> r top <-> nth l ds top <> top).
    { intros l. rewrite map_nth. split.
      - intros H1 H2. apply H1. now rewrite H2.
      - intros H1 H2. apply H1. exact (rk_inj ltb O vals _ _ (Hd_in l) Ht H2). }
    assert (HdZ' : forall l, nth l (map r ds) (r top) = r top <-> nth l ds top = top).
    { intros l. rewrite map_nth. split.
      - intros H2. exact (rk_inj ltb O vals _ _ (Hd_in l) Ht H2).
      - intros H2. now rewrite H2. }
    destruct (knn_pick_argmax (r zero) (r top) (r bot) (map_knn r g) k (r densx) (map r ds) ns)
      as [[A1 A2]|(l & A1 & A2 & A3 & A4 & A5)].
    - intros l Hl Hne. rewrite HvZ.
      apply (rk_lt_iff ltb O vals _ _ Hb (Hv_in l)). apply Hbot; [exact Hl | now apply HdZ].
    - left. split.
      + intros l Hl. apply HdZ'. now apply A1.
      + rewrite <- E. exact A2.
    - right. exists l. split; [exact A1|]. split; [now apply HdZ|]. split; [rewrite <- E; exact A3|].
      split.
      + intros l' Hl' Hne. specialize (A4 l' Hl' (proj2 (HdZ l') Hne)). rewrite !HvZ in A4.
        exact (proj1 (rk_le_iff ltb O vals _ _ (Hv_in l') (Hv_in l)) A4).
      + intros l' Hl' Hne. specialize (A5 l' Hl' (proj2 (HdZ l') Hne)). rewrite !HvZ in A5.
        exact (proj1 (rk_lt_iff ltb O vals _ _ (Hv_in l') (Hv_in l)) A5).
  Qed.

  Theorem knn_pick_none_iff_anyorder (zero top bot : W) (g : @knn W) (k : nat) (densx : W)
          (ds : list W) (ns : list nat) :
    (forall l, l < k -> nth l ds top <> top ->
       ltb bot (wmin ltb (nth (nth l ns 0) (k_cost g) zero) densx) = true) ->
    (knn_pick ltb zero top bot g k densx ds ns = None <-> forall l, l < k -> nth l ds top = top).
  Proof.
    intros Hbot.
    destruct (knn_pick_argmax_anyorder zero top bot g k densx ds ns Hbot)
      as [[A1 A2]|(l & A1 & A2 & A3 & _)].
    - split; [intros _; exact A1 | intros _; exact A2].
    - split.
      + intros H. rewrite H in A3. discriminate.
      + intros H. exfalso. apply A2. now apply H.
  Qed.

  (* ---------- one query: scan, then arg-max ---------- *)

  Theorem knn_predict_rule_anyorder (zero top bot : W) (g : @knn W) (k n : nat)
          (densx_of : list W -> list nat -> W) (dist : nat -> W) :
    1 <= k -> 1 <= n ->
    (forall j, j < n -> ltb (dist j) top = true) ->
    forall ds ns, knn_scan ltb top k n dist None (repeat 0 (S k)) = (ds, ns) ->
    let densx := densx_of ds ns in
    let val j := wmin ltb (nth j (k_cost g) zero) densx in
    (forall j, j < n -> ltb bot (val j) = true) ->
    let N := firstn k (isortW ltb dist (seq 0 n)) in
    length N = Nat.min k n /\
    firstn (Nat.min k n) ns = N /\ firstn (Nat.min k n) ds = map dist N /\
    NoDup N /\ (forall j, In j N -> j < n) /\
    (forall a b, a < b -> b < length N ->
       ltb (dist (nth a N 0)) (dist (nth b N 0)) = true \/
       (dist (nth a N 0) = dist (nth b N 0) /\ nth a N 0 < nth b N 0)) /\
    (forall j, j < n -> ~ In j N -> forall a, In a N ->
       ltb (dist a) (dist j) = true \/ (dist a = dist j /\ a < j)) /\
    exists r, r < length N /\
      knn_predict_one ltb zero top bot g k n densx_of dist = Some (nth r N 0) /\
      (forall r', r' < length N -> ltb (val (nth r N 0)) (val (nth r' N 0)) = false) /\
      (forall r', r' < r -> ltb (val (nth r' N 0)) (val (nth r N 0)) = true).
  Proof.
    intros Hk Hn Htop ds ns Hscan densx val Hbot N.
    assert (Htop' : forall j, j < n -> None <> Some j -> ltb (dist j) top = true)
      by (intros j Hj _; apply Htop, Hj).
    destruct (knn_scan_spec_anyorder ltb O top k n dist None (repeat 0 (S k))
                ltac:(rewrite repeat_length; lia) Htop' ds ns Hscan)
      as (_ & Hlns & Hfill & Hempty & Hnd & Hsort & Hmin & Hfn & Hfd).
    cbv zeta in Hfill, Hempty, Hnd, Hsort, Hmin, Hfn, Hfd.
    rewrite cands_none in Hfn, Hfd. rewrite repeat_length in Hlns.
    set (m := Nat.min k n) in *. fold N in Hfn, Hfd.
    assert (HNlen : length N = m).
    { rewrite <- Hfn, firstn_length, Hlns. unfold m. lia. }
    assert (Hnth : forall l, l < m -> nth l ns 0 = nth l N 0).
    { intros l Hl. rewrite <- Hfn. symmetry. apply nth_firstn_lt, Hl. }
    assert (HNin : forall a, In a N -> exists l, l < m /\ nth l ns 0 = a).
    { intros a Ha. destruct (In_nth N a 0 Ha) as (l & Hl & <-). rewrite HNlen in Hl.
      exists l. split; [exact Hl | now apply Hnth]. }
    split; [exact HNlen|]. split; [exact Hfn|]. split; [exact Hfd|].
    split; [rewrite <- Hfn; exact Hnd|].
    split; [intros j Hj; destruct (HNin j Hj) as (l & Hl & <-); now apply Hfill|].
    split.
    { intros a b Hab Hb. rewrite HNlen in Hb. rewrite <- !Hnth by lia. now apply Hsort. }
    split.
    { intros j Hj Hnin a Ha. destruct (HNin a Ha) as (l & Hl & <-).
      apply Hmin; [exact Hj | discriminate | now rewrite Hfn | exact Hl]. }
    assert (Hfilled : forall l, l < k -> nth l ds top <> top -> l < m).
    { intros l Hl Hne. destruct (Nat.lt_ge_cases l m) as [H|H]; [exact H|].
      exfalso. apply Hne, Hempty; assumption. }
    assert (Hne_top : forall l, l < m -> nth l ds top <> top).
    { intros l Hl E. destruct (Hfill l Hl) as (_ & _ & _ & Hlt). rewrite E in Hlt.
      rewrite (so_irrefl ltb O) in Hlt. discriminate. }
    assert (Hbot' : forall l, l < k -> nth l ds top <> top ->
                      ltb bot (wmin ltb (nth (nth l ns 0) (k_cost g) zero) densx) = true).
    { intros l Hl Hne. apply (Hbot (nth l ns 0)). apply Hfill, Hfilled; assumption. }
    assert (Hone : knn_predict_one ltb zero top bot g k n densx_of dist
                   = knn_pick ltb zero top bot g k densx ds ns).
    { unfold knn_predict_one. rewrite Hscan. reflexivity. }
    destruct (knn_pick_argmax_anyorder zero top bot g k densx ds ns Hbot')
      as [[Hall _]|(l & Hl & Hne & Hr & Hmax & Hfirst)].
    - exfalso. assert (H0 : 0 < m) by (unfold m; lia).
      apply (Hne_top 0 H0). apply Hall. lia.
    - pose proof (Hfilled l Hl Hne) as Hlm.
      exists l. split; [lia|]. split; [rewrite Hone, Hr, (Hnth l Hlm); reflexivity|].
      rewrite HNlen. split.
      + intros r' Hr'. unfold val. rewrite <- (Hnth r' Hr'), <- (Hnth l Hlm).
        apply Hmax; [unfold m in Hr'; lia | now apply Hne_top].
      + intros r' Hr'. unfold val. rewrite <- (Hnth r' ltac:(lia)), <- (Hnth l Hlm).
        apply Hfirst; [exact Hr' | apply Hne_top; lia].
  Qed.
End LiftPredict.

(* ---------- W := nat: a computed instance ----------
   six training samples with costs 1,7,3,9,9,2, query distances 5,2,9,5,2,7, k = 3, query
   density 8: the neighbours are 1,4 (distance 2, index order) and 0 (distance 5, before 3);
   their values min(cost, 8) are 7,8,1, so sample 4 is the label source. *)
From OPF Require Import Proofs.LiftInst.

Definition pkn_g : @knn nat := mkKnn [0;0;0;0;0;0] [] [] [] [] [1;7;3;9;9;2] [] [] [] [] [] 0 0.
Definition pkn_dist (j : nat) : nat := nth j [5;2;9;5;2;7] 0.

Example pkn_premises :
  strict_total_order Nat.ltb /\
  (forall j, j < 6 -> Nat.ltb (pkn_dist j) 1000 = true) /\
  (forall j, j < 6 -> Nat.ltb 0 (wmin Nat.ltb (nth j (k_cost pkn_g) 0) 8) = true).
Proof.
  split; [exact nat_order|]. split; intros j Hj;
    destruct j as [|[|[|[|[|[|j]]]]]]; try reflexivity; lia.
Qed.

Example pkn_result :
  knn_scan Nat.ltb 1000 3 6 pkn_dist None (repeat 0 4) = ([2; 2; 5; 7], [1; 4; 0; 5]) /\
  firstn 3 (isortW Nat.ltb pkn_dist (seq 0 6)) = [1; 4; 0] /\
  knn_pick Nat.ltb 0 1000 0 pkn_g 3 8 [2; 2; 5; 7] [1; 4; 0; 5] = Some 4 /\
  knn_predict_one Nat.ltb 0 1000 0 pkn_g 3 6 (fun _ _ => 8) pkn_dist = Some 4.
Proof. vm_compute. repeat split; reflexivity. Qed.
