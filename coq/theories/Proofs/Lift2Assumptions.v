(* Assumption audit of the order-generic theorems of the second batch (Props/C15_anyorder.v,
   C12_anyorder.v, C14_anyorder.v, C16_anyorder.v, C04_anyorder.v): every line must print
   "Closed under the global context". *)
From OPF Require Import Props.C15_anyorder Props.C12_anyorder Props.C14_anyorder Props.C16_anyorder
  Props.C04_anyorder.

Print Assumptions C15_compete_semi_anyorder.
Print Assumptions C15_semi_optimal_anyorder.
Print Assumptions C15_anyorder_example_premises.
Print Assumptions C15_anyorder_example_result.
Print Assumptions C12_isortW_unfold.
Print Assumptions C12_knn_scan_spec_anyorder.
Print Assumptions C12_arcs_exact_anyorder.
Print Assumptions C12_anyorder_example_premises.
Print Assumptions C12_anyorder_example_arcs.
Print Assumptions C12_anyorder_example_scan.
Print Assumptions C14_knn_predict_neighbours_anyorder.
Print Assumptions C14_knn_predict_neighbours_sorted_anyorder.
Print Assumptions C14_knn_pick_argmax_anyorder.
Print Assumptions C14_knn_pick_none_iff_anyorder.
Print Assumptions C14_knn_predict_rule_anyorder.
Print Assumptions C14_anyorder_example_premises.
Print Assumptions C14_anyorder_example_result.
Print Assumptions C16_knn_select_argmax_anyorder.
Print Assumptions C16_knn_select_all_zero_anyorder.
Print Assumptions C16_cut_select_argmin_anyorder.
Print Assumptions C16_anyorder_knn_select_ex_tie.
Print Assumptions C16_anyorder_cut_select_ex_tie.
Print Assumptions C16_anyorder_cut_select_ex_early_zero.
Print Assumptions C04_tie_freeW_def.
Print Assumptions C04_sup_train_labels_own_anyorder.
Print Assumptions C04_sup_cost_below_other_class_anyorder.
Print Assumptions C04_sup_forest_arcs_within_class_anyorder.
Print Assumptions C04_sup_predict_train_exact_anyorder.
Print Assumptions C04_sup_predict_train_batch_exact_anyorder.
Print Assumptions C04_anyorder_example_premises.
Print Assumptions C04_anyorder_example_result.
