(* Float-level reading of the query density of both KNN predicts ([query_density] of Model/Pdf.v at
   [RndOps rnd]; it is the function [query_densx] of Model/KnnPredict.v hands to the scan), part 3.

       density = (sum_{l<k} e l) / k
       density = ((MAX_DENSITY - 1) * (density - min) / (max - min + EPSILON)) + 1

   For every [rounding rnd]: weakly monotone in the query's (rounded) mean [s], hence in every term;
   with [rnd 1 = 1]: s = min |-> exactly 1, s >= min |-> >= 1; and compared with the training map:
   same numerator, divisor rnd (rnd (max - min) + EPSILON) instead of rnd (max - min), mean over k
   instead of k + 1. *)
From Coq Require Import Reals List ZArith Bool Lia Lra.
From OPF Require Import Base.Lists Base.NumOps Base.NumOpsRnd Model.Pdf Model.MetricRnd
  Proofs.PdfBase Proofs.PdfReal Proofs.PdfRndBase Proofs.PdfRnd.
Import ListNotations.
Local Open Scope R_scope.

Section Query.
  Variable rnd : R -> R.
  Hypothesis RND : rounding rnd.

  (* "divides by k, not by k + 1": on the same non-negative terms the query's mean is the larger one *)
  Lemma pdfv_le_qmean k e :
    (1 <= k)%nat -> (forall l, (l < k)%nat -> 0 <= e l) -> pdfv rnd k e <= qmean rnd k e.
  Proof.
    intros Hk He. unfold pdfv, qmean. apply rnd_le; [exact RND|].
    assert (HS : 0 <= rsum rnd (map e (seq 0 k))).
    { apply rsum_nonneg; [exact RND|]. intros v Hv. apply in_map_iff in Hv. destruct Hv as (l & <- & Hl).
      apply in_seq in Hl. apply He. lia. }
    unfold Rdiv. apply Rmult_le_compat_l; [exact HS|].
    apply Rinv_le_contravar; [apply IZR_lt; lia|apply IZR_le; lia].
  Qed.

  Theorem query_density_rnd_props (eps mn mx : R) (k : nat) (e e' : nat -> R) :
    0 < eps -> mn <= mx ->
    let s := qmean rnd k e in
    let s' := qmean rnd k e' in
    let q := query_density (RndOps rnd) 1000 eps mn mx k e in
    let q' := query_density (RndOps rnd) 1000 eps mn mx k e' in
    q = rnd (rnd (rnd (999 * rnd (s - mn)) / rnd (rnd (mx - mn) + eps)) + 1) /\
    0 < rnd (rnd (mx - mn) + eps) /\
    (s <= s' -> q <= q') /\ (s = s' -> q = q') /\ (q < q' -> s < s') /\
    ((1 <= k)%nat -> (forall l, (l < k)%nat -> e l <= e' l) -> q <= q') /\
    (rnd 1 = 1 -> (s = mn -> q = 1) /\ (mn <= s -> 1 <= q) /\ (s <= mn -> q <= 1)).
  Proof.
    intros He Hm s s' q q'. unfold q, q'. rewrite !query_density_RndOps. fold s s'.
    split; [reflexivity|].
    split; [now apply qmap_den_pos|].
    split; [intro H; now apply qmap_mono|].
    split; [intro H; now rewrite H|].
    split; [intro H; now apply (qmap_lt_inv rnd RND eps mn mx)|].
    split.
    { intros Hk Hl. apply qmap_mono; auto. unfold s, s'. now apply qmean_mono. }
    intro H1. split; [intro H; rewrite H; now apply qmap_min|].
    split; intro H; [now apply qmap_ge_1|now apply qmap_le_1].
  Qed.

  (* against the values recorded by calculate_pdf *)
  Theorem query_density_rnd_of_fit fmax n k gdens e c mn mx dc eps kq (eq : nat -> R) :
    (1 <= n)%nat ->
    calculate_pdf (RndOps rnd) fmax 1000 n k gdens e = (c, mn, mx, dc) ->
    0 < eps ->
    let p := fun i => pdf_value (RndOps rnd) k (e i) in
    let dens := fun i => fst (nth i dc (0, 0)) in
    let s := qmean rnd kq eq in
    let q := query_density (RndOps rnd) 1000 eps mn mx kq eq in
    0 < rnd (rnd (mx - mn) + eps) /\
    (* a query whose mean equals a training sample's unmapped value gets at most that sample's density;
       exactly that density when EPSILON is absorbed by the rounded addition *)
    (rnd_idem rnd -> mn <> mx -> forall i, (i < n)%nat -> s = p i -> q <= dens i) /\
    (rnd (rnd (mx - mn) + eps) = rnd (mx - mn) -> mn <> mx ->
       forall i, (i < n)%nat -> s = p i -> q = dens i) /\
    (* weakly ordered against every training sample: above or equal the training samples it dominates *)
    (rnd (rnd (mx - mn) + eps) = rnd (mx - mn) -> mn <> mx ->
       forall i, (i < n)%nat -> (p i <= s -> dens i <= q) /\ (s <= p i -> q <= dens i)) /\
    (rnd 1 = 1 -> (mn <= s -> 1 <= q) /\ (s <= mn -> q <= 1) /\ (s = mn -> q = 1)).
  Proof.
    intros Hn Hcalc He p dens s q.
    pose proof (rnd_min_le_max rnd fmax n k gdens e c mn mx dc Hcalc Hn) as Hm.
    change p with (fun i => pdfv rnd k (e i)).
    unfold q. rewrite query_density_RndOps. fold s.
    split; [now apply qmap_den_pos|].
    split.
    { intros HI Hne i Hi Hs.
      destruct (rnd_density_tree rnd fmax n k gdens e c mn mx dc Hcalc i Hne Hi) as [Ed _].
      unfold dens. rewrite Ed. rewrite Hs. apply (qmap_le_dmap rnd RND); [exact HI|lra|lra|].
      exact (rnd_min_lower rnd fmax n k gdens e c mn mx dc Hcalc i Hi). }
    split.
    { intros HA Hne i Hi Hs.
      destruct (rnd_density_tree rnd fmax n k gdens e c mn mx dc Hcalc i Hne Hi) as [Ed _].
      unfold dens. rewrite Ed. rewrite Hs. now apply qmap_eq_dmap. }
    split.
    { intros HA Hne i Hi.
      destruct (rnd_density_tree rnd fmax n k gdens e c mn mx dc Hcalc i Hne Hi) as [Ed _].
      unfold dens. rewrite Ed. rewrite (qmap_eq_dmap rnd eps mn mx s HA).
      assert (Hlt : mn < mx) by lra.
      split; intro H; apply dmap_mono; assumption. }
    intro H1. split; [intro H; now apply qmap_ge_1|].
    split; intro H; [now apply qmap_le_1|rewrite H; now apply qmap_min].
  Qed.
End Query.
