(* C12 (order-only part) for an arbitrary strict total order: the (k+1)-slot insertion scan and
   create_arcs on a fresh subgraph (Model/Knn.v).  Lifted from W := Z (KnnScan.v, KnnArcs.v)
   along the rank map of the finite set of values that occur, with the abstraction theorems of
   ParamKnn.v in the form of RescaleKnn.v ([rescale_knn_scan_on], [rescale_create_arcs_on]).

   Choice made for the "first k of the stable sort" clauses: the stable insertion sort by
   (distance, index) is DEFINED at W ([insW], [isortW]: the functions [ins], [isort] of
   KnnSort.v with [Z.ltb] replaced by [ltb]) and the lifted theorem keeps both forms, the
   "slots are ordered / every left-out candidate is larger" clauses and the equation with the
   prefix of [isortW]. *)
From Coq Require Import List Arith Bool ZArith Lia Permutation.
From OPF Require Import Base.Lists Base.TotalOrder Model.Heap Model.Knn.
From OPF Require Import Proofs.ParamBase Proofs.ParamKnn Proofs.RescaleKnn Proofs.WeightsExtBounded
  Proofs.OrderEmbed Proofs.LiftSup Proofs.LiftCluster Proofs.KnnSort Proofs.KnnScan Proofs.KnnArcs.
Import ListNotations.
Close Scope Z_scope.

(* [Model.Knn.wmaxk] is [omax] *)
Lemma wmaxk_omax {W} (ltb : W -> W -> bool) a b : wmaxk ltb a b = omax ltb a b.
Proof. reflexivity. Qed.

(* ---------- the stable insertion sort by (distance, index) at W ---------- *)

Section SortW.
  Context {W : Type} (ltb : W -> W -> bool) (dist : nat -> W).

  (* insert [j] behind every element whose distance is not above [dist j] *)
  Fixpoint insW (j : nat) (l : list nat) : list nat :=
    match l with
    | [] => [j]
    | y :: t => if ltb (dist j) (dist y) then j :: y :: t else y :: insW j t
    end.

  Definition isortW_from (S0 C : list nat) : list nat := fold_left (fun S j => insW j S) C S0.
  Definition isortW (C : list nat) : list nat := isortW_from [] C.

  Lemma insW_In j l x : In x (insW j l) -> x = j \/ In x l.
  Proof.
    induction l as [|y t IH]; cbn [insW].
    - intros [<-|[]]. now left.
    - destruct (ltb (dist j) (dist y)).
      + intros [<-|H]; [now left | now right].
      + intros [<-|H]; [right; now left|]. destruct (IH H) as [->|H']; [now left | right; now right].
  Qed.
End SortW.

Lemma insW_ext {W} (ltb : W -> W -> bool) (d d' : nat -> W) j l :
  (forall x, In x (j :: l) -> d x = d' x) -> insW ltb d j l = insW ltb d' j l.
Proof.
  induction l as [|y t IH]; intros H; cbn [insW]; [reflexivity|].
  rewrite (H j (or_introl eq_refl)), (H y (or_intror (or_introl eq_refl))).
  destruct (ltb (d' j) (d' y)); [reflexivity|]. f_equal. apply IH.
  intros x [<-|Hx]; apply H; [now left | right; now right].
Qed.

Lemma isortW_from_ext {W} (ltb : W -> W -> bool) (d d' : nat -> W) C : forall S0,
  (forall x, In x (S0 ++ C) -> d x = d' x) -> isortW_from ltb d S0 C = isortW_from ltb d' S0 C.
Proof.
  induction C as [|c C IH]; intros S0 H; cbn [isortW_from fold_left]; [reflexivity|].
  rewrite (insW_ext ltb d d' c S0).
  - apply IH. intros x Hx. apply in_app_or in Hx. destruct Hx as [Hx|Hx].
    + apply insW_In in Hx. apply H. apply in_or_app. destruct Hx as [->|Hx]; [right; now left | now left].
    + apply H. apply in_or_app. right; now right.
  - intros x [<-|Hx]; apply H; apply in_or_app; [right; now left | now left].
Qed.

Lemma isortW_ext {W} (ltb : W -> W -> bool) (d d' : nat -> W) C :
  (forall x, In x C -> d x = d' x) -> isortW ltb d C = isortW ltb d' C.
Proof. intros H. apply isortW_from_ext. exact H. Qed.

(* at distances whose comparison agrees with [Z.ltb] on [dz], [isortW] is [KnnSort.isort] *)
Lemma ins_insW {W} (ltb : W -> W -> bool) (d : nat -> W) (dz : nat -> Z) :
  (forall a b, Z.ltb (dz a) (dz b) = ltb (d a) (d b)) ->
  forall j l, ins dz j l = insW ltb d j l.
Proof.
  intros H j l. induction l as [|y t IH]; cbn [ins insW]; [reflexivity|].
  rewrite H, IH. reflexivity.
Qed.

Lemma isort_isortW {W} (ltb : W -> W -> bool) (d : nat -> W) (dz : nat -> Z) :
  (forall a b, Z.ltb (dz a) (dz b) = ltb (d a) (d b)) ->
  forall C, isort dz C = isortW ltb d C.
Proof.
  intros H C. unfold isort, isort_from, isortW, isortW_from.
  apply fold_left_ext_all. intros S0 j. now apply ins_insW.
Qed.

(* ---------- rank map: running maxima and [last] ---------- *)

Lemma last_map {A B} (f : A -> B) (l : list A) d : last (map f l) (f d) = f (last l d).
Proof.
  induction l as [|x l IH]; [reflexivity|]. destruct l as [|y l']; [reflexivity|].
  change (last (map f (x :: y :: l')) (f d)) with (last (map f (y :: l')) (f d)).
  change (last (x :: y :: l') d) with (last (y :: l') d). exact IH.
Qed.

Lemma Forall_last {A} (P : A -> Prop) (l : list A) d : Forall P l -> P d -> P (last l d).
Proof.
  intros H Hd. induction H as [|x l Hx Hl IH]; [exact Hd|].
  destruct l as [|y l']; [exact Hx|]. exact IH.
Qed.

Section RankFold.
  Context {W : Type} (ltb : W -> W -> bool).
  Hypothesis O : strict_total_order ltb.
  Variable vals : list W.
  Local Notation r := (rk ltb vals).
  Local Notation inV := (fun a : W => In a vals).

  Lemma fold_max_rank (z : W) (l : list W) : inV z -> Forall inV l ->
    inV (fold_right (omax ltb) z l) /\
    fold_right Z.max (r z) (map r l) = r (fold_right (omax ltb) z l).
  Proof.
    intros Hz H. induction H as [|a l Ha _ [IH1 IH2]]; [split; [exact Hz | reflexivity]|].
    cbn [map fold_right]. split.
    - now apply omax_in.
    - rewrite IH2. symmetry. now apply (rk_omax ltb O vals).
  Qed.
End RankFold.

(* ---------- the scan ---------- *)

Section LiftScan.
  Context {W : Type} (ltb : W -> W -> bool).
  Hypothesis O : strict_total_order ltb.

  Theorem knn_scan_spec_anyorder (top : W) (k n : nat) (dist : nat -> W) (skip : option nat)
          (ns0 : list nat) :
    k < length ns0 ->
    (forall j, j < n -> skip <> Some j -> ltb (dist j) top = true) ->
    forall ds ns, knn_scan ltb top k n dist skip ns0 = (ds, ns) ->
    let m := Nat.min k (match skip with Some i => if i <? n then n - 1 else n | None => n end) in
    length ds = S k /\ length ns = length ns0 /\
    (forall l, l < m -> nth l ns 0 < n /\ skip <> Some (nth l ns 0) /\
                        nth l ds top = dist (nth l ns 0) /\ ltb (nth l ds top) top = true) /\
    (forall l, m <= l -> l < k -> nth l ds top = top) /\
    NoDup (firstn m ns) /\
    (forall a b, a < b -> b < m ->
       ltb (dist (nth a ns 0)) (dist (nth b ns 0)) = true \/
       (dist (nth a ns 0) = dist (nth b ns 0) /\ nth a ns 0 < nth b ns 0)) /\
    (forall j, j < n -> skip <> Some j -> ~ In j (firstn m ns) ->
       forall l, l < m -> ltb (dist (nth l ns 0)) (dist j) = true \/
                          (dist (nth l ns 0) = dist j /\ nth l ns 0 < j)) /\
    firstn m ns = firstn k (isortW ltb dist (cands skip n)) /\
    firstn m ds = map dist (firstn k (isortW ltb dist (cands skip n))).
  Proof.
    intros Hk Htop ds ns Hscan m.
    set (vals := top :: map dist (seq 0 n)).
    set (r := rk ltb vals).
    set (dc := clip1 n top dist).
    assert (Ht : In top vals) by now left.
    assert (Hdv : forall j, j < n -> In (dist j) vals).
    { intros j Hj. right. apply in_map. apply in_seq. lia. }
    assert (Hdc : forall j, In (dc j) vals) by (intros j; now apply clip1_in).
    assert (Hdcn : forall j, j < n -> dc j = dist j) by (intros j Hj; now apply clip1_below).
    assert (Hext : knn_scan ltb top k n dc skip ns0 = (ds, ns)).
    { rewrite <- Hscan. apply knn_scan_ext_bounded. exact Hdcn. }
    destruct (rescale_knn_scan_on (fun a => In a vals) r ltb Z.ltb (rk_ltb ltb O vals)
                top k n dc skip ns0 Ht Hdc) as [Hds E].
    rewrite Hext in Hds, E. cbn [fst snd] in Hds, E.
    assert (Hdsn : forall l, In (nth l ds top) vals)
      by (intros l; now apply (Forall_in_nth vals)).
    assert (HtopZ : forall j, j < n -> skip <> Some j -> (r (dc j) < r top)%Z).
    { intros j Hj Hs. rewrite (Hdcn j Hj).
      exact (proj2 (rk_lt_iff ltb O vals _ _ (Hdv j Hj) Ht) (Htop j Hj Hs)). }
    pose proof (knn_scan_spec (r top) k n (fun j => r (dc j)) skip ns0 Hk HtopZ (map r ds) ns E) as HZ.
    cbv zeta in HZ. unfold lexlt, knearest in HZ.
    change (Nat.min k (ncands skip n)) with m in HZ.
    destruct HZ as (A1 & A2 & A3 & A4 & A5 & A6 & A7 & A8 & A9).
    rewrite map_length in A1.
    assert (Hsort : isort (fun j => r (dc j)) (cands skip n) = isortW ltb dist (cands skip n)).
    { rewrite (isort_isortW ltb dc (fun j => r (dc j))) by (intros a b; now apply (rk_ltb ltb O vals)).
      apply isortW_ext. intros x Hx. apply cands_In in Hx. apply Hdcn. tauto. }
    assert (Hfill : forall l, l < m -> nth l ns 0 < n /\ skip <> Some (nth l ns 0) /\
              nth l ds top = dist (nth l ns 0) /\ ltb (nth l ds top) top = true).
    { intros l Hl. destruct (A3 l Hl) as (B1 & B2 & B3 & B4). rewrite map_nth in B3, B4.
      split; [exact B1|]. split; [exact B2|]. split.
      - rewrite <- (Hdcn _ B1). exact (rk_inj ltb O vals _ _ (Hdsn l) (Hdc _) B3).
      - exact (proj1 (rk_lt_iff ltb O vals _ _ (Hdsn l) Ht) B4). }
    assert (Hlex : forall a b, a < n -> b < n ->
              (r (dc a) < r (dc b))%Z \/ (r (dc a) = r (dc b) /\ a < b) ->
              ltb (dist a) (dist b) = true \/ (dist a = dist b /\ a < b)).
    { intros a b Ha Hb [H|[H1 H2]].
      - left. rewrite <- (Hdcn a Ha), <- (Hdcn b Hb).
        exact (proj1 (rk_lt_iff ltb O vals _ _ (Hdc a) (Hdc b)) H).
      - right. split; [|exact H2]. rewrite <- (Hdcn a Ha), <- (Hdcn b Hb).
        exact (rk_inj ltb O vals _ _ (Hdc a) (Hdc b) H1). }
    split; [exact A1|]. split; [exact A2|]. split; [exact Hfill|].
    split; [|split; [exact A5|split; [|split; [|split]]]].
    - intros l Hl Hlk. specialize (A4 l Hl Hlk). rewrite map_nth in A4.
      exact (rk_inj ltb O vals _ _ (Hdsn l) Ht A4).
    - intros a b Hab Hb. apply Hlex; [apply Hfill; lia | apply Hfill; lia | exact (A6 a b Hab Hb)].
    - intros j Hj Hs Hnin l Hl. apply Hlex; [apply Hfill; lia | exact Hj | exact (A7 j Hj Hs Hnin l Hl)].
    - rewrite A8, Hsort. reflexivity.
    - rewrite Hsort in A9. rewrite firstn_map in A9.
      rewrite <- (map_map dc r) in A9.
      apply (map_rk_inj ltb O vals) in A9.
      + rewrite A9. apply map_ext_in. intros x Hx. apply Hdcn.
        apply In_firstn in Hx. rewrite <- Hsort in Hx. apply isort_In in Hx.
        apply cands_In in Hx. tauto.
      + apply Forall_forall. intros x Hx. apply In_firstn in Hx.
        exact (proj1 (Forall_forall _ _) Hds x Hx).
      + apply Forall_forall. intros x Hx. apply in_map_iff in Hx. destruct Hx as (y & <- & _). apply Hdc.
  Qed.
End LiftScan.

(* ---------- create_arcs on a fresh subgraph ---------- *)

Section LiftArcs.
  Context {W : Type} (ltb : W -> W -> bool).
  Hypothesis O : strict_total_order ltb.

  Theorem arcs_exact_anyorder (zero top thr one : W) (k n : nat) (w : nat -> nat -> W)
          (labels : list nat) :
    length labels = n ->
    (forall i j, i < n -> j < n -> i <> j -> ltb (w i j) zero = false /\ ltb (w i j) top = true) ->
    forall g' maxd, create_arcs ltb zero top thr one k n w (knn_init zero labels) = (g', maxd) ->
    let adj i := nth i (k_adj g') [] in
    let dl i l := nth l (map (w i) (adj i)) zero in
    let rad i := nth i (k_radius g') zero in
    let M := fold_right (wmaxk ltb) zero (map rad (seq 0 n)) in
    (forall i, i < n ->
       length (adj i) = Nat.min k (n - 1) /\ NoDup (adj i) /\ ~ In i (adj i) /\
       (forall j, In j (adj i) -> j < n) /\
       (forall a b, a <= b -> b < length (adj i) ->
          ltb (w i (nth b (adj i) 0)) (w i (nth a (adj i) 0)) = false) /\
       (forall j, j < n -> j <> i -> ~ In j (adj i) -> forall a, In a (adj i) ->
          ltb (w i j) (w i a) = false) /\
       (forall j, j < n -> j <> i -> ~ In j (adj i) -> ltb (w i j) (rad i) = false) /\
       rad i = last (map (w i) (adj i)) zero /\ (n = 1 -> rad i = zero)) /\
    length maxd = k /\
    (forall l, nth l maxd zero = fold_right (wmaxk ltb) zero (map (fun i => dl i l) (seq 0 n))) /\
    k_gdens g' = (if ltb M thr then one else M).
  Proof.
    intros Hlen Hw g' maxd Hca adj dl rad M.
    set (vals := zero :: top :: thr :: one :: weight_vals n w).
    set (r := rk ltb vals).
    set (wc := clip2 n zero w).
    assert (Hz : In zero vals) by now left.
    assert (Ht : In top vals) by (right; now left).
    assert (Hthr : In thr vals) by (do 2 right; now left).
    assert (Hone : In one vals) by (do 3 right; now left).
    assert (Hwv : forall p q, p < n -> q < n -> In (w p q) vals).
    { intros p q Hp Hq. do 4 right. now apply weight_vals_in. }
    assert (Hwc : forall p q, In (wc p q) vals) by (intros p q; now apply clip2_in).
    assert (Hwcn : forall p q, p < n -> q < n -> wc p q = w p q)
      by (intros p q Hp Hq; now apply clip2_below).
    assert (Hg0 : knn_all (fun a => In a vals) (knn_init zero labels)).
    { unfold knn_all, knn_init. cbn [k_radius k_dens k_cost k_gdens].
      assert (Hrep : forall m, Forall (fun a => In a vals) (repeat zero m)).
      { intros m. apply Forall_forall. intros a Ha. apply repeat_spec in Ha. now subst. }
      repeat split; try apply Hrep. exact Hz. }
    assert (Hm0 : map_knn r (knn_init zero labels) = knn_init (r zero) labels).
    { unfold map_knn, knn_init.
      cbn [k_label k_adj k_radius k_nplat k_dens k_cost k_pred k_root k_plabel k_clabel k_order
                   k_gdens k_nclusters].
      now rewrite !map_repeat_eq. }
    assert (Hext : create_arcs ltb zero top thr one k n wc (knn_init zero labels) = (g', maxd)).
    { rewrite <- Hca. apply create_arcs_ext_bounded. exact Hwcn. }
    destruct (rescale_create_arcs_on (fun a => In a vals) r ltb Z.ltb (rk_ltb ltb O vals)
                zero top thr one k n wc (knn_init zero labels) Hz Ht Hthr Hone Hwc Hg0)
      as [[Hg' Hmaxd] E].
    rewrite Hext in Hg', Hmaxd, E. cbn [fst snd] in Hg', Hmaxd, E. rewrite Hm0 in E.
    assert (HwZ : forall i j, i < n -> j < n -> i <> j -> (r zero <= r (wc i j) < r top)%Z).
    { intros i j Hi Hj Hij. rewrite (Hwcn i j Hi Hj). destruct (Hw i j Hi Hj Hij) as [B1 B2]. split.
      - exact (proj2 (rk_le_iff ltb O vals _ _ Hz (Hwv i j Hi Hj)) B1).
      - exact (proj2 (rk_lt_iff ltb O vals _ _ (Hwv i j Hi Hj) Ht) B2). }
    pose proof (arcs_exact (r zero) (r top) (r thr) (r one) k n (fun p q => r (wc p q)) labels
                           Hlen HwZ (map_knn r g') (map r maxd) E) as HZ.
    cbv zeta in HZ. unfold map_knn in HZ at 1 2 3 4 5 6 7 8 9 10 11 12 13 14.
    cbn [k_adj k_radius k_gdens] in HZ.
    destruct HZ as (A1 & A2 & A3 & A4).
    fold adj in A1, A3.
    destruct Hg' as (Hrad_all & _ & _ & Hgd_in).
    assert (Hrad_in : forall i, In (rad i) vals)
      by (intros i; unfold rad; now apply (Forall_in_nth vals)).
    assert (HradZ : forall i, nth i (map r (k_radius g')) (r zero) = r (rad i))
      by (intros i; apply map_nth).
    assert (Hadj_lt : forall i, i < n -> forall j, In j (adj i) -> j < n).
    { intros i Hi. now destruct (A1 i Hi) as (_ & _ & _ & B & _). }
    assert (Hwadj : forall i a, i < n -> In a (adj i) -> In (w i a) vals).
    { intros i a Hi Ha. apply Hwv; [exact Hi | now apply (Hadj_lt i)]. }
    assert (Hmapw : forall i, i < n -> map (wc i) (adj i) = map (w i) (adj i)).
    { intros i Hi. apply map_ext_in. intros a Ha. apply Hwcn; [exact Hi | now apply (Hadj_lt i)]. }
    assert (Hmw_in : forall i, i < n -> Forall (fun a => In a vals) (map (w i) (adj i))).
    { intros i Hi. apply Forall_forall. intros x Hx. apply in_map_iff in Hx.
      destruct Hx as (a & <- & Ha). now apply Hwadj. }
    assert (Hdl_in : forall i l, i < n -> In (dl i l) vals).
    { intros i l Hi. unfold dl. apply (Forall_in_nth vals); [now apply Hmw_in | exact Hz]. }
    assert (HdlZ : forall i l, i < n ->
              nth l (map (fun q => r (wc i q)) (adj i)) (r zero) = r (dl i l)).
    { intros i l Hi. rewrite <- (map_map (wc i) r), (Hmapw i Hi). unfold dl. apply map_nth. }
    assert (HfoldZ : forall (f : nat -> W) (fz : nat -> Z),
              (forall i, i < n -> In (f i) vals) -> (forall i, i < n -> fz i = r (f i)) ->
              In (fold_right (omax ltb) zero (map f (seq 0 n))) vals /\
              fold_right Z.max (r zero) (map fz (seq 0 n))
              = r (fold_right (omax ltb) zero (map f (seq 0 n)))).
    { intros f fz Hf Hfz.
      assert (Hmap : map fz (seq 0 n) = map r (map f (seq 0 n))).
      { rewrite map_map. apply map_ext_in. intros i Hi. apply in_seq in Hi. apply Hfz. lia. }
      rewrite Hmap. apply (fold_max_rank ltb O vals); [exact Hz|].
      apply Forall_forall. intros x Hx. apply in_map_iff in Hx. destruct Hx as (i & <- & Hi).
      apply in_seq in Hi. apply Hf. lia. }
    split; [|split; [|split]].
    - intros i Hi. destruct (A1 i Hi) as (B1 & B2 & B3 & B4 & B5 & B6 & B7 & B8 & B9).
      split; [exact B1|]. split; [exact B2|]. split; [exact B3|]. split; [exact B4|].
      split; [|split; [|split; [|split]]].
      + intros a b Hab Hb. specialize (B5 a b Hab Hb).
        assert (Ha' : In (nth a (adj i) 0) (adj i)) by (apply nth_In; lia).
        assert (Hb' : In (nth b (adj i) 0) (adj i)) by (apply nth_In; lia).
        rewrite !Hwcn in B5 by (try exact Hi; now apply (Hadj_lt i)).
        exact (proj1 (rk_le_iff ltb O vals _ _ (Hwadj i _ Hi Ha') (Hwadj i _ Hi Hb')) B5).
      + intros j Hj Hji Hnin a Ha. specialize (B6 j Hj Hji Hnin a Ha).
        rewrite !Hwcn in B6 by (try exact Hi; try exact Hj; now apply (Hadj_lt i)).
        exact (proj1 (rk_le_iff ltb O vals _ _ (Hwadj i a Hi Ha) (Hwv i j Hi Hj)) B6).
      + intros j Hj Hji Hnin. specialize (B7 j Hj Hji Hnin).
        rewrite HradZ, (Hwcn i j Hi Hj) in B7.
        exact (proj1 (rk_le_iff ltb O vals _ _ (Hrad_in i) (Hwv i j Hi Hj)) B7).
      + rewrite HradZ in B8. change (nth i (k_adj g') []) with (adj i) in B8.
        rewrite <- (map_map (wc i) r), (Hmapw i Hi), last_map in B8.
        apply (rk_inj ltb O vals _ _ (Hrad_in i)) in B8; [exact B8|].
        apply Forall_last; [now apply Hmw_in | exact Hz].
      + intros Hn1. specialize (B9 Hn1). rewrite HradZ in B9.
        exact (rk_inj ltb O vals _ _ (Hrad_in i) Hz B9).
    - rewrite map_length in A2. exact A2.
    - intros l.
      assert (A3' : nth l (map r maxd) (r zero)
                    = fold_right Z.max (r zero)
                        (map (fun i => nth l (map (fun q => r (wc i q)) (adj i)) (r zero)) (seq 0 n)))
        by exact (A3 l).
      clear A3. rename A3' into A3. rewrite map_nth in A3.
      destruct (HfoldZ (fun i => dl i l)
                  (fun i => nth l (map (fun q => r (wc i q)) (adj i)) (r zero))
                  (fun i Hi => Hdl_in i l Hi) (fun i Hi => HdlZ i l Hi)) as [F1 F2].
      rewrite F2 in A3.
      apply (rk_inj ltb O vals) in A3; [exact A3 | now apply (Forall_in_nth vals) | exact F1].
    - destruct (HfoldZ rad (fun i => nth i (map r (k_radius g')) (r zero))
                  (fun i _ => Hrad_in i) (fun i _ => HradZ i)) as [F1 F2].
      assert (A4' : r (k_gdens g')
                    = if Z.ltb (fold_right Z.max (r zero)
                                  (map (fun i => nth i (map r (k_radius g')) (r zero)) (seq 0 n)))
                               (r thr)
                      then r one
                      else fold_right Z.max (r zero)
                             (map (fun i => nth i (map r (k_radius g')) (r zero)) (seq 0 n)))
        by exact A4.
      clear A4. rename A4' into A4.
      rewrite F2 in A4. change (fold_right (omax ltb) zero (map rad (seq 0 n))) with M in F1, A4.
      rewrite (rk_ltb ltb O vals M thr F1 Hthr : Z.ltb (r M) (r thr) = ltb M thr) in A4.
      apply (rk_inj ltb O vals _ _ Hgd_in); [destruct (ltb M thr); assumption|].
      change (r (k_gdens g') = r (if ltb M thr then one else M)). rewrite A4. now destruct (ltb M thr).
  Qed.
End LiftArcs.

(* ---------- W := nat: the 3x3 lattice of KnnExample.v, weights read as naturals ---------- *)

From OPF Require Import Proofs.LiftInst Proofs.KnnExample.

Definition latn_w (i j : nat) : nat := Z.to_nat (lat_w i j).

Example latn_premises :
  strict_total_order Nat.ltb /\
  (forall i j, i < 9 -> j < 9 -> i <> j ->
     Nat.ltb (latn_w i j) 0 = false /\ Nat.ltb (latn_w i j) 1000 = true).
Proof. split; [exact nat_order|]. apply wn_ok_sound. vm_compute. reflexivity. Qed.

Example latn_arcs :
  create_arcs Nat.ltb 0 1000 1 1 3 9 latn_w (knn_init 0 (repeat 0 9))
  = (mkKnn (repeat 0 9)
       [[1; 3; 4]; [0; 2; 4]; [1; 5; 4]; [0; 4; 6]; [1; 3; 5]; [2; 4; 8]; [3; 7; 4]; [4; 6; 8]; [5; 7; 4]]
       [2; 1; 2; 1; 1; 1; 2; 1; 2]
       (repeat 0 9) (repeat 0 9) (repeat 0 9) (repeat None 9) (repeat 0 9) (repeat 0 9) (repeat 0 9) []
       2 0,
     [1; 1; 2]).
Proof. vm_compute. reflexivity. Qed.

(* the raw scan of node 4 (the centre: four neighbours at distance 1, the three smallest indices
   are kept), and the prefix of the stable sort it equals *)
Example latn_scan_4 :
  knn_scan Nat.ltb 1000 3 9 (latn_w 4) (Some 4) [0; 0; 0; 0] = ([1; 1; 1; 2], [1; 3; 5; 8]) /\
  firstn 3 (isortW Nat.ltb (latn_w 4) (cands (Some 4) 9)) = [1; 3; 5].
Proof. vm_compute. split; reflexivity. Qed.
