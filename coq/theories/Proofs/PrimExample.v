(* Non-vacuity of the C02 theorems: a concrete 5-node instance with two classes and tied
   weights; the hypotheses hold, the pass is computed by [vm_compute], and the theorems
   are instantiated.  The tie w(0,4) = w(1,4) = 3 is resolved by the strict [<] in favour
   of the first offer (node 0), which makes node 0 a prototype; the other minimum spanning
   tree (arc (1,4) instead of (0,4)) would not: with ties the prototype set depends on the
   sample order, in accordance with the uniqueness theorem needing distinct weights. *)
From Coq Require Import List Arith ZArith Lia.
From OPF Require Import Base.Lists Model.Heap Model.Sup Spec.Paths Spec.Trees Proofs.PrimMain.
Import ListNotations.
Open Scope nat_scope.

Definition ex_labels : list nat := [0; 0; 1; 1; 1].
Definition ex_flat : list Z :=
  [0; 2; 5; 5; 3;
   2; 0; 2; 6; 3;
   5; 2; 0; 1; 4;
   5; 6; 1; 0; 4;
   3; 3; 4; 4; 0]%Z.
Definition ex_w (p q : nat) : Z := nth (p * 5 + q) ex_flat 0%Z.
Definition ex_top : Z := 1000%Z.
Definition ex_nd : @nodes Z := find_prototypes Z.ltb ex_top 5 ex_w (nodes_init 0%Z ex_labels).

Example ex_pred : n_pred ex_nd = [None; Some 0; Some 1; Some 2; Some 0].
Proof. vm_compute. reflexivity. Qed.

Example ex_status : n_status ex_nd = [true; true; true; false; true].
Proof. vm_compute. reflexivity. Qed.

(* the root keeps the heap cost it was inserted with, c.FLOAT_MAX *)
Example ex_cost : n_cost ex_nd = [1000; 2; 2; 1; 3]%Z.
Proof. vm_compute. reflexivity. Qed.


Lemma ex_sym : forall p q, p < 5 -> q < 5 -> ex_w p q = ex_w q p.
Proof.
  intros p q Hp Hq.
  destruct p as [|[|[|[|[|p]]]]]; [| | | | |exfalso; lia];
    (destruct q as [|[|[|[|[|q]]]]]; [| | | | |exfalso; lia]); reflexivity.
Qed.

Lemma ex_below : forall p q, p < 5 -> q < 5 -> p <> q -> (ex_w p q < ex_top)%Z.
Proof.
  intros p q Hp Hq _.
  destruct p as [|[|[|[|[|p]]]]]; [| | | | |exfalso; lia];
    (destruct q as [|[|[|[|[|q]]]]]; [| | | | |exfalso; lia]); reflexivity.
Qed.

Example ex_tied : ex_w 0 4 = ex_w 1 4 /\ ~ distinct_weights 5 ex_w.
Proof.
  split; [reflexivity|]. intros H.
  destruct (H 0 4 1 4 ltac:(lia) ltac:(lia) ltac:(lia) ltac:(lia) ltac:(lia) ltac:(lia) eq_refl)
    as [[E _]|[E _]]; discriminate.
Qed.

(* the theorems apply to the instance *)
Example ex_prototypes_exact :
  forall q, q < 5 ->
    (nth q (n_status ex_nd) false = true <->
     exists r, (nth q (n_pred ex_nd) None = Some r \/ nth r (n_pred ex_nd) None = Some q) /\
               r < 5 /\ nth q ex_labels 0 <> nth r ex_labels 0).
Proof.
  exact (init_prototypes_exact 0%Z ex_top 5 ex_w ex_labels ltac:(lia) eq_refl ex_below).
Qed.

Example ex_minimax :
  forall (m : Z) u v tp pi,
    tree_path_rel 5 (fun q => nth q (n_pred ex_nd) None) u v tp -> path_from_to 5 u v pi ->
    (pathmax ex_w m tp <= pathmax ex_w m pi)%Z.
Proof.
  exact (init_prim_minimax_tree 0%Z ex_top 5 ex_w ex_labels ltac:(lia) eq_refl ex_below ex_sym).
Qed.

(* e.g. the tree path 3 - 2 - 1 - 0 - 4 has bottleneck 3, no worse than the direct arc (3,4) = 4 *)
Example ex_tree_path :
  tree_path_rel 5 (fun q => nth q (n_pred ex_nd) None) 3 4 [3; 2; 1; 0; 4] /\
  pathmax ex_w 0%Z [3; 2; 1; 0; 4] = 3%Z /\ pathmax ex_w 0%Z [3; 4] = 4%Z.
Proof.
  split; [|split; reflexivity].
  split; [|split].
  - split; [split; [discriminate|repeat constructor; lia]|split; reflexivity].
  - repeat constructor; cbn; lia.
  - rewrite ex_pred. cbn. unfold tree_arc. cbn. tauto.
Qed.
