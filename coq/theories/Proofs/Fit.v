(* The competition loop of SupervisedOPF.fit / SemiSupervisedOPF.fit (Model/Sup.v, [compete])
   computes an optimum-path forest for the max-arc path cost: loop invariant [Core] over the
   proved heap specification (HeapInv.v), for both values of the [semi] flag. *)
From Coq Require Import List Arith Bool ZArith Lia ZifyBool Permutation.
From OPF Require Import Base.Lists Model.Heap Model.Sup Proofs.HeapBase Proofs.HeapInv
  Spec.Paths Proofs.FitBase.
Import ListNotations.
Close Scope Z_scope.

Section Fit.
  Variables (zero top : Z) (n : nat) (w : nat -> nat -> Z) (semi : bool).
  Variables (st : list bool) (lab0 : list nat).   (* prototype flags, original labels *)
  Hypothesis Hzt : (zero < top)%Z.
  Hypothesis Hw : forall p q, p < n -> q < n -> p <> q -> (zero <= w p q < top)%Z.

  Notation hc := (cost top).
  Notation nodes := (@nodes Z).
  Definition col (h : heap Z) (q : nat) : color := nth q (hcolor h) White.
  Definition proto (q : nat) : Prop := nth q st false = true.

  (* [D]: the removed nodes whose relaxation round is complete *)
  Record Core (D : list nat) (h : heap Z) (nd : nodes) : Prop := mkCore {
    c_inv : Inv h; c_size : hsize h = n; c_pol : hpol h = PMin;
    c_lcost : length (n_cost nd) = n; c_lpred : length (n_pred nd) = n;
    c_llabel : length (n_label nd) = n; c_lplabel : length (n_plabel nd) = n;
    c_status : n_status nd = st;
    c_order_lt : forall q, In q (n_order nd) -> q < n;
    c_order_nodup : NoDup (n_order nd);
    c_black : forall q, q < n -> (col h q = Black <-> In q (n_order nd));
    c_white : forall q, q < n -> (col h q = White <-> hc h q = top);
    c_range : forall q, q < n -> (zero <= hc h q <= top)%Z;
    c_ncost : forall p, In p (n_order nd) -> nth p (n_cost nd) zero = hc h p;
    c_mono : forall p q, In p (n_order nd) -> q < n -> ~ In q (n_order nd) -> (hc h p <= hc h q)%Z;
    c_sorted : forall i j, i < j -> j < length (n_order nd) ->
        (hc h (nth i (n_order nd) 0%nat) <= hc h (nth j (n_order nd) 0%nat))%Z;
    c_proto : forall s, s < n -> proto s ->
        hc h s = zero /\ nth s (n_pred nd) None = None /\ nth s (n_plabel nd) 0 = nth s lab0 0;
    c_link : forall q, q < n -> ~ proto q -> (hc h q < top)%Z ->
        exists p, nth q (n_pred nd) None = Some p /\ In p (n_order nd) /\ p <> q /\
          hc h q = Z.max (hc h p) (w p q) /\
          nth q (n_plabel nd) 0 = nth p (n_plabel nd) 0 /\
          (In q (n_order nd) -> before (n_order nd) p q);
    c_done : incl D (n_order nd);
    c_cert : forall p q, In p D -> q < n -> q <> p -> (hc h q <= Z.max (hc h p) (w p q))%Z;
    c_lab_f : semi = false -> n_label nd = lab0;
    c_lab_a : forall q, q < n -> proto q \/ hc h q = top -> nth q (n_label nd) 0 = nth q lab0 0;
    c_lab_b : forall q, q < n -> semi = true -> ~ proto q -> (hc h q < top)%Z ->
        nth q (n_label nd) 0 = nth q (n_plabel nd) 0 }.

  (* ---------------- heap facts ---------------- *)

  Lemma heap_room h q : Inv h -> hsize h = n -> q < n -> ~ In q (queued h) -> hn h < hsize h.
  Proof.
    intros HI Hs Hq Hnq. rewrite <- (queued_length h (Inv_WF h HI)). rewrite Hs.
    apply (nodup_room (queued h) n q); auto.
    - apply (inv_nodup h HI).
    - intros x Hx. rewrite <- Hs. apply (inv_range h HI); exact Hx.
  Qed.

  Lemma update_ok h q c :
    Inv h -> hsize h = n -> hpol h = PMin -> q < n -> col h q <> Black -> (c <= hc h q)%Z ->
    let h' := update Z.ltb top h q c in
    Inv h' /\ hsize h' = n /\ hpol h' = PMin /\ hcost h' = upd (hcost h) q c /\
    col h' q = Gray /\ (forall x, x <> q -> col h' x = col h x).
  Proof.
    intros HI Hs Hp Hq Hnb Hc. cbv zeta.
    assert (Hqs : q < hsize h) by lia.
    destruct (col h q) eqn:Ecol; [| |congruence].
    - assert (Hnq : ~ In q (queued h)).
      { intros Hin. apply (inv_color h HI q Hqs) in Hin. unfold col in Ecol. congruence. }
      pose proof (update_white_spec top h q c HI Hqs Ecol (heap_room h q HI Hs Hq Hnq)) as X.
      cbv zeta in X. destruct X as (A & _ & B & C & D & E).
      split; [exact A|]. split; [congruence|]. split; [congruence|]. split; [exact B|]. split.
      + unfold col. rewrite C. apply nth_upd_eq. rewrite (inv_lcolor h HI). exact Hqs.
      + intros x Hx. unfold col. rewrite C. apply nth_upd_neq. congruence.
    - assert (Hin : In q (queued h)) by (apply (inv_color h HI q Hqs); exact Ecol).
      assert (Hb : better Z.ltb (hpol h) (hc h q) c = false).
      { rewrite Hp. cbn [better]. lia. }
      pose proof (update_gray_spec top h q c HI Hin Hb) as X.
      cbv zeta in X. destruct X as (A & _ & B & C & D & E).
      split; [exact A|]. split; [congruence|]. split; [congruence|]. split; [exact B|]. split.
      + unfold col. rewrite C. exact Ecol.
      + intros x _. unfold col. rewrite C. reflexivity.
  Qed.

  Lemma hc_upd h h' q c : hcost h' = upd (hcost h) q c -> q < length (hcost h) ->
    forall x, hc h' x = if Nat.eqb q x then c else hc h x.
  Proof.
    intros E Hq x. unfold cost. rewrite E, nth_upd.
    destruct (Nat.eqb_spec q x); [|reflexivity].
    destruct (Nat.ltb_spec q (length (hcost h))); [reflexivity|lia].
  Qed.

  (* ---------------- one successful relaxation ---------------- *)

  Lemma Core_update D h nd p q :
    Core D h nd -> In p (n_order nd) ->
    (forall b, In b (n_order nd) -> (hc h b <= hc h p)%Z) ->
    q < n -> q <> p -> (Z.max (hc h p) (w p q) < hc h q)%Z ->
    let cur := Z.max (hc h p) (w p q) in
    let pl := nth p (n_plabel nd) 0 in
    let h' := update Z.ltb top h q cur in
    let nd' := mkNodes (n_cost nd) (upd (n_pred nd) q (Some p))
                 (if semi then upd (n_label nd) q pl else n_label nd)
                 (upd (n_plabel nd) q pl) (n_status nd) (n_relevant nd) (n_order nd) in
    Core D h' nd' /\ hcost h' = upd (hcost h) q cur.
  Proof.
    intros HC Hp Hbl Hq Hqp Hlt cur pl h' nd'.
    assert (Hpn : p < n) by (apply (c_order_lt D h nd HC); exact Hp).
    assert (Hqno : ~ In q (n_order nd)).
    { intros Hin. specialize (Hbl q Hin). lia. }
    assert (Hcolq : col h q <> Black).
    { intros E. apply Hqno. apply (c_black D h nd HC q Hq). exact E. }
    pose proof (c_range D h nd HC p Hpn) as Rp.
    pose proof (c_range D h nd HC q Hq) as Rq.
    assert (Hnpr : ~ proto q).
    { intros Hpr. destruct (c_proto D h nd HC q Hq Hpr) as (E & _). lia. }
    destruct (update_ok h q cur (c_inv _ _ _ HC) (c_size _ _ _ HC) (c_pol _ _ _ HC) Hq Hcolq
                ltac:(lia)) as (HI' & Hs' & Hp' & Hcost' & Hcq & Hcoth).
    fold h' in HI', Hs', Hp', Hcost', Hcq, Hcoth.
    assert (Hhc : forall x, hc h' x = if Nat.eqb q x then cur else hc h x).
    { apply hc_upd; [exact Hcost'|]. rewrite (inv_lcost h (c_inv _ _ _ HC)), (c_size _ _ _ HC).
      exact Hq. }
    assert (Hhcq : hc h' q = cur) by (rewrite Hhc, Nat.eqb_refl; reflexivity).
    assert (Hhco : forall x, x <> q -> hc h' x = hc h x).
    { intros x Hx. rewrite Hhc. destruct (Nat.eqb_spec q x); [congruence|reflexivity]. }
    assert (Hhcb : forall b, In b (n_order nd) -> hc h' b = hc h b).
    { intros b Hb. apply Hhco. intros ->. contradiction. }
    assert (Hle : forall x, (hc h' x <= hc h x)%Z).
    { intros x. destruct (Nat.eq_dec x q) as [->|Hx]; [rewrite Hhcq; lia|rewrite Hhco by exact Hx; lia]. }
    assert (Hcur0 : (zero <= cur)%Z) by (unfold cur; lia).
    assert (Hlq : q < length (n_pred nd)) by (rewrite (c_lpred _ _ _ HC); exact Hq).
    assert (Hlpl : q < length (n_plabel nd)) by (rewrite (c_lplabel _ _ _ HC); exact Hq).
    assert (Hllab : q < length (n_label nd)) by (rewrite (c_llabel _ _ _ HC); exact Hq).
    split; [|exact Hcost'].
    constructor; cbn [n_cost n_pred n_label n_plabel n_status n_relevant n_order nd'].
    - exact HI'.
    - exact Hs'.
    - exact Hp'.
    - apply HC.
    - rewrite upd_length. apply HC.
    - destruct semi; rewrite ?upd_length; apply HC.
    - rewrite upd_length. apply HC.
    - apply HC.
    - apply HC.
    - apply HC.
    - intros x Hx. destruct (Nat.eq_dec x q) as [->|Hne].
      + rewrite Hcq. split; [discriminate|contradiction].
      + rewrite Hcoth by exact Hne. apply HC; exact Hx.
    - intros x Hx. destruct (Nat.eq_dec x q) as [->|Hne].
      + rewrite Hcq, Hhcq. split; [discriminate|lia].
      + rewrite Hcoth, Hhco by exact Hne. apply HC; exact Hx.
    - intros x Hx. destruct (Nat.eq_dec x q) as [->|Hne].
      + rewrite Hhcq. lia.
      + rewrite Hhco by exact Hne. apply HC; exact Hx.
    - intros b Hb. rewrite Hhcb by exact Hb. apply HC; exact Hb.
    - intros b x Hb Hx Hxo. rewrite Hhcb by exact Hb.
      destruct (Nat.eq_dec x q) as [->|Hne].
      + rewrite Hhcq. specialize (Hbl b Hb). lia.
      + rewrite Hhco by exact Hne. apply (c_mono _ _ _ HC); assumption.
    - intros i j Hij Hj. rewrite !Hhcb by (apply nth_In; lia).
      apply (c_sorted _ _ _ HC); assumption.
    - intros s Hs Hpr. assert (Hsq : s <> q) by (intros ->; contradiction).
      rewrite Hhco by exact Hsq. rewrite !nth_upd_neq by congruence.
      apply (c_proto _ _ _ HC); assumption.
    - intros x Hx Hnp Hxt. destruct (Nat.eq_dec x q) as [->|Hne].
      + exists p. rewrite !nth_upd_eq by assumption.
        rewrite (nth_upd_neq (n_plabel nd) q p) by congruence.
        rewrite Hhcq, (Hhco p) by congruence.
        repeat split; auto. intros Hin; contradiction.
      + rewrite Hhco in Hxt by exact Hne.
        destruct (c_link _ _ _ HC x Hx Hnp Hxt) as (p0 & A & B & C & E & F & G).
        assert (Hp0 : p0 <> q) by (intros ->; contradiction).
        exists p0. rewrite !nth_upd_neq by congruence.
        rewrite Hhco by exact Hne. rewrite Hhco by exact Hp0.
        repeat split; assumption.
    - apply HC.
    - intros b x Hb Hx Hxb.
      rewrite (Hhcb b) by (apply (c_done _ _ _ HC); exact Hb).
      pose proof (c_cert _ _ _ HC b x Hb Hx Hxb). specialize (Hle x). lia.
    - intros Hsemi. rewrite Hsemi. apply (c_lab_f _ _ _ HC); exact Hsemi.
    - intros x Hx Hor. assert (Hne : x <> q).
      { intros ->. destruct Hor as [Hor|Hor]; [contradiction|]. rewrite Hhcq in Hor. lia. }
      rewrite Hhco in Hor by exact Hne.
      replace (nth x (if semi then upd (n_label nd) q pl else n_label nd) 0)
        with (nth x (n_label nd) 0)
        by (destruct semi; [rewrite nth_upd_neq by congruence|]; reflexivity).
      apply (c_lab_a _ _ _ HC); assumption.
    - intros x Hx Hsemi Hnp Hxt. rewrite Hsemi.
      destruct (Nat.eq_dec x q) as [->|Hne].
      + rewrite !nth_upd_eq by assumption. reflexivity.
      + rewrite !nth_upd_neq by congruence. rewrite Hhco in Hxt by exact Hne.
        apply (c_lab_b _ _ _ HC); assumption.
  Qed.

  (* ---------------- one call of fit_relax ---------------- *)

  Lemma relax_step D h nd p q :
    Core D h nd -> In p (n_order nd) ->
    (forall b, In b (n_order nd) -> (hc h b <= hc h p)%Z) -> q < n ->
    let r := fit_relax Z.ltb top semi w p (h, nd) q in
    Core D (fst r) (snd r) /\ n_order (snd r) = n_order nd /\
    (forall x, (hc (fst r) x <= hc h x)%Z) /\
    (forall b, In b (n_order nd) -> hc (fst r) b = hc h b) /\
    (q <> p -> (hc (fst r) q <= Z.max (hc h p) (w p q))%Z).
  Proof.
    intros HC Hp Hbl Hq. cbv zeta. unfold fit_relax, hcost_at.
    change (nth p (hcost h) top) with (hc h p). change (nth q (hcost h) top) with (hc h q).
    rewrite wmax_Zmax.
    destruct (Nat.eqb_spec p q) as [Epq|Hpq]; cbn [negb andb].
    { cbn [fst snd]. split; [exact HC|]. split; [reflexivity|]. split; [intros; lia|].
      split; [reflexivity|]. congruence. }
    destruct (Z.ltb_spec (hc h p) (hc h q)) as [Hlt1|Hge1].
    2:{ cbn [fst snd]. split; [exact HC|]. split; [reflexivity|]. split; [intros; lia|].
      split; [reflexivity|]. intros _; lia. }
    destruct (Z.ltb_spec (Z.max (hc h p) (w p q)) (hc h q)) as [Hlt2|Hge2].
    2:{ cbn [fst snd]. split; [exact HC|]. split; [reflexivity|]. split; [intros; lia|].
      split; [reflexivity|]. intros _; lia. }
    cbn [fst snd].
    destruct (Core_update D h nd p q HC Hp Hbl Hq ltac:(congruence) Hlt2) as [HC' Hcost'].
    assert (Hhc : forall x, hc (update Z.ltb top h q (Z.max (hc h p) (w p q))) x =
                    if Nat.eqb q x then Z.max (hc h p) (w p q) else hc h x).
    { apply hc_upd; [exact Hcost'|]. rewrite (inv_lcost h (c_inv _ _ _ HC)), (c_size _ _ _ HC).
      exact Hq. }
    split; [exact HC'|]. split; [reflexivity|]. split; [|split].
    - intros x. rewrite Hhc. destruct (Nat.eqb_spec q x) as [<-|_]; lia.
    - intros b Hb. rewrite Hhc. destruct (Nat.eqb_spec q b) as [<-|_]; [|reflexivity].
      specialize (Hbl q Hb). lia.
    - intros _. rewrite Hhc, Nat.eqb_refl. lia.
  Qed.

  (* ---------------- the relaxation round of a removed node ---------------- *)

  Lemma round_spec D h1 nd1 p :
    Core D h1 nd1 -> n_order nd1 = D ++ [p] ->
    (forall b, In b (D ++ [p]) -> (hc h1 b <= hc h1 p)%Z) ->
    let r := fold_left (fit_relax Z.ltb top semi w p) (seq 0 n) (h1, nd1) in
    Core (D ++ [p]) (fst r) (snd r) /\ n_order (snd r) = D ++ [p].
  Proof.
    intros HC Hord Hbl. cbv zeta.
    set (P := fun (k : nat) (a : heap Z * nodes) =>
      Core D (fst a) (snd a) /\ n_order (snd a) = D ++ [p] /\
      (forall b, In b (D ++ [p]) -> hc (fst a) b = hc h1 b) /\
      (forall x, x < k -> x <> p -> (hc (fst a) x <= Z.max (hc h1 p) (w p x))%Z)).
    assert (Hpin : In p (D ++ [p])) by (apply in_or_app; right; left; reflexivity).
    assert (HP : P n (fold_left (fit_relax Z.ltb top semi w p) (seq 0 n) (h1, nd1))).
    { apply fold_seq_inv.
      - intros k [h nd] Hk (A & B & C & E). cbn [fst snd] in A, B, C, E.
        assert (Hbl' : forall b, In b (n_order nd) -> (hc h b <= hc h p)%Z).
        { intros b Hb. rewrite B in Hb. rewrite (C b Hb), (C p Hpin). apply Hbl; exact Hb. }
        assert (Hp' : In p (n_order nd)) by (rewrite B; exact Hpin).
        destruct (relax_step D h nd p k A Hp' Hbl' Hk) as (A' & B' & C' & E' & F').
        unfold P. split; [exact A'|]. split; [congruence|]. split; [|].
        + intros b Hb. rewrite E' by (rewrite B; exact Hb). apply C; exact Hb.
        + intros x Hx Hxp. destruct (Nat.eq_dec x k) as [->|Hne].
          * rewrite <- (C p Hpin). apply F'; exact Hxp.
          * specialize (C' x). specialize (E x ltac:(lia) Hxp). lia.
      - unfold P; cbn [fst snd]. split; [exact HC|]. split; [exact Hord|].
        split; [reflexivity|]. intros x Hx; lia. }
    destruct HP as (A & B & C & E).
    destruct (fold_left (fit_relax Z.ltb top semi w p) (seq 0 n) (h1, nd1)) as [h2 nd2].
    cbn [fst snd] in *. split; [|exact B].
    destruct A. constructor; try assumption.
    - rewrite B. apply incl_refl.
    - intros b x Hb Hx Hxb. apply in_app_or in Hb. destruct Hb as [Hb|[<-|[]]].
      + apply c_cert0; assumption.
      + rewrite (C p Hpin). apply E; assumption.
  Qed.

  (* ---------------- removal of the minimum ---------------- *)

  Lemma Core_remove h nd :
    Core (n_order nd) h nd -> 0 < hn h ->
    exists p h1, remove Z.ltb top h = (h1, Some p) /\
      let nd1 := mkNodes (upd (n_cost nd) p (hcost_at top h1 p)) (n_pred nd) (n_label nd)
                   (n_plabel nd) (n_status nd) (n_relevant nd) (n_order nd ++ [p]) in
      Core (n_order nd) h1 nd1 /\
      (forall b, In b (n_order nd ++ [p]) -> (hc h1 b <= hc h1 p)%Z).
  Proof.
    intros HC Hpos. pose proof (c_inv _ _ _ HC) as HI. pose proof (c_size _ _ _ HC) as Hs.
    pose proof (c_pol _ _ _ HC) as Hpol.
    destruct (remove_spec top h HI Hpos) as (p & h1 & Hrem & Hin & Hmin & Hperm & HI1 & Hcost1 &
                                              Hcol1 & Hs1 & Hp1).
    exists p, h1. split; [exact Hrem|]. cbv zeta.
    assert (Hpn : p < n) by (rewrite <- Hs; apply (inv_range h HI); exact Hin).
    assert (Hgray : col h p = Gray) by (apply (inv_color h HI p); [lia|exact Hin]).
    assert (Hpno : ~ In p (n_order nd)).
    { intros Hx. apply (c_black _ _ _ HC p Hpn) in Hx. congruence. }
    assert (Hhc : forall x, hc h1 x = hc h x) by (intros x; unfold cost; rewrite Hcost1; reflexivity).
    assert (Hcolp : col h1 p = Black).
    { unfold col. rewrite Hcol1. apply nth_upd_eq. rewrite (inv_lcolor h HI). lia. }
    assert (Hcolo : forall x, x <> p -> col h1 x = col h x).
    { intros x Hx. unfold col. rewrite Hcol1. apply nth_upd_neq. congruence. }
    assert (Hptop : (hc h p < top)%Z).
    { pose proof (c_range _ _ _ HC p Hpn). destruct (Z.eq_dec (hc h p) top) as [E|E]; [|lia].
      apply (c_white _ _ _ HC p Hpn) in E. congruence. }
    assert (Hminall : forall x, x < n -> ~ In x (n_order nd) -> (hc h p <= hc h x)%Z).
    { intros x Hx Hxo. destruct (col h x) eqn:Ecx.
      - apply (c_white _ _ _ HC x Hx) in Ecx. lia.
      - assert (Hxq : In x (queued h)) by (apply (inv_color h HI x); [lia|exact Ecx]).
        specialize (Hmin x Hxq). rewrite Hpol in Hmin. cbn [better] in Hmin. lia.
      - apply (c_black _ _ _ HC x Hx) in Ecx. contradiction. }
    split.
    - constructor; cbn [n_cost n_pred n_label n_plabel n_status n_relevant n_order].
      + exact HI1.
      + congruence.
      + congruence.
      + rewrite upd_length. apply HC.
      + apply HC.
      + apply HC.
      + apply HC.
      + apply HC.
      + intros x Hx. apply in_app_or in Hx. destruct Hx as [Hx|[<-|[]]]; [|exact Hpn].
        apply (c_order_lt _ _ _ HC); exact Hx.
      + apply NoDup_app_snoc; [apply HC|exact Hpno].
      + intros x Hx. rewrite in_app_iff. destruct (Nat.eq_dec x p) as [->|Hne].
        * split; [intros _; right; left; reflexivity|intros _; exact Hcolp].
        * rewrite Hcolo by exact Hne. rewrite (c_black _ _ _ HC x Hx). cbn [In].
          split; [auto|intros [Hy|[Hy|[]]]; [exact Hy|congruence]].
      + intros x Hx. rewrite Hhc. destruct (Nat.eq_dec x p) as [->|Hne].
        * rewrite Hcolp. split; [discriminate|lia].
        * rewrite Hcolo by exact Hne. apply HC; exact Hx.
      + intros x Hx. rewrite Hhc. apply HC; exact Hx.
      + intros b Hb. apply in_app_or in Hb. unfold hcost_at. fold (hc h1 p).
        destruct Hb as [Hb|[<-|[]]].
        * rewrite nth_upd_neq by (intros ->; contradiction). rewrite Hhc. apply HC; exact Hb.
        * apply nth_upd_eq. rewrite (c_lcost _ _ _ HC). exact Hpn.
      + intros b x Hb Hx Hxo. rewrite !Hhc. rewrite in_app_iff in Hxo.
        apply in_app_or in Hb. destruct Hb as [Hb|[<-|[]]].
        * apply (c_mono _ _ _ HC); auto.
        * apply Hminall; auto.
      + intros i j Hij Hj. rewrite app_length in Hj; cbn [length] in Hj. rewrite !Hhc.
        destruct (Nat.eq_dec j (length (n_order nd))) as [->|Hne].
        * rewrite (app_nth1 _ _ 0) by lia. rewrite app_nth2 by lia. rewrite Nat.sub_diag.
          cbn [nth]. apply (c_mono _ _ _ HC); auto. apply nth_In; lia.
        * rewrite !app_nth1 by lia. apply (c_sorted _ _ _ HC); lia.
      + intros s Hs' Hpr. rewrite Hhc. apply (c_proto _ _ _ HC); assumption.
      + intros x Hx Hnp Hxt. rewrite Hhc in Hxt.
        destruct (c_link _ _ _ HC x Hx Hnp Hxt) as (p0 & A & B & C & E & F & G).
        exists p0. rewrite !Hhc. repeat split; auto.
        * apply in_or_app; left; exact B.
        * intros Hin'. apply in_app_or in Hin'. destruct Hin' as [Hy|[<-|[]]].
          -- apply before_app. apply G; exact Hy.
          -- apply before_last; exact B.
      + apply incl_appl, incl_refl.
      + intros b x Hb Hx Hxb. rewrite !Hhc. apply (c_cert _ _ _ HC); assumption.
      + apply HC.
      + intros x Hx Hor. rewrite Hhc in Hor. apply (c_lab_a _ _ _ HC); assumption.
      + intros x Hx Hsemi Hnp Hxt. rewrite Hhc in Hxt. apply (c_lab_b _ _ _ HC); assumption.
    - intros b Hb. rewrite !Hhc. apply in_app_or in Hb. destruct Hb as [Hb|[<-|[]]]; [|lia].
      apply (c_mono _ _ _ HC); auto.
  Qed.

  (* ---------------- the main loop ---------------- *)

  Hypothesis Hproto : exists s, s < n /\ proto s.

  Lemma all_black_when_empty h nd :
    Core (n_order nd) h nd -> hn h = 0 -> forall q, q < n -> In q (n_order nd).
  Proof.
    intros HC Hn0. pose proof (c_inv _ _ _ HC) as HI. pose proof (c_size _ _ _ HC) as Hs.
    assert (Hq0 : queued h = []).
    { apply length_zero_iff_nil. rewrite (queued_length h (Inv_WF h HI)). exact Hn0. }
    assert (Hnt : forall q, q < n -> (hc h q < top)%Z -> In q (n_order nd)).
    { intros q Hq Hlt. apply (c_black _ _ _ HC q Hq). destruct (col h q) eqn:Ec; [| |reflexivity].
      - apply (c_white _ _ _ HC q Hq) in Ec. lia.
      - apply (inv_color h HI q) in Ec; [|lia]. rewrite Hq0 in Ec. destruct Ec. }
    destruct Hproto as (s & Hs' & Hpr).
    destruct (c_proto _ _ _ HC s Hs' Hpr) as (Es & _).
    assert (Hsin : In s (n_order nd)) by (apply Hnt; [exact Hs'|lia]).
    intros q Hq. destruct (Nat.eq_dec q s) as [->|Hne]; [exact Hsin|].
    apply Hnt; [exact Hq|].
    pose proof (c_cert _ _ _ HC s q Hsin Hq Hne). pose proof (Hw s q Hs' Hq ltac:(congruence)). lia.
  Qed.

  Lemma fit_loop_spec fuel : forall h nd,
    Core (n_order nd) h nd -> n <= length (n_order nd) + fuel ->
    let r := fit_loop Z.ltb top fuel n semi w h nd in
    Core (n_order (snd r)) (fst r) (snd r) /\ (forall q, q < n -> In q (n_order (snd r))).
  Proof.
    induction fuel as [|f IH]; intros h nd HC Hlen; cbv zeta.
    - cbn [fit_loop fst snd]. split; [exact HC|].
      apply nodup_full; [exact (c_order_nodup _ _ _ HC)|exact (c_order_lt _ _ _ HC)|lia].
    - cbn [fit_loop]. destruct (Nat.eq_dec (hn h) 0) as [Hn0|Hn0].
      + rewrite (remove_empty top h Hn0). cbn [fst snd]. split; [exact HC|].
        apply (all_black_when_empty h nd); assumption.
      + destruct (Core_remove h nd HC ltac:(lia)) as (p & h1 & Hrem & HC1 & Hbl1).
        rewrite Hrem. cbv zeta in HC1.
        match goal with |- context [fold_left ?f ?l (h1, ?nd1)] =>
          pose proof (round_spec (n_order nd) h1 nd1 p HC1 eq_refl Hbl1) as HR;
          cbv zeta in HR; destruct (fold_left f l (h1, nd1)) as [h2 nd2] end.
        cbn [fst snd] in HR. destruct HR as [HC2 Hord2].
        apply IH.
        * rewrite Hord2. exact HC2.
        * rewrite Hord2, app_length. cbn [length]. lia.
  Qed.
End Fit.
