(* The competition loop of SupervisedOPF.fit / SemiSupervisedOPF.fit (Model/Sup.v, [compete])
   computes an optimum-path forest for the max-arc path cost: loop invariant [Core] over the
   proved heap specification (HeapInv.v), for both values of the [semi] flag. *)
From Coq Require Import List Arith Bool ZArith Lia ZifyBool Permutation.
From OPF Require Import Base.Lists Model.Heap Model.Sup Proofs.HeapBase Proofs.HeapInv
  Spec.Paths Proofs.FitBase.
Import ListNotations.
Close Scope Z_scope.

Section Fit.
  Variables (zero top : Z) (n : nat) (w : nat -> nat -> Z) (semi : bool) (nl : nat).
  Variables (st : list bool) (lab0 : list nat).   (* prototype flags, original labels *)
  Hypothesis Hzt : (zero < top)%Z.
  Hypothesis Hw : forall p q, p < n -> q < n -> p <> q -> (zero <= w p q < top)%Z.

  Notation hc := (cost top).
  Notation nodes := (@nodes Z).
  Definition col (h : heap Z) (q : nat) : color := nth q (hcolor h) White.
  Definition proto (q : nat) : Prop := nth q st false = true.

  (* [D]: the removed nodes whose relaxation round is complete *)
  Record Core (D : list nat) (h : heap Z) (nd : nodes) : Prop := mkCore {
    c_inv : Inv h; c_size : hsize h = n; c_pol : hpol h = PMin;
    c_lcost : length (n_cost nd) = n; c_lpred : length (n_pred nd) = n;
    c_llabel : length (n_label nd) = n; c_lplabel : length (n_plabel nd) = n;
    c_status : n_status nd = st;
    c_order_lt : forall q, In q (n_order nd) -> q < n;
    c_order_nodup : NoDup (n_order nd);
    c_black : forall q, q < n -> (col h q = Black <-> In q (n_order nd));
    c_white : forall q, q < n -> (col h q = White <-> hc h q = top);
    c_range : forall q, q < n -> (zero <= hc h q <= top)%Z;
    c_ncost : forall p, In p (n_order nd) -> nth p (n_cost nd) zero = hc h p;
    c_mono : forall p q, In p (n_order nd) -> q < n -> ~ In q (n_order nd) -> (hc h p <= hc h q)%Z;
    c_sorted : forall i j, i < j -> j < length (n_order nd) ->
        (hc h (nth i (n_order nd) 0%nat) <= hc h (nth j (n_order nd) 0%nat))%Z;
    c_proto : forall s, s < n -> proto s ->
        hc h s = zero /\ nth s (n_pred nd) None = None /\ nth s (n_plabel nd) 0 = nth s lab0 0;
    c_link : forall q, q < n -> ~ proto q -> (hc h q < top)%Z ->
        exists p, nth q (n_pred nd) None = Some p /\ In p (n_order nd) /\ p <> q /\
          hc h q = Z.max (hc h p) (w p q) /\
          nth q (n_plabel nd) 0 = nth p (n_plabel nd) 0 /\
          (In q (n_order nd) -> before (n_order nd) p q);
    c_done : incl D (n_order nd);
    c_cert : forall p q, In p D -> q < n -> q <> p -> (hc h q <= Z.max (hc h p) (w p q))%Z;
    c_lab_f : semi = false -> n_label nd = lab0;
    c_lab_a : forall q, q < n -> proto q \/ hc h q = top \/ q < nl ->
        nth q (n_label nd) 0 = nth q lab0 0;
    c_lab_b : forall q, q < n -> semi = true -> nl <= q -> ~ proto q -> (hc h q < top)%Z ->
        nth q (n_label nd) 0 = nth q (n_plabel nd) 0 }.

  (* ---------------- heap facts ---------------- *)

  Lemma heap_room h q : Inv h -> hsize h = n -> q < n -> ~ In q (queued h) -> hn h < hsize h.
  Proof.
    intros HI Hs Hq Hnq. rewrite <- (queued_length h (Inv_WF h HI)). rewrite Hs.
    apply (nodup_room (queued h) n q); auto.
    - apply (inv_nodup h HI).
    - intros x Hx. rewrite <- Hs. apply (inv_range h HI); exact Hx.
  Qed.

  Lemma update_ok h q c :
    Inv h -> hsize h = n -> hpol h = PMin -> q < n -> col h q <> Black -> (c <= hc h q)%Z ->
    let h' := update Z.ltb top h q c in
    Inv h' /\ hsize h' = n /\ hpol h' = PMin /\ hcost h' = upd (hcost h) q c /\
    col h' q = Gray /\ (forall x, x <> q -> col h' x = col h x).
  Proof.
    intros HI Hs Hp Hq Hnb Hc. cbv zeta.
    assert (Hqs : q < hsize h) by lia.
    destruct (col h q) eqn:Ecol; [| |congruence].
    - assert (Hnq : ~ In q (queued h)).
      { intros Hin. apply (inv_color h HI q Hqs) in Hin. unfold col in Ecol. congruence. }
      pose proof (update_white_spec top h q c HI Hqs Ecol (heap_room h q HI Hs Hq Hnq)) as X.
      cbv zeta in X. destruct X as (A & _ & B & C & D & E).
      split; [exact A|]. split; [congruence|]. split; [congruence|]. split; [exact B|]. split.
      + unfold col. rewrite C. apply nth_upd_eq. rewrite (inv_lcolor h HI). exact Hqs.
      + intros x Hx. unfold col. rewrite C. apply nth_upd_neq. congruence.
    - assert (Hin : In q (queued h)) by (apply (inv_color h HI q Hqs); exact Ecol).
      assert (Hb : better Z.ltb (hpol h) (hc h q) c = false).
      { rewrite Hp. cbn [better]. lia. }
      pose proof (update_gray_spec top h q c HI Hin Hb) as X.
      cbv zeta in X. destruct X as (A & _ & B & C & D & E).
      split; [exact A|]. split; [congruence|]. split; [congruence|]. split; [exact B|]. split.
      + unfold col. rewrite C. exact Ecol.
      + intros x _. unfold col. rewrite C. reflexivity.
  Qed.

  Lemma hc_upd h h' q c : hcost h' = upd (hcost h) q c -> q < length (hcost h) ->
    forall x, hc h' x = if Nat.eqb q x then c else hc h x.
  Proof.
    intros E Hq x. unfold cost. rewrite E, nth_upd.
    destruct (Nat.eqb_spec q x); [|reflexivity].
    destruct (Nat.ltb_spec q (length (hcost h))); [reflexivity|lia].
  Qed.

  (* ---------------- one successful relaxation ---------------- *)

  Lemma Core_update D h nd p q :
    Core D h nd -> In p (n_order nd) ->
    (forall b, In b (n_order nd) -> (hc h b <= hc h p)%Z) ->
    q < n -> q <> p -> (Z.max (hc h p) (w p q) < hc h q)%Z ->
    let cur := Z.max (hc h p) (w p q) in
    let pl := nth p (n_plabel nd) 0 in
    let h' := update Z.ltb top h q cur in
    let nd' := mkNodes (n_cost nd) (upd (n_pred nd) q (Some p))
                 (if semi && Nat.leb nl q then upd (n_label nd) q pl else n_label nd)
                 (upd (n_plabel nd) q pl) (n_status nd) (n_relevant nd) (n_order nd) in
    Core D h' nd' /\ hcost h' = upd (hcost h) q cur.
  Proof.
    intros HC Hp Hbl Hq Hqp Hlt cur pl h' nd'.
    assert (Hpn : p < n) by (apply (c_order_lt D h nd HC); exact Hp).
    assert (Hqno : ~ In q (n_order nd)).
    { intros Hin. specialize (Hbl q Hin). lia. }
    assert (Hcolq : col h q <> Black).
    { intros E. apply Hqno. apply (c_black D h nd HC q Hq). exact E. }
    pose proof (c_range D h nd HC p Hpn) as Rp.
    pose proof (c_range D h nd HC q Hq) as Rq.
    assert (Hnpr : ~ proto q).
    { intros Hpr. destruct (c_proto D h nd HC q Hq Hpr) as (E & _). lia. }
    destruct (update_ok h q cur (c_inv _ _ _ HC) (c_size _ _ _ HC) (c_pol _ _ _ HC) Hq Hcolq
                ltac:(lia)) as (HI' & Hs' & Hp' & Hcost' & Hcq & Hcoth).
    fold h' in HI', Hs', Hp', Hcost', Hcq, Hcoth.
    assert (Hhc : forall x, hc h' x = if Nat.eqb q x then cur else hc h x).
    { apply hc_upd; [exact Hcost'|]. rewrite (inv_lcost h (c_inv _ _ _ HC)), (c_size _ _ _ HC).
      exact Hq. }
    assert (Hhcq : hc h' q = cur) by (rewrite Hhc, Nat.eqb_refl; reflexivity).
    assert (Hhco : forall x, x <> q -> hc h' x = hc h x).
    { intros x Hx. rewrite Hhc. destruct (Nat.eqb_spec q x); [congruence|reflexivity]. }
    assert (Hhcb : forall b, In b (n_order nd) -> hc h' b = hc h b).
    { intros b Hb. apply Hhco. intros ->. contradiction. }
    assert (Hle : forall x, (hc h' x <= hc h x)%Z).
    { intros x. destruct (Nat.eq_dec x q) as [->|Hx]; [rewrite Hhcq; lia|rewrite Hhco by exact Hx; lia]. }
    assert (Hcur0 : (zero <= cur)%Z) by (unfold cur; lia).
    assert (Hlq : q < length (n_pred nd)) by (rewrite (c_lpred _ _ _ HC); exact Hq).
    assert (Hlpl : q < length (n_plabel nd)) by (rewrite (c_lplabel _ _ _ HC); exact Hq).
    assert (Hllab : q < length (n_label nd)) by (rewrite (c_llabel _ _ _ HC); exact Hq).
    split; [|exact Hcost'].
    constructor; cbn [n_cost n_pred n_label n_plabel n_status n_relevant n_order nd'].
    - exact HI'.
    - exact Hs'.
    - exact Hp'.
    - apply HC.
    - rewrite upd_length. apply HC.
    - destruct (semi && Nat.leb nl q); rewrite ?upd_length; apply HC.
    - rewrite upd_length. apply HC.
    - apply HC.
    - apply HC.
    - apply HC.
    - intros x Hx. destruct (Nat.eq_dec x q) as [->|Hne].
      + rewrite Hcq. split; [discriminate|contradiction].
      + rewrite Hcoth by exact Hne. apply HC; exact Hx.
    - intros x Hx. destruct (Nat.eq_dec x q) as [->|Hne].
      + rewrite Hcq, Hhcq. split; [discriminate|lia].
      + rewrite Hcoth, Hhco by exact Hne. apply HC; exact Hx.
    - intros x Hx. destruct (Nat.eq_dec x q) as [->|Hne].
      + rewrite Hhcq. lia.
      + rewrite Hhco by exact Hne. apply HC; exact Hx.
    - intros b Hb. rewrite Hhcb by exact Hb. apply HC; exact Hb.
    - intros b x Hb Hx Hxo. rewrite Hhcb by exact Hb.
      destruct (Nat.eq_dec x q) as [->|Hne].
      + rewrite Hhcq. specialize (Hbl b Hb). lia.
      + rewrite Hhco by exact Hne. apply (c_mono _ _ _ HC); assumption.
    - intros i j Hij Hj. rewrite !Hhcb by (apply nth_In; lia).
      apply (c_sorted _ _ _ HC); assumption.
    - intros s Hs Hpr. assert (Hsq : s <> q) by (intros ->; contradiction).
      rewrite Hhco by exact Hsq. rewrite !nth_upd_neq by congruence.
      apply (c_proto _ _ _ HC); assumption.
    - intros x Hx Hnp Hxt. destruct (Nat.eq_dec x q) as [->|Hne].
      + exists p. rewrite !nth_upd_eq by assumption.
        rewrite (nth_upd_neq (n_plabel nd) q p) by congruence.
        rewrite Hhcq, (Hhco p) by congruence.
        repeat split; auto. intros Hin; contradiction.
      + rewrite Hhco in Hxt by exact Hne.
        destruct (c_link _ _ _ HC x Hx Hnp Hxt) as (p0 & A & B & C & E & F & G).
        assert (Hp0 : p0 <> q) by (intros ->; contradiction).
        exists p0. rewrite !nth_upd_neq by congruence.
        rewrite Hhco by exact Hne. rewrite Hhco by exact Hp0.
        repeat split; assumption.
    - apply HC.
    - intros b x Hb Hx Hxb.
      rewrite (Hhcb b) by (apply (c_done _ _ _ HC); exact Hb).
      pose proof (c_cert _ _ _ HC b x Hb Hx Hxb). specialize (Hle x). lia.
    - intros Hsemi. rewrite Hsemi. cbn [andb]. apply (c_lab_f _ _ _ HC); exact Hsemi.
    - intros x Hx Hor. destruct (Nat.eq_dec x q) as [->|Hne].
      + destruct Hor as [Hor|[Hor|Hor]]; [contradiction|rewrite Hhcq in Hor; lia|].
        destruct (Nat.leb_spec nl q) as [Hnlq|_]; [lia|]. rewrite andb_false_r.
        apply (c_lab_a _ _ _ HC); [exact Hq|right; right; exact Hor].
      + rewrite Hhco in Hor by exact Hne.
        replace (nth x (if semi && Nat.leb nl q then upd (n_label nd) q pl else n_label nd) 0)
          with (nth x (n_label nd) 0)
          by (destruct (semi && Nat.leb nl q); [rewrite nth_upd_neq by congruence|]; reflexivity).
        apply (c_lab_a _ _ _ HC); assumption.
    - intros x Hx Hsemi Hlx Hnp Hxt. rewrite Hsemi. cbn [andb].
      destruct (Nat.eq_dec x q) as [->|Hne].
      + destruct (Nat.leb_spec nl q) as [_|Hlt']; [|lia].
        rewrite !nth_upd_eq by assumption. reflexivity.
      + rewrite Hhco in Hxt by exact Hne.
        replace (nth x (if Nat.leb nl q then upd (n_label nd) q pl else n_label nd) 0)
          with (nth x (n_label nd) 0)
          by (destruct (Nat.leb nl q); [rewrite nth_upd_neq by congruence|]; reflexivity).
        rewrite nth_upd_neq by congruence.
        apply (c_lab_b _ _ _ HC); assumption.
  Qed.

  (* ---------------- one call of fit_relax ---------------- *)

  Lemma relax_step D h nd p q :
    Core D h nd -> In p (n_order nd) ->
    (forall b, In b (n_order nd) -> (hc h b <= hc h p)%Z) -> q < n ->
    let r := fit_relax Z.ltb top semi nl w p (h, nd) q in
    Core D (fst r) (snd r) /\ n_order (snd r) = n_order nd /\
    (forall x, (hc (fst r) x <= hc h x)%Z) /\
    (forall b, In b (n_order nd) -> hc (fst r) b = hc h b) /\
    (q <> p -> (hc (fst r) q <= Z.max (hc h p) (w p q))%Z).
  Proof.
    intros HC Hp Hbl Hq. cbv zeta. unfold fit_relax, hcost_at.
    change (nth p (hcost h) top) with (hc h p). change (nth q (hcost h) top) with (hc h q).
    rewrite wmax_Zmax.
    destruct (Nat.eqb_spec p q) as [Epq|Hpq]; cbn [negb andb].
    { cbn [fst snd]. split; [exact HC|]. split; [reflexivity|]. split; [intros; lia|].
      split; [reflexivity|]. congruence. }
    destruct (Z.ltb_spec (hc h p) (hc h q)) as [Hlt1|Hge1].
    2:{ cbn [fst snd]. split; [exact HC|]. split; [reflexivity|]. split; [intros; lia|].
      split; [reflexivity|]. intros _; lia. }
    destruct (Z.ltb_spec (Z.max (hc h p) (w p q)) (hc h q)) as [Hlt2|Hge2].
    2:{ cbn [fst snd]. split; [exact HC|]. split; [reflexivity|]. split; [intros; lia|].
      split; [reflexivity|]. intros _; lia. }
    cbn [fst snd].
    destruct (Core_update D h nd p q HC Hp Hbl Hq ltac:(congruence) Hlt2) as [HC' Hcost'].
    assert (Hhc : forall x, hc (update Z.ltb top h q (Z.max (hc h p) (w p q))) x =
                    if Nat.eqb q x then Z.max (hc h p) (w p q) else hc h x).
    { apply hc_upd; [exact Hcost'|]. rewrite (inv_lcost h (c_inv _ _ _ HC)), (c_size _ _ _ HC).
      exact Hq. }
    split; [exact HC'|]. split; [reflexivity|]. split; [|split].
    - intros x. rewrite Hhc. destruct (Nat.eqb_spec q x) as [<-|_]; lia.
    - intros b Hb. rewrite Hhc. destruct (Nat.eqb_spec q b) as [<-|_]; [|reflexivity].
      specialize (Hbl q Hb). lia.
    - intros _. rewrite Hhc, Nat.eqb_refl. lia.
  Qed.

  (* ---------------- the relaxation round of a removed node ---------------- *)

  Lemma round_spec D h1 nd1 p :
    Core D h1 nd1 -> n_order nd1 = D ++ [p] ->
    (forall b, In b (D ++ [p]) -> (hc h1 b <= hc h1 p)%Z) ->
    let r := fold_left (fit_relax Z.ltb top semi nl w p) (seq 0 n) (h1, nd1) in
    Core (D ++ [p]) (fst r) (snd r) /\ n_order (snd r) = D ++ [p].
  Proof.
    intros HC Hord Hbl. cbv zeta.
    set (P := fun (k : nat) (a : heap Z * nodes) =>
      Core D (fst a) (snd a) /\ n_order (snd a) = D ++ [p] /\
      (forall b, In b (D ++ [p]) -> hc (fst a) b = hc h1 b) /\
      (forall x, x < k -> x <> p -> (hc (fst a) x <= Z.max (hc h1 p) (w p x))%Z)).
    assert (Hpin : In p (D ++ [p])) by (apply in_or_app; right; left; reflexivity).
    assert (HP : P n (fold_left (fit_relax Z.ltb top semi nl w p) (seq 0 n) (h1, nd1))).
    { apply fold_seq_inv.
      - intros k [h nd] Hk (A & B & C & E). cbn [fst snd] in A, B, C, E.
        assert (Hbl' : forall b, In b (n_order nd) -> (hc h b <= hc h p)%Z).
        { intros b Hb. rewrite B in Hb. rewrite (C b Hb), (C p Hpin). apply Hbl; exact Hb. }
        assert (Hp' : In p (n_order nd)) by (rewrite B; exact Hpin).
        destruct (relax_step D h nd p k A Hp' Hbl' Hk) as (A' & B' & C' & E' & F').
        unfold P. split; [exact A'|]. split; [congruence|]. split; [|].
        + intros b Hb. rewrite E' by (rewrite B; exact Hb). apply C; exact Hb.
        + intros x Hx Hxp. destruct (Nat.eq_dec x k) as [->|Hne].
          * rewrite <- (C p Hpin). apply F'; exact Hxp.
          * specialize (C' x). specialize (E x ltac:(lia) Hxp). lia.
      - unfold P; cbn [fst snd]. split; [exact HC|]. split; [exact Hord|].
        split; [reflexivity|]. intros x Hx; lia. }
    destruct HP as (A & B & C & E).
    destruct (fold_left (fit_relax Z.ltb top semi nl w p) (seq 0 n) (h1, nd1)) as [h2 nd2].
    cbn [fst snd] in *. split; [|exact B].
    destruct A. constructor; try assumption.
    - rewrite B. apply incl_refl.
    - intros b x Hb Hx Hxb. apply in_app_or in Hb. destruct Hb as [Hb|[<-|[]]].
      + apply c_cert0; assumption.
      + rewrite (C p Hpin). apply E; assumption.
  Qed.

  (* ---------------- removal of the minimum ---------------- *)

  Lemma Core_remove h nd :
    Core (n_order nd) h nd -> 0 < hn h ->
    exists p h1, remove Z.ltb top h = (h1, Some p) /\
      let nd1 := mkNodes (upd (n_cost nd) p (hcost_at top h1 p)) (n_pred nd) (n_label nd)
                   (n_plabel nd) (n_status nd) (n_relevant nd) (n_order nd ++ [p]) in
      Core (n_order nd) h1 nd1 /\
      (forall b, In b (n_order nd ++ [p]) -> (hc h1 b <= hc h1 p)%Z).
  Proof.
    intros HC Hpos. pose proof (c_inv _ _ _ HC) as HI. pose proof (c_size _ _ _ HC) as Hs.
    pose proof (c_pol _ _ _ HC) as Hpol.
    destruct (remove_spec top h HI Hpos) as (p & h1 & Hrem & Hin & Hmin & Hperm & HI1 & Hcost1 &
                                              Hcol1 & Hs1 & Hp1).
    exists p, h1. split; [exact Hrem|]. cbv zeta.
    assert (Hpn : p < n) by (rewrite <- Hs; apply (inv_range h HI); exact Hin).
    assert (Hgray : col h p = Gray) by (apply (inv_color h HI p); [lia|exact Hin]).
    assert (Hpno : ~ In p (n_order nd)).
    { intros Hx. apply (c_black _ _ _ HC p Hpn) in Hx. congruence. }
    assert (Hhc : forall x, hc h1 x = hc h x) by (intros x; unfold cost; rewrite Hcost1; reflexivity).
    assert (Hcolp : col h1 p = Black).
    { unfold col. rewrite Hcol1. apply nth_upd_eq. rewrite (inv_lcolor h HI). lia. }
    assert (Hcolo : forall x, x <> p -> col h1 x = col h x).
    { intros x Hx. unfold col. rewrite Hcol1. apply nth_upd_neq. congruence. }
    assert (Hptop : (hc h p < top)%Z).
    { pose proof (c_range _ _ _ HC p Hpn). destruct (Z.eq_dec (hc h p) top) as [E|E]; [|lia].
      apply (c_white _ _ _ HC p Hpn) in E. congruence. }
    assert (Hminall : forall x, x < n -> ~ In x (n_order nd) -> (hc h p <= hc h x)%Z).
    { intros x Hx Hxo. destruct (col h x) eqn:Ecx.
      - apply (c_white _ _ _ HC x Hx) in Ecx. lia.
      - assert (Hxq : In x (queued h)) by (apply (inv_color h HI x); [lia|exact Ecx]).
        specialize (Hmin x Hxq). rewrite Hpol in Hmin. cbn [better] in Hmin. lia.
      - apply (c_black _ _ _ HC x Hx) in Ecx. contradiction. }
    split.
    - constructor; cbn [n_cost n_pred n_label n_plabel n_status n_relevant n_order].
      + exact HI1.
      + congruence.
      + congruence.
      + rewrite upd_length. apply HC.
      + apply HC.
      + apply HC.
      + apply HC.
      + apply HC.
      + intros x Hx. apply in_app_or in Hx. destruct Hx as [Hx|[<-|[]]]; [|exact Hpn].
        apply (c_order_lt _ _ _ HC); exact Hx.
      + apply NoDup_app_snoc; [apply HC|exact Hpno].
      + intros x Hx. rewrite in_app_iff. destruct (Nat.eq_dec x p) as [->|Hne].
        * split; [intros _; right; left; reflexivity|intros _; exact Hcolp].
        * rewrite Hcolo by exact Hne. rewrite (c_black _ _ _ HC x Hx). cbn [In].
          split; [auto|intros [Hy|[Hy|[]]]; [exact Hy|congruence]].
      + intros x Hx. rewrite Hhc. destruct (Nat.eq_dec x p) as [->|Hne].
        * rewrite Hcolp. split; [discriminate|lia].
        * rewrite Hcolo by exact Hne. apply HC; exact Hx.
      + intros x Hx. rewrite Hhc. apply HC; exact Hx.
      + intros b Hb. apply in_app_or in Hb. unfold hcost_at. fold (hc h1 p).
        destruct Hb as [Hb|[<-|[]]].
        * rewrite nth_upd_neq by (intros ->; contradiction). rewrite Hhc. apply HC; exact Hb.
        * apply nth_upd_eq. rewrite (c_lcost _ _ _ HC). exact Hpn.
      + intros b x Hb Hx Hxo. rewrite !Hhc. rewrite in_app_iff in Hxo.
        apply in_app_or in Hb. destruct Hb as [Hb|[<-|[]]].
        * apply (c_mono _ _ _ HC); auto.
        * apply Hminall; auto.
      + intros i j Hij Hj. rewrite app_length in Hj; cbn [length] in Hj. rewrite !Hhc.
        destruct (Nat.eq_dec j (length (n_order nd))) as [->|Hne].
        * rewrite (app_nth1 _ _ 0) by lia. rewrite app_nth2 by lia. rewrite Nat.sub_diag.
          cbn [nth]. apply (c_mono _ _ _ HC); auto. apply nth_In; lia.
        * rewrite !app_nth1 by lia. apply (c_sorted _ _ _ HC); lia.
      + intros s Hs' Hpr. rewrite Hhc. apply (c_proto _ _ _ HC); assumption.
      + intros x Hx Hnp Hxt. rewrite Hhc in Hxt.
        destruct (c_link _ _ _ HC x Hx Hnp Hxt) as (p0 & A & B & C & E & F & G).
        exists p0. rewrite !Hhc. repeat split; auto.
        * apply in_or_app; left; exact B.
        * intros Hin'. apply in_app_or in Hin'. destruct Hin' as [Hy|[<-|[]]].
          -- apply before_app. apply G; exact Hy.
          -- apply before_last; exact B.
      + apply incl_appl, incl_refl.
      + intros b x Hb Hx Hxb. rewrite !Hhc. apply (c_cert _ _ _ HC); assumption.
      + apply HC.
      + intros x Hx Hor. rewrite Hhc in Hor. apply (c_lab_a _ _ _ HC); assumption.
      + intros x Hx Hsemi Hlx Hnp Hxt. rewrite Hhc in Hxt. apply (c_lab_b _ _ _ HC); assumption.
    - intros b Hb. rewrite !Hhc. apply in_app_or in Hb. destruct Hb as [Hb|[<-|[]]]; [|lia].
      apply (c_mono _ _ _ HC); auto.
  Qed.

  (* ---------------- the main loop ---------------- *)

  Hypothesis Hproto : exists s, s < n /\ proto s.

  Lemma all_black_when_empty h nd :
    Core (n_order nd) h nd -> hn h = 0 -> forall q, q < n -> In q (n_order nd).
  Proof.
    intros HC Hn0. pose proof (c_inv _ _ _ HC) as HI. pose proof (c_size _ _ _ HC) as Hs.
    assert (Hq0 : queued h = []).
    { apply length_zero_iff_nil. rewrite (queued_length h (Inv_WF h HI)). exact Hn0. }
    assert (Hnt : forall q, q < n -> (hc h q < top)%Z -> In q (n_order nd)).
    { intros q Hq Hlt. apply (c_black _ _ _ HC q Hq). destruct (col h q) eqn:Ec; [| |reflexivity].
      - apply (c_white _ _ _ HC q Hq) in Ec. lia.
      - apply (inv_color h HI q) in Ec; [|lia]. rewrite Hq0 in Ec. destruct Ec. }
    destruct Hproto as (s & Hs' & Hpr).
    destruct (c_proto _ _ _ HC s Hs' Hpr) as (Es & _).
    assert (Hsin : In s (n_order nd)) by (apply Hnt; [exact Hs'|lia]).
    intros q Hq. destruct (Nat.eq_dec q s) as [->|Hne]; [exact Hsin|].
    apply Hnt; [exact Hq|].
    pose proof (c_cert _ _ _ HC s q Hsin Hq Hne). pose proof (Hw s q Hs' Hq ltac:(congruence)). lia.
  Qed.

  Lemma fit_loop_spec fuel : forall h nd,
    Core (n_order nd) h nd -> n <= length (n_order nd) + fuel ->
    let r := fit_loop Z.ltb top fuel n semi nl w h nd in
    Core (n_order (snd r)) (fst r) (snd r) /\ (forall q, q < n -> In q (n_order (snd r))).
  Proof.
    induction fuel as [|f IH]; intros h nd HC Hlen; cbv zeta.
    - cbn [fit_loop fst snd]. split; [exact HC|].
      apply nodup_full; [exact (c_order_nodup _ _ _ HC)|exact (c_order_lt _ _ _ HC)|lia].
    - cbn [fit_loop]. destruct (Nat.eq_dec (hn h) 0) as [Hn0|Hn0].
      + rewrite (remove_empty top h Hn0). cbn [fst snd]. split; [exact HC|].
        apply (all_black_when_empty h nd); assumption.
      + destruct (Core_remove h nd HC ltac:(lia)) as (p & h1 & Hrem & HC1 & Hbl1).
        rewrite Hrem. cbv zeta in HC1.
        match goal with |- context [fold_left ?f ?l (h1, ?nd1)] =>
          pose proof (round_spec (n_order nd) h1 nd1 p HC1 eq_refl Hbl1) as HR;
          cbv zeta in HR; destruct (fold_left f l (h1, nd1)) as [h2 nd2] end.
        cbn [fst snd] in HR. destruct HR as [HC2 Hord2].
        apply IH.
        * rewrite Hord2. exact HC2.
        * rewrite Hord2, app_length. cbn [length]. lia.
  Qed.

  (* ---------------- seeding the heap ---------------- *)

  Variable nd0 : nodes.
  Hypothesis Hst0 : n_status nd0 = st.
  Hypothesis Hlab0 : n_label nd0 = lab0.
  Hypothesis Hl_cost : length (n_cost nd0) = n.
  Hypothesis Hl_pred : length (n_pred nd0) = n.
  Hypothesis Hl_label : length (n_label nd0) = n.
  Hypothesis Hl_plabel : length (n_plabel nd0) = n.
  Hypothesis Hord0 : n_order nd0 = [].

  Definition stb (k q : nat) : bool := (q <? k) && nth q st false.

  Lemma stb_S k q : stb (S k) q = if Nat.eqb q k then nth k st false else stb k q.
  Proof.
    unfold stb. destruct (Nat.eqb_spec q k) as [->|Hne].
    - destruct (Nat.ltb_spec k (S k)); [reflexivity|lia].
    - destruct (Nat.ltb_spec q (S k)), (Nat.ltb_spec q k); try reflexivity; lia.
  Qed.

  Lemma stb_self k : stb k k = false.
  Proof. unfold stb. destruct (Nat.ltb_spec k k); [lia|reflexivity]. Qed.

  Record Seed (k : nat) (h : heap Z) (nd : nodes) : Prop := mkSeed {
    s_inv : Inv h; s_size : hsize h = n; s_pol : hpol h = PMin;
    s_cost : forall q, q < n -> hc h q = if stb k q then zero else top;
    s_col : forall q, q < n -> col h q = if stb k q then Gray else White;
    s_ncost : n_cost nd = n_cost nd0; s_label : n_label nd = lab0; s_status : n_status nd = st;
    s_order : n_order nd = [];
    s_lpred : length (n_pred nd) = n; s_lplabel : length (n_plabel nd) = n;
    s_proto : forall q, stb k q = true ->
        nth q (n_pred nd) None = None /\ nth q (n_plabel nd) 0 = nth q lab0 0 }.

  Lemma seed_init : Seed 0 (h_init top n PMin) nd0.
  Proof.
    constructor; auto.
    - apply inv_init.
    - intros q Hq. unfold cost, h_init; cbn [hcost]. rewrite nth_repeat_any by exact Hq.
      unfold stb. reflexivity.
    - intros q Hq. unfold col, h_init; cbn [hcolor]. rewrite nth_repeat_any by exact Hq.
      unfold stb. reflexivity.
    - intros q Hq. unfold stb in Hq. cbn in Hq. discriminate.
  Qed.

  Lemma seed_step_spec k h nd : k < n -> Seed k h nd ->
    Seed (S k) (fst (seed_step Z.ltb zero top (h, nd) k)) (snd (seed_step Z.ltb zero top (h, nd) k)).
  Proof.
    intros Hk HS. pose proof (s_inv _ _ _ HS) as HI. pose proof (s_size _ _ _ HS) as Hs.
    assert (Hnq : ~ In k (queued h)).
    { intros Hin. apply (inv_color h HI k ltac:(lia)) in Hin.
      pose proof (s_col _ _ _ HS k Hk) as Ec. rewrite stb_self in Ec. unfold col in Ec. congruence. }
    assert (Hlc : k < length (hcost h)) by (rewrite (inv_lcost h HI); lia).
    unfold seed_step. rewrite (s_status _ _ _ HS).
    destruct (nth k st false) eqn:Ek.
    - pose proof (set_cost_nonqueued_inv top h k zero HI Hnq) as HIs.
      pose proof (insert_spec top (set_cost h k zero) k HIs ltac:(cbn [set_cost hsize]; lia) Hnq
                    (heap_room h k HI Hs Hk Hnq)) as X.
      destruct (insert Z.ltb top (set_cost h k zero) k) as [h' b].
      destruct X as (_ & A & _ & B & C & E & F). cbn [set_cost hcost hcolor hsize hpol] in B, C, E, F.
      cbn [fst snd].
      constructor; cbn [n_cost n_pred n_label n_plabel n_status n_relevant n_order]; try apply HS;
        try reflexivity.
      + exact A.
      + rewrite E. exact Hs.
      + rewrite F. apply HS.
      + intros q Hq. rewrite (hc_upd h h' k zero B Hlc), stb_S, Nat.eqb_sym.
        destruct (Nat.eqb_spec q k) as [->|_]; [rewrite Ek; reflexivity|]. apply HS; exact Hq.
      + intros q Hq. unfold col. rewrite C, stb_S. destruct (Nat.eqb_spec q k) as [->|Hne].
        * rewrite Ek. apply nth_upd_eq. rewrite (inv_lcolor h HI). lia.
        * rewrite nth_upd_neq by congruence. apply (s_col _ _ _ HS); exact Hq.
      + rewrite upd_length. apply HS.
      + rewrite upd_length. apply HS.
      + intros q Hq. rewrite stb_S in Hq. destruct (Nat.eqb_spec q k) as [Eq|Hne]; [subst q|].
        * rewrite !nth_upd_eq by (rewrite ?(s_lpred _ _ _ HS), ?(s_lplabel _ _ _ HS); exact Hk).
          rewrite (s_label _ _ _ HS). split; reflexivity.
        * rewrite !nth_upd_neq by congruence. apply (s_proto _ _ _ HS); exact Hq.
    - cbn [fst snd].
      constructor; try apply HS; try reflexivity.
      + apply set_cost_nonqueued_inv; assumption.
      + intros q Hq. rewrite (hc_upd h (set_cost h k top) k top eq_refl Hlc), stb_S, Nat.eqb_sym.
        destruct (Nat.eqb_spec q k) as [->|_]; [rewrite Ek; reflexivity|]. apply HS; exact Hq.
      + intros q Hq. change (col (set_cost h k top) q) with (col h q). rewrite stb_S.
        destruct (Nat.eqb_spec q k) as [->|_]; [|apply HS; exact Hq].
        rewrite Ek. rewrite (s_col _ _ _ HS k Hk), stb_self. reflexivity.
      + intros q Hq. rewrite stb_S in Hq. destruct (Nat.eqb_spec q k) as [Eq|_]; [congruence|].
        apply (s_proto _ _ _ HS); exact Hq.
  Qed.

  Lemma seed_core h nd : Seed n h nd -> Core [] h nd.
  Proof.
    intros HS.
    assert (Hstb : forall q, q < n -> stb n q = nth q st false).
    { intros q Hq. unfold stb. destruct (Nat.ltb_spec q n); [reflexivity|lia]. }
    assert (Hnp : forall q, q < n -> ~ proto q -> hc h q = top).
    { intros q Hq Hnp. rewrite (s_cost _ _ _ HS q Hq), (Hstb q Hq). unfold proto in Hnp.
      destruct (nth q st false); [congruence|reflexivity]. }
    constructor; try apply HS; rewrite ?(s_order _ _ _ HS); cbn [In length].
    - rewrite (s_ncost _ _ _ HS). exact Hl_cost.
    - rewrite (s_label _ _ _ HS), <- Hlab0. exact Hl_label.
    - intros q [].
    - constructor.
    - intros q Hq. rewrite (s_col _ _ _ HS q Hq). split; [|intros []].
      destruct (stb n q); discriminate.
    - intros q Hq. rewrite (s_col _ _ _ HS q Hq), (s_cost _ _ _ HS q Hq).
      destruct (stb n q); split; intros; try discriminate; try reflexivity; lia.
    - intros q Hq. rewrite (s_cost _ _ _ HS q Hq). destruct (stb n q); lia.
    - intros p [].
    - intros p q [].
    - intros i j _ Hj. lia.
    - intros s Hs Hpr. unfold proto in Hpr.
      assert (E : stb n s = true) by (rewrite Hstb by exact Hs; exact Hpr).
      rewrite (s_cost _ _ _ HS s Hs), E. split; [reflexivity|]. apply (s_proto _ _ _ HS); exact E.
    - intros q Hq Hnpq Hlt. rewrite (Hnp q Hq Hnpq) in Hlt. lia.
    - apply incl_refl.
    - intros p q [].
    - intros _. apply (s_label _ _ _ HS).
    - intros q Hq _. rewrite (s_label _ _ _ HS). reflexivity.
    - intros q Hq _ _ Hnpq Hlt. rewrite (Hnp q Hq Hnpq) in Hlt. lia.
  Qed.

  Notation ndF := (compete Z.ltb zero top semi nl n w nd0).

  Lemma compete_core : exists h, Core (n_order ndF) h ndF /\ (forall q, q < n -> In q (n_order ndF)).
  Proof.
    unfold compete.
    assert (HS : Seed n (fst (fold_left (seed_step Z.ltb zero top) (seq 0 n) (h_init top n PMin, nd0)))
                       (snd (fold_left (seed_step Z.ltb zero top) (seq 0 n) (h_init top n PMin, nd0)))).
    { apply (fold_seq_inv (seed_step Z.ltb zero top) (fun k a => Seed k (fst a) (snd a))).
      - intros k [h nd] Hk HS. apply seed_step_spec; assumption.
      - exact seed_init. }
    destruct (fold_left (seed_step Z.ltb zero top) (seq 0 n) (h_init top n PMin, nd0)) as [h nd1].
    cbn [fst snd] in HS. pose proof (seed_core h nd1 HS) as HC.
    rewrite <- (s_order _ _ _ HS) in HC.
    pose proof (fit_loop_spec n h nd1 HC ltac:(lia)) as HF. cbv zeta in HF.
    exists (fst (fit_loop Z.ltb top n n semi nl w h nd1)). exact HF.
  Qed.

  (* ---------------- the results, stated on the final node table ---------------- *)

  Notation costF q := (nth q (n_cost ndF) zero).
  Notation predF q := (nth q (n_pred ndF) None).
  Notation plabelF q := (nth q (n_plabel ndF) 0).

  Theorem fit_order :
    Permutation (n_order ndF) (seq 0 n) /\
    (forall i j, i < j -> j < n ->
       (costF (nth i (n_order ndF) 0%nat) <= costF (nth j (n_order ndF) 0%nat))%Z).
  Proof.
    destruct compete_core as (h & HC & Hall).
    assert (Hperm : Permutation (n_order ndF) (seq 0 n)).
    { apply perm_seq; [apply (c_order_nodup _ _ _ HC)|apply (c_order_lt _ _ _ HC)|exact Hall]. }
    split; [exact Hperm|]. intros i j Hij Hj.
    pose proof (Permutation_length Hperm) as Hlen. rewrite seq_length in Hlen.
    rewrite !(c_ncost _ _ _ HC) by (apply nth_In; lia).
    apply (c_sorted _ _ _ HC); lia.
  Qed.

  Theorem fit_forest :
    (forall q, q < n -> proto q ->
       predF q = None /\ costF q = zero /\ plabelF q = nth q lab0 0) /\
    (forall q, q < n -> ~ proto q ->
       exists p, predF q = Some p /\ p < n /\ p <> q /\
         costF q = Z.max (costF p) (w p q) /\ plabelF q = plabelF p /\
         before (n_order ndF) p q).
  Proof.
    destruct compete_core as (h & HC & Hall). split.
    - intros q Hq Hpr. destruct (c_proto _ _ _ HC q Hq Hpr) as (A & B & C).
      rewrite (c_ncost _ _ _ HC q (Hall q Hq)). auto.
    - intros q Hq Hnp.
      assert (Hlt : (hc h q < top)%Z).
      { pose proof (c_range _ _ _ HC q Hq). destruct (Z.eq_dec (hc h q) top) as [E|E]; [|lia].
        apply (c_white _ _ _ HC q Hq) in E. pose proof (proj2 (c_black _ _ _ HC q Hq) (Hall q Hq)).
        congruence. }
      destruct (c_link _ _ _ HC q Hq Hnp Hlt) as (p & A & B & C & E & F & G).
      exists p. pose proof (c_order_lt _ _ _ HC p B) as Hp.
      rewrite !(c_ncost _ _ _ HC) by (apply Hall; assumption).
      repeat split; auto.
  Qed.

  Theorem fit_roots : forall q, q < n ->
    exists r k pi, r < n /\ proto r /\ reaches (fun x => predF x) q r k /\ predF r = None /\
      k < n /\ plabelF q = nth r lab0 0 /\
      path_from_to n r q pi /\ pathmax w zero pi = costF q.
  Proof.
    destruct compete_core as (h & HC & Hall). destruct fit_forest as [FP FN].
    pose proof (c_order_nodup _ _ _ HC) as Hnd.
    assert (Hlen : length (n_order ndF) = n).
    { rewrite (Permutation_length (proj1 fit_order)). apply seq_length. }
    assert (G : forall i q, i < n -> nth i (n_order ndF) 0 = q ->
      exists r k pi, r < n /\ proto r /\ reaches (fun x => predF x) q r k /\ predF r = None /\
        k <= i /\ plabelF q = nth r lab0 0 /\
        path_from_to n r q pi /\ pathmax w zero pi = costF q).
    { induction i as [i IH] using lt_wf_ind. intros q Hi Hnth.
      assert (Hq : q < n).
      { apply (c_order_lt _ _ _ HC). rewrite <- Hnth. apply nth_In. lia. }
      destruct (nth q st false) eqn:Est.
      - destruct (FP q Hq Est) as (A & B & C).
        exists q, 0, [q]. split; [exact Hq|]. split; [exact Est|]. split; [constructor|].
        split; [exact A|]. split; [lia|]. split; [exact C|]. split.
        + split; [split; [discriminate|constructor; [exact Hq|constructor]]|split; reflexivity].
        + cbn. symmetry; exact B.
      - assert (Hnp : ~ proto q) by (unfold proto; congruence).
        destruct (FN q Hq Hnp) as (p & A & B & C & E & F & (i' & j' & Hij & Hj & Hni & Hnj)).
        assert (j' = i) by (apply (NoDup_nth_inj (n_order ndF)); auto; try lia; congruence).
        subst j'.
        destruct (IH i' Hij p ltac:(lia) Hni) as
          (r & k & pi & R1 & R2 & R3 & R4 & R5 & R6 & ((R7a & R7b) & R7c & R7d) & R8).
        exists r, (S k), (pi ++ [q]). split; [exact R1|]. split; [exact R2|].
        split; [eapply reaches_step; [exact A|exact R3]|]. split; [exact R4|].
        split; [lia|]. split; [congruence|]. split.
        + split; [split|split].
          * destruct pi; discriminate.
          * apply Forall_app. split; [exact R7b|constructor; [exact Hq|constructor]].
          * destruct pi as [|x pi]; [congruence|exact R7c].
          * apply last_last.
        + rewrite (pathmax_snoc w zero pi q r R7a), R7d, R8. symmetry. exact E. }
    intros q Hq. destruct (In_nth _ _ 0 (Hall q Hq)) as (i & Hi & Hnth).
    destruct (G i q ltac:(lia) Hnth) as (r & k & pi & R1 & R2 & R3 & R4 & R5 & R6 & R7 & R8).
    exists r, k, pi. split; [exact R1|]. split; [exact R2|]. split; [exact R3|].
    split; [exact R4|]. split; [lia|]. split; [exact R6|]. split; [exact R7|exact R8].
  Qed.

  Theorem fit_lower_bound : forall q s pi, q < n -> s < n -> proto s ->
    path_from_to n s q pi -> (costF q <= pathmax w zero pi)%Z.
  Proof.
    destruct compete_core as (h & HC & Hall).
    intros q s pi Hq Hs Hpr ((Hne & Hfa) & Hhd & Hlast).
    destruct pi as [|a t]; [congruence|]. cbn in Hhd. injection Hhd as ->.
    pose proof (certificate_path n w zero (fun x => costF x)) as X. cbv beta in X.
    assert (Hc : forall p q, p < n -> q < n -> p <> q ->
               (costF q <= Z.max (costF p) (w p q))%Z).
    { intros p0 q0 Hp0 Hq0 Hne0. rewrite !(c_ncost _ _ _ HC) by (apply Hall; assumption).
      apply (c_cert _ _ _ HC); auto. }
    specialize (X Hc t s Hfa). rewrite Hlast in X.
    destruct (proj1 fit_forest s Hs Hpr) as (_ & E & _). rewrite E in X.
    pose proof (pathmax_ge w zero (s :: t)). lia.
  Qed.

  (* the recorded cost is the minimum, over all paths from prototypes, of the largest arc *)
  Theorem fit_optimal : forall q, q < n ->
    (forall s pi, s < n -> proto s -> path_from_to n s q pi -> (costF q <= pathmax w zero pi)%Z) /\
    (exists s pi, s < n /\ proto s /\ path_from_to n s q pi /\ pathmax w zero pi = costF q).
  Proof.
    intros q Hq. split.
    - intros s pi Hs Hpr Hpath. apply (fit_lower_bound q s pi); assumption.
    - destruct (fit_roots q Hq) as (r & k & pi & R1 & R2 & _ & _ & _ & _ & R7 & R8).
      exists r, pi. split; [exact R1|]. split; [exact R2|]. split; [exact R7|exact R8].
  Qed.

  Theorem fit_status_label :
    n_status ndF = st /\ (semi = false -> n_label ndF = lab0) /\
    (forall q, q < n -> q < nl -> nth q (n_label ndF) 0 = nth q lab0 0) /\
    (semi = true -> forall q, q < n -> nl <= q ->
       nth q (n_label ndF) 0 = if nth q st false then nth q lab0 0 else plabelF q).
  Proof.
    destruct compete_core as (h & HC & Hall).
    split; [apply (c_status _ _ _ HC)|]. split; [apply (c_lab_f _ _ _ HC)|].
    split; [intros q Hq Hlq; apply (c_lab_a _ _ _ HC q Hq); right; right; exact Hlq|].
    intros Hsemi q Hq Hlq. destruct (nth q st false) eqn:Est.
    - apply (c_lab_a _ _ _ HC q Hq). left. exact Est.
    - apply (c_lab_b _ _ _ HC q Hq Hsemi Hlq); [unfold proto; congruence|].
      pose proof (c_range _ _ _ HC q Hq). destruct (Z.eq_dec (hc h q) top) as [E|E]; [|lia].
      apply (c_white _ _ _ HC q Hq) in E. pose proof (proj2 (c_black _ _ _ HC q Hq) (Hall q Hq)).
      congruence.
  Qed.

  Lemma fit_lengths :
    length (n_cost ndF) = n /\ length (n_pred ndF) = n /\ length (n_label ndF) = n /\
    length (n_plabel ndF) = n.
  Proof.
    destruct compete_core as (h & HC & _).
    repeat split; apply HC.
  Qed.
End Fit.
