(* [find_prototypes] keeps the shape of the node table (lengths, labels, empty order), so the
   theorems of Fit.v apply to [sup_fit]; packaged statements for Props/C01.v. *)
From Coq Require Import List Arith Bool ZArith Lia ZifyBool Permutation.
From OPF Require Import Base.Lists Model.Heap Model.Sup Proofs.HeapBase Proofs.HeapInv
  Spec.Paths Proofs.FitBase Proofs.Fit.
Import ListNotations.
Close Scope Z_scope.

Section ProtoShape.
  Context {W : Type}.
  Variables (ltb : W -> W -> bool) (top : W).
  Notation nodes := (@nodes W).

  Lemma prim_relax_len w p st q :
    length (snd (prim_relax ltb top w p st q)) = length (snd st).
  Proof.
    destruct st as [h pred]. unfold prim_relax.
    destruct (negb (is_black h q) && negb (Nat.eqb p q)); [|reflexivity].
    destruct (ltb (w p q) (hcost_at top h q)); cbn [snd]; rewrite ?upd_length; reflexivity.
  Qed.

  Lemma prim_fold_len w p l : forall st,
    length (snd (fold_left (prim_relax ltb top w p) l st)) = length (snd st).
  Proof.
    induction l as [|q l IH]; intros st; [reflexivity|].
    cbn [fold_left]. rewrite IH. apply prim_relax_len.
  Qed.

  Lemma mark_proto_len status label p pr :
    length (mark_proto status label p pr) = length status.
  Proof.
    unfold mark_proto. destruct pr as [pd|]; [|reflexivity].
    destruct (negb (Nat.eqb (nth p label 0) (nth pd label 0))); rewrite ?upd_length; reflexivity.
  Qed.

  (* only the lengths-preserving writes to cost / pred / status happen *)
  Definition shape_pres (P : nodes -> Prop) : Prop :=
    forall nd c pr s, P nd -> length c = length (n_cost nd) -> length pr = length (n_pred nd) ->
      length s = length (n_status nd) ->
      P (mkNodes c pr (n_label nd) (n_plabel nd) s (n_relevant nd) (n_order nd)).

  Lemma prim_loop_pres (P : nodes -> Prop) : shape_pres P ->
    forall fuel n w h nd, P nd -> P (snd (prim_loop ltb top fuel n w h nd)).
  Proof.
    intros HP. induction fuel as [|f IH]; intros n w h nd Hnd; [exact Hnd|].
    cbn [prim_loop]. destruct (remove ltb top h) as [h1 [p|]]; [|exact Hnd].
    pose proof (prim_fold_len w p (seq 0 n) (h1, n_pred nd)) as Hl.
    destruct (fold_left (prim_relax ltb top w p) (seq 0 n) (h1, n_pred nd)) as [h2 pred].
    cbn [snd] in Hl. apply IH. apply HP; [exact Hnd| |exact Hl|].
    - apply upd_length.
    - apply mark_proto_len.
  Qed.

  Lemma find_prototypes_pres (P : nodes -> Prop) : shape_pres P ->
    forall n w nd, P nd -> P (find_prototypes ltb top n w nd).
  Proof.
    intros HP n w nd Hnd. unfold find_prototypes. destruct n as [|n]; [exact Hnd|].
    destruct (insert ltb top (h_init top (S n) PMin) 0) as [h1 b].
    apply prim_loop_pres; [exact HP|].
    apply (HP nd (n_cost nd) (upd (n_pred nd) 0 None) (n_status nd) Hnd); auto using upd_length.
  Qed.

  Definition shaped (n : nat) (labels : list nat) (nd : nodes) : Prop :=
    length (n_cost nd) = n /\ length (n_pred nd) = n /\ n_label nd = labels /\
    length (n_plabel nd) = n /\ length (n_status nd) = n /\ n_order nd = [].

  Lemma shaped_pres n labels : shape_pres (shaped n labels).
  Proof.
    intros nd c pr s (A & B & C & D & E & F) Hc Hpr Hs. unfold shaped.
    cbn [n_cost n_pred n_label n_plabel n_status n_order]. repeat split; congruence.
  Qed.

  Lemma find_prototypes_shaped zero labels w :
    shaped (length labels) labels
      (find_prototypes ltb top (length labels) w (nodes_init zero labels)).
  Proof.
    apply find_prototypes_pres; [apply shaped_pres|].
    unfold shaped, nodes_init. cbn [n_cost n_pred n_label n_plabel n_status n_order].
    rewrite !repeat_length. repeat split; reflexivity.
  Qed.
End ProtoShape.

(* ---------------- packaged results for [compete] on an arbitrary start table ---------------- *)

Section Packaged.
  Variables (zero top : Z) (n : nat) (w : nat -> nat -> Z) (semi : bool) (nl : nat) (nd0 : @nodes Z).
  Hypothesis Hzt : (zero < top)%Z.
  Hypothesis Hw : forall p q, p < n -> q < n -> p <> q -> (zero <= w p q < top)%Z.
  Hypothesis Hl_cost : length (n_cost nd0) = n.
  Hypothesis Hl_pred : length (n_pred nd0) = n.
  Hypothesis Hl_label : length (n_label nd0) = n.
  Hypothesis Hl_plabel : length (n_plabel nd0) = n.
  Hypothesis Hord0 : n_order nd0 = [].
  Hypothesis Hproto : exists s, s < n /\ nth s (n_status nd0) false = true.

  Let nd := compete Z.ltb zero top semi nl n w nd0.
  Let cost q := nth q (n_cost nd) zero.
  Let pred q := nth q (n_pred nd) None.
  Let plabel q := nth q (n_plabel nd) 0.
  Let isproto q := nth q (n_status nd0) false = true.

  Theorem compete_order :
    Permutation (n_order nd) (seq 0 n) /\
    (forall i j, i < j -> j < n -> (cost (nth i (n_order nd) 0%nat) <= cost (nth j (n_order nd) 0%nat))%Z).
  Proof.
    exact (fit_order zero top n w semi nl _ _ Hzt Hw Hproto nd0 eq_refl eq_refl
             Hl_cost Hl_pred Hl_label Hl_plabel Hord0).
  Qed.

  Theorem compete_forest :
    (forall q, q < n -> isproto q ->
       pred q = None /\ cost q = zero /\ plabel q = nth q (n_label nd0) 0) /\
    (forall q, q < n -> ~ isproto q ->
       exists p, pred q = Some p /\ p < n /\ p <> q /\ cost q = Z.max (cost p) (w p q) /\
         plabel q = plabel p /\ before (n_order nd) p q) /\
    (forall q, q < n ->
       exists r k, r < n /\ isproto r /\ reaches pred q r k /\ pred r = None /\ k < n /\
         plabel q = nth r (n_label nd0) 0).
  Proof.
    pose proof (fit_forest zero top n w semi nl _ _ Hzt Hw Hproto nd0 eq_refl eq_refl
             Hl_cost Hl_pred Hl_label Hl_plabel Hord0) as [A B].
    split; [exact A|]. split; [exact B|]. intros q Hq.
    destruct (fit_roots zero top n w semi nl _ _ Hzt Hw Hproto nd0 eq_refl eq_refl
             Hl_cost Hl_pred Hl_label Hl_plabel Hord0 q Hq)
      as (r & k & pi & R1 & R2 & R3 & R4 & R5 & R6 & _).
    exists r, k. repeat split; assumption.
  Qed.

  Theorem compete_optimal :
    (forall q s pi, q < n -> s < n -> isproto s -> path_from_to n s q pi ->
       (cost q <= pathmax w zero pi)%Z) /\
    (forall q, q < n -> exists s pi, s < n /\ isproto s /\ path_from_to n s q pi /\
       pathmax w zero pi = cost q).
  Proof.
    split.
    - exact (fit_lower_bound zero top n w semi nl _ _ Hzt Hw Hproto nd0 eq_refl eq_refl
             Hl_cost Hl_pred Hl_label Hl_plabel Hord0).
    - intros q Hq.
      destruct (fit_roots zero top n w semi nl _ _ Hzt Hw Hproto nd0 eq_refl eq_refl
             Hl_cost Hl_pred Hl_label Hl_plabel Hord0 q Hq)
        as (r & k & pi & R1 & R2 & R3 & R4 & R5 & R6 & R7 & R8).
      exists r, pi. repeat split; try assumption; apply R7.
  Qed.

  Theorem compete_status_label :
    n_status nd = n_status nd0 /\
    (semi = false -> n_label nd = n_label nd0) /\
    (forall q, q < n -> q < nl -> nth q (n_label nd) 0 = nth q (n_label nd0) 0) /\
    (semi = true -> forall q, q < n -> nl <= q -> nth q (n_label nd) 0 = plabel q).
  Proof.
    destruct (fit_status_label zero top n w semi nl _ _ Hzt Hw Hproto nd0 eq_refl eq_refl
             Hl_cost Hl_pred Hl_label Hl_plabel Hord0) as (A & B & C0 & C).
    split; [exact A|]. split; [exact B|]. split; [exact C0|].
    intros Hs q Hq Hlq. specialize (C Hs q Hq Hlq).
    pose proof (proj1 compete_forest) as FP.
    unfold nd, cost, pred, plabel, isproto in *. destruct (nth q (n_status nd0) false) eqn:E.
    - destruct (FP q Hq E) as (_ & _ & F). rewrite C. symmetry. exact F.
    - exact C.
  Qed.
End Packaged.

(* ---------------- supervised training ---------------- *)

Lemma sup_fit_opf :
  forall (zero top : Z) (labels : list nat) (w : nat -> nat -> Z),
    let n := length labels in
    let fp := find_prototypes Z.ltb top n w (nodes_init zero labels) in
    let isproto q := nth q (n_status fp) false = true in
    (zero < top)%Z ->
    (forall p q, p < n -> q < n -> p <> q -> (zero <= w p q < top)%Z) ->
    (exists s, s < n /\ isproto s) ->
    let nd := sup_fit Z.ltb zero top labels w in
    let cost q := nth q (n_cost nd) zero in
    let pred q := nth q (n_pred nd) None in
    let plabel q := nth q (n_plabel nd) 0 in
    (* conquest order *)
    Permutation (n_order nd) (seq 0 n) /\
    (forall i j, i < j -> j < n ->
       (cost (nth i (n_order nd) 0%nat) <= cost (nth j (n_order nd) 0%nat))%Z) /\
    (* the forest *)
    (forall q, q < n -> isproto q ->
       pred q = None /\ cost q = zero /\ plabel q = nth q labels 0) /\
    (forall q, q < n -> ~ isproto q ->
       exists p, pred q = Some p /\ p < n /\ p <> q /\ cost q = Z.max (cost p) (w p q) /\
         plabel q = plabel p /\ before (n_order nd) p q) /\
    (forall q, q < n ->
       exists r k, r < n /\ isproto r /\ reaches pred q r k /\ pred r = None /\ k < n /\
         plabel q = nth r labels 0) /\
    (* optimality of the recorded costs *)
    (forall q s pi, q < n -> s < n -> isproto s -> path_from_to n s q pi ->
       (cost q <= pathmax w zero pi)%Z) /\
    (forall q, q < n -> exists s pi, s < n /\ isproto s /\ path_from_to n s q pi /\
       pathmax w zero pi = cost q) /\
    (* prototype flags and true labels are left alone *)
    n_status nd = n_status fp /\ n_label nd = labels.
Proof.
  intros zero top labels w n fp isproto Hzt Hw Hproto nd cost pred plabel.
  destruct (find_prototypes_shaped Z.ltb top zero labels w) as (A & B & C & D & E & F).
  fold n fp in A, B, C, D, E, F.
  assert (Hll : length (n_label fp) = n) by (rewrite C; reflexivity).
  assert (Hnd : nd = compete Z.ltb zero top false n n w fp) by reflexivity.
  pose proof (compete_order zero top n w false n fp Hzt Hw A B Hll D F Hproto) as (O1 & O2).
  pose proof (compete_forest zero top n w false n fp Hzt Hw A B Hll D F Hproto) as (F1 & F2 & F3).
  pose proof (compete_optimal zero top n w false n fp Hzt Hw A B Hll D F Hproto) as (P1 & P2).
  pose proof (compete_status_label zero top n w false n fp Hzt Hw A B Hll D F Hproto) as (S1 & S2 & _).
  rewrite C in F1, F3, S2. rewrite <- Hnd in *.
  split; [exact O1|]. split; [exact O2|]. split; [exact F1|]. split; [exact F2|].
  split; [exact F3|]. split; [exact P1|]. split; [exact P2|]. split; [exact S1|].
  apply S2; reflexivity.
Qed.

(* ---------------- single-statement forms used by Props/C01.v and Props/C15.v ---------------- *)

Lemma compete_false_opf :
  forall (zero top : Z) (nl n : nat) (w : nat -> nat -> Z) (nd0 : @nodes Z),
    let isproto q := nth q (n_status nd0) false = true in
    (zero < top)%Z ->
    (forall p q, p < n -> q < n -> p <> q -> (zero <= w p q < top)%Z) ->
    length (n_cost nd0) = n -> length (n_pred nd0) = n -> length (n_label nd0) = n ->
    length (n_plabel nd0) = n -> n_order nd0 = [] ->
    (exists s, s < n /\ isproto s) ->
    let nd := compete Z.ltb zero top false nl n w nd0 in
    let cost q := nth q (n_cost nd) zero in
    let pred q := nth q (n_pred nd) None in
    let plabel q := nth q (n_plabel nd) 0 in
    Permutation (n_order nd) (seq 0 n) /\
    (forall i j, i < j -> j < n ->
       (cost (nth i (n_order nd) 0%nat) <= cost (nth j (n_order nd) 0%nat))%Z) /\
    (forall q, q < n -> isproto q ->
       pred q = None /\ cost q = zero /\ plabel q = nth q (n_label nd0) 0) /\
    (forall q, q < n -> ~ isproto q ->
       exists p, pred q = Some p /\ p < n /\ p <> q /\ cost q = Z.max (cost p) (w p q) /\
         plabel q = plabel p /\ before (n_order nd) p q) /\
    (forall q, q < n ->
       exists r k, r < n /\ isproto r /\ reaches pred q r k /\ pred r = None /\ k < n /\
         plabel q = nth r (n_label nd0) 0) /\
    (forall q s pi, q < n -> s < n -> isproto s -> path_from_to n s q pi ->
       (cost q <= pathmax w zero pi)%Z) /\
    (forall q, q < n -> exists s pi, s < n /\ isproto s /\ path_from_to n s q pi /\
       pathmax w zero pi = cost q) /\
    n_status nd = n_status nd0 /\ n_label nd = n_label nd0.
Proof.
  intros zero top nl n w nd0 isproto Hzt Hw L1 L2 L3 L4 L5 Hproto nd cost pred plabel.
  pose proof (compete_order zero top n w false nl nd0 Hzt Hw L1 L2 L3 L4 L5 Hproto) as (O1 & O2).
  pose proof (compete_forest zero top n w false nl nd0 Hzt Hw L1 L2 L3 L4 L5 Hproto) as (F1 & F2 & F3).
  pose proof (compete_optimal zero top n w false nl nd0 Hzt Hw L1 L2 L3 L4 L5 Hproto) as (P1 & P2).
  pose proof (compete_status_label zero top n w false nl nd0 Hzt Hw L1 L2 L3 L4 L5 Hproto)
    as (S1 & S2 & _).
  split; [exact O1|]. split; [exact O2|]. split; [exact F1|]. split; [exact F2|].
  split; [exact F3|]. split; [exact P1|]. split; [exact P2|]. split; [exact S1|].
  apply S2; reflexivity.
Qed.

Lemma compete_true_opf :
  forall (zero top : Z) (nl n : nat) (w : nat -> nat -> Z) (nd0 : @nodes Z),
    let isproto q := nth q (n_status nd0) false = true in
    (zero < top)%Z ->
    (forall p q, p < n -> q < n -> p <> q -> (zero <= w p q < top)%Z) ->
    length (n_cost nd0) = n -> length (n_pred nd0) = n -> length (n_label nd0) = n ->
    length (n_plabel nd0) = n -> n_order nd0 = [] ->
    (exists s, s < n /\ isproto s) ->
    let nd := compete Z.ltb zero top true nl n w nd0 in
    let cost q := nth q (n_cost nd) zero in
    let pred q := nth q (n_pred nd) None in
    let plabel q := nth q (n_plabel nd) 0 in
    let label q := nth q (n_label nd) 0 in
    Permutation (n_order nd) (seq 0 n) /\
    (forall i j, i < j -> j < n ->
       (cost (nth i (n_order nd) 0%nat) <= cost (nth j (n_order nd) 0%nat))%Z) /\
    (forall q, q < n -> isproto q ->
       pred q = None /\ cost q = zero /\ plabel q = nth q (n_label nd0) 0 /\
       label q = nth q (n_label nd0) 0) /\
    (forall q, q < n -> ~ isproto q ->
       exists p, pred q = Some p /\ p < n /\ p <> q /\ cost q = Z.max (cost p) (w p q) /\
         plabel q = plabel p /\ before (n_order nd) p q) /\
    (forall q, q < n ->
       exists r k, r < n /\ isproto r /\ reaches pred q r k /\ pred r = None /\ k < n /\
         plabel q = nth r (n_label nd0) 0 /\ (nl <= q -> label q = nth r (n_label nd0) 0)) /\
    (forall q s pi, q < n -> s < n -> isproto s -> path_from_to n s q pi ->
       (cost q <= pathmax w zero pi)%Z) /\
    (forall q, q < n -> exists s pi, s < n /\ isproto s /\ path_from_to n s q pi /\
       pathmax w zero pi = cost q) /\
    (forall q, q < n -> q < nl -> label q = nth q (n_label nd0) 0) /\
    n_status nd = n_status nd0.
Proof.
  intros zero top nl n w nd0 isproto Hzt Hw L1 L2 L3 L4 L5 Hproto nd cost pred plabel label.
  pose proof (compete_order zero top n w true nl nd0 Hzt Hw L1 L2 L3 L4 L5 Hproto) as (O1 & O2).
  pose proof (compete_forest zero top n w true nl nd0 Hzt Hw L1 L2 L3 L4 L5 Hproto) as (F1 & F2 & F3).
  pose proof (compete_optimal zero top n w true nl nd0 Hzt Hw L1 L2 L3 L4 L5 Hproto) as (P1 & P2).
  pose proof (compete_status_label zero top n w true nl nd0 Hzt Hw L1 L2 L3 L4 L5 Hproto)
    as (S1 & _ & S2 & S3).
  specialize (S3 eq_refl).
  split; [exact O1|]. split; [exact O2|].
  split; [|split; [exact F2|split; [|split; [exact P1|split; [exact P2|split; [exact S2|exact S1]]]]]].
  - intros q Hq Hpr. destruct (F1 q Hq Hpr) as (X1 & X2 & X3).
    split; [exact X1|]. split; [exact X2|]. split; [exact X3|].
    destruct (Nat.lt_ge_cases q nl) as [Hlq|Hlq]; [apply S2; assumption|].
    unfold label, nd. rewrite (S3 q Hq Hlq). exact X3.
  - intros q Hq. destruct (F3 q Hq) as (r & k & R1 & R2 & R3 & R4 & R5 & R6).
    exists r, k. split; [exact R1|]. split; [exact R2|]. split; [exact R3|]. split; [exact R4|].
    split; [exact R5|]. split; [exact R6|]. intros Hlq. unfold label, nd.
    rewrite (S3 q Hq Hlq). exact R6.
Qed.
