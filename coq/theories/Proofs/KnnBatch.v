(* C09 (KNN part) and C14 (composition): the batch version of both KNN predicts, which threads the
   never-reset [neighbours_idx] scratch array from one query to the next, is the pointwise map of the
   single-query prediction; and the single-query prediction rule (nearest neighbours + arg-max). *)
From Coq Require Import List Arith Bool ZArith Lia Sorted.
From OPF Require Import Base.Lists Model.Knn Proofs.Select Proofs.KnnSort Proofs.KnnScan Proofs.KnnPick.
Import ListNotations.

(* ------------------------------------------------------------------ *)
(* facts that hold for every weight type                               *)
(* ------------------------------------------------------------------ *)

Lemma fold_left_ext_In {A S} (f g : S -> A -> S) : forall l st,
  (forall st j, In j l -> f st j = g st j) -> fold_left f l st = fold_left g l st.
Proof.
  induction l as [|a l IH]; intros st H; cbn [fold_left]; [reflexivity|].
  rewrite (H st a (or_introl eq_refl)). apply IH. intros st' j Hj. apply H. right; exact Hj.
Qed.

Section Generic.
  Context {W : Type}.
  Variable ltb : W -> W -> bool.
  Variables zero top bot : W.

  (* the control flow of the bubble loop looks at the distances only *)
  Lemma bubble_fst_indep : forall cur ds ns ns',
    fst (bubble ltb top cur ds ns) = fst (bubble ltb top cur ds ns').
  Proof.
    induction cur as [|c IH]; intros ds ns ns'; cbn [bubble]; [reflexivity|].
    destruct (ltb (nth (S c) ds top) (nth c ds top)); [apply IH|reflexivity].
  Qed.

  Lemma scan_fold_fst_indep k dist skip : forall C ds ns ns',
    fst (fold_left (scan_step ltb top k dist skip) C (ds, ns))
    = fst (fold_left (scan_step ltb top k dist skip) C (ds, ns')).
  Proof.
    induction C as [|c C IH]; intros ds ns ns'; cbn [fold_left]; [reflexivity|].
    cbn [scan_step].
    destruct (match skip with Some i => c =? i | None => false end); [apply IH|].
    pose proof (bubble_fst_indep k (upd ds k (dist c)) (upd ns k c) (upd ns' k c)) as E.
    destruct (bubble ltb top k (upd ds k (dist c)) (upd ns k c)) as [d1 n1].
    destruct (bubble ltb top k (upd ds k (dist c)) (upd ns' k c)) as [d2 n2].
    cbn [fst] in E. subst d2. apply IH.
  Qed.

  (* the distance array after a scan does not depend on the initial contents of [neighbours_idx] *)
  Lemma knn_scan_fst_indep k n dist skip ns0 ns0' :
    fst (knn_scan ltb top k n dist skip ns0) = fst (knn_scan ltb top k n dist skip ns0').
  Proof. unfold knn_scan. apply scan_fold_fst_indep. Qed.

  (* a scan reads [dist] on 0..n-1 only *)
  Lemma knn_scan_ext k n dist dist' skip ns0 :
    (forall j, j < n -> dist j = dist' j) ->
    knn_scan ltb top k n dist skip ns0 = knn_scan ltb top k n dist' skip ns0.
  Proof.
    intros H. unfold knn_scan. apply fold_left_ext_In.
    intros [ds ns] j Hj. apply in_seq in Hj. cbn [scan_step]. rewrite (H j) by lia. reflexivity.
  Qed.

  Lemma knn_predict_one_ext g k n densx_of dist dist' :
    (forall j, j < n -> dist j = dist' j) ->
    knn_predict_one ltb zero top bot g k n densx_of dist = knn_predict_one ltb zero top bot g k n densx_of dist'.
  Proof. intros H. unfold knn_predict_one. rewrite (knn_scan_ext k n dist dist' None _ H). reflexivity. Qed.

  (* the arg-max loop reads [ns] only in the non-empty slots it visits *)
  Lemma pick_fold_congr g densx ds ns ns' : forall ls st,
    (forall l, In l ls -> weqb ltb (nth l ds top) top = false -> nth l ns 0 = nth l ns' 0) ->
    fold_left (pick_step ltb zero top g densx ds ns) ls st
    = fold_left (pick_step ltb zero top g densx ds ns') ls st.
  Proof.
    induction ls as [|l ls IH]; intros [best who] H; cbn [fold_left]; [reflexivity|].
    assert (E : pick_step ltb zero top g densx ds ns (best, who) l
                = pick_step ltb zero top g densx ds ns' (best, who) l).
    { cbn [pick_step]. destruct (weqb ltb (nth l ds top) top) eqn:Hw; [reflexivity|].
      rewrite (H l (or_introl eq_refl) Hw). reflexivity. }
    rewrite E. apply IH. intros l' Hl'. apply H. right; exact Hl'.
  Qed.

  Lemma knn_pick_congr g k densx ds ns ns' :
    (forall l, l < k -> weqb ltb (nth l ds top) top = false -> nth l ns 0 = nth l ns' 0) ->
    knn_pick ltb zero top bot g k densx ds ns = knn_pick ltb zero top bot g k densx ds ns'.
  Proof.
    intros H. unfold knn_pick. f_equal. apply pick_fold_congr.
    intros l Hl. apply in_seq in Hl. apply H. lia.
  Qed.

  Lemma knn_predict_step_eq g k n densx_of ns0 out dist ds ns :
    knn_scan ltb top k n dist None ns0 = (ds, ns) ->
    knn_predict_step ltb zero top bot g k n densx_of (ns0, out) dist
    = (ns, out ++ [knn_pick ltb zero top bot g k (densx_of ds ns) ds ns]).
  Proof. intros H. cbn [knn_predict_step]. rewrite H. reflexivity. Qed.
End Generic.

(* ------------------------------------------------------------------ *)
(* W := Z                                                              *)
(* ------------------------------------------------------------------ *)

Lemma knn_pick_congr_Z (zero top bot : Z) g k densx ds ns ns' :
  (forall l, l < k -> nth l ds top <> top -> nth l ns 0 = nth l ns' 0) ->
  knn_pick Z.ltb zero top bot g k densx ds ns = knn_pick Z.ltb zero top bot g k densx ds ns'.
Proof.
  intros H. apply knn_pick_congr. intros l Hl Hw. apply H; [exact Hl|].
  rewrite weqb_Z in Hw. apply Z.eqb_neq. exact Hw.
Qed.

Section Batch.
  Variables zero top bot : Z.
  Variable g : @knn Z.
  Variables k n : nat.
  Variable densx_of : list Z -> list nat -> Z.

  (* what the proof needs of [densx_of]: it may look at anything in [ds], but in [ns] only at what the scan
     specifies - given ALL of the listed premises.  Both exported forms below imply it. *)
  Definition densx_local : Prop :=
    forall ds ns ns', length ds = S k -> length ns = S k -> length ns' = S k ->
      (forall l, l < k -> nth l ds top <> top -> nth l ns 0 = nth l ns' 0) ->
      firstn (Nat.min k n) ns = firstn (Nat.min k n) ns' ->
      densx_of ds ns = densx_of ds ns'.

  (* one query started from an arbitrary scratch array = the same query started from zeros *)
  Lemma knn_query_indep dist ns0 :
    densx_local -> length ns0 = S k -> (forall j, j < n -> (dist j < top)%Z) ->
    forall ds ns, knn_scan Z.ltb top k n dist None ns0 = (ds, ns) ->
    length ns = S k /\
    knn_pick Z.ltb zero top bot g k (densx_of ds ns) ds ns
    = knn_predict_one Z.ltb zero top bot g k n densx_of dist.
  Proof.
    intros Hloc Hlen Htop ds ns Hscan. unfold knn_predict_one.
    destruct (knn_scan Z.ltb top k n dist None (repeat 0 (S k))) as [ds' ns'] eqn:Hscan'.
    assert (Eds : ds = ds').
    { pose proof (knn_scan_fst_indep Z.ltb top k n dist None ns0 (repeat 0 (S k))) as E.
      rewrite Hscan, Hscan' in E. exact E. }
    subst ds'.
    assert (Htop' : forall j, j < n -> None <> Some j -> (dist j < top)%Z) by (intros j Hj _; apply Htop, Hj).
    destruct (knn_scan_spec top k n dist None ns0 ltac:(lia) Htop' ds ns Hscan)
      as (Hld & Hln & _ & Hempty & _ & _ & _ & Hfn & _).
    destruct (knn_scan_spec top k n dist None (repeat 0 (S k)) ltac:(rewrite repeat_length; lia) Htop' ds ns' Hscan')
      as (_ & Hln' & _ & _ & _ & _ & _ & Hfn' & _).
    cbn [ncands] in *. rewrite repeat_length in Hln'.
    assert (Hfirst : firstn (Nat.min k n) ns = firstn (Nat.min k n) ns') by (rewrite Hfn, Hfn'; reflexivity).
    assert (Hagree : forall l, l < k -> nth l ds top <> top -> nth l ns 0 = nth l ns' 0).
    { intros l Hl Hne. destruct (Nat.lt_ge_cases l (Nat.min k n)) as [Hlm|Hlm].
      - rewrite <- (nth_firstn_lt 0 (Nat.min k n) ns l Hlm), <- (nth_firstn_lt 0 (Nat.min k n) ns' l Hlm).
        rewrite Hfirst. reflexivity.
      - exfalso. apply Hne, Hempty; assumption. }
    split; [lia|].
    rewrite (Hloc ds ns ns' Hld ltac:(lia) Hln' Hagree Hfirst).
    apply knn_pick_congr_Z, Hagree.
  Qed.

  Lemma knn_batch_fold : densx_local -> forall qs ns0 out,
    length ns0 = S k ->
    (forall dist, In dist qs -> forall j, j < n -> (dist j < top)%Z) ->
    snd (fold_left (knn_predict_step Z.ltb zero top bot g k n densx_of) qs (ns0, out))
    = out ++ map (knn_predict_one Z.ltb zero top bot g k n densx_of) qs.
  Proof.
    intros Hloc. induction qs as [|q qs IH]; intros ns0 out Hlen Hqs; cbn [fold_left map].
    - cbn [snd]. rewrite app_nil_r. reflexivity.
    - destruct (knn_scan Z.ltb top k n q None ns0) as [ds ns] eqn:Hscan.
      rewrite (knn_predict_step_eq Z.ltb zero top bot g k n densx_of ns0 out q ds ns Hscan).
      destruct (knn_query_indep q ns0 Hloc Hlen (Hqs q (or_introl eq_refl)) ds ns Hscan) as [Hlen' Hpick].
      rewrite IH; [|exact Hlen'|intros d Hd; apply Hqs; right; exact Hd].
      rewrite Hpick, <- app_assoc. reflexivity.
  Qed.

  Lemma knn_batch_pointwise_local qs : densx_local ->
    (forall dist, In dist qs -> forall j, j < n -> (dist j < top)%Z) ->
    knn_predict_batch Z.ltb zero top bot g k n densx_of qs
    = map (knn_predict_one Z.ltb zero top bot g k n densx_of) qs.
  Proof.
    intros Hloc Hqs. unfold knn_predict_batch.
    rewrite (knn_batch_fold Hloc qs (repeat 0 (S k)) [] (repeat_length _ _) Hqs). reflexivity.
  Qed.
End Batch.

(* [densx_of] reads ns[l] only for slots l < k with ds[l] <> top (the real use), arrays of the real size *)
Theorem knn_batch_pointwise :
  forall (zero top bot : Z) (g : @knn Z) (k n : nat) (densx_of : list Z -> list nat -> Z) (qs : list (nat -> Z)),
    (forall dist, In dist qs -> forall j, j < n -> (dist j < top)%Z) ->
    (forall ds ns ns', length ds = S k -> length ns = S k -> length ns' = S k ->
       (forall l, l < k -> nth l ds top <> top -> nth l ns 0 = nth l ns' 0) ->
       densx_of ds ns = densx_of ds ns') ->
    knn_predict_batch Z.ltb zero top bot g k n densx_of qs
    = map (knn_predict_one Z.ltb zero top bot g k n densx_of) qs.
Proof.
  intros zero top bot g k n densx_of qs Hqs Hd. apply knn_batch_pointwise_local; [|exact Hqs].
  intros ds ns ns' H1 H2 H3 H4 _. apply Hd; assumption.
Qed.

(* [densx_of] reads ns only through its first min k n slots *)
Theorem knn_batch_pointwise_firstn :
  forall (zero top bot : Z) (g : @knn Z) (k n : nat) (densx_of : list Z -> list nat -> Z) (qs : list (nat -> Z)),
    (forall dist, In dist qs -> forall j, j < n -> (dist j < top)%Z) ->
    (forall ds ns ns', firstn (Nat.min k n) ns = firstn (Nat.min k n) ns' -> densx_of ds ns = densx_of ds ns') ->
    knn_predict_batch Z.ltb zero top bot g k n densx_of qs
    = map (knn_predict_one Z.ltb zero top bot g k n densx_of) qs.
Proof.
  intros zero top bot g k n densx_of qs Hqs Hd. apply knn_batch_pointwise_local; [|exact Hqs].
  intros ds ns ns' _ _ _ _ H5. apply Hd; assumption.
Qed.

(* the result at position i is the single-query prediction of the i-th query *)
Theorem knn_batch_nth :
  forall (zero top bot : Z) (g : @knn Z) (k n : nat) (densx_of : list Z -> list nat -> Z) (qs : list (nat -> Z)),
    (forall dist, In dist qs -> forall j, j < n -> (dist j < top)%Z) ->
    (forall ds ns ns', length ds = S k -> length ns = S k -> length ns' = S k ->
       (forall l, l < k -> nth l ds top <> top -> nth l ns 0 = nth l ns' 0) ->
       densx_of ds ns = densx_of ds ns') ->
    length (knn_predict_batch Z.ltb zero top bot g k n densx_of qs) = length qs /\
    forall i d0, i < length qs ->
      nth i (knn_predict_batch Z.ltb zero top bot g k n densx_of qs) None
      = knn_predict_one Z.ltb zero top bot g k n densx_of (nth i qs d0).
Proof.
  intros zero top bot g k n densx_of qs Hqs Hd.
  rewrite (knn_batch_pointwise zero top bot g k n densx_of qs Hqs Hd).
  split; [apply map_length|]. intros i d0 Hi.
  rewrite (nth_indep _ None (knn_predict_one Z.ltb zero top bot g k n densx_of d0)) by (rewrite map_length; exact Hi).
  apply map_nth.
Qed.

(* the same sample (same distances to the n training samples) gets the same answer at any position of any batch *)
Theorem knn_position_free :
  forall (zero top bot : Z) (g : @knn Z) (k n : nat) (densx_of : list Z -> list nat -> Z)
         (qs qs' : list (nat -> Z)) (i i' : nat) (d0 : nat -> Z),
    (forall dist, In dist qs -> forall j, j < n -> (dist j < top)%Z) ->
    (forall dist, In dist qs' -> forall j, j < n -> (dist j < top)%Z) ->
    (forall ds ns ns', length ds = S k -> length ns = S k -> length ns' = S k ->
       (forall l, l < k -> nth l ds top <> top -> nth l ns 0 = nth l ns' 0) ->
       densx_of ds ns = densx_of ds ns') ->
    i < length qs -> i' < length qs' ->
    (forall j, j < n -> nth i qs d0 j = nth i' qs' d0 j) ->
    nth i (knn_predict_batch Z.ltb zero top bot g k n densx_of qs) None
    = nth i' (knn_predict_batch Z.ltb zero top bot g k n densx_of qs') None.
Proof.
  intros zero top bot g k n densx_of qs qs' i i' d0 Hqs Hqs' Hd Hi Hi' Hsame.
  destruct (knn_batch_nth zero top bot g k n densx_of qs Hqs Hd) as [_ E].
  destruct (knn_batch_nth zero top bot g k n densx_of qs' Hqs' Hd) as [_ E'].
  rewrite (E i d0 Hi), (E' i' d0 Hi'). apply knn_predict_one_ext, Hsame.
Qed.

(* ------------------------------------------------------------------ *)
(* C14: the prediction rule for one query                              *)
(* ------------------------------------------------------------------ *)

Theorem knn_predict_rule :
  forall (zero top bot : Z) (g : @knn Z) (k n : nat) (densx_of : list Z -> list nat -> Z) (dist : nat -> Z),
    1 <= k -> 1 <= n ->
    (forall j, j < n -> (dist j < top)%Z) ->
    forall ds ns, knn_scan Z.ltb top k n dist None (repeat 0 (S k)) = (ds, ns) ->
    let densx := densx_of ds ns in
    let val j := Z.min (nth j (k_cost g) zero) densx in
    (forall j, j < n -> (bot < val j)%Z) ->
    let N := firstn k (isort dist (seq 0 n)) in
    length N = Nat.min k n /\
    firstn (Nat.min k n) ns = N /\ firstn (Nat.min k n) ds = map dist N /\
    NoDup N /\ (forall j, In j N -> j < n) /\
    (forall a b, a < b -> b < length N ->
       (dist (nth a N 0%nat) < dist (nth b N 0%nat))%Z \/
       (dist (nth a N 0) = dist (nth b N 0) /\ nth a N 0 < nth b N 0)) /\
    (forall j, j < n -> ~ In j N -> forall a, In a N -> (dist a < dist j)%Z \/ (dist a = dist j /\ a < j)) /\
    exists r, r < length N /\
      knn_predict_one Z.ltb zero top bot g k n densx_of dist = Some (nth r N 0) /\
      (forall r', r' < length N -> (val (nth r' N 0%nat) <= val (nth r N 0%nat))%Z) /\
      (forall r', r' < r -> (val (nth r' N 0%nat) < val (nth r N 0%nat))%Z).
Proof.
  intros zero top bot g k n densx_of dist Hk Hn Htop ds ns Hscan densx val Hbot N.
  assert (Htop' : forall j, j < n -> None <> Some j -> (dist j < top)%Z) by (intros j Hj _; apply Htop, Hj).
  destruct (knn_scan_spec top k n dist None (repeat 0 (S k)) ltac:(rewrite repeat_length; lia) Htop' ds ns Hscan)
    as (_ & _ & Hfill & Hempty & _ & _ & _ & Hfn & Hfd).
  cbn [ncands] in *. set (m := Nat.min k n) in *.
  assert (HN : knearest dist k (cands None n) = N) by (unfold knearest; rewrite cands_none; reflexivity).
  rewrite HN in Hfn, Hfd.
  pose proof (cands_sorted None n) as Hcs.
  assert (HNlen : length N = m).
  { rewrite <- HN, knearest_length, cands_length. reflexivity. }
  assert (Hnth : forall l, l < m -> nth l ns 0 = nth l N 0).
  { intros l Hl. rewrite <- Hfn. symmetry. apply nth_firstn_lt, Hl. }
  split; [exact HNlen|]. split; [exact Hfn|]. split; [exact Hfd|].
  split; [rewrite <- HN; apply knearest_NoDup, Hcs|].
  split; [intros j Hj; rewrite <- HN in Hj; apply knearest_In, cands_In in Hj; tauto|].
  split.
  { intros a b Hab Hb.
    apply (StronglySorted_nth (lexlt dist) 0 N); [rewrite <- HN; apply knearest_sorted, Hcs|exact Hab|exact Hb]. }
  split.
  { intros j Hj Hnin a Ha. rewrite <- HN in Hnin, Ha.
    apply (knearest_minimal dist k (cands None n)); [exact Hcs|apply cands_In; split; [exact Hj|discriminate]|exact Hnin|exact Ha]. }
  assert (Hfilled : forall l, l < k -> nth l ds top <> top -> l < m).
  { intros l Hl Hne. destruct (Nat.lt_ge_cases l m) as [H|H]; [exact H|]. exfalso. apply Hne, Hempty; assumption. }
  assert (Hbot' : forall l, l < k -> nth l ds top <> top ->
                    (bot < Z.min (nth (nth l ns 0%nat) (k_cost g) zero) densx)%Z).
  { intros l Hl Hne. apply (Hbot (nth l ns 0)). apply Hfill, Hfilled; assumption. }
  assert (Hone : knn_predict_one Z.ltb zero top bot g k n densx_of dist
                 = knn_pick Z.ltb zero top bot g k densx ds ns).
  { unfold knn_predict_one. rewrite Hscan. reflexivity. }
  destruct (knn_pick_argmax zero top bot g k densx ds ns Hbot') as [[Hall _]|(l & Hl & Hne & Hr & Hmax & Hfirst)].
  - exfalso. assert (H0 : 0 < m) by (unfold m; lia).
    destruct (Hfill 0 H0) as (_ & _ & _ & Hlt). rewrite (Hall 0 ltac:(lia)) in Hlt. lia.
  - pose proof (Hfilled l Hl Hne) as Hlm.
    exists l. split; [lia|]. split; [rewrite Hone, Hr, (Hnth l Hlm); reflexivity|].
    rewrite HNlen. split.
    + intros r' Hr'. unfold val. rewrite <- (Hnth r' Hr'), <- (Hnth l Hlm).
      apply Hmax; [unfold m in Hr'; lia|]. destruct (Hfill r' Hr') as (_ & _ & _ & Hlt). lia.
    + intros r' Hr'. unfold val. rewrite <- (Hnth r' ltac:(lia)), <- (Hnth l Hlm).
      apply Hfirst; [exact Hr'|]. destruct (Hfill r' ltac:(lia)) as (_ & _ & _ & Hlt). lia.
Qed.
