(* Assumption audit of the end-to-end theorems of Props/C15_capstone.v, Props/C14_pipeline.v and
   Props/C09_pipeline.v.  The order-generic ingredients must print "Closed under the global
   context"; the theorems over R may depend only on the axioms of the standard-library real numbers
   (ClassicalDedekindReals.sig_forall_dec, sig_not_dec,
   FunctionalExtensionality.functional_extensionality_dep, Classical_Prop.classic). *)
From OPF Require Import Proofs.CapstoneSemi Proofs.KnnPredictPipelineBatch Proofs.KnnPredictPipeline
  Proofs.KnnPredictPipelineMain Props.C15_capstone Props.C14_pipeline Props.C09_pipeline.

Print Assumptions semi_fit_lengths_anyorder.
Print Assumptions C09_knn_predict_pointwise_anyorder.
Print Assumptions C09_knn_position_free_anyorder.
Print Assumptions C09_anyorder_example_result.
Print Assumptions C15_capstone_semi_fit_R.
Print Assumptions C15_capstone_semi_metric.
Print Assumptions C15_capstone_all_metrics.
Print Assumptions C15_capstone_all_metrics_closed_form.
Print Assumptions C15_capstone_empty_unlabeled.
Print Assumptions C15_capstone_example_run.
Print Assumptions C15_capstone_example_query.
Print Assumptions C14_pipeline_k_nearest_unique.
Print Assumptions C14_pipeline_any_graph.
Print Assumptions C14_knn_sup_predict_rule.
Print Assumptions C14_unsup_predict_rule.
Print Assumptions C14_pipeline_example_sup.
Print Assumptions C14_pipeline_example_unsup.
Print Assumptions C09_knn_sup_fitted_batch.
Print Assumptions C09_unsup_fitted_batch.
