(* Non-vacuity for Props/C17_full.v: a universe of 7 points with integer distances (ties included),
   4 training rows in 2 classes, 3 validation rows.  The real SupervisedOPF.learn / prune were run
   on this instance (distance_fn = table lookup, numpy seed giving the draws below) and agree with
   every value stated here. *)
From Coq Require Import ZArith QArith List Arith Bool Lia.
From OPF Require Import Base.Lists Base.TotalOrder Model.Heap Model.Sup Model.Learn Model.Measures Model.LearnFull.
From OPF Require Import Proofs.LiftInst Proofs.Learn Proofs.LearnFull Proofs.LearnFullOpf.
Import ListNotations.
Local Open Scope nat_scope.

Definition exf_D : list Z :=
  [0;4;2;2;3;1;3;  4;0;3;5;5;1;5;  2;3;0;6;6;3;1;  2;5;6;0;3;3;3;  3;5;6;3;0;4;6;  1;1;3;3;4;0;3;  3;5;1;3;6;3;0]%Z.

(* distance between points a and b of the universe 0..6 *)
Definition exf_w (a b : nat) : Z := nth (a * 7 + b) exf_D 0%Z.

(* X_train = points 0..3 with labels 0 1 1 0, X_val = points 4..6 with labels 0 1 0 *)
Definition exf_st : lstate nat := mkL [0;1;2;3] [0;1;1;0] [4;5;6] [0;1;0].
Definition exf_draws : list nat := [1;0;2;1].

Definition exf_learn := learn_full Z.ltb 0%Z 1000%Z exf_w QAcc 3 exf_draws exf_st.

Lemma exf_learn_def : exf_learn = learn_full Z.ltb 0%Z 1000%Z exf_w QAcc 3 exf_draws exf_st.
Proof. unfold exf_learn. reflexivity. Qed.

Lemma exf_w_bounds : forall a b, (0 <= exf_w a b < 1000)%Z.
Proof.
  intros a b. unfold exf_w.
  assert (H : Forall (fun v => (0 <= v < 1000)%Z) exf_D) by (repeat constructor; lia).
  destruct (Nat.lt_ge_cases (a * 7 + b) (length exf_D)) as [Hl|Hl].
  - exact (proj1 (Forall_nth _ _) H _ 0%Z Hl).
  - rewrite nth_overflow by exact Hl. lia.
Qed.

(* three iterations run: accuracies 1/4, 3/4, 3/4; the first has two validation errors, one of
   which leads to an exchange (training row 1 <-> validation row 1 after a draw that hit a
   prototype was retried); the second iteration is the first to reach 3/4 and is kept *)
Lemma exf_learn_run :
  fr_res exf_learn = mkRes 1 3 ([0;5;2;3], [0;1;1;0]) [] (mkL [0;5;2;3] [0;1;1;0] [4;1;6] [0;1;0]) /\
  map (fun it => (fi_X it, fi_preds it, Qred (fi_acc it), fi_errs it, fi_small it)) (fr_trace exf_learn) =
    [ ([0;1;2;3], [0;0;1], (1 # 4)%Q, [1;2], false);
      ([0;5;2;3], [0;1;1], (3 # 4)%Q, [2], false);
      ([0;5;2;3], [0;1;1], (3 # 4)%Q, [2], true) ] /\
  fr_nodes exf_learn =
    mkNodes [0;0;0;2]%Z [None; None; None; Some 0] [0;1;1;0] [0;1;1;0] [true;true;true;false]
            [true;true;true;false] [0;2;1;3] /\
  l_Xt (r_state (fr_res exf_learn)) <> l_Xt exf_st.
Proof. vm_compute. repeat split; discriminate. Qed.

Lemma exf_premises :
  strict_total_order Z.ltb /\ Z.ltb 0 1000 = true /\
  (forall a b, Z.ltb (exf_w a b) 0 = false /\ Z.ltb (exf_w a b) 1000 = true) /\
  1 <= 3 /\ two_classes (l_Yt exf_st) /\
  length (l_Xt exf_st) = length (l_Yt exf_st) /\ length (l_Xv exf_st) = length (l_Yv exf_st).
Proof.
  split; [exact Z_order|]. split; [reflexivity|]. split.
  - intros a b. destruct (exf_w_bounds a b). split; [apply Z.ltb_ge | apply Z.ltb_lt]; lia.
  - split; [lia|]. split; [|split; reflexivity].
    exists 0, 1. cbn. repeat split; (lia || discriminate).
Qed.

(* prune with one iteration: rows 1 and 3 are on no conqueror's root path and are discarded *)
Lemma exf_prune_run :
  map (fun r => (pr_X r, pr_Y r, n_relevant (pr_nodes r)))
      (prune_rounds Z.ltb 0%Z 1000%Z exf_w 1 (l_Xt exf_st) (l_Yt exf_st) (l_Xv exf_st)) =
    [ ([0;1;2;3], [0;1;1;0], [true;false;true;false]); ([0;2], [0;1], [true;true]) ] /\
  prune_full Z.ltb 0%Z 1000%Z exf_w 1 exf_st =
    mkPR [0;2] [0;1]
         (mkNodes [0;0]%Z [None; None] [0;1] [0;1] [true;true] [true;true] [0;1]) [0;0;1] /\
  length (pr_X (prune_full Z.ltb 0%Z 1000%Z exf_w 1 exf_st)) < length (l_Xt exf_st).
Proof. vm_compute. repeat split; lia. Qed.

Lemma exf_prune_premises :
  let rounds := prune_rounds Z.ltb 0%Z 1000%Z exf_w 1 (l_Xt exf_st) (l_Yt exf_st) (l_Xv exf_st) in
  exists r r', nth_error rounds 0 = Some r /\ nth_error rounds 1 = Some r' /\ two_classes (pr_Y r) /\
               length (pr_X r') < length (pr_X r).
Proof.
  eexists. eexists. split; [reflexivity|]. split; [reflexivity|]. split.
  - exists 0, 1. cbn. repeat split; (lia || discriminate).
  - vm_compute. lia.
Qed.
