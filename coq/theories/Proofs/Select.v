(* C16: the two k-selection folds of Model/Knn.v ([knn_select], [cut_select]) at W := Z. *)
From Coq Require Import List Arith Bool ZArith Lia.
From OPF Require Import Base.Lists Model.Knn.
Import ListNotations.

(* ------------------------------------------------------------------ *)
(* knn_select                                                          *)
(* ------------------------------------------------------------------ *)

Definition sel_step (st : Z * option nat) (ka : nat * Z) : Z * option nat :=
  let '(mx, best) := st in
  if Z.ltb mx (snd ka) then (snd ka, Some (fst ka)) else st.

Lemma knn_select_unfold zero accs :
  knn_select Z.ltb zero accs
  = snd (fold_left sel_step (combine (seq 1 (length accs)) accs) (zero, Some 1)).
Proof. reflexivity. Qed.

(* Either nothing in [l] beats [mx] (state unchanged) or the fold ends on the first maximum of [l]. *)
Lemma sel_fold (d : Z) : forall (l : list Z) (s : nat) (mx : Z) (b : option nat),
  let r := fold_left sel_step (combine (seq s (length l)) l) (mx, b) in
  ((forall a, In a l -> (a <= mx)%Z) /\ r = (mx, b)) \/
  (exists i, i < length l /\ (mx < nth i l d)%Z /\ r = (nth i l d, Some (s + i)) /\
     (forall j, j < length l -> (nth j l d <= nth i l d)%Z) /\
     (forall j, j < i -> (nth j l d < nth i l d)%Z)).
Proof.
  induction l as [|a l IH]; intros s mx b; cbn [length seq combine fold_left].
  - left; split; [intros a []|reflexivity].
  - cbn [sel_step snd fst].
    destruct (Z.ltb_spec mx a) as [Hlt|Hge].
    + destruct (IH (S s) a (Some s)) as [[Hall Hr]|(i & Hi & Hgt & Hr & Hmax & Hfirst)].
      * right; exists 0; cbn [nth length].
        split; [lia|]. split; [lia|]. split; [rewrite Hr; f_equal; f_equal; lia|].
        split; [|intros j Hj; lia].
        intros [|j] Hj; cbn [nth]; [lia|].
        apply Hall, nth_In; lia.
      * right; exists (S i); cbn [nth length].
        split; [lia|]. split; [lia|]. split; [rewrite Hr; f_equal; f_equal; lia|].
        split.
        -- intros [|j] Hj; cbn [nth]; [lia|]. apply Hmax; lia.
        -- intros [|j] Hj; cbn [nth]; [lia|]. apply Hfirst; lia.
    + destruct (IH (S s) mx b) as [[Hall Hr]|(i & Hi & Hgt & Hr & Hmax & Hfirst)].
      * left; split; [|exact Hr].
        intros x [<-|Hx]; [lia|auto].
      * right; exists (S i); cbn [nth length].
        split; [lia|]. split; [lia|]. split; [rewrite Hr; f_equal; f_equal; lia|].
        split.
        -- intros [|j] Hj; cbn [nth]; [lia|]. apply Hmax; lia.
        -- intros [|j] Hj; cbn [nth]; [lia|]. apply Hfirst; lia.
Qed.

(* the unified statement: under [zero <= acc], the result is the smallest (1-based) index attaining the maximum *)
Lemma knn_select_argmax : forall (zero : Z) (accs : list Z),
  accs <> [] -> (forall a, In a accs -> (zero <= a)%Z) ->
  exists i, knn_select Z.ltb zero accs = Some (S i) /\ i < length accs /\
    (forall j, j < length accs -> (nth j accs zero <= nth i accs zero)%Z) /\
    (forall j, j < i -> (nth j accs zero < nth i accs zero)%Z).
Proof.
  intros zero accs Hne Hpos. rewrite knn_select_unfold.
  destruct (sel_fold zero accs 1 zero (Some 1)) as [[Hall Hr]|(i & Hi & Hgt & Hr & Hmax & Hfirst)].
  - (* all accuracies equal zero *)
    exists 0. rewrite Hr. cbn [snd].
    destruct accs as [|a l]; [congruence|]. cbn [length].
    split; [reflexivity|]. split; [lia|]. split; [|intros j Hj; lia].
    intros j Hj.
    assert (Hj' : In (nth j (a :: l) zero) (a :: l)) by (apply nth_In; cbn [length]; lia).
    assert (H0 : In (nth 0 (a :: l) zero) (a :: l)) by (apply nth_In; cbn [length]; lia).
    pose proof (Hall _ Hj'). pose proof (Hpos _ H0). lia.
  - exists i. rewrite Hr. cbn [snd]. auto.
Qed.

(* the maximum being positive is exactly the case where the initial [best_k = 1] is overwritten or confirmed
   by a strict improvement; in the other case the initial value survives *)
Lemma knn_select_all_zero : forall (zero : Z) (accs : list Z),
  (forall a, In a accs -> (a <= zero)%Z) -> knn_select Z.ltb zero accs = Some 1.
Proof.
  intros zero accs Hall. rewrite knn_select_unfold.
  destruct (sel_fold zero accs 1 zero (Some 1)) as [[_ Hr]|(i & Hi & Hgt & _)].
  - now rewrite Hr.
  - assert (In (nth i accs zero) accs) by (apply nth_In; lia).
    pose proof (Hall _ H). lia.
Qed.

(* ------------------------------------------------------------------ *)
(* cut_select                                                          *)
(* ------------------------------------------------------------------ *)

Definition cut_step (zero : Z) (st : Z * option nat * nat) (kc : nat * Z) : Z * option nat * nat :=
  let '(mn, best, ev) := st in
  if weqb Z.ltb mn zero then st
  else if Z.ltb (snd kc) mn then (snd kc, Some (fst kc), S ev) else (mn, best, S ev).

Lemma cut_select_unfold zero top min_k cuts :
  cut_select Z.ltb zero top min_k cuts
  = let '(_, best, ev) := fold_left (cut_step zero) (combine (seq min_k (length cuts)) cuts) (top, None, 0) in
    (best, ev).
Proof. reflexivity. Qed.

Lemma weqb_Z a b : weqb Z.ltb a b = Z.eqb a b.
Proof.
  unfold weqb. destruct (Z.ltb_spec a b), (Z.ltb_spec b a), (Z.eqb_spec a b); cbn; try reflexivity; lia.
Qed.

(* number of candidates the loop evaluates: up to and including the first exact [zero] *)
Fixpoint cut_evaluated (zero : Z) (cuts : list Z) : nat :=
  match cuts with
  | [] => 0
  | c :: t => if Z.eqb c zero then 1 else S (cut_evaluated zero t)
  end.

Lemma cut_evaluated_spec zero d : forall cuts,
  let e := cut_evaluated zero cuts in
  e <= length cuts /\ (cuts <> [] -> 1 <= e) /\
  (forall j, S j < e -> nth j cuts d <> zero) /\
  (e = length cuts \/ nth (e - 1) cuts d = zero).
Proof.
  induction cuts as [|c t IH]; cbn [cut_evaluated length].
  - split; [lia|]. split; [congruence|]. split; [intros; lia|left; reflexivity].
  - destruct (Z.eqb_spec c zero) as [->|Hne].
    + split; [lia|]. split; [lia|]. split; [intros; lia|]. right; reflexivity.
    + destruct IH as (Hle & H1 & Hnz & Hlast).
      split; [lia|]. split; [lia|]. split.
      * intros [|j] Hj; cbn [nth]; [exact Hne|apply Hnz; lia].
      * destruct Hlast as [He|Hz]; [left; lia|].
        destruct t as [|c' t']; [left; reflexivity|].
        specialize (H1 ltac:(congruence)).
        right. replace (S (cut_evaluated zero (c' :: t')) - 1) with (S (cut_evaluated zero (c' :: t') - 1)) by lia.
        exact Hz.
Qed.

Lemma cut_fold_zero zero : forall (l : list (nat * Z)) b ev,
  fold_left (cut_step zero) l (zero, b, ev) = (zero, b, ev).
Proof.
  induction l as [|x l IH]; intros b ev; cbn [fold_left]; [reflexivity|].
  cbn [cut_step]. rewrite weqb_Z, Z.eqb_refl. apply IH.
Qed.

Lemma cut_fold (zero d : Z) : forall (l : list Z) (s : nat) (mn : Z) (b : option nat) (ev : nat),
  (zero < mn)%Z -> (forall c, In c l -> (zero <= c)%Z) ->
  let r := fold_left (cut_step zero) (combine (seq s (length l)) l) (mn, b, ev) in
  let e := cut_evaluated zero l in
  snd r = ev + e /\
  (((forall j, j < e -> (mn <= nth j l d)%Z) /\ fst r = (mn, b)) \/
   (exists i, i < e /\ (nth i l d < mn)%Z /\ fst r = (nth i l d, Some (s + i)) /\
      (forall j, j < e -> (nth i l d <= nth j l d)%Z) /\
      (forall j, j < i -> (nth i l d < nth j l d)%Z))).
Proof.
  induction l as [|c l IH]; intros s mn b ev Hmn Hpos; cbn [length seq combine fold_left cut_evaluated].
  - cbn [snd fst]. split; [lia|]. left; split; [intros; lia|reflexivity].
  - cbn [cut_step snd fst]. rewrite weqb_Z.
    destruct (Z.eqb_spec mn zero) as [Heq|_]; [lia|].
    assert (Hc : (zero <= c)%Z) by (apply Hpos; left; reflexivity).
    assert (Hpos' : forall x, In x l -> (zero <= x)%Z) by (intros x Hx; apply Hpos; right; exact Hx).
    destruct (Z.ltb_spec c mn) as [Hlt|Hge].
    + destruct (Z.eqb_spec c zero) as [Hz|Hnz].
      * subst c. rewrite cut_fold_zero. cbn [snd fst]. split; [lia|].
        right; exists 0; cbn [nth]. split; [lia|]. split; [lia|].
        split; [f_equal; f_equal; lia|]. split; intros j Hj; [|lia].
        assert (j = 0) by lia; subst j; cbn [nth]; lia.
      * destruct (IH (S s) c (Some s) (S ev) ltac:(lia) Hpos') as (Hev & Hcase).
        split; [rewrite Hev; lia|].
        right. destruct Hcase as [[Hall Hr]|(i & Hi & Hgt & Hr & Hmin & Hfirst)].
        -- exists 0; cbn [nth]. split; [lia|]. split; [lia|].
           split; [rewrite Hr; f_equal; f_equal; lia|]. split; intros j Hj; [|lia].
           destruct j as [|j]; cbn [nth]; [lia|]. apply Hall; lia.
        -- exists (S i); cbn [nth]. split; [lia|]. split; [lia|].
           split; [rewrite Hr; f_equal; f_equal; lia|]. split.
           ++ intros [|j] Hj; cbn [nth]; [lia|]. apply Hmin; lia.
           ++ intros [|j] Hj; cbn [nth]; [lia|]. apply Hfirst; lia.
    + destruct (Z.eqb_spec c zero) as [Hz|Hnz]; [lia|].
      destruct (IH (S s) mn b (S ev) Hmn Hpos') as (Hev & Hcase).
      split; [rewrite Hev; lia|].
      destruct Hcase as [[Hall Hr]|(i & Hi & Hgt & Hr & Hmin & Hfirst)].
      * left; split; [|exact Hr].
        intros [|j] Hj; cbn [nth]; [lia|]. apply Hall; lia.
      * right; exists (S i); cbn [nth]. split; [lia|]. split; [lia|].
        split; [rewrite Hr; f_equal; f_equal; lia|]. split.
        -- intros [|j] Hj; cbn [nth]; [lia|]. apply Hmin; lia.
        -- intros [|j] Hj; cbn [nth]; [lia|]. apply Hfirst; lia.
Qed.

Lemma cut_select_argmin_fun : forall (zero top : Z) (min_k : nat) (cuts : list Z),
  cuts <> [] -> (forall c, In c cuts -> (zero <= c < top)%Z) ->
  let e := cut_evaluated zero cuts in
  exists i, cut_select Z.ltb zero top min_k cuts = (Some (min_k + i), e) /\ i < e /\
    (forall j, j < e -> (nth i cuts zero <= nth j cuts zero)%Z) /\
    (forall j, j < i -> (nth i cuts zero < nth j cuts zero)%Z).
Proof.
  intros zero top min_k cuts Hne Hrng e. rewrite cut_select_unfold.
  assert (Htop : (zero < top)%Z).
  { destruct cuts as [|c t]; [congruence|]. specialize (Hrng c (or_introl eq_refl)). lia. }
  destruct (cut_fold zero zero cuts min_k top None 0 Htop) as (Hev & Hcase).
  { intros c Hc. specialize (Hrng c Hc). lia. }
  fold e in Hev, Hcase.
  destruct (fold_left (cut_step zero) (combine (seq min_k (length cuts)) cuts) (top, None, 0))
    as [[mn best] ev] eqn:Hf.
  cbn [snd fst] in Hev, Hcase. subst ev.
  destruct Hcase as [[Hall _]|(i & Hi & Hgt & Hr & Hmin & Hfirst)].
  - exfalso.
    destruct (cut_evaluated_spec zero zero cuts) as (Hle & H1 & _). fold e in Hle, H1.
    specialize (H1 Hne).
    assert (Hin : In (nth 0 cuts zero) cuts) by (apply nth_In; lia).
    specialize (Hall 0 ltac:(lia)). specialize (Hrng _ Hin). lia.
  - exists i. inversion Hr; subst. auto.
Qed.

Lemma cut_select_argmin : forall (zero top : Z) (min_k : nat) (cuts : list Z),
  cuts <> [] -> (forall c, In c cuts -> (zero <= c < top)%Z) ->
  exists e i, cut_select Z.ltb zero top min_k cuts = (Some (min_k + i), e) /\
    1 <= e <= length cuts /\
    (forall j, S j < e -> nth j cuts zero <> zero) /\
    (e = length cuts \/ nth (e - 1) cuts zero = zero) /\
    i < e /\
    (forall j, j < e -> (nth i cuts zero <= nth j cuts zero)%Z) /\
    (forall j, j < i -> (nth i cuts zero < nth j cuts zero)%Z).
Proof.
  intros zero top min_k cuts Hne Hrng.
  destruct (cut_select_argmin_fun zero top min_k cuts Hne Hrng) as (i & Hsel & Hi & Hmin & Hfirst).
  destruct (cut_evaluated_spec zero zero cuts) as (Hle & H1 & Hnz & Hlast).
  exists (cut_evaluated zero cuts), i.
  split; [exact Hsel|]. split; [split; [apply H1, Hne|exact Hle]|]. auto.
Qed.

(* ------------------------------------------------------------------ *)
(* examples                                                            *)
(* ------------------------------------------------------------------ *)

(* tie for the maximum: the smaller k wins *)
Example knn_select_ex_tie : knn_select Z.ltb 0%Z [3; 7; 5; 7; 2]%Z = Some 2.
Proof. vm_compute. reflexivity. Qed.

(* every candidate scores 0: the initial best_k = 1 is kept *)
Example knn_select_ex_all_zero : knn_select Z.ltb 0%Z [0; 0; 0]%Z = Some 1.
Proof. vm_compute. reflexivity. Qed.

Example knn_select_ex_last : knn_select Z.ltb 0%Z [0; 1; 1; 4]%Z = Some 4.
Proof. vm_compute. reflexivity. Qed.

(* tie for the minimum: the smaller k wins; all five candidates evaluated *)
Example cut_select_ex_tie : cut_select Z.ltb 0%Z 1000%Z 3 [9; 4; 6; 4; 8]%Z = (Some 4, 5).
Proof. vm_compute. reflexivity. Qed.

(* an exact zero at the third candidate stops evaluation: the later 0 and the -irrelevant- tail are not looked at *)
Example cut_select_ex_early_zero : cut_select Z.ltb 0%Z 1000%Z 2 [5; 3; 0; 0; 1]%Z = (Some 4, 3).
Proof. vm_compute. reflexivity. Qed.

Example cut_select_ex_first_zero : cut_select Z.ltb 0%Z 1000%Z 2 [0; 3; 1]%Z = (Some 2, 1).
Proof. vm_compute. reflexivity. Qed.
