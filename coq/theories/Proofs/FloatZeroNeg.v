(* Limits of the exact zero-self-distance analysis (C08, float level): for four of the five
   dissimilarities that [zero_self_one] rejects, an admissible rounding (monotone, rnd 0 = 0, strict
   sign preserved, rnd 1 = 1) under which the self-distance of a concrete vector of the domain is
   defined and NOT 0.  So the rejections are not an incompleteness of the checker: in this rounding
   model these metrics are zero on the diagonal only "up to rounding".  (The fifth, jaccard, can even be
   undefined: Proofs/FloatTable.v, [jaccard_zero_model_limit].)

     bhattacharyya  already with the IDENTITY rounding (exact arithmetic): on the probability vector [1]
                    the decorated body computes -ln (1 + EPSILON) <> 0.
     jensen         plateau rounding [rndS] ([1,4] -> 1): (x+x)/2 is computed as rnd (rnd 2 / 2) = 1/2.
     cosine, chord  [rndH] (t > 1 -> (t+1)/2, a contraction towards 1): rnd (sqrt s) ^ 2 < s, the ratio
                    s / (sqrt s * sqrt s) is rounded to a value > 1. *)
From Coq Require Import Reals QArith Qreals String List Lra Lia Bool ZArith.
From OPF Require Import Model.Consts Model.Effects Spec.MetricSpec Gen.Consts_gen Model.MetricIR
     Gen.Metrics_gen Gen.Decorator_gen Model.MetricRnd Model.MetricSym Proofs.IRLemmas
     Proofs.RobustSign Proofs.RobustSignTable Proofs.RobustSignNeg Proofs.FloatSym Proofs.FloatZero
     Proofs.FloatTable.
Import ListNotations.
Open Scope R_scope.

(* ---- bhattacharyya: exact arithmetic ---- *)
Lemma bhattacharyya_self_value :
  metric_rnd (fun a : R => a) ir_bhattacharyya [1] [1] = Some (- ln (1 + EPSILON)).
Proof.
  ev_open ir_bhattacharyya. pose proof EPS_pos as HE. ev_step.
  destruct (Rlt_dec ((1 + EPSILON) * (1 + EPSILON)) 0) as [Hn|_]; [nra|].
  rewrite sqrt_square by lra. ev_step.
  destruct (Rlt_dec 0 (1 + EPSILON)) as [_|Hn]; [|lra]. reflexivity.
Qed.

Lemma bhattacharyya_zero_refuted :
  rounding (fun a : R => a) /\ (fun a : R => a) 1 = 1 /\ prob [1]
  /\ metric_rnd (fun a : R => a) ir_bhattacharyya [1] [1] <> Some 0.
Proof.
  split; [exact rndI_rounding|]. split; [reflexivity|]. split.
  - split; [constructor; [lra | constructor] | unfold sum; cbn; lra].
  - rewrite bhattacharyya_self_value. pose proof EPS_pos as HE.
    assert (HL : 0 < ln (1 + EPSILON)) by (rewrite <- ln_1; apply ln_increasing; lra).
    intros E. injection E as E. lra.
Qed.

(* ---- jensen: plateau rounding ---- *)
Lemma jensen_self_pos : exists r, metric_rnd rndS ir_jensen [1] [1] = Some r /\ 0 < r.
Proof.
  ev_open ir_jensen. pose proof EPS_pos as HE. pose proof EPS_lt_1 as HE1.
  rewrite (rndS_mid (1 + EPSILON)) by lra.
  ev_step. rewrite !Q2R_Z, Q2R_half.
  destruct (Rlt_dec 0 1) as [_|Hn]; [|lra].
  rewrite ln_1, (rndS_small 0) by lra. ev_step.
  rewrite Rmult_0_r, (rndS_small 0) by lra.
  replace (0 + 0) with 0 by ring. rewrite (rndS_small 0) by lra.
  rewrite (rndS_mid (1 + 1)) by lra.
  destruct (Req_EM_T 2 0) as [Hz|_]; [lra|].
  replace (0 / 2) with 0 by lra. rewrite (rndS_small 0) by lra.
  rewrite (rndS_small (1 / 2)) by lra. ev_step.
  destruct (Rlt_dec 0 (1 / 2)) as [_|Hn]; [|lra]. ev_step.
  assert (HL : ln (1 / 2) < 0) by (rewrite <- ln_1; apply ln_increasing; lra).
  pose proof (rnd_neg _ rndS_rounding _ HL) as HL'.
  set (L := rndS (ln (1 / 2))) in *.
  assert (HB : 1 / 2 * L < 0) by lra.
  pose proof (rnd_neg _ rndS_rounding _ HB) as HB'.
  set (B := rndS (1 / 2 * L)) in *.
  assert (HD : 0 < 0 - B) by lra.
  pose proof (rnd_pos _ rndS_rounding _ HD) as HD'.
  set (D := rndS (0 - B)) in *.
  eexists. split; [reflexivity|]. apply (rnd_pos _ rndS_rounding). lra.
Qed.

Lemma jensen_zero_model_limit :
  exists rnd, rounding rnd /\ rnd 1 = 1 /\ all_pos [1] /\ metric_rnd rnd ir_jensen [1] [1] <> Some 0.
Proof.
  exists rndS. split; [exact rndS_rounding|]. split; [exact rndS_one|].
  split; [constructor; [lra | constructor]|].
  destruct jensen_self_pos as [r [Er Pr]]. rewrite Er. intros E. injection E as E. lra.
Qed.

(* ---- cosine, chord: a contraction towards 1 ---- *)
Definition rndH (t : R) : R := if Rle_dec t 1 then t else (t + 1) / 2.

Lemma rndH_rounding : rounding rndH.
Proof.
  unfold rndH. constructor.
  - intros a b H. destruct (Rle_dec a 1), (Rle_dec b 1); lra.
  - destruct (Rle_dec 0 1); lra.
  - intros a H. destruct (Rle_dec a 1); lra.
  - intros a H. destruct (Rle_dec a 1); lra.
Qed.

Lemma rndH_one : rndH 1 = 1.
Proof. unfold rndH. destruct (Rle_dec 1 1); lra. Qed.
Lemma rndH_big t : 1 < t -> rndH t = (t + 1) / 2.
Proof. intros H. unfold rndH. destruct (Rle_dec t 1); lra. Qed.
Lemma rndH_small t : t <= 1 -> rndH t = t.
Proof. intros H. unfold rndH. destruct (Rle_dec t 1); lra. Qed.

(* the chain of values: a = x + EPSILON rounded; n = rnd (a * a); w = sqrt n; q = rnd w;
   dn = rnd (q * q); t = n / dn; r = rnd t *)
Lemma chain a :
  1 < a < 3 / 2 ->
  let n := (a * a + 1) / 2 in
  let w := sqrt n in
  let q := (w + 1) / 2 in
  let dn := (q * q + 1) / 2 in
  let t := n / dn in
  1 < n /\ 1 < w /\ 1 < q * q /\ 1 < dn /\ 1 < t /\ (t + 1) / 2 < 3 / 2.
Proof.
  intros Ha n w q dn t.
  assert (Hn : 1 < n < 13 / 8) by (unfold n; nra).
  assert (Hww : w * w = n) by (unfold w; apply sqrt_sqrt; lra).
  assert (Hw0 : 0 <= w) by (unfold w; apply sqrt_pos).
  assert (Hw : 1 < w < 5 / 3) by nra.
  assert (Hq : 1 < q < w) by (unfold q; lra).
  assert (Hqq : 1 < q * q < n) by nra.
  assert (Hdn : 1 < dn < n) by (unfold dn; lra).
  assert (Ht1 : 1 < t).
  { unfold t. apply (Rmult_lt_reg_r dn); [lra|]. unfold Rdiv. rewrite Rmult_assoc, Rinv_l by lra. lra. }
  assert (Ht2 : t < 2).
  { unfold t. apply (Rmult_lt_reg_r dn); [lra|]. unfold Rdiv. rewrite Rmult_assoc, Rinv_l by lra.
    unfold dn, q. nra. }
  repeat split; lra.
Qed.

Lemma EPS_half : 1 < (1 + EPSILON + 1) / 2 < 3 / 2.
Proof. pose proof EPS_pos. pose proof EPS_lt_1. lra. Qed.

Lemma cosine_self_neg : exists r, metric_rnd rndH ir_cosine [1] [1] = Some r /\ r < 0.
Proof.
  ev_open ir_cosine. pose proof EPS_pos as HE.
  rewrite (rndH_big (1 + EPSILON)) by lra.
  pose proof EPS_half as Ha. set (a := (1 + EPSILON + 1) / 2) in *.
  destruct (chain a Ha) as [Hn [Hw [Hqq [Hdn [Ht Hr]]]]].
  ev_step. rewrite Q2R_Z. replace (a ^ 2) with (a * a) by ring.
  rewrite (rndH_big (a * a)) by nra.
  set (n := (a * a + 1) / 2) in *.
  destruct (Rlt_dec n 0) as [Hneg|_]; [lra|].
  rewrite (rndH_big (sqrt n)) by lra. set (q := (sqrt n + 1) / 2) in *.
  ev_step. rewrite (rndH_big (q * q)) by lra. set (dn := (q * q + 1) / 2) in *.
  destruct (Req_EM_T dn 0) as [Hz|_]; [lra|].
  rewrite (rndH_big (n / dn)) by lra. ev_step.
  rewrite (rndH_small (1 - (n / dn + 1) / 2)) by lra.
  eexists. split; [reflexivity|]. lra.
Qed.

Lemma cosine_zero_model_limit :
  exists rnd, rounding rnd /\ rnd 1 = 1 /\ all_pos [1] /\ metric_rnd rnd ir_cosine [1] [1] <> Some 0.
Proof.
  exists rndH. split; [exact rndH_rounding|]. split; [exact rndH_one|].
  split; [constructor; [lra | constructor]|].
  destruct cosine_self_neg as [r [Er Pr]]. rewrite Er. intros E. injection E as E. lra.
Qed.

Lemma chord_self_pos : exists r, metric_rnd rndH ir_chord [1] [1] = Some r /\ 0 < r.
Proof.
  ev_open ir_chord. pose proof EPS_pos as HE.
  rewrite (rndH_big (1 + EPSILON)) by lra.
  pose proof EPS_half as Ha. set (a := (1 + EPSILON + 1) / 2) in *.
  destruct (chain a Ha) as [Hn [Hw [Hqq [Hdn [Ht Hr]]]]].
  ev_step. rewrite !Q2R_Z. replace (a ^ 2) with (a * a) by ring.
  rewrite (rndH_big (a * a)) by nra.
  set (n := (a * a + 1) / 2) in *.
  destruct (Rlt_dec n 0) as [Hneg|_]; [lra|].
  rewrite (rndH_big (sqrt n)) by lra. set (q := (sqrt n + 1) / 2) in *.
  ev_step. rewrite (rndH_big (q * q)) by lra. set (dn := (q * q + 1) / 2) in *.
  destruct (Req_EM_T dn 0) as [Hz|_]; [lra|].
  rewrite (rndH_big (n / dn)) by lra.
  assert (Hr1 : 1 < (n / dn + 1) / 2) by lra.
  set (r := (n / dn + 1) / 2) in *. ev_step.
  rewrite (rndH_big (2 * r)) by lra.
  rewrite (rndH_small (2 - (2 * r + 1) / 2)) by lra.
  assert (Hv : 0 < 2 - (2 * r + 1) / 2) by lra.
  rewrite (Rmax_left (2 - (2 * r + 1) / 2) 0) by lra.
  destruct (Rlt_dec (2 - (2 * r + 1) / 2) 0) as [Hneg|_]; [lra|].
  eexists. split; [reflexivity|]. apply (rnd_pos _ rndH_rounding). now apply sqrt_lt_R0.
Qed.

Lemma chord_zero_model_limit :
  exists rnd, rounding rnd /\ rnd 1 = 1 /\ all_pos [1] /\ metric_rnd rnd ir_chord [1] [1] <> Some 0.
Proof.
  exists rndH. split; [exact rndH_rounding|]. split; [exact rndH_one|].
  split; [constructor; [lra | constructor]|].
  destruct chord_self_pos as [r [Er Pr]]. rewrite Er. intros E. injection E as E. lra.
Qed.
