(* REFINEMENT: the density kernels of Model/Pdf.v run on Coq's primitive binary64 floats ([FOps], the interpretation
   compared bit-for-bit with the Python implementation) compute exactly what the same kernels compute over the reals
   with the binary64 rounding [rnd64] after every operation ([RndOps rnd64]).  No overflow can occur on exp-terms
   in [0, 1]: partial sums are bounded by the number of terms, the scaled densities by 1999.

   [frel x r] : the float x is finite and its real value is r. *)
From Coq Require Import Reals List ZArith Bool Lia Lra Floats.
From Flocq Require Import Core Plus_error.
From OPF Require Import Base.Lists Base.NumOps Base.NumOpsRnd Model.Pdf Model.MetricRnd
  Proofs.PdfBase Proofs.PdfReal Proofs.PdfRndBase Model.Binary64 Proofs.Binary64 Proofs.Binary64Ops.
Import ListNotations.
Local Open Scope R_scope.

Local Instance prec53 : Prec_gt_0 53 := eq_refl.

Notation pfloat := Coq.Floats.PrimFloat.float (only parsing).

Definition frel (x : pfloat) (r : R) : Prop := ffin x = true /\ f2r x = r.

Lemma frel_self x : ffin x = true -> frel x (f2r x).
Proof. intros H. split; [exact H | reflexivity]. Qed.

(* ---------- more facts about rnd64 ---------- *)

(* round to nearest: 0 is in the format, so the result is at most twice the argument -- underflow included *)
Lemma rnd64_le_double t : 0 <= t -> rnd64 t <= 2 * t.
Proof.
  intros Ht.
  assert (N : Rnd_N_pt (generic_format radix2 (FLT_exp (-1074) 53)) t (rnd64 t)).
  { apply round_N_pt; auto with typeclass_instances. }
  destruct N as [_ N]. specialize (N 0 (generic_format_0 _ _)).
  rewrite Rminus_0_l, Rabs_Ropp, (Rabs_pos_eq t Ht) in N.
  apply Rabs_le_inv in N. lra.
Qed.

Lemma rnd64_sub_neq_0 a b : rnd64 a = a -> rnd64 b = b -> a <> b -> rnd64 (a - b) <> 0.
Proof.
  intros Fa Fb Hab.
  assert (Ga : generic_format radix2 (FLT_exp (-1074) 53) a).
  { rewrite <- Fa. apply generic_format_round; auto with typeclass_instances. }
  assert (Gb : generic_format radix2 (FLT_exp (-1074) 53) (- b)).
  { apply generic_format_opp. rewrite <- Fb. apply generic_format_round; auto with typeclass_instances. }
  unfold Rminus, rnd64. apply round_plus_neq_0; auto with typeclass_instances. lra.
Qed.

Lemma rnd64_sub_pos a b : rnd64 a = a -> rnd64 b = b -> b < a -> 0 < rnd64 (a - b).
Proof.
  intros Fa Fb Hab. pose proof (rnd64_sub_neq_0 a b Fa Fb ltac:(lra)).
  pose proof (rnd64_nonneg (a - b) ltac:(lra)). lra.
Qed.

Lemma two53 : bpow radix2 53 = 9007199254740992.
Proof. reflexivity. Qed.

Lemma fits64_small t : Rabs t <= 9007199254740992 -> fits64 t.
Proof. rewrite <- two53. intros H. apply rnd64_lt_overflow. exact H. Qed.

Lemma fits64_format t : rnd64 t = t -> Rabs t < bpow radix2 1024 -> fits64 t.
Proof. intros F H. unfold fits64. rewrite F. exact H. Qed.

(* shrinking a representable value keeps it below the overflow threshold *)
Lemma fits64_le_format t b : rnd64 b = b -> Rabs b < bpow radix2 1024 -> Rabs t <= Rabs b -> fits64 t.
Proof.
  intros F H L. unfold fits64, rnd64.
  apply Rle_lt_trans with (2 := H).
  apply abs_round_le_generic; auto with typeclass_instances.
  apply generic_format_abs. rewrite <- F. apply generic_format_round; auto with typeclass_instances.
Qed.

Lemma rnd64_le_int t z : (Z.abs z <= 2 ^ 53)%Z -> t <= IZR z -> rnd64 t <= IZR z.
Proof. intros Hz H. rewrite <- (rnd64_int z Hz). now apply rnd64_mono. Qed.

(* ---------- the bridge in relational form ---------- *)
Lemma frel_add x y a b : frel x a -> frel y b -> fits64 (a + b) -> frel (x + y)%float (rnd64 (a + b)).
Proof. intros [Fx <-] [Fy <-] H. exact (f2r_add x y Fx Fy H). Qed.

Lemma frel_sub x y a b : frel x a -> frel y b -> fits64 (a - b) -> frel (x - y)%float (rnd64 (a - b)).
Proof. intros [Fx <-] [Fy <-] H. exact (f2r_sub x y Fx Fy H). Qed.

Lemma frel_mul x y a b : frel x a -> frel y b -> fits64 (a * b) -> frel (x * y)%float (rnd64 (a * b)).
Proof. intros [Fx <-] [Fy <-] H. exact (f2r_mul x y Fx Fy H). Qed.

Lemma frel_div x y a b : frel x a -> frel y b -> b <> 0 -> fits64 (a / b) -> frel (x / y)%float (rnd64 (a / b)).
Proof. intros [Fx <-] [Fy <-] Hb H. exact (f2r_div x y Fx Fy Hb H). Qed.

Lemma frel_ofZ z : (Z.abs z <= 2 ^ 53)%Z -> frel (float_ofZ z) (IZR z).
Proof. exact (f2r_float_ofZ z). Qed.

Lemma frel_ltb x y a b : frel x a -> frel y b -> PrimFloat.ltb x y = Rltb a b.
Proof. intros [Fx <-] [Fy <-]. exact (f2r_ltb x y Fx Fy). Qed.

Lemma frel_eqb x y a b : frel x a -> frel y b -> PrimFloat.eqb x y = Reqb a b.
Proof. intros [Fx <-] [Fy <-]. exact (f2r_eqb x y Fx Fy). Qed.

Lemma frel_format x a : frel x a -> rnd64 a = a /\ Rabs a < bpow radix2 1024.
Proof. intros [_ <-]. split; [apply f2r_format | apply f2r_lt_overflow]. Qed.

(* ---------- fsum and pdf_value ---------- *)
Definition unit_term (x : pfloat) : Prop := ffin x = true /\ 0 <= f2r x <= 1.

Lemma fsum_refines (l : list pfloat) :
  Forall unit_term l ->
  forall (acc : pfloat) (a : R) (j : Z),
    frel acc a -> (0 <= j)%Z -> 0 <= a <= IZR j -> (j + Z.of_nat (length l) <= 2 ^ 53)%Z ->
    frel (fold_left PrimFloat.add l acc) (fold_left (fun s t => rnd64 (s + t)) (map f2r l) a) /\
    0 <= fold_left (fun s t => rnd64 (s + t)) (map f2r l) a <= IZR (j + Z.of_nat (length l)).
Proof.
  induction 1 as [|x l [Fx Hx] Hl IH]; intros acc a j Ha Hj Hb Hlen.
  - cbn [fold_left map length]. rewrite Z.add_0_r. split; [exact Ha | exact Hb].
  - cbn [fold_left map]. cbn [length] in Hlen. rewrite Nat2Z.inj_succ in Hlen.
    assert (Hs : 0 <= a + f2r x <= IZR (j + 1)) by (rewrite plus_IZR; lra).
    assert (Hj1 : IZR (j + 1) <= 9007199254740992).
    { change 9007199254740992 with (IZR (2 ^ 53)). apply IZR_le. lia. }
    assert (Hfit : fits64 (a + f2r x)) by (apply fits64_small; rewrite Rabs_pos_eq; lra).
    assert (Hr : 0 <= rnd64 (a + f2r x) <= IZR (j + 1)).
    { split; [apply rnd64_nonneg; lra | apply rnd64_le_int; [lia | lra]]. }
    destruct (IH (acc + x)%float (rnd64 (a + f2r x)) (j + 1)%Z
                 (frel_add acc x a (f2r x) Ha (frel_self x Fx) Hfit) ltac:(lia) Hr ltac:(lia)) as [R1 R2].
    replace (j + Z.of_nat (length (x :: l)))%Z with (j + 1 + Z.of_nat (length l))%Z
      by (cbn [length]; lia).
    split; [exact R1 | exact R2].
Qed.

Lemma Forall_map_seq {A} (P : A -> Prop) (f : nat -> A) (k : nat) :
  (forall l, (l < k)%nat -> P (f l)) -> Forall P (map f (seq 0 k)).
Proof.
  intros H. apply Forall_forall. intros x Hx. apply in_map_iff in Hx. destruct Hx as [l [<- Hl]].
  apply in_seq in Hl. apply H. lia.
Qed.

Lemma pdf_value_refines (k : nat) (e : nat -> pfloat) :
  (Z.of_nat (S k) <= 2 ^ 53)%Z ->
  (forall l, (l < k)%nat -> unit_term (e l)) ->
  frel (pdf_value FOps k e) (pdf_value (RndOps rnd64) k (fun l => f2r (e l))) /\
  0 <= pdf_value (RndOps rnd64) k (fun l => f2r (e l)) <= 1.
Proof.
  intros Hk He.
  rewrite pdf_value_RndOps. unfold pdfv, PdfRndBase.rsum.
  unfold pdf_value, fsum. cbn [nadd ndiv nofZ FOps].
  destruct (fsum_refines (map e (seq 0 k)) (Forall_map_seq unit_term e k He) (float_ofZ 0) 0 0
              (frel_ofZ 0 ltac:(lia)) ltac:(lia) ltac:(lra)
              ltac:(rewrite map_length, seq_length; lia)) as [R1 R2].
  rewrite map_map in R1, R2. rewrite map_length, seq_length, Z.add_0_l in R2.
  set (s := fold_left (fun s t => rnd64 (s + t)) (map (fun l => f2r (e l)) (seq 0 k)) 0) in *.
  assert (Hd : 0 < IZR (Z.of_nat (S k))) by (apply IZR_lt; lia).
  assert (Hq : 0 <= s / IZR (Z.of_nat (S k)) <= 1).
  { assert (Hle : s <= IZR (Z.of_nat (S k))).
    { apply Rle_trans with (1 := proj2 R2). apply IZR_le. lia. }
    split; [apply Rmult_le_pos; [lra | apply Rlt_le, Rinv_0_lt_compat; exact Hd]|].
    apply Rmult_le_reg_r with (IZR (Z.of_nat (S k))); [exact Hd|].
    unfold Rdiv. rewrite Rmult_assoc, Rinv_l by lra. lra. }
  split.
  - apply frel_div; [exact R1 | apply frel_ofZ; lia | lra |].
    apply fits64_small. rewrite Rabs_pos_eq; lra.
  - split; [apply rnd64_nonneg; lra | rewrite <- rnd64_one; apply rnd64_mono; lra].
Qed.

(* ---------- pdf_minmax: comparisons only ---------- *)
Definition stepF (st : pfloat * pfloat) (v : pfloat) : pfloat * pfloat :=
  let '(mn, mx) := st in (if PrimFloat.ltb v mn then v else mn, if PrimFloat.ltb mx v then v else mx).
Definition stepR (st : R * R) (v : R) : R * R :=
  let '(mn, mx) := st in (if Rltb v mn then v else mn, if Rltb mx v then v else mx).

Lemma minmax_fold_refines (l : list pfloat) :
  Forall (fun v => ffin v = true) l ->
  forall a b, ffin a = true -> ffin b = true ->
    ffin (fst (fold_left stepF l (a, b))) = true /\ ffin (snd (fold_left stepF l (a, b))) = true /\
    fold_left stepR (map f2r l) (f2r a, f2r b)
    = (f2r (fst (fold_left stepF l (a, b))), f2r (snd (fold_left stepF l (a, b)))).
Proof.
  induction 1 as [|v l Fv Hl IH]; intros a b Fa Fb.
  - cbn [fold_left map fst snd]. auto.
  - cbn [fold_left map stepF stepR].
    rewrite <- (f2r_ltb v a Fv Fa), <- (f2r_ltb b v Fb Fv).
    destruct (PrimFloat.ltb v a), (PrimFloat.ltb b v); apply IH; assumption.
Qed.

Lemma pdf_minmax_refines (fmax : pfloat) (l : list pfloat) :
  ffin fmax = true -> Forall (fun v => ffin v = true) l ->
  ffin (fst (pdf_minmax FOps fmax l)) = true /\ ffin (snd (pdf_minmax FOps fmax l)) = true /\
  pdf_minmax (RndOps rnd64) (f2r fmax) (map f2r l)
  = (f2r (fst (pdf_minmax FOps fmax l)), f2r (snd (pdf_minmax FOps fmax l))).
Proof.
  intros Ff Hl.
  assert (Hb : frel (float_ofZ 0 - fmax)%float (rnd64 (0 - f2r fmax))).
  { apply frel_sub; [apply frel_ofZ; lia | apply frel_self; exact Ff |].
    apply fits64_le_format with (f2r fmax); [apply f2r_format | apply f2r_lt_overflow|].
    rewrite Rminus_0_l, Rabs_Ropp. apply Rle_refl. }
  destruct Hb as [Fb Eb].
  destruct (minmax_fold_refines l Hl fmax (float_ofZ 0 - fmax)%float Ff Fb) as (M1 & M2 & M3).
  rewrite Eb in M3.
  split; [exact M1|]. split; [exact M2|]. exact M3.
Qed.

(* ---------- the density map ---------- *)
Lemma dens_refines (mn mx v : pfloat) :
  ffin mn = true -> ffin mx = true -> ffin v = true ->
  0 <= f2r mn -> f2r mn <= f2r v <= f2r mx -> f2r mx <= 1 -> f2r mn <> f2r mx ->
  let d := (float_ofZ 999 * (v - mn) / (mx - mn) + float_ofZ 1)%float in
  frel d (dmap rnd64 (f2r mn) (f2r mx) (f2r v)) /\
  frel (d - float_ofZ 1)%float (cmap rnd64 (dmap rnd64 (f2r mn) (f2r mx) (f2r v))) /\
  0 <= dmap rnd64 (f2r mn) (f2r mx) (f2r v) <= 1999.
Proof.
  intros Fmn Fmx Fv H0 Hv H1 Hne. cbv zeta. unfold dmap, amap, cmap.
  set (a := f2r mn) in *. set (b := f2r mx) in *. set (t := f2r v) in *.
  assert (Fa : rnd64 a = a) by apply f2r_format.
  assert (Fb : rnd64 b = b) by apply f2r_format.
  (* v - mn *)
  assert (R1 : frel (v - mn)%float (rnd64 (t - a))).
  { apply frel_sub; [apply frel_self; exact Fv | apply frel_self; exact Fmn|].
    apply fits64_small. rewrite Rabs_pos_eq; lra. }
  (* mx - mn *)
  assert (R2 : frel (mx - mn)%float (rnd64 (b - a))).
  { apply frel_sub; [apply frel_self; exact Fmx | apply frel_self; exact Fmn|].
    apply fits64_small. rewrite Rabs_pos_eq; lra. }
  assert (HD : 0 < rnd64 (b - a)) by (apply rnd64_sub_pos; [exact Fb | exact Fa | lra]).
  assert (HA : 0 <= rnd64 (t - a) <= rnd64 (b - a)).
  { split; [apply rnd64_nonneg; lra | apply rnd64_mono; lra]. }
  assert (HD1 : rnd64 (b - a) <= 1) by (rewrite <- rnd64_one; apply rnd64_mono; lra).
  set (A := rnd64 (t - a)) in *. set (D := rnd64 (b - a)) in *.
  (* 999 * (v - mn) *)
  assert (R3 : frel (float_ofZ 999 * (v - mn))%float (rnd64 (999 * A))).
  { apply frel_mul; [apply frel_ofZ; lia | exact R1|]. apply fits64_small. rewrite Rabs_pos_eq; lra. }
  assert (HB : 0 <= rnd64 (999 * A) <= 1998 * D).
  { split; [apply rnd64_nonneg; lra|]. pose proof (rnd64_le_double (999 * A) ltac:(lra)). lra. }
  set (B := rnd64 (999 * A)) in *.
  (* / (mx - mn) *)
  assert (HQ : 0 <= B / D <= 1998).
  { assert (E : B / D * D = B) by (field; lra).
    assert (P : 0 <= B / D) by (apply Rmult_le_pos; [lra | apply Rlt_le, Rinv_0_lt_compat; lra]).
    split; [exact P|]. apply Rmult_le_reg_r with D; [exact HD | lra]. }
  assert (R4 : frel (float_ofZ 999 * (v - mn) / (mx - mn))%float (rnd64 (B / D))).
  { apply frel_div; [exact R3 | exact R2 | lra |]. apply fits64_small. rewrite Rabs_pos_eq; lra. }
  assert (HQ' : 0 <= rnd64 (B / D) <= 1998).
  { split; [apply rnd64_nonneg; lra | apply (rnd64_le_int _ 1998); [lia | lra]]. }
  set (Q := rnd64 (B / D)) in *.
  (* + 1 *)
  assert (R5 : frel (float_ofZ 999 * (v - mn) / (mx - mn) + float_ofZ 1)%float (rnd64 (Q + 1))).
  { apply frel_add; [exact R4 | apply frel_ofZ; lia |]. apply fits64_small. rewrite Rabs_pos_eq; lra. }
  assert (HE : 0 <= rnd64 (Q + 1) <= 1999).
  { split; [apply rnd64_nonneg; lra | apply (rnd64_le_int _ 1999); [lia | lra]]. }
  split; [exact R5|]. split; [|exact HE].
  apply frel_sub; [exact R5 | apply frel_ofZ; lia |]. apply fits64_small.
  apply Rabs_le. lra.
Qed.

Definition pairfin (p : pfloat * pfloat) : Prop := ffin (fst p) = true /\ ffin (snd p) = true.
Definition pair2r (p : pfloat * pfloat) : R * R := (f2r (fst p), f2r (snd p)).

Lemma pdf_scale_refines (mn mx : pfloat) (l : list pfloat) :
  ffin mn = true -> ffin mx = true -> 0 <= f2r mn -> f2r mx <= 1 ->
  Forall (fun v => ffin v = true /\ f2r mn <= f2r v <= f2r mx) l ->
  Forall pairfin (pdf_scale FOps 1000 mn mx l) /\
  map pair2r (pdf_scale FOps 1000 mn mx l) = pdf_scale (RndOps rnd64) 1000 (f2r mn) (f2r mx) (map f2r l).
Proof.
  intros Fmn Fmx H0 H1 Hl.
  rewrite pdf_scale_RndOps. unfold pdf_scale. cbn [neqb nadd nsub nmul ndiv nofZ FOps].
  rewrite (f2r_eqb mn mx Fmn Fmx).
  destruct (Reqb (f2r mn) (f2r mx)) eqn:E.
  - change (1000 - 1)%Z with 999%Z.
    destruct (frel_ofZ 1000 ltac:(lia)) as [F1 E1]. destruct (frel_ofZ 999 ltac:(lia)) as [F2 E2].
    split.
    + apply Forall_forall. intros p Hp. apply in_map_iff in Hp. destruct Hp as [v [<- _]]. split; assumption.
    + rewrite !map_map. apply map_ext. intros v. unfold pair2r. cbn [fst snd]. now rewrite E1, E2.
  - assert (Hne : f2r mn <> f2r mx).
    { intros Heq. unfold Reqb in E. destruct (Req_EM_T (f2r mn) (f2r mx)); [discriminate | contradiction]. }
    change (1000 - 1)%Z with 999%Z.
    split.
    + apply Forall_forall. intros p Hp. apply in_map_iff in Hp. destruct Hp as [v [<- Hv]].
      rewrite Forall_forall in Hl. destruct (Hl v Hv) as [Fv Bv].
      destruct (dens_refines mn mx v Fmn Fmx Fv H0 Bv H1 Hne) as ([D1 _] & [D2 _] & _).
      split; [exact D1 | exact D2].
    + rewrite !map_map. apply map_ext_in. intros v Hv.
      rewrite Forall_forall in Hl. destruct (Hl v Hv) as [Fv Bv].
      destruct (dens_refines mn mx v Fmn Fmx Fv H0 Bv H1 Hne) as ([_ D1] & [_ D2] & _).
      unfold pair2r. cbn [fst snd]. now rewrite D1, D2.
Qed.

(* ---------- pdf_constant ---------- *)
Lemma pdf_constant_refines (gdens : pfloat) :
  ffin gdens = true -> fits64 (2 * f2r gdens) ->
  frel (pdf_constant FOps gdens) (pdf_constant (RndOps rnd64) (f2r gdens)).
Proof.
  intros Fg Hfit. rewrite pdf_constant_RndOps. unfold pdf_constant. cbn [nmul ndiv nofZ FOps].
  assert (R1 : frel (float_ofZ 2 * gdens)%float (rnd64 (2 * f2r gdens))).
  { apply frel_mul; [apply frel_ofZ; lia | apply frel_self; exact Fg | exact Hfit]. }
  apply frel_div; [exact R1 | apply frel_ofZ; lia | lra |].
  destruct (frel_format _ _ R1) as [F B].
  apply fits64_le_format with (rnd64 (2 * f2r gdens)); [exact F | exact B |].
  unfold Rdiv. rewrite Rabs_mult. rewrite (Rabs_pos_eq (/ 9)) by lra.
  pose proof (Rabs_pos (rnd64 (2 * f2r gdens))). nra.
Qed.

(* ---------- calculate_pdf ---------- *)
Theorem calculate_pdf_refines (fmax gdens : pfloat) (n k : nat) (e : nat -> nat -> pfloat)
    (c mn mx : pfloat) (dc : list (pfloat * pfloat)) :
  ffin fmax = true -> 1 <= f2r fmax ->
  ffin gdens = true -> fits64 (2 * f2r gdens) ->
  (Z.of_nat (S k) <= 2 ^ 53)%Z ->
  (forall i l, (i < n)%nat -> (l < k)%nat -> ffin (e i l) = true /\ 0 <= f2r (e i l) <= 1) ->
  calculate_pdf FOps fmax 1000 n k gdens e = (c, mn, mx, dc) ->
  ffin c = true /\ ffin mn = true /\ ffin mx = true /\ Forall pairfin dc /\
  calculate_pdf (RndOps rnd64) (f2r fmax) 1000 n k (f2r gdens) (fun i l => f2r (e i l))
  = (f2r c, f2r mn, f2r mx, map pair2r dc).
Proof.
  intros Ff Hf1 Fg Hg Hk He H.
  unfold calculate_pdf in H |- *.
  set (pdfF := map (fun i => pdf_value FOps k (e i)) (seq 0 n)) in *.
  set (pdfR := map (fun i => pdf_value (RndOps rnd64) k (fun l => f2r (e i l))) (seq 0 n)).
  (* the list of unmapped values *)
  assert (HP : Forall (fun v => ffin v = true /\ 0 <= f2r v <= 1) pdfF /\ map f2r pdfF = pdfR).
  { unfold pdfF, pdfR. split.
    - apply Forall_forall. intros v Hv. apply in_map_iff in Hv. destruct Hv as [i [<- Hi]]. apply in_seq in Hi.
      destruct (pdf_value_refines k (e i) Hk (fun l Hl => He i l ltac:(lia) Hl)) as [[F E] B].
      split; [exact F | rewrite E; exact B].
    - rewrite map_map. apply map_ext_in. intros i Hi. apply in_seq in Hi.
      destruct (pdf_value_refines k (e i) Hk (fun l Hl => He i l ltac:(lia) Hl)) as [[F E] B]. exact E. }
  destruct HP as [HP1 HP2].
  assert (HPf : Forall (fun v => ffin v = true) pdfF).
  { apply Forall_impl with (2 := HP1). intros v [F _]. exact F. }
  destruct (pdf_minmax_refines fmax pdfF Ff HPf) as (M1 & M2 & M3).
  rewrite HP2 in M3.
  destruct (pdf_minmax FOps fmax pdfF) as [mn0 mx0] eqn:EM. cbn [fst snd] in M1, M2, M3.
  inversion H; subst c mn0 mx0 dc; clear H.
  change (map (fun i => pdf_value (RndOps rnd64) k (fun l => f2r (e i l))) (seq 0 n)) with pdfR.
  rewrite M3.
  destruct (pdf_constant_refines gdens Fg Hg) as [C1 C2].
  split; [exact C1|]. split; [exact M1|]. split; [exact M2|].
  (* range of min / max *)
  assert (HS : Forall pairfin (pdf_scale FOps 1000 mn mx pdfF) /\
               map pair2r (pdf_scale FOps 1000 mn mx pdfF)
               = pdf_scale (RndOps rnd64) 1000 (f2r mn) (f2r mx) pdfR).
  { destruct pdfF as [|v0 pdfF'] eqn:EP.
    - cbn [map] in HP2. rewrite <- HP2. unfold pdf_scale. destruct (neqb FOps mn mx), (neqb (RndOps rnd64) (f2r mn) (f2r mx));
        cbn [map]; split; constructor.
    - rewrite pdf_minmax_RndOps in M3.
      pose proof (pdf_minmax_gen pdfR 0 _ _ _ _ M3) as [[G1 [G2 G3]] [G4 [G5 G6]]].
      assert (HR : forall r, In r pdfR -> 0 <= r <= 1).
      { intros r Hr. rewrite <- HP2 in Hr. apply in_map_iff in Hr. destruct Hr as [v [<- Hv]].
        rewrite Forall_forall in HP1. exact (proj2 (HP1 v Hv)). }
      assert (Hin0 : In (f2r v0) pdfR) by (rewrite <- HP2; left; reflexivity).
      assert (B0 : 0 <= f2r mn).
      { destruct G3 as [G3|G3]; [lra | exact (proj1 (HR _ G3))]. }
      assert (B1 : f2r mx <= 1).
      { destruct G6 as [G6|G6]; [|exact (proj2 (HR _ G6))].
        pose proof (G5 _ Hin0). pose proof (HR _ Hin0).
        assert (rnd64 (0 - f2r fmax) <= 0) by (apply rnd64_nonpos; lra). lra. }
      rewrite <- HP2. apply pdf_scale_refines; [exact M1 | exact M2 | exact B0 | exact B1 |].
      apply Forall_forall. intros v Hv. rewrite Forall_forall in HP1. split; [exact (proj1 (HP1 v Hv))|].
      assert (Hin : In (f2r v) pdfR) by (rewrite <- HP2; apply in_map; exact Hv).
      split; [exact (G2 _ Hin) | exact (G5 _ Hin)]. }
  destruct HS as [S1 S2].
  split; [exact S1|]. rewrite S2. apply f_equal2; [|reflexivity]. apply f_equal2; [|reflexivity].
  apply f_equal2; [|reflexivity]. symmetry. exact C2.
Qed.

(* eliminate_maxima_height on floats: for finite h and finite densities in [0, 1999] *)
Lemma eliminate_refines (h : pfloat) (dens cost : list pfloat) :
  ffin h = true ->
  Forall (fun d => ffin d = true) dens ->
  (forall d, In d dens -> fits64 (f2r d - f2r h)) ->
  Forall (fun d => ffin d = true) cost ->
  Forall (fun d => ffin d = true) (eliminate_maxima FOps h dens cost) /\
  map f2r (eliminate_maxima FOps h dens cost)
  = eliminate_maxima (RndOps rnd64) (f2r h) (map f2r dens) (map f2r cost).
Proof.
  intros Fh Hd Hfit Hc. unfold eliminate_maxima. cbn [nltb nsub nofZ FOps RndOps].
  destruct (frel_ofZ 0 ltac:(lia)) as [F0 E0].
  rewrite (f2r_ltb (float_ofZ 0) h F0 Fh), E0.
  destruct (Rltb 0 (f2r h)); [|split; [exact Hc | reflexivity]].
  split.
  - apply Forall_forall. intros x Hx. apply in_map_iff in Hx. destruct Hx as [d [<- Hin]].
    rewrite Forall_forall in Hd.
    destruct (f2r_sub d h (Hd d Hin) Fh (Hfit d Hin)) as [Fs _].
    destruct (PrimFloat.ltb (d - h) (float_ofZ 0)); assumption.
  - rewrite !map_map. apply map_ext_in. intros d Hin. rewrite Forall_forall in Hd.
    destruct (f2r_sub d h (Hd d Hin) Fh (Hfit d Hin)) as [Fs Es].
    rewrite (f2r_ltb _ _ Fs F0), E0, Es.
    destruct (Rltb (rnd64 (f2r d - f2r h)) 0); [exact E0 | exact Es].
Qed.

(* ---------- query_density (both KNN predicts): mean over k, divisor (max - min) + EPSILON ---------- *)
Lemma fits64_le_bpow t (ex : Z) : (-1074 <= ex <= 1023)%Z -> Rabs t <= bpow radix2 ex -> fits64 t /\ Rabs (rnd64 t) <= bpow radix2 ex.
Proof.
  intros He H.
  assert (B : Rabs (rnd64 t) <= bpow radix2 ex).
  { unfold rnd64. apply abs_round_le_generic; auto with typeclass_instances.
    apply generic_format_bpow. unfold FLT_exp. lia. }
  split; [|exact B]. unfold fits64. apply Rle_lt_trans with (1 := B). apply bpow_lt. lia.
Qed.

Lemma mean_refines (k : nat) (d : Z) (e : nat -> pfloat) :
  (1 <= d)%Z -> (Z.of_nat k <= d)%Z -> (d <= 2 ^ 53)%Z ->
  (forall l, (l < k)%nat -> unit_term (e l)) ->
  frel (fsum FOps (map e (seq 0 k)) / float_ofZ d)%float
       (rnd64 (PdfRndBase.rsum rnd64 (map (fun l => f2r (e l)) (seq 0 k)) / IZR d)) /\
  0 <= rnd64 (PdfRndBase.rsum rnd64 (map (fun l => f2r (e l)) (seq 0 k)) / IZR d) <= 1.
Proof.
  intros Hd1 Hkd Hd He. unfold PdfRndBase.rsum, fsum. cbn [nadd nofZ FOps].
  destruct (fsum_refines (map e (seq 0 k)) (Forall_map_seq unit_term e k He) (float_ofZ 0) 0 0
              (frel_ofZ 0 ltac:(lia)) ltac:(lia) ltac:(lra)
              ltac:(rewrite map_length, seq_length; lia)) as [R1 R2].
  rewrite map_map in R1, R2. rewrite map_length, seq_length, Z.add_0_l in R2.
  set (s := fold_left (fun s t => rnd64 (s + t)) (map (fun l => f2r (e l)) (seq 0 k)) 0) in *.
  assert (Hdp : 0 < IZR d) by (apply IZR_lt; lia).
  assert (Hq : 0 <= s / IZR d <= 1).
  { assert (Hle : s <= IZR d) by (apply Rle_trans with (1 := proj2 R2); apply IZR_le; lia).
    split; [apply Rmult_le_pos; [lra | apply Rlt_le, Rinv_0_lt_compat; exact Hdp]|].
    apply Rmult_le_reg_r with (IZR d); [exact Hdp|].
    unfold Rdiv. rewrite Rmult_assoc, Rinv_l by lra. lra. }
  split.
  - apply frel_div; [exact R1 | apply frel_ofZ; lia | lra |].
    apply fits64_small. rewrite Rabs_pos_eq; lra.
  - split; [apply rnd64_nonneg; lra | rewrite <- rnd64_one; apply rnd64_mono; lra].
Qed.

Lemma rnd64_abs_le_int t z : (0 <= z <= 2 ^ 53)%Z -> Rabs t <= IZR z -> Rabs (rnd64 t) <= IZR z.
Proof.
  intros Hz H. apply Rabs_le_inv in H. apply Rabs_le. split.
  - rewrite <- opp_IZR, <- (rnd64_int (- z)) by lia. apply rnd64_mono. rewrite opp_IZR. lra.
  - apply rnd64_le_int; [lia | lra].
Qed.

Theorem query_density_refines (eps mn mx : pfloat) (k : nat) (e : nat -> pfloat) :
  (1 <= k)%nat -> (Z.of_nat k <= 2 ^ 53)%Z ->
  (forall l, (l < k)%nat -> ffin (e l) = true /\ 0 <= f2r (e l) <= 1) ->
  ffin mn = true -> ffin mx = true -> ffin eps = true ->
  0 <= f2r mn -> f2r mn <= f2r mx -> f2r mx <= 1 ->
  / 2 ^ 1000 <= f2r eps <= 1 ->
  frel (query_density FOps 1000 eps mn mx k e)
       (query_density (RndOps rnd64) 1000 (f2r eps) (f2r mn) (f2r mx) k (fun l => f2r (e l))).
Proof.
  intros Hk1 Hk He Fmn Fmx Feps H0 Hmm H1 Heps.
  rewrite query_density_RndOps. unfold qmap, amap, qmean.
  unfold query_density. cbn [nadd nsub nmul ndiv nofZ FOps]. change (1000 - 1)%Z with 999%Z.
  destruct (mean_refines k (Z.of_nat k) e ltac:(lia) ltac:(lia) Hk He) as [Rs Bs].
  set (s := rnd64 (PdfRndBase.rsum rnd64 (map (fun l => f2r (e l)) (seq 0 k)) / IZR (Z.of_nat k))) in *.
  set (a := f2r mn) in *. set (b := f2r mx) in *. set (ep := f2r eps) in *.
  rewrite <- bpow2_neg_nat in Heps. change (- Z.of_nat 1000)%Z with (-1000)%Z in Heps.
  assert (Pe : 0 < bpow radix2 (-1000)) by apply bpow_gt_0.
  (* s - mn *)
  assert (R1 : frel (fsum FOps (map e (seq 0 k)) / float_ofZ (Z.of_nat k) - mn)%float (rnd64 (s - a))).
  { apply frel_sub; [exact Rs | apply frel_self; exact Fmn |]. apply fits64_small. apply Rabs_le. lra. }
  assert (HA : Rabs (rnd64 (s - a)) <= 1).
  { apply (rnd64_abs_le_int _ 1); [lia|]. apply Rabs_le. lra. }
  set (A := rnd64 (s - a)) in *.
  (* 999 * . *)
  assert (HA999 : Rabs (999 * A) <= 999).
  { rewrite Rabs_mult, (Rabs_pos_eq 999) by lra. pose proof (Rabs_pos A). nra. }
  assert (R2 : frel (float_ofZ 999 * (fsum FOps (map e (seq 0 k)) / float_ofZ (Z.of_nat k) - mn))%float
                    (rnd64 (999 * A))).
  { apply frel_mul; [apply frel_ofZ; lia | exact R1 |]. apply fits64_small. lra. }
  assert (HB : Rabs (rnd64 (999 * A)) <= 999) by (apply (rnd64_abs_le_int _ 999); [lia | exact HA999]).
  set (B := rnd64 (999 * A)) in *.
  (* mx - mn, + eps *)
  assert (R3 : frel (mx - mn)%float (rnd64 (b - a))).
  { apply frel_sub; [apply frel_self; exact Fmx | apply frel_self; exact Fmn |].
    apply fits64_small. rewrite Rabs_pos_eq; lra. }
  assert (HD : 0 <= rnd64 (b - a) <= 1).
  { split; [apply rnd64_nonneg; lra | rewrite <- rnd64_one; apply rnd64_mono; lra]. }
  set (D := rnd64 (b - a)) in *.
  assert (R4 : frel (mx - mn + eps)%float (rnd64 (D + ep))).
  { apply frel_add; [exact R3 | apply frel_self; exact Feps |]. apply fits64_small. rewrite Rabs_pos_eq; lra. }
  assert (HE : ep <= rnd64 (D + ep) <= 2).
  { split; [|apply (rnd64_le_int _ 2); [lia | lra]].
    replace ep with (rnd64 ep) at 1 by apply f2r_format. apply rnd64_mono. lra. }
  set (E := rnd64 (D + ep)) in *.
  assert (PE : 0 < E) by lra.
  (* the quotient *)
  assert (HQ : Rabs (B / E) <= bpow radix2 1010).
  { unfold Rdiv. rewrite Rabs_mult, (Rabs_pos_eq (/ E)) by (apply Rlt_le, Rinv_0_lt_compat; exact PE).
    assert (I1 : / E <= bpow radix2 1000).
    { change 1000%Z with (- (-1000))%Z. rewrite bpow_opp. apply Rinv_le_contravar; lra. }
    assert (I0 : 0 < / E) by (apply Rinv_0_lt_compat; exact PE).
    replace (bpow radix2 1010) with (bpow radix2 10 * bpow radix2 1000) by (rewrite <- bpow_plus; reflexivity).
    change (bpow radix2 10) with 1024. pose proof (Rabs_pos B). nra. }
  destruct (fits64_le_bpow (B / E) 1010 ltac:(lia) HQ) as [FQ BQ].
  assert (R5 : frel (float_ofZ 999 * (fsum FOps (map e (seq 0 k)) / float_ofZ (Z.of_nat k) - mn)
                     / (mx - mn + eps))%float (rnd64 (B / E))).
  { apply frel_div; [exact R2 | exact R4 | lra | exact FQ]. }
  set (Q := rnd64 (B / E)) in *.
  (* + 1 *)
  apply frel_add; [exact R5 | apply frel_ofZ; lia |].
  apply (fits64_le_bpow (Q + 1) 1011 ltac:(lia)).
  replace (bpow radix2 1011) with (bpow radix2 1010 + bpow radix2 1010)
    by (change 1011%Z with (1010 + 1)%Z; rewrite bpow_plus; change (bpow radix2 1) with 2; ring).
  assert (1 <= bpow radix2 1010) by (change 1 with (bpow radix2 0); apply bpow_le; lia).
  apply Rle_trans with (1 := Rabs_triang Q 1). rewrite (Rabs_pos_eq 1) by lra. lra.
Qed.
