(* C08 at the code level, bhattacharyya.  The closed-form axioms need unit sums; the code is decorated with
   avoid_zero_division, so what must sum to 1 is the SHIFTED vector.  For genuine probability vectors
   (sum x = 1) the shifted sum is 1 + n * EPSILON and, in exact real arithmetic,
       bhattacharyya(x, x) = - ln (1 + n * EPSILON)  <  0,
   i.e. non-negativity and zero self-distance hold only up to n * 1e-20 ([code_nonneg_bhattacharyya_prob_refuted],
   [code_self_bhattacharyya_prob_bounds], [code_nonneg_bhattacharyya_prob_eps]). *)
From Coq Require Import Reals List Lra.
From OPF Require Import Spec.MetricSpec Gen.Metrics_gen Model.MetricEval Proofs.IRLemmas Proofs.ClosedForms
     Proofs.MetricAxioms Proofs.CodeAxiomsBase.
Import ListNotations.
Open Scope R_scope.

(* ----- the axioms under the hypothesis that the shifted vectors are normalised ----- *)
Lemma code_nonneg_bhattacharyya : forall x y : list R, length x = length y -> (1 <= length x)%nat ->
  all_nonneg x -> all_nonneg y -> sum (shift x) = 1 -> sum (shift y) = 1 ->
  0 <= metric_value ir_bhattacharyya x y.
Proof. ca_transfer closed_form_bhattacharyya nonneg_bhattacharyya. Qed.

Lemma code_zero_self_bhattacharyya : forall x : list R, (1 <= length x)%nat -> all_nonneg x -> sum (shift x) = 1 ->
  metric_value ir_bhattacharyya x x = 0.
Proof. ca_transfer closed_form_bhattacharyya zero_self_bhattacharyya. Qed.

(* ----- genuine probability vectors ----- *)
(* Cauchy-Schwarz for the fidelity, without normalisation *)
Lemma fidelity_le_sqrt x y :
  length x = length y -> all_nonneg x -> all_nonneg y ->
  sum2 (fun a b => sqrt (a * b)) x y <= sqrt (sum x) * sqrt (sum y).
Proof.
  intros Hl Hx Hy.
  rewrite (sum2_ext_on _ _ _ (fun a b => sqrt a * sqrt b) _ _ Hx Hy)
    by (intros a b Ha Hb; now apply sqrt_mult).
  rewrite <- (sum2_map sqrt sqrt Rmult). fold (dot (map sqrt x) (map sqrt y)).
  assert (Hl' : length (map sqrt x) = length (map sqrt y)) by now rewrite !map_length.
  pose proof (cauchy_schwarz_sqrt _ _ Hl') as HCS.
  assert (D : forall z, all_nonneg z -> dot (map sqrt z) (map sqrt z) = sum z).
  { intros z Hz. unfold dot. rewrite sum2_map.
    apply (sum2_diag_id_on _ _ _ Hz). intros a Ha. now apply sqrt_sqrt. }
  rewrite (D x Hx), (D y Hy) in HCS. exact HCS.
Qed.

Lemma neps_pos (x : list R) : (1 <= length x)%nat -> 0 < INR (length x) * EPSILON.
Proof.
  intros Hn. apply Rmult_lt_0_compat; [|exact EPSILON_pos].
  apply lt_0_INR. exact Hn.
Qed.

Lemma ln_1p_bounds t : 0 < t -> 0 < ln (1 + t) <= t.
Proof.
  intros Ht. split.
  - rewrite <- ln_1. apply ln_increasing; lra.
  - pose proof (ln_le_sub1 (1 + t)). lra.
Qed.

Lemma code_self_bhattacharyya_prob : forall x : list R, (1 <= length x)%nat -> all_nonneg x -> sum x = 1 ->
  metric_value ir_bhattacharyya x x = - ln (1 + INR (length x) * EPSILON).
Proof.
  intros x Hn Hx Sx. rewrite (closed_form_bhattacharyya x x eq_refl). unfold sp_bhattacharyya.
  rewrite (sum2_diag_id_on _ _ _ (all_nonneg_shift_nonneg x Hx)) by (intros a Ha; now apply sqrt_square).
  now rewrite (sum_shift_prob x Sx).
Qed.

Lemma code_self_bhattacharyya_prob_bounds : forall x : list R, (1 <= length x)%nat -> all_nonneg x -> sum x = 1 ->
  - (INR (length x) * EPSILON) <= metric_value ir_bhattacharyya x x < 0.
Proof.
  intros x Hn Hx Sx. rewrite (code_self_bhattacharyya_prob x Hn Hx Sx).
  pose proof (ln_1p_bounds _ (neps_pos x Hn)). lra.
Qed.

Lemma code_nonneg_bhattacharyya_prob : forall x y : list R, length x = length y -> (1 <= length x)%nat ->
  all_nonneg x -> all_nonneg y -> sum x = 1 -> sum y = 1 ->
  - ln (1 + INR (length x) * EPSILON) <= metric_value ir_bhattacharyya x y.
Proof.
  intros x y Hl Hn Hx Hy Sx Sy. rewrite (closed_form_bhattacharyya x y Hl). unfold sp_bhattacharyya.
  assert (Hl' : length (shift x) = length (shift y)) by (rewrite !shift_length; exact Hl).
  pose proof (fidelity_le_sqrt _ _ Hl' (all_nonneg_shift_nonneg x Hx) (all_nonneg_shift_nonneg y Hy)) as H.
  rewrite (sum_shift_prob x Sx), (sum_shift_prob y Sy), <- Hl in H.
  pose proof (neps_pos x Hn) as Ht.
  set (t := INR (length x) * EPSILON) in *.
  rewrite sqrt_sqrt in H by lra.
  set (S := sum2 (fun a b => sqrt (a * b)) (shift x) (shift y)) in *.
  destruct (Rlt_dec 0 S) as [Hp|Hnp].
  - destruct H as [H|H].
    + pose proof (ln_increasing S (1 + t) Hp H). lra.
    + rewrite H. lra.
  - rewrite (ln_nonpos_arg S) by lra. pose proof (ln_1p_bounds t Ht). lra.
Qed.

Lemma code_nonneg_bhattacharyya_prob_eps : forall x y : list R, length x = length y -> (1 <= length x)%nat ->
  all_nonneg x -> all_nonneg y -> sum x = 1 -> sum y = 1 ->
  - (INR (length x) * EPSILON) <= metric_value ir_bhattacharyya x y.
Proof.
  intros x y Hl Hn Hx Hy Sx Sy.
  pose proof (code_nonneg_bhattacharyya_prob x y Hl Hn Hx Hy Sx Sy).
  pose proof (ln_1p_bounds _ (neps_pos x Hn)). lra.
Qed.

(* the axiom-table claims for bhattacharyya on exact probability vectors are therefore false of the code in exact
   real arithmetic (they hold of the closed form sp_bhattacharyya, Props/C08_basic.v) *)
Lemma code_nonneg_bhattacharyya_prob_refuted :
  exists x : list R, (1 <= length x)%nat /\ all_pos x /\ sum x = 1 /\ metric_value ir_bhattacharyya x x < 0.
Proof.
  exists [1]. assert (Hp : all_pos [1]) by (repeat constructor; lra).
  assert (Hs : sum [1] = 1) by (cbn; lra).
  repeat split; [cbn; auto | exact Hp | exact Hs |].
  apply (code_self_bhattacharyya_prob_bounds [1]); [cbn; auto | now apply all_pos_nonneg | exact Hs].
Qed.
