(* Non-vacuity: a concrete 3-node, k = 2 instance of the density estimation over R. *)
From Coq Require Import Reals List ZArith Bool Lia Lra.
From OPF Require Import Base.Lists Base.NumOps Model.Pdf Proofs.PdfBase Proofs.PdfReal.
Import ListNotations.
Local Open Scope R_scope.

(* exp-terms of node i towards its neighbour of rank l *)
Definition ex_e (i l : nat) : R :=
  match i, l with
  | 0%nat, 0%nat => 1 / 2 | 0%nat, _ => 1 / 4
  | 1%nat, 0%nat => 1     | 1%nat, _ => 1 / 2
  | _, 0%nat => 3 / 4     | _, _ => 3 / 8
  end.

(* decide every [Rltb]/[Reqb] on closed rational arguments *)
Ltac decide_cmp :=
  repeat match goal with
         | |- context [Rltb ?a ?b] =>
             first [ rewrite (proj2 (Rltb_true_iff a b)) by lra
                   | rewrite (proj2 (Rltb_false_iff a b)) by lra ]
         | |- context [Reqb ?a ?b] =>
             first [ rewrite (proj2 (Reqb_true_iff a b)) by lra
                   | rewrite (proj2 (Reqb_false_iff a b)) by lra ]
         end.

Ltac req := first [reflexivity | lra | field; lra].

Example ex_pdf_values :
  map (pdfR 2 ex_e) (seq 0 3) = [1 / 4; 1 / 2; 3 / 8].
Proof.
  cbn [seq map]. unfold pdfR. cbn [Rsum_upto ex_e Nat.add INR].
  repeat (apply f_equal2; [lra|]). reflexivity.
Qed.

(* the hypotheses of the theorems of PdfReal are satisfiable: FLOAT_MAX := 2 *)
Example ex_hypotheses :
  (1 <= 3)%nat /\ forall i, (i < 3)%nat -> - 2 <= pdfR 2 ex_e i <= 2.
Proof.
  split; [lia|]. intros i Hi.
  assert (Hc : i = 0%nat \/ i = 1%nat \/ i = 2%nat) by lia.
  destruct Hc as [E|[E|E]]; subst i; unfold pdfR; cbn [Rsum_upto ex_e Nat.add INR]; lra.
Qed.

Example ex_minmax : pdf_minmax ROps 2 [1 / 4; 1 / 2; 3 / 8] = (1 / 4, 1 / 2).
Proof.
  unfold pdf_minmax. cbn [fold_left]. rops. decide_cmp. reflexivity.
Qed.

(* constant 2 = 2*9/9, min 1/4, max 1/2, densities 1, 1000, 500.5, costs one less *)
Example ex_calculate_pdf :
  calculate_pdf ROps 2 1000 3 2 9 ex_e =
  (2, 1 / 4, 1 / 2, [(1, 0); (1000, 999); (1001 / 2, 999 / 2)]).
Proof.
  rewrite calculate_pdf_unfold. cbv zeta. rewrite ex_pdf_values, ex_minmax. cbn [fst snd].
  unfold pdf_scale. rops. decide_cmp. cbn [map]. change (IZR (1000 - 1)) with 999.
  apply f_equal2; [apply f_equal2; [apply f_equal2; [lra|reflexivity]|reflexivity]|].
  repeat (apply f_equal2; [apply f_equal2; req|]). reflexivity.
Qed.

(* the general theorems instantiated at the example (not merely true by computation) *)
Example ex_density_affine :
  forall i, (i < 3)%nat ->
    fst (nth i [(1, 0); (1000, 999); (1001 / 2, 999 / 2)] (0, 0)) =
      1 + (1000 - 1) * (pdfR 2 ex_e i - 1 / 4) / (1 / 2 - 1 / 4) /\
    snd (nth i [(1, 0); (1000, 999); (1001 / 2, 999 / 2)] (0, 0)) =
      fst (nth i [(1, 0); (1000, 999); (1001 / 2, 999 / 2)] (0, 0)) - 1.
Proof.
  intros i Hi.
  apply (density_affine 2 3 2 9 ex_e 2 (1 / 4) (1 / 2) _ ex_calculate_pdf i); [lra|exact Hi].
Qed.

(* all pdf values equal: every density is MAX_DENSITY, every cost MAX_DENSITY - 1 *)
Example ex_flat :
  calculate_pdf ROps 2 1000 3 2 9 (fun _ _ => 1 / 2) =
  (2, 1 / 3, 1 / 3, [(1000, 999); (1000, 999); (1000, 999)]).
Proof.
  rewrite calculate_pdf_unfold. cbv zeta.
  assert (E : map (pdfR 2 (fun _ _ => 1 / 2)) (seq 0 3) = [1 / 3; 1 / 3; 1 / 3]).
  { cbn [seq map]. unfold pdfR. cbn [Rsum_upto Nat.add INR].
    repeat (apply f_equal2; [lra|]). reflexivity. }
  rewrite E.
  assert (M : pdf_minmax ROps 2 [1 / 3; 1 / 3; 1 / 3] = (1 / 3, 1 / 3)).
  { unfold pdf_minmax. cbn [fold_left]. rops. decide_cmp. reflexivity. }
  rewrite M. cbn [fst snd]. unfold pdf_scale. rops. decide_cmp. cbn [map].
  change (IZR (1000 - 1)) with 999.
  apply f_equal2; [apply f_equal2; [apply f_equal2; [lra|reflexivity]|reflexivity]|].
  reflexivity.
Qed.

(* eliminate_maxima_height with h = 2 on the example's densities; and with h = 0, h = -1 *)
Example ex_eliminate :
  eliminate_maxima ROps 2 [1; 1000; 1001 / 2] [0; 999; 999 / 2] = [0; 998; 997 / 2].
Proof.
  rewrite eliminate_spec_pos by lra. cbn [map].
  rewrite (Rmax_right (1 - 2) 0) by lra.
  rewrite (Rmax_left (1000 - 2) 0) by lra.
  rewrite (Rmax_left (1001 / 2 - 2) 0) by lra.
  repeat (apply f_equal2; [lra|]). reflexivity.
Qed.

Example ex_eliminate_zero :
  eliminate_maxima ROps 0 [1; 1000; 1001 / 2] [0; 999; 999 / 2] = [0; 999; 999 / 2] /\
  eliminate_maxima ROps (-1) [1; 1000; 1001 / 2] [0; 999; 999 / 2] = [0; 999; 999 / 2].
Proof. split; apply eliminate_spec_nonpos; lra. Qed.

(* a query with exp-terms 1/2 and 1/4 (mean 3/8) against the fitted range [1/4, 1/2],
   EPSILON := 1/4 *)
Example ex_query_density :
  query_density ROps 1000 (1 / 4) (1 / 4) (1 / 2) 2 (ex_e 0) = 1003 / 4.
Proof.
  rewrite query_density_spec. cbn [Rsum_upto ex_e INR]. field.
Qed.

Example ex_query_in_range :
  1 <= query_density ROps 1000 (1 / 4) (1 / 4) (1 / 2) 2 (ex_e 0) < 1000.
Proof.
  apply (query_density_props (1 / 4) (1 / 4) (1 / 2) 2 (ex_e 0) (ex_e 0)); try lra.
  cbn [Rsum_upto ex_e INR]. lra.
Qed.
