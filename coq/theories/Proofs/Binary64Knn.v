(* The density kernels and the final KNN training stage under rounded arithmetic (Props/C12_rounding.v,
   C13_rounding.v, C14_rounding.v) instantiated at [RndOps rnd64x]: every hypothesis on the rounding function
   is discharged by Proofs/Binary64.v, the statements keep hypotheses on the data only. *)
From Coq Require Import Reals List Arith Bool ZArith Lia Lra Permutation.
From Flocq Require Import Core.
From OPF Require Import Base.Lists Base.NumOps Base.NumOpsRnd Base.TotalOrder Model.Heap Model.Knn Model.Pdf
  Model.KnnFit Model.KnnPredict Model.MetricRnd Spec.Paths Spec.Trees Proofs.PdfBase Proofs.PdfExample
  Proofs.KnnPipelineExample
  Proofs.PdfRndBase Proofs.PdfRnd Proofs.PdfRndQuery Proofs.PdfRndExample Proofs.PdfRndPipeline
  Proofs.PdfRndPipelineExample Model.Binary64 Proofs.Binary64.
Import ListNotations.
Local Open Scope R_scope.

Local Instance prec53 : Prec_gt_0 53 := eq_refl.

(* the hypotheses on the rounding function used anywhere in C12/C13/C14_rounding.v *)
Lemma rnd64x_ints_7993 z : (0 <= z <= 7993)%Z -> rnd64x (IZR z) = IZR z.
Proof. intros H. apply rnd64x_int. lia. Qed.

Lemma rnd64x_ints_nat (k : nat) : (Z.of_nat k <= 2 ^ 53)%Z -> forall z, (0 <= z <= Z.of_nat k)%Z -> rnd64x (IZR z) = IZR z.
Proof. intros Hk z Hz. apply rnd64x_int. lia. Qed.

Lemma rnd64x_gap t : 1 <= t <= 7994 -> rnd64x t = t -> rnd64x (t - 1) < t.
Proof.
  intros Ht. apply (gap_of_integers rnd64x 7993 rnd64x_rounding); [exact rnd64x_ints_7993 | lra].
Qed.

Lemma rnd64x_pipeline_hyps :
  rounding rnd64x /\ rnd64x 1 = 1 /\ rnd_idem rnd64x /\ (forall x, 0 <= x -> rnd64x x <= 2 * x) /\
  (forall t, 1 <= t <= 7994 -> rnd64x t = t -> rnd64x (t - 1) < t).
Proof.
  exact (conj rnd64x_rounding (conj rnd64x_one (conj rnd64x_idem (conj rnd64x_le_double rnd64x_gap)))).
Qed.

(* representable dyadic numbers, for computed examples *)
Lemma rnd64x_dyadic z (n : nat) : (Z.abs z <= 2 ^ 53)%Z -> rnd64x (IZR z / 2 ^ n) = IZR z / 2 ^ n.
Proof.
  intros H. unfold Rdiv. rewrite <- bpow2_neg_nat, Rmult_comm, rnd64x_scale, rnd64x_int by exact H. reflexivity.
Qed.

(* ---------------- C12 ---------------- *)
Lemma b64_pdf_value_bounds (k : nat) (e e' : nat -> R) :
  ((forall l, (l < k)%nat -> 0 <= e l) -> 0 <= pdf_value (RndOps rnd64x) k e) /\
  ((forall l, (l < k)%nat -> e l <= e' l) -> pdf_value (RndOps rnd64x) k e <= pdf_value (RndOps rnd64x) k e') /\
  ((Z.of_nat k <= 2 ^ 53)%Z -> (forall l, (l < k)%nat -> e l <= 1) -> pdf_value (RndOps rnd64x) k e <= 1).
Proof.
  split; [exact (pdfv_nonneg rnd64x rnd64x_rounding k e)|].
  split; [exact (pdfv_mono rnd64x rnd64x_rounding k e e')|].
  intros Hk. exact (pdfv_le_1 rnd64x rnd64x_rounding k e rnd64x_one (rnd64x_ints_nat k Hk)).
Qed.

Lemma b64_calculate_pdf (fmax : R) (n k : nat) (gdens : R) (e : nat -> nat -> R)
    (c mn mx : R) (dc : list (R * R)) :
  (1 <= n)%nat ->
  calculate_pdf (RndOps rnd64x) fmax 1000 n k gdens e = (c, mn, mx, dc) ->
  let p := fun i => pdf_value (RndOps rnd64x) k (e i) in
  let dens := fun i => fst (nth i dc (0, 0)) in
  let cost := fun i => snd (nth i dc (0, 0)) in
  c = rnd64x (rnd64x (2 * gdens) / 9) /\
  length dc = n /\
  (forall i, (i < n)%nat -> mn <= p i <= mx) /\ mn <= mx /\
  ((forall i, (i < n)%nat -> rnd64x (0 - fmax) <= p i <= fmax) ->
     (exists i, (i < n)%nat /\ mn = p i) /\ (exists i, (i < n)%nat /\ mx = p i) /\
     (mn = mx <-> forall i j, (i < n)%nat -> (j < n)%nat -> p i = p j)) /\
  (forall i, (forall l, (l < k)%nat -> 0 <= e i l) -> 0 <= p i) /\
  (mn <> mx -> forall i, (i < n)%nat ->
     dens i = rnd64x (rnd64x (rnd64x (999 * rnd64x (p i - mn)) / rnd64x (mx - mn)) + 1) /\
     cost i = rnd64x (dens i - 1) /\ rnd64x (dens i) = dens i) /\
  (mn = mx -> forall i, (i < n)%nat -> dens i = 1000 /\ cost i = 999) /\
  (forall i j, (i < n)%nat -> (j < n)%nat ->
     (p i <= p j -> dens i <= dens j) /\ (p i = p j -> dens i = dens j) /\ (dens i < dens j -> p i < p j)) /\
  (forall i, (i < n)%nat -> p i = mx -> forall j, (j < n)%nat -> dens j <= dens i) /\
  (forall i, (i < n)%nat -> 1 <= dens i <= 7994 /\ 0 <= cost i < dens i) /\
  (mn <> mx -> forall i, (i < n)%nat -> p i = mn -> dens i = 1 /\ cost i = 0).
Proof.
  intros Hn H.
  pose proof (calculate_pdf_rnd_summary rnd64x fmax n k gdens e c mn mx dc rnd64x_rounding Hn H) as S.
  cbv zeta in S |- *.
  destruct S as (S1 & S2 & S3 & S4 & S5 & S6 & S7 & S8 & S9 & S10 & S11 & S12).
  destruct (S11 rnd64x_one) as [S11a S11b]. destruct (S12 rnd64x_idem) as [S12a S12b].
  split; [exact S1|]. split; [exact S2|]. split; [exact S3|]. split; [exact S4|]. split; [exact S5|].
  split; [exact S6|]. split.
  { intros Hne i Hi. destruct (S7 Hne i Hi) as [A B]. split; [exact A|]. split; [exact B|].
    exact (proj1 (S12b Hne i Hi)). }
  split; [exact S8|]. split; [exact S9|]. split; [exact S10|]. split; [|exact S11b].
  intros i Hi. destruct (S11a i Hi) as [A B]. split; [split; [exact A|]|split; [exact B|]].
  - exact (rnd_density_upper rnd64x rnd64x_rounding fmax n k gdens e c mn mx dc H i rnd64x_le_double Hi).
  - exact (rnd_cost_lt_density rnd64x rnd64x_rounding fmax n k gdens e c mn mx dc H i rnd64x_one
             rnd64x_ints_7993 rnd64x_le_double Hi).
Qed.

Lemma b64_minmax_unit_terms (fmax : R) (n k : nat) (gdens : R) (e : nat -> nat -> R)
    (c mn mx : R) (dc : list (R * R)) :
  (Z.of_nat k <= 2 ^ 53)%Z -> (1 <= n)%nat -> 1 <= fmax ->
  (forall i l, (i < n)%nat -> (l < k)%nat -> 0 <= e i l <= 1) ->
  calculate_pdf (RndOps rnd64x) fmax 1000 n k gdens e = (c, mn, mx, dc) ->
  (exists i, (i < n)%nat /\ mn = pdf_value (RndOps rnd64x) k (e i)) /\
  (exists i, (i < n)%nat /\ mx = pdf_value (RndOps rnd64x) k (e i)) /\
  0 <= mn /\ mn <= mx /\ mx <= 1.
Proof.
  intros Hk. exact (rnd_minmax_unit_terms rnd64x fmax n k gdens e c mn mx dc rnd64x_rounding rnd64x_one
                      (rnd64x_ints_nat k Hk)).
Qed.

Lemma b64_eliminate (h : R) (dens cost : list R) :
  (0 < h -> eliminate_maxima (RndOps rnd64x) h dens cost = map (fun d => Rmax (rnd64x (d - h)) 0) dens) /\
  (h <= 0 -> eliminate_maxima (RndOps rnd64x) h dens cost = cost) /\
  (0 < h -> forall d, 0 < d -> rnd64x d = d ->
     0 <= Rmax (rnd64x (d - h)) 0 <= d /\ (Rmax (rnd64x (d - h)) 0 < d <-> rnd64x (d - h) <> d)).
Proof.
  split; [exact (proj1 (eliminate_rnd_spec rnd64x h dens cost))|].
  split; [exact (proj2 (eliminate_rnd_spec rnd64x h dens cost))|].
  intros Hh d Hd Hf. exact (eliminate_rnd_bounds rnd64x h d rnd64x_rounding Hh Hd Hf).
Qed.

(* a computed run: two samples, k = 1, terms 1/4 and 3/4; every intermediate value is a dyadic number with a
   small numerator, so binary64 computes the exact densities 1 and 1000 *)
Definition ex2_e (i l : nat) : R := match i with 0%nat => 1 / 4 | _ => 3 / 4 end.

Ltac dy z n := match goal with |- context [rnd64x ?t] =>
  replace t with (IZR z / 2 ^ n) by (simpl; lra); rewrite (rnd64x_dyadic z n) by lia end.

Lemma ex2_run :
  calculate_pdf (RndOps rnd64x) 10 1000 2 1 (9 / 2) ex2_e = (1, 1 / 8, 3 / 8, [(1, 0); (1000, 999)]).
Proof.
  rewrite calculate_pdf_RndOps. cbv zeta.
  assert (Hp : map (fun i => pdfv rnd64x 1 (ex2_e i)) (seq 0 2) = [1 / 8; 3 / 8]).
  { cbn [seq map]. unfold pdfv, rsum. cbn [seq map fold_left ex2_e]. change (IZR (Z.of_nat 2)) with 2.
    apply f_equal2; [|apply f_equal2; [|reflexivity]].
    - dy 1%Z 2%nat. dy 1%Z 3%nat. simpl; lra.
    - dy 3%Z 2%nat. dy 3%Z 3%nat. simpl; lra. }
  rewrite Hp.
  assert (Hc : rnd64x (rnd64x (2 * (9 / 2)) / 9) = 1).
  { dy 9%Z 0%nat. dy 1%Z 0%nat. simpl; lra. }
  rewrite Hc.
  assert (M : pdf_minmax (RndOps rnd64x) 10 [1 / 8; 3 / 8] = (1 / 8, 3 / 8)).
  { rewrite pdf_minmax_RndOps. replace (rnd64x (0 - 10)) with (-10).
    - cbn [fold_left]. decide_cmp. reflexivity.
    - dy (-10)%Z 0%nat. simpl; lra. }
  rewrite M. cbn [fst snd]. rewrite pdf_scale_RndOps. decide_cmp. cbn [map].
  unfold dmap, amap, cmap.
  apply f_equal2; [reflexivity|]. apply f_equal2; [|apply f_equal2; [|reflexivity]].
  - assert (D : rnd64x (rnd64x (rnd64x (999 * rnd64x (1 / 8 - 1 / 8)) / rnd64x (3 / 8 - 1 / 8)) + 1) = 1).
    { dy 0%Z 0%nat. dy 0%Z 0%nat. dy 1%Z 2%nat. dy 0%Z 0%nat. dy 1%Z 0%nat. simpl; lra. }
    rewrite D. apply f_equal2; [reflexivity|]. dy 0%Z 0%nat. simpl; lra.
  - assert (D : rnd64x (rnd64x (rnd64x (999 * rnd64x (3 / 8 - 1 / 8)) / rnd64x (3 / 8 - 1 / 8)) + 1) = 1000).
    { dy 1%Z 2%nat. dy 999%Z 2%nat. dy 999%Z 0%nat. dy 1000%Z 0%nat. simpl; lra. }
    rewrite D. apply f_equal2; [reflexivity|]. dy 999%Z 0%nat. simpl; lra.
Qed.

(* the general theorem on data that are NOT representable (1001/4000, 406/625): hypotheses satisfiable, conclusions
   obtained from the theorem, not by computation *)
Lemma ex3_b64 :
  exists c mn mx dc,
    calculate_pdf (RndOps rnd64x) 10 1000 3 1 45 ex3_e = (c, mn, mx, dc) /\
    (forall i l, (i < 3)%nat -> (l < 1)%nat -> 0 <= ex3_e i l <= 1) /\
    (exists i, (i < 3)%nat /\ mn = pdf_value (RndOps rnd64x) 1 (ex3_e i)) /\
    (exists i, (i < 3)%nat /\ mx = pdf_value (RndOps rnd64x) 1 (ex3_e i)) /\
    0 <= mn /\ mn <= mx /\ mx <= 1 /\
    (forall i, (i < 3)%nat -> 1 <= fst (nth i dc (0, 0)) <= 7994 /\
                              0 <= snd (nth i dc (0, 0)) < fst (nth i dc (0, 0))).
Proof.
  destruct (calculate_pdf (RndOps rnd64x) 10 1000 3 1 45 ex3_e) as [[[c mn] mx] dc] eqn:H.
  exists c, mn, mx, dc. split; [reflexivity|].
  assert (He : forall i l, (i < 3)%nat -> (l < 1)%nat -> 0 <= ex3_e i l <= 1) by (intros; apply ex3_e_01).
  split; [exact He|].
  destruct (b64_minmax_unit_terms 10 3 1 45 ex3_e c mn mx dc ltac:(simpl; lia) ltac:(lia) ltac:(lra) He H)
    as (A & B & C & D & E).
  split; [exact A|]. split; [exact B|]. split; [exact C|]. split; [exact D|]. split; [exact E|].
  pose proof (b64_calculate_pdf 10 3 1 45 ex3_e c mn mx dc ltac:(lia) H) as S. cbv zeta in S.
  destruct S as (_ & _ & _ & _ & _ & _ & _ & _ & _ & _ & S11 & _). exact S11.
Qed.

(* ---------------- C13 ---------------- *)
Definition b64_knn_sup_final_forest :=
  knn_sup_final_forest_rnd rnd64x rnd64x_rounding rnd64x_one rnd64x_idem rnd64x_le_double rnd64x_gap.

Definition b64_unsup_final_forest :=
  unsup_final_forest_rnd rnd64x rnd64x_rounding rnd64x_one rnd64x_idem rnd64x_le_double rnd64x_gap.

Lemma b64_same_arcs (fmax thr one : R) (k : nat) (labels : list nat) (gdens0 : R)
    (d e : nat -> nat -> R) (g2 : @knn R) (c mn mx : R) :
  arcs_and_pdf (RndOps rnd64x) fmax thr one 1000 k d e (fit_start (RndOps rnd64x) labels gdens0) = (g2, (c, mn, mx)) ->
  exists g2R cR mnR mxR dc,
    arcs_and_pdf ROps fmax thr one 1000 k d e (fit_start ROps labels gdens0) = (g2R, (cR, mnR, mxR)) /\
    calculate_pdf (RndOps rnd64x) fmax 1000 (length labels) k (k_gdens g2R)
                  (fun i l => e i (nth l (nth i (k_adj g2R) []) 0%nat)) = (c, mn, mx, dc) /\
    k_label g2 = k_label g2R /\ k_adj g2 = k_adj g2R /\ k_nplat g2 = k_nplat g2R /\
    k_pred g2 = k_pred g2R /\ k_root g2 = k_root g2R /\ k_plabel g2 = k_plabel g2R /\
    k_clabel g2 = k_clabel g2R /\ k_order g2 = k_order g2R /\
    k_dens g2 = map fst dc /\ k_cost g2 = map snd dc.
Proof. exact (arcs_and_pdf_rnd_shape rnd64x fmax thr one k labels gdens0 d e g2 c mn mx). Qed.

Example exr_sup_b64 :
  exists (g' : @knn R) (c mn mx : R),
    knn_sup_final (RndOps rnd64x) 10 (1/100000) 1 1000 1 exr_labels 0 exr_d exr_e = (g', (c, mn, mx)) /\
    Permutation (k_order g') [0; 1; 2]%nat /\
    (forall q, (q < 3)%nat -> nth q (k_plabel g') 0%nat = nth q exr_labels 0%nat) /\
    (forall q, (q < 3)%nat -> 1 <= nth q (k_dens g') 0 <= 7994) /\
    (forall q, (q < 3)%nat ->
       exists r, (r < 3)%nat /\ nth r (k_pred g') None = None /\ nth q (k_root g') 0%nat = r /\
         nth q (k_dens g') 0 - 1 < nth q (k_cost g') 0 /\
         nth q (k_dens g') 0 < nth r (k_dens g') 0 + 1 /\
         nth q exr_labels 0%nat = nth r exr_labels 0%nat).
Proof.
  destruct exr_premises as (_ & _ & P1 & P2 & P3 & P4).
  destruct (knn_sup_final (RndOps rnd64x) 10 (1/100000) 1 1000 1 exr_labels 0 exr_d exr_e) as [g' [[c mn] mx]] eqn:H.
  exists g', c, mn, mx. split; [reflexivity|].
  pose proof (b64_knn_sup_final_forest 10 (1/100000) 1 0 1 exr_labels exr_d exr_e P1 P3 g' c mn mx H) as T.
  cbv zeta in T. change (length exr_labels) with 3%nat in T.
  destruct T as (_ & T2 & T3 & _ & _ & T6 & T7).
  split; [exact T2|]. split; [exact T7|]. split; [exact T3|].
  intros q Hq. destruct (T6 q Hq) as (r & j & _ & F2 & _ & F4 & _ & F6 & F7 & _ & _ & F10 & _ & F12).
  exists r. repeat (split; [assumption|]). exact F12.
Qed.

Example exr_unsup_b64 :
  exists (g' : @knn R) (c mn mx : R),
    unsup_final (RndOps rnd64x) 10 (1/100000) 1 1000 1 exr_labels 0 exr_d exr_e = (g', (c, mn, mx)) /\
    Permutation (k_order g') [0; 1; 2]%nat /\
    (forall q, (q < 3)%nat -> (nth q (k_clabel g') 0 < k_nclusters g')%nat) /\
    (forall q, (q < 3)%nat ->
       exists r, (r < 3)%nat /\ nth r (k_pred g') None = None /\ nth q (k_root g') 0%nat = r /\
         nth q (k_dens g') 0 - 1 < nth q (k_cost g') 0 /\
         nth q (k_dens g') 0 < nth r (k_dens g') 0 + 1 /\
         nth q (k_clabel g') 0%nat = nth r (k_clabel g') 0%nat).
Proof.
  destruct exr_premises as (_ & P0 & P1 & P2 & P3 & P4).
  destruct (unsup_final (RndOps rnd64x) 10 (1/100000) 1 1000 1 exr_labels 0 exr_d exr_e) as [g' [[c mn] mx]] eqn:H.
  exists g', c, mn, mx. split; [reflexivity|].
  pose proof (b64_unsup_final_forest 10 (1/100000) 1 0 1 exr_labels exr_d exr_e P0 P1 P3 g' c mn mx H) as T.
  cbv zeta in T. change (length exr_labels) with 3%nat in T.
  destruct T as (_ & T2 & _ & _ & _ & T6 & _ & _ & _ & _ & _ & _ & T13).
  split; [exact T2|]. split; [exact T13|].
  intros q Hq. destruct (T6 q Hq) as (r & j & _ & F2 & _ & F4 & _ & F6 & F7 & _ & _ & F10 & F11).
  exists r. repeat (split; [assumption|]). exact F11.
Qed.

(* ---------------- C14 ---------------- *)
Lemma b64_query_density_props (eps mn mx : R) (k : nat) (e e' : nat -> R) :
  0 < eps -> mn <= mx ->
  let s := qmean rnd64x k e in
  let s' := qmean rnd64x k e' in
  let q := query_density (RndOps rnd64x) 1000 eps mn mx k e in
  let q' := query_density (RndOps rnd64x) 1000 eps mn mx k e' in
  q = rnd64x (rnd64x (rnd64x (999 * rnd64x (s - mn)) / rnd64x (rnd64x (mx - mn) + eps)) + 1) /\
  0 < rnd64x (rnd64x (mx - mn) + eps) /\
  (s <= s' -> q <= q') /\ (s = s' -> q = q') /\ (q < q' -> s < s') /\
  ((1 <= k)%nat -> (forall l, (l < k)%nat -> e l <= e' l) -> q <= q') /\
  (s = mn -> q = 1) /\ (mn <= s -> 1 <= q) /\ (s <= mn -> q <= 1).
Proof.
  intros He Hm.
  pose proof (query_density_rnd_props rnd64x rnd64x_rounding eps mn mx k e e' He Hm) as S.
  cbv zeta in S |- *. destruct S as (S1 & S2 & S3 & S4 & S5 & S6 & S7).
  destruct (S7 rnd64x_one) as (S7a & S7b & S7c).
  repeat (split; [assumption|]). assumption.
Qed.

Lemma b64_query_mean_vs_pdf (k : nat) (e : nat -> R) :
  (1 <= k)%nat -> (forall l, (l < k)%nat -> 0 <= e l) ->
  pdf_value (RndOps rnd64x) k e <= qmean rnd64x k e.
Proof. exact (pdfv_le_qmean rnd64x rnd64x_rounding k e). Qed.

Lemma b64_query_density_of_fit (fmax : R) (n k : nat) (gdens : R) (e : nat -> nat -> R)
    (c mn mx : R) (dc : list (R * R)) (eps : R) (kq : nat) (eq : nat -> R) :
  (1 <= n)%nat ->
  calculate_pdf (RndOps rnd64x) fmax 1000 n k gdens e = (c, mn, mx, dc) ->
  0 < eps ->
  let p := fun i => pdf_value (RndOps rnd64x) k (e i) in
  let dens := fun i => fst (nth i dc (0, 0)) in
  let s := qmean rnd64x kq eq in
  let q := query_density (RndOps rnd64x) 1000 eps mn mx kq eq in
  0 < rnd64x (rnd64x (mx - mn) + eps) /\
  (mn <> mx -> forall i, (i < n)%nat -> s = p i -> q <= dens i) /\
  (rnd64x (rnd64x (mx - mn) + eps) = rnd64x (mx - mn) -> mn <> mx ->
     forall i, (i < n)%nat -> (s = p i -> q = dens i) /\ (p i <= s -> dens i <= q) /\ (s <= p i -> q <= dens i)) /\
  (mn <= s -> 1 <= q) /\ (s <= mn -> q <= 1) /\ (s = mn -> q = 1).
Proof.
  intros Hn H He.
  pose proof (query_density_rnd_of_fit rnd64x rnd64x_rounding fmax n k gdens e c mn mx dc eps kq eq Hn H He) as S.
  cbv zeta in S |- *. destruct S as (S1 & S2 & S3 & S4 & S5).
  split; [exact S1|]. split; [exact (S2 rnd64x_idem)|]. split.
  - intros Ha Hne i Hi. split; [exact (S3 Ha Hne i Hi)|]. exact (S4 Ha Hne i Hi).
  - exact (S5 rnd64x_one).
Qed.

Lemma b64_training_vs_query_map (eps mn mx v : R) :
  0 <= eps -> mn < mx ->
  rnd64x (mx - mn) <= rnd64x (rnd64x (mx - mn) + eps) /\
  (mn <= v -> qmap rnd64x eps mn mx v <= dmap rnd64x mn mx v) /\
  (v <= mn -> dmap rnd64x mn mx v <= qmap rnd64x eps mn mx v) /\
  (rnd64x (rnd64x (mx - mn) + eps) = rnd64x (mx - mn) -> qmap rnd64x eps mn mx v = dmap rnd64x mn mx v).
Proof.
  intros He Hm.
  exact (conj (qmap_den_ge rnd64x rnd64x_rounding eps mn mx rnd64x_idem He)
        (conj (qmap_le_dmap rnd64x rnd64x_rounding eps mn mx v rnd64x_idem He Hm)
        (conj (qmap_ge_dmap rnd64x rnd64x_rounding eps mn mx v rnd64x_idem He Hm)
              (qmap_eq_dmap rnd64x eps mn mx v)))).
Qed.

Example ex3_query_b64 :
  1 <= query_density (RndOps rnd64x) 1000 (1 / 1024) (1 / 8) (203 / 625) 1 (ex3_e 1).
Proof.
  destruct (b64_query_density_props (1 / 1024) (1 / 8) (203 / 625) 1 (ex3_e 1) (ex3_e 1)
              ltac:(lra) ltac:(lra)) as (_ & _ & _ & _ & _ & _ & _ & H & _).
  apply H. unfold qmean, rsum. cbn [seq map fold_left ex3_e]. change (IZR (Z.of_nat 1)) with 1.
  (* the mean of the single term 1001/4000, rounded twice, is at least 1/8: monotonicity and rnd64x (1/8) = 1/8 *)
  assert (E8 : rnd64x (1 / 8) = 1 / 8).
  { replace (1 / 8) with (IZR 1 / 2 ^ 3) by (simpl; lra). apply rnd64x_dyadic. lia. }
  rewrite <- E8. apply rnd64x_mono.
  apply Rle_trans with (rnd64x (1 / 8) / 1); [rewrite E8; lra|].
  apply Rmult_le_compat_r; [lra|]. apply rnd64x_mono. lra.
Qed.
