(* C08, float level: non-negativity under EVERY admissible rounding, read off the sign-class abstract
   interpreter of Model/MetricRnd.v (its soundness theorem is Proofs/RobustSign.robust_check_sound). *)
From Coq Require Import Reals QArith String List Bool Lra.
From OPF Require Import Spec.MetricSpec Model.MetricIR Gen.Metrics_gen Model.MetricRnd
     Proofs.RobustSign Proofs.RobustSignTable.
Import ListNotations.
Open Scope string_scope.
Open Scope R_scope.

(* the result class the interpreter computes for a Python function name on user vectors of class [c] *)
Definition result_class (nc : string * cls) : option cls :=
  match lookup_ir (fst nc) all_metrics_ir with
  | Some m => robust_class (snd nc) m
  | None => None
  end.

Definition nonneg_result (nc : string * cls) : bool :=
  match result_class nc with Some NonNeg | Some Pos => true | _ => false end.

Definition float_nonneg_list : list (string * cls) :=
  [("additive_symmetric_distance", NonNeg); ("average_euclidean_distance", Any); ("bray_curtis_distance", NonNeg);
   ("canberra_distance", NonNeg); ("chebyshev_distance", Any); ("chi_squared_distance", NonNeg);
   ("chord_distance", NonNeg); ("clark_distance", NonNeg); ("divergence_distance", NonNeg);
   ("euclidean_distance", Any); ("gaussian_distance", Any); ("gower_distance", Any); ("hamming_distance", Any);
   ("hellinger_distance", NonNeg); ("kulczynski_distance", NonNeg); ("manhattan_distance", Any);
   ("matusita_distance", NonNeg); ("max_symmetric_distance", NonNeg); ("min_symmetric_distance", NonNeg);
   ("neyman_distance", NonNeg); ("non_intersection_distance", Any); ("pearson_distance", NonNeg);
   ("sangvi_distance", NonNeg); ("soergel_distance", NonNeg); ("squared_distance", NonNeg);
   ("squared_chord_distance", NonNeg); ("squared_euclidean_distance", Any); ("vicis_symmetric1_distance", NonNeg);
   ("vicis_symmetric2_distance", NonNeg); ("vicis_symmetric3_distance", NonNeg);
   ("vicis_wave_hedges_distance", NonNeg)].

(* the interpreter accepts the others too, but cannot bound their sign: a logarithm's sign needs "argument >= 1",
   which the four-point lattice does not track *)
Definition float_nonneg_unknown : list (string * cls) :=
  [("bhattacharyya_distance", NonNeg); ("cosine_distance", NonNeg); ("dice_distance", NonNeg);
   ("jeffreys_distance", NonNeg); ("jensen_distance", NonNeg); ("jensen_shannon_distance", NonNeg);
   ("k_divergence_distance", NonNeg); ("kullback_leibler_distance", NonNeg); ("log_euclidean_distance", Any);
   ("log_squared_euclidean_distance", Any); ("lorentzian_distance", Any); ("statistic_distance", NonNeg);
   ("topsoe_distance", NonNeg)].

Lemma float_nonneg_tbl : forallb nonneg_result float_nonneg_list = true.
Proof. vm_compute. reflexivity. Qed.

Lemma float_nonneg_unknown_tbl : map result_class float_nonneg_unknown = repeat (Some Any) 13.
Proof. vm_compute. reflexivity. Qed.

Theorem float_nonneg_sound : forall nc m,
  lookup_ir (fst nc) all_metrics_ir = Some m -> nonneg_result nc = true ->
  forall rnd, rounding rnd ->
  forall x y, length x = length y -> (1 <= length x)%nat ->
              Forall (in_cls (snd nc)) x -> Forall (in_cls (snd nc)) y ->
  exists r, metric_rnd rnd m x y = Some r /\ 0 <= r.
Proof.
  intros [n c] m Hl Hn rnd RND x y HL H1 HX HY. cbn [fst snd] in *.
  unfold nonneg_result, result_class in Hn. cbn [fst snd] in Hn. rewrite Hl in Hn.
  destruct (robust_class c m) as [c'|] eqn:E; [|discriminate].
  assert (Hc : robust_check c m = true) by (unfold robust_check; rewrite E; reflexivity).
  destruct (robust_check_sound c m Hc rnd RND x y HL H1 HX HY) as [_ (c2 & r & E2 & Er & Pr)].
  rewrite E in E2. injection E2 as <-. exists r. split; [exact Er|].
  destruct c'; try discriminate; cbn [in_cls] in Pr; [apply Rlt_le|]; exact Pr.
Qed.

(* every listed identifier, spelled out *)
Theorem float_nonneg_all : forall nc, In nc float_nonneg_list ->
  exists m, lookup_ir (fst nc) all_metrics_ir = Some m /\
  forall rnd, rounding rnd ->
  forall x y, length x = length y -> (1 <= length x)%nat ->
              Forall (in_cls (snd nc)) x -> Forall (in_cls (snd nc)) y ->
  exists r, metric_rnd rnd m x y = Some r /\ 0 <= r.
Proof.
  intros nc Hin.
  pose proof (proj1 (forallb_forall nonneg_result float_nonneg_list) float_nonneg_tbl nc Hin) as Hn.
  unfold nonneg_result, result_class in Hn.
  destruct (lookup_ir (fst nc) all_metrics_ir) as [m|] eqn:Hl; [|discriminate].
  exists m. split; [reflexivity|].
  apply (float_nonneg_sound nc m Hl). unfold nonneg_result, result_class. rewrite Hl. exact Hn.
Qed.

(* non-vacuity: squared (decorated, user vectors with an exact zero) under the identity rounding *)
Lemma rounding_id : rounding (fun a : R => a).
Proof. constructor; intros; auto. Qed.

Lemma float_nonneg_example :
  In ("squared_distance", NonNeg) float_nonneg_list /\ rounding (fun a : R => a) /\
  length [0; 2] = length [1; 0] /\ (1 <= length [0; 2])%nat /\
  Forall (in_cls NonNeg) [0; 2] /\ Forall (in_cls NonNeg) [1; 0].
Proof.
  split; [cbn; tauto|]. split; [exact rounding_id|]. split; [reflexivity|]. split; [cbn; auto|].
  split; repeat constructor; cbn [in_cls]; lra.
Qed.
