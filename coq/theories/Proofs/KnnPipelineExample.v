(* Non-vacuity of the end-to-end theorems of KnnPipelineMain.v: three training samples with rational
   distances and rational "exp" terms, k = 1, FLOAT_MAX read as 10.  The run itself cannot be computed
   over R; the example shows that the hypotheses are satisfiable and instantiates both theorems
   (including the conditional clause about the minimum and maximum of the unmapped densities). *)
From Coq Require Import Reals List Arith Bool ZArith Lia Lra Permutation.
From OPF Require Import Base.Lists Base.NumOps Model.Heap Model.Knn Model.Pdf Model.KnnFit
  Spec.Paths Spec.Trees Proofs.PdfBase Proofs.KnnPipeline Proofs.KnnPipelineMain.
Import ListNotations.
Local Open Scope R_scope.

Definition exr_labels : list nat := [0; 0; 1]%nat.

(* pairwise distances (symmetric, zero diagonal) and the terms standing for exp(-d/constant) *)
Definition exr_d (i j : nat) : R :=
  nth j (nth i [[0; 1/2; 3/2]; [1/2; 0; 1]; [3/2; 1; 0]] []) 0.
Definition exr_e (i j : nat) : R :=
  nth j (nth i [[1; 3/4; 1/4]; [3/4; 1; 1/2]; [1/4; 1/2; 1]] []) 0.

Example exr_premises :
  length exr_labels = 3%nat /\ (1 <= 3 - 1)%nat /\ 0 < 10 /\ 1 <= 10 /\
  (forall i j, (i < 3)%nat -> (j < 3)%nat -> i <> j -> 0 <= exr_d i j < 10) /\
  (forall i j, (i < 3)%nat -> (j < 3)%nat -> 0 <= exr_e i j <= 1).
Proof.
  split; [reflexivity|]. split; [cbn; lia|]. split; [lra|]. split; [lra|]. split.
  - intros i j Hi Hj Hij.
    destruct i as [|[|[|i]]]; [| | |lia]; (destruct j as [|[|[|j]]]; [| | |lia]);
      try (exfalso; apply Hij; reflexivity); unfold exr_d; cbn [nth]; lra.
  - intros i j Hi Hj.
    destruct i as [|[|[|i]]]; [| | |lia]; (destruct j as [|[|[|j]]]; [| | |lia]);
      unfold exr_e; cbn [nth]; lra.
Qed.

Example exr_sup :
  exists (g' : @knn R) (c mn mx : R),
    knn_sup_final ROps 10 (1/100000) 1 1000 1 exr_labels 0 exr_d exr_e = (g', (c, mn, mx)) /\
    Permutation (k_order g') [0; 1; 2]%nat /\
    (forall q, (q < 3)%nat -> nth q (k_plabel g') 0%nat = nth q exr_labels 0%nat) /\
    (forall q, (q < 3)%nat -> 1 <= nth q (k_dens g') 0 <= 1000) /\
    (forall q, (q < 3)%nat ->
       exists r, (r < 3)%nat /\ nth r (k_pred g') None = None /\ nth q (k_root g') 0%nat = r /\
         nth q (k_dens g') 0 < nth r (k_dens g') 0 + 1 /\
         nth q exr_labels 0%nat = nth r exr_labels 0%nat) /\
    0 <= mn /\ mn <= mx /\ mx < 1.
Proof.
  destruct exr_premises as (_ & _ & P1 & P2 & P3 & P4).
  destruct (knn_sup_final ROps 10 (1/100000) 1 1000 1 exr_labels 0 exr_d exr_e) as [g' [[c mn] mx]] eqn:H.
  exists g', c, mn, mx. split; [reflexivity|].
  pose proof (knn_sup_final_forest 10 (1/100000) 1 0 1 exr_labels exr_d exr_e P1 P3 g' c mn mx H) as T.
  cbv zeta in T. change (length exr_labels) with 3%nat in T.
  destruct T as (_ & T2 & T3 & (adj0 & KG & _) & _ & T6 & T7).
  split; [exact T2|]. split; [exact T7|]. split; [exact T3|]. split.
  - intros q Hq. destruct (T6 q Hq) as (r & j & _ & F2 & _ & F4 & _ & F6 & _ & _ & _ & F10 & _ & F12).
    exists r. repeat (split; [assumption|]). exact F12.
  - unfold knn_graph in KG. cbv zeta in KG. destruct KG as (_ & _ & _ & _ & _ & Hc).
    destruct (Hc ltac:(lia) P2 P4) as (_ & _ & M1 & M2 & M3). auto.
Qed.

Lemma filter_length_bound {A} (f : A -> bool) (l : list A) : (length (filter f l) <= length l)%nat.
Proof. induction l as [|x l IH]; cbn [filter length]; [lia|]. destruct (f x); cbn [length]; lia. Qed.

Example exr_unsup :
  exists (g' : @knn R) (c mn mx : R),
    unsup_final ROps 10 (1/100000) 1 1000 1 exr_labels 0 exr_d exr_e = (g', (c, mn, mx)) /\
    Permutation (k_order g') [0; 1; 2]%nat /\
    (1 <= k_nclusters g' <= 3)%nat /\
    (forall q, (q < 3)%nat -> (nth q (k_clabel g') 0 < k_nclusters g')%nat) /\
    (forall i, (i < k_nclusters g')%nat ->
       exists r, (r < 3)%nat /\ nth r (k_pred g') None = None /\ nth r (k_clabel g') 0%nat = i) /\
    (forall q, (q < 3)%nat ->
       exists r, (r < 3)%nat /\ nth r (k_pred g') None = None /\ nth q (k_root g') 0%nat = r /\
         nth q (k_dens g') 0 < nth r (k_dens g') 0 + 1 /\
         nth q (k_clabel g') 0%nat = nth r (k_clabel g') 0%nat) /\
    0 <= mn /\ mn <= mx /\ mx < 1.
Proof.
  destruct exr_premises as (_ & P0 & P1 & P2 & P3 & P4).
  destruct (unsup_final ROps 10 (1/100000) 1 1000 1 exr_labels 0 exr_d exr_e) as [g' [[c mn] mx]] eqn:H.
  exists g', c, mn, mx. split; [reflexivity|].
  pose proof (unsup_final_forest 10 (1/100000) 1 0 1 exr_labels exr_d exr_e P0 P1 P3 g' c mn mx H) as T.
  cbv zeta in T. change (length exr_labels) with 3%nat in T.
  destruct T as (_ & T2 & _ & (adj0 & KG & _) & _ & T6 & T7 & _ & _ & _ & _ & T12 & T13).
  split; [exact T2|]. split; [|split; [exact T13|split; [exact T12|split]]].
  - pose proof (T13 0%nat ltac:(lia)) as H0. split; [lia|].
    rewrite T7. pose proof (filter_length_bound (fun q => match nth q (k_pred g') None with None => true | Some _ => false end) (seq 0 3)) as Hle.
    rewrite seq_length in Hle. exact Hle.
  - intros q Hq. destruct (T6 q Hq) as (r & j & _ & F2 & _ & F4 & _ & F6 & _ & _ & _ & F10 & F11).
    exists r. repeat (split; [assumption|]). exact F11.
  - unfold knn_graph in KG. cbv zeta in KG. destruct KG as (_ & _ & _ & _ & _ & Hc).
    destruct (Hc ltac:(lia) P2 P4) as (_ & _ & M1 & M2 & M3). auto.
Qed.
