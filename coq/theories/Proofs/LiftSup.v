(* C01 for an arbitrary strict total order.

   The optimum-path-forest theorems of FitSup.v are proved at W := Z (so that [lia] applies).
   Here they are lifted to any weight type [W] with a comparison [ltb] that is a strict total
   order (Base/TotalOrder.v):

     1. the run on [(W, ltb)] reads its weight function only below [n] (WeightsExtBounded.v), so
        [w] may be replaced by [clip2 n zero w], all of whose values lie in the finite list
        [vals := zero :: top :: initial costs ++ weights below n];
     2. the rank map [rk ltb vals : W -> Z] (OrderEmbed.v) is order-preserving on [vals], so by the
        abstraction theorem (ParamSup.v, in the form of Rescale.v) the run on [(Z, Z.ltb)] with the
        ranked weights returns the ranked node table;
     3. the Z-theorem applies to that run, and each conjunct is pulled back along [rk]
        ([opf_transfer]): [rk] reflects [<=] and [=] on [vals] and commutes with max / pathmax. *)
From Coq Require Import List Arith Bool ZArith Lia Permutation.
From OPF Require Import Base.Lists Base.TotalOrder Model.Heap Model.Sup Spec.Paths.
From OPF Require Import Proofs.ParamBase Proofs.ParamSup Proofs.Rescale Proofs.WeightsExtBounded
  Proofs.OrderEmbed Proofs.FitBase Proofs.Fit Proofs.FitSup.
Import ListNotations.
Close Scope Z_scope.

(* [Model.Sup.wmax] is [omax] *)
Lemma wmax_omax {W} (ltb : W -> W -> bool) a b : wmax ltb a b = omax ltb a b.
Proof. reflexivity. Qed.

Lemma map_repeat_eq {A B} (f : A -> B) a n : map f (repeat a n) = repeat (f a) n.
Proof. induction n as [|n IH]; cbn [repeat map]; [reflexivity | now rewrite IH]. Qed.

(* [w] below [n], [zero] elsewhere *)
Definition clip2 {W} (n : nat) (zero : W) (w : nat -> nat -> W) (p q : nat) : W :=
  if (p <? n) && (q <? n) then w p q else zero.

Definition clip1 {W} (n : nat) (zero : W) (d : nat -> W) (k : nat) : W :=
  if k <? n then d k else zero.

(* all weights with both indices below [n] *)
Definition weight_vals {W} (n : nat) (w : nat -> nat -> W) : list W :=
  flat_map (fun p => map (w p) (seq 0 n)) (seq 0 n).

Lemma weight_vals_in {W} n (w : nat -> nat -> W) p q : p < n -> q < n -> In (w p q) (weight_vals n w).
Proof.
  intros Hp Hq. apply in_flat_map. exists p. split; [apply in_seq; lia|].
  apply in_map. apply in_seq; lia.
Qed.

Lemma clip2_below {W} n (zero : W) w p q : p < n -> q < n -> clip2 n zero w p q = w p q.
Proof.
  intros Hp Hq. unfold clip2.
  now rewrite (proj2 (Nat.ltb_lt p n) Hp), (proj2 (Nat.ltb_lt q n) Hq).
Qed.

Lemma clip1_below {W} n (zero : W) d k : k < n -> clip1 n zero d k = d k.
Proof. intros Hk. unfold clip1. now rewrite (proj2 (Nat.ltb_lt k n) Hk). Qed.

Lemma clip2_in {W} n (zero : W) w (vals : list W) p q :
  In zero vals -> (forall a b, a < n -> b < n -> In (w a b) vals) -> In (clip2 n zero w p q) vals.
Proof.
  intros Hz Hw. unfold clip2. destruct (p <? n) eqn:Ep; cbn [andb]; [|exact Hz].
  destruct (q <? n) eqn:Eq; [|exact Hz]. apply Hw; now apply Nat.ltb_lt.
Qed.

Lemma clip1_in {W} n (zero : W) d (vals : list W) k :
  In zero vals -> (forall a, a < n -> In (d a) vals) -> In (clip1 n zero d k) vals.
Proof.
  intros Hz Hd. unfold clip1. destruct (k <? n) eqn:Ek; [|exact Hz]. apply Hd. now apply Nat.ltb_lt.
Qed.

(* ---------- the optimum-path-forest statement, at Z and at an arbitrary order ---------- *)

Definition opf_spec_Z (n : nat) (w : nat -> nat -> Z) (zero : Z) (nd : @nodes Z)
           (isproto : nat -> Prop) (lab0 : list nat) : Prop :=
  let cost q := nth q (n_cost nd) zero in
  let pred q := nth q (n_pred nd) None in
  let plabel q := nth q (n_plabel nd) 0 in
  Permutation (n_order nd) (seq 0 n) /\
  (forall i j, i < j -> j < n ->
     (cost (nth i (n_order nd) 0%nat) <= cost (nth j (n_order nd) 0%nat))%Z) /\
  (forall q, q < n -> isproto q ->
     pred q = None /\ cost q = zero /\ plabel q = nth q lab0 0) /\
  (forall q, q < n -> ~ isproto q ->
     exists p, pred q = Some p /\ p < n /\ p <> q /\
       cost q = Z.max (cost p) (w p q) /\ plabel q = plabel p /\ before (n_order nd) p q) /\
  (forall q, q < n ->
     exists r k, r < n /\ isproto r /\ reaches pred q r k /\ pred r = None /\
       k < n /\ plabel q = nth r lab0 0) /\
  (forall q s pi, q < n -> s < n -> isproto s -> path_from_to n s q pi ->
     (cost q <= pathmax w zero pi)%Z) /\
  (forall q, q < n -> exists s pi, s < n /\ isproto s /\ path_from_to n s q pi /\
     pathmax w zero pi = cost q).

Definition opf_spec_W {W} (ltb : W -> W -> bool) (n : nat) (w : nat -> nat -> W) (zero : W)
           (nd : @nodes W) (isproto : nat -> Prop) (lab0 : list nat) : Prop :=
  let cost q := nth q (n_cost nd) zero in
  let pred q := nth q (n_pred nd) None in
  let plabel q := nth q (n_plabel nd) 0 in
  Permutation (n_order nd) (seq 0 n) /\
  (forall i j, i < j -> j < n ->
     ltb (cost (nth j (n_order nd) 0)) (cost (nth i (n_order nd) 0)) = false) /\
  (forall q, q < n -> isproto q ->
     pred q = None /\ cost q = zero /\ plabel q = nth q lab0 0) /\
  (forall q, q < n -> ~ isproto q ->
     exists p, pred q = Some p /\ p < n /\ p <> q /\
       cost q = wmax ltb (cost p) (w p q) /\ plabel q = plabel p /\ before (n_order nd) p q) /\
  (forall q, q < n ->
     exists r k, r < n /\ isproto r /\ reaches pred q r k /\ pred r = None /\
       k < n /\ plabel q = nth r lab0 0) /\
  (forall q s pi, q < n -> s < n -> isproto s -> path_from_to n s q pi ->
     ltb (pathmaxW ltb w zero pi) (cost q) = false) /\
  (forall q, q < n -> exists s pi, s < n /\ isproto s /\ path_from_to n s q pi /\
     pathmaxW ltb w zero pi = cost q).

(* ---------- pulling the statement back along the rank map ---------- *)

Section Transfer.
  Context {W : Type} (ltb : W -> W -> bool).
  Hypothesis O : strict_total_order ltb.
  Variable vals : list W.

  Local Notation inV := (fun a : W => In a vals).
  Local Notation r := (rk ltb vals).

  Lemma pathmax_transfer n (w : nat -> nat -> W) (wZ : nat -> nat -> Z) zero pi :
    inV zero -> (forall p q, p < n -> q < n -> inV (w p q)) ->
    (forall p q, p < n -> q < n -> wZ p q = r (w p q)) ->
    Forall (fun v => v < n) pi ->
    inV (pathmaxW ltb w zero pi) /\ pathmax wZ (r zero) pi = r (pathmaxW ltb w zero pi).
  Proof.
    intros Hz Hw HwZ H. induction H as [|a t Ha Ht IH]; [split; [exact Hz | reflexivity]|].
    destruct t as [|b t']; [split; [exact Hz | reflexivity]|].
    assert (Hb : b < n) by (inversion Ht; assumption).
    destruct IH as [IH1 IH2].
    change (pathmaxW ltb w zero (a :: b :: t'))
      with (omax ltb (w a b) (pathmaxW ltb w zero (b :: t'))).
    change (pathmax wZ (r zero) (a :: b :: t'))
      with (Z.max (wZ a b) (pathmax wZ (r zero) (b :: t'))).
    split.
    - apply omax_in; [apply Hw; assumption | exact IH1].
    - rewrite IH2, (HwZ a b Ha Hb). symmetry. apply (rk_omax ltb O vals); [apply Hw; assumption | exact IH1].
  Qed.

  Lemma opf_transfer n (w : nat -> nat -> W) (wZ : nat -> nat -> Z) zero (nd : @nodes W) isproto lab0 :
    inV zero -> Forall inV (n_cost nd) ->
    (forall p q, p < n -> q < n -> inV (w p q)) ->
    (forall p q, p < n -> q < n -> wZ p q = r (w p q)) ->
    opf_spec_Z n wZ (r zero) (map_nodes r nd) isproto lab0 ->
    opf_spec_W ltb n w zero nd isproto lab0.
  Proof.
    intros Hz Hnd Hw HwZ.
    unfold opf_spec_Z, opf_spec_W, map_nodes.
    cbn [n_cost n_pred n_label n_plabel n_status n_relevant n_order]. cbv zeta.
    intros (A1 & A2 & A3 & A4 & A5 & A6 & A7).
    assert (Hc : forall q, nth q (map r (n_cost nd)) (r zero) = r (nth q (n_cost nd) zero))
      by (intros q; apply map_nth).
    assert (Hin : forall q, inV (nth q (n_cost nd) zero))
      by (intros q; apply (Forall_in_nth vals); assumption).
    assert (Hpm : forall s q pi, path_from_to n s q pi ->
              inV (pathmaxW ltb w zero pi) /\ pathmax wZ (r zero) pi = r (pathmaxW ltb w zero pi)).
    { intros s q pi ((_ & Hall) & _). now apply (pathmax_transfer n). }
    split; [exact A1|]. split; [|split; [|split; [|split; [exact A5|split]]]].
    - intros i j Hij Hj. specialize (A2 i j Hij Hj). rewrite !Hc in A2.
      exact (proj1 (rk_le_iff ltb O vals _ _ (Hin _) (Hin _)) A2).
    - intros q Hq Hp. destruct (A3 q Hq Hp) as (B1 & B2 & B3). rewrite Hc in B2.
      split; [exact B1|]. split; [|exact B3]. exact (rk_inj ltb O vals _ _ (Hin q) Hz B2).
    - intros q Hq Hp. destruct (A4 q Hq Hp) as (p & B1 & B2 & B3 & B4 & B5 & B6).
      exists p. rewrite !Hc, (HwZ p q B2 Hq) in B4.
      rewrite <- (rk_omax ltb O vals _ _ (Hin p) (Hw p q B2 Hq)) in B4.
      apply (rk_inj ltb O vals _ _ (Hin q) (omax_in ltb vals _ _ (Hin p) (Hw p q B2 Hq))) in B4.
      rewrite wmax_omax. repeat split; assumption.
    - intros q s pi Hq Hs Hp Hpath. specialize (A6 q s pi Hq Hs Hp Hpath).
      destruct (Hpm s q pi Hpath) as [P1 P2]. rewrite Hc, P2 in A6.
      exact (proj1 (rk_le_iff ltb O vals _ _ (Hin _) P1) A6).
    - intros q Hq. destruct (A7 q Hq) as (s & pi & B1 & B2 & B3 & B4).
      destruct (Hpm s q pi B3) as [P1 P2]. rewrite Hc, P2 in B4.
      exists s, pi. split; [exact B1|]. split; [exact B2|]. split; [exact B3|].
      exact (rk_inj ltb O vals _ _ P1 (Hin q) B4).
  Qed.
End Transfer.

(* ---------- the lifted theorems ---------- *)

Section Lifted.
  Context {W : Type} (ltb : W -> W -> bool).
  Hypothesis O : strict_total_order ltb.

  (* steps 1 and 2 for the whole training: the run on (W, ltb) and the run on (Z, Z.ltb) with
     ranked weights are related by the rank map *)
  Theorem sup_fit_rank_related (zero top : W) (labels : list nat) (w : nat -> nat -> W) :
    let n := length labels in
    let vals := zero :: top :: weight_vals n w in
    let r := rk ltb vals in
    nodes_rel (rank_rel ltb vals)
              (sup_fit ltb zero top labels w)
              (sup_fit Z.ltb (r zero) (r top) labels (fun p q => r (w p q))).
  Proof.
    intros n vals r.
    destruct (sup_fit_ext_bounded ltb zero top labels w (clip2 n zero w)) as [E _].
    { intros p q Hp Hq. symmetry. now apply clip2_below. }
    destruct (sup_fit_ext_bounded Z.ltb (r zero) (r top) labels
                (fun p q => r (w p q)) (fun p q => r (clip2 n zero w p q))) as [EZ _].
    { intros p q Hp Hq. now rewrite clip2_below. }
    rewrite E, EZ.
    apply (param_sup_fit (rank_rel ltb vals) ltb Z.ltb (rank_rel_compat ltb O vals)).
    - split; [now left | reflexivity].
    - split; [right; now left | reflexivity].
    - intros p q. split; [|reflexivity]. apply clip2_in; [now left|].
      intros a b Ha Hb. right; right. now apply weight_vals_in.
  Qed.

  Lemma compete_anyorder_full (zero top : W) (nl n : nat) (w : nat -> nat -> W) (nd0 : @nodes W) :
    let isproto q := nth q (n_status nd0) false = true in
    ltb zero top = true ->
    (forall p q, p < n -> q < n -> p <> q -> ltb (w p q) zero = false /\ ltb (w p q) top = true) ->
    length (n_cost nd0) = n -> length (n_pred nd0) = n -> length (n_label nd0) = n ->
    length (n_plabel nd0) = n -> n_order nd0 = [] ->
    (exists s, s < n /\ isproto s) ->
    let nd := compete ltb zero top false nl n w nd0 in
    (opf_spec_W ltb n w zero nd isproto (n_label nd0) /\
     n_status nd = n_status nd0 /\ n_label nd = n_label nd0) /\
    (length (n_cost nd) = n /\ length (n_pred nd) = n /\ length (n_label nd) = n /\
     length (n_plabel nd) = n).
  Proof.
    intros isproto Hzt Hw L1 L2 L3 L4 L5 Hproto nd.
    set (vals := zero :: top :: n_cost nd0 ++ weight_vals n w).
    set (r := rk ltb vals).
    set (wc := clip2 n zero w).
    assert (Hz : In zero vals) by now left.
    assert (Ht : In top vals) by (right; now left).
    assert (Hwv : forall p q, p < n -> q < n -> In (w p q) vals).
    { intros p q Hp Hq. right; right. apply in_or_app. right. now apply weight_vals_in. }
    assert (Hwc : forall p q, In (wc p q) vals) by (intros p q; now apply clip2_in).
    assert (Hnd0 : Forall (fun a => In a vals) (n_cost nd0)).
    { apply Forall_forall. intros a Ha. right; right. apply in_or_app. now left. }
    assert (Hext : nd = compete ltb zero top false nl n wc nd0).
    { apply compete_ext_bounded. intros p q Hp Hq. symmetry. now apply clip2_below. }
    destruct (rescale_compete_on (fun a => In a vals) r ltb Z.ltb (rk_ltb ltb O vals)
                zero top false nl n wc nd0 Hz Ht Hwc Hnd0) as [Hc E].
    rewrite <- Hext in Hc, E.
    pose proof (compete_false_opf (r zero) (r top) nl n (fun p q => r (wc p q)) (map_nodes r nd0)) as HZ.
    cbv zeta in HZ.
    specialize (HZ (proj2 (rk_lt_iff ltb O vals zero top Hz Ht) Hzt)).
    assert (L1' : length (n_cost (map_nodes r nd0)) = n)
      by (unfold map_nodes; cbn [n_cost]; now rewrite map_length).
    assert (Hb : forall p q, p < n -> q < n -> p <> q -> (r zero <= r (wc p q) < r top)%Z).
    { intros p q Hp Hq Hpq. unfold wc. rewrite clip2_below by assumption.
      destruct (Hw p q Hp Hq Hpq) as [B1 B2]. split.
      - exact (proj2 (rk_le_iff ltb O vals _ _ Hz (Hwv p q Hp Hq)) B1).
      - exact (proj2 (rk_lt_iff ltb O vals _ _ (Hwv p q Hp Hq) Ht) B2). }
    specialize (HZ Hb L1' L2 L3 L4 L5 Hproto). rewrite E in HZ.
    pose proof (fit_lengths (r zero) (r top) n (fun p q => r (wc p q)) false nl _ _
                  (proj2 (rk_lt_iff ltb O vals zero top Hz Ht) Hzt) Hb Hproto
                  (map_nodes r nd0) eq_refl eq_refl L1' L2 L3 L4 L5) as HL.
    rewrite E in HL. unfold map_nodes in HL at 1 2 3 4.
    cbn [n_cost n_pred n_label n_plabel] in HL. rewrite map_length in HL.
    split; [|exact HL].
    destruct HZ as (A1 & A2 & A3 & A4 & A5 & A6 & A7 & S & L).
    split; [|split; [exact S | exact L]].
    apply (opf_transfer ltb O vals n w (fun p q => r (wc p q))); auto.
    - intros p q Hp Hq. unfold wc. now rewrite clip2_below.
    - exact (conj A1 (conj A2 (conj A3 (conj A4 (conj A5 (conj A6 A7)))))).
  Qed.

  Theorem compete_anyorder (zero top : W) (nl n : nat) (w : nat -> nat -> W) (nd0 : @nodes W) :
    let isproto q := nth q (n_status nd0) false = true in
    ltb zero top = true ->
    (forall p q, p < n -> q < n -> p <> q -> ltb (w p q) zero = false /\ ltb (w p q) top = true) ->
    length (n_cost nd0) = n -> length (n_pred nd0) = n -> length (n_label nd0) = n ->
    length (n_plabel nd0) = n -> n_order nd0 = [] ->
    (exists s, s < n /\ isproto s) ->
    let nd := compete ltb zero top false nl n w nd0 in
    opf_spec_W ltb n w zero nd isproto (n_label nd0) /\
    n_status nd = n_status nd0 /\ n_label nd = n_label nd0.
  Proof.
    intros isproto Hzt Hw L1 L2 L3 L4 L5 Hproto nd.
    exact (proj1 (compete_anyorder_full zero top nl n w nd0 Hzt Hw L1 L2 L3 L4 L5 Hproto)).
  Qed.

  Lemma sup_fit_anyorder_full (zero top : W) (labels : list nat) (w : nat -> nat -> W) :
    let n := length labels in
    let fp := find_prototypes ltb top n w (nodes_init zero labels) in
    let isproto q := nth q (n_status fp) false = true in
    ltb zero top = true ->
    (forall p q, p < n -> q < n -> p <> q -> ltb (w p q) zero = false /\ ltb (w p q) top = true) ->
    (exists s, s < n /\ isproto s) ->
    let nd := sup_fit ltb zero top labels w in
    (opf_spec_W ltb n w zero nd isproto labels /\
     n_status nd = n_status fp /\ n_label nd = labels) /\
    (length (n_cost nd) = n /\ length (n_pred nd) = n /\ length (n_label nd) = n /\
     length (n_plabel nd) = n).
  Proof.
    intros n fp isproto Hzt Hw Hproto nd.
    destruct (find_prototypes_shaped ltb top zero labels w) as (A & B & C & D & E & F).
    fold n fp in A, B, C, D, E, F.
    assert (Hll : length (n_label fp) = n) by (rewrite C; reflexivity).
    pose proof (compete_anyorder_full zero top n n w fp Hzt Hw A B Hll D F Hproto) as H.
    cbv zeta in H. rewrite C in H. exact H.
  Qed.

  Theorem sup_fit_anyorder (zero top : W) (labels : list nat) (w : nat -> nat -> W) :
    let n := length labels in
    let fp := find_prototypes ltb top n w (nodes_init zero labels) in
    let isproto q := nth q (n_status fp) false = true in
    ltb zero top = true ->
    (forall p q, p < n -> q < n -> p <> q -> ltb (w p q) zero = false /\ ltb (w p q) top = true) ->
    (exists s, s < n /\ isproto s) ->
    let nd := sup_fit ltb zero top labels w in
    opf_spec_W ltb n w zero nd isproto labels /\
    n_status nd = n_status fp /\ n_label nd = labels.
  Proof.
    intros n fp isproto Hzt Hw Hproto nd.
    exact (proj1 (sup_fit_anyorder_full zero top labels w Hzt Hw Hproto)).
  Qed.

  Theorem sup_fit_lengths_anyorder (zero top : W) (labels : list nat) (w : nat -> nat -> W) :
    let n := length labels in
    let fp := find_prototypes ltb top n w (nodes_init zero labels) in
    ltb zero top = true ->
    (forall p q, p < n -> q < n -> p <> q -> ltb (w p q) zero = false /\ ltb (w p q) top = true) ->
    (exists s, s < n /\ nth s (n_status fp) false = true) ->
    let nd := sup_fit ltb zero top labels w in
    length (n_cost nd) = n /\ length (n_pred nd) = n /\ length (n_label nd) = n /\
    length (n_plabel nd) = n.
  Proof.
    intros n fp Hzt Hw Hproto nd.
    exact (proj2 (sup_fit_anyorder_full zero top labels w Hzt Hw Hproto)).
  Qed.
End Lifted.
