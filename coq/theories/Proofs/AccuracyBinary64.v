(* The opf_accuracy rounding theorems (Proofs/AccuracyRounding.v) at binary64: rnd := rnd64x (round to nearest even,
   53 bits, no underflow; Model/Binary64.v), u := u64 = 2^-53.  Every rounding hypothesis is discharged by the
   instance facts of Proofs/Binary64.v. *)
From Coq Require Import Reals List Arith ZArith Lia Lra.
From OPF Require Model.Measures.
From OPF Require Import Model.MetricRdepth Model.KnnLearn Model.AccuracyRnd Model.Binary64
     Proofs.RdepthWitness Proofs.Binary64 Proofs.AccuracyRounding Base.NumOpsRnd Base.NumOps.
Local Open Scope R_scope.

Lemma u64_range' : 0 <= u64 < 1.
Proof. pose proof u64_range. lra. Qed.

Lemma small_u64 m : (Z.of_nat m < 2 ^ 53)%Z -> INR m * u64 < 1.
Proof.
  intros H. unfold u64. apply IZR_lt in H. rewrite <- INR_IZR_INZ in H.
  assert (E : IZR (2 ^ 53) = 2 ^ 53) by (rewrite (pow_IZR 2 53); reflexivity).
  rewrite E in H. assert (P : 0 < 2 ^ 53) by (apply pow_lt; lra).
  apply (Rmult_lt_reg_r (2 ^ 53)); [exact P|]. rewrite Rmult_assoc, Rinv_l by lra. lra.
Qed.

Lemma rnd64x_nat m : (Z.of_nat m <= 2 ^ 53)%Z -> rnd64x (INR m) = INR m.
Proof. intros H. rewrite INR_IZR_INZ. apply rnd64x_int. lia. Qed.

Theorem acc64_error labels preds : length labels = length preds ->
  Rabs (accuracy_F (RndOps rnd64x) labels preds - acc_exact labels preds)
    <= ((1 + u64) ^ (n_class labels + 4) - 1) * acc_x labels preds + u64 * acc_exact labels preds.
Proof. apply (accuracy_error u64 rnd64x u64_range' rnd64x_rel). Qed.

Theorem acc64_error_abs labels preds : length labels = length preds ->
  Rabs (accuracy_F (RndOps rnd64x) labels preds - acc_exact labels preds) <= (1 + u64) ^ (n_class labels + 4) - 1.
Proof. apply (accuracy_error_abs u64 rnd64x u64_range' rnd64x_rel). Qed.

Theorem acc64_all_correct labels : accuracy_F (RndOps rnd64x) labels labels = 1.
Proof. rewrite (accuracy_all_correct u64 rnd64x u64_range' rnd64x_rel). exact rnd64x_one. Qed.

Theorem acc64_wrong labels preds : length labels = length preds -> preds <> labels ->
  (Z.of_nat (2 * n_class labels * length labels + n_class labels + 3) < 2 ^ 53)%Z ->
  accuracy_F (RndOps rnd64x) labels preds < 1.
Proof.
  intros H Hne Hs. apply (accuracy_wrong_lt_one u64 rnd64x u64_range' rnd64x_rel labels preds H Hne).
  now apply small_u64.
Qed.

Theorem acc64_one_iff labels preds : length labels = length preds ->
  (Z.of_nat (2 * n_class labels * length labels + n_class labels + 3) < 2 ^ 53)%Z ->
  (accuracy_F (RndOps rnd64x) labels preds = 1 <-> preds = labels).
Proof.
  intros H Hs. split.
  - intros E. destruct (list_eq_dec Nat.eq_dec preds labels) as [Y|N]; [exact Y|].
    pose proof (acc64_wrong labels preds H N Hs). lra.
  - intros ->. apply acc64_all_correct.
Qed.

Theorem acc64_range labels preds : length labels = length preds ->
  (Z.of_nat (2 * n_class labels) <= 2 ^ 53)%Z ->
  0 <= accuracy_F (RndOps rnd64x) labels preds <= 1.
Proof.
  intros H HK. apply accuracy_range_mono; [exact H | exact rnd64x_mono |].
  intros m Hm. apply rnd64x_nat. lia.
Qed.

Theorem acc64_nonvacuous :
  length ex_labels = length ex_preds /\ ex_preds <> ex_labels /\
  (Z.of_nat (2 * n_class ex_labels * length ex_labels + n_class ex_labels + 3) < 2 ^ 53)%Z /\
  acc_exact ex_labels ex_preds = 3 / 4 /\
  accuracy_F (RndOps rnd64x) ex_labels ex_preds < 1 /\
  Rabs (accuracy_F (RndOps rnd64x) ex_labels ex_preds - 3 / 4) <= (1 + u64) ^ 6 - 1.
Proof.
  assert (S : (Z.of_nat (2 * n_class ex_labels * length ex_labels + n_class ex_labels + 3) < 2 ^ 53)%Z).
  { change (2 * n_class ex_labels * length ex_labels + n_class ex_labels + 3)%nat with 21%nat. reflexivity. }
  split; [reflexivity|]. split; [discriminate|]. split; [exact S|]. split; [exact ex_exact|]. split.
  - apply acc64_wrong; [reflexivity | discriminate | exact S].
  - rewrite <- ex_exact. apply (acc64_error_abs ex_labels ex_preds eq_refl).
Qed.
