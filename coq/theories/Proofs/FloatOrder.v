(* The comparison of binary64 numbers that the Python code performs, as an order.

   The implementation compares costs / weights / densities / accuracies, which are Python floats
   or numpy float64 scalars, with [<], [>], [==], [!=].  On binary64 these are the IEEE-754
   comparison predicates; Coq's primitive floats expose the same predicates as
   [PrimFloat.ltb] ([x < y]; [x > y] is [ltb y x]) and [PrimFloat.eqb] ([==]), specified by the
   standard library (FloatAxioms.ltb_spec / eqb_spec) through [SpecFloat.SFcompare] on the
   decoded value [Prim2SF x].

   This file proves that

     - [ltb] is a STRICT WEAK ORDER on the non-NaN floats: irreflexive, asymmetric, transitive
       (these three hold on all floats), and incomparability is transitive (needs the middle
       element not to be NaN);
     - on non-NaN floats incomparability IS [eqb]; [eqb] is an equivalence and [ltb] is
       compatible with it; its classes are the singletons and { -0, +0 };
     - [canon] (-0 |-> +0) picks one element per class, and on the canonical non-NaN floats
       [nfloat] the comparison is a [strict_total_order] in the sense of Base/TotalOrder.v
       (incomparable elements are Leibniz-equal);
     - the integer [fenc x] read off the IEEE bit pattern (sign-magnitude -> two's-complement-like
       integer, harness/common.py: enc) is an order embedding:
         ltb x y = (fenc x <? fenc y),  eqb x y = (fenc x =? fenc y)   for non-NaN x y.

   Method: [SFcompare] is a lexicographic comparison of (class, exponent, mantissa) with the
   sign folded in; [sfkey] makes that explicit as a map into Z*Z*Z with the lexicographic order
   [lex3], which is a strict total order on the triples by linear arithmetic.  Everything about
   [ltb] is pulled back along [sfkey].

   Axioms used (all declared by Coq's standard library, Floats/FloatAxioms.v, plus the primitive
   type and operations themselves): ltb_spec, eqb_spec, SF2Prim_Prim2SF (through Prim2SF_inj),
   Prim2SF_valid (only for [fenc]). *)
From Coq Require Import ZArith Bool List Lia ZifyBool Eqdep_dec.
From Coq Require Import PrimFloat SpecFloat FloatOps FloatAxioms.
From OPF Require Import Base.TotalOrder.
Import ListNotations.
Local Open Scope Z_scope.

(* ------------------------------------------------------------------------------------ *)
(* the lexicographic order on triples of integers                                        *)

Definition key := (Z * Z * Z)%type.

Definition lex3 (a b : key) : bool :=
  let '(a1, a2, a3) := a in let '(b1, b2, b3) := b in
  (a1 <? b1) || ((a1 =? b1) && ((a2 <? b2) || ((a2 =? b2) && (a3 <? b3)))).

Lemma lex3_irrefl a : lex3 a a = false.
Proof. destruct a as [[a1 a2] a3]. unfold lex3. lia. Qed.

Lemma lex3_trans a b c : lex3 a b = true -> lex3 b c = true -> lex3 a c = true.
Proof. destruct a as [[a1 a2] a3], b as [[b1 b2] b3], c as [[c1 c2] c3]. unfold lex3. lia. Qed.

Lemma lex3_total a b : lex3 a b = false -> lex3 b a = false -> a = b.
Proof.
  destruct a as [[a1 a2] a3], b as [[b1 b2] b3]. unfold lex3. intros H1 H2.
  assert (a1 = b1 /\ a2 = b2 /\ a3 = b3) as (-> & -> & ->) by lia. reflexivity.
Qed.

Lemma lex3_order : strict_total_order lex3.
Proof. constructor; [exact lex3_irrefl | exact lex3_trans | exact lex3_total]. Qed.

(* ------------------------------------------------------------------------------------ *)
(* SFcompare as a lexicographic comparison                                               *)

Definition sfkey (f : spec_float) : key :=
  match f with
  | S754_zero _ => (0, 0, 0)
  | S754_infinity s => (if s then -2 else 2, 0, 0)
  | S754_nan => (3, 0, 0)
  | S754_finite s m e => if s then (-1, - e, - Zpos m) else (1, e, Zpos m)
  end.

Lemma SFltb_key f1 f2 :
  f1 <> S754_nan -> f2 <> S754_nan -> SFltb f1 f2 = lex3 (sfkey f1) (sfkey f2).
Proof.
  intros H1 H2.
  destruct f1 as [s1|s1| |s1 m1 e1], f2 as [s2|s2| |s2 m2 e2]; try congruence;
    unfold SFltb, SFcompare, sfkey, lex3;
    try (destruct s1; try destruct s2; reflexivity);
    try (destruct s2; reflexivity).
  change (Pos.compare_cont Eq m1 m2) with (Pos.compare m1 m2).
  destruct s1, s2; try reflexivity;
    destruct (Z.compare_spec e1 e2); destruct (Pos.compare_spec m1 m2); cbn [CompOpp]; lia.
Qed.

Lemma SFeqb_key f1 f2 :
  f1 <> S754_nan -> f2 <> S754_nan -> (SFeqb f1 f2 = true <-> sfkey f1 = sfkey f2).
Proof.
  intros H1 H2.
  destruct f1 as [s1|s1| |s1 m1 e1], f2 as [s2|s2| |s2 m2 e2]; try congruence;
    unfold SFeqb, SFcompare, sfkey;
    try (destruct s1; try destruct s2; split; intros H; (reflexivity || discriminate H));
    try (destruct s2; split; intros H; (reflexivity || discriminate H)).
  change (Pos.compare_cont Eq m1 m2) with (Pos.compare m1 m2).
  destruct s1, s2; try (split; intros H; discriminate H);
    destruct (Z.compare_spec e1 e2) as [He|He|He]; destruct (Pos.compare_spec m1 m2) as [Hm|Hm|Hm];
    cbn [CompOpp]; (split; intros H; [try discriminate H | injection H as Ha Hb; try lia]);
    try reflexivity; subst; reflexivity.
Qed.

Lemma SFltb_nan_l f : SFltb S754_nan f = false.
Proof. reflexivity. Qed.

Lemma SFltb_nan_r f : SFltb f S754_nan = false.
Proof. destruct f; reflexivity. Qed.

Lemma SFeqb_nan_l f : SFeqb S754_nan f = false.
Proof. reflexivity. Qed.

Lemma SFeqb_nan_r f : SFeqb f S754_nan = false.
Proof. destruct f; reflexivity. Qed.

(* two decoded values with the same key differ at most in the sign of zero *)
Lemma sfkey_inj f1 f2 :
  f1 <> S754_nan -> f2 <> S754_nan -> sfkey f1 = sfkey f2 ->
  f1 = f2 \/ (exists s1 s2, f1 = S754_zero s1 /\ f2 = S754_zero s2).
Proof.
  intros H1 H2.
  destruct f1 as [s1|s1| |s1 m1 e1], f2 as [s2|s2| |s2 m2 e2]; try congruence; unfold sfkey.
  - intros _. right. now exists s1, s2.
  - destruct s2; discriminate.
  - destruct s2; discriminate.
  - destruct s1; discriminate.
  - destruct s1, s2; intros H; try discriminate H; now left.
  - destruct s1, s2; discriminate.
  - destruct s1; discriminate.
  - destruct s1, s2; discriminate.
  - destruct s1, s2; intros H; try discriminate H; injection H as Ha Hb; left; f_equal; lia.
Qed.

(* ------------------------------------------------------------------------------------ *)
(* the primitive comparisons                                                             *)

Local Open Scope float_scope.

Definition fkey (x : float) : key := sfkey (Prim2SF x).

(* [nn x]: x is not a NaN  (Python: x == x) *)
Local Notation nn x := (is_nan x = false).

Lemma nn_iff x : nn x <-> Prim2SF x <> S754_nan.
Proof.
  unfold is_nan. rewrite negb_false_iff, eqb_spec. split.
  - intros H E. rewrite E in H. discriminate H.
  - intros H. apply (SFeqb_key _ _ H H). reflexivity.
Qed.

Lemma ltb_key x y : nn x -> nn y -> (x <? y) = lex3 (fkey x) (fkey y).
Proof. intros Hx Hy. rewrite ltb_spec. apply SFltb_key; now apply nn_iff. Qed.

Lemma eqb_key x y : nn x -> nn y -> ((x =? y) = true <-> fkey x = fkey y).
Proof. intros Hx Hy. rewrite eqb_spec. apply SFeqb_key; now apply nn_iff. Qed.

(* a comparison that answers [true] had two non-NaN arguments *)
Lemma nn_dec x : {nn x} + {Prim2SF x = S754_nan}.
Proof.
  destruct (is_nan x) eqn:E; [right | now left].
  destruct (Prim2SF x) eqn:Ep; try reflexivity;
    exfalso; assert (H : Prim2SF x <> S754_nan) by (rewrite Ep; discriminate);
    apply nn_iff in H; congruence.
Qed.

Lemma ltb_true_nn x y : (x <? y) = true -> nn x /\ nn y.
Proof.
  rewrite ltb_spec. intros H. split.
  - destruct (nn_dec x) as [Hx|Hx]; [exact Hx|]. rewrite Hx, SFltb_nan_l in H. discriminate H.
  - destruct (nn_dec y) as [Hy|Hy]; [exact Hy|]. rewrite Hy, SFltb_nan_r in H. discriminate H.
Qed.

Lemma eqb_true_nn x y : (x =? y) = true -> nn x /\ nn y.
Proof.
  rewrite eqb_spec. intros H. split.
  - destruct (nn_dec x) as [Hx|Hx]; [exact Hx|]. rewrite Hx, SFeqb_nan_l in H. discriminate H.
  - destruct (nn_dec y) as [Hy|Hy]; [exact Hy|]. rewrite Hy, SFeqb_nan_r in H. discriminate H.
Qed.

(* ---------- strict weak order ---------- *)

(* irreflexive: on every float, NaN included *)
Theorem ltb_irrefl x : (x <? x) = false.
Proof.
  destruct (x <? x) eqn:E; [|reflexivity]. destruct (ltb_true_nn _ _ E) as [Hx _].
  rewrite (ltb_key x x Hx Hx), lex3_irrefl in E. discriminate E.
Qed.

(* transitive: on every float *)
Theorem ltb_trans x y z : (x <? y) = true -> (y <? z) = true -> (x <? z) = true.
Proof.
  intros H1 H2. destruct (ltb_true_nn _ _ H1) as [Hx Hy]. destruct (ltb_true_nn _ _ H2) as [_ Hz].
  rewrite ltb_key in * by assumption. exact (lex3_trans _ _ _ H1 H2).
Qed.

(* asymmetric: on every float *)
Theorem ltb_asym x y : (x <? y) = true -> (y <? x) = false.
Proof.
  intros H. destruct (y <? x) eqn:E; [|reflexivity].
  rewrite <- (ltb_irrefl x). symmetry. exact (ltb_trans x y x H E).
Qed.

(* "not below" is transitive when the middle element is not NaN
   (with y = NaN both hypotheses hold for every x, z) *)
Theorem ltb_ntrans x y z : nn y -> (x <? y) = false -> (y <? z) = false -> (x <? z) = false.
Proof.
  intros Hy H1 H2. destruct (x <? z) eqn:E; [|reflexivity].
  destruct (ltb_true_nn _ _ E) as [Hx Hz]. rewrite ltb_key in * by assumption.
  destruct (so_trichotomy lex3 lex3_order (fkey x) (fkey y)) as [H|[H|H]].
  - congruence.
  - rewrite H in E. congruence.
  - pose proof (lex3_trans _ _ _ H E). congruence.
Qed.

(* incomparability is transitive on non-NaN floats *)
Theorem incomparable_trans x y z :
  nn y ->
  (x <? y) = false -> (y <? x) = false -> (y <? z) = false -> (z <? y) = false ->
  (x <? z) = false /\ (z <? x) = false.
Proof.
  intros Hy A B C D. split; [exact (ltb_ntrans x y z Hy A C) | exact (ltb_ntrans z y x Hy D B)].
Qed.

(* ---------- [==] is incomparability; equivalence; compatibility ---------- *)

Theorem eqb_iff_incomparable x y :
  nn x -> nn y -> ((x =? y) = true <-> ((x <? y) = false /\ (y <? x) = false)).
Proof.
  intros Hx Hy. rewrite (eqb_key x y Hx Hy), (ltb_key x y Hx Hy), (ltb_key y x Hy Hx). split.
  - intros ->. split; apply lex3_irrefl.
  - intros [A B]. now apply lex3_total.
Qed.

Theorem eqb_refl x : nn x -> (x =? x) = true.
Proof. intros Hx. now apply (eqb_key x x Hx Hx). Qed.

Theorem eqb_sym x y : (x =? y) = (y =? x).
Proof.
  destruct (x =? y) eqn:E1, (y =? x) eqn:E2; try reflexivity.
  - destruct (eqb_true_nn _ _ E1) as [Hx Hy]. apply (eqb_key x y Hx Hy) in E1.
    symmetry in E1. apply (eqb_key y x Hy Hx) in E1. congruence.
  - destruct (eqb_true_nn _ _ E2) as [Hy Hx]. apply (eqb_key y x Hy Hx) in E2.
    symmetry in E2. apply (eqb_key x y Hx Hy) in E2. congruence.
Qed.

Theorem eqb_trans x y z : (x =? y) = true -> (y =? z) = true -> (x =? z) = true.
Proof.
  intros H1 H2. destruct (eqb_true_nn _ _ H1) as [Hx Hy]. destruct (eqb_true_nn _ _ H2) as [_ Hz].
  apply (eqb_key x z Hx Hz). apply (eqb_key x y Hx Hy) in H1. apply (eqb_key y z Hy Hz) in H2.
  congruence.
Qed.

(* [<] does not distinguish [==]-equal floats *)
Theorem ltb_compat x x' y y' : (x =? x') = true -> (y =? y') = true -> (x <? y) = (x' <? y').
Proof.
  intros H1 H2. destruct (eqb_true_nn _ _ H1) as [Hx Hx']. destruct (eqb_true_nn _ _ H2) as [Hy Hy'].
  apply (eqb_key x x' Hx Hx') in H1. apply (eqb_key y y' Hy Hy') in H2.
  rewrite (ltb_key x y Hx Hy), (ltb_key x' y' Hx' Hy'). congruence.
Qed.

(* the [==]-classes: Leibniz-equal, or the two zeros *)
Theorem eqb_classes x y :
  (x =? y) = true <->
  (nn x /\ (x = y \/ (exists s1 s2, Prim2SF x = S754_zero s1 /\ Prim2SF y = S754_zero s2))).
Proof.
  split.
  - intros H. destruct (eqb_true_nn _ _ H) as [Hx Hy]. split; [exact Hx|].
    apply (eqb_key x y Hx Hy) in H.
    destruct (sfkey_inj _ _ (proj1 (nn_iff x) Hx) (proj1 (nn_iff y) Hy) H) as [E|E].
    + left. now apply Prim2SF_inj.
    + now right.
  - intros [Hx [<-|(s1 & s2 & E1 & E2)]]; [now apply eqb_refl|].
    rewrite eqb_spec, E1, E2. reflexivity.
Qed.

(* exactly one of  x < y,  x == y,  y < x  holds for non-NaN floats *)
Theorem float_trichotomy x y :
  nn x -> nn y ->
  ((x <? y) = true /\ (x =? y) = false /\ (y <? x) = false) \/
  ((x <? y) = false /\ (x =? y) = true /\ (y <? x) = false) \/
  ((x <? y) = false /\ (x =? y) = false /\ (y <? x) = true).
Proof.
  intros Hx Hy. pose proof (eqb_iff_incomparable x y Hx Hy) as He.
  destruct (x <? y) eqn:E1, (y <? x) eqn:E2, (x =? y) eqn:E3; auto.
  - rewrite (ltb_asym x y E1) in E2. discriminate E2.
  - rewrite (ltb_asym x y E1) in E2. discriminate E2.
  - destruct (proj1 He eq_refl); discriminate.
  - destruct (proj1 He eq_refl); discriminate.
  - assert (false = true) by now apply He. discriminate.
Qed.

(* ---------- canonical representatives ---------- *)

(* -0 |-> +0, everything else (NaN included) unchanged *)
Definition canon (x : float) : float := if x =? zero then zero else x.

Lemma Prim2SF_zero : Prim2SF zero = S754_zero false.
Proof. reflexivity. Qed.

Lemma nn_zero : nn zero.
Proof. reflexivity. Qed.

Lemma eqb_zero_iff x : (x =? zero) = true <-> exists s, Prim2SF x = S754_zero s.
Proof.
  rewrite eqb_spec, Prim2SF_zero. destruct (Prim2SF x) as [s|s| |s m e]; cbn.
  - split; [intros _; now exists s | reflexivity].
  - split; [destruct s; discriminate | intros [s' H]; discriminate H].
  - split; [discriminate | intros [s' H]; discriminate H].
  - split; [destruct s; discriminate | intros [s' H]; discriminate H].
Qed.

Theorem canon_eqb x : nn x -> (canon x =? x) = true.
Proof.
  intros Hx. unfold canon. destruct (x =? zero) eqn:E; [|now apply eqb_refl].
  now rewrite eqb_sym.
Qed.

Theorem canon_nn x : nn x -> nn (canon x).
Proof. intros Hx. exact (proj1 (eqb_true_nn _ _ (canon_eqb x Hx))). Qed.

Theorem canon_idem x : canon (canon x) = canon x.
Proof.
  unfold canon. destruct (x =? zero) eqn:E.
  - now rewrite (eqb_refl zero nn_zero).
  - now rewrite E.
Qed.

(* one representative per class *)
Theorem canon_class x y : (x =? y) = true -> canon x = canon y.
Proof.
  intros H. unfold canon. destruct (x =? zero) eqn:Ex, (y =? zero) eqn:Ey; try reflexivity.
  - rewrite eqb_sym in H. rewrite (eqb_trans y x zero H Ex) in Ey. discriminate Ey.
  - rewrite (eqb_trans x y zero H Ey) in Ex. discriminate Ex.
  - apply eqb_classes in H. destruct H as [_ [E|(s1 & s2 & E1 & E2)]]; [exact E|].
    assert (Hz : (x =? zero) = true) by (apply eqb_zero_iff; now exists s1). congruence.
Qed.

Theorem canon_ltb x y : nn x -> nn y -> (canon x <? canon y) = (x <? y).
Proof. intros Hx Hy. apply ltb_compat; now apply canon_eqb. Qed.

Theorem canon_eq_iff x y : nn x -> nn y -> (canon x = canon y <-> (x =? y) = true).
Proof.
  intros Hx Hy. split; [|apply canon_class].
  intros E. apply (eqb_trans x (canon x) y); [rewrite eqb_sym; now apply canon_eqb|].
  rewrite E. now apply canon_eqb.
Qed.

(* ---------- the canonical non-NaN floats: a strict total order ---------- *)

(* not NaN and not -0, decided on the decoded value *)
Definition nfok (x : float) : bool :=
  match Prim2SF x with S754_nan => false | S754_zero true => false | _ => true end.

Definition nfloat : Set := { x : float | nfok x = true }.
Definition nfval (a : nfloat) : float := proj1_sig a.
Definition nfltb (a b : nfloat) : bool := nfval a <? nfval b.

Lemma nfok_nn x : nfok x = true -> nn x.
Proof. unfold nfok. intros H. apply nn_iff. intros E. rewrite E in H. discriminate H. Qed.

Lemma nfok_canon x : nn x -> nfok (canon x) = true.
Proof.
  intros Hx. unfold canon. destruct (x =? zero) eqn:E; [reflexivity|].
  unfold nfok. destruct (Prim2SF x) as [s|s| |s m e] eqn:Ep; try reflexivity.
  - assert (Hz : (x =? zero) = true) by (apply eqb_zero_iff; now exists s). congruence.
  - apply nn_iff in Hx. congruence.
Qed.

Lemma nfok_canon_fix x : nfok x = true -> canon x = x.
Proof.
  intros H. unfold canon. destruct (x =? zero) eqn:E; [|reflexivity].
  apply eqb_zero_iff in E. destruct E as [s E]. unfold nfok in H. rewrite E in H.
  destruct s; [discriminate H|]. apply Prim2SF_inj. now rewrite E.
Qed.

Lemma nfloat_ext (a b : nfloat) : nfval a = nfval b -> a = b.
Proof.
  destruct a as [x Hx], b as [y Hy]. cbn [nfval proj1_sig]. intros E. subst y.
  f_equal. apply UIP_dec. apply bool_dec.
Qed.

Definition to_nfloat (x : float) (Hx : nn x) : nfloat := exist _ (canon x) (nfok_canon x Hx).

Theorem nfloat_order : strict_total_order nfltb.
Proof.
  constructor; unfold nfltb.
  - intros a. apply ltb_irrefl.
  - intros a b c. apply ltb_trans.
  - intros [x Hx] [y Hy]. cbn [nfval proj1_sig]. intros A B. apply nfloat_ext. cbn [nfval proj1_sig].
    rewrite <- (nfok_canon_fix x Hx), <- (nfok_canon_fix y Hy). apply canon_class.
    apply eqb_iff_incomparable; auto using nfok_nn.
Qed.

(* every non-NaN float is [==] to the value of exactly one canonical float *)
Theorem to_nfloat_eqb x (Hx : nn x) : (nfval (to_nfloat x Hx) =? x) = true.
Proof. cbn [to_nfloat nfval proj1_sig]. now apply canon_eqb. Qed.

Theorem to_nfloat_ltb x y (Hx : nn x) (Hy : nn y) :
  nfltb (to_nfloat x Hx) (to_nfloat y Hy) = (x <? y).
Proof. unfold nfltb. cbn [to_nfloat nfval proj1_sig]. now apply canon_ltb. Qed.

(* ------------------------------------------------------------------------------------ *)
(* the integer read off the IEEE-754 bit pattern (harness/common.py: enc)                 *)

(* binary64 layout: sign (1 bit), biased exponent E (11 bits), fraction f (52 bits); the 63 low
   bits read as an integer are  E * 2^52 + f.  In terms of the decoded value (m, e) of a finite
   number - m < 2^53, and m >= 2^52 unless e = emin = -1074 - this is  (e + 1074) * 2^52 + m  for
   normal (E = e + 1075, f = m - 2^52) and subnormal (E = 0, f = m, e = -1074) numbers alike;
   infinity is E = 2047, f = 0.  [enc] negates that integer when the sign bit is set, so both
   zeros go to 0. *)
Local Open Scope Z_scope.

Definition sfenc (f : spec_float) : Z :=
  match f with
  | S754_zero _ => 0
  | S754_infinity s => if s then - (2047 * 2 ^ 52) else 2047 * 2 ^ 52
  | S754_nan => 0
  | S754_finite s m e => if s then - ((e + 1074) * 2 ^ 52 + Zpos m) else (e + 1074) * 2 ^ 52 + Zpos m
  end.

Definition fenc (x : float) : Z := sfenc (Prim2SF x).

Lemma digits2_pos_bounds m :
  2 ^ (Zpos (digits2_pos m) - 1) <= Zpos m < 2 ^ (Zpos (digits2_pos m)).
Proof.
  induction m as [m IH|m IH|]; cbn [digits2_pos].
  - rewrite Pos2Z.inj_succ. replace (Z.succ (Zpos (digits2_pos m)) - 1) with (Z.succ (Zpos (digits2_pos m) - 1)) by lia.
    rewrite !Z.pow_succ_r by lia. lia.
  - rewrite Pos2Z.inj_succ. replace (Z.succ (Zpos (digits2_pos m)) - 1) with (Z.succ (Zpos (digits2_pos m) - 1)) by lia.
    rewrite !Z.pow_succ_r by lia. lia.
  - cbn. lia.
Qed.

(* what [valid_binary] says about a finite binary64 value *)
Lemma valid_finite_bounds s m e :
  valid_binary (S754_finite s m e) = true ->
  -1074 <= e <= 971 /\ Zpos m < 2 ^ 53 /\ (-1074 < e -> 2 ^ 52 <= Zpos m).
Proof.
  unfold SpecFloat.valid_binary, bounded, canonical_mantissa, fexp, SpecFloat.emin, prec, emax.
  intros H. apply andb_true_iff in H. destruct H as [H1 H2].
  apply Zeq_bool_eq in H1. apply Z.leb_le in H2.
  pose proof (digits2_pos_bounds m) as [B1 B2].
  set (d := Zpos (digits2_pos m)) in *.
  assert (Hd : d = 53 \/ (d <= 53 /\ e = -1074)) by lia.
  destruct Hd as [Hd|[Hd He]].
  - rewrite Hd in B1, B2. change (53 - 1) with 52 in B1. repeat split; lia.
  - assert (2 ^ d <= 2 ^ 53) by (apply Z.pow_le_mono_r; lia). repeat split; lia.
Qed.

Lemma sfenc_ltb f1 f2 :
  valid_binary f1 = true -> valid_binary f2 = true -> f1 <> S754_nan -> f2 <> S754_nan ->
  lex3 (sfkey f1) (sfkey f2) = (sfenc f1 <? sfenc f2).
Proof.
  intros V1 V2 N1 N2.
  destruct f1 as [s1|s1| |s1 m1 e1], f2 as [s2|s2| |s2 m2 e2]; try congruence;
    try (pose proof (valid_finite_bounds _ _ _ V1)); try (pose proof (valid_finite_bounds _ _ _ V2));
    unfold sfkey, sfenc, lex3;
    repeat match goal with s : bool |- _ => destruct s end;
    set (P52 := 2 ^ 52) in *; assert (P52 = 4503599627370496) by reflexivity;
    set (P53 := 2 ^ 53) in *; assert (P53 = 9007199254740992) by reflexivity; lia.
Qed.

Lemma sfenc_inj f1 f2 :
  valid_binary f1 = true -> valid_binary f2 = true -> f1 <> S754_nan -> f2 <> S754_nan ->
  (sfkey f1 = sfkey f2 <-> sfenc f1 = sfenc f2).
Proof.
  intros V1 V2 N1 N2.
  pose proof (sfenc_ltb f1 f2 V1 V2 N1 N2) as A. pose proof (sfenc_ltb f2 f1 V2 V1 N2 N1) as B.
  split.
  - intros E. rewrite E, lex3_irrefl in A, B. lia.
  - intros E. apply lex3_total; [rewrite A | rewrite B]; lia.
Qed.

Local Open Scope float_scope.

(* [enc] is an order embedding of the non-NaN floats into the integers *)
Theorem fenc_ltb x y : is_nan x = false -> is_nan y = false -> (x <? y) = (fenc x <? fenc y)%Z.
Proof.
  intros Hx Hy. rewrite (ltb_key x y Hx Hy). unfold fkey, fenc.
  apply sfenc_ltb; try apply Prim2SF_valid; now apply nn_iff.
Qed.

Theorem fenc_eqb x y : is_nan x = false -> is_nan y = false -> (x =? y) = (fenc x =? fenc y)%Z.
Proof.
  intros Hx Hy.
  pose proof (sfenc_inj (Prim2SF x) (Prim2SF y) (Prim2SF_valid x) (Prim2SF_valid y)
                (proj1 (nn_iff x) Hx) (proj1 (nn_iff y) Hy)) as Hi.
  pose proof (eqb_key x y Hx Hy) as Hk. unfold fkey in Hk. fold (fenc x) (fenc y) in Hi.
  destruct (x =? y) eqn:E.
  - symmetry. apply Z.eqb_eq. apply Hi. now apply Hk.
  - symmetry. apply Z.eqb_neq. intros F. apply Hi in F. apply Hk in F. discriminate F.
Qed.

(* range: the finite non-NaN floats are encoded strictly between the two infinities *)
Theorem fenc_range x : is_nan x = false -> (- (2047 * 2 ^ 52) <= fenc x <= 2047 * 2 ^ 52)%Z.
Proof.
  intros Hx. unfold fenc. pose proof (Prim2SF_valid x) as V.
  destruct (Prim2SF x) as [s|s| |s m e]; unfold sfenc.
  - lia.
  - destruct s; lia.
  - lia.
  - pose proof (valid_finite_bounds _ _ _ V).
    set (P52 := (2 ^ 52)%Z) in *; assert (P52 = 4503599627370496%Z) by reflexivity;
    set (P53 := (2 ^ 53)%Z) in *; assert (P53 = 9007199254740992%Z) by reflexivity.
    destruct s; lia.
Qed.

(* spot checks against the bit patterns (struct.pack(">d", x)) *)
Example fenc_one : fenc 1 = 0x3FF0000000000000%Z.
Proof. reflexivity. Qed.
Example fenc_mzero : fenc (-0) = 0%Z /\ fenc 0 = 0%Z.
Proof. split; reflexivity. Qed.
Example fenc_minus_two_and_a_half : fenc (-2.5) = (- 0x4004000000000000)%Z.
Proof. reflexivity. Qed.
Example fenc_min_subnormal : fenc 0x1p-1074 = 1%Z.
Proof. reflexivity. Qed.
Example fenc_float_max : fenc 0x1.fffffffffffffp+1023 = 0x7FEFFFFFFFFFFFFF%Z.
Proof. reflexivity. Qed.
Example fenc_infinity : fenc infinity = 0x7FF0000000000000%Z /\ fenc neg_infinity = (- 0x7FF0000000000000)%Z.
Proof. split; reflexivity. Qed.
