(* One prediction function, at the reals (continuation of Proofs/KnnLink.v).

   Over R the sentinel clause "E(FLOAT_MAX) = 0" of KnnLink.terms_agree_sentinel is false for the real
   function x |-> exp(-x/c).  It is not needed: with k <= n candidates all strictly below FLOAT_MAX
   (the hypotheses of Props/C14_pipeline.v) no slot among the first k still holds the sentinel after the
   scan, whatever the scratch array contained, so the table form reads table[neighbours[l]] in every
   slot.  Hence Model/KnnLearn.predict_batch at [ROps] - the prediction used INSIDE the whole-fit model
   of Props/C16_fit.v for the validation set - is the map of Model/KnnPredict.knn_query, the term the
   theorems of Props/C14_pipeline.v characterise, with E = the function the tables tabulate. *)
From Coq Require Import Reals List Arith Bool ZArith Lia Lra.
From OPF Require Import Base.Lists Base.NumOps Base.TotalOrder Model.Heap Model.Knn Model.Pdf Model.KnnFit
  Model.KnnPredict Model.KnnLearn Model.KnnLink Proofs.PdfBase Proofs.Lift2Predict Proofs.KnnPipeline
  Proofs.KnnPredictPipelineMain Proofs.KnnLink.
Import ListNotations.
Local Open Scope R_scope.

Theorem terms_agree_R (fmax : R) (E : R -> R) (k n : nat) (q : (nat -> R) * (nat -> R)) :
  (k <= n)%nat ->
  (forall j, (j < n)%nat -> fst q j < fmax) ->
  (forall j, (j < n)%nat -> snd q j = E (fst q j)) ->
  terms_agree ROps fmax E k n q.
Proof.
  intros Hkn Hd He ns0 ds ns L Hs l Hl.
  destruct (knn_predict_neighbours_anyorder Rltb Rltb_order fmax k n (fst q) ns0 ltac:(lia)
              (fun j Hj => proj2 (Rltb_true_iff _ _) (Hd j Hj)) ds ns Hs) as (Hfill & _).
  rewrite (Nat.min_l k n Hkn) in Hfill.
  destruct (Hfill l Hl) as (Hj & Ed & Hlt).
  apply Rltb_true_iff in Hlt.
  unfold table_term. change (neqb ROps) with Reqb.
  assert (Hq : Reqb (nth l ds fmax) fmax = false) by (apply Reqb_false_iff; lra).
  rewrite Hq, Ed. apply He. exact Hj.
Qed.

(* (c) = (a) over R: a whole predict call of the whole-fit model = the map of knn_query *)
Theorem predict_batch_query_R (fmax eps : R) (E : R -> R) (g : @knn R) (c mn mx : R) (k : nat)
        (qs : list ((nat -> R) * (nat -> R))) :
  let n := length (k_label g) in
  (k <= n)%nat ->
  (forall q, In q qs -> forall j, (j < n)%nat -> fst q j < fmax /\ snd q j = E (fst q j)) ->
  predict_batch ROps fmax eps 1000 g k n mn mx qs
  = map (fun q => label_of g (knn_query ROps fmax eps 1000 E (g, (c, mn, mx)) k (fst q))) qs.
Proof.
  intros n Hkn Hq. unfold n in *. clear n.
  rewrite (predict_batch_query ROps fmax eps 1000 E g c mn mx k qs).
  - rewrite knn_query_batch_pointwise.
    + rewrite !map_map. reflexivity.
    + cbn [fst]. intros dq Hin j Hj. apply in_map_iff in Hin. destruct Hin as (q & <- & Hin).
      exact (proj1 (Hq q Hin j Hj)).
  - intros q Hin. apply terms_agree_R; [exact Hkn | |]; intros j Hj; apply (Hq q Hin j Hj).
Qed.

Lemma map_fst_combine {A B C} (f : A -> C) : forall (l : list A) (l' : list B), length l = length l' ->
  map (fun q => f (fst q)) (combine l l') = map f l.
Proof.
  induction l as [|a l IH]; intros [|b l'] H; cbn [combine map length] in *; try reflexivity; try discriminate.
  f_equal. apply IH. now injection H.
Qed.

(* the shape in which KnnLearn.sup_candidate calls it: validation row v has distances [nth v dqs] and
   the table [eqt v] *)
Theorem validation_predictions_R (fmax eps : R) (E : R -> R) (g : @knn R) (c mn mx : R) (k : nat)
        (dqs : list (nat -> R)) (eqt : nat -> nat -> R) (d0 : nat -> R) :
  let n := length (k_label g) in
  (k <= n)%nat ->
  (forall v j, (v < length dqs)%nat -> (j < n)%nat ->
     nth v dqs d0 j < fmax /\ eqt v j = E (nth v dqs d0 j)) ->
  predict_batch ROps fmax eps 1000 g k n mn mx (combine dqs (map eqt (seq 0 (length dqs))))
  = map (fun dq => label_of g (knn_query ROps fmax eps 1000 E (g, (c, mn, mx)) k dq)) dqs.
Proof.
  intros n Hkn H. unfold n in *. clear n.
  assert (Hlen : length dqs = length (map eqt (seq 0 (length dqs)))) by now rewrite map_length, seq_length.
  rewrite (predict_batch_query_R fmax eps E g c mn mx k _ Hkn).
  - apply (map_fst_combine (fun dq => label_of g (knn_query ROps fmax eps 1000 E (g, (c, mn, mx)) k dq))).
    exact Hlen.
  - intros q Hin j Hj.
    destruct (In_nth _ _ (d0, eqt 0%nat) Hin) as (v & Hv & Ev).
    rewrite combine_length, <- Hlen, Nat.min_id in Hv.
    rewrite combine_nth in Ev by exact Hlen. subst q. cbn [fst snd].
    rewrite (nth_indep _ (eqt 0%nat) (eqt (length dqs))) by (rewrite <- Hlen; exact Hv).
    rewrite map_nth, seq_nth by exact Hv. cbn [plus]. exact (H v j Hv Hj).
Qed.

(* with the actual terms: E x = exp(-x / c) *)
Theorem validation_predictions_exp (fmax eps : R) (g : @knn R) (c mn mx : R) (k : nat)
        (dqs : list (nat -> R)) (eqt : nat -> nat -> R) (d0 : nat -> R) :
  let n := length (k_label g) in
  (k <= n)%nat ->
  (forall v j, (v < length dqs)%nat -> (j < n)%nat ->
     nth v dqs d0 j < fmax /\ eqt v j = exp (- nth v dqs d0 j / c)) ->
  predict_batch ROps fmax eps 1000 g k n mn mx (combine dqs (map eqt (seq 0 (length dqs))))
  = map (fun dq => label_of g (knn_query ROps fmax eps 1000 (fun x => exp (- x / c)) (g, (c, mn, mx)) k dq)) dqs.
Proof. exact (validation_predictions_R fmax eps (fun x => exp (- x / c)) g c mn mx k dqs eqt d0). Qed.
